import GohbaseVerif.Model.Receive
/-!
Driver commands for C11 (model name `c11`). Lines (tokens separated by one space):

* `frame <kind> <q> <setup> <id> <exc> <cbm> <hl> <rl> <resp> <tail> <obs> <d> <reader> <fobs> <fd> <freader> left=<n>`
  — a structured response. `kind` = get|app|scan|multi; `setup` = `-` or `<nreg>:<c>.<c>…` with
  `c` = `g<r>` | `a<r>` (Get / Append whose region is the `r`-th RegionAction) | `x` (dropped);
  `id` = own|none|unk; `exc` = `n` | `e:<class hex|_>:<stack hex|_>`; `cbm` = `n` | `p` | length;
  `hl`/`rl` the bytes `ConsumeBytes` consumes for header / response (`rl = -1`: it fails);
  `resp` = `absent` | `undec` | `R:<res>` | `S:<cpr>:<flags>:<inline results>` | `M:<rar>;…` with
  `res` = `n` | `<count|_>+<inline cells>`, `rar` = `<exc>|<roe>,…`, `roe` = `<index|_>/<res>/<exc>`,
  region / action `exc` = `n` | `e~<name hex|_>~<value hex|_>`; `tail` = the bytes after the response.
  Then what the implementation showed: per call (joined by `.`) `none` or its results joined by `+`
  (`ok:<payload>` | retryable | nsre | connErr | fatal), `d0|d1` (connection failed), the reader
  goroutine (`parked` at Read | `exited` | `blocked` | `busy`) — after the response and after Close —
  and the number of goroutines left inside the region package.
  The model's verdict (`receiveDecide`) gives the expected per-call results, `d1`/`exited` iff
  `receive` returns a `ServerError` — unusable call id, server-class exception in the header, or a
  server-class exception inside an accepted multi response (tag `srvexc-ends-conn`; the calls of
  the multi then hold the results `returnResults` gave them *and* the connection is down).
* `raw <kind> <q> <setup> <hex> <obs> <d> <reader> <obs> <d> <reader> <fobs> <fd> <freader> left=<n>`
  — raw bytes, then EOF, then Close: only the monitors apply.
* `crash|oom|hang <kind> …` — the child process died (panic / runtime out of memory while
  allocating a wire-declared size / no progress) while processing the described input.
* `info <value hex> <server hex|_> <short|err|offline|ok> <ok|err|bad|panic>`
* `coalesce <allowPartial> <script> <results>`

Monitors (SPEC, judged on the implementation's observation alone): `panic-<kind>`, `alloc-<kind>`,
`hang-<kind>`, `reader-blocked`, `spin-<kind>`, `stranded`, `double-result`, `goroutine-blocked`,
`no-orderly-failure`.
-/
namespace GV.Drive.C11
open GV GV.Cell GV.Receive

def optHex (s : String) : Option (Option Bytes) :=
  if s = "_" then some none else (fromHex s).map some

def inlineCell : Cell := ⟨[105], [102], [113], 7, 4, [120]⟩

/-- `n` | `<count|_>+<inline cells>` -/
def parseRes (s : String) : Option (Option PResult) :=
  if s = "n" then some none else
  match s.splitOn "+" with
  | [a, k] => do
    let acc ← if a = "_" then some none else a.toInt?.map some
    let k ← k.toNat?
    some (some { cells := List.replicate k inlineCell, assocCount := acc })
  | _ => none

/-- `n` | `e~<name>~<value>` -/
def parseNBP (s : String) : Option (Option NameBytesPair) :=
  if s = "n" then some none else
  match s.splitOn "~" with
  | ["e", n, v] => do
    let n ← optHex n
    let v ← optHex v
    some (some ⟨n, v⟩)
  | _ => none

def parseRoe (s : String) : Option ResultOrException :=
  match s.splitOn "/" with
  | [i, r, e] => do
    let i ← if i = "_" then some none else i.toNat?.map some
    let r ← parseRes r
    let e ← parseNBP e
    some ⟨i, r, e⟩
  | _ => none

def parseRar (s : String) : Option RegionActionResult :=
  match s.splitOn "|" with
  | [e, rs] => do
    let e ← parseNBP e
    let roes ← if rs = "-" then some [] else (rs.splitOn ",").mapM parseRoe
    some ⟨roes, e⟩
  | _ => none

def parseInl (s : String) : Option PResult :=
  let cs := s.toList
  match cs.reverse with
  | f :: rest =>
    match (String.ofList rest.reverse).toNat? with
    | some n =>
      let p := if f = 'p' then some (some true) else if f = 'f' then some (some false)
        else if f = '_' then some none else none
      p.map fun p => { cells := List.replicate n inlineCell, partialFlag := p }
    | none => none
  | [] => none

/-- The decoded response for the call kind. -/
def parseResp (kind resp : String) : Option Decoded :=
  if resp = "undec" || resp = "absent" then some {} else
  match resp.splitOn ":" with
  | ["R", r] => do
    let r ← parseRes r
    if kind = "get" then some { get := some ⟨r⟩ } else some { mutate := some ⟨r⟩ }
  | ["S", cpr, fl, inl] => do
    let cpr ← if cpr = "-" then some [] else (cpr.splitOn ".").mapM String.toNat?
    let fl := if fl = "-" then [] else fl.toList.map (· == 't')
    let inl ← if inl = "-" then some [] else (inl.splitOn ".").mapM parseInl
    some { scan := some ⟨cpr, fl, inl⟩ }
  | ["M", rars] => do
    let rars ← if rars = "-" then some [] else (rars.splitOn ";").mapM parseRar
    some { multi := some ⟨rars⟩ }
  | _ => none

def parseCall (s : String) : Option (Option MCall) :=
  match s.toList with
  | ['x'] => some none
  | k :: r =>
    match (String.ofList r).toNat? with
    | some r => if k = 'g' then some (some ⟨.get, r⟩) else if k = 'a' then some (some ⟨.mutate, r⟩) else none
    | none => none
  | [] => none

def parseRpc (kind setup : String) : Option Rpc :=
  match kind with
  | "get" => some .get
  | "app" => some .mutate
  | "scan" => some .scan
  | "multi" =>
    match setup.splitOn ":" with
    | [n, cs] => do
      let n ← n.toNat?
      let cs ← (cs.splitOn ".").mapM parseCall
      some (.multi ⟨cs, List.range n⟩)
    | _ => none
  | _ => none

def liveOf (rpc : Rpc) : List Bool :=
  match rpc with
  | .multi m => m.calls.map Option.isSome
  | _ => [true]

def parseExc (s : String) : Option (Option ExceptionResponse) :=
  if s = "n" then some none else
  match s.splitOn ":" with
  | ["e", c, st] => do
    let c ← optHex c
    let st ← optHex st
    some (some ⟨c, st⟩)
  | _ => none

def parseCbm (s : String) : Option (Option (Option Nat)) :=
  if s = "n" then some none else if s = "p" then some (some none) else s.toNat?.map (fun n => some (some n))

/-! ### rendering -/

def clsStr : ErrCls → String
  | .retryable => "retryable"
  | .nsre => "nsre"
  | .connErr => "connErr"
  | .fatal => "fatal"

def resStr (r : PResult) : String :=
  toString r.cells.length ++ (match r.partialFlag with | some true => "p" | some false => "f" | none => "_")

def payload : Msg → String
  | .nil => "nil"
  | .get r | .mutate r => match r.result with | none => "n" | some res => toString res.cells.length
  | .scan r => "S" ++ (if r.results.isEmpty then "-" else ",".intercalate (r.results.map resStr))
  | .multi _ => "other"
  | .other => "other"

def delivStr (d : Delivery) : String :=
  match d.err with
  | some e => clsStr e
  | none => "ok:" ++ payload d.msg

/-- Per call: the results it holds, in order. -/
def perCall (n : Nat) (ds : List (Nat × Delivery)) : List (List String) :=
  (List.range n).map fun j => (ds.filter (·.1 == j)).map (delivStr ·.2)

def obsStr (pc : List (List String)) : String :=
  ".".intercalate (pc.map fun rs => if rs.isEmpty then "none" else "+".intercalate rs)

/-! ### monitors on the observation -/

/-- `obs` per call → list of results. -/
def splitObs (s : String) : List (List String) :=
  (s.splitOn ".").map fun c => if c = "none" then [] else c.splitOn "+"

def monitors (kind : String) (live : List Bool) (stages : List (String × String × String))
    (left : String) : Option String :=
  if stages.any (fun s => s.2.2 = "blocked") then some "SPEC key=reader-blocked the connection's reader goroutine is blocked forever"
  else if stages.any (fun s => s.2.2 = "busy") then some s!"SPEC key=spin-{kind} goroutines still running after the response"
  else
    match stages.getLast? with
    | none => none
    | some (fobs, fd, _) =>
      let pcs := stages.map (fun s => splitObs s.1)
      if pcs.any (fun pc => pc.any (fun rs => rs.length > 1)) then some "SPEC key=double-result a call received two results"
      else if ((splitObs fobs).zip live).any (fun p => p.2 && p.1.isEmpty) then
        some "SPEC key=stranded a registered call has no result after the connection was closed"
      else if fd ≠ "d1" then some "SPEC key=no-orderly-failure connection not failed after Close"
      else if left ≠ "left=0" then some s!"SPEC key=goroutine-blocked {left} goroutines left in the region package after Close"
      else none

/-! ### commands -/

def frameCmd (kind setup id exc cbm hl rl resp tail obs d rd fobs fd frd left : String) : String :=
  match parseRpc kind setup with
  | none => "BAD setup"
  | some rpc =>
  let live := liveOf rpc
  match monitors kind live [(obs, d, rd), (fobs, fd, frd)] left with
  | some v => v
  | none =>
  match parseExc exc, parseCbm cbm, hl.toNat?, rl.toInt?, parseResp kind resp, fromHex tail with
  | some excV, some cbmV, some hl, some rl, some dec, some tailB =>
    let callId : Option Nat := if id = "own" then some 1 else if id = "unk" then some 1001 else none
    let respLen : Option Nat := if rl < 0 then none else some rl.toNat
    let dec : Decoded := if resp = "undec" then {} else dec
    let body := List.replicate (hl + respLen.getD 0) (0 : UInt8) ++ tailB
    let f : Frame := ⟨body, hl, ⟨callId, excV, cbmV⟩, respLen, dec⟩
    let lookup : Nat → Option Rpc := fun i => if i = 1 then some rpc else none
    match receiveDecide lookup false none f with
    | .fault w => s!"DIFF model=fault({w}) impl={obs}"
    | .err e => s!"DIFF model=err({e}) impl={obs}"
    | .ok v =>
      -- a connection failure completes the call that is still registered (C03)
      let ds : Outcome (List (Nat × Delivery)) :=
        if v.connFail && v.deliveries.isEmpty then returnResult rpc .nil (some .connErr) else .ok v.deliveries
      match ds with
      | .fault w => s!"DIFF model=fault({w}) impl={obs}"
      | .err e => s!"DIFF model=err({e}) impl={obs}"
      | .ok ds =>
        let pc := perCall live.length ds
        let mobs := obsStr pc
        let md := if v.connFail then "d1" else "d0"
        let mrd := if v.connFail then "exited" else "parked"
        let fpc := (pc.zip live).map fun p => if p.1.isEmpty && p.2 then ["connErr"] else p.1
        let mfobs := obsStr fpc
        if mobs ≠ obs || md ≠ d || mrd ≠ rd then s!"DIFF model={mobs},{md},{mrd} impl={obs},{d},{rd}"
        else if mfobs ≠ fobs then s!"DIFF after-close model={mfobs} impl={fobs}"
        else
          let cls := if id ≠ "own" then s!"id-{id}" else if exc ≠ "n" then "hdr-exception"
            else if mobs.startsWith "ok" || (mobs.splitOn ".ok").length > 1 then "delivered" else "rejected"
          let cb := if tail = "-" then "nocb" else "cb"
          let drop := if live.any (!·) then ",dropped" else ""
          let cf := if v.connFail then ",connfail" else ""
          -- a multi response that mentions a server-class exception (region-level or per-action):
          -- accepted → the calls have their results and the connection has failed (`finishOk`);
          -- rejected, or overruled by the header → it changes nothing
          let mentions := match dec.multi with | some mr => serverErrorIn mr | none => false
          let sx := if !(mentions && id = "own") then ""
            else if exc = "n" && v.connFail then ",srvexc-ends-conn" else ",srvexc-not-accepted"
          s!"OK tags=frame,{kind},{cls},{cb}{drop}{cf}{sx}"
  | _, _, _, _, _, _ => "BAD frame fields"

def rawCmd (kind setup hex o1 d1 r1 o2 d2 r2 fobs fd frd left : String) : String :=
  match parseRpc kind setup, fromHex hex with
  | some rpc, some b =>
    let live := liveOf rpc
    match monitors kind live [(o1, d1, r1), (o2, d2, r2), (fobs, fd, frd)] left with
    | some v => v
    | none =>
      if d2 ≠ "d1" then "SPEC key=no-orderly-failure connection alive after EOF"
      else
        let complete := b.length ≥ 4 && beNat (b.take 4) + 4 ≤ b.length
        let t := if !complete then "incomplete" else if (o1.splitOn "ok:").length > 1 then "delivered" else "rejected"
        s!"OK tags=raw,{kind},{t}"
  | _, _ => "BAD raw fields"

def infoCmd (hex srv pbs impl : String) : String :=
  match fromHex hex, optHex srv with
  | some v, some srv =>
    if impl = "panic" then "SPEC key=panic-info ParseRegionInfo panicked"
    else if impl = "bad" then "SPEC key=info-incomplete ParseRegionInfo returned neither an error nor a region and an address"
    else
      let decode : Bytes → Option RegionInfoPB := fun _ =>
        if pbs = "ok" then some ⟨false, some ([], [])⟩
        else if pbs = "offline" then some ⟨true, some ([], [])⟩ else none
      let cells := [(MetaQual.regioninfo, v)] ++ (match srv with | some s => [(MetaQual.server, s)] | none => [])
        ++ [(MetaQual.other, [1])]
      let m := match parseRegionInfo decode cells with
        | .ok _ => "ok" | .err _ => "err" | .fault _ => "panic"
      if m ≠ impl then s!"DIFF model={m} impl={impl}"
      else s!"OK tags=info,{m},pb-{pbs},len{min v.length 5}"
  | _, _ => "BAD info fields"

def parseCoRes (s : String) : Option PResult :=
  match s.splitOn ":" with
  | [row, n, fl] => do
    let n ← n.toNat?
    let row : Nat := (row.toNat?).getD 0
    let c : Cell := ⟨[UInt8.ofNat row], [102], [], 1, 4, [118]⟩
    some { cells := List.replicate n c,
           partialFlag := if fl.startsWith "p" then some true else none,
           stale := if fl.endsWith "s" then some true else none }
  | _ => none

def coResStr (r : PResult) : String :=
  let row := match r.cells with
    | [] => "-"
    | c :: cs => if cs.all (·.row == c.row) then toString (c.row.headD 0).toNat else "mixed"
  let fl := (if r.partialFlag.getD false then "p" else "f") ++ (if r.stale.getD false then "s" else "")
  s!"{row}:{r.cells.length}:{fl}"

/-- Repeated `Next` until EOF (`fuel` = one more than the number of results: every successful `Next`
consumes at least one of them, see `Props.C11`). -/
def drainNext : Nat → List PResult → Outcome (List PResult)
  | 0, _ => .ok []
  | fuel + 1, buf =>
    match nextLoop none buf with
    | .ok (none, _) => .ok []
    | .ok (some r, rest) => (drainNext fuel rest).map (r :: ·)
    | .err e => .err e
    | .fault w => .fault w

def coalesceCmd (ap script impl : String) : String :=
  if impl = "panic" || (impl.splitOn "panic").length > 1 then "SPEC key=panic-coalesce the scanner panicked"
  else if impl = "spin" then "SPEC key=spin-coalesce Next does not reach EOF"
  else
    let resps := if script = "-" then [] else script.splitOn ";"
    let flat := resps.map fun r => if r = "-" then some [] else (r.splitOn ",").mapM parseCoRes
    if flat.any Option.isNone then "BAD coalesce script" else
    let buf := (flat.filterMap id).flatten
    let m : Outcome (List PResult) := if ap = "1" then .ok buf else drainNext (buf.length + 1) buf
    match m with
    | .fault w => s!"DIFF model=fault({w}) impl={impl}"
    | .err e => s!"DIFF model=err({e}) impl={impl}"
    | .ok rs =>
      let ms := ",".intercalate (rs.map coResStr ++ ["EOF"])
      if ms ≠ impl then s!"DIFF model={ms} impl={impl}"
      else
        let z := if buf.any (fun r => r.cells.isEmpty && r.partialFlag.getD false) then ",zero-cell-partial" else ""
        let e := if buf.isEmpty then ",empty" else ""
        s!"OK tags=coalesce,ap{ap}{z}{e}"

def handle : List String → String
  | ["frame", kind, _q, setup, id, exc, cbm, hl, rl, resp, tail, obs, d, rd, fobs, fd, frd, left] =>
    frameCmd kind setup id exc cbm hl rl resp tail obs d rd fobs fd frd left
  | ["raw", kind, _q, setup, hex, o1, d1, r1, o2, d2, r2, fobs, fd, frd, left] =>
    rawCmd kind setup hex o1 d1 r1 o2 d2 r2 fobs fd frd left
  | "crash" :: kind :: rest =>
    s!"SPEC key=panic-{kind} the client process crashed on: {" ".intercalate rest}"
  | "oom" :: kind :: rest =>
    s!"SPEC key=alloc-{kind} the runtime ran out of memory allocating a wire-declared size on: {" ".intercalate rest}"
  | "hang" :: kind :: rest =>
    s!"SPEC key=hang-{kind} no progress on: {" ".intercalate rest}"
  | ["info", hex, srv, pbs, impl] => infoCmd hex srv pbs impl
  | ["metarow", row, impl] =>
    -- a meta row whose key is not a region name (`table,startkey,id…`: at least two commas): the
    -- client either refuses the row or can live with the region it made of it
    if impl = "panic" then s!"SPEC key=panic-metarow a meta row with the key {row} crashed the client (location cache)"
    else
      let commas := match fromHex row with
        | some b => (b.filter (· == 44)).length
        | none => 0
      s!"OK tags=metarow,{impl},commas{min commas 3}"
  | ["scanextra", mode, impl] =>
    -- optional parts of a ScanResponse the scan did not ask for reach the scanner
    if impl = "panic" then s!"SPEC key=panic-scanner a ScanResponse with {mode} crashed Scanner.Next"
    else if impl = "hang" then s!"SPEC key=spin-scanner a ScanResponse with {mode} makes Scanner.Next hang"
    else if impl = "no-end-after-50-rows" then s!"SPEC key=spin-scanner a ScanResponse with {mode} makes the scan return the same row for ever"
    else s!"OK tags=scanextra,{mode},{impl}"
  | ["incr", n, impl] =>
    if impl = "panic" then s!"SPEC key=panic-increment an Increment answer with a {n}-byte value crashed the caller"
    else if n = "8" && impl ≠ "ok" then s!"SPEC key=increment-rejected-good-answer {impl}"
    else s!"OK tags=incr,{impl},len{n}"
  | ["coalesce", ap, script, impl] => coalesceCmd ap script impl
  | "broken" :: rest => s!"BAD harness: {" ".intercalate rest}"
  | _ => "BAD command"

/-- C12, wire level (`c12r frame <late 0|1> <setup> <obs>`): a *well-formed* multi response that
reports success for every action has been fed to the real region client (harness/c07.go
c12WireCases; with `late = 1` the calls' own contexts ended between request and response).  Every
live call must hold that success: a call that is told "retry" although its success was received
would be executed a second time by SendBatch. -/
def handleC12 : List String → String
  | ["frame", late, setup, obs] =>
    match parseRpc "multi" setup with
    | none => "BAD setup"
    | some rpc =>
      let live := liveOf rpc
      let pcs := splitObs obs
      if pcs.length ≠ live.length then "BAD obs"
      else if (pcs.zip live).any (fun p => p.2 && !(p.1.length = 1 && (p.1.headD "").startsWith "ok")) then
        s!"SPEC key=success-received-but-reported-failed late={late} obs={obs}"
      else s!"OK tags=c12r,late{late},{if live.any (!·) then "dropped" else "alllive"}"
  | ["regionexc", _, "single-region", _] => "OK tags=c12r,regionexc,single-region"
  | ["regionexc", cls, setup, obs] =>
    -- the first region of the request failed as a whole (exception class `cls`), the others
    -- succeeded: the calls of the other regions keep their success
    match parseRpc "multi" setup with
    | some (.multi m) =>
      let pcs := splitObs obs
      -- region of each call (none: dropped before the request was built)
      let regs : List (Option Nat) := m.calls.map (fun c => c.map (·.region))
      let firstReg := (regs.filterMap id).head?
      if pcs.length ≠ regs.length then "BAD obs"
      else
        let bad := (pcs.zip regs).any fun p =>
          match p.2 with
          | none => false
          | some r =>
            if some r = firstReg then p.1.any (·.startsWith "ok")        -- the failed region's calls cannot have succeeded
            else !(p.1.length = 1 && (p.1.headD "").startsWith "ok")      -- the others keep their success
        if bad then s!"SPEC key=success-received-but-reported-failed regionexc={cls} obs={obs}"
        else s!"OK tags=c12r,regionexc,{cls}"
    | _ => "BAD setup"
  | "broken" :: rest =>
    -- a batch handed to a dialled, healthy connection (QueueBatch, any queue size) that never
    -- reaches the wire: none of its calls is sent
    if rest.any (fun t => (t.splitOn "no-request-written").length > 1) then
      s!"SPEC key=batch-never-written {" ".intercalate rest} (calls handed to a healthy connection were not sent)"
    else s!"DIFF harness: {" ".intercalate rest}"
  | _ => "BAD command"

end GV.Drive.C11
