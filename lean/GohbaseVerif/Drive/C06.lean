import GohbaseVerif.Model.Scanner
/-!
Driver command for C06 / C14 (model name `c06`).

`c06 run <start> <stop> <flags> <nrows> <table> <splits> <replies> <ops> <items> <trace> <open>`

* `start`, `stop`: hex (`-` empty); `flags` ⊆ `r` (reversed) `p` (AllowPartialResults) `c` (CloseScanner), `-` none
* `table`: `key:ncells,…` (sorted), `-` empty; `splits`: region split keys `hex,…`, `-` one region
* `replies`: what the fake `RPCClient` answered to the synchronous scan requests, in order, `;`-separated:
  `E/<class>` or `R/<regstart>~<regstop>/<scannerid|->/<moreInRegion><moreResults>/<frags>` with
  `frags` = `-` or `,`-separated `key.from.count.partial` (cells `from … from+count-1` of row `key`)
* `ops`: `N` Next, `C` Close, `X` cancel the context
* observed — `items`: one per `N`, `<result>/<err>`; result `nil` or `<partial>=<seg>+<seg>…` (`seg` = `key.from.count`),
  err `-`, `EOF`, `canceled`, `<class>`; a panic is the item `PANIC`, a call that does not return `HANG`;
  `trace`: requests the fake saw `kind/startRow/stopRow/id/close/nrows` (kind `O` open, `C` continue, `X` close);
  `open`: the fake's open region scanners after the close requests drained.
-/
namespace GV.Drive.C06
open GV GV.Scanner

def splitNE (s : String) (sep : String) : List String :=
  if s = "-" ∨ s = "" then [] else s.splitOn sep

def mapM? {α β} (f : α → Option β) : List α → Option (List β)
  | [] => some []
  | a :: as => do
    let b ← f a
    let bs ← mapM? f as
    pure (b :: bs)

def cellsOf (key : Bytes) (from_ count : Nat) : List Cell :=
  (List.range count).map fun i => ⟨key, from_ + i⟩

def parseBool (s : String) : Option Bool :=
  if s = "1" then some true else if s = "0" then some false else none

def parseFrag (s : String) : Option Frag :=
  match s.splitOn "." with
  | [k, f, c, p] => do
    let k ← fromHex k
    let f ← f.toNat?
    let c ← c.toNat?
    let p ← parseBool p
    pure ⟨cellsOf k f c, p⟩
  | _ => none

def parseOptNat (s : String) : Option (Option Nat) :=
  if s = "-" then some none else s.toNat?.map some

def parseRegion (s : String) : Option Region :=
  match s.splitOn "~" with
  | [a, b] => do
    let a ← fromHex a
    let b ← fromHex b
    pure ⟨a, b⟩
  | _ => none

def parseReply (s : String) : Option Reply :=
  match s.splitOn "/" with
  | ["E", c] => some (.err c)
  | ["R", g, id, fl, frs] => do
    let g ← parseRegion g
    let id ← parseOptNat id
    let fl ← (match fl.toList with
      | [a, b] => do
        let a ← parseBool (String.singleton a)
        let b ← parseBool (String.singleton b)
        pure (a, b)
      | _ => none)
    let frs ← mapM? parseFrag (splitNE frs ",")
    pure (.resp g ⟨frs, id, fl.1, fl.2⟩)
  | _ => none

def parseRow (s : String) : Option Row :=
  match s.splitOn ":" with
  | [k, n] => do
    let k ← fromHex k
    let n ← n.toNat?
    pure ⟨k, List.range n⟩
  | _ => none

def parseOp (c : Char) : Option Op :=
  if c = 'N' then some .next else if c = 'C' then some .close else if c = 'X' then some .cancel else none

def parseSeg (s : String) : Option (List Cell) :=
  match s.splitOn "." with
  | [k, f, c] => do
    let k ← fromHex k
    let f ← f.toNat?
    let c ← c.toNat?
    pure (cellsOf k f c)
  | _ => none

def parseRes (s : String) : Option (Option Frag) :=
  if s = "nil" then some none else
  match s.splitOn "=" with
  | [p, segs] => do
    let p ← parseBool p
    let cs ← mapM? parseSeg (splitNE segs "+")
    pure (some ⟨cs.flatten, p⟩)
  | _ => none

/-- `none` inside = the implementation panicked in this call. -/
def parseItem (s : String) : Option (Option Item) :=
  if s = "PANIC" || s = "HANG" then some none else
  match s.splitOn "/" with
  | [r, e] => do
    let r ← parseRes r
    pure (some ⟨r, if e = "-" then none else some e⟩)
  | _ => none

def parseReq (s : String) : Option Req :=
  match s.splitOn "/" with
  | [k, a, b, id, c, n] => do
    let k ← (if k = "O" then some Kind.open else if k = "C" then some Kind.cont
             else if k = "X" then some Kind.close else none)
    let a ← fromHex a
    let b ← fromHex b
    let id ← parseOptNat id
    let c ← parseBool c
    let n ← n.toNat?
    pure ⟨k, a, b, id, c, n⟩
  | _ => none

/-- Pair the requests the fake saw with the replies it gave (close requests have none). -/
def zipExch : List Req → List Reply → Option (List Exch)
  | [], [] => some []
  | [], _ :: _ => none
  | q :: qs, rs =>
    match q.kind with
    | .close => (zipExch qs rs).map (⟨q, none⟩ :: ·)
    | _ =>
      match rs with
      | [] => none
      | r :: rs => (zipExch qs rs).map (⟨q, some r⟩ :: ·)

def isErrReply (e : Exch) : Bool :=
  match e.reply with
  | some (.err _) => true
  | _ => false

def keysOf (fs : List Frag) : List Bytes := fs.filterMap fun f => firstRow f.cells

def dedupKeys : List Bytes → List Bytes
  | [] => []
  | k :: ks => k :: (dedupKeys ks).filter (· != k)

/-- How the returned rows differ from the expected ones (part of the finding key). -/
def rowsClass (got : List Frag) (want : List Frag) : String :=
  let gk := dedupKeys (keysOf got)
  let wk := keysOf want
  if (keysOf got).length ≠ gk.length ∧ (keysOf want).length = (dedupKeys wk).length ∧ gk.all (wk.contains ·) ∧ wk.all (gk.contains ·)
  then "split"
  else if wk.any (fun k => !gk.contains k) then "missing"
  else if gk.any (fun k => !wk.contains k) then "extra"
  else if gk ≠ wk then "order"
  else "cells"

def listSubset (a b : List Nat) : Bool := a.all (b.contains ·)

/-- The start row the scanner computes for the region below boundary `b` of a reversed scan when
`b` does not end in `0x00`: last byte lowered by one, then `rowPadding`. -/
def paddedBelow (b : Bytes) : Option Bytes :=
  match b.getLast? with
  | none => none
  | some l => if l = 0 then none else some (b.dropLast ++ [l - 1] ++ Gen.Wire.rowPadding)

/-- `k` lies below a region boundary but above the padded start row computed for it. -/
def abovePaddedStart (splits : List Bytes) (k : Bytes) : Bool :=
  splits.any fun b => match paddedBelow b with
    | some p => blt p k && blt k b
    | none => false

def fragStr (f : Frag) : String :=
  (if f.part then "1=" else "0=") ++
    String.intercalate "+" (f.cells.map fun c => toHex c.row ++ "." ++ toString c.q)

def itemStr (it : Item) : String :=
  (match it.res with | none => "nil" | some f => fragStr f) ++ "/" ++ (it.err.getD "-")

def reqStr (q : Req) : String :=
  (match q.kind with | .open => "O" | .cont => "C" | .close => "X") ++ "/" ++ toHex q.startRow ++ "/" ++
    toHex q.stopRow ++ "/" ++ (match q.id with | none => "-" | some i => toString i) ++ "/" ++
    (if q.closeFlag then "1" else "0") ++ "/" ++ toString q.nrows

structure Case where
  sc : Scan
  table : List Row
  splits : List Bytes
  replies : List Reply
  ops : List Op
  items : List (Option Item)
  trace : List Req
  opn : List Nat

def parseCase (start stop flags nrows table splits replies ops items trace opn : String) : Option Case := do
  let start ← fromHex start
  let stop ← fromHex stop
  let nrows ← nrows.toNat?
  let table ← mapM? parseRow (splitNE table ",")
  let splits ← mapM? fromHex (splitNE splits ",")
  let replies ← mapM? parseReply (splitNE replies ";")
  let ops ← mapM? parseOp (if ops = "-" then [] else ops.toList)
  let items ← mapM? parseItem (splitNE items ";")
  let trace ← mapM? parseReq (splitNE trace ";")
  let opn ← mapM? String.toNat? (splitNE opn ",")
  let fl := if flags = "-" then [] else flags.toList
  if fl.any (fun c => c ≠ 'r' ∧ c ≠ 'p' ∧ c ≠ 'c') then none else
  pure { sc := ⟨start, stop, fl.contains 'r', fl.contains 'p', fl.contains 'c', nrows⟩,
         table := table, splits := splits, replies := replies, ops := ops, items := items,
         trace := trace, opn := opn }

def isErr (r : Reply) : Bool :=
  match r with
  | .err _ => true
  | _ => false

def respOf (r : Reply) : Option Resp :=
  match r with
  | .resp _ x => some x
  | _ => none

def hasErr (it : Item) : Bool := it.err.isSome

def eofItem : Item := ⟨none, some "EOF"⟩

/-- What ended the scan first: `full` (Next reached io.EOF), `close`, `cancel`, `rpcerr`, or `open`
    (nothing did). -/
def firstEnd : List Op → List Item → String
  | [], _ => "open"
  | .close :: _, _ => "close"
  | .cancel :: ops, its => firstEnd ops its
  | .next :: _, [] => "open"
  | .next :: ops, it :: its =>
    match it.err with
    | none => firstEnd ops its
    | some e => if e = "EOF" then "full" else if e = "canceled" then "cancel" else "rpcerr"

def judge (c : Case) : String :=
  let sc := c.sc
  let dir := if sc.reversed then "rev" else "fwd"
  let mode := if sc.allowPartial then "p" else "np"
  -- (a) panic
  if c.items.any Option.isNone then s!"SPEC key=panic-{dir}-{mode}" else
  let its : List Item := c.items.filterMap id
  if its.length ≠ (c.ops.filter (· == Op.next)).length then "BAD item count" else
  -- (a') the fake cut the conversation off: the scanner kept sending requests without getting anywhere
  if its.any (fun it => it.err == some "toomany") then s!"SPEC key=no-progress-{dir}-{mode}" else
  -- (a'') a request that names a region scanner went, by its row key, to another region than the one
  -- that scanner was opened on (the fake answers as the server of that region would: it does not
  -- know the id): the scan fails on a healthy cluster, or — for a close request — the lease stays
  if c.replies.any (fun r => r == Reply.err "misrouted") then
    s!"SPEC key=scanner-request-misrouted-{dir}-{mode} trace={String.intercalate ";" (c.trace.map reqStr)}" else
  -- (a3) a request of a scan built with a priority went out without it (C05: "the priority")
  if c.replies.any (fun r => r == Reply.err "prioritylost") then
    s!"SPEC key=scan-request-priority-lost-{dir}-{mode} trace={String.intercalate ";" (c.trace.map reqStr)}" else
  -- (b) an error or end-of-scan is reported once, EOF from then on
  let fromErr : List Item := its.dropWhile (fun it => !hasErr it)
  if (fromErr.drop 1).any (fun it => it != eofItem) then
    let firstCls : String := ((fromErr.head?.bind Item.err).getD "-")
    let cls := if firstCls = "EOF" then "eof" else if firstCls = "canceled" then "cancel" else "rpc"
    s!"SPEC key=error-twice-{cls}"
  else
  -- (c) leases
  let ended : Bool := c.ops.contains Op.close || its.any hasErr
  let endKind : String := firstEnd c.ops its
  -- (c0) the scan's context ended while the request that opens a region scanner was in flight: the
  -- server has opened it, the client never learns its id and cannot close it
  if c.replies.any (fun r => r == Reply.err "lostopen") && ended && !c.opn.isEmpty then
    s!"SPEC key=lease-leak-cancel-while-open-in-flight open={c.opn}" else
  if ended && !c.opn.isEmpty then s!"SPEC key=lease-leak-{endKind} open={c.opn}" else
  if c.opn.length > 1 then s!"SPEC key=lease-leak-running open={c.opn}" else
  match zipExch c.trace c.replies with
  | none => "DIFF requests-vs-replies count"
  | some exch =>
  -- (d) rows, judged against the table whenever the served script is a conforming one
  let conf : Bool := decide (Conforming c.table c.splits sc (exch.filter (fun e => !isErrReply e)))
  let okRows : List Frag := its.filterMap (fun it => if hasErr it then none else it.res)
  let want : List Frag := (inRange sc c.table).map fun (r : Row) => (⟨r.frag, false⟩ : Frag)
  let wantCells : List (List Cell) := (inRange sc c.table).map Row.frag
  let plain : Bool := endKind == "full" && !sc.closing
  let rowsVerdict : Option String :=
    if !conf then none
    else if sc.allowPartial then
      match chunk wantCells okRows with
      | some rest => if plain && !rest.isEmpty then some "missing" else none
      | none => some (rowsClass okRows want ++ "-frag")
    else if plain then (if okRows = want then none else some (rowsClass okRows want))
    else if okRows = want.take okRows.length then none
    else if endKind == "close" && okRows.dropLast = want.take (okRows.length - 1) &&
        (match okRows.getLast?, want[okRows.length - 1]? with
         | some l, some w => l.cells.isPrefixOf w.cells
         | _, _ => false) then none   -- Close in the middle of a row: the buffered part of it is still delivered
    else some (rowsClass okRows (want.take okRows.length) ++ "-prefix")
  match rowsVerdict with
  | some cls =>
    -- two inputs outside the hypotheses of `scan_exact` (`ScanHyps.keys`, `ScanHyps.revStart`), run
    -- on the real scanner as the excluded points of a proof should be, get keys of their own
    let missing := (keysOf want).filter fun k => !(keysOf okRows).contains k
    let key :=
      if sc.reversed && cls.startsWith "missing" && sc.start == [] && c.splits ≠ [] then
        "rows-rev-missing-without-start-row"
      else if sc.reversed && cls.startsWith "missing" && !missing.isEmpty &&
          missing.all (abovePaddedStart c.splits) then
        "rows-rev-missing-above-padded-region-start"
      else s!"rows-{dir}-{mode}-{cls}"
    s!"SPEC key={key} want={(want.take 12).map fragStr} got={(okRows.take 16).map fragStr}"
  | none =>
  -- (e) model = implementation
  match runOps sc c.ops false c.replies (St.init sc) with
  | (mits, ms, mrest) =>
  -- an error must come "together with any row already assembled" (theorem
  -- `error_with_assembled_row` makes the model the specification of that clause)
  if (mits.zip its).any (fun (m, i) => m.err.isSome && m.err == i.err && m.res.isSome && i.res.isNone) then
    s!"SPEC key=assembled-row-dropped-{dir}-{mode} model={String.intercalate ";" (mits.map itemStr)} impl={String.intercalate ";" (its.map itemStr)}"
  else if mits ≠ its then
    s!"DIFF items model={String.intercalate ";" (mits.map itemStr)} impl={String.intercalate ";" (its.map itemStr)}"
  else if ms.trace ≠ c.trace then
    s!"DIFF trace model={String.intercalate ";" (ms.trace.map reqStr)} impl={String.intercalate ";" (c.trace.map reqStr)}"
  else if !mrest.isEmpty then s!"DIFF model left {mrest.length} replies unconsumed"
  else if !(listSubset ms.serverOpen c.opn && listSubset c.opn ms.serverOpen) then
    s!"DIFF open model={ms.serverOpen} impl={c.opn}"
  else
    let resps : List Resp := c.replies.filterMap respOf
    let nOpen := (c.trace.filter (fun q => q.kind == Kind.open)).length
    let tags := [dir, mode, endKind, s!"regs{min nOpen 4}"]
      ++ (if conf then [] else ["nonconf"])
      ++ (if sc.closing then ["closing"] else [])
      ++ (if want.isEmpty then ["norows"] else [])
      ++ (if resps.any (fun x => x.results.isEmpty && x.moreInRegion) then ["heartbeat"] else [])
      ++ (if resps.any (fun x => x.results.any Frag.part) then ["frag"] else [])
      ++ (if resps.any (fun x => !x.moreResults) then ["nomore"] else [])
      ++ (if resps.any (fun x => !x.moreResults && x.moreInRegion) then ["nomore-open"] else [])
      ++ (if c.trace.any (fun q => q.kind == Kind.close) then ["closereq"] else [])
    s!"OK tags={String.intercalate "," tags}"

def handle : List String → String
  | ["run", start, stop, flags, nrows, table, splits, replies, ops, items, trace, opn] =>
    match parseCase start stop flags nrows table splits replies ops items trace opn with
    | none => "BAD parse"
    | some c =>
      -- a Next / Close call that did not return (the harness gives up after a few seconds)
      if (splitNE items ";").contains "HANG" then
        s!"SPEC key=hang-{if c.sc.reversed then "rev" else "fwd"}-{if c.sc.allowPartial then "p" else "np"}"
      else judge c
  | _ => "BAD command"

end GV.Drive.C06
