import GohbaseVerif.Model.Frame
import GohbaseVerif.Model.ToProto
/-!
Driver commands for C05 (line protocol; see BUILDING.md).

`stream <codec> <units> <helloDec~helloBuilt> <rec>…` — the `Write` units recorded on the
connection of a real region client (hex, comma separated; unit 0 is the hello) and, per frame,
what the harness's independent decoder extracted: `id~method~prio~meta~bufs~decoded~built`
(`meta`: CellBlockMeta length or `-`; `bufs`: the cellblock buffers the model expects `send` to
have passed to `net.Buffers` as `len+len+…`, `-` for the plain-write branch; `decoded`/`built`:
canonical renderings of the decoded operation and of the operation the caller built).

`multi <names> <calls> <perm> <obsRA> <obsCbs> <obsSize>` — `multi.toProto` through the hooks.

`get|scan|mutate|cas <call fields> <observed message fields>` — ties `Model/ToProto.lean` to the
Go `ToProto`s and judges the observed message with `Spec.decode…`.
-/
namespace GV.Drive.C05
open GV GV.Frame GV.ToProto

/-! ### parsing helpers (tail recursive: lines can carry several hundred kilobytes) -/

structure HexSt where
  ok : Bool := true
  hi : Option Nat := none
  acc : Array UInt8 := #[]

def hexBytes (s : String) : Option Bytes :=
  if s = "-" then some [] else
  let st := s.foldl (fun (st : HexSt) c =>
    match hexVal c with
    | none => { st with ok := false }
    | some v =>
      match st.hi with
      | none => { st with hi := some v }
      | some h => { st with hi := none, acc := st.acc.push (UInt8.ofNat (h * 16 + v)) }) {}
  if st.ok && st.hi.isNone then some st.acc.toList else none

def splitList (s : String) (sep : String) : List String :=
  if s = "-" then [] else s.splitOn sep

def allSome {α} (l : List (Option α)) : Option (List α) :=
  l.foldr (fun x acc => match x, acc with
    | some a, some as => some (a :: as)
    | _, _ => none) (some [])

structure Rec where
  id : Nat
  method : String
  prio : Nat
  cbMeta : Option Nat
  bufs : Option (List Nat)
  dec : String
  built : String

def parseRec (tok : String) : Option Rec :=
  match tok.splitOn "~" with
  | [id, method, prio, cbm, bufs, dec, built] => do
    let id ← id.toNat?
    let prio ← prio.toNat?
    let cbMeta ← if cbm = "-" then some none else cbm.toNat?.map some
    let bufs ← if bufs = "-" then some none else (allSome ((bufs.splitOn "+").map String.toNat?)).map some
    pure { id, method, prio, cbMeta, bufs, dec, built }
  | _ => none

/-! ### the unit/meta guided parse (independent of the length prefix) -/

structure UFrame where
  pfx : Nat
  header : Bytes
  request : Bytes
  cellblocks : Bytes
  nunits : Nat

/-- Collect exactly `need` bytes from the front of the units, whole units only. -/
def takeUnits : Nat → Nat → List Bytes → Bytes → Option (Bytes × List Bytes × Nat)
  | _, 0, us, acc => some (acc, us, 0)
  | 0, _, _, _ => none
  | _ + 1, _, [], _ => none
  | f + 1, need, u :: us, acc =>
    if need < u.length then none
    else (takeUnits f (need - u.length) us (acc ++ u)).map fun (a, r, n) => (a, r, n + 1)

/-- One frame starts with the unit that holds the marshalled buffer; its cellblock is what the
header's CellBlockMeta announces, taken from the rest of that unit and the following units. -/
def parseByUnits : List Rec → List Bytes → Option (List UFrame)
  | [], [] => some []
  | [], _ :: _ => none
  | _ :: _, [] => none
  | r :: rs, b :: us =>
    if b.length < 4 then none else
    match readDelimited (b.drop 4) with
    | .ok (h, d1) =>
      match readDelimited d1 with
      | .ok (rq, tail) =>
        let need := r.cbMeta.getD 0
        if need < tail.length then none else
        match takeUnits (us.length + 1) (need - tail.length) us tail with
        | some (cbs, rest, n) =>
          (parseByUnits rs rest).map fun fs => ⟨beNat (b.take 4), h, rq, cbs, n + 1⟩ :: fs
        | none => none
      | _ => none
    | _ => none

/-- Split the cellblock bytes into the buffers of the given lengths. -/
def splitBufs : List Nat → Bytes → Option (List Bytes)
  | [], [] => some []
  | [], _ :: _ => none
  | n :: ns, b => if b.length < n then none else (splitBufs ns (b.drop n)).map (b.take n :: ·)

def fieldName (s : String) : String :=
  String.ofList (((s.splitOn "=").headD "").toList.filter fun c => !c.isDigit)

/-- Name of the first `;`-separated field in which the two renderings differ. -/
def firstDiff (a b : String) : String :=
  let rec go : List String → List String → String
    | x :: xs, y :: ys => if x == y then go xs ys else fieldName x
    | x :: _, [] => fieldName x
    | [], y :: _ => fieldName y
    | [], [] => "none"
  go (a.splitOn ";") (b.splitOn ";")

def nodupNat (l : List Nat) : Bool :=
  match l with
  | [] => true
  | x :: xs => !xs.contains x && nodupNat xs

def methodTag (m : String) : String := m.toLower

def handleStream (codec units helloTok : String) (recToks : List String) : String :=
  match allSome ((splitList units ",").map hexBytes), allSome (recToks.map parseRec) with
  | some units, some recs =>
    match units with
    | [] => "SPEC key=no-connection-header"
    | u0 :: us =>
      match parseHello u0 with
      | .ok (_, rest) =>
        if !rest.isEmpty then "DIFF model=hello-is-one-write impl=extra-bytes-in-hello-unit" else
        match helloTok.splitOn "~" with
        | [hd, hb] =>
          if hd != hb then s!"SPEC key=conn-{firstDiff hd hb} decoded={hd} built={hb}" else
          let stream := us.flatten
          let a := parseFrames stream
          let b := parseByUnits recs us
          let aOk := match a with
            | .ok fs => fs.length == recs.length
            | _ => false
          let aErr := match a with
            | .ok _ => "frame-count"
            | .err c => c
            | .fault _ => "fault"
          match a, b with
          | .ok fs, some ufs =>
            if !aOk || !(fs.map fun f => (f.header, f.request, f.cellblocks))
                        == (ufs.map fun f => (f.header, f.request, f.cellblocks)) then
              s!"SPEC key=length-prefix-wrong prefixes={ufs.map (·.pfx)} bodies={ufs.map fun f =>
                (delimited f.header).length + (delimited f.request).length + f.cellblocks.length}"
            else
            -- both views agree on the frames
            let bad := (fs.zip recs).find? fun fr =>
              !metaOk { callId := fr.2.id, methodName := [], requestParam := true, priority := none,
                        cellBlockMeta := fr.2.cbMeta } fr.1.cellblocks
            match bad with
            | some fr => s!"SPEC key=cellblock-meta-mismatch id={fr.2.id} meta={fr.2.cbMeta} trailing={fr.1.cellblocks.length}"
            | none =>
            let ids := recs.map (·.id)
            if !nodupNat ids then s!"SPEC key=duplicate-call-id ids={ids}" else
            match recs.find? fun r => r.dec != r.built with
            | some r => s!"SPEC key=op-{r.method}-{firstDiff r.dec r.built} id={r.id} decoded={r.dec} built={r.built}"
            | none =>
            if ids != allocIds 0 recs.length then s!"DIFF model=ids{allocIds 0 recs.length} impl=ids{ids}" else
            -- the model's Write units for a non-TCP conn
            let pred := (fs.zip recs).map fun fr =>
              match fr.2.bufs with
              | none => if fr.1.cellblocks.isEmpty then
                          some (sendUnits .other (marshalProto fr.1.header fr.1.request 0) none)
                        else none
              | some lens =>
                (splitBufs lens fr.1.cellblocks).map fun bufs =>
                  sendUnits .other (marshalProto fr.1.header fr.1.request fr.1.cellblocks.length)
                    (some bufs)
            match allSome pred with
            | none => "DIFF model=cellblock-buffers impl=cellblock-bytes-do-not-split-into-them"
            | some pus =>
              if !(pus.flatten == us) then
                s!"DIFF model=units{pus.flatten.map List.length} impl=units{us.map List.length}"
              else
                let ms := (recs.map fun r => methodTag r.method).eraseDups
                let cb := if fs.any fun f => !f.cellblocks.isEmpty then ",cb" else ""
                let cd := if codec == "1" then ",codec" else ""
                let pr := if recs.any fun r => r.prio > 0 then ",prio" else ""
                let big := if stream.length > 200000 then ",big" else ""
                let n := if recs.isEmpty then "hello-only" else
                  if recs.length == 1 then "one-frame" else "many-frames"
                s!"OK tags=stream,{n}{",".intercalate ("" :: ms)}{cb}{cd}{pr}{big}"
          | .ok fs, none =>
            if aOk then
              -- prefix-consistent stream whose trailing bytes do not match the announced meta
              let bad := (fs.zip recs).find? fun fr =>
                !metaOk { callId := fr.2.id, methodName := [], requestParam := true, priority := none,
                          cellBlockMeta := fr.2.cbMeta } fr.1.cellblocks
              match bad with
              | some fr => s!"SPEC key=cellblock-meta-mismatch id={fr.2.id} meta={fr.2.cbMeta} trailing={fr.1.cellblocks.length}"
              | none => s!"DIFF model=frame-starts-a-new-write impl=units{us.map List.length}"
            else s!"SPEC key=stream-unparsable-{aErr}"
          | _, some ufs =>
            s!"SPEC key=length-prefix-wrong prefixes={ufs.map (·.pfx)} bodies={ufs.map fun f =>
                (delimited f.header).length + (delimited f.request).length + f.cellblocks.length}"
          | _, none => s!"SPEC key=stream-unparsable-{aErr}"
        | _ => "BAD hello token"
      | .err c =>
        -- not one write? a server only sees the byte stream
        match parseHello units.flatten with
        | .ok _ => "DIFF model=hello-is-one-write impl=hello-split-over-several-writes"
        | _ => s!"SPEC key=conn-{c}"
      | .fault _ => "SPEC key=conn-fault"
  | _, _ => "BAD hex or record"

/-! ### multi.toProto through the hooks -/

abbrev DCall := MCall String (Nat × Nat)

def parseCall (i : Nat) (names : List Bytes) (tok : String) : Option DCall :=
  match tok.splitOn "." with
  | [k, lc, gm, count, cblen] => do
    let k ← k.toNat?
    let count ← count.toNat?
    let cblen ← cblen.toNat?
    let name ← names[k]?
    if lc != "l" && lc != "c" then none
    pure { cancelled := lc == "c", region := ⟨k, name⟩
           msg := if gm == "g" then "g" else s!"m{count}"
           cbs := if cblen > 0 then [(i, cblen)] else []
           size := cblen }
  | _ => none

def parseCalls (names : List Bytes) (toks : List String) : Option (List DCall) :=
  allSome ((indexed toks).map fun it => parseCall it.1 names it.2)

def parseObsAction (tok : String) : Option (PBAction String) :=
  match tok.splitOn "/" with
  | [i, m] => i.toNat?.map fun i => ⟨i, m⟩
  | _ => none

def parseObsRA (tok : String) : Option (PBRegionAction String) :=
  match tok.splitOn "=" with
  | [n, as] => do
    let n ← hexBytes n
    let as ← allSome ((splitList as "+").map parseObsAction)
    pure ⟨n, as⟩
  | _ => none

def parseObsCb (tok : String) : Option (Nat × Nat) :=
  match tok.splitOn "/" with
  | [i, l] => do
    let i ← i.toNat?
    let l ← l.toNat?
    pure (i, l)
  | _ => none

def needOf (m : String) : Nat := if m == "g" || m == "m0" then 0 else 1

def handleMulti (names calls perm obsRA obsCbs obsSize : String) : String :=
  match allSome ((splitList names ",").map hexBytes) with
  | none => "BAD names"
  | some names =>
  match parseCalls names (splitList calls ","), allSome ((splitList perm ",").map String.toNat?),
        allSome ((splitList obsRA ",").map parseObsRA), allSome ((splitList obsCbs ",").map parseObsCb),
        obsSize.toNat? with
  | some calls, some perm, some ra, some cbs, some size =>
    match allSome (perm.map fun k => names[k]?.map fun n => (⟨k, n⟩ : Region)) with
    | none => "BAD perm"
    | some π =>
      let live := liveRegions calls
      let permOk := π.length == live.length && live.all (π.contains ·) && π.eraseDups.length == π.length
      if !permOk then s!"SPEC key=multi-regions recorded={perm} live={live.map (·.id)}" else
      let spec := Spec.multiIntent calls π
      let model := multiToProto calls π
      let ncalls := calls.length
      let nlive := (calls.filter (!·.cancelled)).length
      match Spec.decodeMulti needOf ra cbs with
      | .ok (got, rest) =>
        if got.map (·.1) != spec.map (·.1) then
          s!"SPEC key=multi-region-actions regions={(got.map (·.1)).map toHex} expected={(spec.map (·.1)).map toHex}"
        else if got.map (·.2.map (·.index)) != spec.map (·.2.map (·.index)) then
          s!"SPEC key=multi-index indices={got.map (·.2.map (·.index))} expected={spec.map (·.2.map (·.index))}"
        else if got.map (·.2.map (·.msg)) != spec.map (·.2.map (·.msg)) then
          s!"SPEC key=multi-action-payload got={got.map (·.2.map (·.msg))} expected={spec.map (·.2.map (·.msg))}"
        else if got.map (·.2.map (·.cbs)) != spec.map (·.2.map (·.cbs)) || !rest.isEmpty then
          s!"SPEC key=multi-cellblock-order cellblocks={cbs} expected={model.cellblocks}"
        else if model.regionActions != ra || model.cellblocks != cbs then
          "DIFF model=multiToProto impl=differs-although-spec-accepts"
        else if model.size != size then s!"DIFF model=size{model.size} impl=size{size}"
        else
          let t1 := if nlive < ncalls then ",cancelled" else ""
          let t2 := if π.length > 1 then ",multi-region" else if π.length == 1 then ",one-region" else ",no-region"
          let t3 := if cbs.isEmpty then "" else ",cb"
          s!"OK tags=multi-hook{t2}{t1}{t3}"
      | .err c => s!"SPEC key=multi-cellblock-order err={c} cellblocks={cbs} expected={model.cellblocks}"
      | .fault _ => "BAD fault"
  | _, _, _, _, _ => "BAD multi tokens"


/-! ### `ToProto` structure ties: model output rendered field by field vs the Go message -/

def kvs (tok : String) : List (String × String) :=
  (tok.splitOn ";").filterMap fun f =>
    match f.splitOn "=" with
    | k :: v :: _ => some (k, v)
    | _ => none

def look (m : List (String × String)) (k : String) : Option String := (m.find? (·.1 == k)).map (·.2)
def lookNat (m : List (String × String)) (k : String) : Option Nat := (look m k).bind String.toNat?
def lookBytes (m : List (String × String)) (k : String) : Option Bytes := (look m k).bind hexBytes
def lookBool (m : List (String × String)) (k : String) : Option Bool := (look m k).map (· == "1")

def rOptNat : Option Nat → String
  | none => "_"
  | some n => toString n
def rOptBool : Option Bool → String
  | none => "_"
  | some b => if b then "1" else "0"
def rFilter : Option Filter → String
  | none => "_"
  | some f => toHex f.name ++ ":" ++ toHex f.serialized
def rCols (cs : List PBColumn) : String :=
  if cs.isEmpty then "-" else
  "|".intercalate (cs.map fun c => toHex c.family ++ ":" ++ "+".intercalate (c.qualifiers.map toHex))
def rTR : Option PBTimeRange → String
  | none => "_"
  | some t => rOptNat t.from_ ++ ":" ++ rOptNat t.to
def rCons : Option PBConsistency → String
  | none => "_"
  | some .strong => "0"
  | some .timeline => "1"
def rAttrs (as : List (Bytes × Bytes)) : String :=
  if as.isEmpty then "-" else "|".intercalate (as.map fun a => toHex a.1 ++ ":" ++ toHex a.2)

def parseFilter (s : String) : Option (Option Filter) :=
  if s == "_" then some none else
  match s.splitOn ":" with
  | [n, v] => do
    let n ← hexBytes n
    let v ← hexBytes v
    pure (some ⟨n, v⟩)
  | _ => none

def parseCols (s : String) : Option Families :=
  if s == "-" then some [] else
  allSome ((s.splitOn "|").map fun c =>
    match c.splitOn ":" with
    | [f, qs] => do
      let f ← hexBytes f
      let qs ← if qs == "" then some [] else allSome ((qs.splitOn "+").map hexBytes)
      pure (f, qs)
    | _ => none)

def parseAttrs (s : String) : Option (List (Bytes × Bytes)) :=
  if s == "-" then some [] else
  allSome ((s.splitOn "|").map fun c =>
    match c.splitOn ":" with
    | [n, v] => do
      let n ← hexBytes n
      let v ← hexBytes v
      pure (n, v)
    | _ => none)

def parseCons (n : Nat) : Consistency :=
  if n == 0 then .default else if n == 1 then .strong else if n == 2 then .timeline else .invalid

def parseQuery (m : List (String × String)) : Option Query := do
  let families ← (look m "fams").bind parseCols
  let filter ← (look m "flt").bind parseFilter
  let fromTs ← lookNat m "from"
  let toTs ← lookNat m "to"
  let maxVersions ← lookNat m "mv"
  let storeLimit ← lookNat m "lim"
  let storeOffset ← lookNat m "off"
  let priority ← lookNat m "prio"
  let cacheBlocks ← lookBool m "cb"
  let cons ← lookNat m "cons"
  pure { families, filter, fromTs, toTs, maxVersions, storeLimit, storeOffset, priority, cacheBlocks
         consistency := parseCons cons }

def sameFamilies (a b : Families) : Bool :=
  a.length == b.length && a.all (b.contains ·) && b.all (a.contains ·)

def rGet (r : PBGetRequest) : String :=
  s!"region={toHex r.region};row={toHex r.get.row};col={rCols r.get.column};flt={rFilter r.get.filter};" ++
  s!"tr={rTR r.get.timeRange};mv={rOptNat r.get.maxVersions};cb={rOptBool r.get.cacheBlocks};" ++
  s!"lim={rOptNat r.get.storeLimit};off={rOptNat r.get.storeOffset};ex={rOptBool r.get.existenceOnly};" ++
  s!"cons={rCons r.get.consistency}"

def tieReply (kind model obs : String) (specOk : Bool) (tags : String) : String :=
  if model != obs then s!"DIFF model={model} impl={obs}"
  else if !specOk then s!"SPEC key=toproto-{kind}-decode model={model}"
  else s!"OK tags=toproto,{kind}{tags}"

def handleGet (call obs : String) : String :=
  let m := kvs call
  match lookBytes m "key", lookBytes m "region", parseQuery m, lookBool m "ex",
        (look m "ord").bind parseCols with
  | some key, some region, some q, some ex, some ord =>
    if !sameFamilies ord q.families then s!"SPEC key=toproto-get-families ord={look m "ord"} fams={look m "fams"}" else
    let g : GetCall := { key, region, q, existsOnly := ex }
    match getToProto g ord with
    | .ok r => tieReply "get" (rGet r) obs (Spec.decodeGet r == Spec.getIntent g ord)
        (if q.consistency == .default then "" else ",cons")
    | .fault _ => if obs == "panic" then "OK tags=toproto,get,panic" else s!"DIFF model=panic impl={obs}"
    | .err c => s!"DIFF model=err:{c} impl={obs}"
  | _, _, _, _, _ => "BAD get fields"

def parseVals (s : String) : Option Values :=
  if s == "-" then some [] else
  allSome ((s.splitOn "|").map fun c =>
    match c.splitOn ":" with
    | [f, qs] => do
      let f ← hexBytes f
      if qs == "~" then pure (f, none) else
      let qs ← if qs == "" then some [] else allSome ((qs.splitOn "+").map fun qv =>
        match qv.splitOn "/" with
        | [q, v] => do
          let q ← hexBytes q
          let v ← hexBytes v
          pure (q, v)
        | _ => none)
      pure (f, some qs)
    | _ => none)

def rDT : Option DeleteType → String
  | none => "_"
  | some .oneVersion => "0"
  | some .multipleVersions => "1"
  | some .family => "2"
  | some .familyVersion => "3"

def rMutType : Option MutType → String
  | none => "_"
  | some .append => "0"
  | some .increment => "1"
  | some .put => "2"
  | some .delete => "3"

def rCV (cvs : List PBColumnValue) : String :=
  if cvs.isEmpty then "-" else
  "|".intercalate (cvs.map fun cv => toHex cv.family ++ ":" ++ "+".intercalate (cv.qualifierValue.map fun qv =>
    s!"{toHex qv.qualifier}/{toHex qv.value}/{rOptNat qv.timestamp}/{rDT qv.deleteType}"))

def rCond : Option PBCondition → String
  | none => "_"
  | some c => s!"{toHex c.row}/{toHex c.family}/{toHex c.qualifier}/{c.compareType}/{rFilter (some c.comparator)}"

def rMutate (r : PBMutateRequest) : String :=
  s!"region={toHex r.region};row={toHex r.mutation.row};type={rMutType r.mutation.mutateType};" ++
  s!"cv={rCV r.mutation.columnValue};ts={rOptNat r.mutation.timestamp};attrs={rAttrs r.mutation.attrs};" ++
  s!"dur={rOptNat r.mutation.durability};count={rOptNat r.mutation.associatedCellCount};cond={rCond r.condition}"

def parseMutType (n : Nat) : MutType :=
  if n == 0 then .append else if n == 1 then .increment else if n == 2 then .put else .delete

def parseMutate (m : List (String × String)) : Option MutateCall := do
  let key ← lookBytes m "key"
  let region ← lookBytes m "region"
  let t ← lookNat m "type"
  let values ← (look m "vals").bind parseVals
  let ttl ← lookBytes m "ttl"
  let timestamp ← lookNat m "ts"
  let durability ← lookNat m "dur"
  let deleteOneVersion ← lookBool m "delone"
  pure { key, region, mutType := parseMutType t, values, ttl, timestamp, durability, deleteOneVersion }

def sameKeys (a b : Values) : Bool :=
  a.length == b.length && a.all fun x => b.any fun y => x.1 == y.1 && x.2.isNone == y.2.isNone &&
    (x.2.getD []).length == (y.2.getD []).length && (x.2.getD []).all ((y.2.getD []).contains ·)

/-- `mutate <call> <obs>` (protobuf form; `ord` = the value map in the observed iteration
order), `mutatecb <call> <obs>` (`cblen`, `count` from `valuesToCellblocks`; obs carries
`;bufs=<n>;size=<n>` for one starting buffer list of `nb` dummy buffers). -/
def handleMutate (cb : Bool) (call obs : String) : String :=
  let m := kvs call
  match parseMutate m with
  | none => "BAD mutate fields"
  | some mc =>
    if cb then
      match lookNat m "cblen", lookNat m "count" with
      | some cblen, some count =>
        match mutateSerialize mc (List.replicate cblen 0) count [] with
        | .ok (r, bufs, size) =>
          tieReply "mutatecb" (rMutate r ++ s!";bufs={bufs.map List.length};size={size}") obs
            (Spec.decodeMutate r == Spec.mutateIntentCB mc count) (if cblen > 0 then ",cells" else "")
        | _ => s!"DIFF model=fault impl={obs}"
      | _, _ => "BAD mutatecb fields"
    else
      match (look m "ord").bind parseVals with
      | none => "BAD ord"
      | some ord =>
        if !sameKeys ord mc.values then s!"SPEC key=toproto-mutate-values ord={look m "ord"} vals={look m "vals"}" else
        match look m "cfam" with
        | some _ =>
          match lookBytes m "cfam", lookBytes m "cqual", (look m "cmp").bind parseFilter with
          | some cf, some cq, some (some cmp) =>
            let c : CasCall := { put := mc, family := cf, qualifier := cq, comparator := cmp }
            match casToProto c ord with
            | .ok r => tieReply "cas" (rMutate r) obs (Spec.decodeMutate r == Spec.casIntent c ord) ""
            | _ => s!"DIFF model=fault impl={obs}"
          | _, _, _ => "BAD cas fields"
        | none =>
          match mutateToProto mc ord with
          | .ok r => tieReply "mutate" (rMutate r) obs (Spec.decodeMutate r == Spec.mutateIntent mc ord)
              (if mc.mutType == .delete then ",delete" else "")
          | _ => s!"DIFF model=fault impl={obs}"

def rScanMsg : Option PBScan → String
  | none => "_"
  | some s =>
    "{" ++ s!"start={toHex s.startRow},stop={toHex s.stopRow},col={rCols s.column},attrs={rAttrs s.attrs}," ++
    s!"flt={rFilter s.filter},tr={rTR s.timeRange},mv={rOptNat s.maxVersions},cb={rOptBool s.cacheBlocks}," ++
    s!"mrs={rOptNat s.maxResultSize},lim={rOptNat s.storeLimit},off={rOptNat s.storeOffset}," ++
    s!"rev={rOptBool s.reversed},cons={rCons s.consistency}" ++ "}"

def rScan (r : PBScanRequest) : String :=
  s!"region={toHex r.region};scan={rScanMsg r.scan};sid={rOptNat r.scannerId};n={rOptNat r.numberOfRows};" ++
  s!"close={rOptBool r.closeScanner};php={rOptBool r.clientHandlesPartials};" ++
  s!"phb={rOptBool r.clientHandlesHeartbeats};track={rOptBool r.trackScanMetrics};renew={rOptBool r.renew}"

def handleScan (call obs : String) : String :=
  let m := kvs call
  match lookBytes m "region", lookBytes m "start", lookBytes m "stop", parseQuery m,
        (look m "ord").bind parseCols with
  | some region, some startRow, some stopRow, some q, some ord =>
    match lookNat m "sid", lookNat m "mrs", lookNat m "n", lookBool m "rev",
          (look m "attrs").bind parseAttrs with
    | some scannerID, some maxResultSize, some numberOfRows, some reversed, some attrs =>
      match lookBool m "track", lookBool m "close", lookBool m "allow", lookBool m "renew" with
      | some trackScanMetrics, some closeScanner, some allowPartialResults, some renewalScan =>
        let sc : ScanCall :=
          { region := region, startRow := startRow, stopRow := stopRow, q := q, scannerID := scannerID
            maxResultSize := maxResultSize, numberOfRows := numberOfRows, reversed := reversed
            attrs := attrs, trackScanMetrics := trackScanMetrics, closeScanner := closeScanner
            allowPartialResults := allowPartialResults, renewalScan := renewalScan }
        if scannerID == noScannerID && !sameFamilies ord q.families then
          s!"SPEC key=toproto-scan-families ord={look m "ord"} fams={look m "fams"}" else
        match scanToProto sc ord with
        | .ok r => tieReply "scan" (rScan r) obs (Spec.decodeScan r == Spec.scanIntent sc ord)
            (if scannerID == noScannerID then ",open" else ",next")
        | .fault _ => if obs == "panic" then "OK tags=toproto,scan,panic" else s!"DIFF model=panic impl={obs}"
        | .err c => s!"DIFF model=err:{c} impl={obs}"
      | _, _, _, _ => "BAD scan flags"
    | _, _, _, _, _ => "BAD scan fields"
  | _, _, _, _, _ => "BAD scan query"

/-- `stress`: G goroutines sending in true parallel on one connection (harness/c05stress.go).
The judgement is the property's own clause on the decoded stream: whole frames, call ids unique
on the connection, every call written exactly once. -/
def handleStress (kvs : List String) : String :=
  let get (k : String) : Option String :=
    (kvs.find? (fun s => s.startsWith (k ++ "="))).map (fun s => String.ofList (s.toList.drop (k.length + 1)))
  match get "stream", get "dupids", get "missing", get "twice", get "senders" with
  | some st, some d, some m, some t, some g =>
    if st ≠ "ok" then s!"SPEC key=stream-{st} (frames of parallel senders)"
    else if d ≠ "0" then s!"SPEC key=call-id-not-unique-on-connection count={d}"
    else if t ≠ "0" then s!"SPEC key=call-written-twice count={t}"
    else if m ≠ "0" then s!"SPEC key=call-never-written count={m}"
    else s!"OK tags=stress,senders{g}"
  | _, _, _, _, _ => "BAD stress fields"

def handle : List String → String
  | ["reloc", kind, form, res] =>
    -- a re-located call (SetRegion after a split or move) names its new region on the wire
    if res = "ok" then s!"OK tags=reloc,{kind},{form}"
    else s!"SPEC key=op-region-{res}-after-relocation kind={kind} form={form}"
  | ["admin", kind, res] =>
    -- a table-administration request decoded from its bytes describes the schema the caller gave
    if res = "ok" then s!"OK tags=admin,{kind}"
    else s!"SPEC key=admin-{res} kind={kind}"
  | "stress" :: kvs => handleStress kvs
  | "stream" :: codec :: units :: helloTok :: recs => handleStream codec units helloTok recs
  | ["multi", names, calls, perm, obsRA, obsCbs, obsSize] =>
    handleMulti names calls perm obsRA obsCbs obsSize
  | ["get", call, obs] => handleGet call obs
  | ["scan", call, obs] => handleScan call obs
  | ["mutate", call, obs] => handleMutate false call obs
  | ["mutatecb", call, obs] => handleMutate true call obs
  | _ => "BAD command"

end GV.Drive.C05
