import GohbaseVerif.Model.RegionName
/-! Driver commands for C16 (line protocol; see DESIGN §2.4). -/
namespace GV.Drive.C16
open GV GV.RegionName

def signStr (o : Outcome Int) : String :=
  match o with
  | .ok i => ordStr (signOf i)
  | .err _ => "err"
  | .fault _ => "panic"

/-- `cmp <a> <b> <implSign>`: raw names, model vs implementation (sign or panic).
    `cmp3 <t1> <k1> <s1> <t2> <k2> <s2> <implSign>`: well-formed names; also judged by the spec `lex3`. -/
def handle : List String → String
  | ["cmp", a, b, impl] =>
    match fromHex a, fromHex b with
    | some a, some b =>
      let m := signStr (compareName a b)
      if m = impl then s!"OK tags=raw,{m}" else s!"DIFF model={m} impl={impl}"
    | _, _ => "BAD hex"
  | ["cmp3", t1, k1, s1, t2, k2, s2, impl] =>
    match fromHex t1, fromHex k1, fromHex s1, fromHex t2, fromHex k2, fromHex s2 with
    | some t1, some k1, some s1, some t2, some k2, some s2 =>
      if comma ∈ t1 ∨ comma ∈ t2 ∨ comma ∈ s1 ∨ comma ∈ s2 then "BAD not well-formed" else
      let spec := ordStr (lex3 (t1, k1, s1) (t2, k2, s2))
      let m := signStr (compareName (mkName t1 k1 s1) (mkName t2 k2 s2))
      let kc := if comma ∈ k1 ∨ comma ∈ k2 then ",keycomma" else ""
      let tp := if t1 ≠ t2 then ",tables-differ" else if k1 ≠ k2 then ",keys-differ" else ",ids"
      if impl ≠ spec then s!"SPEC spec={spec} impl={impl} model={m}"
      else if m ≠ impl then s!"DIFF model={m} impl={impl}"
      else s!"OK tags=wf,{spec}{kc}{tp}"
    | _, _, _, _, _, _ => "BAD hex"
  | ["skey", t, k, impl] =>
    match fromHex t, fromHex k, fromHex impl with
    | some t, some k, some impl =>
      let m := searchKeyImpl t k
      let spec := searchKey t k
      let long := k.length > 32767 - t.length - 3
      let tr := if long then ",truncated" else ""
      if !long && impl ≠ spec then s!"SPEC spec={toHex spec} impl={toHex impl}"
      else if m = impl then s!"OK tags=skey{tr}" else s!"DIFF model={toHex m} impl={toHex impl}"
    | _, _, _ => "BAD hex"
  | _ => "BAD command"

end GV.Drive.C16
