import GohbaseVerif.Model.Compress
import GohbaseVerif.Model.Snappy
/-!
Driver commands for C15 (model name `c15`).  Byte strings are hex (`-` = empty); big results are
sent as `<length>:<fnv1a-64 hex>`.  Codec token: `snappy` (decode = the Lean snappy decoder,
chunk size = regenerated `Gen.Wire.snappyChunkLen`) or `mock:<chunkLen>` (identity-like codec).

* `comp <codec> <ulen> <bufs> <impl>` — the real compressor's output for a payload given as buffers
  (`b1,b2,…`, `-` an empty buffer, `nil` no buffer at all); `<impl>` = stream hex or `panic`.
  Judged by the reference decoder `Spec.parseStream` (+ Lean snappy): must be a stream, decode to the
  payload, chunks non-empty and ≤ chunkLen (else `SPEC`); chunk boundaries / bytes must be the
  model's (else `DIFF`).
* `dec <codec> <stream> <impl>` — the real decompressor's outcome `ok:<len>:<hash>` | `err:<class>`
  | `panic` on a stream; judged by `Spec.decodeStream`, then compared with the model run.
* `mut <codec> <orig-stream> set <pos> <byte> <impl>` / `… trunc <newlen> 0 <impl>` — the outcome on a
  single-byte corruption / truncation of a valid stream.  `ok` with data ≠ the original payload is
  `SPEC`; the key says where the byte lies and whether the mutated stream is still a valid stream
  (then no decoder of this format can notice).
-/
namespace GV.Drive.C15
open GV GV.Compress

/-! ### fast hex (lines can carry > 1 MB) -/

def nib (c : UInt8) : Option UInt8 :=
  if 48 ≤ c && c ≤ 57 then some (c - 48)
  else if 97 ≤ c && c ≤ 102 then some (c - 87)
  else if 65 ≤ c && c ≤ 70 then some (c - 55)
  else none

def hexGo (u : ByteArray) : Nat → Bytes → Option Bytes
  | 0, acc => some acc
  | i + 1, acc =>
    match nib (u.get! (2 * i)), nib (u.get! (2 * i + 1)) with
    | some h, some l => hexGo u i ((h * 16 + l) :: acc)
    | _, _ => none

def parseHex (s : String) : Option Bytes :=
  if s == "-" then some [] else
  let u := s.toUTF8
  if u.size % 2 != 0 then none else hexGo u (u.size / 2) []

def hex64 (h : UInt64) : String :=
  String.ofList ((List.range 16).map fun i => hexDigit ((h.toNat / 16 ^ (15 - i)) % 16))

def digest (b : Bytes) : String := s!"{b.length}:{hex64 (fnv1a b)}"

def parseBufs (s : String) : Option (List Bytes) :=
  if s == "nil" then some [] else (s.splitOn ",").mapM parseHex

/-! ### codecs -/

/-- Decoding side of the snappy codec. There is no Lean snappy *encoder*: `encode` is a placeholder
that no command uses (the compressor's framing is predicted with the marker codec `idCodec`). -/
def snappyCodec : Codec := ⟨id, Snappy.decodeBytes, Gen.Wire.snappyChunkLen⟩

def parseCodec (s : String) : Option Codec :=
  if s == "snappy" then some snappyCodec
  else match s.splitOn ":" with
    | ["mock", n] => n.toNat?.map idCodec
    | _ => none

def outcomeToken : Outcome Bytes → String
  | .ok d => "ok:" ++ digest d
  | .err c => "err:" ++ c
  | .fault _ => "panic"

/-! ### where a byte of a valid stream lies -/

/-- Walks the framing of a valid stream (fuel = its length) and names the field containing `pos`. -/
def locChunks (c : Codec) : Nat → Nat → Bytes → Nat → Option (String ⊕ (Bytes × Nat))
  | 0, _, _, _ => none
  | fuel + 1, remaining, s, pos =>
    if remaining == 0 then some (.inr (s, pos)) else
    match Spec.be32? s with
    | none => none
    | some (cl, s1) =>
      if pos < 4 then some (.inl "corrupt-chunk-length")
      else if pos < 4 + cl then some (.inl "corrupt-chunk-payload")
      else match c.decode (s1.take cl) with
        | none => none
        | some d => locChunks c fuel (remaining - d.length) (s1.drop cl) (pos - 4 - cl)

def locate (c : Codec) : Nat → Bytes → Nat → String
  | 0, _, _ => "corrupt-outside"
  | fuel + 1, s, pos =>
    match Spec.be32? s with
    | none => "corrupt-outside"
    | some (raw, s1) =>
      if pos < 4 then "corrupt-block-length" else
      match locChunks c (s.length + 1) raw s1 (pos - 4) with
      | some (.inl w) => w
      | some (.inr (rest, p)) => locate c fuel rest p
      | none => "corrupt-outside"

/-! ### verdicts -/

def pieceLens (bs : List Spec.PBlock) : List (List Nat) := bs.map fun b => b.pieces.map List.length

/-- Common judgement of a decompressor outcome on stream `s` (see module doc). `orig` = payload of
the unmutated stream and the classifier prefix, for `mut`. -/
def judgeDec (c : Codec) (s : Bytes) (impl : String) (orig : Option (Bytes × String)) (tags : String) : String :=
  let spec := Spec.decodeStream c s
  let model := outcomeToken (decompressCellblocks c s)
  let wh := match orig with | some (_, w) => w | none => "decompress"
  if impl == "panic" then s!"SPEC key=decompress-panic where={wh} model={model}"
  else if impl.startsWith "ok:" then
    match spec with
    | none => s!"SPEC key={wh}-accepted-invalid-stream impl={impl} model={model}"
    | some d =>
      if impl != "ok:" ++ digest d then s!"SPEC key=decompress-wrong-data spec=ok:{digest d} impl={impl} model={model}"
      else match orig with
        | some (o, w) =>
          if d == o then
            (if model == impl then s!"OK tags={tags},harmless" else s!"DIFF model={model} impl={impl}")
          else
            let key := if w == "truncation" then "truncation-at-block-boundary" else w ++ "-valid-stream"
            s!"SPEC key={key} original={digest o} impl={impl} model={model}"
        | none =>
          if model == impl then s!"OK tags={tags},ok,blocks{min 3 ((Spec.parseStream c s).getD []).length}"
          else s!"DIFF model={model} impl={impl}"
  else if impl.startsWith "err:" then
    match spec with
    | some d => s!"SPEC key=decompress-rejects-valid-stream spec=ok:{digest d} impl={impl} model={model}"
    | none =>
      if model == impl then s!"OK tags={tags},detected,{impl.replace ":" "-"}"
      else s!"DIFF model={model} impl={impl}"
  else "BAD impl outcome"

def handle : List String → String
  | ["alias", codec, gets, puts, failed, wrong, changed] =>
    -- a real region client with cellblock compression: what was decompressed and handed to the
    -- caller is what the server sent, and stays so while later requests and responses go by
    if gets = "gets=0" then s!"DIFF harness: no Get was answered ({failed})"
    else if failed ≠ "failed=0" then
      s!"SPEC key=valid-response-not-delivered-{codec} {failed} (a request on a healthy connection to a conforming server ended with an error or without its cell)"
    else if wrong ≠ "wrong=0" then s!"SPEC key=wrong-data-delivered-{codec} {wrong} of {gets} results differ from what the server compressed"
    else if changed ≠ "changed=0" then s!"SPEC key=delivered-data-changed-later-{codec} {changed} results changed after later requests ({puts})"
    else s!"OK tags=alias,{codec}"
  | ["comp", codec, ulen, bufs, impl] =>
    match parseCodec codec, ulen.toNat?, parseBufs bufs with
    | some c, some ulen, some bufs =>
      let payload := bufs.flatten
      if ulen != payload.length then "BAD ulen" else
      if impl == "panic" then "SPEC key=compress-panic" else
      match parseHex impl with
      | none => "BAD hex"
      | some s =>
        match Spec.parseStream c s with
        | none => s!"SPEC key=compress-not-a-hadoop-stream payload={digest payload} impl={digest s}"
        | some blocks =>
          let data := (blocks.map fun b => b.pieces.flatten).flatten
          if data != payload then
            s!"SPEC key=compress-wrong-data payload={digest payload} decoded={digest data}"
          else if blocks.any fun b => b.pieces.any fun p => p.isEmpty || p.length > c.chunkLen then
            s!"SPEC key=compress-chunk-size chunkLen={c.chunkLen} pieces={pieceLens blocks}"
          else
            -- the model's framing: same loop, marker codec (chunk boundaries do not depend on `encode`)
            let m := compressCellblocks (idCodec c.chunkLen) bufs ulen
            let mBlocks := (Spec.parseStream (idCodec c.chunkLen) m).getD []
            let isMock := codec != "snappy"
            if pieceLens mBlocks != pieceLens blocks then
              s!"DIFF model={pieceLens mBlocks} impl={pieceLens blocks}"
            else if isMock && m != s then s!"DIFF model={digest m} impl={digest s}"
            else
              let n := (blocks.map fun b => b.pieces.length).sum
              let sz := if payload.isEmpty then "empty" else if n == 1 then "one-chunk" else "multi-chunk"
              let ex := if !payload.isEmpty && payload.length % c.chunkLen == 0 then ",exact-multiple" else ""
              let eb := if bufs.any List.isEmpty then ",empty-buffer" else ""
              s!"OK tags=comp,{if isMock then "mock" else "snappy"},{sz}{ex}{eb},bufs{bufs.length}"
    | _, _, _ => "BAD args"
  | ["dec", codec, stream, impl] =>
    match parseCodec codec, parseHex stream with
    | some c, some s => judgeDec c s impl none s!"dec,{if codec == "snappy" then "snappy" else "mock"}"
    | _, _ => "BAD args"
  | ["mut", codec, stream, kind, pos, val, impl] =>
    match parseCodec codec, parseHex stream, pos.toNat?, val.toNat? with
    | some c, some s, some pos, some val =>
      match Spec.decodeStream c s with
      | none => "BAD original is not a stream"
      | some o =>
        let cn := if codec == "snappy" then "snappy" else "mock"
        if kind == "trunc" then
          if pos ≥ s.length then "BAD trunc length" else
          if pos == 0 then
            -- the 0-byte prefix: empty output, no error (theorem truncation_to_nothing_is_ok)
            let model := outcomeToken (decompressCellblocks c [])
            if impl == model then s!"OK tags=mut,{cn},trunc-zero" else s!"DIFF model={model} impl={impl}"
          else judgeDec c (s.take pos) impl (some (o, "truncation")) s!"mut,{cn},trunc"
        else if kind == "set" then
          if pos ≥ s.length || val > 255 then "BAD set" else
          let s' := s.set pos (UInt8.ofNat val)
          if s' == s then "BAD no change" else
          let w := locate c (s.length + 1) s pos
          judgeDec c s' impl (some (o, w)) s!"mut,{cn},{w}"
        else "BAD kind"
    | _, _, _, _ => "BAD args"
  | _ => "BAD command"

end GV.Drive.C15
