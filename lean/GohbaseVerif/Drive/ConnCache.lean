import GohbaseVerif.Basic
import GohbaseVerif.Model.ConnCache
import GohbaseVerif.Model.Avail
/-!
Function-level correspondence for the two small objects the client-level models of C09, C19 and
C20 are built from.

`cc seq <op>…` — one op sequence on a fresh `clientRegionCache` (caches.go) with what the real
object did after every op:

    put:<addr>:<reg>:<e<id> | c<id> | r>/<snap>     existing / created (factory ran) / refused (nil)
    del:<reg>:<id | ->/<snap>                       `<id>` = the region's `Client()` before the call
    down:<id>:<regs>/<snap>                         regs = the set `clientDown` returned
    closeall/<snap>

`<snap>` = `<entries>/<closed>`: entries `id.addr.r1+r2` (`,`-joined, ascending id, regs
ascending), closed = ids on which `Close()` was called (`+`-joined, ascending); `-` = empty.
Connection ids are the order in which the factory was called.

`ri <op>…` — one op sequence on a fresh `region.info`:

    mu:<created 0|1>/<obs>   ma/<obs>   sc:<n | ->/<obs>   md/<obs>   mapanic:<0|1>

`<obs>` = `<unavailable 0|1>.<client | ->.<dead 0|1>.<channels>`; channels = one letter per
channel `MarkUnavailable` ever created on this object, `o` open / `c` closed.  `ma` is only issued
while unavailable; `mapanic` is `MarkAvailable` on an available region (a `close(nil)`), last op.

Verdicts: properties judged on the implementation's own observations first (`SPEC`), then the
model has to reproduce every observation (`DIFF`).
-/
namespace GV.Drive.ConnCache
open GV GV.ConnCache

def parseNats (s : String) (sep : String) : Option (List Nat) :=
  if s = "-" then some [] else
  let parts := s.splitOn sep
  let l := parts.filterMap String.toNat?
  if l.length = parts.length then some l else none

structure Snap where
  entries : List (Nat × Nat × List Nat)
  closed : List Nat
  deriving BEq

def parseEntry (s : String) : Option (Nat × Nat × List Nat) :=
  match s.splitOn "." with
  | [i, a, rs] => do
    let i ← i.toNat?; let a ← a.toNat?; let rs ← parseNats rs "+"
    pure (i, a, rs)
  | _ => none

def parseSnap (e c : String) : Option Snap := do
  let es ← if e = "-" then some [] else
    let parts := e.splitOn ","
    let l := parts.filterMap parseEntry
    if l.length = parts.length then some l else none
  let cl ← parseNats c "+"
  pure ⟨es, cl⟩

def sortNats (l : List Nat) : List Nat := (l.toArray.qsort (· < ·)).toList

def modelSnap (s : State) : Snap :=
  let es := s.cache.map fun e => (e.id, e.addr, sortNats e.regs)
  let es := (es.toArray.qsort (fun a b => a.1 < b.1)).toList
  ⟨es, sortNats ((s.conns.filter (·.closed)).map (·.id))⟩

/-- C20 / C19 on one observed snapshot -/
def judgeSnap (sn : Snap) (closedAll : Bool) : Option String :=
  let addrs := sn.entries.map (·.2.1)
  if addrs.eraseDups.length ≠ addrs.length then some "SPEC key=duplicate-address-in-connection-cache"
  else if closedAll && sn.entries.any (fun e => !sn.closed.contains e.1) then
    some "SPEC key=connection-left-open-after-close"
  else none

structure St where
  m : State
  prev : Snap
  closedAll : Bool
  tags : List String

def tag (s : St) (t : String) : St := if s.tags.contains t then s else { s with tags := s.tags ++ [t] }

def stepTok (s : St) (tok : String) : Except String St :=
  match tok.splitOn "/" with
  | [op, e, c] =>
    match parseSnap e c with
    | none => .error "BAD snapshot"
    | some sn =>
      match judgeSnap sn s.closedAll with
      | some v => .error v
      | none =>
      let fin (s : St) (m : State) (cl : Bool) : Except String St :=
        if modelSnap m == sn then .ok { s with m := m, prev := sn, closedAll := cl }
        else .error s!"DIFF cc snapshot after {op}"
      match op.splitOn ":" with
      | ["put", a, r, res] =>
        match a.toNat?, r.toNat? with
        | some a, some r =>
          let cachedBefore := s.prev.entries.find? (·.2.1 == a)
          let (m, mres) := put true s.m a r
          let implRes : Option PutRes :=
            if res = "r" then some .refused
            else if res.startsWith "e" then ((String.ofList (res.toList.drop 1)).toNat?).map .existing
            else if res.startsWith "c" then ((String.ofList (res.toList.drop 1)).toNat?).map .created
            else none
          match implRes with
          | none => .error "BAD put result"
          | some ir =>
            -- the property, on the implementation's own before-state
            let spec : Option String :=
              match ir, cachedBefore with
              | .created _, some _ =>
                some "SPEC key=second-connection-while-first-healthy (put created a connection for a cached address)"
              | .existing i, some e => if i = e.1 then none else some "SPEC key=put-returned-other-connection"
              | .existing _, none => some "SPEC key=put-returned-uncached-connection"
              | .created _, none =>
                if s.closedAll then some "SPEC key=connection-created-after-close" else none
              | .refused, _ => if s.closedAll then none else some "SPEC key=put-refused-on-open-cache"
            match spec with
            | some v => .error v
            | none =>
              if ir != mres then .error s!"DIFF cc put result" else
              let s := match ir with
                | .existing _ => tag s "reuse" | .created _ => tag s "create" | .refused => tag s "refused"
              fin s m s.closedAll
        | _, _ => .error "BAD put"
      | ["del", r, cid] =>
        match r.toNat? with
        | none => .error "BAD del"
        | some r =>
          if cid = "-" then fin (tag s "del-noclient") s.m s.closedAll
          else match cid.toNat? with
            | none => .error "BAD del client"
            | some id =>
              match step true s.m (.del id r) with
              | some m => fin (tag s "del") m s.closedAll
              | none => .error "DIFF cc del disabled"
      | ["down", id, regs] =>
        match id.toNat?, parseNats regs "+" with
        | some id, some regs =>
          let mregs := match s.m.cache.find? (·.id == id) with
            | some e => sortNats e.regs | none => []
          if mregs != regs then .error "DIFF cc clientDown regions" else
          match step true s.m (.clientDown id) with
          | some m => fin (tag s "down") m s.closedAll
          | none => .error "DIFF cc down disabled"
        | _, _ => .error "BAD down"
      | ["closeall"] =>
        match step true s.m .closeBegin with
        | none => .error "DIFF cc closeBegin"
        | some m1 =>
          match step true m1 .closeAllRun with
          | none => .error "DIFF cc closeAll disabled"
          | some m =>
            match judgeSnap sn true with
            | some v => .error v
            | none => fin (tag s "closeall") m true
      | _ => .error s!"BAD op {op}"
  | _ => .error s!"BAD token {tok}"

def handleCC (toks : List String) : String :=
  let rec go (s : St) : List String → String
    | [] => s!"OK tags=cc,{",".intercalate s.tags},{if toks.length > 12 then "long" else "short"}"
    | t :: ts => match stepTok s t with
      | .ok s' => go s' ts
      | .error v => v
  go ⟨init, ⟨[], []⟩, false, []⟩ toks

/-! ### region.info -/

structure RObs where
  unavail : Bool
  client : Option Nat
  dead : Bool
  chans : List Bool     -- closed?
  deriving BEq

def parseObs (s : String) : Option RObs :=
  match s.splitOn "." with
  | [u, c, d, ch] =>
    let cl : Option (Option Nat) := if c = "-" then some none else (c.toNat?).map some
    cl.map fun cl => ⟨u = "1", cl, d = "1", if ch = "-" then [] else ch.toList.map (· = 'c')⟩
  | _ => none

def modelObs (s : Avail.State) : RObs :=
  let x := s.regs 0
  ⟨x.avail.isSome, x.client, x.dead, (List.range x.gen).map fun g => s.closes.contains (0, g)⟩

structure RSt where
  m : Avail.State
  prev : RObs
  tags : List String

def rtag (s : RSt) (t : String) : RSt := if s.tags.contains t then s else { s with tags := s.tags ++ [t] }

def rstep (s : RSt) (tok : String) : Except String RSt :=
  match tok.splitOn "/" with
  | [op] =>
    match op.splitOn ":" with
    | ["mapanic", p] =>
      let m := Avail.markAvail s.m 0
      if s.prev.unavail then .error "BAD mapanic while unavailable"
      else if (p = "1") != m.fault then .error "DIFF ri MarkAvailable on an available region"
      else .ok (rtag s "close-nil")
    | _ => .error s!"BAD op {op}"
  | [op, o] =>
    match parseObs o with
    | none => .error "BAD obs"
    | some ob =>
      let fin (s : RSt) (m : Avail.State) : Except String RSt :=
        if modelObs m == ob then .ok { s with m := m, prev := ob } else .error s!"DIFF ri observation after {op}"
      match op.splitOn ":" with
      | ["mu", cr] =>
        let created := cr = "1"
        -- C09: a second `true` while the first channel is still open would start a second establisher
        if created && s.prev.unavail then
          .error "SPEC key=second-establisher (MarkUnavailable returned true on an unavailable region)"
        else if !created && !s.prev.unavail then
          .error "SPEC key=no-establisher (MarkUnavailable returned false on an available region)"
        else
          let (x, mc) := Avail.markUnavail (s.m.regs 0)
          if mc != created then .error "DIFF ri MarkUnavailable result" else
          fin (rtag s (if created then "mark" else "mark-again")) (Avail.upd s.m 0 fun _ => x)
      | ["ma"] =>
        if !s.prev.unavail then .error "BAD ma while available" else
        -- C09: everyone waiting on the channel that was current is released
        if ob.unavail then .error "SPEC key=still-unavailable-after-MarkAvailable"
        else if ob.chans.getLast? ≠ some true then .error "SPEC key=waiters-not-released-by-MarkAvailable"
        else fin (rtag s "release") (Avail.markAvail s.m 0)
      | ["sc", c] =>
        let cl : Option (Option Nat) := if c = "-" then some none else (c.toNat?).map some
        match cl with
        | none => .error "BAD sc"
        | some cl => fin (rtag s "client") (Avail.upd s.m 0 fun x => { x with client := cl })
      | ["md"] =>
        match Avail.step s.m (.markDead 0) with
        | some m => fin (rtag s "dead") m
        | none => .error "DIFF ri markDead disabled"
      | _ => .error s!"BAD op {op}"
  | _ => .error s!"BAD token {tok}"

def handleRI (toks : List String) : String :=
  match toks with
  | ["marshal", renders, panics] =>
    -- C09: rendering the debug state while the region's client is being set and cleared
    if panics = "panics=0" then s!"OK tags=ri,marshal"
    else s!"SPEC key=panic-debug-state {panics} of {renders} (region info MarshalJSON crashed while the client was being changed)"
  | ["conc", g, _rounds, winners, st] =>
    -- C09: `MarkUnavailable` returns true to exactly one of the concurrent callers
    if winners = "winners=1..1" && st = "ok" then s!"OK tags=ri,conc,{g}"
    else if st ≠ "ok" then s!"SPEC key=mark-lost {winners} (region available right after concurrent MarkUnavailable calls)"
    else s!"SPEC key=second-establisher {winners} (MarkUnavailable returned true to several concurrent callers, or to none)"
  | _ =>
  let rec go (s : RSt) : List String → String
    | [] => s!"OK tags=ri,{",".intercalate s.tags}"
    | t :: ts => match rstep s t with
      | .ok s' => go s' ts
      | .error v => v
  go ⟨Avail.init, ⟨false, none, false, []⟩, []⟩ toks

def handle : List String → String
  | "seq" :: toks => handleCC toks
  | ["chan", name, cap] =>
    -- C03: results are delivered without waiting for the caller: every kind of call needs a
    -- result channel with room for one result
    if cap = "cap=0" then s!"SPEC key=unbuffered-result-channel call={name} (a delivery to a caller that gave up blocks the failure transition)"
    else s!"OK tags=cc,chan,{name}"
  | ["dialclose", mode, dial, done, connClosed, later] =>
    -- C03/C19/C20: Close (or the end of the dial context) while the dialer is still connecting
    if mode = "close" then
      if done ≠ "done=true" then "SPEC key=close-during-dial-ignored (the client is still alive after Close)"
      else if dial ≠ "dial=err" then s!"SPEC key=dial-succeeds-on-closed-client {dial}"
      else if connClosed ≠ "connclosed=true" then "SPEC key=connection-left-open-after-close-during-dial"
      else if later ≠ "later=connErr" then s!"SPEC key=not-refused-after-close-during-dial {later}"
      else "OK tags=cc,dialclose,close"
    else
      -- the dial context ended: in service with the connection, or failed with the connection closed
      if done = "done=true" && connClosed ≠ "connclosed=true" then
        "SPEC key=connection-leaked-by-failed-dial (the dial was abandoned, the connection it produced stays open)"
      else if done = "done=false" && connClosed = "connclosed=true" then "SPEC key=live-client-on-closed-connection"
      else s!"OK tags=cc,dialclose,ctx,{done}"
  | ["dial", callers, during, total, failed, open_] =>
    -- C20: the regionserver is dialled once per connection object, whatever the number of
    -- concurrent first users (real region.NewClient; harness/cc.go dialOnceScenario)
    if total ≠ "total=1" || (during ≠ "during=1" && during ≠ "during=0") then
      s!"SPEC key=server-dialled-more-than-once {callers} {during} {total}"
    else if failed ≠ "failed=0" then s!"SPEC key=dial-failed-for-a-concurrent-caller {failed}"
    else if open_ ≠ "openafterclose=0" then s!"SPEC key=connection-left-open-after-close-dial {open_}"
    else s!"OK tags=cc,dial,{callers}"
  | ["conc", g, _ops, entries] =>
    -- goroutines hammering one address concurrently (harness/cc.go ccConcurrent); that the run
    -- survived is the main observation (a crash arrives as a `crash` line)
    if entries = "entries=0" || entries = "entries=1" then s!"OK tags=cc,conc,{g}"
    else s!"SPEC key=duplicate-address-in-connection-cache {entries} (concurrent put/del/clientDown on one address)"
  | _ => "BAD command"

end GV.Drive.ConnCache
