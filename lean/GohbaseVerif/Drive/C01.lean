import GohbaseVerif.Model.Routing
import GohbaseVerif.Model.CacheIO
/-!
Driver commands for C01 (routing, function level).

  c01 seq d:<ns>:<tbl>:<start>:<stop>:<name>:<id> … T:<t>.<t>… K:<k>.<k>…
          put:<i>:<overlaps>:<replaced>:<dump>:<dead>:<lookups>
          del:<i>:<success>:<dump>:<dead>:<lookups>
      `<lookups>`: what the real `getRegionFromCache(t, k)` returned after the op for every table
      (outer) and key (inner): descriptor index | `n` (nil) | `p` (panic), `.`-separated.

  c01 route d:… (the layout, in `region.Compare` order) r:<t>:<k>:<result>:<metaLookups>:<dump> …
      first touches on one fresh client; `<result>` = descriptor index | `n` (ErrCannotFindRegion)
      | `e` (error) | `p` (panic).

Spec (independent of the model, judged on the implementation's own dump): a returned region must
be of the requested table and contain the key (`wrong-owner`); a miss is only allowed when no
cached region of that table contains the key (`missed-owner`); no panic. Then model = impl.
-/
namespace GV.Drive.C01
open GV GV.Cache GV.Routing GV.CacheIO

def parseBytesList (s : String) : Option (List Bytes) := (s.splitOn ".").mapM fromHex

inductive Res where
  | idx (i : Nat) | none | panic | err
  deriving DecidableEq

def parseRes (s : String) : Option Res :=
  if s = "n" then some .none else if s = "p" then some .panic else if s = "e" then some .err
  else s.toNat?.map .idx

def resStr : Res → String
  | .idx i => toString i | .none => "n" | .panic => "p" | .err => "e"

def modelRes (descs : Array Region) : Outcome (Option Region) → Res
  | .ok (some r) => .idx (idxOf descs r)
  | .ok none => .none
  | .fault _ => .panic
  | .err _ => .err

/-- Judge one lookup. `cur` = the implementation's cache content. -/
def judgeLookup (descs : Array Region) (inDomain : Bool) (cur : List Region) (model : List Region)
    (t k : Bytes) (res : Res) : Except String (List String) :=
  let owners := cur.filter (fun x => x.fq == t && x.containsB k)
  let ctx := s!"table={toHex t} key={toHex k} got={resStr res}"
  let spec : Option String :=
    if !inDomain then none else
    match res with
    | .panic => some "panic-lookup"
    | .err => some "panic-lookup"
    | .none => if owners.isEmpty then none else some "missed-owner"
    | .idx i =>
      match descs[i]? with
      | none => some "wrong-owner why=unknown-region"
      | some r =>
        if r.fq != t then some "wrong-owner why=table"
        else if !r.containsB k then some "wrong-owner why=range"
        else if !cur.contains r then some "wrong-owner why=not-cached"
        else none
  match spec with
  | some key => .error s!"SPEC key={key} {ctx}"
  | none =>
    let m := modelRes descs (getRegionFromCache model t k)
    if m != res then .error s!"DIFF {ctx} model={resStr m}"
    else
      let tag := match res with
        | .idx _ => "hit"
        | .none =>
          if cur.any (fun x => x.fq == t) then "miss-same-table"
          else if cur.isEmpty then "miss-empty" else "miss-other-table"
        | _ => "panic"
      .ok [tag]

def judgeLookups (descs : Array Region) (inDomain : Bool) (cur model : List Region)
    (tables keys : List Bytes) (lk : List String) : Except String (List String) := do
  if lk == [""] then return []   -- no lookups recorded after this op
  let pairs := tables.flatMap (fun t => keys.map (fun k => (t, k)))
  if pairs.length != lk.length then throw "BAD lookup count"
  let mut tags : List String := []
  for ((t, k), s) in pairs.zip lk do
    match parseRes s with
    | none => throw "BAD lookup result"
    | some res =>
      let tg ← judgeLookup descs inDomain cur model t k res
      for x in tg do
        if !tags.contains x then tags := tags ++ [x]
  pure tags

structure St where
  model : Cache
  mdead : List Nat
  tags : List String

def growDead (descs : Array Region) (old new : List Region) (mdead : List Nat) : List Nat :=
  (new.drop old.length).foldl (fun acc d => insertSorted (idxOf descs d) acc) mdead

def addTags (s : St) (t : List String) : St :=
  { s with tags := t.foldl (fun acc x => if acc.contains x then acc else acc ++ [x]) s.tags }

def stepSeq (descs : Array Region) (inDomain : Bool) (tables keys : List Bytes) (s : St)
    (tok : String) : Except String St :=
  match tok.splitOn ":" with
  | ["put", i, ov, rep, dump, dead, lk] =>
    match i.toNat?.bind (descs[·]?), parseIdxList ov, parseIdxList dump, parseIdxList dead with
    | some r, some ov, some dump, some dead =>
      match regs descs dump, regs descs ov with
      | some after, some ovR =>
        match put s.model r with
        | .ok (c', mov, mrep) =>
          let mdead := growDead descs s.model.dead c'.dead s.mdead
          if mov != ovR || mrep != (rep == "1") || c'.regions != after || mdead != dead then
            .error s!"DIFF op=put:{i} model={showIdx (mov.map (idxOf descs))}:{b01 mrep}:{showIdx (c'.regions.map (idxOf descs))}:{showIdx mdead}"
          else do
            let tg ← judgeLookups descs inDomain after c'.regions tables keys (lk.splitOn ".")
            pure (addTags { s with model := c', mdead := mdead } tg)
        | _ => .error s!"DIFF op=put:{i} model=panic"
      | _, _ => .error "BAD index in observation"
    | _, _, _, _ => .error "BAD put token"
  | ["del", i, succ, dump, dead, lk] =>
    match i.toNat?.bind (descs[·]?), parseIdxList dump, parseIdxList dead with
    | some r, some dump, some dead =>
      match regs descs dump with
      | some after =>
        let (c', msucc) := del s.model r
        let mdead := growDead descs s.model.dead c'.dead s.mdead
        if b01 msucc != succ || c'.regions != after || mdead != dead then
          .error s!"DIFF op=del:{i} model={b01 msucc}:{showIdx (c'.regions.map (idxOf descs))}:{showIdx mdead}"
        else do
          let tg ← judgeLookups descs inDomain after c'.regions tables keys (lk.splitOn ".")
          pure (addTags { s with model := c', mdead := mdead } tg)
      | none => .error "BAD index in observation"
    | _, _, _ => .error "BAD del token"
  | _ => .error s!"BAD token"

def runSeq (descs : Array Region) (inDomain : Bool) (tables keys : List Bytes) :
    List String → St → String
  | [], s =>
    let triv := if s.tags.contains "hit" || s.tags.contains "miss-same-table" then [] else ["plain"]
    let dom := if inDomain then [] else ["ood"]
    "OK tags=" ++ ",".intercalate (dom ++ triv ++ s.tags)
  | tok :: rest, s =>
    match stepSeq descs inDomain tables keys s tok with
    | .ok s' => runSeq descs inDomain tables keys rest s'
    | .error e => e

/-! ### first-touch routing over a layout -/

def sortedB : List Region → Bool
  | a :: b :: rest => nameLtB a.name b.name && sortedB (b :: rest)
  | _ => true

def stepRoute (descs : Array Region) (layout : List Region) (s : St) (tok : String) :
    Except String St :=
  match tok.splitOn ":" with
  | ["r", t, k, res, nl, dump] =>
    match fromHex t, fromHex k, parseRes res, nl.toNat?, parseIdxList dump with
    | some t, some k, some res, some nl, some dump =>
      let owners := layout.filter (fun x => x.fq == t && x.containsB k)
      let ctx := s!"table={toHex t} key={toHex k} got={resStr res} lookups={nl}"
      let spec : Option String :=
        match res with
        | .panic => some "panic-route"
        | .idx i =>
          match descs[i]? with
          | none => some "wrong-owner why=unknown-region"
          | some r => if r.fq != t then some "wrong-owner why=table"
                      else if !r.containsB k then some "wrong-owner why=range"
                      else if nl > 1 then some "extra-meta-lookups" else none
        | _ => if owners.isEmpty then none else some "missed-owner"
      match spec with
      | some key => .error s!"SPEC key={key} {ctx}"
      | none =>
        match route layout s.model t k, regs descs dump with
        | .ok (mr, c', mn), some after =>
          let m : Res := match mr with | some r => .idx (idxOf descs r) | none => .none
          if m != res || mn != nl || c'.regions != after then
            .error s!"DIFF {ctx} model={resStr m}:{mn}:{showIdx (c'.regions.map (idxOf descs))}"
          else pure (addTags { s with model := c' } [if nl = 0 then "route-cached" else "route-meta"])
        | .err _, some after =>
          if res != .err || s.model.regions != after then .error s!"DIFF {ctx} model=e"
          else pure (addTags s ["route-error"])
        | .fault _, _ => .error s!"DIFF {ctx} model=p"
        | _, none => .error "BAD index in observation"
    | _, _, _, _, _ => .error "BAD route token"
  | _ => .error "BAD token"

def runRoute (descs : Array Region) (layout : List Region) : List String → St → String
  | [], s => "OK tags=" ++ ",".intercalate ("route" :: s.tags)
  | tok :: rest, s =>
    match stepRoute descs layout s tok with
    | .ok s' => runRoute descs layout rest s'
    | .error e => e

def handle : List String → String
  | "seq" :: toks =>
    match splitDescs toks #[] with
    | none => "BAD descriptor"
    | some (descs, rest) =>
      if !distinct descs then "BAD duplicate descriptor" else
      match rest with
      | tt :: kk :: ops =>
        match tt.splitOn ":", kk.splitOn ":" with
        | ["T", ts], ["K", ks] =>
          match parseBytesList ts, parseBytesList ks with
          | some tables, some keys =>
            runSeq descs (descs.all (·.wfB)) tables keys ops ⟨Cache.empty, [], []⟩
          | _, _ => "BAD tables/keys"
        | _, _ => "BAD tables/keys"
      | _ => "BAD tables/keys"
  | "route" :: toks =>
    match splitDescs toks #[] with
    | none => "BAD descriptor"
    | some (descs, ops) =>
      let layout := descs.toList
      if !distinct descs then "BAD duplicate descriptor"
      else if !(layout.all (·.wfB)) || !sortedB layout || anyPairIntersect layout then "BAD layout"
      else runRoute descs layout ops ⟨Cache.empty, [], []⟩
  | ["sk", t, k, impl, tail, shared, tableKept] =>
    -- createRegionSearchKey on a table name with spare capacity behind it
    match fromHex t, fromHex k, fromHex impl with
    | some t, some k, some impl =>
      if tail ≠ "tail=0" then s!"SPEC key=search-key-overwrites-callers-buffer {tail} bytes behind the table name changed"
      else if shared ≠ "shared=0" then "SPEC key=search-keys-share-memory a search key changed when the next one was built"
      else if tableKept ≠ "table=true" then "SPEC key=search-key-overwrites-callers-buffer the table name itself changed"
      else match searchKeyO t k with
        | .ok m => if m == impl then "OK tags=sk" else s!"DIFF search key model={toHex m} impl={toHex impl}"
        | _ => "DIFF search key: model faults"
    | _, _, _ => "BAD sk args"
  | _ => "BAD command"

end GV.Drive.C01
