import GohbaseVerif.Basic
/-!
Property monitors for the client-level scenarios run on the simulated cluster
(harness/sim.go, harness/c04.go): C04, C20, C09, C13, C19.  The implementation's observations
are judged here; the verdict `SPEC key=…` is a concrete failure of the property on the real code.
-/
namespace GV.Drive.Sim
open GV

def dropS (s : String) (n : Nat) : String := String.ofList (s.toList.drop n)

/-- One request served by a simulated regionserver: kind.addr.hosted.inRange.outcome -/
structure Att where
  kind : String
  addr : Nat
  hosted : Bool
  inRange : Bool
  outcome : String
  /-- the client's own region object designated a connection to another server when this request
  arrived (it had already learnt a newer location) -/
  stale : Bool := false
  /-- the serialised request names another region than the one the call was routed by -/
  wrongSpec : Bool := false

def parseAtt (s : String) : Option Att :=
  match s.splitOn "." with
  | [k, a, h, i, o] => (a.toNat?).map (fun a => ⟨k, a, h = "1", i = "1", o, false, false⟩)
  | [k, a, h, i, o, "stale"] => (a.toNat?).map (fun a => ⟨k, a, h = "1", i = "1", o, true, false⟩)
  | [k, a, h, i, o, "wrongspec"] => (a.toNat?).map (fun a => ⟨k, a, h = "1", i = "1", o, false, true⟩)
  | _ => none

def parseAtts (s : String) : Option (List Att) :=
  if s = "-" then some [] else
  let parts := s.splitOn ";"
  let as := parts.filterMap parseAtt
  if as.length = parts.length then some as else none

def isUser (a : Att) : Bool := a.kind = "get" || a.kind = "mutate"

/-- C04 / C01 monitor for one request. -/
def judgeReq (expect result : String) (atts : List Att) : Option String :=
  match atts.find? (fun a => a.hosted && !a.inRange) with
  | some a => some s!"SPEC key=key-sent-to-region-not-containing-it kind={a.kind}"
  | none =>
  match atts.find? (fun a => a.wrongSpec) with
  | some a => some s!"SPEC key=request-names-another-region-than-it-is-routed-by kind={a.kind} server={a.addr}"
  | none =>
  match atts.find? (fun a => isUser a && a.stale) with
  | some a => some s!"SPEC key=request-not-routed-from-the-known-location kind={a.kind} server={a.addr}"
  | none =>
  let user := atts.filter isUser
  if expect = "ok" then
    if result ≠ "ok" then some s!"SPEC key=request-failed-{result}"
    else match user.getLast? with
      | none => some "SPEC key=success-without-being-served"
      | some a => if a.hosted && a.inRange && a.outcome = "ok" then none
                  else some "SPEC key=answered-by-non-owner"
  else if expect = "fatal" then
    if result ≠ "fatal" then some s!"SPEC key=fatal-error-not-returned result={result}"
    else
      let afterFatal := (user.dropWhile (fun a => a.outcome ≠ "FATALMARK")).drop 1
      if !afterFatal.isEmpty then some "SPEC key=fatal-error-retried" else none
  else if expect = "tablenotfound" then
    if result ≠ "tablenotfound" then some s!"SPEC key=unknown-table-result-{result}"
    else if !user.isEmpty then some "SPEC key=unknown-table-sent-to-a-region" else none
  else some "BAD expect"

structure ConnInfo where
  addr : Nat
  id : Nat
  failed : Bool
  closed : Bool
  dials : Nat

def parseConn (s : String) : Option ConnInfo :=
  match s.splitOn "." with
  | [a, i, f, c, d] => do
    let a ← a.toNat?; let i ← i.toNat?; let d ← d.toNat?
    pure ⟨a, i, f = "1", c = "1", d⟩
  | _ => none

/-- C20 monitor on a snapshot of all connection objects ever created (in creation order) and the
connection cache's addresses: a connection object for an address may only be created after every
earlier one for that address has failed (only then can it have been declared dead), and the cache
never holds two objects for one address. `prev` = number of objects at the previous snapshot. -/
def judgeConns (prev : Nat) (conns : List ConnInfo) (cache : List Nat) : Option String :=
  let newOnes := conns.drop prev
  let bad := newOnes.find? (fun n =>
    conns.any (fun o => o.addr == n.addr && o.id < n.id && !o.failed && !o.closed))
  match bad with
  | some n => some s!"SPEC key=second-connection-while-first-healthy addr={n.addr} conn={n.id}"
  | none =>
    if cache.eraseDups.length ≠ cache.length then some "SPEC key=duplicate-address-in-connection-cache"
    else none

def handleSeq (model : String) (steps : List String) : String := Id.run do
  let mut prevConns := 0
  let mut tags : List String := []
  let mut nreq := 0
  for st in steps do
    match st.splitOn ":" with
    | ["E", ev] => tags := if tags.contains ev then tags else ev :: tags
    | ["R", _kind, expect, result, atts] =>
      nreq := nreq + 1
      match parseAtts atts with
      | none => return "BAD attempts"
      | some as =>
        if model = "c04" then
          if _kind = "batch" then
            -- C12/C01: every call of a batch goes to the region owning its key
            match as.find? (fun a => a.hosted && !a.inRange) with
            | some a => return s!"SPEC key=key-sent-to-region-not-containing-it kind=batch-{a.kind}"
            | none => if result ≠ "ok" then return s!"SPEC key=batch-failed-{result}"
          else
          match judgeReq expect result as with
          | some v => return v
          | none => pure ()
        if as.any (fun a => a.outcome = "nsre" && isUser a) && !tags.contains "stale-hit" then tags := "stale-hit" :: tags
        if as.any (fun a => a.outcome = "retryable") && !tags.contains "retried-later" then tags := "retried-later" :: tags
        if as.any (fun a => a.outcome = "connErr") && !tags.contains "conn-failed" then tags := "conn-failed" :: tags
    | ["K", conns, cache] =>
      let cs := if conns = "-" then some [] else
        let parts := conns.splitOn ","
        let l := parts.filterMap parseConn
        if l.length = parts.length then some l else none
      match cs with
      | none => return "BAD conns"
      | some cs =>
        let cache := if cache = "-" then [] else (cache.splitOn ",").filterMap String.toNat?
        if model = "c20" then
          match judgeConns prevConns cs cache with
          | some v => return v
          | none => pure ()
        if cs.length > 4 && !tags.contains "reconnected" then tags := "reconnected" :: tags
        prevConns := cs.length
    | ["F", n] =>
      if n ≠ "0" && model = "c04" then return s!"SPEC key=region-left-unavailable count={n}"
    | _ => return s!"BAD step {st}"
  let base := if tags.isEmpty then "quiet" else ",".intercalate tags
  return s!"OK tags={base},{if nreq > 6 then "long" else "short"}"

def field (kvs : List String) (k : String) : Option Nat :=
  (kvs.find? (fun s => s.startsWith (k ++ "="))).bind (fun s => (dropS s (k.length + 1)).toNat?)

def handle (model : String) : List String → String
  | "seq" :: steps => handleSeq model steps
  | "race" :: kvs =>
    -- the concurrent scenarios under Go's race detector (harness/c04.go raceRun)
    if kvs.any (·.startsWith "skipped=") then s!"OK tags=race,skipped"
    else match field kvs "reports", field kvs "crashed" with
      | some 0, some 0 => "OK tags=race,clean"
      | some 0, some _ => "SPEC key=process-crashed (under the race detector)"
      | some n, _ => s!"SPEC key=data-race reports={n} {" ".intercalate (kvs.filter (·.startsWith "at="))}"
      | _, _ => "BAD race fields"
  | "storm" :: rest =>
    s!"SPEC key=request-storm the client sent more than 150000 requests in one scenario (a retry loop without back-off) {" ".intercalate rest}"
  | "crash" :: _ => "SPEC key=process-crashed (panic or fatal error in the client under concurrent failures)"
  | "conc" :: kvs =>
    match field kvs "hung", field kvs "hungcalls", field kvs "postfail", field kvs "unavailable",
          field kvs "dupaddr", field kvs "wrongregion", field kvs "failed", field kvs "injected" with
    | some hung, some hc, some pf, some un, some dup, some wr, some failed, some inj =>
      if hung ≠ 0 || hc ≠ 0 then "SPEC key=request-blocked-after-stabilisation"
      else if pf ≠ 0 then "SPEC key=request-failed-after-stabilisation"
      else if un ≠ 0 then s!"SPEC key=region-left-unavailable count={un}"
      else if dup ≠ 0 then "SPEC key=duplicate-address-in-connection-cache"
      else if wr ≠ 0 then "SPEC key=key-sent-to-region-not-containing-it"
      else if failed ≠ 0 then "SPEC key=request-failed-during-faults"
      else s!"OK tags=conc,{if inj = 0 then "nofaults" else if inj > 20 then "manyfaults" else "faults"}"
    | _, _, _, _, _, _, _, _ => "BAD conc fields"
  | ["check", name, verdict] =>
    -- a scripted observation on real region clients whose expected outcome is fixed (harness/c20conn.go)
    if verdict = "ok" then s!"OK tags=check,{name}" else s!"SPEC key={name} observed={verdict}"
  | ["script", name, results, unavail] =>
    let rs := results.splitOn ","
    if rs.any (· ≠ "ok") then s!"SPEC key=request-blocked-after-stabilisation-{name} results={results}"
    else if unavail ≠ "unavailable=0" then s!"SPEC key=region-left-unavailable-{name} {unavail}"
    else s!"OK tags=script,{name}"
  | ["wait", state, api, mode, lat, res] =>
    match lat.toNat? with
    | none => "BAD latency"
    | some lat =>
      if res.startsWith "early:" then s!"OK tags=not-entered,{state},{api}"
      else if res = "blocked" then s!"SPEC key=cancel-ignored-{state}-{api}-{mode}"
      else if lat > 250000 then s!"SPEC key=cancel-slow-{state}-{api}-{mode} latency_us={lat}"
      else
        -- a batch returns with the unfinished calls marked failed (any error of their own)
        let okErr := res = "ctx" || (api.startsWith "batch" && (res.splitOn "+").all (fun r => r ≠ "blocked"))
        if okErr then s!"OK tags=cancelled,{state},{api},{mode}"
        else s!"SPEC key=cancel-wrong-error-{state}-{api} result={res}"
  | ["batchown", lat, r0, r1, _ok] =>
    match lat.toNat? with
    | none => "BAD latency"
    | some lat =>
      if r0 = "blocked" then "SPEC key=batch-call-own-context-ignored"
      else if lat > 250000 then s!"SPEC key=batch-call-own-context-slow latency_us={lat}"
      else if r0 ≠ "ctx" then s!"SPEC key=batch-call-own-context-wrong-error result={r0}"
      else if r1 ≠ "ok" then s!"SPEC key=batch-sibling-lost result={r1}"
      else "OK tags=cancelled,batchown"
  | "close" :: state :: closeLat :: inflight :: lat :: later :: laterLat :: kvs =>
    match closeLat.toNat?, lat.toNat?, laterLat.toNat?, field kvs "open", field kvs "late", field kvs "gor" with
    | some cl, some lat, some ll, some open_, some late, some gor =>
      let second := kvs.any (· = "second=ok")
      if cl > 1000000 then s!"SPEC key=close-blocks-{state}"
      else if inflight = "blocked" || lat > 500000 then s!"SPEC key=inflight-call-not-released-by-close-{state}"
      else if inflight ≠ "none" && inflight ≠ "clientclosed" && inflight ≠ "ok" then
        s!"SPEC key=inflight-call-wrong-error-{state} result={inflight}"
      else if later = "blocked" || ll > 500000 then s!"SPEC key=call-after-close-blocks-{state}"
      else if later ≠ "clientclosed" then s!"SPEC key=call-after-close-not-refused-{state} result={later}"
      else if open_ ≠ 0 then s!"SPEC key=connection-left-open-after-close-{state} open={open_}"
      else if late ≠ 0 then s!"SPEC key=activity-after-close-{state} events={late}"
      else if gor > 2 then s!"SPEC key=goroutines-left-after-close-{state} extra={gor}"
      else if !second then "SPEC key=second-close-panics"
      else s!"OK tags=close,{state},{inflight}"
    | _, _, _, _, _, _ => "BAD close fields"
  | _ => "BAD command"

end GV.Drive.Sim
