import GohbaseVerif.Lemmas.Scanner
/-!
The scanner as the composition of two machines:

* `pull`: the region walker — the requests `fetch` makes until the scanner is closed, and the
  stream of fragments the responses carry (no buffering, no coalescing);
* `assembleAll`: the coalescer — how `Next` cuts that stream into results.

`collect_eq_assemble`: calling `Next` until `io.EOF` returns `assembleAll` of the pulled stream.
-/
namespace GV.Scanner
open GV

/-! ## the region walker -/

structure Pull where
  frags : List Frag     -- fragments of all responses, in order
  fin : St              -- state when the walk stops
  rest : List Reply     -- unconsumed script
  ok : Bool             -- stopped because the scanner closed itself (no RPC error, script not exhausted)
  deriving DecidableEq, Repr

def pull (sc : Scan) : List Reply → St → Pull
  | [], s => if s.closed then ⟨[], s, [], true⟩ else ⟨[], onErr sc s (some (.err "starved")), [], false⟩
  | rp :: rest, s =>
    if s.closed then ⟨[], s, rp :: rest, true⟩ else
    match rp with
    | .err c => ⟨[], onErr sc s (some (.err c)), rest, false⟩
    | .resp g r =>
      let p := pull sc rest (onResp sc s g r)
      ⟨r.results ++ p.frags, p.fin, p.rest, p.ok⟩

theorem pull_closed (sc : Scan) (R : List Reply) (s : St) (h : s.closed = true) :
    pull sc R s = ⟨[], s, R, true⟩ := by
  cases R <;> simp [pull, h]

theorem pull_fin_closed (sc : Scan) (R : List Reply) (s : St) : (pull sc R s).fin.closed = true := by
  induction R generalizing s with
  | nil =>
    unfold pull
    by_cases h : s.closed = true
    · simp [h]
    · simp [h, onErr_closed]
  | cons rp rest ih =>
    unfold pull
    by_cases h : s.closed = true
    · simp [h]
    · simp only [h, Bool.false_eq_true, if_false]
      cases rp with
      | err c => simp [onErr_closed]
      | resp g r => exact ih _

/-! ### the buffer does not influence the walk -/

def setBuf (s : St) (x : List Frag) : St := { s with results := x }

theorem closeRegionScanner_setBuf (sc : Scan) (s : St) (x : List Frag) :
    closeRegionScanner sc (setBuf s x) = setBuf (closeRegionScanner sc s) x := by
  unfold closeRegionScanner setBuf
  cases h : s.curId with
  | none => simp [h]
  | some id =>
    simp only [h]
    by_cases hc : sc.closing = true <;> simp [hc, closeReq]

theorem close_setBuf (sc : Scan) (s : St) (x : List Frag) :
    close sc (setBuf s x) = setBuf (close sc s) x := by
  unfold close
  by_cases h : s.closed = true
  · simp [h, setBuf]
  · have : (setBuf s x).closed = s.closed := rfl
    simp only [this, h, Bool.false_eq_true, if_false]
    exact closeRegionScanner_setBuf sc { s with closed := true } x

theorem mkReq_setBuf (sc : Scan) (s : St) (x : List Frag) : mkReq sc (setBuf s x) = mkReq sc s := by
  unfold mkReq setBuf
  cases s.curId <;> rfl

theorem updateRow_setBuf (sc : Scan) (s : St) (r : Resp) (g : Region) (x : List Frag) :
    updateRow sc (setBuf s x) r g = setBuf (updateRow sc s r g) x := by
  unfold updateRow setBuf
  split
  · rfl
  · simp only []
    split
    · rfl
    · split <;> rfl

theorem update_setBuf (sc : Scan) (s : St) (r : Resp) (g : Region) (x : List Frag) :
    update sc (setBuf s x) r g = setBuf (update sc s r g) x := by
  unfold update
  simp only []
  rw [← updateRow_setBuf]
  congr 1
  obtain ⟨cur, sr, res, cl, lg⟩ := s
  unfold setBuf
  cases cur <;> cases r.scannerId <;> rfl

theorem isDone_setBuf (sc : Scan) (s : St) (r : Resp) (g : Region) (x : List Frag) :
    isDone sc (setBuf s x) r g = isDone sc s r g := rfl

theorem onResp_setBuf (sc : Scan) (s : St) (g : Region) (r : Resp) (x : List Frag) :
    onResp sc (setBuf s x) g r = setBuf (onResp sc s g r) x := by
  unfold onResp
  simp only [mkReq_setBuf]
  have e : ({ setBuf s x with log := ⟨mkReq sc s, some (.resp g r)⟩ :: (setBuf s x).log } : St)
      = setBuf { s with log := ⟨mkReq sc s, some (.resp g r)⟩ :: s.log } x := rfl
  rw [e, update_setBuf, isDone_setBuf]
  split
  · exact close_setBuf sc _ x
  · rfl

theorem onErr_setBuf (sc : Scan) (s : St) (rp : Option Reply) (x : List Frag) :
    onErr sc (setBuf s x) rp = setBuf (onErr sc s rp) x := by
  unfold onErr
  simp only [mkReq_setBuf]
  have e : ({ setBuf s x with log := ⟨mkReq sc s, rp⟩ :: (setBuf s x).log } : St)
      = setBuf { s with log := ⟨mkReq sc s, rp⟩ :: s.log } x := rfl
  rw [e]
  exact close_setBuf sc _ x

theorem pull_setBuf (sc : Scan) (R : List Reply) (s : St) (x : List Frag) :
    pull sc R (setBuf s x) =
      ⟨(pull sc R s).frags, setBuf (pull sc R s).fin x, (pull sc R s).rest, (pull sc R s).ok⟩ := by
  induction R generalizing s with
  | nil =>
    unfold pull
    have : (setBuf s x).closed = s.closed := rfl
    by_cases h : s.closed = true
    · simp [this, h]
    · simp [this, h, onErr_setBuf]
  | cons rp rest ih =>
    unfold pull
    have : (setBuf s x).closed = s.closed := rfl
    by_cases h : s.closed = true
    · simp [this, h]
    · simp only [this, h, Bool.false_eq_true, if_false]
      cases rp with
      | err c => simp [onErr_setBuf]
      | resp g r =>
        simp only [onResp_setBuf, ih]

/-! ### `fetch` and `peek` against the walk -/

theorem fetch_pull (sc : Scan) (R : List Reply) (s : St) (h : s.closed = false) :
    match fetch sc R s with
    | (.rows f fs, s1, R1) =>
        pull sc R s = ⟨f :: fs ++ (pull sc R1 s1).frags, (pull sc R1 s1).fin, (pull sc R1 s1).rest,
                       (pull sc R1 s1).ok⟩
    | (.eof, s1, R1) => pull sc R s = ⟨[], s1, R1, true⟩
    | (.err _, s1, R1) => pull sc R s = ⟨[], s1, R1, false⟩ := by
  induction R generalizing s with
  | nil => simp [fetch, pull, h]
  | cons rp rest ih =>
    cases rp with
    | err c => simp [fetch, pull, h]
    | resp g r =>
      simp only [fetch, pull, h, Bool.false_eq_true, if_false]
      cases hr : r.results with
      | cons f fs => simp
      | nil =>
        simp only [List.nil_append]
        by_cases hc : (onResp sc s g r).closed = true
        · simp only [hc, if_true]
          rw [pull_closed sc rest _ hc]
        · simp only [hc, Bool.false_eq_true, if_false]
          have := ih (onResp sc s g r) (by simpa using hc)
          rcases hfe : fetch sc rest (onResp sc s g r) with ⟨x, s1, R1⟩
          rw [hfe] at this
          cases x with
          | rows f fs => simp only [] at this ⊢; rw [this]
          | eof => simp only [] at this ⊢; rw [this]
          | err c => simp only [] at this ⊢; rw [this]

/-- The stream still to be delivered: what is buffered, then what the walk will bring. -/
def future (sc : Scan) (R : List Reply) (s : St) : List Frag := s.results ++ (pull sc R s).frags

/-- States that agree except for the buffer. -/
def sameWalk (a b : St) : Prop := ∃ x, a = setBuf b x

theorem peek_pull (sc : Scan) (R : List Reply) (s : St) :
    match peek sc R s with
    | (.frag f, s1, R1) =>
        ∃ fs, s1.results = f :: fs ∧ future sc R s = f :: fs ++ (pull sc R1 s1).frags ∧
          (pull sc R1 s1).ok = (pull sc R s).ok ∧ (pull sc R1 s1).rest = (pull sc R s).rest ∧
          (pull sc R1 s1).fin.log = (pull sc R s).fin.log
    | (.eof, s1, R1) =>
        future sc R s = [] ∧ (pull sc R s).ok = true ∧ s1.closed = true ∧ s1.results = [] ∧
          R1 = (pull sc R s).rest ∧ s1.log = (pull sc R s).fin.log
    | (.err _, s1, R1) => (pull sc R s).ok = false ∧ s1.log = (pull sc R s).fin.log ∧
        R1 = (pull sc R s).rest := by
  unfold peek
  cases hres : s.results with
  | cons f fs =>
    simp only []
    exact ⟨fs, hres, by simp [future, hres], trivial, trivial, trivial⟩
  | nil =>
    simp only []
    by_cases hc : s.closed = true
    · simp only [hc, if_true]
      rw [pull_closed sc R s hc]
      simp [future, hres, pull_closed sc R s hc]
    · simp only [hc, Bool.false_eq_true, if_false]
      have hf := fetch_pull sc R s (by simpa using hc)
      have hfr := fetch_results sc R s
      have hfc := fetch_closed_of_not_rows sc R s
      revert hf hfr hfc
      rcases fetch sc R s with ⟨x, s1, R1⟩
      cases x with
      | rows f fs =>
        intro hf _ _
        simp only [] at hf ⊢
        have hb : ({ s1 with results := f :: fs } : St) = setBuf s1 (f :: fs) := rfl
        rw [hb, pull_setBuf]
        refine ⟨fs, rfl, ?_, ?_, ?_, ?_⟩
        · simp [future, hres, hf]
        · rw [hf]
        · rw [hf]
        · rw [hf]; rfl
      | eof =>
        intro hf hfr hfc
        simp only [] at hf hfr hfc ⊢
        rw [hf]
        refine ⟨by simp [future, hres, hf], rfl, hfc (by simp), by rw [hfr, hres], rfl, rfl⟩
      | err c =>
        intro hf _ _
        simp only [] at hf ⊢
        rw [hf]
        exact ⟨rfl, rfl, rfl⟩

/-! ## `Next` against the stream -/

/-- What the rest of the walk looks like from a state: does it end cleanly, which replies stay
    unconsumed, and the final request log. -/
def walkSig (sc : Scan) (R : List Reply) (s : St) : Bool × List Reply × List Exch :=
  ((pull sc R s).ok, (pull sc R s).rest, (pull sc R s).fin.log)

theorem walkSig_closed (sc : Scan) (R : List Reply) (s : St) (h : s.closed = true) :
    walkSig sc R s = (true, R, s.log) := by
  simp [walkSig, pull_closed sc R s h]

theorem future_shift (sc : Scan) (R : List Reply) (s : St) (f : Frag) (fs : List Frag)
    (h : s.results = f :: fs) :
    future sc R (shift s) = fs ++ (pull sc R s).frags ∧ walkSig sc R (shift s) = walkSig sc R s := by
  have e : shift s = setBuf s fs := by simp [shift, setBuf, h]
  rw [e]
  have hp := pull_setBuf sc R s fs
  constructor
  · simp only [future, hp]; rfl
  · simp only [walkSig, hp]; rfl

def Item.ok (f : Frag) : Item := ⟨some f, none⟩
def Item.eof : Item := ⟨none, some "EOF"⟩

/-- `Next` with `AllowPartialResults` hands out the stream fragment by fragment. -/
theorem next_partial_stream (sc : Scan) (R : List Reply) (s : St) (hp : sc.allowPartial = true)
    (hok : (pull sc R s).ok = true) :
    match future sc R s with
    | f :: X => ∃ s1 R1, next sc false R s = (Item.ok f, s1, R1) ∧ future sc R1 s1 = X ∧
        walkSig sc R1 s1 = walkSig sc R s
    | [] => ∃ s1 R1, next sc false R s = (Item.eof, s1, R1) ∧ s1.closed = true ∧ s1.results = [] ∧
        walkSig sc R1 s1 = walkSig sc R s := by
  have hpk := peek_pull sc R s
  unfold next
  simp only [Bool.false_and, Bool.false_eq_true, if_false, hp, if_true]
  rcases hpe : peek sc R s with ⟨x, s1, R1⟩
  rw [hpe] at hpk
  cases x with
  | frag f =>
    simp only [] at hpk ⊢
    obtain ⟨fs, h1, h2, h3, h4, h5⟩ := hpk
    rw [h2]
    simp only [List.cons_append]
    have := future_shift sc R1 s1 f fs h1
    refine ⟨_, _, rfl, this.1, ?_⟩
    rw [this.2]
    simp [walkSig, h3, h4, h5]
  | eof =>
    simp only [] at hpk ⊢
    obtain ⟨h1, h2, h3, h4, h5, h6⟩ := hpk
    rw [h1]
    refine ⟨_, _, rfl, h3, h4, ?_⟩
    rw [walkSig_closed sc R1 s1 h3]
    simp [walkSig, h2, h5, h6]
  | err c =>
    simp only [] at hpk
    rw [hpk.1] at hok; cases hok

/-- The loop of `Next` is `assemble1` on the stream. -/
theorem nextLoop_stream (sc : Scan) (fuel : Nat) (acc : Option Frag) (R : List Reply) (s : St)
    (x : Item × St × List Reply) (hx : nextLoop sc fuel acc R s = some x)
    (hok : (pull sc R s).ok = true) :
    match assemble1 acc (future sc R s) with
    | some (res, X) => x.1 = Item.ok res ∧ future sc x.2.2 x.2.1 = X ∧
        walkSig sc x.2.2 x.2.1 = walkSig sc R s
    | none => x.1 = Item.eof ∧ x.2.1.closed = true ∧ x.2.1.results = [] ∧
        walkSig sc x.2.2 x.2.1 = walkSig sc R s := by
  induction fuel generalizing acc R s with
  | zero => simp [nextLoop] at hx
  | succ n ih =>
    have hpk := peek_pull sc R s
    unfold nextLoop at hx
    rcases hpe : peek sc R s with ⟨y, s1, R1⟩
    rw [hpe] at hpk hx
    cases y with
    | eof =>
      simp only [] at hpk hx
      obtain ⟨h1, h2, h3, h4, h5, h6⟩ := hpk
      have hw : walkSig sc R1 s1 = walkSig sc R s := by
        rw [walkSig_closed sc R1 s1 h3]; simp [walkSig, h2, h5, h6]
      rw [h1]
      cases acc with
      | none =>
        simp only [] at hx
        injection hx with hx; subst hx
        simp only [assemble1, Option.map_none]
        exact ⟨rfl, h3, h4, hw⟩
      | some a =>
        simp only [] at hx
        injection hx with hx; subst hx
        simp only [assemble1, Option.map_some]
        refine ⟨rfl, ?_, hw⟩
        simp [future, h4, pull_closed sc R1 s1 h3]
    | err c =>
      simp only [] at hpk
      rw [hpk.1] at hok; cases hok
    | frag p =>
      simp only [] at hpk hx
      obtain ⟨fs, h1, h2, h3, h4, h5⟩ := hpk
      have hw1 : walkSig sc R1 s1 = walkSig sc R s := by simp [walkSig, h3, h4, h5]
      have hok1 : (pull sc R1 s1).ok = true := by rw [h3]; exact hok
      rw [h2]
      simp only [List.cons_append, assemble1]
      have hsh := future_shift sc R1 s1 p fs h1
      by_cases hd : (coalesce acc p).2 = true
      · simp only [hd, if_true] at hx ⊢
        by_cases hpart : (coalesce acc p).1.part = true
        · simp only [hpart, Bool.not_true, Bool.false_eq_true, if_false, if_true] at hx ⊢
          have hok2 : (pull sc R1 (shift s1)).ok = true := by
            have := hsh.2; simp only [walkSig, Prod.mk.injEq] at this; rw [this.1]; exact hok1
          have := ih _ _ _ hx hok2
          rw [hsh.1, hsh.2, hw1] at this
          exact this
        · simp only [hpart, Bool.not_false, if_true, Bool.false_eq_true, if_false] at hx ⊢
          injection hx with hx; subst hx
          exact ⟨rfl, hsh.1, by rw [hsh.2, hw1]⟩
      · have hpart := coalesce_not_done acc p (by simpa using hd)
        simp only [hd, Bool.false_eq_true, if_false, hpart, Bool.not_false, if_true] at hx ⊢
        injection hx with hx; subst hx
        refine ⟨rfl, ?_, hw1⟩
        simp [future, h1]

/-- `Next` without `AllowPartialResults`, on the stream. -/
theorem next_stream (sc : Scan) (R : List Reply) (s : St) (hp : sc.allowPartial = false)
    (hok : (pull sc R s).ok = true) :
    match assemble1 none (future sc R s) with
    | some (res, X) => ∃ s1 R1, next sc false R s = (Item.ok res, s1, R1) ∧ future sc R1 s1 = X ∧
        walkSig sc R1 s1 = walkSig sc R s
    | none => ∃ s1 R1, next sc false R s = (Item.eof, s1, R1) ∧ s1.closed = true ∧ s1.results = [] ∧
        walkSig sc R1 s1 = walkSig sc R s := by
  have h0 := nextLoop_isSome sc (measure R s + 1) none R s (by omega)
  obtain ⟨x, hx⟩ := Option.isSome_iff_exists.mp h0
  have := nextLoop_stream sc _ none R s x hx hok
  unfold next
  simp only [Bool.false_and, Bool.false_eq_true, if_false, hp, hx, Option.getD_some]
  obtain ⟨it, s1, R1⟩ := x
  revert this
  cases assemble1 none (future sc R s) with
  | none => intro h; exact ⟨s1, R1, by rw [← h.1], h.2.1, h.2.2.1, h.2.2.2⟩
  | some y => intro h; exact ⟨s1, R1, by rw [← h.1], h.2.1, h.2.2⟩

/-! ## `assemble1` / `assembleAll` -/

theorem assemble1_acc_isSome (a : Frag) (X : List Frag) : (assemble1 (some a) X).isSome := by
  induction X generalizing a with
  | nil => simp [assemble1]
  | cons f fs ih =>
    simp only [assemble1]
    split
    · split
      · exact ih _
      · rfl
    · rfl

theorem assemble1_cons_isSome (acc : Option Frag) (f : Frag) (fs : List Frag) :
    (assemble1 acc (f :: fs)).isSome := by
  simp only [assemble1]
  split
  · split
    · exact assemble1_acc_isSome _ _
    · rfl
  · rfl

theorem assemble1_length (acc : Option Frag) (X : List Frag) (res : Frag) (X' : List Frag)
    (h : assemble1 acc X = some (res, X')) : X'.length ≤ X.length := by
  induction X generalizing acc with
  | nil =>
    cases acc <;> simp [assemble1] at h
    simp [h.2.symm]
  | cons f fs ih =>
    simp only [assemble1] at h
    split at h
    · split at h
      · have := ih _ h; simp; omega
      · injection h with h; injection h with h1 h2; subst h2; simp
    · injection h with h; injection h with h1 h2; subst h2; simp

theorem assemble1_none_length (X : List Frag) (res : Frag) (X' : List Frag)
    (h : assemble1 none X = some (res, X')) : X'.length < X.length := by
  cases X with
  | nil => simp [assemble1] at h
  | cons f fs =>
    simp only [assemble1, coalesce, if_true] at h
    by_cases hp : f.part = true
    · simp only [hp, if_true] at h
      have := assemble1_length _ _ _ _ h; simp; omega
    · simp only [hp, Bool.false_eq_true, if_false] at h
      injection h with h; injection h with h1 h2; subst h2; simp

theorem assembleAll_unfold (acc : Option Frag) (X : List Frag) :
    assembleAll acc X = match assemble1 acc X with
      | none => []
      | some (r, X') => r :: assembleAll none X' := by
  induction X generalizing acc with
  | nil => cases acc <;> simp [assembleAll, assemble1]
  | cons f fs ih =>
    simp only [assembleAll, assemble1]
    by_cases hd : (coalesce acc f).2 = true
    · simp only [hd, if_true]
      by_cases hp : (coalesce acc f).1.part = true
      · simp only [hp, if_true]; exact ih _
      · simp [hp]
    · simp only [hd, Bool.false_eq_true, if_false]
      congr 1

theorem pull_frags_length (sc : Scan) (R : List Reply) (s : St) :
    (pull sc R s).frags.length ≤ (R.map replyWeight).sum := by
  induction R generalizing s with
  | nil => unfold pull; split <;> simp
  | cons rp rest ih =>
    unfold pull
    split
    · simp
    · cases rp with
      | err c => simp
      | resp g r =>
        have := ih (onResp sc s g r)
        simp [replyWeight]; omega

theorem future_length (sc : Scan) (R : List Reply) (s : St) :
    (future sc R s).length ≤ measure R s := by
  rw [measure_eq]
  have := pull_frags_length sc R s
  simp [future]; omega

/-! ## calling `Next` until `io.EOF` -/

theorem collectN_stream (sc : Scan) (n : Nat) (R : List Reply) (s : St) (hp : sc.allowPartial = false)
    (hok : (pull sc R s).ok = true) (hn : (future sc R s).length < n) :
    ∃ s1 R1, collectN sc n R s = ((assembleAll none (future sc R s)).map Item.ok ++ [Item.eof], s1, R1) ∧
      s1.closed = true ∧ walkSig sc R s = (true, R1, s1.log) := by
  induction n generalizing R s with
  | zero => omega
  | succ n ih =>
    have hs := next_stream sc R s hp hok
    rw [assembleAll_unfold]
    unfold collectN
    cases ha : assemble1 none (future sc R s) with
    | none =>
      rw [ha] at hs
      obtain ⟨s1, R1, h1, h2, h3, h4⟩ := hs
      rw [h1]
      simp only [Item.eof, Option.isSome_some, if_true, List.map_nil, List.nil_append]
      refine ⟨s1, R1, rfl, h2, ?_⟩
      rw [← h4, walkSig_closed sc R1 s1 h2]
    | some y =>
      obtain ⟨res, X⟩ := y
      rw [ha] at hs
      obtain ⟨s1, R1, h1, h2, h3⟩ := hs
      rw [h1]
      simp only [Item.ok, Option.isSome_none, Bool.false_eq_true, if_false]
      have hlen := assemble1_none_length _ _ _ ha
      have hok1 : (pull sc R1 s1).ok = true := by
        simp only [walkSig, Prod.mk.injEq] at h3; rw [h3.1]; exact hok
      obtain ⟨s2, R2, h5, h6, h7⟩ := ih R1 s1 hok1 (by rw [h2]; omega)
      rw [h5, h2]
      exact ⟨s2, R2, rfl, h6, by rw [← h3, h7]⟩

theorem collectN_partial_stream (sc : Scan) (n : Nat) (R : List Reply) (s : St) (hp : sc.allowPartial = true)
    (hok : (pull sc R s).ok = true) (hn : (future sc R s).length < n) :
    ∃ s1 R1, collectN sc n R s = ((future sc R s).map Item.ok ++ [Item.eof], s1, R1) ∧
      s1.closed = true ∧ walkSig sc R s = (true, R1, s1.log) := by
  induction n generalizing R s with
  | zero => omega
  | succ n ih =>
    have hs := next_partial_stream sc R s hp hok
    unfold collectN
    cases ha : future sc R s with
    | nil =>
      rw [ha] at hs
      obtain ⟨s1, R1, h1, h2, h3, h4⟩ := hs
      rw [h1]
      simp only [Item.eof, Option.isSome_some, if_true, List.map_nil, List.nil_append]
      refine ⟨s1, R1, rfl, h2, ?_⟩
      rw [← h4, walkSig_closed sc R1 s1 h2]
    | cons f X =>
      rw [ha] at hs hn
      obtain ⟨s1, R1, h1, h2, h3⟩ := hs
      rw [h1]
      simp only [Item.ok, Option.isSome_none, Bool.false_eq_true, if_false]
      have hok1 : (pull sc R1 s1).ok = true := by
        simp only [walkSig, Prod.mk.injEq] at h3; rw [h3.1]; exact hok
      obtain ⟨s2, R2, h5, h6, h7⟩ := ih R1 s1 hok1 (by rw [h2]; simp at hn; omega)
      rw [h5, h2]
      exact ⟨s2, R2, rfl, h6, by rw [← h3, h7]⟩

/-! ## the request log of a complete run is the walk's log, whatever happens -/

def finLog (sc : Scan) (R : List Reply) (s : St) : List Exch := (pull sc R s).fin.log

theorem finLog_closed (sc : Scan) (R : List Reply) (s : St) (h : s.closed = true) :
    finLog sc R s = s.log := by
  simp [finLog, pull_closed sc R s h]

theorem finLog_setBuf (sc : Scan) (R : List Reply) (s : St) (x : List Frag) :
    finLog sc R (setBuf s x) = finLog sc R s := by
  unfold finLog
  rw [pull_setBuf]
  rfl

theorem finLog_shift (sc : Scan) (R : List Reply) (s : St) : finLog sc R (shift s) = finLog sc R s :=
  finLog_setBuf sc R s _

theorem peek_finLog (sc : Scan) (R : List Reply) (s : St) :
    finLog sc (peek sc R s).2.2 (peek sc R s).2.1 = finLog sc R s := by
  have h := peek_pull sc R s
  have hnf := peek_not_frag sc R s
  rcases hpe : peek sc R s with ⟨x, s1, R1⟩
  rw [hpe] at h
  have hnf' := hnf s1 R1 x hpe
  cases x with
  | frag f => obtain ⟨_, _, _, _, _, h5⟩ := h; exact h5
  | eof =>
    obtain ⟨_, _, h3, _, _, h6⟩ := h
    simp only []
    rw [finLog_closed sc R1 s1 h3]; exact h6
  | err c =>
    simp only [] at h ⊢
    rw [finLog_closed sc R1 s1 (hnf' (by simp)).1]; exact h.2.1

theorem nextLoop_finLog (sc : Scan) (fuel : Nat) (acc : Option Frag) (R : List Reply) (s : St)
    (x : Item × St × List Reply) (hx : nextLoop sc fuel acc R s = some x) :
    finLog sc x.2.2 x.2.1 = finLog sc R s := by
  induction fuel generalizing acc R s with
  | zero => simp [nextLoop] at hx
  | succ n ih =>
    have hp := peek_finLog sc R s
    unfold nextLoop at hx
    rcases hpe : peek sc R s with ⟨y, s1, R1⟩
    rw [hpe] at hx hp
    cases y with
    | eof =>
      simp only [] at hx hp
      cases acc <;> (simp only [] at hx; injection hx with hx; subst hx; exact hp)
    | err c =>
      simp only [] at hx hp
      injection hx with hx; subst hx; exact hp
    | frag p =>
      simp only [] at hx hp
      have hs2 : finLog sc R1 (if (coalesce acc p).2 then shift s1 else s1) = finLog sc R s := by
        split
        · rw [finLog_shift]; exact hp
        · exact hp
      split at hx
      · injection hx with hx; subst hx; exact hs2
      · rw [ih _ _ _ hx]; exact hs2

theorem next_finLog (sc : Scan) (R : List Reply) (s : St) :
    finLog sc (next sc false R s).2.2 (next sc false R s).2.1 = finLog sc R s := by
  unfold next
  simp only [Bool.false_and, Bool.false_eq_true, if_false]
  split
  · have hp := peek_finLog sc R s
    rcases hpe : peek sc R s with ⟨y, s1, R1⟩
    rw [hpe] at hp
    cases y with
    | frag f => simp only []; rw [finLog_shift]; exact hp
    | eof => exact hp
    | err c => exact hp
  · have h0 := nextLoop_isSome sc (measure R s + 1) none R s (by omega)
    obtain ⟨x, hx⟩ := Option.isSome_iff_exists.mp h0
    rw [hx]
    exact nextLoop_finLog sc _ _ _ _ x hx

theorem collectN_finLog (sc : Scan) (n : Nat) (R : List Reply) (s : St) :
    finLog sc (collectN sc n R s).2.2 (collectN sc n R s).2.1 = finLog sc R s := by
  induction n generalizing R s with
  | zero => rfl
  | succ n ih =>
    unfold collectN
    have h1 := next_finLog sc R s
    rcases hn : next sc false R s with ⟨it, s1, R1⟩
    rw [hn] at h1
    simp only []
    split
    · exact h1
    · have h2 := ih R1 s1
      rcases hc : collectN sc n R1 s1 with ⟨its, s2, R2⟩
      rw [hc] at h2
      simp only []
      rw [h2]; exact h1

theorem collectN_closed (sc : Scan) (n : Nat) (R : List Reply) (s : St) (hn : measure R s < n) :
    (collectN sc n R s).2.1.closed = true := by
  induction n generalizing R s with
  | zero => omega
  | succ n ih =>
    unfold collectN
    have h1 := next_err_closed sc false R s
    have h2 := next_progress sc R s
    rcases hnx : next sc false R s with ⟨it, s1, R1⟩
    rw [hnx] at h1 h2
    simp only [] at h1 h2 ⊢
    by_cases he : it.err.isSome = true
    · simp only [he, if_true]
      exact (h1 he).1
    · simp only [he, Bool.false_eq_true, if_false]
      have he' : it.err = none := by
        cases h : it.err with
        | none => rfl
        | some e => simp [h] at he
      have := ih R1 s1 (by have := h2 he'; omega)
      rcases hc : collectN sc n R1 s1 with ⟨its, s2, R2⟩
      rw [hc] at this
      exact this

/-- The requests of a complete run (`Next` until it reports an error or `io.EOF`) are exactly the
    requests of the walk. -/
theorem collect_log (sc : Scan) (R : List Reply) :
    (collect sc R).2.1.log = (pull sc R (St.init sc)).fin.log := by
  unfold collect
  have h1 := collectN_finLog sc (measure R (St.init sc) + 1) R (St.init sc)
  have h2 := collectN_closed sc (measure R (St.init sc) + 1) R (St.init sc) (by omega)
  rw [finLog_closed _ _ _ h2] at h1
  exact h1

end GV.Scanner
