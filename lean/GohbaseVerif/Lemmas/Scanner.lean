import GohbaseVerif.Model.Scanner
/-!
Helper lemmas about the scanner model: basic facts about `close`/`fetch`/`peek`, the loop bound
of `Next`, and the induction principle over everything a user can do with a scanner
(`runOps_invariant`).
-/
namespace GV.Scanner
open GV

/-! ## close -/

theorem closeRegionScanner_closed (sc : Scan) (s : St) :
    (closeRegionScanner sc s).closed = s.closed := by
  unfold closeRegionScanner
  cases s.curId <;> simp
  split <;> rfl

theorem closeRegionScanner_results (sc : Scan) (s : St) :
    (closeRegionScanner sc s).results = s.results := by
  unfold closeRegionScanner
  cases s.curId <;> simp
  split <;> rfl

theorem closeRegionScanner_curId (sc : Scan) (s : St) :
    (closeRegionScanner sc s).curId = none := by
  unfold closeRegionScanner
  cases h : s.curId <;> simp [h]

theorem closeRegionScanner_startRow (sc : Scan) (s : St) :
    (closeRegionScanner sc s).startRow = s.startRow := by
  unfold closeRegionScanner
  cases s.curId <;> simp
  split <;> rfl

theorem close_closed (sc : Scan) (s : St) : (close sc s).closed = true := by
  unfold close
  by_cases h : s.closed
  · simp [h]
  · simp [h, closeRegionScanner_closed]

theorem close_results (sc : Scan) (s : St) : (close sc s).results = s.results := by
  unfold close
  by_cases h : s.closed
  · simp [h]
  · simp [h, closeRegionScanner_results]

theorem close_of_closed (sc : Scan) (s : St) (h : s.closed = true) : close sc s = s := by
  simp [close, h]

/-! ## update / onResp / onErr do not touch the buffer -/

theorem updateRow_results (sc : Scan) (s : St) (r : Resp) (g : Region) :
    (updateRow sc s r g).results = s.results := by
  unfold updateRow
  split
  · rfl
  · simp only []
    split
    · rfl
    · split <;> rfl

theorem update_results (sc : Scan) (s : St) (r : Resp) (g : Region) :
    (update sc s r g).results = s.results := by
  unfold update
  rw [updateRow_results]
  split <;> rfl

theorem updateRow_closed (sc : Scan) (s : St) (r : Resp) (g : Region) :
    (updateRow sc s r g).closed = s.closed := by
  unfold updateRow
  split
  · rfl
  · simp only []
    split
    · rfl
    · split <;> rfl

theorem update_closed (sc : Scan) (s : St) (r : Resp) (g : Region) :
    (update sc s r g).closed = s.closed := by
  unfold update
  rw [updateRow_closed]
  split <;> rfl

theorem onResp_results (sc : Scan) (s : St) (g : Region) (r : Resp) :
    (onResp sc s g r).results = s.results := by
  unfold onResp
  simp only []
  split
  · rw [close_results, update_results]
  · rw [update_results]

theorem onErr_results (sc : Scan) (s : St) (rp : Option Reply) :
    (onErr sc s rp).results = s.results := by
  unfold onErr; rw [close_results]

theorem onErr_closed (sc : Scan) (s : St) (rp : Option Reply) : (onErr sc s rp).closed = true := by
  unfold onErr; rw [close_closed]

/-! ## fetch -/

theorem fetch_results (sc : Scan) (R : List Reply) (s : St) :
    (fetch sc R s).2.1.results = s.results := by
  induction R generalizing s with
  | nil => simp [fetch, onErr_results]
  | cons rp rest ih =>
    cases rp with
    | err c => simp [fetch, onErr_results]
    | resp g r =>
      simp only [fetch]
      split
      · simp [onResp_results]
      · split
        · simp [onResp_results]
        · rw [ih, onResp_results]

/-- After `fetch` reports `io.EOF` or an error the scanner is closed. -/
theorem fetch_closed_of_not_rows (sc : Scan) (R : List Reply) (s : St)
    (h : ∀ f fs, (fetch sc R s).1 ≠ .rows f fs) : (fetch sc R s).2.1.closed = true := by
  induction R generalizing s with
  | nil => simp [fetch, onErr_closed]
  | cons rp rest ih =>
    cases rp with
    | err c => simp [fetch, onErr_closed]
    | resp g r =>
      simp only [fetch] at h ⊢
      split
      · rename_i f fs hr
        simp only [hr] at h
        exact absurd rfl (h f fs)
      · rename_i hr
        simp only [hr] at h
        split
        · rename_i hc; simpa using hc
        · rename_i hc
          simp only [hc] at h
          exact ih _ (by simpa using h)

/-- Replies consumed: `fetch` consumes at least one scripted reply (unless the script is empty). -/
def replyWeight : Reply → Nat
  | .resp _ r => r.results.length + 1
  | .err _ => 1

theorem measure_eq (R : List Reply) (s : St) :
    measure R s = s.results.length + (R.map replyWeight).sum := by
  unfold measure
  congr 2

def fetchWeight : FetchRes → Nat
  | .rows _ fs => fs.length + 1
  | _ => 0

/-- What `fetch` returns plus what it leaves weighs less than what it was given. -/
theorem fetch_measure (sc : Scan) (R : List Reply) (s : St) :
    fetchWeight (fetch sc R s).1 + ((fetch sc R s).2.2.map replyWeight).sum
      ≤ (R.map replyWeight).sum := by
  induction R generalizing s with
  | nil => simp [fetch, fetchWeight]
  | cons rp rest ih =>
    cases rp with
    | err c => simp [fetch, fetchWeight]
    | resp g r =>
      simp only [fetch]
      cases hr : r.results with
      | cons f fs => simp [replyWeight, hr, fetchWeight]
      | nil =>
        simp only []
        by_cases hc : (onResp sc s g r).closed = true
        · simp [hc, fetchWeight]
        · simp only [hc]
          have := ih (onResp sc s g r)
          simp only [List.map_cons, List.sum_cons, Bool.false_eq_true, if_false]
          omega

/-! ## peek -/

theorem peek_frag_results (sc : Scan) (R : List Reply) (s : St) (f : Frag) (s1 : St) (R1 : List Reply)
    (h : peek sc R s = (.frag f, s1, R1)) : ∃ fs, s1.results = f :: fs := by
  unfold peek at h
  split at h
  · rename_i f' fs hr
    injection h with h1 h2
    injection h1 with h1
    injection h2 with h2 h3
    subst h1 h2
    exact ⟨fs, hr⟩
  · split at h
    · cases h
    · split at h
      · injection h with h1 h2
        injection h1 with h1
        injection h2 with h2 h3
        subst h1 h2
        exact ⟨_, rfl⟩
      · cases h
      · cases h

/-- After `peek` reports `io.EOF` or an error: closed, nothing buffered. -/
theorem peek_not_frag (sc : Scan) (R : List Reply) (s : St) (s1 : St) (R1 : List Reply) (x : PeekRes)
    (h : peek sc R s = (x, s1, R1)) (hx : ∀ f, x ≠ .frag f) : s1.closed = true ∧ s1.results = [] := by
  unfold peek at h
  split at h
  · injection h with h1 h2
    exact absurd h1.symm (hx _)
  · rename_i hr
    split at h
    · rename_i hc
      injection h with h1 h2
      injection h2 with h2 h3
      subst h2
      exact ⟨hc, hr⟩
    · have hres := fetch_results sc R s
      have hcl := fetch_closed_of_not_rows sc R s
      split at h
      · injection h with h1 h2
        exact absurd h1.symm (hx _)
      · rename_i heq
        injection h with h1 h2
        injection h2 with h2 h3
        subst h2
        rw [heq] at hres hcl
        exact ⟨hcl (by simp), by simpa [hr] using hres⟩
      · rename_i heq
        injection h with h1 h2
        injection h2 with h2 h3
        subst h2
        rw [heq] at hres hcl
        exact ⟨hcl (by simp), by simpa [hr] using hres⟩

/-- The loop bound decreases across `peek` + `shift`. -/
theorem peek_measure (sc : Scan) (R : List Reply) (s : St) (f : Frag) (s1 : St) (R1 : List Reply)
    (h : peek sc R s = (.frag f, s1, R1)) : measure R1 s1 ≤ measure R s := by
  rw [measure_eq, measure_eq]
  unfold peek at h
  split at h
  · injection h with h1 h2
    injection h2 with h2 h3
    subst h2 h3
    exact Nat.le_refl _
  · rename_i hr
    split at h
    · cases h
    · have hm := fetch_measure sc R s
      split at h
      · rename_i heq
        injection h with h1 h2
        injection h2 with h2 h3
        subst h2 h3
        rw [heq] at hm
        simp only [List.length_cons, fetchWeight] at hm ⊢
        omega
      · cases h
      · cases h

/-! ## the `Next` loop -/

theorem coalesce_not_done (acc : Option Frag) (p : Frag) (h : (coalesce acc p).2 = false) :
    (coalesce acc p).1.part = false := by
  unfold coalesce at h ⊢
  cases acc with
  | none => simp at h
  | some r =>
    simp only [] at h ⊢
    by_cases hp : r.part
    · simp only [hp, Bool.not_true, Bool.false_eq_true, if_false] at h ⊢
      by_cases hn : isNewRow r p
      · simp [hn]
      · simp [hn] at h
    · simp [hp]

theorem shift_measure (R : List Reply) (s : St) (f : Frag) (fs : List Frag)
    (h : s.results = f :: fs) : measure R (shift s) + 1 = measure R s := by
  simp [measure, shift, h]; omega

/-- The bound `measure + 1` is enough: the loop always returns. -/
theorem nextLoop_isSome (sc : Scan) (fuel : Nat) (acc : Option Frag) (R : List Reply) (s : St)
    (h : measure R s < fuel) : (nextLoop sc fuel acc R s).isSome := by
  induction fuel generalizing acc R s with
  | zero => omega
  | succ n ih =>
    unfold nextLoop
    split
    · split <;> rfl
    · rfl
    · rename_i p s1 R1 hp
      simp only []
      by_cases hpart : (coalesce acc p).1.part
      · simp only [hpart, Bool.not_true, Bool.false_eq_true, if_false]
        have hd : (coalesce acc p).2 = true := by
          cases hd : (coalesce acc p).2 with
          | true => rfl
          | false => rw [coalesce_not_done acc p hd] at hpart; cases hpart
        simp only [hd, if_true]
        apply ih
        obtain ⟨fs, hfs⟩ := peek_frag_results sc R s p s1 R1 hp
        have h1 := shift_measure R1 s1 p fs hfs
        have h2 := peek_measure sc R s p s1 R1 hp
        omega
      · simp [hpart]

/-- More fuel does not change the result. -/
theorem nextLoop_mono (sc : Scan) (fuel : Nat) (acc : Option Frag) (R : List Reply) (s : St)
    (x : Item × St × List Reply) (h : nextLoop sc fuel acc R s = some x) :
    nextLoop sc (fuel + 1) acc R s = some x := by
  induction fuel generalizing acc R s with
  | zero => simp [nextLoop] at h
  | succ n ih =>
    unfold nextLoop at h ⊢
    split
    · rename_i s1 R1 hp
      rw [hp] at h; exact h
    · rename_i c s1 R1 hp
      rw [hp] at h; exact h
    · rename_i p s1 R1 hp
      rw [hp] at h
      simp only [] at h ⊢
      by_cases hpart : (coalesce acc p).1.part
      · simp only [hpart, Bool.not_true, Bool.false_eq_true, if_false] at h ⊢
        exact ih _ _ _ h
      · simpa [hpart] using h

/-- `Next` (no `AllowPartialResults`) in terms of the loop, for any sufficient bound. -/
theorem nextLoop_fuel (sc : Scan) (fuel : Nat) (acc : Option Frag) (R : List Reply) (s : St)
    (h : measure R s < fuel) :
    nextLoop sc fuel acc R s = nextLoop sc (measure R s + 1) acc R s := by
  have h0 := nextLoop_isSome sc (measure R s + 1) acc R s (by omega)
  obtain ⟨x, hx⟩ := Option.isSome_iff_exists.mp h0
  rw [hx]
  obtain ⟨k, hk⟩ : ∃ k, fuel = measure R s + 1 + k := ⟨fuel - (measure R s + 1), by omega⟩
  subst hk
  clear h h0
  induction k with
  | zero => exact hx
  | succ k ih => exact nextLoop_mono sc _ acc R s x ih

/-- The loop returns an error (`io.EOF` included) only straight after `peek` reported one:
    the scanner is closed then and nothing is buffered. -/
theorem nextLoop_err_closed (sc : Scan) (fuel : Nat) (acc : Option Frag) (R : List Reply) (s : St)
    (x : Item × St × List Reply) (hx : nextLoop sc fuel acc R s = some x) (he : x.1.err.isSome) :
    x.2.1.closed = true ∧ x.2.1.results = [] := by
  induction fuel generalizing acc R s with
  | zero => simp [nextLoop] at hx
  | succ n ih =>
    unfold nextLoop at hx
    split at hx
    · rename_i s1 R1 hpk
      have := peek_not_frag sc R s s1 R1 _ hpk (by simp)
      split at hx <;> (injection hx with hx; subst hx; exact this)
    · rename_i c s1 R1 hpk
      have := peek_not_frag sc R s s1 R1 _ hpk (by simp)
      injection hx with hx; subst hx; exact this
    · simp only [] at hx
      split at hx
      · injection hx with hx; subst hx; simp at he
      · exact ih _ _ _ hx

/-- After `Next` returned an error — an RPC error, a cancelled context or `io.EOF` — the
    scanner is closed and its buffer is empty. -/
theorem next_err_closed (sc : Scan) (c : Bool) (R : List Reply) (s : St)
    (h : (next sc c R s).1.err.isSome) :
    (next sc c R s).2.1.closed = true ∧ (next sc c R s).2.1.results = [] := by
  unfold next at h ⊢
  by_cases hc : (c && !s.closed) = true
  · simp only [hc, if_true]
    exact ⟨close_closed sc s, trivial⟩
  · simp only [hc, Bool.false_eq_true, if_false] at h ⊢
    by_cases hp : sc.allowPartial = true
    · simp only [hp, if_true] at h ⊢
      rcases hpk : peek sc R s with ⟨x, s1, R1⟩
      rw [hpk] at h
      cases x with
      | frag f => simp at h
      | eof => exact peek_not_frag sc R s s1 R1 _ hpk (by simp)
      | err c => exact peek_not_frag sc R s s1 R1 _ hpk (by simp)
    · simp only [hp, Bool.false_eq_true, if_false] at h ⊢
      have h0 := nextLoop_isSome sc (measure R s + 1) none R s (by omega)
      obtain ⟨x, hx⟩ := Option.isSome_iff_exists.mp h0
      rw [hx] at h ⊢
      simp only [Option.getD_some] at h ⊢
      exact nextLoop_err_closed sc _ _ _ _ x hx h

/-- The loop bound never grows across `peek`. -/
theorem peek_measure_le (sc : Scan) (R : List Reply) (s : St) :
    measure (peek sc R s).2.2 (peek sc R s).2.1 ≤ measure R s := by
  rw [measure_eq, measure_eq]
  unfold peek
  split
  · exact Nat.le_refl _
  · rename_i hr
    split
    · exact Nat.le_refl _
    · have hm := fetch_measure sc R s
      have hres := fetch_results sc R s
      rcases hf : fetch sc R s with ⟨x, s1, R1⟩
      rw [hf] at hm hres
      cases x with
      | rows f fs => simp only [fetchWeight, List.length_cons] at hm ⊢; omega
      | eof => simp only [fetchWeight] at hm hres ⊢; rw [hres, hr]; simp; omega
      | err c => simp only [fetchWeight] at hm hres ⊢; rw [hres, hr]; simp; omega

/-- A `Next` that returns a result strictly decreases the loop bound. -/
theorem nextLoop_progress (sc : Scan) (fuel : Nat) (acc : Option Frag) (R : List Reply) (s : St)
    (x : Item × St × List Reply) (hx : nextLoop sc fuel acc R s = some x) (he : x.1.err = none) :
    measure x.2.2 x.2.1 ≤ measure R s ∧ (acc = none → measure x.2.2 x.2.1 < measure R s) := by
  induction fuel generalizing acc R s with
  | zero => simp [nextLoop] at hx
  | succ n ih =>
    have hle := peek_measure_le sc R s
    unfold nextLoop at hx
    rcases hpe : peek sc R s with ⟨y, s1, R1⟩
    rw [hpe] at hx hle
    cases y with
    | eof =>
      simp only [] at hx hle
      cases acc with
      | none => simp only [] at hx; injection hx with hx; subst hx; simp at he
      | some a =>
        simp only [] at hx; injection hx with hx; subst hx
        exact ⟨hle, by simp⟩
    | err c =>
      simp only [] at hx; injection hx with hx; subst hx; simp at he
    | frag p =>
      simp only [] at hx hle
      obtain ⟨fs, hfs⟩ := peek_frag_results sc R s p s1 R1 hpe
      have hsh := shift_measure R1 s1 p fs hfs
      by_cases hd : (coalesce acc p).2 = true
      · simp only [hd, if_true] at hx
        by_cases hpart : (coalesce acc p).1.part = true
        · simp only [hpart, Bool.not_true, Bool.false_eq_true, if_false] at hx
          have := (ih _ _ _ hx).1
          exact ⟨by omega, fun _ => by omega⟩
        · simp only [hpart, Bool.not_false, if_true] at hx
          injection hx with hx; subst hx
          exact ⟨by simp only []; omega, fun _ => by simp only []; omega⟩
      · have hpart := coalesce_not_done acc p (by simpa using hd)
        simp only [hd, Bool.false_eq_true, if_false, hpart, Bool.not_false, if_true] at hx
        injection hx with hx; subst hx
        refine ⟨hle, ?_⟩
        intro hacc; subst hacc
        simp [coalesce] at hd

theorem next_progress (sc : Scan) (R : List Reply) (s : St) (he : (next sc false R s).1.err = none) :
    measure (next sc false R s).2.2 (next sc false R s).2.1 < measure R s := by
  unfold next at he ⊢
  simp only [Bool.false_and, Bool.false_eq_true, if_false] at he ⊢
  by_cases hp : sc.allowPartial = true
  · simp only [hp, if_true] at he ⊢
    rcases hpe : peek sc R s with ⟨y, s1, R1⟩
    rw [hpe] at he
    cases y with
    | frag f =>
      simp only []
      obtain ⟨fs, hfs⟩ := peek_frag_results sc R s f s1 R1 hpe
      have := shift_measure R1 s1 f fs hfs
      have := peek_measure sc R s f s1 R1 hpe
      omega
    | eof => simp at he
    | err c => simp at he
  · simp only [hp, Bool.false_eq_true, if_false] at he ⊢
    have h0 := nextLoop_isSome sc (measure R s + 1) none R s (by omega)
    obtain ⟨x, hx⟩ := Option.isSome_iff_exists.mp h0
    rw [hx] at he ⊢
    simp only [Option.getD_some] at he ⊢
    exact (nextLoop_progress sc _ none R s x hx he).2 rfl

/-! ## induction principle: every state a user can reach -/

/-- The state after the request built from `s` got the reply `rp` (before `update`/`Close`). -/
def logged (sc : Scan) (s : St) (rp : Reply) : St :=
  { s with log := ⟨mkReq sc s, some rp⟩ :: s.log }

theorem onErr_eq (sc : Scan) (s : St) (c : String) :
    onErr sc s (some (.err c)) = close sc (logged sc s (.err c)) := rfl

theorem onResp_eq (sc : Scan) (s : St) (g : Region) (r : Resp) :
    onResp sc s g r =
      if isDone sc (update sc (logged sc s (.resp g r)) r g) r g
      then close sc (update sc (logged sc s (.resp g r)) r g)
      else update sc (logged sc s (.resp g r)) r g := rfl

/-- A property of scanner states that survives the four primitive state changes. -/
structure Stable (sc : Scan) (P : St → Prop) : Prop where
  buf : ∀ s rs, P s → P { s with results := rs }
  close : ∀ s, P s → P (close sc s)
  err : ∀ s c, P s → s.closed = false → P (logged sc s (.err c))
  resp : ∀ s g r, P s → s.closed = false → P (update sc (logged sc s (.resp g r)) r g)

theorem stable_onResp {sc : Scan} {P : St → Prop} (hP : Stable sc P) (s : St) (g : Region) (r : Resp)
    (h : P s) (hc : s.closed = false) : P (onResp sc s g r) := by
  rw [onResp_eq]
  split
  · exact hP.close _ (hP.resp s g r h hc)
  · exact hP.resp s g r h hc

theorem stable_fetch {sc : Scan} {P : St → Prop} (hP : Stable sc P) (R : List Reply) (s : St)
    (h : P s) (hc : s.closed = false) : P (fetch sc R s).2.1 := by
  induction R generalizing s with
  | nil => exact hP.close _ (hP.err s _ h hc)
  | cons rp rest ih =>
    cases rp with
    | err c => exact hP.close _ (hP.err s _ h hc)
    | resp g r =>
      simp only [fetch]
      have h3 := stable_onResp hP s g r h hc
      cases hr : r.results with
      | cons f fs => exact h3
      | nil =>
        simp only []
        by_cases hcl : (onResp sc s g r).closed = true
        · simpa [hcl] using h3
        · simp only [hcl, Bool.false_eq_true, if_false]
          exact ih _ h3 (by simpa using hcl)

theorem stable_peek {sc : Scan} {P : St → Prop} (hP : Stable sc P) (R : List Reply) (s : St)
    (h : P s) : P (peek sc R s).2.1 := by
  unfold peek
  split
  · exact h
  · split
    · exact h
    · rename_i hc
      have hf := stable_fetch hP R s h (by simpa using hc)
      split
      · rename_i heq; rw [heq] at hf; exact hP.buf _ _ hf
      · rename_i heq; rw [heq] at hf; exact hf
      · rename_i heq; rw [heq] at hf; exact hf

theorem stable_nextLoop {sc : Scan} {P : St → Prop} (hP : Stable sc P) (fuel : Nat) (acc : Option Frag)
    (R : List Reply) (s : St) (x : Item × St × List Reply) (h : P s)
    (hx : nextLoop sc fuel acc R s = some x) : P x.2.1 := by
  induction fuel generalizing acc R s with
  | zero => simp [nextLoop] at hx
  | succ n ih =>
    unfold nextLoop at hx
    have hp := stable_peek hP R s h
    split at hx
    · rename_i s1 R1 heq
      rw [heq] at hp
      split at hx <;> (injection hx with hx; subst hx; exact hp)
    · rename_i c s1 R1 heq
      rw [heq] at hp
      injection hx with hx; subst hx; exact hp
    · rename_i p s1 R1 heq
      rw [heq] at hp
      simp only [] at hx
      have hs2 : P (if (coalesce acc p).2 then shift s1 else s1) := by
        split
        · exact hP.buf _ _ hp
        · exact hp
      split at hx
      · injection hx with hx; subst hx; exact hs2
      · exact ih _ _ _ hs2 hx

theorem stable_next {sc : Scan} {P : St → Prop} (hP : Stable sc P) (c : Bool) (R : List Reply) (s : St)
    (h : P s) : P (next sc c R s).2.1 := by
  unfold next
  split
  · exact hP.buf _ _ (hP.close _ h)
  · split
    · have hp := stable_peek hP R s h
      split
      · rename_i heq; rw [heq] at hp; exact hP.buf _ _ hp
      · rename_i heq; rw [heq] at hp; exact hp
      · rename_i heq; rw [heq] at hp; exact hp
    · have h0 := nextLoop_isSome sc (measure R s + 1) none R s (by omega)
      obtain ⟨x, hx⟩ := Option.isSome_iff_exists.mp h0
      rw [hx]
      exact stable_nextLoop hP _ _ _ _ x h hx

/-- Every state reachable by `Next` / `Close` / cancellation, against any script of replies,
    satisfies a stable property that holds initially. -/
theorem stable_runOps {sc : Scan} {P : St → Prop} (hP : Stable sc P) (ops : List Op) (c : Bool)
    (R : List Reply) (s : St) (h : P s) : P (runOps sc ops c R s).2.1 := by
  induction ops generalizing c R s with
  | nil => exact h
  | cons op ops ih =>
    cases op with
    | next =>
      simp only [runOps]
      exact ih _ _ _ (stable_next hP c R s h)
    | close => exact ih _ _ _ (hP.close _ h)
    | cancel => exact ih _ _ _ h

/-- States reachable from a fresh scanner by any user behaviour against any replies. -/
def Reachable (sc : Scan) (s : St) : Prop :=
  ∃ ops R, s = (runOps sc ops false R (St.init sc)).2.1

theorem stable_reachable {sc : Scan} {P : St → Prop} (hP : Stable sc P) (h0 : P (St.init sc))
    {s : St} (hr : Reachable sc s) : P s := by
  obtain ⟨ops, R, rfl⟩ := hr
  exact stable_runOps hP ops false R _ h0

end GV.Scanner
