import GohbaseVerif.Model.Cell
/-! Helper lemmas for the KeyValue codec model (`Model/Cell.lean`). Core Lean only. -/
namespace GV.Cell
open GV

/-! ### big-endian integers -/

theorem length_toBE (n v : Nat) : (toBE n v).length = n := by
  induction n with
  | zero => rfl
  | succ n ih => simp [toBE, ih]

theorem beNat_lt (b : Bytes) : beNat b < 256 ^ b.length := by
  induction b with
  | nil => simp [beNat]
  | cons x xs ih =>
    simp only [beNat, List.length_cons, Nat.pow_succ]
    have hx : x.toNat < 256 := x.toNat_lt
    have : x.toNat * 256 ^ xs.length + 256 ^ xs.length ≤ 256 * 256 ^ xs.length := by
      have := Nat.mul_le_mul_right (256 ^ xs.length) (Nat.succ_le_of_lt hx)
      rw [Nat.succ_mul] at this
      exact this
    omega

theorem beNat_toBE (n v : Nat) : beNat (toBE n v) = v % 256 ^ n := by
  induction n with
  | zero => simp [toBE, beNat, Nat.mod_one]
  | succ n ih =>
    simp only [toBE, beNat, length_toBE, ih]
    have h : (UInt8.ofNat (v / 256 ^ n % 256)).toNat = v / 256 ^ n % 256 := by
      simp [UInt8.toNat_ofNat']
    rw [h, Nat.pow_succ, Nat.mod_mul]
    rw [Nat.mul_comm (256 ^ n)]
    omega

theorem beNat_toBE_of_lt {n v : Nat} (h : v < 256 ^ n) : beNat (toBE n v) = v := by
  rw [beNat_toBE, Nat.mod_eq_of_lt h]

/-! ### encoder layout -/

theorem layout_length (row fam qual val : Bytes) (ts : Nat) (typ : UInt8) :
    (layout row fam qual val ts typ).length
      = 24 + row.length + fam.length + qual.length + val.length := by
  simp only [layout, List.length_append, List.length_cons, length_toBE]
  omega

theorem cellblockLen_eq (r f q v : Nat) : cellblockLen r f q v = 24 + r + f + q + v := by
  simp only [cellblockLen, Gen.Cell.cellblockLen]
  omega

theorem appendCellblock_eq_layout (row fam qual val : Bytes) (ts : Nat) (typ : UInt8) :
    appendCellblock row fam qual val ts typ = layout row fam qual val ts typ := by
  simp only [appendCellblock, cellblockLen_eq, layout_length]
  simp [List.take_of_length_le, layout_length]

theorem length_eq_cellblockLen (row fam qual val : Bytes) (ts : Nat) (typ : UInt8) :
    (appendCellblock row fam qual val ts typ).length
      = cellblockLen row.length fam.length qual.length val.length := by
  rw [appendCellblock_eq_layout, layout_length, cellblockLen_eq]

/-! ### decoder on an encoded cell -/

theorem subU32_of_le {a b : Nat} (ha : a < two32) (h : b ≤ a) : subU32 a b = a - b := by
  simp only [subU32, two32] at *
  have hb : b % 4294967296 = b := Nat.mod_eq_of_lt (by omega)
  have ha' : a % 4294967296 = a := Nat.mod_eq_of_lt ha
  rw [hb, ha']
  omega

theorem qualLen_eq {rk k f : Nat} (hrk : rk < two32) (h : 12 + k + f ≤ rk) :
    subU32 (subU32 (subU32 (subU32 (subU32 (subU32 rk k) f) 2) 1) 8) 1 = rk - k - f - 12 := by
  have t : two32 = 4294967296 := rfl
  have s1 : subU32 rk k = rk - k := subU32_of_le hrk (by omega)
  have s2 : subU32 (rk - k) f = rk - k - f := subU32_of_le (by omega) (by omega)
  have s3 : subU32 (rk - k - f) 2 = rk - k - f - 2 := subU32_of_le (by omega) (by omega)
  have s4 : subU32 (rk - k - f - 2) 1 = rk - k - f - 2 - 1 := subU32_of_le (by omega) (by omega)
  have s5 : subU32 (rk - k - f - 2 - 1) 8 = rk - k - f - 2 - 1 - 8 := subU32_of_le (by omega) (by omega)
  have s6 : subU32 (rk - k - f - 2 - 1 - 8) 1 = rk - k - f - 2 - 1 - 8 - 1 :=
    subU32_of_le (by omega) (by omega)
  rw [s1, s2, s3, s4, s5, s6]
  omega

theorem cellBody_parts (kvLen : Nat) (row fam qual tsb val rest : Bytes) (fl typ : UInt8)
    (hfl : fl.toNat = fam.length) (h8 : tsb.length = 8)
    (hrk : 12 + row.length + fam.length + qual.length < two32) :
    cellBody kvLen (12 + row.length + fam.length + qual.length) val.length row.length
        (row ++ (fl :: (fam ++ (qual ++ (tsb ++ (typ :: (val ++ rest)))))))
      = .ok (⟨row, fam, qual, beNat tsb, typ, val⟩, (kvLen + 4) % two32) := by
  have t : two32 = 4294967296 := rfl
  unfold cellBody
  have q : subU32 (subU32 (subU32 (subU32 (subU32 (subU32 (12 + row.length + fam.length + qual.length)
      row.length) fam.length) 2) 1) 8) 1 = qual.length := by
    rw [qualLen_eq hrk (by omega)]; omega
  have m1 : (2 + row.length + 1 + fam.length + 8 + 1) % two32 = 12 + row.length + fam.length := by
    rw [Nat.mod_eq_of_lt (by omega)]; omega
  simp only [List.take_left', List.drop_left', List.length_append, List.length_cons, hfl, q, m1, h8]
  rw [if_neg (by omega), if_neg (by omega), if_neg (by omega), if_neg (by omega), if_neg (by omega)]
  rw [if_neg (by omega)]


theorem drop_two {α} (a b t : List α) (n m k : Nat) (ha : a.length = n) (hb : b.length = m)
    (hk : k = n + m) : (a ++ (b ++ t)).drop k = t := by
  subst hk
  rw [← List.append_assoc]
  exact List.drop_left' (by simp [ha, hb])

/-- The decoder on a buffer given by its parts. -/
theorem cellFromCellBlock_parts (h0 h1 h2 h3 row fam qual tsb val rest : Bytes) (fl typ : UInt8)
    (l0 : h0.length = 4) (l1 : h1.length = 4) (l2 : h2.length = 4) (l3 : h3.length = 2)
    (h8 : tsb.length = 8)
    (v0 : beNat h0 = 20 + row.length + fam.length + qual.length + val.length)
    (v1 : beNat h1 = 12 + row.length + fam.length + qual.length)
    (v2 : beNat h2 = val.length) (v3 : beNat h3 = row.length) (hfl : fl.toNat = fam.length)
    (htot : 24 + row.length + fam.length + qual.length + val.length < two32) :
    cellFromCellBlock (h0 ++ (h1 ++ (h2 ++ (h3 ++
        (row ++ (fl :: (fam ++ (qual ++ (tsb ++ (typ :: (val ++ rest)))))))))))
      = .ok (⟨row, fam, qual, beNat tsb, typ, val⟩,
             24 + row.length + fam.length + qual.length + val.length) := by
  have t : two32 = 4294967296 := rfl
  unfold cellFromCellBlock
  have s0 : ∀ T : Bytes, (h0 ++ T).take 4 = h0 := fun T => List.take_left' l0
  have s1 : ∀ T : Bytes, ((h0 ++ (h1 ++ T)).drop 4).take 4 = h1 := fun T => by
    rw [List.drop_left' l0, List.take_left' l1]
  have s2 : ∀ T : Bytes, ((h0 ++ (h1 ++ (h2 ++ T))).drop 8).take 4 = h2 := fun T => by
    rw [drop_two h0 h1 _ 4 4 8 l0 l1 rfl, List.take_left' l2]
  have s3 : ∀ T : Bytes, ((h0 ++ (h1 ++ (h2 ++ (h3 ++ T)))).drop 12).take 2 = h3 := fun T => by
    have : (h0 ++ (h1 ++ (h2 ++ (h3 ++ T)))).drop 12 = h3 ++ T := by
      rw [← List.append_assoc h1, drop_two h0 (h1 ++ h2) _ 4 8 12 l0 (by simp [l1, l2]) rfl]
    rw [this, List.take_left' l3]
  have s4 : ∀ T : Bytes, (h0 ++ (h1 ++ (h2 ++ (h3 ++ T)))).drop 14 = T := fun T => by
    rw [← List.append_assoc h2, ← List.append_assoc h1,
      drop_two h0 (h1 ++ (h2 ++ h3)) _ 4 10 14 l0 (by simp [l1, l2, l3]) rfl]
  simp only [s0, s1, s2, s3, s4, v0, v1, v2, v3]
  simp only [List.length_append, List.length_cons, l0, l1, l2, l3, h8]
  rw [if_neg (by omega), if_neg (by omega), if_neg (by omega), if_neg (by omega),
    if_neg (by omega), if_neg (by rw [Nat.mod_eq_of_lt (by omega)]; omega)]
  rw [cellBody_parts _ row fam qual tsb val rest fl typ hfl h8 (by omega)]
  rw [Nat.mod_eq_of_lt (by omega)]
  congr 2
  omega


theorem ofNat_toNat_of_lt {n : Nat} (h : n < 256) : (UInt8.ofNat n).toNat = n := by
  simp [UInt8.toNat_ofNat']; omega

theorem decode_layout (row fam qual val : Bytes) (ts : Nat) (typ : UInt8) (rest : Bytes)
    (hr : row.length < 2 ^ 16) (hf : fam.length < 2 ^ 8) (hts : ts < 2 ^ 64)
    (htot : 24 + row.length + fam.length + qual.length + val.length < 2 ^ 32) :
    cellFromCellBlock (layout row fam qual val ts typ ++ rest)
      = .ok (⟨row, fam, qual, ts, typ, val⟩,
             24 + row.length + fam.length + qual.length + val.length) := by
  have h := cellFromCellBlock_parts
    (toBE 4 (4 + 4 + (2 + row.length + 1 + fam.length + qual.length + 8 + 1) + val.length))
    (toBE 4 (2 + row.length + 1 + fam.length + qual.length + 8 + 1))
    (toBE 4 val.length) (toBE 2 row.length) row fam qual (toBE 8 ts) val rest
    (UInt8.ofNat fam.length) typ (length_toBE _ _) (length_toBE _ _) (length_toBE _ _)
    (length_toBE _ _) (length_toBE _ _)
    (by rw [beNat_toBE_of_lt (by omega)]; omega)
    (by rw [beNat_toBE_of_lt (by omega)]; omega)
    (beNat_toBE_of_lt (by omega)) (beNat_toBE_of_lt (by omega))
    (ofNat_toNat_of_lt (by omega)) (by simp only [two32]; omega)
  rw [beNat_toBE_of_lt (n := 8) (by omega)] at h
  simp only [layout, List.append_assoc, List.cons_append]
  exact h

/-! ### the independent decoder on an encoded cell -/

namespace Spec
theorem readUInt_append (a t : Bytes) (n : Nat) (h : a.length = n) :
    readUInt n (a ++ t) = some (beNat a, t) := by
  simp [readUInt, List.take_left' h, List.drop_left' h, h]

theorem readBytes_append (a t : Bytes) (n : Nat) (h : a.length = n) :
    readBytes n (a ++ t) = some (a, t) := by
  simp [readBytes, List.take_left' h, List.drop_left' h, h]

theorem kvDecode_parts (h0 h1 h2 h3 row fam qual tsb val rest : Bytes) (fl typ : UInt8)
    (l0 : h0.length = 4) (l1 : h1.length = 4) (l2 : h2.length = 4) (l3 : h3.length = 2)
    (h8 : tsb.length = 8)
    (v0 : beNat h0 = 20 + row.length + fam.length + qual.length + val.length)
    (v1 : beNat h1 = 12 + row.length + fam.length + qual.length)
    (v2 : beNat h2 = val.length) (v3 : beNat h3 = row.length) (hfl : fl.toNat = fam.length) :
    kvDecode (h0 ++ ((h1 ++ (h2 ++ ((h3 ++ (row ++ ([fl] ++ (fam ++ (qual ++ (tsb ++ [typ]))))))
        ++ val))) ++ rest))
      = some (⟨row, fam, qual, beNat tsb, typ, val⟩,
             24 + row.length + fam.length + qual.length + val.length) := by
  unfold kvDecode
  simp only [readUInt_append _ _ 4 l0, Option.bind_eq_bind, Option.bind_some]
  rw [readBytes_append _ rest _ (by simp [l1, l2, l3, h8, v0]; omega)]
  simp only [readUInt_append _ _ 4 l1, readUInt_append _ _ 4 l2, Option.bind_some]
  rw [if_neg (by simp [l3, h8, v1, v2]; omega)]
  rw [readBytes_append _ val _ (by simp [l3, h8, v1]; omega)]
  simp only [readUInt_append _ _ 2 l3, Option.bind_some]
  rw [readBytes_append _ _ _ v3.symm]
  simp only [Option.bind_some]
  rw [readUInt_append [fl] _ 1 rfl]
  simp only [Option.bind_some]
  have hb : beNat [fl] = fam.length := by simp [beNat, hfl]
  rw [readBytes_append _ _ _ hb.symm]
  simp only [Option.bind_some]
  rw [if_neg (by simp [h8])]
  rw [readBytes_append qual _ _ (by simp [h8])]
  simp only [Option.bind_some, readUInt_append _ _ 8 h8]
  have : readUInt 1 [typ] = some (typ.toNat, []) := by simp [readUInt, beNat]
  rw [this]
  simp only [Option.bind_some]
  have e2 : 4 + beNat h0 = 24 + row.length + fam.length + qual.length + val.length := by
    rw [v0]; omega
  rw [e2]
  simp

end Spec

theorem kvDecode_layout (row fam qual val : Bytes) (ts : Nat) (typ : UInt8) (rest : Bytes)
    (hr : row.length < 2 ^ 16) (hf : fam.length < 2 ^ 8) (hts : ts < 2 ^ 64)
    (htot : 24 + row.length + fam.length + qual.length + val.length < 2 ^ 32) :
    Spec.kvDecode (layout row fam qual val ts typ ++ rest)
      = some (⟨row, fam, qual, ts, typ, val⟩,
             24 + row.length + fam.length + qual.length + val.length) := by
  have h := Spec.kvDecode_parts
    (toBE 4 (4 + 4 + (2 + row.length + 1 + fam.length + qual.length + 8 + 1) + val.length))
    (toBE 4 (2 + row.length + 1 + fam.length + qual.length + 8 + 1))
    (toBE 4 val.length) (toBE 2 row.length) row fam qual (toBE 8 ts) val rest
    (UInt8.ofNat fam.length) typ (length_toBE _ _) (length_toBE _ _) (length_toBE _ _)
    (length_toBE _ _) (length_toBE _ _)
    (by rw [beNat_toBE_of_lt (by omega)]; omega)
    (by rw [beNat_toBE_of_lt (by omega)]; omega)
    (beNat_toBE_of_lt (by omega)) (beNat_toBE_of_lt (by omega))
    (ofNat_toNat_of_lt (by omega))
  rw [beNat_toBE_of_lt (n := 8) (by omega)] at h
  simp only [layout, List.append_assoc, List.cons_append, List.nil_append] at h ⊢
  exact h

/-! ### no fault, for every byte string -/

theorem cellBody_no_fault (kvLen rowKeyLen valueLen keyLen : Nat) (b1 : Bytes)
    (hk : keyLen < two16) (hrk : rowKeyLen < two32)
    (h1 : 12 + keyLen ≤ rowKeyLen) (h2 : rowKeyLen + valueLen ≤ b1.length + 2) :
    (cellBody kvLen rowKeyLen valueLen keyLen b1).isFault = false := by
  have t : two32 = 4294967296 := rfl
  have t16 : two16 = 65536 := rfl
  unfold cellBody
  dsimp only
  split
  · omega
  · split
    · rename_i hb2
      have := congrArg List.length hb2
      simp only [List.length_drop, List.length_nil] at this
      omega
    · rename_i fl b3 hb2
      have hl := congrArg List.length hb2
      simp only [List.length_drop, List.length_cons] at hl
      have hfl : fl.toNat < 256 := fl.toNat_lt
      have m : (2 + keyLen + 1 + fl.toNat + 8 + 1) % two32 = 12 + keyLen + fl.toNat := by
        rw [Nat.mod_eq_of_lt (by omega)]; omega
      simp only [m]
      split
      · rfl
      · rename_i hfam
        have q := qualLen_eq (rk := rowKeyLen) (k := keyLen) (f := fl.toNat) hrk (by omega)
        simp only [q, List.length_drop]
        split
        · omega
        · split
          · omega
          · split
            · omega
            · split
              · rename_i hb6
                have := congrArg List.length hb6
                simp only [List.length_drop, List.length_nil] at this
                omega
              · rename_i ct b7 hb6
                have hl7 := congrArg List.length hb6
                simp only [List.length_drop, List.length_cons] at hl7
                split
                · omega
                · rfl

theorem beNat_take_lt (b : Bytes) (n : Nat) : beNat (b.take n) < 256 ^ n := by
  have h := beNat_lt (b.take n)
  have : (b.take n).length ≤ n := List.length_take_le n b
  exact Nat.lt_of_lt_of_le h (Nat.pow_le_pow_right (by decide) this)

theorem cellFromCellBlock_no_fault (b : Bytes) : (cellFromCellBlock b).isFault = false := by
  have t : two32 = 4294967296 := rfl
  unfold cellFromCellBlock
  dsimp only
  split
  · rfl
  · split
    · rfl
    · split
      · rfl
      · split
        · omega
        · have k := beNat_take_lt (b.drop 12) 2
          have rk := beNat_take_lt (b.drop 4) 4
          split
          · rfl
          · rename_i hsum
            split
            · rfl
            · rename_i hrow
              have m : (2 + beNat ((b.drop 12).take 2) + 1 + 8 + 1) % two32
                  = 12 + beNat ((b.drop 12).take 2) := by
                rw [Nat.mod_eq_of_lt (by omega)]; omega
              rw [m] at hrow
              apply cellBody_no_fault
              · simp only [two16]; omega
              · simp only [two32]; omega
              · omega
              · simp only [List.length_drop]; omega


theorem cellBody_ok_snd {kvLen rk vl kl : Nat} {b1 : Bytes} {c : Cell} {l : Nat}
    (h : cellBody kvLen rk vl kl b1 = .ok (c, l)) : l = (kvLen + 4) % two32 := by
  unfold cellBody at h
  dsimp only at h
  repeat' split at h
  all_goals (cases h; try rfl)

/-- A successful decode never claims more bytes than the buffer holds. -/
theorem cellFromCellBlock_consumed_le {b : Bytes} {c : Cell} {l : Nat}
    (h : cellFromCellBlock b = .ok (c, l)) : l ≤ b.length := by
  unfold cellFromCellBlock at h
  dsimp only at h
  repeat' split at h
  all_goals try (cases h; done)
  have := cellBody_ok_snd h
  have := Nat.mod_le (beNat (b.take 4) + 4) two32
  omega

theorem deserializeFrom_no_fault (b : Bytes) (n readLen : Nat) (h : readLen ≤ b.length) :
    (deserializeFrom b n readLen).isFault = false := by
  induction n generalizing readLen with
  | zero => rfl
  | succ n ih =>
    unfold deserializeFrom
    rw [if_neg (by omega)]
    have nf := cellFromCellBlock_no_fault (b.drop readLen)
    split
    · rename_i c l hc
      have hl := cellFromCellBlock_consumed_le hc
      simp only [List.length_drop] at hl
      have hle : (readLen + l) % two32 ≤ b.length :=
        Nat.le_trans (Nat.mod_le _ _) (by omega)
      have := ih _ hle
      split
      · rfl
      · rfl
      · rename_i w hw
        rw [hw] at this
        exact this
    · rfl
    · rename_i w hw
      rw [hw] at nf
      exact nf

theorem deserializeCellBlocks_no_fault (b : Bytes) (n : Nat) :
    (deserializeCellBlocks b n).isFault = false := by
  unfold deserializeCellBlocks
  split
  · rfl
  · exact deserializeFrom_no_fault b n 0 (Nat.zero_le _)

/-! ### streams of cells -/

/-- The cells C10 quantifies over: row shorter than 64 KiB, family shorter than 256 bytes,
a 64-bit timestamp. (The total size bound is a separate hypothesis.) -/
def Cell.Valid (c : Cell) : Prop :=
  c.row.length < 2 ^ 16 ∧ c.family.length < 2 ^ 8 ∧ c.ts < 2 ^ 64

theorem encodeCell_length (c : Cell) :
    (encodeCell c).length
      = 24 + c.row.length + c.family.length + c.qualifier.length + c.value.length := by
  simp only [encodeCell, appendCellblock_eq_layout, layout_length]

/-- `n` encoded cells occupy at least `minCellLen * n` bytes: the count guard of
`deserializeCellBlocks` never refuses what the encoder wrote. -/
theorem flatMap_encodeCell_length_ge (cells : List Cell) :
    minCellLen * cells.length ≤ (cells.flatMap encodeCell).length := by
  induction cells with
  | nil => simp
  | cons c cs ih =>
    simp only [List.flatMap_cons, List.length_append, List.length_cons, encodeCell_length]
    simp only [minCellLen] at ih ⊢
    omega

theorem decode_encodeCell (c : Cell) (rest : Bytes) (hv : c.Valid)
    (htot : (encodeCell c).length < 2 ^ 32) :
    cellFromCellBlock (encodeCell c ++ rest) = .ok (c, (encodeCell c).length) := by
  rw [encodeCell_length] at htot ⊢
  obtain ⟨h1, h2, h3⟩ := hv
  simp only [encodeCell, appendCellblock_eq_layout]
  exact decode_layout _ _ _ _ _ _ _ h1 h2 h3 htot

theorem kvDecode_encodeCell (c : Cell) (rest : Bytes) (hv : c.Valid)
    (htot : (encodeCell c).length < 2 ^ 32) :
    Spec.kvDecode (encodeCell c ++ rest) = some (c, (encodeCell c).length) := by
  rw [encodeCell_length] at htot ⊢
  obtain ⟨h1, h2, h3⟩ := hv
  simp only [encodeCell, appendCellblock_eq_layout]
  exact kvDecode_layout _ _ _ _ _ _ _ h1 h2 h3 htot

theorem deserializeFrom_encoded (cells : List Cell) (pre rest : Bytes)
    (hv : ∀ c ∈ cells, c.Valid)
    (htot : pre.length + (cells.flatMap encodeCell).length < 2 ^ 32) :
    deserializeFrom (pre ++ (cells.flatMap encodeCell ++ rest)) cells.length pre.length
      = .ok (cells, pre.length + (cells.flatMap encodeCell).length) := by
  induction cells generalizing pre with
  | nil => simp [deserializeFrom]
  | cons c cs ih =>
    simp only [List.flatMap_cons, List.length_append, List.length_cons] at htot ⊢
    unfold deserializeFrom
    rw [if_neg (by simp)]
    rw [List.drop_left' rfl, List.append_assoc,
      decode_encodeCell c _ (hv c (List.mem_cons_self ..)) (by omega)]
    dsimp only
    have e : (pre.length + (encodeCell c).length) % two32 = (pre ++ encodeCell c).length := by
      rw [Nat.mod_eq_of_lt (by simp only [two32]; omega), List.length_append]
    have a : pre ++ (encodeCell c ++ (cs.flatMap encodeCell ++ rest))
        = (pre ++ encodeCell c) ++ (cs.flatMap encodeCell ++ rest) := by
      simp only [List.append_assoc]
    rw [e, a, ih (pre ++ encodeCell c) (fun x hx => hv x (List.mem_cons_of_mem _ hx))
      (by simp only [List.length_append]; omega)]
    simp only [List.length_append]
    congr 2
    omega

theorem kvDecodeN_encoded (cells : List Cell) (rest : Bytes)
    (hv : ∀ c ∈ cells, c.Valid)
    (htot : (cells.flatMap encodeCell).length < 2 ^ 32) :
    Spec.kvDecodeN cells.length (cells.flatMap encodeCell ++ rest)
      = some (cells, (cells.flatMap encodeCell).length) := by
  induction cells with
  | nil => simp [Spec.kvDecodeN]
  | cons c cs ih =>
    simp only [List.flatMap_cons, List.length_append, List.length_cons] at htot ⊢
    unfold Spec.kvDecodeN
    rw [List.append_assoc, kvDecode_encodeCell c _ (hv c (List.mem_cons_self ..)) (by omega)]
    simp only [Option.bind_eq_bind, Option.bind_some]
    rw [List.drop_left' rfl, ih (fun x hx => hv x (List.mem_cons_of_mem _ hx)) (by omega)]
    simp


/-! ### the two encodings of a mutation -/

theorem SameMap.refl (m : VMap) : SameMap m m := by
  induction m with
  | nil => exact .nil
  | cons a m ih =>
    obtain ⟨f, v⟩ := a
    cases v with
    | none => exact .consNone f ih
    | some l => exact .consSome f (List.Perm.refl l) ih

theorem SameMap.symm {m m' : VMap} (h : SameMap m m') : SameMap m' m := by
  induction h with
  | nil => exact .nil
  | consNone f _ ih => exact .consNone f ih
  | consSome f hp _ ih => exact .consSome f hp.symm ih
  | swap a b m => exact .swap b a m
  | trans _ _ ih1 ih2 => exact .trans ih2 ih1

theorem SameMap.of_perm {m m' : VMap} (h : m.Perm m') : SameMap m m' := by
  induction h with
  | nil => exact .nil
  | cons a _ ih =>
    obtain ⟨f, v⟩ := a
    cases v with
    | none => exact .consNone f ih
    | some l => exact .consSome f (List.Perm.refl l) ih
  | swap a b m => exact .swap b a m
  | trans _ _ ih1 ih2 => exact .trans ih1 ih2

theorem SameMap.families {m m' : VMap} (h : SameMap m m') :
    (m.map Prod.fst).Perm (m'.map Prod.fst) := by
  induction h with
  | nil => exact .nil
  | consNone f _ ih => exact .cons f ih
  | consSome f _ _ ih => exact .cons f ih
  | swap a b m => exact .swap _ _ _
  | trans _ _ ih1 ih2 => exact ih1.trans ih2

theorem SameMap.length_eq {m m' : VMap} (h : SameMap m m') : m.length = m'.length := by
  have := h.families.length_eq
  simpa using this

theorem SameMap.family_bound {m m' : VMap} (h : SameMap m m') (n : Nat)
    (hb : ∀ e ∈ m, e.1.length < n) : ∀ e ∈ m', e.1.length < n := by
  intro e he
  have : e.1 ∈ m'.map Prod.fst := List.mem_map_of_mem he
  have := (h.families.mem_iff).mpr this
  obtain ⟨e', he', heq⟩ := List.mem_map.mp this
  rw [← heq]
  exact hb e' he'

/-- What the second pass writes for a family is what the first pass counted. -/
theorem writtenInner_snd (mu : Mut) (v : Inner) : (writtenInner mu v).2 = countedInner mu v := by
  unfold writtenInner countedInner
  cases v with
  | none => by_cases h : mu.kind = .delete <;> simp [h]
  | some l =>
    by_cases h : mu.kind = .delete
    · by_cases h2 : l.length = 0 <;> simp [h, h2]
    · simp [h]

theorem writtenInner_perm (mu : Mut) {l l' : List (Bytes × Bytes)} (h : l.Perm l') :
    (writtenInner mu (some l)).1 = (writtenInner mu (some l')).1 := by
  unfold writtenInner
  simp only [h.length_eq]
  split
  · split <;> rfl
  · rfl

/-- Cells written for one family. -/
def familyCells (mu : Mut) (e : Bytes × Inner) : List Cell :=
  (writtenInner mu e.2).2.map fun (k1, v1) =>
    ⟨mu.key, e.1, k1, cellTs mu, (writtenInner mu e.2).1, v1⟩

theorem writtenCells_eq (mu : Mut) (m : VMap) : writtenCells mu m = m.flatMap (familyCells mu) := by
  unfold writtenCells
  congr

theorem writtenCells_perm (mu : Mut) {m m' : VMap} (h : SameMap m m') :
    (writtenCells mu m).Perm (writtenCells mu m') := by
  simp only [writtenCells_eq]
  induction h with
  | nil => exact .nil
  | consNone f _ ih =>
    simp only [List.flatMap_cons]
    exact List.Perm.append_left _ ih
  | consSome f hp _ ih =>
    simp only [List.flatMap_cons]
    refine List.Perm.append ?_ ih
    simp only [familyCells, writtenInner_snd, countedInner, writtenInner_perm mu hp, hp.length_eq]
    split
    · exact List.Perm.refl _
    · exact hp.map _
  | swap a b m =>
    simp only [List.flatMap_cons, ← List.append_assoc]
    exact List.Perm.append_right _ List.perm_append_comm
  | trans _ _ ih1 ih2 => exact ih1.trans ih2

theorem flatMap_encode_length_perm {xs ys : List Cell} (h : xs.Perm ys) :
    (xs.flatMap encodeCell).length = (ys.flatMap encodeCell).length := by
  simp only [List.length_flatMap]
  exact (h.map _).sum_nat


theorem familyCells_length (mu : Mut) (e : Bytes × Inner) :
    (familyCells mu e).length = (countedInner mu e.2).length := by
  simp [familyCells, writtenInner_snd]

theorem familyCells_bytes (mu : Mut) (e : Bytes × Inner) :
    ((familyCells mu e).flatMap encodeCell).length
      = ((countedInner mu e.2).map fun (k1, v1) =>
          cellblockLen mu.key.length e.1.length k1.length v1.length).sum := by
  simp only [familyCells, writtenInner_snd, List.length_flatMap, List.map_map]
  congr 1
  apply List.map_congr_left
  intro a _
  simp [encodeCell_length, cellblockLen_eq]

/-- First pass = second pass when both range in the same order. -/
theorem count_same_order (mu : Mut) (m : VMap) :
    ((m.map fun (fam, v) => (fam, countedInner mu v)).map fun (_, l) => l.length).sum
      = (writtenCells mu m).length := by
  rw [writtenCells_eq]
  induction m with
  | nil => rfl
  | cons e m ih =>
    simp only [List.map_cons, List.sum_cons, List.flatMap_cons, List.length_append, ih,
      familyCells_length]

theorem cbsLen_same_order (mu : Mut) (m : VMap) :
    ((m.map fun (fam, v) => (fam, countedInner mu v)).map fun (fam, l) =>
        (l.map fun (k1, v1) => cellblockLen mu.key.length fam.length k1.length v1.length).sum).sum
      = ((writtenCells mu m).flatMap encodeCell).length := by
  rw [writtenCells_eq]
  induction m with
  | nil => rfl
  | cons e m ih =>
    simp only [List.map_cons, List.sum_cons, List.flatMap_cons, List.flatMap_append,
      List.length_append, ih, familyCells_bytes]

/-- `valuesToCellblocks` never reaches its `panic("cellblocks len mismatch")`, whatever the two
iteration orders, and returns the cells of the second pass with their count. -/
theorem valuesToCellblocks_ok (mu : Mut) (m1 m2 : VMap) (h : SameMap m1 m2) :
    valuesToCellblocks mu m1 m2
      = .ok ((writtenCells mu m2).flatMap encodeCell, toInt32 (writtenCells mu m2).length,
             ((writtenCells mu m2).flatMap encodeCell).length % two32) := by
  unfold valuesToCellblocks
  by_cases h0 : m1.length = 0
  · have h2 : m2.length = 0 := by rw [← h.length_eq]; exact h0
    have e2 : m2 = [] := List.eq_nil_of_length_eq_zero h2
    subst e2
    simp [h0, writtenCells, toInt32, two32]
  · rw [if_neg h0]
    dsimp only
    rw [cbsLen_same_order, count_same_order]
    have hp := writtenCells_perm mu h
    rw [flatMap_encode_length_perm hp, hp.length_eq]
    simp


theorem flatMap_congr_all {α β} {f g : α → List β} (l : List α) (h : ∀ a, f a = g a) :
    l.flatMap f = l.flatMap g := by
  have : f = g := funext h
  rw [this]

/-- The regenerated type codes are HBase's `KeyValue.Type` codes. Breaks when a constant in
`hrpc/mutate.go` changes. -/
theorem gen_type_codes :
    UInt8.ofNat Gen.Cell.putType = 4 ∧ UInt8.ofNat Gen.Cell.deleteType = 8 ∧
    UInt8.ofNat Gen.Cell.deleteFamilyVersionType = 10 ∧
    UInt8.ofNat Gen.Cell.deleteColumnType = 12 ∧ UInt8.ofNat Gen.Cell.deleteFamilyType = 14 := by
  decide

theorem maxInt64_eq : maxInt64 = Spec.latestTimestamp := by decide

/-- The cells of the cellblock form are the intended ones (same order). -/
theorem writtenCells_intended (mu : Mut) (m : VMap) :
    writtenCells mu m = Spec.intendedCells mu m := by
  obtain ⟨c4, c8, c10, c12, c14⟩ := gen_type_codes
  unfold writtenCells Spec.intendedCells
  apply flatMap_congr_all
  intro e
  obtain ⟨fam, v⟩ := e
  have hts : cellTs mu = if mu.timestamp = two64 - 1 then Spec.latestTimestamp else mu.timestamp := by
    simp [cellTs, maxTimestamp, maxInt64_eq]
  dsimp only
  rw [hts]
  unfold writtenInner
  cases v with
  | none =>
    by_cases hk : mu.kind = .delete
    · by_cases ho : mu.deleteOneVersion = true <;> simp [hk, ho, c10, c14, emptyQualifier]
    · simp [hk, c4]
  | some l =>
    by_cases hk : mu.kind = .delete
    · by_cases hl : l.length = 0
      · have : l = [] := List.eq_nil_of_length_eq_zero hl
        subst this
        by_cases ho : mu.deleteOneVersion = true <;> simp [hk, ho, c10, c14, emptyQualifier]
      · have hne : l.isEmpty = false := by
          cases l with
          | nil => exact absurd rfl hl
          | cons _ _ => rfl
        by_cases ho : mu.deleteOneVersion = true <;> simp [hk, hl, ho, hne, c8, c12]
    · simp [hk, c4]

/-- The cells denoted by the protobuf form are the intended ones (same order). -/
theorem cellsOfProto_intended (mu : Mut) (m : VMap) :
    Spec.cellsOfProto mu.kind mu.key (valuesToProto mu m (protoTs mu)) = Spec.intendedCells mu m := by
  unfold Spec.cellsOfProto valuesToProto Spec.intendedCells
  rw [List.flatMap_map]
  apply flatMap_congr_all
  intro e
  obtain ⟨fam, v⟩ := e
  have hts : (protoTs mu).getD Spec.latestTimestamp
      = if mu.timestamp = two64 - 1 then Spec.latestTimestamp else mu.timestamp := by
    unfold protoTs maxTimestamp
    by_cases h : mu.timestamp = two64 - 1 <;> simp [h]
  simp only [protoFamily, List.map_map]
  cases v with
  | none =>
    by_cases hk : mu.kind = .delete
    · by_cases ho : mu.deleteOneVersion = true <;>
        simp [hk, ho, emptyQualifier, Spec.cellOfQV, Spec.codeOfDelete, hts]
    · simp [hk]
  | some l =>
    by_cases hk : mu.kind = .delete
    · by_cases hl : l.length = 0
      · have : l = [] := List.eq_nil_of_length_eq_zero hl
        subst this
        by_cases ho : mu.deleteOneVersion = true <;>
          simp [hk, ho, emptyQualifier, Spec.cellOfQV, Spec.codeOfDelete, hts]
      · have hne : l.isEmpty = false := by
          cases l with
          | nil => exact absurd rfl hl
          | cons _ _ => rfl
        by_cases ho : mu.deleteOneVersion = true <;>
          simp [hk, hl, ho, hne, Spec.cellOfQV, Spec.codeOfDelete, hts, Function.comp_def]
    · cases hkind : mu.kind <;> simp_all [Spec.cellOfQV, Function.comp_def]


theorem toInt32_of_lt {n : Nat} (h : n < 2 ^ 31) : toInt32 n = (n : Int) := by
  unfold toInt32
  have : n % two32 = n := Nat.mod_eq_of_lt (by simp only [two32]; omega)
  simp only [this]
  rw [if_pos (by omega)]

theorem length_le_flatMap_encode (xs : List Cell) :
    xs.length ≤ (xs.flatMap encodeCell).length := by
  induction xs with
  | nil => simp
  | cons c cs ih =>
    simp only [List.flatMap_cons, List.length_append, List.length_cons, encodeCell_length]
    omega

theorem mem_writtenCells {mu : Mut} {m : VMap} {c : Cell} (h : c ∈ writtenCells mu m) :
    c.row = mu.key ∧ c.ts = cellTs mu ∧ ∃ e ∈ m, c.family = e.1 := by
  rw [writtenCells_eq] at h
  obtain ⟨e, he, hc⟩ := List.mem_flatMap.mp h
  simp only [familyCells, List.mem_map] at hc
  obtain ⟨kv, _, rfl⟩ := hc
  exact ⟨rfl, rfl, e, he, rfl⟩

theorem cellTs_lt (mu : Mut) (h : mu.timestamp < 2 ^ 64) : cellTs mu < 2 ^ 64 := by
  unfold cellTs
  split
  · decide
  · exact h

/-- Main lemma behind `encodings_agree`. -/
theorem encodings_agree_aux (mu : Mut) (m mp m1 m2 : VMap)
    (hp : SameMap m mp) (h1 : SameMap m m1) (h2 : SameMap m m2)
    (hkey : mu.key.length < 2 ^ 16) (hts : mu.timestamp < 2 ^ 64)
    (hfam : ∀ e ∈ m, e.1.length < 2 ^ 8)
    (hsize : ((Spec.intendedCells mu m).flatMap encodeCell).length < 2 ^ 31) :
    ∃ cbs count size cells,
      valuesToCellblocks mu m1 m2 = .ok (cbs, count, size) ∧
      count = (cells.length : Int) ∧ size = cbs.length ∧
      Spec.cellsOfCellblocks cbs count = some cells ∧
      cells.Perm (Spec.cellsOfProto mu.kind mu.key (valuesToProto mu mp (protoTs mu))) ∧
      cells.Perm (Spec.intendedCells mu m) := by
  have hb : ((writtenCells mu m2).flatMap encodeCell).length < 2 ^ 31 := by
    rw [flatMap_encode_length_perm (writtenCells_perm mu h2.symm), writtenCells_intended]
    exact hsize
  have hn : (writtenCells mu m2).length < 2 ^ 31 :=
    Nat.lt_of_le_of_lt (length_le_flatMap_encode _) hb
  have hvalid : ∀ c ∈ writtenCells mu m2, c.Valid := by
    intro c hc
    obtain ⟨hr, ht, e, he, hf⟩ := mem_writtenCells hc
    refine ⟨by rw [hr]; exact hkey, ?_, by rw [ht]; exact cellTs_lt mu hts⟩
    rw [hf]
    exact h2.family_bound _ hfam e he
  refine ⟨_, _, _, writtenCells mu m2, valuesToCellblocks_ok mu m1 m2 (h1.symm.trans h2),
    toInt32_of_lt hn, Nat.mod_eq_of_lt (by simp only [two32]; omega), ?_, ?_, ?_⟩
  · unfold Spec.cellsOfCellblocks
    rw [toInt32_of_lt hn, if_neg (by omega)]
    have := kvDecodeN_encoded (writtenCells mu m2) [] hvalid (by omega)
    rw [List.append_nil] at this
    simp only [Int.toNat_natCast, this]
    simp
  · rw [cellsOfProto_intended, ← writtenCells_intended]
    exact writtenCells_perm mu (h2.symm.trans hp)
  · rw [← writtenCells_intended]
    exact writtenCells_perm mu h2.symm

end GV.Cell
