import GohbaseVerif.Lemmas.BatchWait
/-!
What the three write loops (`wr1` fold = handled calls, `sweep`, `locateErrors`) do to the slot of
one call: frame, per-call invariants, and the value left in a processed call's slot.
-/
namespace GV.Batch

@[simp] theorem length_wrA (b0 a res c) : (wrA b0 a res c).length = res.length := by
  cases a <;> simp [wrA]

@[simp] theorem length_foldl_wr1 (b0 ans) (cs : List Nat) (res : List Slot) :
    (cs.foldl (wr1 b0 ans) res).length = res.length := by
  induction cs generalizing res with
  | nil => rfl
  | cons c cs ih => simp [List.foldl_cons, ih, wr1]

@[simp] theorem length_sweep (b0 ans) (cs : List Nat) (res : List Slot) :
    (sweep b0 ans cs res).length = res.length := by
  induction cs generalizing res with
  | nil => rfl
  | cons c cs ih =>
    simp only [sweep]
    split <;> simp [ih]

@[simp] theorem length_locateErrors (b0 rd) (cs : List Nat) (res : List Slot) :
    (locateErrors b0 rd cs res).length = res.length := by
  induction cs generalizing res with
  | nil => rfl
  | cons c cs ih =>
    simp only [locateErrors]
    split <;> simp [ih]

/-- one sweep step as a function of the answer -/
def swA (b0 : List Nat) (a : Ans) (res : List Slot) (c : Nat) : List Slot :=
  match a with
  | .ok m => setRes b0 res c ⟨some m, none⟩
  | .fail cls t => setRes b0 res c ⟨none, some (.ans cls t)⟩
  | _ => setErr b0 res c .batchCtx

theorem sweep_cons (b0 ans c cs res) : sweep b0 ans (c :: cs) res = sweep b0 ans cs (swA b0 (ans c) res c) := by
  simp only [sweep, swA]
  split <;> simp_all

@[simp] theorem length_swA (b0 a res c) : (swA b0 a res c).length = res.length := by
  cases a <;> simp [swA]

/-! ### frame -/

theorem getSlot_wrA_other {b0 : List Nat} {a : Ans} {res : List Slot} {c d : Nat}
    (hc : c ∈ b0) (hd : d ∈ b0) (hne : d ≠ c) : getSlot b0 (wrA b0 a res c) d = getSlot b0 res d := by
  cases a <;> simp [wrA, getSlot_setRes_other hc hd hne, getSlot_setErr_other hc hd hne]

theorem getSlot_swA_other {b0 : List Nat} {a : Ans} {res : List Slot} {c d : Nat}
    (hc : c ∈ b0) (hd : d ∈ b0) (hne : d ≠ c) : getSlot b0 (swA b0 a res c) d = getSlot b0 res d := by
  cases a <;> simp [swA, getSlot_setRes_other hc hd hne, getSlot_setErr_other hc hd hne]

theorem foldl_wr1_frame {b0 : List Nat} {ans : Nat → Ans} {cs : List Nat} {res : List Slot} {d : Nat}
    (hcs : ∀ c ∈ cs, c ∈ b0) (hd : d ∈ b0) (hn : d ∉ cs) :
    getSlot b0 (cs.foldl (wr1 b0 ans) res) d = getSlot b0 res d := by
  induction cs generalizing res with
  | nil => rfl
  | cons c cs ih =>
    simp only [List.mem_cons, not_or] at hn
    simp only [List.foldl_cons]
    rw [ih (fun x hx => hcs x (List.mem_cons_of_mem _ hx)) hn.2, wr1,
      getSlot_wrA_other (hcs c (List.mem_cons_self ..)) hd hn.1]

theorem sweep_frame {b0 : List Nat} {ans : Nat → Ans} {cs : List Nat} {res : List Slot} {d : Nat}
    (hcs : ∀ c ∈ cs, c ∈ b0) (hd : d ∈ b0) (hn : d ∉ cs) :
    getSlot b0 (sweep b0 ans cs res) d = getSlot b0 res d := by
  induction cs generalizing res with
  | nil => rfl
  | cons c cs ih =>
    simp only [List.mem_cons, not_or] at hn
    rw [sweep_cons, ih (fun x hx => hcs x (List.mem_cons_of_mem _ hx)) hn.2,
      getSlot_swA_other (hcs c (List.mem_cons_self ..)) hd hn.1]

theorem locateErrors_frame {b0 : List Nat} {rd : Round} {cs : List Nat} {res : List Slot} {d : Nat}
    (hcs : ∀ c ∈ cs, c ∈ b0) (hd : d ∈ b0) (hn : d ∉ cs) :
    getSlot b0 (locateErrors b0 rd cs res) d = getSlot b0 res d := by
  induction cs generalizing res with
  | nil => rfl
  | cons c cs ih =>
    simp only [List.mem_cons, not_or] at hn
    simp only [locateErrors]
    split
    · rw [ih (fun x hx => hcs x (List.mem_cons_of_mem _ hx)) hn.2,
        getSlot_setRes_other (hcs c (List.mem_cons_self ..)) hd hn.1]
    · exact ih (fun x hx => hcs x (List.mem_cons_of_mem _ hx)) hn.2

/-! ### per-call invariants -/

/-- What one round may put into the slot of call `c`: only `c`'s own data. -/
structure RoundInv (P : Nat → Slot → Prop) (rd : Round) : Prop where
  ok : ∀ c m, rd.ans c = .ok m → P c ⟨some m, none⟩
  fail : ∀ c cls t, rd.ans c = .fail cls t → P c ⟨none, some (.ans cls t)⟩
  own : ∀ c s, P c s → P c { s with err := some (.ownCtx c) }
  ctx : ∀ c s, P c s → P c { s with err := some .batchCtx }
  loc : ∀ c e, rd.locate c = .error e → P c ⟨none, some e⟩

def SlotsInv (P : Nat → Slot → Prop) (b0 : List Nat) (res : List Slot) : Prop :=
  res.length = b0.length ∧ ∀ c ∈ b0, P c (getSlot b0 res c)

theorem SlotsInv.setRes {P b0 res} (h : SlotsInv P b0 res) {c : Nat} {s : Slot} (hc : c ∈ b0) (hs : P c s) :
    SlotsInv P b0 (setRes b0 res c s) := by
  refine ⟨by simp [h.1], fun d hd => ?_⟩
  by_cases hdc : d = c
  · subst hdc; rw [getSlot_setRes_self hd h.1]; exact hs
  · rw [getSlot_setRes_other hc hd hdc]; exact h.2 d hd

theorem SlotsInv.setErr {P b0 res} (h : SlotsInv P b0 res) {c : Nat} {e : Err} (hc : c ∈ b0)
    (hs : ∀ s, P c s → P c { s with err := some e }) : SlotsInv P b0 (setErr b0 res c e) := by
  refine ⟨by simp [h.1], fun d hd => ?_⟩
  by_cases hdc : d = c
  · subst hdc; rw [getSlot_setErr_self hd h.1]; exact hs _ (h.2 d hd)
  · rw [getSlot_setErr_other hc hd hdc]; exact h.2 d hd

theorem SlotsInv.wr1 {P b0 res rd} (h : SlotsInv P b0 res) (hr : RoundInv P rd) {c : Nat} (hc : c ∈ b0) :
    SlotsInv P b0 (wr1 b0 rd.ans res c) := by
  simp only [Batch.wr1, wrA]
  split
  · rename_i m hm; exact h.setRes hc (hr.ok c m hm)
  · rename_i cls t hm; exact h.setRes hc (hr.fail c cls t hm)
  · exact h.setErr hc (hr.own c)
  · exact h

theorem SlotsInv.foldl_wr1 {P b0 rd} (hr : RoundInv P rd) {cs : List Nat} {res : List Slot}
    (h : SlotsInv P b0 res) (hcs : ∀ c ∈ cs, c ∈ b0) : SlotsInv P b0 (cs.foldl (Batch.wr1 b0 rd.ans) res) := by
  induction cs generalizing res with
  | nil => exact h
  | cons c cs ih =>
    exact ih (h.wr1 hr (hcs c (List.mem_cons_self ..))) (fun x hx => hcs x (List.mem_cons_of_mem _ hx))

theorem SlotsInv.sweep {P b0 rd} (hr : RoundInv P rd) {cs : List Nat} {res : List Slot}
    (h : SlotsInv P b0 res) (hcs : ∀ c ∈ cs, c ∈ b0) : SlotsInv P b0 (Batch.sweep b0 rd.ans cs res) := by
  induction cs generalizing res with
  | nil => exact h
  | cons c cs ih =>
    rw [sweep_cons]
    refine ih ?_ (fun x hx => hcs x (List.mem_cons_of_mem _ hx))
    have hc := hcs c (List.mem_cons_self ..)
    simp only [swA]
    split
    · rename_i m hm; exact h.setRes hc (hr.ok c m hm)
    · rename_i cls t hm; exact h.setRes hc (hr.fail c cls t hm)
    · exact h.setErr hc (hr.ctx c)

theorem SlotsInv.locateErrors {P b0 rd} (hr : RoundInv P rd) {cs : List Nat} {res : List Slot}
    (h : SlotsInv P b0 res) (hcs : ∀ c ∈ cs, c ∈ b0) : SlotsInv P b0 (Batch.locateErrors b0 rd cs res) := by
  induction cs generalizing res with
  | nil => exact h
  | cons c cs ih =>
    simp only [Batch.locateErrors]
    split
    · rename_i e he
      exact ih (h.setRes (hcs c (List.mem_cons_self ..)) (hr.loc c e he))
        (fun x hx => hcs x (List.mem_cons_of_mem _ hx))
    · exact ih h (fun x hx => hcs x (List.mem_cons_of_mem _ hx))

/-! ### the value left in the slot of a processed call -/

/-- what handling (`wr1`) leaves in the slot of `c`, as a function of `c`'s answer only -/
def HandledSlot (c : Nat) (a : Ans) (s : Slot) : Prop :=
  match a with
  | .ok m => s = ⟨some m, none⟩
  | .fail cls t => s = ⟨none, some (.ans cls t)⟩
  | .ownDone => s.err = some (.ownCtx c)
  | .silent => True

/-- what the sweep leaves in the slot of `c` -/
def SweptSlot (a : Ans) (s : Slot) : Prop :=
  match a with
  | .ok m => s = ⟨some m, none⟩
  | .fail cls t => s = ⟨none, some (.ans cls t)⟩
  | _ => s.err = some .batchCtx

theorem wrA_self {b0 : List Nat} {a : Ans} {res : List Slot} {c : Nat} (hc : c ∈ b0)
    (hl : res.length = b0.length) : HandledSlot c a (getSlot b0 (wrA b0 a res c) c) := by
  cases a <;> simp [HandledSlot, wrA, getSlot_setRes_self hc hl, getSlot_setErr_self hc hl]

theorem swA_self {b0 : List Nat} {a : Ans} {res : List Slot} {c : Nat} (hc : c ∈ b0)
    (hl : res.length = b0.length) : SweptSlot a (getSlot b0 (swA b0 a res c) c) := by
  cases a <;> simp [SweptSlot, swA, getSlot_setRes_self hc hl, getSlot_setErr_self hc hl]

theorem foldl_wr1_self {b0 : List Nat} {ans : Nat → Ans} {cs : List Nat} {res : List Slot} {c : Nat}
    (hcs : ∀ x ∈ cs, x ∈ b0) (hl : res.length = b0.length) (hc : c ∈ cs) :
    HandledSlot c (ans c) (getSlot b0 (cs.foldl (wr1 b0 ans) res) c) := by
  induction cs generalizing res with
  | nil => cases hc
  | cons x xs ih =>
    simp only [List.foldl_cons]
    have hxs : ∀ y ∈ xs, y ∈ b0 := fun y hy => hcs y (List.mem_cons_of_mem _ hy)
    by_cases hin : c ∈ xs
    · exact ih hxs (by simp [wr1, hl]) hin
    · have hcx : c = x := by
        cases hc with
        | head => rfl
        | tail _ h => exact absurd h hin
      subst hcx
      rw [foldl_wr1_frame hxs (hcs c (List.mem_cons_self ..)) hin]
      exact wrA_self (hcs c (List.mem_cons_self ..)) hl

theorem sweep_self {b0 : List Nat} {ans : Nat → Ans} {cs : List Nat} {res : List Slot} {c : Nat}
    (hcs : ∀ x ∈ cs, x ∈ b0) (hl : res.length = b0.length) (hc : c ∈ cs) :
    SweptSlot (ans c) (getSlot b0 (sweep b0 ans cs res) c) := by
  induction cs generalizing res with
  | nil => cases hc
  | cons x xs ih =>
    rw [sweep_cons]
    have hxs : ∀ y ∈ xs, y ∈ b0 := fun y hy => hcs y (List.mem_cons_of_mem _ hy)
    by_cases hin : c ∈ xs
    · exact ih hxs (by simp [hl]) hin
    · have hcx : c = x := by
        cases hc with
        | head => rfl
        | tail _ h => exact absurd h hin
      subst hcx
      rw [sweep_frame hxs (hcs c (List.mem_cons_self ..)) hin]
      exact swA_self (hcs c (List.mem_cons_self ..)) hl

/-- a call whose location failed ends the failed `findClients` round with an error in its slot -/
theorem locateErrors_self {b0 : List Nat} {rd : Round} {cs : List Nat} {res : List Slot} {c : Nat} {e : Err}
    (hcs : ∀ x ∈ cs, x ∈ b0) (hl : res.length = b0.length) (hc : c ∈ cs) (he : rd.locate c = .error e) :
    getSlot b0 (locateErrors b0 rd cs res) c = ⟨none, some e⟩ := by
  induction cs generalizing res with
  | nil => cases hc
  | cons x xs ih =>
    have hxs : ∀ y ∈ xs, y ∈ b0 := fun y hy => hcs y (List.mem_cons_of_mem _ hy)
    by_cases hin : c ∈ xs
    · simp only [locateErrors]
      split
      · exact ih hxs (by simp [hl]) hin
      · exact ih hxs hl hin
    · have hcx : c = x := by
        cases hc with
        | head => rfl
        | tail _ h => exact absurd h hin
      subst hcx
      simp only [locateErrors, he]
      rw [locateErrors_frame hxs (hcs c (List.mem_cons_self ..)) hin]
      exact getSlot_setRes_self (hcs c (List.mem_cons_self ..)) hl

/-! ### calls failed alone during region location (their own context is done) -/

theorem mem_liveCalls {rd : Round} {batch : List Nat} {c : Nat} :
    c ∈ liveCalls rd batch ↔ c ∈ batch ∧ ownGone rd c = false := by
  simp [liveCalls, List.mem_filter]

theorem liveCalls_sub {rd : Round} {batch : List Nat} {c : Nat} (h : c ∈ liveCalls rd batch) : c ∈ batch :=
  (mem_liveCalls.mp h).1

theorem ownGone_locate {rd : Round} {c : Nat} (h : ownGone rd c = true) :
    rd.locate c = .error (.ownCtx c) := by
  simp only [ownGone] at h
  split at h
  · rename_i d hd
    have : d = c := by simpa using h
    rw [hd, this]
  · cases h

theorem ownGone_of_locate {rd : Round} {c : Nat} (h : rd.locate c = .error (.ownCtx c)) :
    ownGone rd c = true := by
  simp [ownGone, h]

theorem ownGone_not_locOk {rd : Round} {c : Nat} (h : ownGone rd c = true) : locOk rd c = false := by
  simp [locOk, ownGone_locate h]

/-- `findClients` returned `ok == true`: every call it kept has a region client -/
theorem locOk_of_live {rd : Round} {batch : List Nat} {c : Nat}
    (hany : batch.any (fun c => !locOk rd c && !ownGone rd c) = false) (hc : c ∈ liveCalls rd batch) :
    locOk rd c = true := by
  obtain ⟨hcb, hg⟩ := mem_liveCalls.mp hc
  have := List.any_eq_false.mp hany c hcb
  simpa [hg] using this

theorem liveCalls_idem (rd : Round) (batch : List Nat) :
    liveCalls rd (liveCalls rd batch) = liveCalls rd batch := by
  simp [liveCalls, List.filter_filter]

theorem any_ownGone_live (rd : Round) (batch : List Nat) : (liveCalls rd batch).any (ownGone rd) = false := by
  rw [List.any_eq_false]
  intro c hc
  simp [(mem_liveCalls.mp hc).2]

/-- no location failure at all: nothing is taken out of the round -/
theorem liveCalls_of_all_ok {rd : Round} {batch : List Nat} (h : batch.any (fun c => !locOk rd c) = false) :
    liveCalls rd batch = batch ∧ batch.any (ownGone rd) = false := by
  have hall : ∀ c ∈ batch, ownGone rd c = false := by
    intro c hc
    have h1 := List.any_eq_false.mp h c hc
    cases hg : ownGone rd c
    · rfl
    · rw [ownGone_not_locOk hg] at h1; simp at h1
  refine ⟨?_, ?_⟩
  · simp only [liveCalls]
    rw [List.filter_eq_self]
    intro c hc; simp [hall c hc]
  · rw [List.any_eq_false]
    intro c hc; simp [hall c hc]

theorem locateErrors_id {b0 : List Nat} {rd : Round} {cs : List Nat} {res : List Slot}
    (h : ∀ c ∈ cs, locOk rd c = true) : locateErrors b0 rd cs res = res := by
  induction cs generalizing res with
  | nil => rfl
  | cons c cs ih =>
    have hc := h c (List.mem_cons_self ..)
    simp only [locOk] at hc
    simp only [locateErrors]
    split
    · rename_i e he; rw [he] at hc; cases hc
    · exact ih (fun x hx => h x (List.mem_cons_of_mem _ hx))


end GV.Batch
