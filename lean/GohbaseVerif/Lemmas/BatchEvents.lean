import GohbaseVerif.Lemmas.BatchLoop
/-!
What is sent: the `QueueBatch` events of the retry loop.
-/
namespace GV.Batch

/-- call `c` was handed to some region client in retry round `r` -/
def Sent (ev : List Event) (r c : Nat) : Prop := ∃ k cs, Event.queue r k cs ∈ ev ∧ c ∈ cs

/-- the `QueueBatch` calls of round `r`, in order -/
def queuedAt (ev : List Event) (r : Nat) : List (Nat × List Nat) :=
  ev.filterMap fun
    | .queue r' k cs => if r' = r then some (k, cs) else none
    | _ => none

theorem sent_append {a b : List Event} {r c : Nat} : Sent (a ++ b) r c ↔ Sent a r c ∨ Sent b r c := by
  simp only [Sent, List.mem_append]
  constructor
  · rintro ⟨k, cs, h | h, hc⟩
    · exact Or.inl ⟨k, cs, h, hc⟩
    · exact Or.inr ⟨k, cs, h, hc⟩
  · rintro (⟨k, cs, h, hc⟩ | ⟨k, cs, h, hc⟩)
    · exact ⟨k, cs, Or.inl h, hc⟩
    · exact ⟨k, cs, Or.inr h, hc⟩

theorem sent_nil {r c : Nat} : ¬ Sent [] r c := by
  rintro ⟨k, cs, h, _⟩; cases h

theorem sent_queueEvents {r r' : Nat} {rd : Round} {batch : List Nat} {c : Nat} :
    Sent (queueEvents r rd batch) r' c ↔ r' = r ∧ c ∈ batch := by
  simp only [Sent, queueEvents, List.mem_map]
  constructor
  · rintro ⟨k, cs, ⟨g, hg, heq⟩, hc⟩
    cases heq
    exact ⟨rfl, (groups_sublist hg).subset hc⟩
  · rintro ⟨rfl, hc⟩
    obtain ⟨g, hg, hcg⟩ := List.mem_flatMap.mp (mem_groups_flat.mpr hc)
    exact ⟨g.1, g.2, ⟨g, hg, rfl⟩, hcg⟩

theorem queue_round_of_mem {r r' k : Nat} {rd : Round} {batch cs : List Nat}
    (h : Event.queue r' k cs ∈ queueEvents r rd batch) : r' = r := by
  simp only [queueEvents, List.mem_map] at h
  obtain ⟨g, _, heq⟩ := h
  cases heq; rfl

theorem not_sent_sleep {tail : List Event} (h : ∀ e ∈ tail, isSleep e = true) {r c : Nat} : ¬ Sent tail r c := by
  rintro ⟨k, cs, hm, _⟩
  have := h _ hm
  simp [isSleep] at this

theorem not_sent_sleepCut {tail : List Event} (h : ∀ e ∈ tail, isSleepCut e = true) {r c : Nat} :
    ¬ Sent tail r c := by
  rintro ⟨k, cs, hm, _⟩
  have := h _ hm
  simp [isSleepCut] at this

theorem queuedAt_append (a b : List Event) (r : Nat) : queuedAt (a ++ b) r = queuedAt a r ++ queuedAt b r := by
  simp [queuedAt, List.filterMap_append]

theorem queuedAt_queueEvents (r : Nat) (rd : Round) (batch : List Nat) :
    queuedAt (queueEvents r rd batch) r = groups rd batch := by
  simp only [queuedAt, queueEvents, List.filterMap_map]
  have : ((fun x => match x with
      | Event.queue r' k cs => if r' = r then some (k, cs) else none
      | _ => none) ∘ fun g : Nat × List Nat => Event.queue r g.1 g.2) = some := by
    funext g; simp
  rw [this, List.filterMap_some]

theorem queuedAt_nil_of_no_round {ev : List Event} {r : Nat}
    (h : ∀ r' k cs, Event.queue r' k cs ∈ ev → r' ≠ r) : queuedAt ev r = [] := by
  simp only [queuedAt, List.filterMap_eq_nil_iff]
  intro e he
  cases e with
  | queue r' k cs => simp [h r' k cs he]
  | sleep _ => rfl
  | sleepCut _ => rfl
  | sleepLeft _ => rfl

/-- after the wait phase, a call of the round whose answer is a success holds exactly that success
(handled or swept) and is not retried -/
theorem round_ok_slot {b0 : List Nat} {rd : Round} {batch : List Nat} {st : St} {a : Acc}
    (ha : waitAll b0 rd.ans (cancelPos rd.cancel) (groups rd batch) 0 (acc0 st) = .ok a)
    (hb : ∀ c ∈ batch, c ∈ b0) (hl : st.res.length = b0.length) {c m : Nat} (hc : c ∈ batch)
    (hm : rd.ans c = .ok m) : getSlot b0 a.res c = ⟨some m, none⟩ ∧ c ∉ a.retries := by
  obtain ⟨pre, post, hmem, _, hres, hret, _⟩ := round_flat ha
  have hpre : ∀ c ∈ pre, c ∈ b0 := fun c hc => hb c ((hmem c).mp (List.mem_append_left _ hc))
  have hpost : ∀ c ∈ post, c ∈ b0 := fun c hc => hb c ((hmem c).mp (List.mem_append_right _ hc))
  constructor
  · rw [hres]
    by_cases hcp : c ∈ post
    · have := sweep_self (ans := rd.ans) (res := pre.foldl (wr1 b0 rd.ans) st.res) hpost (by simp [hl]) hcp
      rw [hm] at this; exact this
    · have hcpre : c ∈ pre := by
        rcases List.mem_append.mp ((hmem c).mpr hc) with h | h
        · exact h
        · exact absurd h hcp
      rw [sweep_frame hpost (hb c hc) hcp]
      have := foldl_wr1_self (ans := rd.ans) (res := st.res) hpre hl hcpre
      rw [hm] at this; exact this
  · rw [hret]; intro h
    have := (List.mem_filter.mp h).2
    rw [hm] at this; simp [isRetry] at this

/-- The structure of what the loop sends, by induction over the rounds. -/
theorem loop_events {b0 : List Nat} {rounds : List Round} {r : Nat} {batch : List Nat} {st : St} {R : Result}
    (h : loop b0 rounds r batch st = .ok R) (hb : ∀ c ∈ batch, c ∈ b0) (hl : st.res.length = b0.length) :
    ∃ new, R.events = st.events ++ new ∧
      (∀ r' k cs, Event.queue r' k cs ∈ new → r ≤ r') ∧
      (∀ c, Sent new r c → c ∈ batch) ∧
      (∀ c r', r ≤ r' → Sent new (r' + 1) c →
        Sent new r' c ∧ ∃ rd, rounds[r' - r]? = some rd ∧ isRetry (rd.ans c) = true) ∧
      (∀ c r' rd m, Sent new r' c → rounds[r' - r]? = some rd → rd.ans c = .ok m →
        getSlot b0 R.res c = ⟨some m, none⟩) ∧
      (∀ rd rest, rounds = rd :: rest → batch.any (fun c => !locOk rd c) = false →
        queuedAt new r = groups rd batch) ∧
      (∀ c r' rd, Sent new r' c → rounds[r' - r]? = some rd → locOk rd c = true) ∧
      (∀ rd rest, rounds = rd :: rest →
        batch.any (fun c => !locOk rd c && !ownGone rd c) = false →
        queuedAt new r = groups rd (liveCalls rd batch)) := by
  induction rounds generalizing r batch st with
  | nil => simp [loop] at h
  | cons rd rest ih =>
    rcases loop_cons h with ⟨hany, rfl⟩ | ⟨hany, a, ha, hcase⟩
    · refine ⟨[], by simp, ?_, ?_, ?_, ?_, ?_, ?_, ?_⟩
      · intro r' k cs hm; cases hm
      · intro c hs; exact absurd hs sent_nil
      · intro c r' _ hs; exact absurd hs sent_nil
      · intro c r' rd' m hs; exact absurd hs sent_nil
      · intro rd' rest' heq hno
        cases heq
        obtain ⟨c, hc, hloc⟩ := List.any_eq_true.mp hany
        have := List.any_eq_false.mp hno c hc
        simp only [Bool.and_eq_true] at hloc
        rw [hloc.1] at this; exact absurd rfl this
      · intro c r' rd' hs; exact absurd hs sent_nil
      · intro rd' rest' heq hno
        cases heq
        rw [hany] at hno; cases hno
    · -- go on from the state after `findClients`, with the calls it kept
      have hb' : ∀ c ∈ liveCalls rd batch, c ∈ b0 := fun c hc => hb c (liveCalls_sub hc)
      have hl' : (afterLocate b0 rd batch st).res.length = b0.length := by simp [hl]
      have hsubL : ∀ c ∈ liveCalls rd batch, c ∈ batch := fun c hc => liveCalls_sub hc
      have hlocL : ∀ c ∈ liveCalls rd batch, locOk rd c = true := fun c hc => locOk_of_live hany hc
      have hallok : batch.any (fun c => !locOk rd c) = false → liveCalls rd batch = batch :=
        fun h => (liveCalls_of_all_ok h).1
      revert ha hcase hb' hl' hsubL hlocL hallok
      generalize afterLocate b0 rd batch st = st', hlv : liveCalls rd batch = live
      intro ha hcase hb' hl' hsubL hlocL hallok
      rcases hcase with ⟨tail, rfl, htail, _⟩ | ⟨_, _, bo, imm, tail, htail, hrec⟩
      · -- the loop ends after this round
        refine ⟨queueEvents r rd live ++ tail, by simp [List.append_assoc], ?_, ?_, ?_, ?_, ?_, ?_, ?_⟩
        · intro r' k cs hm
          rcases List.mem_append.mp hm with hm | hm
          · rw [queue_round_of_mem hm]; exact Nat.le_refl _
          · have := htail _ hm; simp [isSleepCut] at this
        · intro c hs
          rcases sent_append.mp hs with hs | hs
          · exact hsubL c (sent_queueEvents.mp hs).2
          · exact absurd hs (not_sent_sleepCut htail)
        · intro c r' hle hs
          rcases sent_append.mp hs with hs | hs
          · have := (sent_queueEvents.mp hs).1; omega
          · exact absurd hs (not_sent_sleepCut htail)
        · intro c r' rd' m hs hrd hm
          rcases sent_append.mp hs with hs | hs
          · obtain ⟨rfl, hc⟩ := sent_queueEvents.mp hs
            simp only [Nat.sub_self, List.getElem?_cons_zero, Option.some.injEq] at hrd
            subst hrd
            exact (round_ok_slot ha hb' hl' hc hm).1
          · exact absurd hs (not_sent_sleepCut htail)
        · intro rd' rest' heq hno
          cases heq
          rw [queuedAt_append, queuedAt_queueEvents, queuedAt_nil_of_no_round, List.append_nil, hallok hno]
          intro r' k cs hm
          have := htail _ hm
          simp [isSleepCut] at this
        · intro c r' rd' hs hrd
          rcases sent_append.mp hs with hs | hs
          · obtain ⟨rfl, hc⟩ := sent_queueEvents.mp hs
            simp only [Nat.sub_self, List.getElem?_cons_zero, Option.some.injEq] at hrd
            subst hrd
            exact hlocL c hc
          · exact absurd hs (not_sent_sleepCut htail)
        · intro rd' rest' heq _
          cases heq
          rw [queuedAt_append, queuedAt_queueEvents, queuedAt_nil_of_no_round, List.append_nil, hlv]
          intro r' k cs hm
          have := htail _ hm
          simp [isSleepCut] at this
      · -- the loop goes on with the calls to retry
        obtain ⟨pre, post, hmem, _, hres, hret, _⟩ := round_flat ha
        have hsub : ∀ c ∈ a.retries, c ∈ live := by rw [hret]; exact retries_sub hmem
        have hal : a.res.length = b0.length := by rw [hres]; simp [hl']
        obtain ⟨new, hev, h1, h2, h3, h4, _, h6, _⟩ := ih hrec (fun c hc => hb' c (hsub c hc)) hal
        refine ⟨queueEvents r rd live ++ tail ++ new, by rw [hev]; simp [List.append_assoc],
          ?_, ?_, ?_, ?_, ?_, ?_, ?_⟩
        · intro r' k cs hm
          rcases List.mem_append.mp hm with hm | hm
          · rcases List.mem_append.mp hm with hm | hm
            · rw [queue_round_of_mem hm]; exact Nat.le_refl _
            · have := htail _ hm; simp [isSleep] at this
          · have := h1 r' k cs hm; omega
        · intro c hs
          rcases sent_append.mp hs with hs | hs
          · rcases sent_append.mp hs with hs | hs
            · exact hsubL c (sent_queueEvents.mp hs).2
            · exact absurd hs (not_sent_sleep htail)
          · obtain ⟨k, cs, hm, _⟩ := hs
            have := h1 r k cs hm; omega
        · intro c r' hle hs0
          rcases sent_append.mp hs0 with hs1 | hs
          · rcases sent_append.mp hs1 with hs2 | hs2
            · have := (sent_queueEvents.mp hs2).1; omega
            · exact absurd hs2 (not_sent_sleep htail)
          · by_cases heq : r' = r
            · subst heq
              have hcr := h2 c hs
              have hcb := hsub c hcr
              refine ⟨sent_append.mpr (Or.inl (sent_append.mpr (Or.inl (sent_queueEvents.mpr ⟨rfl, hcb⟩)))),
                rd, by simp, ?_⟩
              rw [hret] at hcr
              exact (List.mem_filter.mp hcr).2
            · have hlt : r + 1 ≤ r' := by omega
              obtain ⟨hs', rd', hrd', hretry⟩ := h3 c r' hlt hs
              refine ⟨sent_append.mpr (Or.inr hs'), rd', ?_, hretry⟩
              have : r' - r = (r' - (r + 1)) + 1 := by omega
              rw [this, List.getElem?_cons_succ]; exact hrd'
        · intro c r' rd' m hs hrd hm
          rcases sent_append.mp hs with hs | hs
          · rcases sent_append.mp hs with hs | hs
            · obtain ⟨rfl, hc⟩ := sent_queueEvents.mp hs
              simp only [Nat.sub_self, List.getElem?_cons_zero, Option.some.injEq] at hrd
              subst hrd
              obtain ⟨hslot, hnr⟩ := round_ok_slot ha hb' hl' hc hm
              rw [loop_frame hrec (fun c hc => hb' c (hsub c hc)) (hb' c hc) hnr]
              exact hslot
            · exact absurd hs (not_sent_sleep htail)
          · have hle : r + 1 ≤ r' := by
              obtain ⟨k, cs, hm', _⟩ := hs
              exact h1 r' k cs hm'
            have : r' - r = (r' - (r + 1)) + 1 := by omega
            rw [this, List.getElem?_cons_succ] at hrd
            exact h4 c r' rd' m hs hrd hm
        · intro rd' rest' heq hno
          cases heq
          rw [queuedAt_append, queuedAt_append, queuedAt_queueEvents, queuedAt_nil_of_no_round,
            queuedAt_nil_of_no_round, List.append_nil, List.append_nil, hallok hno]
          · intro r' k cs hm heq
            have := h1 r' k cs hm; omega
          · intro r' k cs hm
            have := htail _ hm
            simp [isSleep] at this
        · intro c r' rd' hs hrd
          rcases sent_append.mp hs with hs | hs
          · rcases sent_append.mp hs with hs | hs
            · obtain ⟨rfl, hc⟩ := sent_queueEvents.mp hs
              simp only [Nat.sub_self, List.getElem?_cons_zero, Option.some.injEq] at hrd
              subst hrd
              exact hlocL c hc
            · exact absurd hs (not_sent_sleep htail)
          · have hle : r + 1 ≤ r' := by
              obtain ⟨k, cs, hm', _⟩ := hs
              exact h1 r' k cs hm'
            have : r' - r = (r' - (r + 1)) + 1 := by omega
            rw [this, List.getElem?_cons_succ] at hrd
            exact h6 c r' rd' hs hrd
        · intro rd' rest' heq _
          cases heq
          rw [queuedAt_append, queuedAt_append, queuedAt_queueEvents, queuedAt_nil_of_no_round,
            queuedAt_nil_of_no_round, List.append_nil, List.append_nil, hlv]
          · intro r' k cs hm heq
            have := h1 r' k cs hm; omega
          · intro r' k cs hm
            have := htail _ hm
            simp [isSleep] at this

theorem isBackoff_isRetry {a : Ans} (h : isBackoff a = true) : isRetry a = true := by
  cases a with
  | fail cls t => cases cls <;> simp_all [isBackoff, isRetry]
  | _ => simp [isBackoff] at h

/-- The wait phase of a round in which no select sees the batch context done: every call of the
round is handled, in wait order. -/
theorem round_flat_uncut {b0 : List Nat} {rd : Round} {batch : List Nat} {st : St} {a : Acc}
    (h : waitAll b0 rd.ans (cancelPos rd.cancel) (groups rd batch) 0 (acc0 st) = .ok a)
    (hnd : ctxDoneAfterWait rd.cancel = false) :
    ∃ pre : List Nat, (∀ c, c ∈ pre ↔ c ∈ batch) ∧ a.interrupted = false ∧
      a.res = pre.foldl (wr1 b0 rd.ans) st.res ∧
      a.retries = pre.filter (fun c => isRetry (rd.ans c)) ∧
      a.needBackoff = pre.any (fun c => isBackoff (rd.ans c)) ∧
      a.allOK = (st.allOK && pre.all (fun c => isOkAns (rd.ans c))) := by
  have hint : a.interrupted = false := by
    rw [cancelPos_none_of_not_done hnd] at h
    exact waitAll_no_cancel h rfl
  obtain ⟨pre, post, hm, hpost0, hres, hret, hnb, _, hall, _⟩ := round_flat h
  have hp := hpost0 hint
  subst hp
  exact ⟨pre, fun c => by simpa using hm c, hint, by simpa [sweep] using hres, hret, hnb, by simpa using hall⟩

/-- **A pass that backs off because of a `RetryableError` is followed by another pass only if some
call about to be retried has not given up**: whenever something is queued in round `r' + 1` and
some call queued in round `r'` was answered with an error that asks for a back-off, some call
queued in round `r'` was answered with an error that is retried and its own context was not seen
done by the back-off sleep (it has none, or it is alive). -/
theorem loop_backoff_waiter {b0 : List Nat} {rounds : List Round} {r : Nat} {batch : List Nat} {st : St}
    {R : Result} (h : loop b0 rounds r batch st = .ok R) (hb : ∀ c ∈ batch, c ∈ b0)
    (hl : st.res.length = b0.length) (hbo : st.backoff ≠ 0) {new : List Event}
    (hnew : R.events = st.events ++ new) :
    ∀ c r' rd, r ≤ r' → Sent new (r' + 1) c → rounds[r' - r]? = some rd →
      (∃ d, Sent new r' d ∧ isBackoff (rd.ans d) = true) →
      ∃ d, Sent new r' d ∧ isRetry (rd.ans d) = true ∧ rd.gaveUp d = false := by
  induction rounds generalizing r batch st new with
  | nil => simp [loop] at h
  | cons rd rest ih =>
    intro c r' rd' hle hs hrd' hbk
    rcases loop_cons h with ⟨hany, rfl⟩ | ⟨hany, a, ha, hcase⟩
    · have : new = [] := by simpa using hnew
      subst this
      exact absurd hs sent_nil
    · have hb' : ∀ c ∈ liveCalls rd batch, c ∈ b0 := fun c hc => hb c (liveCalls_sub hc)
      have hl' : (afterLocate b0 rd batch st).res.length = b0.length := by simp [hl]
      rcases hcase with ⟨tail, rfl, htail, _⟩ | ⟨hret, hnd, _⟩
      · -- the loop ends after this pass: nothing is queued in a later round
        have : new = queueEvents r rd (liveCalls rd batch) ++ tail := by
          have := hnew
          simp only [List.append_assoc] at this
          exact (List.append_cancel_left this).symm
        subst this
        rcases sent_append.mp hs with hs | hs
        · have := (sent_queueEvents.mp hs).1; omega
        · exact absurd hs (not_sent_sleepCut htail)
      · rcases loop_cons_next h hany ha hret hnd with ⟨tail, rfl, _, htail⟩ | ⟨bo, imm, tail, htail, hrec, hbo', hgave⟩
        · have : new = queueEvents r rd (liveCalls rd batch) ++ tail := by
            have := hnew
            simp only [List.append_assoc] at this
            exact (List.append_cancel_left this).symm
          subst this
          rcases sent_append.mp hs with hs | hs
          · have := (sent_queueEvents.mp hs).1; omega
          · exact absurd hs (not_sent_sleepCut htail)
        · obtain ⟨pre, hmem, _, hres, hretries, hnb, _⟩ := round_flat_uncut ha hnd
          have hsub : ∀ c ∈ a.retries, c ∈ liveCalls rd batch := by
            rw [hretries]; intro c hc; exact (hmem c).mp (List.mem_filter.mp hc).1
          have hal : a.res.length = b0.length := by rw [hres]; simp [hl]
          obtain ⟨new', hev', h1, _⟩ := loop_events hrec (fun c hc => hb' c (hsub c hc)) hal
          have hnew' : new = queueEvents r rd (liveCalls rd batch) ++ tail ++ new' := by
            have := hnew
            rw [hev'] at this
            simp only [List.append_assoc] at this
            simpa [List.append_assoc] using (List.append_cancel_left this).symm
          have hlater : ∀ {x y : Nat}, Sent new' x y → r + 1 ≤ x := by
            rintro x y ⟨k, cs, hm, _⟩; exact h1 x k cs hm
          -- what of `new` is sent in a round: this pass's `QueueBatch`es or the later passes'
          have hsplit : ∀ {x y : Nat}, Sent new x y → (x = r ∧ y ∈ liveCalls rd batch) ∨ Sent new' x y := by
            intro x y hxy
            rw [hnew'] at hxy
            rcases sent_append.mp hxy with hxy | hxy
            · rcases sent_append.mp hxy with hxy | hxy
              · exact Or.inl (sent_queueEvents.mp hxy)
              · exact absurd hxy (not_sent_sleep htail)
            · exact Or.inr hxy
          by_cases heq : r' = r
          · subst heq
            simp only [Nat.sub_self, List.getElem?_cons_zero, Option.some.injEq] at hrd'
            subst hrd'
            obtain ⟨d, hsd, hbd⟩ := hbk
            have hdl : d ∈ liveCalls rd batch := by
              rcases hsplit hsd with h' | h'
              · exact h'.2
              · have := hlater h'; omega
            have hneed : a.needBackoff = true := by
              rw [hnb]; exact List.any_eq_true.mpr ⟨d, (hmem d).mpr hdl, hbd⟩
            have hg := hgave hneed hbo
            obtain ⟨e, he, hge⟩ : ∃ e ∈ a.retries, rd.gaveUp e = false := by
              have : ¬ (∀ e ∈ a.retries, rd.gaveUp e = true) := by
                intro hall
                rw [List.all_eq_true.mpr hall] at hg; cases hg
              apply Classical.byContradiction
              intro hcon
              apply this
              intro e he
              cases hge : rd.gaveUp e
              · exact absurd ⟨e, he, hge⟩ hcon
              · rfl
            refine ⟨e, ?_, ?_, hge⟩
            · rw [hnew']
              exact sent_append.mpr (Or.inl (sent_append.mpr (Or.inl (sent_queueEvents.mpr ⟨rfl, hsub e he⟩))))
            · rw [hretries] at he; exact (List.mem_filter.mp he).2
          · have hlt : r + 1 ≤ r' := by omega
            have hs' : Sent new' (r' + 1) c := by
              rcases hsplit hs with h' | h'
              · omega
              · exact h'
            have hidx : r' - r = (r' - (r + 1)) + 1 := by omega
            rw [hidx, List.getElem?_cons_succ] at hrd'
            obtain ⟨d, hsd, hbd⟩ := hbk
            have hsd' : Sent new' r' d := by
              rcases hsplit hsd with h' | h'
              · omega
              · exact h'
            obtain ⟨e, hse, hre, hge⟩ :=
              ih hrec (fun c hc => hb' c (hsub c hc)) hal (hbo' hbo) hev' c r' rd' hlt hs' hrd' ⟨d, hsd', hbd⟩
            exact ⟨e, by rw [hnew']; exact sent_append.mpr (Or.inr hse), hre, hge⟩

end GV.Batch
