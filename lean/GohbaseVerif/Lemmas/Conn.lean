import GohbaseVerif.Model.Conn
/-!
Invariants of the region-connection transition system (`Model/Conn.lean`) and their preservation.

Layout (one lemma per helper of the model and per action, so that a small model edit breaks one
lemma, not everything; the expressions `… % uint32` are always abstracted into a variable `n`
through the `…N` normal forms, because unfolding `x + 4294967296` definitionally is fatal):
* §0 list facts; §1 derived definitions (`places`, …) and normal forms of the record-updating
  helpers (`failConn_eq`, `finishFrame_eq`, `readerAtM_eq`, `senderAdd_eq`, `startSend_eq'`); the
  batching loop one round at a time (`writerLoopN_succ`, `wlPoison`, `wlSend`) with its induction
  principle `writerLoop_ind` (every `*_writerLoop` lemma is three cases: exit, poisoned batch, send);
* §2 `Ext` : monotone fields (`nextId`, `done`, `wroteAs`, fresh ids in `sent`) for every helper
  and `ext_step` for every action;
* §3 `GO`  : ownership / correlation invariant (C03, C02), reader-free, with a *carry* (the calls
  in the hand of the goroutine that is running), one lemma per helper;
* §4 `GR`  : `GO` + the reader's hand; per-action lemmas `gr_*`, `gr_step`, `gr_reachable`;
* §5 `GD`  : `inFlightM` queue discipline, in-flight counter, read deadline (C18); toolkit
  (`gd_mapW`, `gd_pop0`, `gd_filterW`, …), one lemma per helper, `Rest` (nobody waits for a free
  mutex between two actions), per-action lemmas `gdr_*`;
* §6 `DS`  : on a failed connection a registered item belongs to a send that is still before / in
  its write (items registered after the failure sweep, `queueDirectClosing`); uses the environment
  guard of `step` (`envOK_write`, `envOK_arm`: no successful `Write` / `SetReadDeadline` on a
  closed connection); `DR`: on a failed connection the reader is not parked in `Read`;
  `Good` = `GR ∧ GD ∧ Rest ∧ DS ∧ DR`, `good_step`, `good_reachable`;
* §7 frames that fail the connection after their own delivery (`Frame.fatal`: a server exception
  in the response header or inside a multi-response): `finishFrame_fatal`, `readerAtN_fatal`,
  `held_fatal_step` (the reader keeps such a frame in its hand until the connection is failed).
-/
namespace GV.Conn

/-! ## §0 list facts -/

/-- delivered-count of a list of deliveries -/
def dcount (l : List Dlv) (c : Nat) : Nat := (l.filter (·.call == c)).length

theorem dcount_nil (c : Nat) : dcount [] c = 0 := rfl

theorem dcount_append (l₁ l₂ : List Dlv) (c : Nat) :
    dcount (l₁ ++ l₂) c = dcount l₁ c + dcount l₂ c := by
  simp [dcount, List.filter_append]

theorem dcount_map (cs : List Nat) (g : Nat → Res) (src : Option Nat) (c : Nat) :
    dcount (cs.map (fun x => Dlv.mk x (g x) src)) c = cs.count c := by
  induction cs with
  | nil => rfl
  | cons a cs ih =>
    simp only [dcount, List.map_cons, List.filter_cons, List.count_cons] at ih ⊢
    by_cases h : a = c
    · simp [h, ih]
    · simp [h, ih]

theorem dcount_singleton (a : Nat) (r : Res) (src : Option Nat) (c : Nat) :
    dcount [Dlv.mk a r src] c = [a].count c := dcount_map [a] (fun _ => r) src c

/-- occurrences of `c` in the call lists of an association list of items -/
def occ (l : List (Nat × Item)) (c : Nat) : Nat := (l.flatMap (·.2.calls)).count c

theorem occ_nil (c : Nat) : occ [] c = 0 := rfl

theorem occ_cons (p : Nat × Item) (l : List (Nat × Item)) (c : Nat) :
    occ (p :: l) c = p.2.calls.count c + occ l c := by
  simp [occ, List.flatMap_cons, List.count_append]

theorem occ_append (l₁ l₂ : List (Nat × Item)) (c : Nat) :
    occ (l₁ ++ l₂) c = occ l₁ c + occ l₂ c := by
  simp [occ, List.flatMap_append, List.count_append]

theorem occ_single (id : Nat) (it : Item) (c : Nat) : occ [(id, it)] c = it.calls.count c := by
  simp [occ]

/-- removing the entry with key `id` from an association list with distinct keys removes exactly
the calls of the entry found by `find?`. -/
theorem occ_erase (l : List (Nat × Item)) (id : Nat) (p : Nat × Item) (c : Nat)
    (hnd : (l.map (·.1)).Nodup) (hf : l.find? (·.1 == id) = some p) :
    occ (l.filter (fun q => q.1 != id)) c + p.2.calls.count c = occ l c := by
  induction l with
  | nil => simp at hf
  | cons a l ih =>
    simp only [List.map_cons, List.nodup_cons] at hnd
    by_cases ha : a.1 = id
    · have : l.filter (fun q => q.1 != id) = l := by
        apply List.filter_eq_self.2
        intro q hq
        have : q.1 ≠ a.1 := fun e => hnd.1 (e ▸ List.mem_map_of_mem hq)
        simp [← ha, this]
      simp only [List.find?_cons, ha, beq_self_eq_true] at hf
      injection hf with hf
      subst hf
      simp [ha, this, occ_cons, Nat.add_comm]
    · have hb : (a.1 == id) = false := by simp [ha]
      simp only [List.find?_cons, hb] at hf
      have := ih hnd.2 hf
      simp only [List.filter_cons, bne, hb, Bool.not_false, if_true, occ_cons]
      simp only [bne] at this
      omega

/-- total deliveries produced by failing a list of items -/
theorem dcount_flatMap (its : List (Nat × Item)) (r : Res) (c : Nat) :
    dcount (its.flatMap (fun p => p.2.calls.map (fun x => Dlv.mk x r none))) c = occ its c := by
  induction its with
  | nil => rfl
  | cons a l ih =>
    simp only [List.flatMap_cons, dcount_append, occ_cons, ih]
    rw [dcount_map a.2.calls (fun _ => r) none c]

theorem count_filter_add (l : List Nat) (p : Nat → Bool) (c : Nat) :
    (l.filter p).count c + (l.filter (fun x => !p x)).count c = l.count c := by
  induction l with
  | nil => rfl
  | cons a l ih =>
    simp only [List.filter_cons, List.count_cons]
    cases hp : p a <;> simp [List.count_cons] <;> omega

theorem count_take_drop (l : List Nat) (n : Nat) (c : Nat) :
    (l.take n).count c + (l.drop n).count c = l.count c := by
  rw [← List.count_append, List.take_append_drop]

theorem count_filter_ne (l : List Nat) (a c : Nat) (h : c ≠ a) :
    (l.filter (· != a)).count c = l.count c := by
  induction l with
  | nil => rfl
  | cons b l ih =>
    simp only [List.filter_cons, List.count_cons]
    by_cases hb : b = a
    · subst hb
      have : (b == c) = false := by simp; exact fun e => h e.symm
      simp [this, ih]
    · simp [hb, List.count_cons, ih]

theorem count_filter_self (l : List Nat) (a : Nat) : (l.filter (· != a)).count a = 0 := by
  apply List.count_eq_zero.2
  simp [List.mem_filter]

/-! ## §1 derived definitions, normal forms of helpers -/

/-- the item the reader goroutine holds in its hand (unregistered, not yet completed) -/
def Reader.held : Reader → Option (Nat × Item × Frame)
  | .downWait id it f => some (id, it, f)
  | .clearing id it f => some (id, it, f)
  | _ => none

def Reader.calls (r : Reader) : List Nat :=
  match r.held with
  | some (_, it, _) => it.calls
  | none => []

theorem Reader.calls_of_none {r : Reader} (h : r.held = none) : r.calls = [] := by
  simp [Reader.calls, h]

theorem Reader.calls_of_some {r : Reader} {id : Nat} {it : Item} {f : Frame}
    (h : r.held = some (id, it, f)) : r.calls = it.calls := by
  simp [Reader.calls, h]

theorem Reader.calls_congr {r r' : Reader} (h : r'.held = r.held) : r'.calls = r.calls := by
  simp [Reader.calls, h]

/-- reader-independent part of `places` -/
def base (s : St) (c : Nat) : Nat :=
  s.offered.count c + occ s.sent c + dcount s.delivered c + s.dropped.count c

/-- In how many "places" call `c` currently is: waiting in `offered`, inside a registered item,
in the reader's hand, delivered, dropped. -/
def places (s : St) (c : Nat) : Nat :=
  s.offered.count c + (outstanding s).count c + s.reader.calls.count c + deliveredCount s c
    + s.dropped.count c

theorem places_eq (s : St) (c : Nat) : places s c = base s c + s.reader.calls.count c := by
  simp only [places, base, occ, outstanding, dcount, deliveredCount]; omega

theorem deliverAll_eq (its : List Item) (r : Res) (s : St) :
    deliverAll s its r =
      { s with delivered := s.delivered ++ its.flatMap (fun it => it.calls.map (fun c => Dlv.mk c r none)) } := by
  induction its generalizing s with
  | nil => simp [deliverAll]
  | cons it its ih =>
    simp only [deliverAll, List.foldl_cons] at ih ⊢
    rw [ih]
    simp [deliverItem, List.append_assoc]

/-- deliveries made by `fail` -/
def failDlv (s : St) : List Dlv :=
  s.sent.flatMap (fun p => p.2.calls.map (fun c => Dlv.mk c Res.connErr none)) ++
    s.offered.map (fun c => Dlv.mk c Res.connErr none)

theorem failConn_eq (s : St) :
    failConn s = if s.done then s else
      { s with done := true, sent := [], offered := [], delivered := s.delivered ++ failDlv s,
               reader := if s.reader = .reading then .exited else s.reader,
               writerExited := if s.writerBusy then s.writerExited else true } := by
  unfold failConn
  split
  · rfl
  · simp only [deliverAll_eq, failDlv, List.flatMap_map, List.append_assoc]
    by_cases h1 : s.reader = .reading <;> by_cases h2 : s.writerBusy = true <;> simp [h1, h2]

def ctxEnded (s : St) (it : Item) : Bool :=
  match it with
  | .single c => s.ctxDone.contains c
  | .multi _ => false

/-- the results the reader delivers for a response frame -/
def frameDlv (id : Nat) (it : Item) : Frame → List Dlv
  | .result => it.calls.map (fun c => Dlv.mk c .ok (some id))
  | .undecodable => it.calls.map (fun c => Dlv.mk c .retryable (some id))
  | .perCall rs => it.calls.map (fun c =>
      Dlv.mk c (((rs.find? (·.1 == c)).map (·.2)).getD .retryable) (some id))
  | .exception r => it.calls.map (fun c => Dlv.mk c r (some id))
  | .badHeader => []

theorem finishFrame_eq (s : St) (id : Nat) (it : Item) (f : Frame) :
    finishFrame s id it f =
      if ctxEnded s it then { s with reader := readerNext s, dropped := s.dropped ++ it.calls }
      else if f = .badHeader then s
      else if f.fatal then
        { failConn { s with delivered := s.delivered ++ frameDlv id it f, reader := .exited }
          with reader := .exited }
      else { s with delivered := s.delivered ++ frameDlv id it f, reader := readerNext s } := by
  cases it with
  | single c =>
    by_cases h : c ∈ s.ctxDone
    · simp [finishFrame, ctxEnded, h]
    · cases f with
      | exception r =>
        cases r <;> simp [finishFrame, ctxEnded, h, frameDlv, deliverItem, readerNext, Frame.fatal] <;> rfl
      | perCall rs =>
        cases hf : (Frame.perCall rs).fatal <;>
          simp [finishFrame, ctxEnded, h, frameDlv, readerNext, hf]
      | _ => simp [finishFrame, ctxEnded, h, frameDlv, deliverItem, readerNext, Frame.fatal] <;> rfl
  | multi cs =>
    cases f with
    | exception r =>
      cases r <;> simp [finishFrame, ctxEnded, frameDlv, deliverItem, readerNext, Frame.fatal] <;> rfl
    | perCall rs =>
      cases hf : (Frame.perCall rs).fatal <;>
        simp [finishFrame, ctxEnded, frameDlv, readerNext, hf]
    | _ => simp [finishFrame, ctxEnded, frameDlv, deliverItem, readerNext, Frame.fatal] <;> rfl

theorem dcount_frameDlv (id : Nat) (it : Item) (f : Frame) (c : Nat) (hf : f ≠ .badHeader) :
    dcount (frameDlv id it f) c = it.calls.count c := by
  cases f with
  | badHeader => exact absurd rfl hf
  | result => exact dcount_map _ (fun _ => .ok) _ _
  | undecodable => exact dcount_map _ (fun _ => .retryable) _ _
  | perCall rs => exact dcount_map _ _ _ _
  | exception r => exact dcount_map _ (fun _ => r) _ _

theorem frameDlv_src (id : Nat) (it : Item) (f : Frame) :
    ∀ d ∈ frameDlv id it f, d.src = some id ∧ d.call ∈ it.calls := by
  intro d hd
  cases f <;> simp only [frameDlv, List.mem_map, List.not_mem_nil] at hd <;>
    (obtain ⟨c, hc, rfl⟩ := hd; exact ⟨rfl, hc⟩)

/-- `readerAtM` with the new counter value abstracted (keeps the 2^32 literal away from
definitional unfolding). -/
def readerAtN (s : St) (n : Nat) (id : Nat) (it : Item) (f : Frame) : St :=
  if n = 0 then { s with inFlight := n, reader := .clearing id it f }
  else finishFrame { s with inFlight := n } id it f

theorem readerAtM_eq (s : St) (id : Nat) (it : Item) (f : Frame) :
    readerAtM s id it f = readerAtN s ((s.inFlight + uint32 - 1) % uint32) id it f := rfl

/-- the registration part of `startSend` (id allocation, `sent`, `wroteAs`, the new `Snd`) -/
def regSend (s : St) (w : Who) (it : Item) : St :=
  { s with nextId := s.nextId + 1, sent := s.sent ++ [(s.nextId + 1, it)],
           wroteAs := s.wroteAs ++ it.calls.map (fun c => (c, s.nextId + 1)),
           sends := s.sends ++ [{ who := w, id := s.nextId + 1, item := it, phase := .addWait }] }

/-- `senderAdd` with the new counter value abstracted -/
def senderAddN (s : St) (n : Nat) (w : Who) : St :=
  { s with inFlight := n,
           writeM := if s.writeM.isNone then some w else s.writeM,
           sends := s.sends.map (fun y =>
             if y.who == w then
               { y with phase := if s.writeM.isNone then Phase.write else Phase.lockWait } else y) }

theorem senderAdd_eq (s : St) (w : Who) :
    senderAdd s w = senderAddN s ((s.inFlight + 1) % uint32) w := rfl

theorem startSend_eq (s : St) (w : Who) (it : Item) :
    startSend s w it =
      if mHeld (regSend s w it) then
        { regSend s w it with mWait := (regSend s w it).mWait ++ [.sender w] }
      else senderAddN (regSend s w it) (((regSend s w it).inFlight + 1) % uint32) w := rfl

def newSnd (s : St) (w : Who) (it : Item) : Snd :=
  { who := w, id := s.nextId + 1, item := it, phase := .addWait }

/-- what `senderAdd` does to the send of the goroutine -/
def addG (s : St) (y : Snd) : Snd :=
  { y with phase := if s.writeM.isNone then Phase.write else Phase.lockWait }

/-- `startSend` when `inFlightM` is busy, written out from `s` -/
def regSendQ (s : St) (w : Who) (it : Item) : St :=
  { s with nextId := s.nextId + 1, sent := s.sent ++ [(s.nextId + 1, it)],
           wroteAs := s.wroteAs ++ it.calls.map (fun c => (c, s.nextId + 1)),
           sends := s.sends ++ [newSnd s w it],
           mWait := s.mWait ++ [.sender w] }

/-- `startSend` when `inFlightM` is free, written out from `s`, new counter value abstracted -/
def regAddN (s : St) (n : Nat) (w : Who) (it : Item) : St :=
  { s with nextId := s.nextId + 1, sent := s.sent ++ [(s.nextId + 1, it)],
           wroteAs := s.wroteAs ++ it.calls.map (fun c => (c, s.nextId + 1)),
           inFlight := n,
           writeM := if s.writeM.isNone then some w else s.writeM,
           sends := (s.sends ++ [newSnd s w it]).map (fun y => if y.who == w then addG s y else y) }

/-- `senderAdd` for the sender at the head of the queue, written out from `s` -/
def popAddN (s : St) (n : Nat) (w : Who) (rest : List MW) : St :=
  { s with mWait := rest, inFlight := n,
           writeM := if s.writeM.isNone then some w else s.writeM,
           sends := s.sends.map (fun y => if y.who == w then addG s y else y) }

theorem popAddN_eq (s : St) (n : Nat) (w : Who) (rest : List MW) :
    senderAddN { s with mWait := rest } n w = popAddN s n w rest := rfl

theorem startSend_eq' (s : St) (w : Who) (it : Item) :
    startSend s w it =
      if mHeld (regSend s w it) then regSendQ s w it
      else regAddN s ((s.inFlight + 1) % uint32) w it := rfl

/-! the batching loop, one round at a time -/

def wlLive (s : St) : List Nat :=
  (s.offered.take s.queueSize).filter (fun c => !s.ctxDone.contains c)

/-- the batch has been taken off the queue, its dead calls dropped -/
def wlS1 (s : St) : St :=
  { s with offered := s.offered.drop s.queueSize,
           dropped := s.dropped ++ (s.offered.take s.queueSize).filter (fun c => s.ctxDone.contains c) }

/-- the batch contains a call that cannot be marshalled: it is completed locally -/
def wlPoison (s : St) : St :=
  { wlS1 s with nextId := s.nextId + 1, unsendable := s.unsendable ++ wlLive s,
                delivered := s.delivered ++ (wlLive s).map (fun c => Dlv.mk c .fatal none) }

def wlSend (s : St) : St :=
  startSend { wlS1 s with writerBusy := true } .writer (.multi (wlLive s))

theorem writerLoopN_succ (n : Nat) (s : St) :
    writerLoopN (n + 1) s =
      if s.writerExited || s.writerBusy then s
      else if s.done then { s with writerExited := true }
      else if s.offered = [] then s
      else if (wlLive s).any (fun c => s.poison.contains c) then writerLoopN n (wlPoison s)
      else wlSend s := by
  simp only [writerLoopN]
  split
  · rfl
  · split
    · rfl
    · split
      · rename_i h; simp [h]
      · rename_i h
        have : ¬ s.offered = [] := fun e => h e
        simp only [this, if_false]
        rfl

/-- induction over the rounds of the batching loop -/
theorem writerLoopN_ind {Q : St → Prop} (n : Nat) (s : St) (h0 : Q s)
    (hexit : ∀ s, Q s → Q { s with writerExited := true })
    (hpois : ∀ s, Q s → (s.writerExited || s.writerBusy) = false → s.done = false → Q (wlPoison s))
    (hsend : ∀ s, Q s → (s.writerExited || s.writerBusy) = false → s.done = false → Q (wlSend s)) :
    Q (writerLoopN n s) := by
  induction n generalizing s with
  | zero => exact h0
  | succ n ih =>
    rw [writerLoopN_succ]
    split
    · exact h0
    · rename_i hb
      have hb : (s.writerExited || s.writerBusy) = false := by simpa using hb
      split
      · exact hexit s h0
      · rename_i hd
        have hd : s.done = false := by simpa using hd
        split
        · exact h0
        · split
          · exact ih _ (hpois s h0 hb hd)
          · exact hsend s h0 hb hd

theorem writerLoop_ind {Q : St → Prop} (s : St) (h0 : Q s)
    (hexit : ∀ s, Q s → Q { s with writerExited := true })
    (hpois : ∀ s, Q s → (s.writerExited || s.writerBusy) = false → s.done = false → Q (wlPoison s))
    (hsend : ∀ s, Q s → (s.writerExited || s.writerBusy) = false → s.done = false → Q (wlSend s)) :
    Q (writerLoop s) := writerLoopN_ind _ s h0 hexit hpois hsend

/-- the `write` / `arm` branches of `step` below the environment guard -/
def writeCore (s : St) (w : Who) (last : Bool) (r : IO) : Option St :=
  match findSend s w .write with
  | none => none
  | some snd =>
    match r with
    | .err => some (finishSend (sendFailed (releaseWriteM s) snd) w)
    | .ok =>
      if !last then some s
      else
        let s1 := releaseWriteM s
        if mHeld s1 then some { setPhase s1 w .armWait with mWait := s1.mWait ++ [.sender w] }
        else some (senderAtM s1 w)

def armCore (s : St) (w : Who) (r : IO) : Option St :=
  match findSend s w .arm with
  | none => none
  | some snd =>
    match r with
    | .ok => some (releaseM (finishSend { s with armed := true } w))
    | .err => some (releaseM (finishSend (sendFailed s snd) w))

theorem step_write (s : St) (w : Who) (last : Bool) (r : IO) :
    step s (.write w last r) = if s.done && r == .ok then none else writeCore s w last r := rfl

theorem step_arm (s : St) (w : Who) (r : IO) :
    step s (.arm w r) = if s.done && r == .ok then none else armCore s w r := rfl

/-- a step that happened respects the environment restriction -/
theorem envOK_write {s s' : St} {w : Who} {last : Bool} {r : IO}
    (hs : step s (.write w last r) = some s') :
    ¬ (s.done = true ∧ r = .ok) ∧ writeCore s w last r = some s' := by
  rw [step_write] at hs
  split at hs
  · cases hs
  · rename_i h
    refine ⟨fun e => h ?_, hs⟩
    simp [e.1, e.2]

theorem envOK_arm {s s' : St} {w : Who} {r : IO} (hs : step s (.arm w r) = some s') :
    ¬ (s.done = true ∧ r = .ok) ∧ armCore s w r = some s' := by
  rw [step_arm] at hs
  split at hs
  · cases hs
  · rename_i h
    refine ⟨fun e => h ?_, hs⟩
    simp [e.1, e.2]

/-! ## §2 `Ext`: what the internal helpers never touch / only grow -/

structure Ext (s s' : St) : Prop where
  nextId : s.nextId ≤ s'.nextId
  done : s.done = true → s'.done = true
  wrote : ∀ p ∈ s.wroteAs, p ∈ s'.wroteAs
  /-- a newly registered item gets an id above every id allocated so far -/
  sentNew : ∀ p ∈ s'.sent, p ∈ s.sent ∨ s.nextId < p.1

theorem Ext.refl (s : St) : Ext s s := ⟨Nat.le_refl _, fun h => h, fun _ h => h, fun _ h => Or.inl h⟩

theorem Ext.trans {a b c : St} (h₁ : Ext a b) (h₂ : Ext b c) : Ext a c :=
  ⟨Nat.le_trans h₁.nextId h₂.nextId, fun h => h₂.done (h₁.done h),
   fun p h => h₂.wrote p (h₁.wrote p h),
   fun p h => by
     rcases h₂.sentNew p h with h | h
     · exact h₁.sentNew p h
     · exact Or.inr (Nat.lt_of_le_of_lt h₁.nextId h)⟩

/-- a helper that only updates fields `Ext` does not mention -/
macro "ext_upd" : tactic =>
  `(tactic| exact ⟨Nat.le_refl _, fun h => h, fun _ h => h, fun _ h => Or.inl h⟩)

theorem ext_deliverItem (s : St) (it : Item) (r : Res) (src : Option Nat) :
    Ext s (deliverItem s it r src) := by ext_upd

theorem ext_eraseSent (s : St) (id : Nat) : Ext s (eraseSent s id) :=
  ⟨Nat.le_refl _, fun h => h, fun _ h => h, fun _ h => Or.inl (List.mem_filter.1 h).1⟩

theorem ext_setPhase (s : St) (w : Who) (p : Phase) : Ext s (setPhase s w p) := by ext_upd

theorem ext_failConn (s : St) : Ext s (failConn s) := by
  rw [failConn_eq]
  split
  · exact Ext.refl s
  · exact ⟨Nat.le_refl _, fun _ => rfl, fun _ h => h, fun _ h => by cases h⟩

theorem ext_sendFailed (s : St) (snd : Snd) : Ext s (sendFailed s snd) := by
  simp only [sendFailed]
  split
  · exact (ext_failConn s).trans ((ext_eraseSent _ _).trans (ext_deliverItem _ _ _ _))
  · exact ext_failConn s

theorem ext_regSend (s : St) (w : Who) (it : Item) : Ext s (regSend s w it) :=
  ⟨Nat.le_succ _, fun h => h, fun _ h => List.mem_append_left _ h, fun p h => by
    rcases List.mem_append.1 h with h | h
    · exact Or.inl h
    · simp only [List.mem_singleton] at h; subst h; exact Or.inr (Nat.lt_succ_self _)⟩

theorem ext_senderAddN (s : St) (n : Nat) (w : Who) : Ext s (senderAddN s n w) := by ext_upd

theorem ext_senderAdd (s : St) (w : Who) : Ext s (senderAdd s w) := by
  rw [senderAdd_eq]; exact ext_senderAddN _ _ _

theorem ext_startSend (s : St) (w : Who) (it : Item) : Ext s (startSend s w it) := by
  rw [startSend_eq]
  split
  · refine Ext.trans (ext_regSend s w it) ?_; ext_upd
  · exact (ext_regSend s w it).trans (ext_senderAddN _ _ _)

theorem ext_writerLoop (s : St) : Ext s (writerLoop s) := by
  refine writerLoop_ind (Q := fun s' => Ext s s') s (Ext.refl s) ?_ ?_ ?_
  · intro s' h; refine h.trans ?_; ext_upd
  · intro s' h _ _
    exact h.trans ⟨Nat.le_succ _, fun h => h, fun _ h => h, fun _ h => Or.inl h⟩
  · intro s' h _ _
    refine h.trans (Ext.trans ?_ (ext_startSend _ _ _)); ext_upd

theorem ext_finishSend (s : St) (w : Who) : Ext s (finishSend s w) := by
  simp only [finishSend]
  split
  · refine Ext.trans ?_ (ext_writerLoop _)
    ext_upd
  · ext_upd

theorem ext_releaseWriteM (s : St) : Ext s (releaseWriteM s) := by
  simp only [releaseWriteM]
  split <;> ext_upd

theorem ext_finishFrame (s : St) (id : Nat) (it : Item) (f : Frame) :
    Ext s (finishFrame s id it f) := by
  rw [finishFrame_eq]
  split
  · ext_upd
  · split
    · exact Ext.refl s
    · split
      · have h := ext_failConn { s with delivered := s.delivered ++ frameDlv id it f, reader := .exited }
        exact ⟨h.nextId, h.done, h.wrote, h.sentNew⟩
      · ext_upd

theorem ext_senderAtM (s : St) (w : Who) : Ext s (senderAtM s w) := by
  simp only [senderAtM]
  split
  · exact ext_finishSend s w
  · exact ext_setPhase s w _

theorem ext_readerAtN (s : St) (n : Nat) (id : Nat) (it : Item) (f : Frame) :
    Ext s (readerAtN s n id it f) := by
  simp only [readerAtN]
  split
  · ext_upd
  · refine Ext.trans ?_ (ext_finishFrame _ _ _ _)
    ext_upd

theorem ext_readerAtM (s : St) (id : Nat) (it : Item) (f : Frame) :
    Ext s (readerAtM s id it f) := by
  rw [readerAtM_eq]
  exact ext_readerAtN s _ id it f

theorem ext_wakeM (n : Nat) (s : St) : Ext s (wakeM n s) := by
  induction n generalizing s with
  | zero => exact Ext.refl s
  | succ n ih =>
    simp only [wakeM]
    split
    · exact Ext.refl s
    · split
      · exact Ext.refl s
      · split
        · split
          · refine Ext.trans (Ext.trans ?_ (ext_senderAdd _ _)) (ih _)
            ext_upd
          · split
            · refine Ext.trans (Ext.trans ?_ (ext_senderAtM _ _)) (ih _)
              ext_upd
            · refine Ext.trans ?_ (ih _)
              ext_upd
        · refine Ext.trans ?_ (ih _)
          ext_upd
      · split
        · refine Ext.trans (Ext.trans ?_ (ext_readerAtM _ _ _ _)) (ih _)
          ext_upd
        · refine Ext.trans ?_ (ih _)
          ext_upd

theorem ext_releaseM (s : St) : Ext s (releaseM s) := ext_wakeM _ s

theorem ext_readerFails (s : St) :
    Ext s { failConn { s with reader := .exited } with reader := .exited } := by
  have h := ext_failConn { s with reader := .exited }
  exact ⟨h.nextId, h.done, h.wrote, h.sentNew⟩

theorem ext_step {s s' : St} {a : Act} (hs : step s a = some s') : Ext s s' := by
  cases a with
  | queueBatched c =>
    simp only [step] at hs
    split at hs
    · cases hs
    · split at hs
      · cases hs
      · split at hs
        · injection hs with hs; subst hs; ext_upd
        · injection hs with hs; subst hs
          refine Ext.trans ?_ (ext_writerLoop _); ext_upd
  | queueBatchedUnsendable c =>
    simp only [step] at hs
    split at hs
    · cases hs
    · split at hs
      · cases hs
      · split at hs
        · injection hs with hs; subst hs; ext_upd
        · injection hs with hs; subst hs
          refine Ext.trans ?_ (ext_writerLoop _); ext_upd
  | queueDirect c =>
    simp only [step] at hs
    split at hs
    · cases hs
    · split at hs
      · split at hs
        · cases hs
        · injection hs with hs; subst hs; ext_upd
      · split at hs
        · injection hs with hs; subst hs; ext_upd
        · injection hs with hs; subst hs
          refine Ext.trans ?_ (ext_startSend _ _ _); ext_upd
  | queueDirectClosing c =>
    simp only [step] at hs
    split at hs
    · cases hs
    · split at hs
      · split at hs
        · cases hs
        · injection hs with hs; subst hs; ext_upd
      · split at hs
        · injection hs with hs; subst hs; ext_upd
        · injection hs with hs; subst hs
          refine Ext.trans ?_ ((ext_failConn _).trans (ext_startSend _ _ _)); ext_upd
  | queueUnsendable c =>
    simp only [step] at hs
    split at hs
    · cases hs
    · split at hs
      · split at hs
        · cases hs
        · injection hs with hs; subst hs; ext_upd
      · split at hs
        · injection hs with hs; subst hs; ext_upd
        · injection hs with hs; subst hs
          exact ⟨Nat.le_succ _, fun h => h, fun _ h => h, fun _ h => Or.inl h⟩
  | cancel c =>
    simp only [step] at hs
    split at hs
    · cases hs
    · injection hs with hs; subst hs; ext_upd
  | write w last r =>
    have hs := (envOK_write hs).2
    simp only [writeCore] at hs
    split at hs
    · cases hs
    · split at hs
      · injection hs with hs; subst hs
        exact (ext_releaseWriteM s).trans ((ext_sendFailed _ _).trans (ext_finishSend _ _))
      · split at hs
        · injection hs with hs; subst hs; exact Ext.refl _
        · split at hs
          · injection hs with hs; subst hs
            refine Ext.trans (ext_releaseWriteM s) (Ext.trans (ext_setPhase _ w .armWait) ?_); ext_upd
          · injection hs with hs; subst hs
            exact (ext_releaseWriteM s).trans (ext_senderAtM _ _)
  | arm w r =>
    have hs := (envOK_arm hs).2
    simp only [armCore] at hs
    split at hs
    · cases hs
    · split at hs
      · injection hs with hs; subst hs
        refine Ext.trans ?_ ((ext_finishSend _ _).trans (ext_releaseM _)); ext_upd
      · injection hs with hs; subst hs
        exact (ext_sendFailed _ _).trans ((ext_finishSend _ _).trans (ext_releaseM _))
  | read id f =>
    simp only [step] at hs
    split at hs
    · cases hs
    · split at hs
      · injection hs with hs; subst hs; exact ext_readerFails s
      · split at hs
        · injection hs with hs; subst hs; exact ext_readerFails s
        · split at hs
          · injection hs with hs; subst hs
            refine Ext.trans (ext_eraseSent s id) ?_; ext_upd
          · injection hs with hs; subst hs
            exact (ext_eraseSent s id).trans (ext_readerAtM _ _ _ _)
  | readErr =>
    simp only [step] at hs
    split at hs
    · cases hs
    · injection hs with hs; subst hs; exact ext_readerFails s
  | timeout =>
    simp only [step] at hs
    split at hs
    · cases hs
    · injection hs with hs; subst hs; exact ext_readerFails s
  | clear r =>
    simp only [step] at hs
    split at hs
    · split at hs
      · injection hs with hs; subst hs
        refine Ext.trans ?_ ((ext_finishFrame _ _ _ _).trans (ext_releaseM _)); ext_upd
      · injection hs with hs; subst hs
        exact (ext_deliverItem s _ _ _).trans ((ext_readerFails _).trans (ext_releaseM _))
    · cases hs
  | close =>
    simp only [step] at hs
    injection hs with hs; subst hs; exact ext_failConn s

/-! ## §3 `GO`: ownership and correlation, reader-free, with a carry `x` (calls in the hand of the
goroutine that is running) -/

/-- how many times call `c` was registered (`wroteAs` entries) -/
def written (s : St) (c : Nat) : Nat := (s.wroteAs.map (·.1)).count c

structure GO (s : St) (x : List Nat) : Prop where
  cnt : ∀ c, base s c + x.count c = s.handed.count c
  handedNodup : s.handed.Nodup
  idsNodup : (s.sent.map (·.1)).Nodup
  idsLe : ∀ p ∈ s.sent, p.1 ≤ s.nextId
  doneOff : s.done = true → s.offered = []
  droppedCtx : ∀ c ∈ s.dropped, c ∈ s.ctxDone
  srcNone : ∀ d ∈ s.delivered, d.src = none →
    d.res = .connErr ∨ (d.res = .fatal ∧ d.call ∈ s.unsendable)
  sentWrote : ∀ p ∈ s.sent, ∀ c, (c, p.1) ∈ s.wroteAs ↔ c ∈ p.2.calls
  wroteLe : ∀ p ∈ s.wroteAs, p.2 ≤ s.nextId
  dlvWrote : ∀ d ∈ s.delivered, ∀ id, d.src = some id → (d.call, id) ∈ s.wroteAs
  wroteOnce : ∀ c, s.offered.count c + written s c ≤ s.handed.count c
  unsFatal : ∀ c ∈ s.unsendable, Dlv.mk c .fatal none ∈ s.delivered

/-- appending deliveries for exactly the calls `y` taken from the carry -/
theorem go_deliver {s : St} {x y : List Nat} (ds : List Dlv) (h : GO s (y ++ x))
    (hcnt : ∀ c, dcount ds c = y.count c)
    (hnone : ∀ d ∈ ds, d.src = none → d.res = .connErr)
    (hsrc : ∀ d ∈ ds, ∀ id, d.src = some id → (d.call, id) ∈ s.wroteAs) :
    GO { s with delivered := s.delivered ++ ds } x where
  cnt c := by
    have := h.cnt c; have := hcnt c
    simp only [base, dcount_append, List.count_append] at *; omega
  handedNodup := h.handedNodup
  idsNodup := h.idsNodup
  idsLe := h.idsLe
  doneOff := h.doneOff
  droppedCtx := h.droppedCtx
  srcNone d hd := by
    rcases List.mem_append.1 hd with hd | hd
    · exact h.srcNone d hd
    · exact fun hn => Or.inl (hnone d hd hn)
  sentWrote := h.sentWrote
  wroteLe := h.wroteLe
  dlvWrote d hd := by
    rcases List.mem_append.1 hd with hd | hd
    · exact h.dlvWrote d hd
    · exact hsrc d hd
  wroteOnce := h.wroteOnce
  unsFatal c hc := List.mem_append_left _ (h.unsFatal c hc)

theorem go_deliverItem {s : St} {x : List Nat} (it : Item) (r : Res) (src : Option Nat)
    (h : GO s (it.calls ++ x)) (hnone : src = none → r = .connErr)
    (hsrc : ∀ id, src = some id → ∀ c ∈ it.calls, (c, id) ∈ s.wroteAs) :
    GO (deliverItem s it r src) x := by
  refine go_deliver _ h (fun c => dcount_map _ (fun _ => r) _ _) ?_ ?_
  · intro d hd hn
    obtain ⟨c, _, rfl⟩ := List.mem_map.1 hd
    exact hnone hn
  · intro d hd id hid
    obtain ⟨c, hc, rfl⟩ := List.mem_map.1 hd
    exact hsrc id hid c hc

theorem dcount_failDlv (s : St) (c : Nat) : dcount (failDlv s) c = occ s.sent c + s.offered.count c := by
  simp only [failDlv, dcount_append, dcount_flatMap]
  rw [dcount_map s.offered (fun _ => Res.connErr) none c]

theorem failDlv_none (s : St) : ∀ d ∈ failDlv s, d.src = none ∧ d.res = .connErr := by
  intro d hd
  simp only [failDlv, List.mem_append, List.mem_flatMap, List.mem_map] at hd
  rcases hd with ⟨p, _, c, _, rfl⟩ | ⟨c, _, rfl⟩ <;> exact ⟨rfl, rfl⟩

theorem go_failConn {s : St} {x : List Nat} (h : GO s x) : GO (failConn s) x := by
  rw [failConn_eq]
  split
  · exact h
  · exact {
      cnt := fun c => by
        have := h.cnt c; have := dcount_failDlv s c
        simp only [base, dcount_append, occ_nil, List.count_nil] at *; omega
      handedNodup := h.handedNodup
      idsNodup := List.nodup_nil
      idsLe := fun p hp => by cases hp
      doneOff := fun _ => rfl
      droppedCtx := h.droppedCtx
      srcNone := fun d hd hn => by
        rcases List.mem_append.1 hd with hd | hd
        · exact h.srcNone d hd hn
        · exact Or.inl (failDlv_none s d hd).2
      sentWrote := fun p hp => by cases hp
      wroteLe := h.wroteLe
      dlvWrote := fun d hd id hid => by
        rcases List.mem_append.1 hd with hd | hd
        · exact h.dlvWrote d hd id hid
        · have := (failDlv_none s d hd).1; rw [this] at hid; cases hid
      wroteOnce := fun c => by
        have := h.wroteOnce c
        simp only [written, List.count_nil] at *; omega
      unsFatal := fun c hc => List.mem_append_left _ (h.unsFatal c hc) }

theorem lookupSent_some {s : St} {id : Nat} {it : Item} (h : lookupSent s id = some it) :
    s.sent.find? (·.1 == id) = some (id, it) := by
  simp only [lookupSent, Option.map_eq_some_iff] at h
  obtain ⟨p, hp, rfl⟩ := h
  have := List.find?_some hp
  simp only [beq_iff_eq] at this
  rw [hp, ← this]

theorem lookupSent_mem {s : St} {id : Nat} {it : Item} (h : lookupSent s id = some it) :
    (id, it) ∈ s.sent := List.mem_of_find?_eq_some (lookupSent_some h)

theorem go_eraseSent {s : St} {x : List Nat} {id : Nat} {it : Item} (h : GO s x)
    (hl : lookupSent s id = some it) : GO (eraseSent s id) (it.calls ++ x) where
  cnt c := by
    have := h.cnt c
    have := occ_erase s.sent id (id, it) c h.idsNodup (lookupSent_some hl)
    simp only [base, eraseSent, List.count_append] at *; omega
  handedNodup := h.handedNodup
  idsNodup := (List.filter_sublist.map _).nodup h.idsNodup
  idsLe p hp := h.idsLe p (List.mem_filter.1 hp).1
  doneOff := h.doneOff
  droppedCtx := h.droppedCtx
  srcNone := h.srcNone
  sentWrote p hp := h.sentWrote p (List.mem_filter.1 hp).1
  wroteLe := h.wroteLe
  dlvWrote := h.dlvWrote
  wroteOnce := h.wroteOnce
  unsFatal := h.unsFatal

theorem go_sendFailed {s : St} {x : List Nat} (snd : Snd) (h : GO s x) : GO (sendFailed s snd) x := by
  simp only [sendFailed]
  split
  · rename_i it hl
    exact go_deliverItem it .connErr none (go_eraseSent (go_failConn h) hl) (fun _ => rfl)
      (fun id hid => by cases hid)
  · exact go_failConn h

theorem written_regSend (s : St) (w : Who) (it : Item) (c : Nat) :
    written (regSend s w it) c = written s c + it.calls.count c := by
  simp [written, regSend, List.map_append, List.count_append, Function.comp_def]

theorem go_regSend {s : St} {x : List Nat} (w : Who) (it : Item) (h : GO s (it.calls ++ x))
    (hfresh : ∀ c, s.offered.count c + written s c + it.calls.count c ≤ s.handed.count c) :
    GO (regSend s w it) x where
  cnt c := by
    have := h.cnt c
    simp only [base, regSend, occ_append, occ_single, List.count_append] at *; omega
  handedNodup := h.handedNodup
  idsNodup := by
    simp only [regSend, List.map_append, List.map_cons, List.map_nil]
    refine List.nodup_append.2 ⟨h.idsNodup, by simp, ?_⟩
    intro a ha b hb
    simp only [List.mem_singleton] at hb
    obtain ⟨p, hp, rfl⟩ := List.mem_map.1 ha
    have := h.idsLe p hp
    omega
  idsLe p hp := by
    simp only [regSend, List.mem_append, List.mem_singleton] at hp ⊢
    rcases hp with hp | rfl
    · have := h.idsLe p hp; omega
    · exact Nat.le_refl _
  doneOff := h.doneOff
  droppedCtx := h.droppedCtx
  srcNone := h.srcNone
  sentWrote p hp c := by
    simp only [regSend, List.mem_append, List.mem_singleton, List.mem_map] at hp ⊢
    rcases hp with hp | rfl
    · have hle := h.idsLe p hp
      rw [← h.sentWrote p hp c]
      constructor
      · rintro (h1 | ⟨a, _, h2⟩)
        · exact h1
        · injection h2 with _ h3; omega
      · exact Or.inl
    · constructor
      · rintro (h1 | ⟨a, ha, h2⟩)
        · exact absurd (h.wroteLe _ h1) (Nat.not_succ_le_self _)
        · injection h2 with h3 _; exact h3 ▸ ha
      · intro hc; exact Or.inr ⟨c, hc, rfl⟩
  wroteLe p hp := by
    simp only [regSend, List.mem_append, List.mem_map] at hp ⊢
    rcases hp with hp | ⟨a, _, rfl⟩
    · have := h.wroteLe p hp; omega
    · exact Nat.le_refl _
  dlvWrote d hd' id hid := List.mem_append_left _ (h.dlvWrote d hd' id hid)
  wroteOnce c := by
    have := hfresh c
    rw [written_regSend]
    simp only [regSend] at *; omega
  unsFatal := h.unsFatal

theorem go_senderAddN {s : St} {x : List Nat} (n : Nat) (w : Who) (h : GO s x) :
    GO (senderAddN s n w) x :=
  ⟨h.cnt, h.handedNodup, h.idsNodup, h.idsLe, h.doneOff, h.droppedCtx,
      h.srcNone, h.sentWrote, h.wroteLe, h.dlvWrote, h.wroteOnce, h.unsFatal⟩

theorem go_senderAdd {s : St} {x : List Nat} (w : Who) (h : GO s x) : GO (senderAdd s w) x := by
  rw [senderAdd_eq]; exact go_senderAddN _ _ h

theorem go_startSend {s : St} {x : List Nat} (w : Who) (it : Item) (h : GO s (it.calls ++ x))
    (hfresh : ∀ c, s.offered.count c + written s c + it.calls.count c ≤ s.handed.count c) :
    GO (startSend s w it) x := by
  have h1 := go_regSend w it h hfresh
  rw [startSend_eq]
  split
  · exact ⟨h1.cnt, h1.handedNodup, h1.idsNodup, h1.idsLe, h1.doneOff, h1.droppedCtx,
      h1.srcNone, h1.sentWrote, h1.wroteLe, h1.dlvWrote, h1.wroteOnce, h1.unsFatal⟩
  · exact go_senderAddN _ _ h1

theorem go_wlS1 {s : St} {x : List Nat} (h : GO s x) (hnd : s.done = false) :
    GO (wlS1 s) (wlLive s ++ x) where
  cnt c := by
    have := h.cnt c
    have := count_take_drop s.offered s.queueSize c
    have := count_filter_add (s.offered.take s.queueSize) (fun c => s.ctxDone.contains c) c
    simp only [base, wlS1, wlLive, List.count_append] at *; omega
  handedNodup := h.handedNodup
  idsNodup := h.idsNodup
  idsLe := h.idsLe
  doneOff hd := by
    have hd' : s.done = true := hd
    rw [hd'] at hnd; cases hnd
  droppedCtx c hc := by
    rcases List.mem_append.1 hc with hc | hc
    · exact h.droppedCtx c hc
    · show c ∈ s.ctxDone
      simpa using (List.mem_filter.1 hc).2
  srcNone := h.srcNone
  sentWrote := h.sentWrote
  wroteLe := h.wroteLe
  dlvWrote := h.dlvWrote
  wroteOnce c := by
    have := h.wroteOnce c
    have := count_take_drop s.offered s.queueSize c
    simp only [written, wlS1] at *; omega
  unsFatal := h.unsFatal

theorem go_wlPoison {s : St} {x : List Nat} (h : GO s x) (hnd : s.done = false) :
    GO (wlPoison s) x := by
  have h1 := go_wlS1 h hnd
  exact {
    cnt := fun c => by
      have := h1.cnt c
      have := dcount_map (wlLive s) (fun _ => Res.fatal) none c
      simp only [base, wlPoison, wlS1, dcount_append, List.count_append] at *; omega
    handedNodup := h1.handedNodup
    idsNodup := h1.idsNodup
    idsLe := fun p hp => Nat.le_succ_of_le (h.idsLe p hp)
    doneOff := h1.doneOff
    droppedCtx := h1.droppedCtx
    srcNone := fun d hd hn => by
      rcases List.mem_append.1 hd with hd | hd
      · rcases h.srcNone d hd hn with h2 | h2
        · exact Or.inl h2
        · exact Or.inr ⟨h2.1, List.mem_append_left _ h2.2⟩
      · obtain ⟨c, hc, rfl⟩ := List.mem_map.1 hd
        exact Or.inr ⟨rfl, List.mem_append_right _ hc⟩
    sentWrote := h1.sentWrote
    wroteLe := fun p hp => Nat.le_succ_of_le (h.wroteLe p hp)
    dlvWrote := fun d hd id hid => by
      rcases List.mem_append.1 hd with hd | hd
      · exact h.dlvWrote d hd id hid
      · obtain ⟨c, _, rfl⟩ := List.mem_map.1 hd; cases hid
    wroteOnce := h1.wroteOnce
    unsFatal := fun c hc => by
      rcases List.mem_append.1 hc with hc | hc
      · exact List.mem_append_left _ (h.unsFatal c hc)
      · exact List.mem_append_right _ (List.mem_map.2 ⟨c, hc, rfl⟩) }

theorem go_writerLoop {s : St} {x : List Nat} (h : GO s x) : GO (writerLoop s) x := by
  refine writerLoop_ind (Q := fun s' => GO s' x) s h ?_ ?_ ?_
  · intro s' h
    exact ⟨h.cnt, h.handedNodup, h.idsNodup, h.idsLe, h.doneOff, h.droppedCtx, h.srcNone,
        h.sentWrote, h.wroteLe, h.dlvWrote, h.wroteOnce, h.unsFatal⟩
  · intro s' h _ hnd; exact go_wlPoison h hnd
  · intro s' h _ hnd
    have h1 := go_wlS1 h hnd
    refine go_startSend _ _ ⟨h1.cnt, h1.handedNodup, h1.idsNodup, h1.idsLe, h1.doneOff, h1.droppedCtx,
      h1.srcNone, h1.sentWrote, h1.wroteLe, h1.dlvWrote, h1.wroteOnce, h1.unsFatal⟩ ?_
    intro c
    have := h.wroteOnce c
    have := count_take_drop s'.offered s'.queueSize c
    have := count_filter_add (s'.offered.take s'.queueSize) (fun c => s'.ctxDone.contains c) c
    simp only [written, Item.calls, wlLive, wlS1] at *; omega

theorem go_finishSend {s : St} {x : List Nat} (w : Who) (h : GO s x) : GO (finishSend s w) x := by
  simp only [finishSend]
  split
  · exact go_writerLoop ⟨h.cnt, h.handedNodup, h.idsNodup, h.idsLe, h.doneOff, h.droppedCtx,
      h.srcNone, h.sentWrote, h.wroteLe, h.dlvWrote, h.wroteOnce, h.unsFatal⟩
  · exact ⟨h.cnt, h.handedNodup, h.idsNodup, h.idsLe, h.doneOff, h.droppedCtx,
      h.srcNone, h.sentWrote, h.wroteLe, h.dlvWrote, h.wroteOnce, h.unsFatal⟩

theorem go_setPhase {s : St} {x : List Nat} (w : Who) (p : Phase) (h : GO s x) :
    GO (setPhase s w p) x :=
  ⟨h.cnt, h.handedNodup, h.idsNodup, h.idsLe, h.doneOff, h.droppedCtx,
      h.srcNone, h.sentWrote, h.wroteLe, h.dlvWrote, h.wroteOnce, h.unsFatal⟩

theorem go_releaseWriteM {s : St} {x : List Nat} (h : GO s x) : GO (releaseWriteM s) x := by
  simp only [releaseWriteM]
  split <;> exact ⟨h.cnt, h.handedNodup, h.idsNodup, h.idsLe, h.doneOff, h.droppedCtx,
      h.srcNone, h.sentWrote, h.wroteLe, h.dlvWrote, h.wroteOnce, h.unsFatal⟩

theorem go_senderAtM {s : St} {x : List Nat} (w : Who) (h : GO s x) : GO (senderAtM s w) x := by
  simp only [senderAtM]
  split
  · exact go_finishSend w h
  · exact go_setPhase w _ h

theorem go_finishFrame {s : St} {x : List Nat} {id : Nat} {it : Item} {f : Frame}
    (h : GO s (it.calls ++ x)) (hf : f ≠ .badHeader) (hw : ∀ c ∈ it.calls, (c, id) ∈ s.wroteAs) :
    GO (finishFrame s id it f) x := by
  have hdl : GO { s with delivered := s.delivered ++ frameDlv id it f } x := by
    refine go_deliver _ h (fun c => dcount_frameDlv id it f c hf) ?_ ?_
    · intro d hd hn
      rw [(frameDlv_src id it f d hd).1] at hn; cases hn
    · intro d hd id' hid
      have := frameDlv_src id it f d hd
      rw [this.1] at hid; injection hid with hid
      exact hid ▸ hw _ this.2
  rw [finishFrame_eq]
  split
  · rename_i hc
    exact {
      cnt := fun c => by
        have := h.cnt c
        simp only [base, List.count_append] at *; omega
      handedNodup := h.handedNodup
      idsNodup := h.idsNodup
      idsLe := h.idsLe
      doneOff := h.doneOff
      droppedCtx := fun c hc' => by
        rcases List.mem_append.1 hc' with hc' | hc'
        · exact h.droppedCtx c hc'
        · cases it with
          | single a =>
            simp only [Item.calls, List.mem_singleton] at hc'
            subst hc'
            simpa [ctxEnded] using hc
          | multi _ => simp [ctxEnded] at hc
      srcNone := h.srcNone
      sentWrote := h.sentWrote
      wroteLe := h.wroteLe
      dlvWrote := h.dlvWrote
      wroteOnce := h.wroteOnce
      unsFatal := h.unsFatal }
  · first | rw [if_neg hf] | skip
    · split
      · have h2 := go_failConn (s := { s with delivered := s.delivered ++ frameDlv id it f, reader := .exited })
          (x := x) ⟨hdl.cnt, hdl.handedNodup, hdl.idsNodup, hdl.idsLe, hdl.doneOff, hdl.droppedCtx,
            hdl.srcNone, hdl.sentWrote, hdl.wroteLe, hdl.dlvWrote, hdl.wroteOnce, hdl.unsFatal⟩
        exact ⟨h2.cnt, h2.handedNodup, h2.idsNodup, h2.idsLe, h2.doneOff, h2.droppedCtx,
          h2.srcNone, h2.sentWrote, h2.wroteLe, h2.dlvWrote, h2.wroteOnce, h2.unsFatal⟩
      · exact ⟨hdl.cnt, hdl.handedNodup, hdl.idsNodup, hdl.idsLe, hdl.doneOff, hdl.droppedCtx,
          hdl.srcNone, hdl.sentWrote, hdl.wroteLe, hdl.dlvWrote, hdl.wroteOnce, hdl.unsFatal⟩

/-! ## §4 the reader's hand; per-action preservation; induction over `run` -/

/-- re-pack a `GO` for a state that differs only in fields `GO` does not mention -/
macro "go_repack " h:term : term =>
  `(⟨($h).cnt, ($h).handedNodup, ($h).idsNodup, ($h).idsLe, ($h).doneOff, ($h).droppedCtx,
     ($h).srcNone, ($h).sentWrote, ($h).wroteLe, ($h).dlvWrote, ($h).wroteOnce, ($h).unsFatal⟩)

/-- The ownership/correlation invariant of a state at rest (between two actions). -/
structure GR (s : St) : Prop where
  go : GO s s.reader.calls
  held : ∀ id it f, s.reader.held = some (id, it, f) →
    f ≠ .badHeader ∧ ∀ c ∈ it.calls, (c, id) ∈ s.wroteAs

theorem gr_neutral {s s' : St} (h : GR s) (hgo : GO s' s.reader.calls)
    (hr : s'.reader.held = s.reader.held) (hw : ∀ p ∈ s.wroteAs, p ∈ s'.wroteAs) : GR s' where
  go := by rw [Reader.calls_congr hr]; exact hgo
  held id it f hh := by
    rw [hr] at hh
    exact ⟨(h.held id it f hh).1, fun c hc => hw _ ((h.held id it f hh).2 c hc)⟩

theorem gr_of_nil {s : St} (h : GO s []) (hr : s.reader.held = none) : GR s where
  go := by rw [Reader.calls_of_none hr]; exact h
  held id it f hh := by rw [hr] at hh; cases hh

/-! reader field under the helpers that do not concern the reader -/

theorem held_failConn (s : St) : (failConn s).reader.held = s.reader.held := by
  rw [failConn_eq]
  split
  · rfl
  · show (if s.reader = .reading then Reader.exited else s.reader).held = _
    split
    · rename_i h; rw [h]; rfl
    · rfl

theorem held_sendFailed (s : St) (snd : Snd) : (sendFailed s snd).reader.held = s.reader.held := by
  simp only [sendFailed]
  split
  · exact held_failConn s
  · exact held_failConn s

theorem reader_senderAdd (s : St) (w : Who) : (senderAdd s w).reader = s.reader := rfl

theorem reader_startSend (s : St) (w : Who) (it : Item) : (startSend s w it).reader = s.reader := by
  rw [startSend_eq]
  split <;> rfl

theorem reader_writerLoop (s : St) : (writerLoop s).reader = s.reader := by
  refine writerLoop_ind (Q := fun s' => s'.reader = s.reader) s rfl ?_ ?_ ?_
  · intro s' h; exact h
  · intro s' h _ _; exact h
  · intro s' h _ _; rw [wlSend, reader_startSend]; exact h

theorem reader_finishSend (s : St) (w : Who) : (finishSend s w).reader = s.reader := by
  simp only [finishSend]
  split
  · exact reader_writerLoop _
  · rfl

theorem reader_releaseWriteM (s : St) : (releaseWriteM s).reader = s.reader := by
  simp only [releaseWriteM]
  split <;> rfl

theorem reader_setPhase (s : St) (w : Who) (p : Phase) : (setPhase s w p).reader = s.reader := rfl

theorem reader_senderAtM (s : St) (w : Who) : (senderAtM s w).reader = s.reader := by
  simp only [senderAtM]
  split
  · exact reader_finishSend s w
  · rfl

theorem held_finishFrame (s : St) (id : Nat) (it : Item) (f : Frame) (hf : f ≠ .badHeader) :
    (finishFrame s id it f).reader.held = none := by
  have hn : (readerNext s).held = none := by
    simp only [readerNext]; split <;> rfl
  rw [finishFrame_eq]
  split
  · exact hn
  · first | rw [if_neg hf] | skip
    · split
      · rfl
      · exact hn

/-! GR under the neutral helpers -/

theorem gr_failConn {s : St} (h : GR s) : GR (failConn s) :=
  gr_neutral h (go_failConn h.go) (held_failConn s) (ext_failConn s).wrote

theorem gr_sendFailed {s : St} (snd : Snd) (h : GR s) : GR (sendFailed s snd) :=
  gr_neutral h (go_sendFailed snd h.go) (held_sendFailed s snd) (ext_sendFailed s snd).wrote

theorem gr_finishSend {s : St} (w : Who) (h : GR s) : GR (finishSend s w) :=
  gr_neutral h (go_finishSend w h.go) (by rw [reader_finishSend]) (ext_finishSend s w).wrote

theorem gr_releaseWriteM {s : St} (h : GR s) : GR (releaseWriteM s) :=
  gr_neutral h (go_releaseWriteM h.go) (by rw [reader_releaseWriteM]) (ext_releaseWriteM s).wrote

theorem gr_setPhase {s : St} (w : Who) (p : Phase) (h : GR s) : GR (setPhase s w p) :=
  gr_neutral h (go_setPhase w p h.go) rfl (fun _ hp => hp)

theorem gr_senderAtM {s : St} (w : Who) (h : GR s) : GR (senderAtM s w) :=
  gr_neutral h (go_senderAtM w h.go) (by rw [reader_senderAtM]) (ext_senderAtM s w).wrote

theorem gr_senderAdd {s : St} (w : Who) (h : GR s) : GR (senderAdd s w) :=
  gr_neutral h (go_senderAdd w h.go) rfl (fun _ hp => hp)

theorem gr_writerLoop {s : St} (h : GR s) : GR (writerLoop s) :=
  gr_neutral h (go_writerLoop h.go) (by rw [reader_writerLoop]) (ext_writerLoop s).wrote

/-- the reader, holding `it` (counted in the carry), gets `inFlightM` -/
theorem gr_readerAtN {s : St} {id : Nat} {it : Item} {f : Frame} (h : GO s it.calls)
    (hf : f ≠ .badHeader) (hw : ∀ c ∈ it.calls, (c, id) ∈ s.wroteAs) (n : Nat) :
    GR (readerAtN s n id it f) := by
  simp only [readerAtN]
  split
  · exact ⟨go_repack h, fun id' it' f' hh => by
      injection hh with hh; injection hh with h1 h2; injection h2 with h2 h3
      subst h1; subst h2; subst h3; exact ⟨hf, hw⟩⟩
  · refine gr_of_nil (go_finishFrame (x := []) ?_ hf hw) (held_finishFrame _ _ _ _ hf)
    rw [List.append_nil]; exact go_repack h

theorem gr_readerAtM {s : St} {id : Nat} {it : Item} {f : Frame} (h : GO s it.calls)
    (hf : f ≠ .badHeader) (hw : ∀ c ∈ it.calls, (c, id) ∈ s.wroteAs) :
    GR (readerAtM s id it f) := by
  rw [readerAtM_eq]
  exact gr_readerAtN h hf hw _

theorem gr_wakeM (n : Nat) {s : St} (h : GR s) : GR (wakeM n s) := by
  induction n generalizing s with
  | zero => exact h
  | succ n ih =>
    simp only [wakeM]
    split
    · exact h
    · split
      · exact h
      · split
        · split
          · exact ih (gr_senderAdd _ ⟨go_repack h.go, h.held⟩)
          · split
            · exact ih (gr_senderAtM _ ⟨go_repack h.go, h.held⟩)
            · exact ih ⟨go_repack h.go, h.held⟩
        · exact ih ⟨go_repack h.go, h.held⟩
      · split
        · rename_i id it f hr
          have hh : s.reader.held = some (id, it, f) := by rw [hr]; rfl
          have hc := Reader.calls_of_some hh
          refine ih (gr_readerAtM ?_ (h.held _ _ _ hh).1 (h.held _ _ _ hh).2)
          have := h.go; rw [hc] at this; exact go_repack this
        · exact ih ⟨go_repack h.go, h.held⟩

theorem gr_releaseM {s : St} (h : GR s) : GR (releaseM s) := gr_wakeM _ h

/-! ### per-action preservation of `GR` -/

theorem count_not_mem {l : List Nat} {c : Nat} (h : c ∉ l) : l.count c = 0 :=
  List.count_eq_zero.2 h

/-- a new call is handed to the connection: it is in the caller's hand -/
theorem go_hand {s : St} {x : List Nat} {c : Nat} (h : GO s x) (hc : c ∉ s.handed) :
    GO { s with handed := s.handed ++ [c] } (c :: x) where
  cnt c' := by
    have := h.cnt c'
    simp only [base, List.count_append, List.count_cons, List.count_nil] at *; omega
  handedNodup := by
    refine List.nodup_append.2 ⟨h.handedNodup, by simp, ?_⟩
    intro a ha b hb
    simp only [List.mem_singleton] at hb
    subst hb
    intro e; subst e; exact hc ha
  idsNodup := h.idsNodup
  idsLe := h.idsLe
  doneOff := h.doneOff
  droppedCtx := h.droppedCtx
  srcNone := h.srcNone
  sentWrote := h.sentWrote
  wroteLe := h.wroteLe
  dlvWrote := h.dlvWrote
  wroteOnce c' := by
    have := h.wroteOnce c'
    simp only [written, List.count_append] at *; omega
  unsFatal := h.unsFatal

theorem go_fresh {s : St} {x : List Nat} {c : Nat} (h : GO s x) (hc : c ∉ s.handed) :
    s.offered.count c = 0 ∧ written s c = 0 := by
  have := h.wroteOnce c
  rw [count_not_mem hc] at this
  omega

theorem gr_queueBatched {s s' : St} {c : Nat} (h : GR s) (hs : step s (.queueBatched c) = some s') :
    GR s' := by
  simp only [step] at hs
  split at hs
  · cases hs
  · rename_i hc
    have hc : c ∉ s.handed := by simpa using hc
    have hfr := go_fresh h.go hc
    have h1 := go_hand h.go hc
    split at hs
    · cases hs
    · split at hs
      · injection hs with hs; subst hs
        refine gr_neutral h ?_ rfl (fun _ hp => hp)
        refine go_deliver (y := [c]) _ h1 (fun c' => dcount_singleton _ _ _ _) ?_ ?_
        · intro d hd _; simp only [List.mem_singleton] at hd; subst hd; rfl
        · intro d hd id hid; simp only [List.mem_singleton] at hd; subst hd; cases hid
      · rename_i hnd
        injection hs with hs; subst hs
        refine gr_neutral h (go_writerLoop ?_) (by rw [reader_writerLoop])
          (fun p hp => (ext_writerLoop _).wrote p hp)
        exact {
          cnt := fun c' => by
            have := h1.cnt c'
            simp only [base, List.count_append, List.count_cons, List.count_nil] at *; omega
          handedNodup := h1.handedNodup
          idsNodup := h1.idsNodup
          idsLe := h1.idsLe
          doneOff := fun hd => by
            have hd' : s.done = true := hd
            exact absurd hd' hnd
          droppedCtx := h1.droppedCtx
          srcNone := h1.srcNone
          sentWrote := h1.sentWrote
          wroteLe := h1.wroteLe
          dlvWrote := h1.dlvWrote
          wroteOnce := fun c' => by
            have := h.go.wroteOnce c'
            simp only [written, List.count_append, List.count_cons, List.count_nil] at *
            by_cases e : c = c'
            · subst e; simp; omega
            · simp [e]; omega
          unsFatal := h1.unsFatal }

theorem gr_queueBatchedUnsendable {s s' : St} {c : Nat} (h : GR s) (hs : step s (.queueBatchedUnsendable c) = some s') :
    GR s' := by
  simp only [step] at hs
  split at hs
  · cases hs
  · rename_i hc
    have hc : c ∉ s.handed := by simpa using hc
    have hfr := go_fresh h.go hc
    have h1 := go_hand h.go hc
    split at hs
    · cases hs
    · split at hs
      · injection hs with hs; subst hs
        refine gr_neutral h ?_ rfl (fun _ hp => hp)
        refine go_deliver (y := [c]) _ h1 (fun c' => dcount_singleton _ _ _ _) ?_ ?_
        · intro d hd _; simp only [List.mem_singleton] at hd; subst hd; rfl
        · intro d hd id hid; simp only [List.mem_singleton] at hd; subst hd; cases hid
      · rename_i hnd
        injection hs with hs; subst hs
        refine gr_neutral h (go_writerLoop ?_) (by rw [reader_writerLoop])
          (fun p hp => (ext_writerLoop _).wrote p hp)
        exact {
          cnt := fun c' => by
            have := h1.cnt c'
            simp only [base, List.count_append, List.count_cons, List.count_nil] at *; omega
          handedNodup := h1.handedNodup
          idsNodup := h1.idsNodup
          idsLe := h1.idsLe
          doneOff := fun hd => by
            have hd' : s.done = true := hd
            exact absurd hd' hnd
          droppedCtx := h1.droppedCtx
          srcNone := h1.srcNone
          sentWrote := h1.sentWrote
          wroteLe := h1.wroteLe
          dlvWrote := h1.dlvWrote
          wroteOnce := fun c' => by
            have := h.go.wroteOnce c'
            simp only [written, List.count_append, List.count_cons, List.count_nil] at *
            by_cases e : c = c'
            · subst e; simp; omega
            · simp [e]; omega
          unsFatal := h1.unsFatal }

theorem gr_queueDirect {s s' : St} {c : Nat} (h : GR s) (hs : step s (.queueDirect c) = some s') :
    GR s' := by
  simp only [step] at hs
  split at hs
  · cases hs
  · rename_i hc
    have hc : c ∉ s.handed := by simpa using hc
    have hfr := go_fresh h.go hc
    have h1 := go_hand h.go hc
    split at hs
    · rename_i hctx
      split at hs
      · cases hs
      · injection hs with hs; subst hs
        refine gr_neutral h ?_ rfl (fun _ hp => hp)
        exact {
          cnt := fun c' => by
            have := h1.cnt c'
            simp only [base, List.count_append, List.count_cons, List.count_nil] at *; omega
          handedNodup := h1.handedNodup
          idsNodup := h1.idsNodup
          idsLe := h1.idsLe
          doneOff := h1.doneOff
          droppedCtx := fun c' hc' => by
            rcases List.mem_append.1 hc' with hc' | hc'
            · exact h.go.droppedCtx c' hc'
            · simp only [List.mem_singleton] at hc'; subst hc'; simpa using hctx
          srcNone := h1.srcNone
          sentWrote := h1.sentWrote
          wroteLe := h1.wroteLe
          dlvWrote := h1.dlvWrote
          wroteOnce := h1.wroteOnce
          unsFatal := h1.unsFatal }
    · split at hs
      · injection hs with hs; subst hs
        refine gr_neutral h ?_ rfl (fun _ hp => hp)
        refine go_deliver (y := [c]) _ h1 (fun c' => dcount_singleton _ _ _ _) ?_ ?_
        · intro d hd _; simp only [List.mem_singleton] at hd; subst hd; rfl
        · intro d hd id hid; simp only [List.mem_singleton] at hd; subst hd; cases hid
      · rename_i hnd
        injection hs with hs; subst hs
        refine gr_neutral h (go_startSend _ _ h1 ?_)
          (by rw [reader_startSend]) (fun p hp => (ext_startSend _ _ _).wrote p hp)
        intro c'
        have := h.go.wroteOnce c'
        simp only [written, Item.calls, List.count_append, List.count_cons, List.count_nil] at *
        by_cases e : c = c'
        · subst e; simp; omega
        · simp [e]; omega

theorem fresh_failConn {s : St} {k : Nat → Nat}
    (h : ∀ c, s.offered.count c + written s c + k c ≤ s.handed.count c) :
    ∀ c, (failConn s).offered.count c + written (failConn s) c + k c ≤ (failConn s).handed.count c := by
  rw [failConn_eq]
  split
  · exact h
  · intro c
    have := h c
    show ([] : List Nat).count c + written s c + k c ≤ s.handed.count c
    simp only [List.count_nil]; omega

/-- the call is registered after an external `Close()` has run to completion -/
theorem gr_queueDirectClosing {s s' : St} {c : Nat} (h : GR s)
    (hs : step s (.queueDirectClosing c) = some s') : GR s' := by
  simp only [step] at hs
  split at hs
  · cases hs
  · rename_i hc
    have hc : c ∉ s.handed := by simpa using hc
    have hfr := go_fresh h.go hc
    have h1 := go_hand h.go hc
    split at hs
    · rename_i hctx
      split at hs
      · cases hs
      · injection hs with hs; subst hs
        refine gr_neutral h ?_ rfl (fun _ hp => hp)
        exact {
          cnt := fun c' => by
            have := h1.cnt c'
            simp only [base, List.count_append, List.count_cons, List.count_nil] at *; omega
          handedNodup := h1.handedNodup
          idsNodup := h1.idsNodup
          idsLe := h1.idsLe
          doneOff := h1.doneOff
          droppedCtx := fun c' hc' => by
            rcases List.mem_append.1 hc' with hc' | hc'
            · exact h.go.droppedCtx c' hc'
            · simp only [List.mem_singleton] at hc'; subst hc'; simpa using hctx
          srcNone := h1.srcNone
          sentWrote := h1.sentWrote
          wroteLe := h1.wroteLe
          dlvWrote := h1.dlvWrote
          wroteOnce := h1.wroteOnce
          unsFatal := h1.unsFatal }
    · split at hs
      · injection hs with hs; subst hs
        refine gr_neutral h ?_ rfl (fun _ hp => hp)
        refine go_deliver (y := [c]) _ h1 (fun c' => dcount_singleton _ _ _ _) ?_ ?_
        · intro d hd _; simp only [List.mem_singleton] at hd; subst hd; rfl
        · intro d hd id hid; simp only [List.mem_singleton] at hd; subst hd; cases hid
      · injection hs with hs; subst hs
        refine gr_neutral h (go_startSend _ _ (go_failConn h1) (fresh_failConn ?_))
          (by rw [reader_startSend]; exact held_failConn _)
          (fun p hp => ((ext_failConn _).trans (ext_startSend _ _ _)).wrote p hp)
        intro c'
        have := h.go.wroteOnce c'
        simp only [written, Item.calls, List.count_append, List.count_cons, List.count_nil] at *
        by_cases e : c = c'
        · subst e; simp; omega
        · simp [e]; omega

theorem gr_queueUnsendable {s s' : St} {c : Nat} (h : GR s)
    (hs : step s (.queueUnsendable c) = some s') : GR s' := by
  simp only [step] at hs
  split at hs
  · cases hs
  · rename_i hc
    have hc : c ∉ s.handed := by simpa using hc
    have h1 := go_hand h.go hc
    split at hs
    · rename_i hctx
      split at hs
      · cases hs
      · injection hs with hs; subst hs
        refine gr_neutral h ?_ rfl (fun _ hp => hp)
        exact {
          cnt := fun c' => by
            have := h1.cnt c'
            simp only [base, List.count_append, List.count_cons, List.count_nil] at *; omega
          handedNodup := h1.handedNodup
          idsNodup := h1.idsNodup
          idsLe := h1.idsLe
          doneOff := h1.doneOff
          droppedCtx := fun c' hc' => by
            rcases List.mem_append.1 hc' with hc' | hc'
            · exact h.go.droppedCtx c' hc'
            · simp only [List.mem_singleton] at hc'; subst hc'; simpa using hctx
          srcNone := h1.srcNone
          sentWrote := h1.sentWrote
          wroteLe := h1.wroteLe
          dlvWrote := h1.dlvWrote
          wroteOnce := h1.wroteOnce
          unsFatal := h1.unsFatal }
    · split at hs
      · injection hs with hs; subst hs
        refine gr_neutral h ?_ rfl (fun _ hp => hp)
        refine go_deliver (y := [c]) _ h1 (fun c' => dcount_singleton _ _ _ _) ?_ ?_
        · intro d hd _; simp only [List.mem_singleton] at hd; subst hd; rfl
        · intro d hd id hid; simp only [List.mem_singleton] at hd; subst hd; cases hid
      · injection hs with hs; subst hs
        refine gr_neutral h ?_ rfl (fun _ hp => hp)
        exact {
          cnt := fun c' => by
            have := h1.cnt c'
            have := dcount_singleton c Res.fatal none c'
            simp only [base, dcount_append, List.count_append, List.count_cons, List.count_nil] at *
            omega
          handedNodup := h1.handedNodup
          idsNodup := h1.idsNodup
          idsLe := fun p hp => Nat.le_succ_of_le (h.go.idsLe p hp)
          doneOff := h1.doneOff
          droppedCtx := h1.droppedCtx
          srcNone := fun d hd hn => by
            rcases List.mem_append.1 hd with hd | hd
            · rcases h.go.srcNone d hd hn with h2 | h2
              · exact Or.inl h2
              · exact Or.inr ⟨h2.1, List.mem_append_left _ h2.2⟩
            · simp only [List.mem_singleton] at hd; subst hd
              exact Or.inr ⟨rfl, List.mem_append_right _ (List.mem_singleton.2 rfl)⟩
          sentWrote := h1.sentWrote
          wroteLe := fun p hp => Nat.le_succ_of_le (h.go.wroteLe p hp)
          dlvWrote := fun d hd id hid => by
            rcases List.mem_append.1 hd with hd | hd
            · exact h.go.dlvWrote d hd id hid
            · simp only [List.mem_singleton] at hd; subst hd; cases hid
          wroteOnce := h1.wroteOnce
          unsFatal := fun c' hc' => by
            rcases List.mem_append.1 hc' with hc' | hc'
            · exact List.mem_append_left _ (h.go.unsFatal c' hc')
            · simp only [List.mem_singleton] at hc'; subst hc'
              exact List.mem_append_right _ (List.mem_singleton.2 rfl) }

theorem gr_cancel {s s' : St} {c : Nat} (h : GR s) (hs : step s (.cancel c) = some s') : GR s' := by
  simp only [step] at hs
  split at hs
  · cases hs
  · injection hs with hs; subst hs
    refine gr_neutral h ?_ rfl (fun _ hp => hp)
    have hle : s.offered.count c ≤ 1 := by
      have := h.go.wroteOnce c
      have := List.nodup_iff_count.1 h.go.handedNodup c
      omega
    exact {
      cnt := fun c' => by
        have := h.go.cnt c'
        by_cases e : c' = c
        · subst e
          have h0 := count_filter_self s.offered c'
          by_cases hm : s.offered.contains c' = true
          · have : 0 < s.offered.count c' := List.count_pos_iff.2 (by simpa using hm)
            simp only [base, hm, if_true, List.count_append, List.count_cons, List.count_nil, h0] at *
            simp; omega
          · have : s.offered.count c' = 0 := count_not_mem (by simpa using hm)
            simp only [base, hm, Bool.false_eq_true, if_false, h0] at *; omega
        · have h0 := count_filter_ne s.offered c c' e
          have e' : ¬ c = c' := fun h => e h.symm
          by_cases hm : s.offered.contains c = true
          · simp only [base, hm, if_true, List.count_append, List.count_cons, List.count_nil, h0] at *
            simp [e']; omega
          · simp only [base, hm, Bool.false_eq_true, if_false, h0] at *; omega
      handedNodup := h.go.handedNodup
      idsNodup := h.go.idsNodup
      idsLe := h.go.idsLe
      doneOff := fun hd => by
        have := h.go.doneOff hd
        show s.offered.filter _ = []
        rw [this]; rfl
      droppedCtx := fun c' hc' => by
        apply List.mem_append.2
        by_cases hm : s.offered.contains c = true
        · simp only [hm, if_true] at hc'
          rcases List.mem_append.1 hc' with hc' | hc'
          · exact Or.inl (h.go.droppedCtx c' hc')
          · exact Or.inr hc'
        · simp only [hm, Bool.false_eq_true, if_false] at hc'
          exact Or.inl (h.go.droppedCtx c' hc')
      srcNone := h.go.srcNone
      sentWrote := h.go.sentWrote
      wroteLe := h.go.wroteLe
      dlvWrote := h.go.dlvWrote
      wroteOnce := fun c' => by
        have := h.go.wroteOnce c'
        have : (s.offered.filter (· != c)).count c' ≤ s.offered.count c' :=
          List.Sublist.count_le _ List.filter_sublist
        simp only [written] at *; omega
      unsFatal := h.go.unsFatal }

/-- fields of no concern to `GR` may be set freely (here: mWait, armed) -/
theorem gr_irr {s : St} (h : GR s) (mw : List MW) (a : Bool) :
    GR { s with mWait := mw, armed := a } := ⟨go_repack h.go, h.held⟩

theorem gr_write {s s' : St} {w : Who} {last : Bool} {r : IO} (h : GR s)
    (hs : step s (.write w last r) = some s') : GR s' := by
  have henv := (envOK_write hs).1
  have hs := (envOK_write hs).2
  simp only [writeCore] at hs
  split at hs
  · cases hs
  · rename_i snd _
    split at hs
    · injection hs with hs; subst hs
      exact gr_finishSend _ (gr_sendFailed _ (gr_releaseWriteM h))
    · split at hs
      · injection hs with hs; subst hs; exact h
      · split at hs
        · injection hs with hs; subst hs
          have := gr_setPhase w .armWait (gr_releaseWriteM h)
          exact ⟨go_repack this.go, this.held⟩
        · injection hs with hs; subst hs
          exact gr_senderAtM _ (gr_releaseWriteM h)

theorem gr_arm {s s' : St} {w : Who} {r : IO} (h : GR s)
    (hs : step s (.arm w r) = some s') : GR s' := by
  have henv := (envOK_arm hs).1
  have hs := (envOK_arm hs).2
  simp only [armCore] at hs
  split at hs
  · cases hs
  · split at hs
    · injection hs with hs; subst hs
      exact gr_releaseM (gr_finishSend _ ⟨go_repack h.go, h.held⟩)
    · injection hs with hs; subst hs
      exact gr_releaseM (gr_finishSend _ (gr_sendFailed _ h))

/-- the reader fails the connection and exits (bad header, unexpected id, read error, timeout) -/
theorem gr_readerFails {s : St} (h : GR s) (hr : s.reader = .reading) :
    GR { failConn { s with reader := .exited } with reader := .exited } := by
  have h0 : GO s [] := by
    have := h.go; rw [hr] at this; exact this
  have h1 : GO { s with reader := Reader.exited } [] := go_repack h0
  have h2 := go_failConn h1
  exact gr_of_nil (go_repack h2) rfl

theorem gr_read {s s' : St} {id : Nat} {f : Frame} (h : GR s)
    (hs : step s (.read id f) = some s') : GR s' := by
  simp only [step] at hs
  split at hs
  · cases hs
  · rename_i hr
    have hr : s.reader = .reading := by simpa using hr
    have h0 : GO s [] := by
      have := h.go; rw [hr] at this; exact this
    split at hs
    · injection hs with hs; subst hs; exact gr_readerFails h hr
    · rename_i hf
      split at hs
      · injection hs with hs; subst hs; exact gr_readerFails h hr
      · rename_i it hl
        have hf : f ≠ .badHeader := fun e => hf e
        have hw : ∀ c ∈ it.calls, (c, id) ∈ s.wroteAs := fun c hc =>
          (h0.sentWrote _ (lookupSent_mem hl) c).2 hc
        have h1 : GO (eraseSent s id) it.calls := by
          have := go_eraseSent h0 hl; rwa [List.append_nil] at this
        split at hs
        · injection hs with hs; subst hs
          exact ⟨go_repack h1, fun id' it' f' hh => by
            injection hh with hh; injection hh with e1 e2; injection e2 with e2 e3
            subst e1; subst e2; subst e3; exact ⟨hf, hw⟩⟩
        · injection hs with hs; subst hs
          exact gr_readerAtM h1 hf hw

theorem gr_readErr {s s' : St} (h : GR s) (hs : step s .readErr = some s') : GR s' := by
  simp only [step] at hs
  split at hs
  · cases hs
  · rename_i hr
    injection hs with hs; subst hs
    exact gr_readerFails h (by simpa using hr)

theorem gr_timeout {s s' : St} (h : GR s) (hs : step s .timeout = some s') : GR s' := by
  simp only [step] at hs
  split at hs
  · cases hs
  · rename_i hr
    injection hs with hs; subst hs
    refine gr_readerFails h ?_
    simp only [Bool.or_eq_true, not_or] at hr
    simpa using hr.1

theorem gr_clear {s s' : St} {r : IO} (h : GR s) (hs : step s (.clear r) = some s') : GR s' := by
  simp only [step] at hs
  split at hs
  · rename_i id it f hr
    have hh : s.reader.held = some (id, it, f) := by rw [hr]; rfl
    have h0 : GO s it.calls := by
      have := h.go; rwa [Reader.calls_of_some hh] at this
    obtain ⟨hf, hw⟩ := h.held _ _ _ hh
    split at hs
    · injection hs with hs; subst hs
      refine gr_releaseM (gr_of_nil (go_finishFrame (x := []) ?_ hf hw) (held_finishFrame _ _ _ _ hf))
      rw [List.append_nil]; exact go_repack h0
    · injection hs with hs; subst hs
      have h1 : GO (deliverItem s it .connErr none) [] :=
        go_deliverItem (x := []) it .connErr none (by rw [List.append_nil]; exact h0) (fun _ => rfl)
          (fun id hid => by cases hid)
      have h2 : GO { deliverItem s it .connErr none with reader := Reader.exited } [] := go_repack h1
      exact gr_releaseM (gr_of_nil (go_repack (go_failConn h2)) rfl)
  · cases hs

theorem gr_close {s s' : St} (h : GR s) (hs : step s .close = some s') : GR s' := by
  simp only [step] at hs
  injection hs with hs; subst hs
  exact gr_failConn h

theorem gr_step {s s' : St} {a : Act} (h : GR s) (hs : step s a = some s') : GR s' := by
  cases a with
  | queueBatched c => exact gr_queueBatched h hs
  | queueBatchedUnsendable c => exact gr_queueBatchedUnsendable h hs
  | queueDirect c => exact gr_queueDirect h hs
  | queueUnsendable c => exact gr_queueUnsendable h hs
  | queueDirectClosing c => exact gr_queueDirectClosing h hs
  | cancel c => exact gr_cancel h hs
  | write w last r => exact gr_write h hs
  | arm w r => exact gr_arm h hs
  | read id f => exact gr_read h hs
  | readErr => exact gr_readErr h hs
  | timeout => exact gr_timeout h hs
  | clear r => exact gr_clear h hs
  | close => exact gr_close h hs

theorem gr_init (q : Nat) : GR (init q) where
  go := {
    cnt := fun c => rfl
    handedNodup := List.nodup_nil
    idsNodup := List.nodup_nil
    idsLe := fun p hp => by cases hp
    doneOff := fun hd => by cases hd
    droppedCtx := fun c hc => by cases hc
    srcNone := fun d hd => by cases hd
    sentWrote := fun p hp => by cases hp
    wroteLe := fun p hp => by cases hp
    dlvWrote := fun d hd => by cases hd
    wroteOnce := fun c => Nat.le_refl _
    unsFatal := fun c hc => by cases hc }
  held id it f hh := by cases hh

theorem gr_run {s s' : St} (as : List Act) (h : GR s) (hr : run s as = some s') : GR s' := by
  induction as generalizing s with
  | nil => simp only [run] at hr; injection hr with hr; exact hr ▸ h
  | cons a as ih =>
    simp only [run] at hr
    split at hr
    · rename_i s1 hs; exact ih (gr_step h hs) hr
    · cases hr

theorem gr_reachable {q : Nat} {s : St} (h : Reachable q s) : GR s := by
  obtain ⟨as, hr⟩ := h
  exact gr_run as (gr_init q) hr

/-! ## §5 `GD`: the in-flight counter, `inFlightM` and its FIFO queue, the read deadline (C18)

### §5.0 phases of queued senders -/

/-- phase of the send of `w` as `wakeM` looks it up (first `Snd` of `w`) -/
def phaseOf (l : List Snd) (w : Who) : Option Phase := (l.find? (fun x => x.who == w)).map (·.phase)

/-- does this queue entry stand for a pending `inFlight++` ? -/
def qAdd (l : List Snd) : MW → Bool
  | .sender w => phaseOf l w == some .addWait
  | .reader => false

/-- number of pending `inFlight++` in (a part of) the queue -/
def cntQ (l : List Snd) (q : List MW) : Nat := q.countP (qAdd l)

theorem cntQ_nil (l : List Snd) : cntQ l [] = 0 := rfl

theorem cntQ_cons (l : List Snd) (e : MW) (q : List MW) :
    cntQ l (e :: q) = (if qAdd l e then 1 else 0) + cntQ l q := by
  simp only [cntQ, List.countP_cons]; omega

theorem cntQ_append (l : List Snd) (q₁ q₂ : List MW) : cntQ l (q₁ ++ q₂) = cntQ l q₁ + cntQ l q₂ := by
  simp only [cntQ, List.countP_append]

theorem cntQ_congr {l l' : List Snd} {q : List MW}
    (h : ∀ w, MW.sender w ∈ q → phaseOf l' w = phaseOf l w) : cntQ l' q = cntQ l q := by
  induction q with
  | nil => rfl
  | cons e q ih =>
    have e1 : qAdd l' e = qAdd l e := by
      cases e with
      | reader => rfl
      | sender w => simp only [qAdd, h w (List.mem_cons_self ..)]
    rw [cntQ_cons, cntQ_cons, ih (fun w hw => h w (List.mem_cons_of_mem _ hw)), e1]

theorem cntQ_sends_nil (q : List MW) : cntQ [] q = 0 := by
  induction q with
  | nil => rfl
  | cons e q ih => rw [cntQ_cons, ih]; cases e <;> rfl

/-- with distinct `who`s, any send found is the one `phaseOf` sees -/
theorem phaseOf_of_mem {l : List Snd} (hnd : (l.map (·.who)).Nodup) {x : Snd} (hx : x ∈ l) :
    phaseOf l x.who = some x.phase := by
  induction l with
  | nil => cases hx
  | cons a l ih =>
    simp only [List.map_cons, List.nodup_cons] at hnd
    rcases List.mem_cons.1 hx with rfl | hx
    · simp [phaseOf]
    · have hne : a.who ≠ x.who := fun e => hnd.1 (e ▸ List.mem_map_of_mem hx)
      have hb : (a.who == x.who) = false := by simpa using hne
      have := ih hnd.2 hx
      simp only [phaseOf, List.find?_cons, hb] at this ⊢
      exact this

theorem phaseOf_none {l : List Snd} {w : Who} (h : ∀ x ∈ l, x.who ≠ w) : phaseOf l w = none := by
  simp only [phaseOf, Option.map_eq_none_iff, List.find?_eq_none]
  intro x hx; simpa using h x hx

theorem phaseOf_some_mem {l : List Snd} {w : Who} {p : Phase} (h : phaseOf l w = some p) :
    ∃ x ∈ l, x.who = w ∧ x.phase = p := by
  simp only [phaseOf, Option.map_eq_some_iff] at h
  obtain ⟨x, hx, rfl⟩ := h
  exact ⟨x, List.mem_of_find?_eq_some hx, by simpa using List.find?_some hx, rfl⟩

theorem find_map_who (l : List Snd) (g : Snd → Snd) (hg : ∀ y, (g y).who = y.who) (w : Who) :
    (l.map g).find? (fun x => x.who == w) = (l.find? (fun x => x.who == w)).map g := by
  induction l with
  | nil => rfl
  | cons a l ih =>
    simp only [List.map_cons, List.find?_cons, hg a]
    cases h : (a.who == w)
    · simpa using ih
    · simp

/-- updating only the sends of `w` (keeping `who`) leaves the phase of every other `w'` alone -/
theorem phaseOf_map_ne (l : List Snd) (w w' : Who) (g : Snd → Snd) (hg : ∀ y, (g y).who = y.who)
    (hne : w' ≠ w) :
    phaseOf (l.map (fun y => if y.who == w then g y else y)) w' = phaseOf l w' := by
  have hg' : ∀ y, (if y.who == w then g y else y).who = y.who := by
    intro y; split
    · exact hg y
    · rfl
  simp only [phaseOf]
  rw [find_map_who l _ hg' w']
  cases hf : l.find? (fun x => x.who == w') with
  | none => rfl
  | some x =>
    have hx : x.who = w' := by simpa using List.find?_some hf
    have : ¬ x.who = w := by rw [hx]; exact hne
    simp [this]

theorem phaseOf_map_self (l : List Snd) (w : Who) (g : Snd → Snd) (hg : ∀ y, (g y).who = y.who) :
    phaseOf (l.map (fun y => if y.who == w then g y else y)) w =
      (l.find? (fun x => x.who == w)).map (fun x => (g x).phase) := by
  have hg' : ∀ y, (if y.who == w then g y else y).who = y.who := by
    intro y; split
    · exact hg y
    · rfl
  simp only [phaseOf]
  rw [find_map_who l _ hg' w]
  cases hf : l.find? (fun x => x.who == w) with
  | none => rfl
  | some x =>
    have hx : x.who = w := by simpa using List.find?_some hf
    simp [hx]

theorem phaseOf_filter_ne (l : List Snd) (w w' : Who) (hne : w' ≠ w) :
    phaseOf (l.filter (fun x => x.who != w)) w' = phaseOf l w' := by
  induction l with
  | nil => rfl
  | cons a l ih =>
    simp only [phaseOf] at ih
    by_cases ha : a.who = w
    · have h1 : (a.who != w) = false := by simp [ha]
      have h3 : (a.who == w') = false := by rw [ha]; simpa using fun e => hne e.symm
      simp only [phaseOf, List.filter_cons, h1, List.find?_cons, h3]
      exact ih
    · have h1 : (a.who != w) = true := by simpa using ha
      simp only [phaseOf, List.filter_cons, h1, if_true, List.find?_cons]
      cases (a.who == w')
      · exact ih
      · rfl

theorem phaseOf_append_ne (l : List Snd) (x : Snd) (w' : Who) (hne : w' ≠ x.who) :
    phaseOf (l ++ [x]) w' = phaseOf l w' := by
  simp only [phaseOf, List.find?_append]
  have : ([x].find? (fun y => y.who == w')) = none := by
    simp only [List.find?_cons, List.find?_nil]
    have : (x.who == w') = false := by simpa using fun e => hne e.symm
    simp [this]
  rw [this, Option.or_none]

theorem phaseOf_append_new (l : List Snd) (x : Snd) (h : ∀ y ∈ l, y.who ≠ x.who) :
    phaseOf (l ++ [x]) x.who = some x.phase := by
  simp only [phaseOf, List.find?_append]
  have : l.find? (fun y => y.who == x.who) = none := by
    simp only [List.find?_eq_none]; intro y hy; simpa using h y hy
  rw [this]
  simp

theorem map_who_map (l : List Snd) (g : Snd → Snd) (hg : ∀ y, (g y).who = y.who) :
    (l.map g).map (·.who) = l.map (·.who) := by
  simp [List.map_map, Function.comp_def, hg]

theorem split_snoc {α : Type} (q : List α) (e r : α) (l1 l2 : List α)
    (h : q ++ [e] = l1 ++ r :: l2) :
    (e = r ∧ l1 = q ∧ l2 = []) ∨ (∃ l2', l2 = l2' ++ [e] ∧ q = l1 ++ r :: l2') := by
  induction q generalizing l1 with
  | nil =>
    cases l1 with
    | nil =>
      simp only [List.nil_append, List.cons.injEq] at h
      exact Or.inl ⟨h.1, rfl, h.2.symm⟩
    | cons b l1' =>
      simp only [List.nil_append, List.cons_append, List.cons.injEq] at h
      have := h.2
      cases l1' <;> simp at this
  | cons a q' ih =>
    cases l1 with
    | nil =>
      simp only [List.cons_append, List.nil_append, List.cons.injEq] at h
      exact Or.inr ⟨q', h.2.symm, by simp [h.1]⟩
    | cons b l1' =>
      simp only [List.cons_append, List.cons.injEq] at h
      rcases ih l1' h.2 with ⟨h1, h2, h3⟩ | ⟨l2', h1, h2⟩
      · exact Or.inl ⟨h1, by rw [h.1, h2], h3⟩
      · exact Or.inr ⟨l2', h1, by rw [h.1, h2]; rfl⟩

/-! ### §5.1 the invariant

* `whoNodup`, `writerSnd`, `directHanded` — one send per goroutine;
* `queued`, `qNodup`, `readerQ` — who is in the `inFlightM` queue;
* `excl`   — the reader inside its clearing `SetReadDeadline` and a sender inside its arming
             `SetReadDeadline` exclude each other (both hold `inFlightM`);
* `eq`     — counter + pending `inFlight++` in the queue = registered items + the item the reader
             has unregistered but not yet counted down;
* `fifo`   — when the queued reader's turn comes the counter is positive (FIFO hand-off);
* `armPos` — a sender is inside the arming call only while the counter is positive;
* `i1`     — deadline set ⇒ counter positive, or the reader is about to clear it;
* `i2`     — counter positive ⇒ deadline set (and not being cleared), or some send is on its way.
The counter is a `uint32`: the last five are stated for `Live` states (not failed, fewer than 2^32
ids allocated). -/

def Reader.dw : Reader → Nat
  | .downWait _ _ _ => 1
  | _ => 0

def Reader.isClearing : Reader → Bool
  | .clearing _ _ _ => true
  | _ => false

theorem mHeld_eq (s : St) :
    mHeld s = (s.sends.any (fun x => x.phase == .arm) || s.reader.isClearing) := by
  unfold mHeld Reader.isClearing
  cases s.reader <;> rfl

theorem not_mHeld {s : St} (h : mHeld s = false) :
    (∀ x ∈ s.sends, x.phase ≠ .arm) ∧ s.reader.isClearing = false := by
  rw [mHeld_eq, Bool.or_eq_false_iff] at h
  refine ⟨fun x hx hp => ?_, h.2⟩
  have := List.any_eq_false.1 h.1 x hx
  simp [hp] at this

def Live (s : St) : Prop := s.done = false ∧ s.nextId < uint32

structure GD (s : St) : Prop where
  whoNodup : (s.sends.map (·.who)).Nodup
  writerSnd : ∀ x ∈ s.sends, x.who = .writer → s.writerBusy = true
  directHanded : ∀ x ∈ s.sends, ∀ c, x.who = .direct c → c ∈ s.handed
  queued : ∀ w, MW.sender w ∈ s.mWait →
    phaseOf s.sends w = some .addWait ∨ phaseOf s.sends w = some .armWait
  qNodup : s.mWait.Nodup
  readerQ : MW.reader ∈ s.mWait → s.reader.dw = 1
  excl : s.reader.isClearing = true → ∀ x ∈ s.sends, x.phase ≠ .arm
  bound : s.sent.length + s.reader.dw ≤ s.nextId
  eq : Live s → s.inFlight + cntQ s.sends s.mWait = s.sent.length + s.reader.dw
  fifo : Live s → ∀ l1 l2, s.mWait = l1 ++ MW.reader :: l2 → 1 ≤ s.inFlight + cntQ s.sends l1
  armPos : Live s → ∀ x ∈ s.sends, x.phase = .arm → 0 < s.inFlight
  i1 : Live s → s.armed = true → 0 < s.inFlight ∨ s.reader.isClearing = true
  i2 : Live s → 0 < s.inFlight → (s.armed = true ∧ s.reader.isClearing = false) ∨ s.sends ≠ []

macro "gd_repack " h:term : term =>
  `(⟨($h).whoNodup, ($h).writerSnd, ($h).directHanded, ($h).queued, ($h).qNodup, ($h).readerQ,
     ($h).excl, ($h).bound, ($h).eq, ($h).fifo, ($h).armPos, ($h).i1, ($h).i2⟩)

theorem not_queued_of_phase {s : St} (h : GD s) {x : Snd} (hx : x ∈ s.sends)
    (h1 : x.phase ≠ .addWait) (h2 : x.phase ≠ .armWait) : MW.sender x.who ∉ s.mWait := by
  intro hq
  have hp := phaseOf_of_mem h.whoNodup hx
  rcases h.queued _ hq with e | e <;> rw [hp] at e <;> injection e with e
  · exact h1 e
  · exact h2 e

theorem findSend_some {s : St} {w : Who} {p : Phase} {x : Snd} (h : findSend s w p = some x) :
    x ∈ s.sends ∧ x.who = w ∧ x.phase = p := by
  have h1 := List.mem_of_find?_eq_some h
  have h2 := List.find?_some h
  simp only [Bool.and_eq_true, beq_iff_eq] at h2
  exact ⟨h1, h2.1, h2.2⟩

/-- T1: rewriting the send of a goroutine that is not queued; `harm` covers the case where the
new phase is `arm`. -/
theorem gd_mapW {s : St} (w : Who) (g : Snd → Snd) (h : GD s) (hg : ∀ y, (g y).who = y.who)
    (hnq : MW.sender w ∉ s.mWait)
    (harm : ∀ y, (g y).phase = .arm → s.reader.isClearing = false ∧ 0 < s.inFlight) :
    GD { s with sends := s.sends.map (fun y => if y.who == w then g y else y) } := by
  have hg' : ∀ y : Snd, (if y.who == w then g y else y).who = y.who := by
    intro y; split
    · exact hg y
    · rfl
  have hph : ∀ w', MW.sender w' ∈ s.mWait →
      phaseOf (s.sends.map (fun y => if y.who == w then g y else y)) w' = phaseOf s.sends w' :=
    fun w' hw' => phaseOf_map_ne _ _ _ g hg (fun e => hnq (e ▸ hw'))
  exact {
    whoNodup := by
      have := map_who_map s.sends _ hg'
      show ((s.sends.map (fun y => if y.who == w then g y else y)).map (fun x : Snd => x.who)).Nodup
      rw [this]; exact h.whoNodup
    writerSnd := fun x hx hw => by
      obtain ⟨y, hy, rfl⟩ := List.mem_map.1 hx
      rw [hg' y] at hw; exact h.writerSnd y hy hw
    directHanded := fun x hx c hw => by
      obtain ⟨y, hy, rfl⟩ := List.mem_map.1 hx
      rw [hg' y] at hw; exact h.directHanded y hy c hw
    queued := fun w' hw' => by
      show phaseOf (s.sends.map _) w' = _ ∨ phaseOf (s.sends.map _) w' = _
      rw [hph w' hw']; exact h.queued w' hw'
    qNodup := h.qNodup
    readerQ := h.readerQ
    excl := fun hc x hx hp => by
      obtain ⟨y, hy, rfl⟩ := List.mem_map.1 hx
      split at hp
      · have := (harm y hp).1
        rw [show ({ s with sends := _ } : St).reader = s.reader from rfl] at hc
        rw [this] at hc; cases hc
      · exact h.excl hc y hy hp
    bound := h.bound
    eq := fun hl => by
      have := h.eq hl
      show s.inFlight + cntQ (s.sends.map _) s.mWait = _
      rw [cntQ_congr (fun w' hw' => hph w' hw')]; exact this
    fifo := fun hl l1 l2 hq => by
      have := h.fifo hl l1 l2 hq
      show 1 ≤ s.inFlight + cntQ (s.sends.map _) l1
      rw [cntQ_congr (fun w' hw' => hph w' (by rw [show s.mWait = l1 ++ MW.reader :: l2 from hq]; exact List.mem_append_left _ hw'))]
      exact this
    armPos := fun hl x hx hp => by
      obtain ⟨y, hy, rfl⟩ := List.mem_map.1 hx
      split at hp
      · exact (harm y hp).2
      · exact h.armPos hl y hy hp
    i1 := h.i1
    i2 := fun hl hp => by
      rcases h.i2 hl hp with h2 | h2
      · exact Or.inl h2
      · refine Or.inr ?_
        show s.sends.map _ ≠ []
        intro e; exact h2 (List.map_eq_nil_iff.1 e) }

/-- T5: the head of the queue is popped and it was not a pending `inFlight++` -/
theorem gd_pop0 {s : St} {e : MW} {rest : List MW} (h : GD s) (hq : s.mWait = e :: rest)
    (he : qAdd s.sends e = false) : GD { s with mWait := rest } := by
  have hsub : ∀ x, x ∈ rest → x ∈ s.mWait := fun x hx => by rw [hq]; exact List.mem_cons_of_mem _ hx
  exact {
    whoNodup := h.whoNodup
    writerSnd := h.writerSnd
    directHanded := h.directHanded
    queued := fun w hw => h.queued w (hsub _ hw)
    qNodup := by have := h.qNodup; rw [hq] at this; exact (List.nodup_cons.1 this).2
    readerQ := fun hr => h.readerQ (hsub _ hr)
    excl := h.excl
    bound := h.bound
    eq := fun hl => by
      have := h.eq hl
      rw [hq, cntQ_cons, he] at this
      show s.inFlight + cntQ s.sends rest = _
      simpa using this
    fifo := fun hl l1 l2 hr => by
      have := h.fifo hl (e :: l1) l2 (by rw [hq, show rest = l1 ++ MW.reader :: l2 from hr]; rfl)
      rw [cntQ_cons, he] at this
      show 1 ≤ s.inFlight + cntQ s.sends l1
      simpa using this
    armPos := h.armPos
    i1 := h.i1
    i2 := h.i2 }

/-- T6: the send of a goroutine that is not queued is over -/
theorem gd_filterW {s : St} (w : Who) (h : GD s) (hnq : MW.sender w ∉ s.mWait)
    (hi2 : Live s → 0 < s.inFlight → s.armed = true ∧ s.reader.isClearing = false) :
    GD { s with sends := s.sends.filter (fun x => x.who != w) } := by
  have hph : ∀ w', MW.sender w' ∈ s.mWait →
      phaseOf (s.sends.filter (fun x => x.who != w)) w' = phaseOf s.sends w' :=
    fun w' hw' => phaseOf_filter_ne _ _ _ (fun e => hnq (e ▸ hw'))
  exact {
    whoNodup := (List.filter_sublist.map _).nodup h.whoNodup
    writerSnd := fun x hx => h.writerSnd x (List.mem_filter.1 hx).1
    directHanded := fun x hx => h.directHanded x (List.mem_filter.1 hx).1
    queued := fun w' hw' => by
      show phaseOf (s.sends.filter _) w' = _ ∨ phaseOf (s.sends.filter _) w' = _
      rw [hph w' hw']; exact h.queued w' hw'
    qNodup := h.qNodup
    readerQ := h.readerQ
    excl := fun hc x hx => h.excl hc x (List.mem_filter.1 hx).1
    bound := h.bound
    eq := fun hl => by
      have := h.eq hl
      show s.inFlight + cntQ (s.sends.filter _) s.mWait = _
      rw [cntQ_congr (fun w' hw' => hph w' hw')]; exact this
    fifo := fun hl l1 l2 hq => by
      have := h.fifo hl l1 l2 hq
      show 1 ≤ s.inFlight + cntQ (s.sends.filter _) l1
      rw [cntQ_congr (fun w' hw' => hph w' (by rw [show s.mWait = l1 ++ MW.reader :: l2 from hq]; exact List.mem_append_left _ hw'))]
      exact this
    armPos := fun hl x hx => h.armPos hl x (List.mem_filter.1 hx).1
    i1 := h.i1
    i2 := fun hl hp => Or.inl (hi2 hl hp) }

theorem not_live {s : St} (hd : s.done = true) : ¬ Live s := fun hl => by
  rw [hl.1] at hd; cases hd

/-- the part of `GD` that does not depend on the connection being alive -/
structure GU (s : St) : Prop where
  whoNodup : (s.sends.map (·.who)).Nodup
  writerSnd : ∀ x ∈ s.sends, x.who = .writer → s.writerBusy = true
  directHanded : ∀ x ∈ s.sends, ∀ c, x.who = .direct c → c ∈ s.handed
  queued : ∀ w, MW.sender w ∈ s.mWait →
    phaseOf s.sends w = some .addWait ∨ phaseOf s.sends w = some .armWait
  qNodup : s.mWait.Nodup
  readerQ : MW.reader ∈ s.mWait → s.reader.dw = 1
  excl : s.reader.isClearing = true → ∀ x ∈ s.sends, x.phase ≠ .arm
  bound : s.sent.length + s.reader.dw ≤ s.nextId

theorem GD.gu {s : St} (h : GD s) : GU s :=
  ⟨h.whoNodup, h.writerSnd, h.directHanded, h.queued, h.qNodup, h.readerQ, h.excl, h.bound⟩

/-- T9: a failed connection only has to satisfy the unconditional part -/
theorem gd_of_done {s : St} (hd : s.done = true) (h : GU s) : GD s :=
  ⟨h.whoNodup, h.writerSnd, h.directHanded, h.queued, h.qNodup, h.readerQ, h.excl, h.bound,
   fun hl => absurd hl (not_live hd),
   fun hl => absurd hl (not_live hd), fun hl => absurd hl (not_live hd),
   fun hl => absurd hl (not_live hd), fun hl => absurd hl (not_live hd)⟩

theorem done_failConn (s : St) : (failConn s).done = true := by
  rw [failConn_eq]
  split
  · assumption
  · rfl

theorem failReader_dw (r : Reader) : (if r = .reading then Reader.exited else r).dw = r.dw := by
  split
  · rename_i h; rw [h]; rfl
  · rfl

theorem failReader_clr (r : Reader) :
    (if r = .reading then Reader.exited else r).isClearing = r.isClearing := by
  split
  · rename_i h; rw [h]; rfl
  · rfl

theorem gu_failConn {s : St} (h : GU s) : GU (failConn s) := by
  rw [failConn_eq]
  split
  · exact h
  · refine ⟨h.whoNodup, h.writerSnd, h.directHanded, h.queued, h.qNodup, ?_, ?_, ?_⟩
    · intro hr
      show (if s.reader = .reading then Reader.exited else s.reader).dw = 1
      rw [failReader_dw]; exact h.readerQ hr
    · intro hc
      have hc : (if s.reader = .reading then Reader.exited else s.reader).isClearing = true := hc
      rw [failReader_clr] at hc; exact h.excl hc
    · show 0 + (if s.reader = .reading then Reader.exited else s.reader).dw ≤ s.nextId
      rw [failReader_dw]; have := h.bound; omega

theorem gd_failConn' {s : St} (h : GU s) : GD (failConn s) :=
  gd_of_done (done_failConn s) (gu_failConn h)

theorem gd_failConn {s : St} (h : GD s) : GD (failConn s) := gd_failConn' h.gu

theorem done_sendFailed (s : St) (snd : Snd) : (sendFailed s snd).done = true := by
  simp only [sendFailed]
  split
  · exact done_failConn s
  · exact done_failConn s

theorem gd_sendFailed {s : St} (snd : Snd) (h : GD s) : GD (sendFailed s snd) := by
  have h1 := gd_failConn h
  simp only [sendFailed]
  split
  · refine gd_of_done (done_failConn s) ⟨h1.whoNodup, h1.writerSnd, h1.directHanded, h1.queued,
      h1.qNodup, h1.readerQ, h1.excl, ?_⟩
    have : ((failConn s).sent.filter (fun p => p.1 != snd.id)).length ≤ (failConn s).sent.length :=
      List.length_filter_le _ _
    have := h1.bound
    show ((failConn s).sent.filter (fun p => p.1 != snd.id)).length + (failConn s).reader.dw ≤ (failConn s).nextId
    omega
  · exact h1

theorem mWait_failConn (s : St) : (failConn s).mWait = s.mWait := by
  rw [failConn_eq]; split <;> rfl

theorem sends_failConn (s : St) : (failConn s).sends = s.sends := by
  rw [failConn_eq]; split <;> rfl

theorem mWait_sendFailed (s : St) (snd : Snd) : (sendFailed s snd).mWait = s.mWait := by
  simp only [sendFailed]; split <;> exact mWait_failConn s

theorem sends_sendFailed (s : St) (snd : Snd) : (sendFailed s snd).sends = s.sends := by
  simp only [sendFailed]; split <;> exact sends_failConn s

theorem readerNext_idle (s : St) : (readerNext s).dw = 0 ∧ (readerNext s).isClearing = false := by
  simp only [readerNext]; split <;> exact ⟨rfl, rfl⟩

/-- T8: a state whose reader holds nothing: any idle reader will do -/
theorem gd_idleReader {s : St} (h : GD { s with reader := .reading }) (r : Reader)
    (hr : r.dw = 0 ∧ r.isClearing = false) : GD { s with reader := r } where
  whoNodup := h.whoNodup
  writerSnd := h.writerSnd
  directHanded := h.directHanded
  queued := h.queued
  qNodup := h.qNodup
  readerQ hq := by have := h.readerQ hq; cases this
  excl hc := by rw [show ({ s with reader := r } : St).reader = r from rfl, hr.2] at hc; cases hc
  bound := by
    have := h.bound
    show s.sent.length + r.dw ≤ s.nextId
    rw [hr.1]; exact this
  eq hl := by
    have := h.eq hl
    show s.inFlight + cntQ s.sends s.mWait = s.sent.length + r.dw
    rw [hr.1]; exact this
  fifo := h.fifo
  armPos := h.armPos
  i1 hl ha := by
    rcases h.i1 hl ha with h1 | h1
    · exact Or.inl h1
    · cases h1
  i2 hl hp := by
    rcases h.i2 hl hp with h2 | h2
    · exact Or.inl ⟨h2.1, hr.2⟩
    · exact Or.inr h2

theorem gd_exit {s : St} (h : GD s) (hd : s.done = true) (hq : MW.reader ∉ s.mWait) :
    GD { s with reader := .exited } :=
  gd_of_done hd ⟨h.whoNodup, h.writerSnd, h.directHanded, h.queued, h.qNodup, fun hr => absurd hr hq,
    (fun hc => by cases hc), (by have := h.bound; show s.sent.length + 0 ≤ s.nextId; omega)⟩

theorem gd_finishFrame {s : St} {id : Nat} {it : Item} {f : Frame}
    (h : GD { s with reader := .reading }) (hf : f ≠ .badHeader) : GD (finishFrame s id it f) := by
  have hq : MW.reader ∉ s.mWait := fun hr => by have := h.readerQ hr; cases this
  rw [finishFrame_eq]
  split
  · exact gd_repack (gd_idleReader h (readerNext s) (readerNext_idle s))
  · first | rw [if_neg hf] | skip
    · split
      · have h1 : GD { s with delivered := s.delivered ++ frameDlv id it f, reader := Reader.exited } :=
          gd_repack (gd_idleReader h .exited ⟨rfl, rfl⟩)
        refine gd_exit (gd_failConn h1) (done_failConn _) ?_
        rw [mWait_failConn]; exact hq
      · exact gd_repack (gd_idleReader h (readerNext s) (readerNext_idle s))

/-! ### §5.2 starting a send -/

theorem live_succ {s' : St} (hl : Live s') (s : St) (hd : s'.done = s.done)
    (hn : s'.nextId = s.nextId + 1) : Live s ∧ s.nextId + 1 < uint32 := by
  obtain ⟨h1, h2⟩ := hl
  rw [hd] at h1; rw [hn] at h2
  exact ⟨⟨h1, Nat.lt_of_succ_lt h2⟩, h2⟩

/-- `startSend`, `inFlightM` busy: the new sender queues up with a pending `inFlight++` -/
theorem gd_regQueue {s : St} (w : Who) (it : Item) (h : GD s)
    (hw : ∀ x ∈ s.sends, x.who ≠ w) (hwb : w = .writer → s.writerBusy = true)
    (hdh : ∀ c, w = .direct c → c ∈ s.handed) :
    GD (regSendQ s w it) := by
  have hnq : MW.sender w ∉ s.mWait := fun hq => by
    rcases h.queued w hq with e | e <;> (rw [phaseOf_none hw] at e; cases e)
  have hph : ∀ w', MW.sender w' ∈ s.mWait →
      phaseOf (s.sends ++ [newSnd s w it]) w' =
        phaseOf s.sends w' :=
    fun w' hw' => phaseOf_append_ne _ _ _ (fun e => hnq ((show w' = w from e) ▸ hw'))
  have hnew : phaseOf (s.sends ++ [newSnd s w it]) w =
      some .addWait :=
    phaseOf_append_new s.sends (newSnd s w it) hw
  exact {
    whoNodup := by
      show ((s.sends ++ [_]).map (fun x : Snd => x.who)).Nodup
      rw [List.map_append]
      refine List.nodup_append.2 ⟨h.whoNodup, by simp, ?_⟩
      intro a ha b hb
      simp only [List.map_cons, List.map_nil, List.mem_singleton] at hb
      obtain ⟨x, hx, rfl⟩ := List.mem_map.1 ha
      rw [hb]; exact hw x hx
    writerSnd := fun x hx hxw => by
      rcases List.mem_append.1 hx with hx | hx
      · exact h.writerSnd x hx hxw
      · simp only [List.mem_singleton] at hx; subst hx; exact hwb hxw
    directHanded := fun x hx c hxw => by
      rcases List.mem_append.1 hx with hx | hx
      · exact h.directHanded x hx c hxw
      · simp only [List.mem_singleton] at hx; subst hx; exact hdh c hxw
    queued := fun w' hw' => by
      rcases List.mem_append.1 hw' with hw' | hw'
      · show phaseOf (s.sends ++ [_]) w' = _ ∨ phaseOf (s.sends ++ [_]) w' = _
        rw [hph w' hw']; exact h.queued w' hw'
      · simp only [List.mem_singleton] at hw'; injection hw' with hw'; subst hw'
        exact Or.inl hnew
    qNodup := by
      refine List.nodup_append.2 ⟨h.qNodup, by simp, ?_⟩
      intro a ha b hb
      simp only [List.mem_singleton] at hb
      rw [hb]; intro e; exact hnq (e ▸ ha)
    readerQ := fun hr => by
      rcases List.mem_append.1 hr with hr | hr
      · exact h.readerQ hr
      · simp at hr
    excl := fun hc x hx => by
      rcases List.mem_append.1 hx with hx | hx
      · exact h.excl hc x hx
      · simp only [List.mem_singleton] at hx; subst hx; simp [newSnd]
    bound := by
      have := h.bound
      show (s.sent ++ [(s.nextId + 1, it)]).length + s.reader.dw ≤ s.nextId + 1
      simp only [List.length_append, List.length_singleton]; omega
    eq := fun hl => by
      have := h.eq (live_succ hl s rfl rfl).1
      show s.inFlight + cntQ (s.sends ++ [_]) (s.mWait ++ [MW.sender w]) =
        (s.sent ++ [(s.nextId + 1, it)]).length + s.reader.dw
      rw [cntQ_append, cntQ_congr (fun w' hw' => hph w' hw'), cntQ_cons, cntQ_nil]
      simp only [qAdd, hnew, beq_self_eq_true, if_true, List.length_append, List.length_singleton]
      omega
    fifo := fun hl l1 l2 hq => by
      rcases split_snoc _ _ _ _ _ hq with ⟨e, _, _⟩ | ⟨l2', _, hq'⟩
      · cases e
      · have := h.fifo (live_succ hl s rfl rfl).1 l1 l2' hq'
        show 1 ≤ s.inFlight + cntQ (s.sends ++ [_]) l1
        rw [cntQ_congr (fun w' hw' => hph w' (by rw [hq']; exact List.mem_append_left _ hw'))]
        exact this
    armPos := fun hl x hx hp => by
      rcases List.mem_append.1 hx with hx | hx
      · exact h.armPos (live_succ hl s rfl rfl).1 x hx hp
      · simp only [List.mem_singleton] at hx; subst hx; cases hp
    i1 := fun hl => h.i1 (live_succ hl s rfl rfl).1
    i2 := fun _ _ => Or.inr (by
      show s.sends ++ [_] ≠ []
      simp) }

/-- `startSend`, `inFlightM` free: the new sender counts its request at once -/
theorem gd_regAdd {s : St} {n : Nat} (w : Who) (it : Item) (h : GD s)
    (hw : ∀ x ∈ s.sends, x.who ≠ w) (hwb : w = .writer → s.writerBusy = true)
    (hdh : ∀ c, w = .direct c → c ∈ s.handed) (hm : mHeld (regSend s w it) = false)
    (hn : n = (s.inFlight + 1) % uint32) :
    GD (regAddN s n w it) := by
  have hnq : MW.sender w ∉ s.mWait := fun hq => by
    rcases h.queued w hq with e | e <;> (rw [phaseOf_none hw] at e; cases e)
  obtain ⟨hna, hnc⟩ := not_mHeld hm
  have hgw : ∀ y : Snd, (if y.who == w then addG s y else y).who = y.who := by
    intro y; split <;> rfl
  have hph : ∀ w', MW.sender w' ∈ s.mWait →
      phaseOf ((s.sends ++ [newSnd s w it]).map (fun y => if y.who == w then addG s y else y)) w' =
        phaseOf s.sends w' := fun w' hw' => by
    have hne : w' ≠ w := fun e => hnq (e ▸ hw')
    rw [phaseOf_map_ne _ w w' (addG s) (fun _ => rfl) hne]
    exact phaseOf_append_ne _ _ _ (show w' ≠ w from hne)
  have hcnt : Live (regAddN s n w it) → n = s.inFlight + 1 := fun hl => by
    have hl' := live_succ hl s rfl rfl
    have := h.eq hl'.1
    have := h.bound
    have := hl'.2
    simp only [uint32] at *; omega
  have hmem : ∀ x, x ∈ (regAddN s n w it).sends →
      ∃ y : Snd, (y ∈ s.sends ∨ y = newSnd s w it) ∧
        x = (if y.who == w then addG s y else y) := by
    intro x hx
    obtain ⟨y, hy, rfl⟩ := List.mem_map.1 hx
    refine ⟨y, ?_, rfl⟩
    rcases List.mem_append.1 hy with hy | hy
    · exact Or.inl hy
    · exact Or.inr (by simpa using hy)
  exact {
    whoNodup := by
      show (((s.sends ++ [_]).map _).map (fun x : Snd => x.who)).Nodup
      rw [map_who_map _ _ hgw, List.map_append]
      refine List.nodup_append.2 ⟨h.whoNodup, by simp, ?_⟩
      intro a ha b hb
      simp only [List.map_cons, List.map_nil, List.mem_singleton] at hb
      obtain ⟨x, hx, rfl⟩ := List.mem_map.1 ha
      rw [hb]; exact hw x hx
    writerSnd := fun x hx hxw => by
      obtain ⟨y, hy, rfl⟩ := hmem x hx
      rw [hgw y] at hxw
      rcases hy with hy | rfl
      · exact h.writerSnd y hy hxw
      · exact hwb hxw
    directHanded := fun x hx c hxw => by
      obtain ⟨y, hy, rfl⟩ := hmem x hx
      rw [hgw y] at hxw
      rcases hy with hy | rfl
      · exact h.directHanded y hy c hxw
      · exact hdh c hxw
    queued := fun w' hw' => by
      show phaseOf ((s.sends ++ [_]).map _) w' = _ ∨ phaseOf ((s.sends ++ [_]).map _) w' = _
      rw [hph w' hw']; exact h.queued w' hw'
    qNodup := h.qNodup
    readerQ := h.readerQ
    excl := fun hc => by
      rw [show (regAddN s n w it).reader = (regSend s w it).reader from rfl, hnc] at hc
      cases hc
    bound := by
      have := h.bound
      show (s.sent ++ [(s.nextId + 1, it)]).length + s.reader.dw ≤ s.nextId + 1
      simp only [List.length_append, List.length_singleton]; omega
    eq := fun hl => by
      have := h.eq (live_succ hl s rfl rfl).1
      have := hcnt hl
      show n + cntQ ((s.sends ++ [_]).map _) s.mWait =
        (s.sent ++ [(s.nextId + 1, it)]).length + s.reader.dw
      rw [cntQ_congr (fun w' hw' => hph w' hw')]
      simp only [List.length_append, List.length_singleton]
      omega
    fifo := fun hl l1 l2 _ => by
      have := hcnt hl
      show 1 ≤ n + _
      omega
    armPos := fun hl x hx hp => by
      have := hcnt hl
      show 0 < n
      omega
    i1 := fun hl _ => by
      have := hcnt hl
      exact Or.inl (show 0 < n by omega)
    i2 := fun _ _ => Or.inr (by
      show (s.sends ++ [_]).map _ ≠ []
      simp) }

theorem gd_startSend {s : St} (w : Who) (it : Item) (h : GD s)
    (hw : ∀ x ∈ s.sends, x.who ≠ w) (hwb : w = .writer → s.writerBusy = true)
    (hdh : ∀ c, w = .direct c → c ∈ s.handed) : GD (startSend s w it) := by
  rw [startSend_eq']
  split
  · exact gd_regQueue w it h hw hwb hdh
  · rename_i hm
    exact gd_regAdd w it h hw hwb hdh (by simpa using hm) rfl

/-! ### §5.3 the other helpers -/

theorem gd_writerLoop {s : St} (h : GD s) : GD (writerLoop s) := by
  refine writerLoop_ind (Q := GD) s h ?_ ?_ ?_
  · intro s' h; exact gd_repack h
  · intro s' h _ _
    exact {
      whoNodup := h.whoNodup
      writerSnd := h.writerSnd
      directHanded := h.directHanded
      queued := h.queued
      qNodup := h.qNodup
      readerQ := h.readerQ
      excl := h.excl
      bound := Nat.le_succ_of_le h.bound
      eq := fun hl => h.eq (live_succ hl s' rfl rfl).1
      fifo := fun hl => h.fifo (live_succ hl s' rfl rfl).1
      armPos := fun hl => h.armPos (live_succ hl s' rfl rfl).1
      i1 := fun hl => h.i1 (live_succ hl s' rfl rfl).1
      i2 := fun hl => h.i2 (live_succ hl s' rfl rfl).1 }
  · intro s' h hb _
    have hnb : s'.writerBusy = false := by
      rw [Bool.or_eq_false_iff] at hb; exact hb.2
    refine gd_startSend _ _ ?_ ?_ (fun _ => rfl) (fun c hc => by cases hc)
    · exact ⟨h.whoNodup, fun _ _ _ => rfl, h.directHanded, h.queued, h.qNodup, h.readerQ,
        h.excl, h.bound, h.eq, h.fifo, h.armPos, h.i1, h.i2⟩
    · intro x hx hw
      have := h.writerSnd x hx hw
      rw [hnb] at this; cases this

/-- a send is over; the goroutine must not be in the queue, and the deadline must not depend on
the send -/
theorem gd_finishSend {s : St} (w : Who) (h : GD s) (hnq : MW.sender w ∉ s.mWait)
    (hi2 : Live s → 0 < s.inFlight → s.armed = true ∧ s.reader.isClearing = false) :
    GD (finishSend s w) := by
  have h1 := gd_filterW w h hnq hi2
  simp only [finishSend]
  split
  · rename_i hw
    refine gd_writerLoop ⟨h1.whoNodup, ?_, h1.directHanded, h1.queued, h1.qNodup, h1.readerQ,
            h1.excl, h1.bound, h1.eq, h1.fifo, h1.armPos, h1.i1, h1.i2⟩
    intro x hx hxw
    have := (List.mem_filter.1 hx).2
    rw [hxw, hw] at this; simp at this
  · exact h1

theorem mWait_startSend_of_free (s : St) (w : Who) (it : Item)
    (hm : mHeld (startSend s w it) = false) : (startSend s w it).mWait = s.mWait := by
  rw [startSend_eq'] at hm ⊢
  by_cases hh : mHeld (regSend s w it) = true
  · rw [if_pos hh] at hm
    exact absurd (show mHeld (regSend s w it) = false from hm) (by rw [hh]; simp)
  · rw [if_neg hh]; rfl

theorem mWait_writerLoopN_of_free (n : Nat) (s : St) (hm : mHeld (writerLoopN n s) = false) :
    (writerLoopN n s).mWait = s.mWait := by
  induction n generalizing s with
  | zero => rfl
  | succ n ih =>
    rw [writerLoopN_succ] at hm ⊢
    split
    · rfl
    · split
      · rfl
      · split
        · rfl
        · split
          · rename_i h1 h2 h3 h4
            rw [if_neg h1, if_neg h2, if_neg h3, if_pos h4] at hm
            exact ih _ hm
          · rename_i h1 h2 h3 h4
            rw [if_neg h1, if_neg h2, if_neg h3, if_neg h4] at hm
            exact mWait_startSend_of_free _ _ _ hm

theorem mWait_writerLoop_of_free (s : St) (hm : mHeld (writerLoop s) = false) :
    (writerLoop s).mWait = s.mWait := mWait_writerLoopN_of_free _ s hm

theorem gd_releaseWriteM {s : St} (h : GD s) : GD (releaseWriteM s) := by
  simp only [releaseWriteM]
  split
  · rename_i x hx
    have hxm : x ∈ s.sends := List.mem_of_find?_eq_some hx
    have hxp : x.phase = .lockWait := by simpa using List.find?_some hx
    have hnq : MW.sender x.who ∉ s.mWait :=
      not_queued_of_phase h hxm (by rw [hxp]; simp) (by rw [hxp]; simp)
    have := gd_mapW x.who (fun y => { y with phase := .write }) h (fun _ => rfl) hnq
      (fun y hp => by cases hp)
    exact gd_repack this
  · exact gd_repack h

theorem sends_releaseWriteM_phase {s : St} {x : Snd} (hx : x ∈ s.sends)
    (hp : x.phase = .write) : ∃ x' ∈ (releaseWriteM s).sends, x'.who = x.who ∧ x'.phase = .write := by
  simp only [releaseWriteM]
  split
  · rename_i y _
    refine ⟨_, List.mem_map.2 ⟨x, hx, rfl⟩, ?_, ?_⟩
    · split <;> rfl
    · split
      · rfl
      · exact hp
  · exact ⟨x, hx, rfl, hp⟩

theorem mWait_releaseWriteM (s : St) : (releaseWriteM s).mWait = s.mWait := by
  simp only [releaseWriteM]; split <;> rfl

theorem reader_releaseWriteM' (s : St) : (releaseWriteM s).reader = s.reader := reader_releaseWriteM s

/-- T2a: after its last write a sender finds `inFlightM` busy and queues up to arm -/
theorem gd_queueArm {s : St} (w : Who) (h : GD s) {x : Snd} (hx : x ∈ s.sends) (hxw : x.who = w)
    (hxp : x.phase = .write) :
    GD { setPhase s w .armWait with mWait := s.mWait ++ [.sender w] } := by
  have hnq : MW.sender w ∉ s.mWait := by
    rw [← hxw]; exact not_queued_of_phase h hx (by rw [hxp]; simp) (by rw [hxp]; simp)
  have h1 := gd_mapW w (fun y => { y with phase := .armWait }) h (fun _ => rfl) hnq
    (fun y hp => by cases hp)
  have hnew : phaseOf (s.sends.map (fun y => if y.who == w then { y with phase := Phase.armWait } else y)) w
      = some .armWait := by
    rw [phaseOf_map_self _ w (fun y => { y with phase := Phase.armWait }) (fun _ => rfl)]
    have := phaseOf_of_mem h.whoNodup hx
    rw [hxw] at this
    simp only [phaseOf, Option.map_eq_some_iff] at this
    obtain ⟨a, ha, _⟩ := this
    rw [ha]; rfl
  exact {
    whoNodup := h1.whoNodup
    writerSnd := h1.writerSnd
    directHanded := h1.directHanded
    queued := fun w' hw' => by
      rcases List.mem_append.1 hw' with hw' | hw'
      · exact h1.queued w' hw'
      · simp only [List.mem_singleton] at hw'; injection hw' with hw'; subst hw'
        exact Or.inr hnew
    qNodup := by
      refine List.nodup_append.2 ⟨h.qNodup, by simp, ?_⟩
      intro a ha b hb
      simp only [List.mem_singleton] at hb
      rw [hb]; intro e; exact hnq (e ▸ ha)
    readerQ := fun hr => by
      rcases List.mem_append.1 hr with hr | hr
      · exact h.readerQ hr
      · simp at hr
    excl := h1.excl
    bound := h1.bound
    eq := fun hl => by
      have := h1.eq hl
      show s.inFlight + cntQ (s.sends.map _) (s.mWait ++ [MW.sender w]) = _
      rw [cntQ_append, cntQ_cons, cntQ_nil]
      simp only [qAdd, hnew]
      exact this
    fifo := fun hl l1 l2 hq => by
      rcases split_snoc _ _ _ _ _ hq with ⟨e, _, _⟩ | ⟨l2', _, hq'⟩
      · cases e
      · exact h1.fifo hl l1 l2' hq'
    armPos := h1.armPos
    i1 := h1.i1
    i2 := h1.i2 }

/-- a sender that has `inFlightM` and is not queued: done if nothing is in flight, else arm -/
theorem gd_senderAtM {s : St} (w : Who) (h : GD s) (hm : mHeld s = false)
    (hnq : MW.sender w ∉ s.mWait) : GD (senderAtM s w) := by
  simp only [senderAtM]
  split
  · rename_i h0
    exact gd_finishSend w h hnq (fun _ hp => by omega)
  · rename_i h0
    obtain ⟨_, hc⟩ := not_mHeld hm
    exact gd_mapW w (fun y => { y with phase := .arm }) h (fun _ => rfl) hnq
      (fun _ _ => ⟨hc, Nat.pos_of_ne_zero h0⟩)

/-- T4: the head of the queue is a pending `inFlight++` and `inFlightM` is free -/
theorem gd_popAdd {s : St} {n : Nat} {w : Who} {rest : List MW} (h : GD s)
    (hq : s.mWait = MW.sender w :: rest) (hp : phaseOf s.sends w = some .addWait)
    (hm : mHeld s = false) (hn : n = (s.inFlight + 1) % uint32) :
    GD (popAddN s n w rest) := by
  obtain ⟨hna, hnc⟩ := not_mHeld hm
  have hnd := h.qNodup
  rw [hq] at hnd
  have hnq : MW.sender w ∉ rest := (List.nodup_cons.1 hnd).1
  have hsub : ∀ x, x ∈ rest → x ∈ s.mWait := fun x hx => by rw [hq]; exact List.mem_cons_of_mem _ hx
  have hgw : ∀ y : Snd, (if y.who == w then addG s y else y).who = y.who := by
    intro y; split <;> rfl
  have hph : ∀ w', MW.sender w' ∈ rest →
      phaseOf (s.sends.map (fun y => if y.who == w then addG s y else y)) w' = phaseOf s.sends w' :=
    fun w' hw' => phaseOf_map_ne _ _ _ (addG s) (fun _ => rfl) (fun e => hnq (e ▸ hw'))
  have hcnt : Live s → n = s.inFlight + 1 := fun hl => by
    have := h.eq hl
    rw [hq, cntQ_cons] at this
    simp only [qAdd, hp, beq_self_eq_true, if_true] at this
    have := h.bound
    have := hl.2
    simp only [uint32] at *; omega
  have hex : ∃ x ∈ s.sends, x.who = w := by
    obtain ⟨x, hx, hxw, _⟩ := phaseOf_some_mem hp; exact ⟨x, hx, hxw⟩
  exact {
    whoNodup := by
      show ((s.sends.map (fun y => if y.who == w then addG s y else y)).map (fun x : Snd => x.who)).Nodup
      rw [map_who_map _ _ hgw]; exact h.whoNodup
    writerSnd := fun x hx hxw => by
      obtain ⟨y, hy, rfl⟩ := List.mem_map.1 hx
      rw [hgw y] at hxw; exact h.writerSnd y hy hxw
    directHanded := fun x hx c hxw => by
      obtain ⟨y, hy, rfl⟩ := List.mem_map.1 hx
      rw [hgw y] at hxw; exact h.directHanded y hy c hxw
    queued := fun w' hw' => by
      show phaseOf (s.sends.map _) w' = _ ∨ phaseOf (s.sends.map _) w' = _
      rw [hph w' hw']; exact h.queued w' (hsub _ hw')
    qNodup := (List.nodup_cons.1 hnd).2
    readerQ := fun hr => h.readerQ (hsub _ hr)
    excl := fun hc => by
      rw [show (popAddN s n w rest).reader = s.reader from rfl, hnc] at hc
      cases hc
    bound := h.bound
    eq := fun hl => by
      have h1 := h.eq hl
      rw [hq, cntQ_cons] at h1
      simp only [qAdd, hp, beq_self_eq_true, if_true] at h1
      have := hcnt hl
      show n + cntQ (s.sends.map _) rest = s.sent.length + s.reader.dw
      rw [cntQ_congr (fun w' hw' => hph w' hw')]
      omega
    fifo := fun hl l1 l2 _ => by
      have := hcnt hl
      show 1 ≤ n + _
      omega
    armPos := fun hl x hx hp' => by
      have := hcnt hl
      show 0 < n
      omega
    i1 := fun hl _ => by
      have := hcnt hl
      exact Or.inl (show 0 < n by omega)
    i2 := fun _ _ => Or.inr (by
      show s.sends.map _ ≠ []
      obtain ⟨x, hx, _⟩ := hex
      intro e
      rw [List.map_eq_nil_iff] at e
      rw [e] at hx; cases hx) }

/-! ### §5.4 the reader's count-down and the queue hand-off -/

/-- The reader, having unregistered an item (the state is as if it were waiting for `inFlightM`),
not queued any more, no sender inside the arming call, the counter positive: it counts down. -/
theorem gd_readerAtN {s : St} {n id : Nat} {it : Item} {f : Frame}
    (h : GD { s with reader := .downWait id it f }) (hrq : MW.reader ∉ s.mWait)
    (ha : ∀ x ∈ s.sends, x.phase ≠ .arm) (hpos : Live s → 1 ≤ s.inFlight)
    (hf : f ≠ .badHeader) (hn : n = (s.inFlight + uint32 - 1) % uint32) :
    GD (readerAtN s n id it f) := by
  have hb : s.sent.length + 1 ≤ s.nextId := h.bound
  have hcnt : Live s → n + 1 = s.inFlight ∧ s.inFlight + cntQ s.sends s.mWait = s.sent.length + 1 :=
    fun hl => by
      have h1 : s.inFlight + cntQ s.sends s.mWait = s.sent.length + 1 := h.eq hl
      have := hl.2
      have := hpos hl
      simp only [uint32] at *
      exact ⟨by omega, h1⟩
  have hnr : ∀ l1 l2, s.mWait = l1 ++ MW.reader :: l2 → False := fun l1 l2 hq =>
    hrq (by rw [hq]; exact List.mem_append_right _ (List.mem_cons_self ..))
  simp only [readerAtN]
  split
  · rename_i h0
    exact {
      whoNodup := h.whoNodup
      writerSnd := h.writerSnd
      directHanded := h.directHanded
      queued := h.queued
      qNodup := h.qNodup
      readerQ := fun hr => absurd hr hrq
      excl := fun _ => ha
      bound := by show s.sent.length + 0 ≤ s.nextId; omega
      eq := fun hl => by
        have := hcnt hl
        show n + cntQ s.sends s.mWait = s.sent.length + 0
        omega
      fifo := fun _ l1 l2 hq => (hnr l1 l2 hq).elim
      armPos := fun _ x hx hp => absurd hp (ha x hx)
      i1 := fun _ _ => Or.inr rfl
      i2 := fun _ hp => by
        have : 0 < n := hp
        omega }
  · rename_i h0
    refine gd_finishFrame ?_ hf
    exact {
      whoNodup := h.whoNodup
      writerSnd := h.writerSnd
      directHanded := h.directHanded
      queued := h.queued
      qNodup := h.qNodup
      readerQ := fun hr => absurd hr hrq
      excl := fun hc => by cases hc
      bound := by show s.sent.length + 0 ≤ s.nextId; omega
      eq := fun hl => by
        have := hcnt hl
        show n + cntQ s.sends s.mWait = s.sent.length + 0
        omega
      fifo := fun _ l1 l2 hq => (hnr l1 l2 hq).elim
      armPos := fun _ x hx hp => absurd hp (ha x hx)
      i1 := fun _ _ => Or.inl (Nat.pos_of_ne_zero h0)
      i2 := fun hl _ => by
        have h1 := (hcnt hl).1
        rcases h.i2 hl (by show 0 < s.inFlight; omega) with h2 | h2
        · exact Or.inl ⟨h2.1, rfl⟩
        · exact Or.inr h2 }

theorem gd_wakeM (n : Nat) {s : St} (hg : GR s) (h : GD s) : GD (wakeM n s) := by
  induction n generalizing s with
  | zero => exact h
  | succ n ih =>
    simp only [wakeM]
    split
    · exact h
    · rename_i hm
      have hm : mHeld s = false := by simpa using hm
      split
      · exact h
      · rename_i w rest hq
        have hnd := h.qNodup
        rw [hq] at hnd
        have hg1 : GR { s with mWait := rest } := ⟨go_repack hg.go, hg.held⟩
        split
        · rename_i x hx
          have hph : phaseOf s.sends w = some x.phase := by
            simp only [phaseOf]
            rw [show s.sends.find? (fun x => x.who == w) = some x from hx]; rfl
          split
          · rename_i hp
            have hp : x.phase = .addWait := by simpa using hp
            have hg2 := gr_senderAdd w hg1
            rw [senderAdd_eq, popAddN_eq] at hg2 ⊢
            exact ih hg2 (gd_popAdd h hq (by rw [hph, hp]) hm rfl)
          · rename_i hp
            have hq0 : qAdd s.sends (MW.sender w) = false := by
              simp only [qAdd, hph]
              cases hx' : x.phase <;> simp_all
            have h1 := gd_pop0 h hq hq0
            split
            · exact ih (gr_senderAtM w hg1) (gd_senderAtM w h1 hm (List.nodup_cons.1 hnd).1)
            · exact ih hg1 h1
        · rename_i hx
          have hq0 : qAdd s.sends (MW.sender w) = false := by
            simp only [qAdd, phaseOf]
            rw [show s.sends.find? (fun x => x.who == w) = none from hx]; rfl
          exact ih hg1 (gd_pop0 h hq hq0)
      · rename_i rest hq
        have hnd := h.qNodup
        rw [hq] at hnd
        have hg1 : GR { s with mWait := rest } := ⟨go_repack hg.go, hg.held⟩
        have h1 := gd_pop0 h hq rfl
        split
        · rename_i id it f hr
          have hh : s.reader.held = some (id, it, f) := by rw [hr]; rfl
          have hg2 : GR (readerAtM { s with mWait := rest } id it f) := by
            refine gr_readerAtM ?_ (hg.held _ _ _ hh).1 (hg.held _ _ _ hh).2
            have := hg.go; rw [Reader.calls_of_some hh] at this; exact go_repack this
          rw [readerAtM_eq] at hg2 ⊢
          have h2 : GD { s with mWait := rest, reader := s.reader } := h1
          rw [hr] at h2
          refine ih hg2 (gd_readerAtN h2 (List.nodup_cons.1 hnd).1 (not_mHeld hm).1 ?_
            (hg.held _ _ _ hh).1 rfl)
          intro hl
          have := h.fifo hl [] rest hq
          simpa [cntQ_nil] using this
        · exact ih hg1 h1

theorem gd_releaseM {s : St} (hg : GR s) (h : GD s) : GD (releaseM s) := gd_wakeM _ hg h

/-! ### §5.5 `Rest`: between two actions nobody waits for a free `inFlightM` -/

def Rest (s : St) : Prop := mHeld s = false → s.mWait = []

def hasArm (l : List Snd) : Bool := l.any (fun x => x.phase == .arm)

theorem mHeld_eq' (s : St) : mHeld s = (hasArm s.sends || s.reader.isClearing) := mHeld_eq s

theorem hasArm_iff (l : List Snd) : hasArm l = true ↔ ∃ x ∈ l, x.phase = .arm := by
  simp [hasArm, List.any_eq_true]

theorem who_inj {l : List Snd} (hnd : (l.map (·.who)).Nodup) {x y : Snd} (hx : x ∈ l) (hy : y ∈ l)
    (e : x.who = y.who) : x = y := by
  induction l with
  | nil => cases hx
  | cons a l ih =>
    simp only [List.map_cons, List.nodup_cons] at hnd
    rcases List.mem_cons.1 hx with hxa | hxl
    · rcases List.mem_cons.1 hy with hya | hyl
      · rw [hxa, hya]
      · refine absurd ?_ hnd.1
        rw [← hxa, e]; exact List.mem_map_of_mem hyl
    · rcases List.mem_cons.1 hy with hya | hyl
      · refine absurd ?_ hnd.1
        rw [← hya, ← e]; exact List.mem_map_of_mem hxl
      · exact ih hnd.2 hxl hyl

/-- rewriting the (unique) send of `w`, which is not arming and does not become arming -/
theorem hasArm_mapW {l : List Snd} (hnd : (l.map (·.who)).Nodup) (w : Who) (g : Snd → Snd)
    {x : Snd} (hx : x ∈ l) (hxw : x.who = w) (hxp : x.phase ≠ .arm) (hgp : (g x).phase ≠ .arm) :
    hasArm (l.map (fun y => if y.who == w then g y else y)) = hasArm l := by
  rw [Bool.eq_iff_iff, hasArm_iff, hasArm_iff]
  constructor
  · rintro ⟨y', hy', hp⟩
    obtain ⟨y, hy, rfl⟩ := List.mem_map.1 hy'
    by_cases hw : y.who = w
    · have : y = x := who_inj hnd hy hx (by rw [hw, hxw])
      subst this
      simp only [hw, beq_self_eq_true, if_true] at hp
      exact absurd hp hgp
    · have : (y.who == w) = false := by simpa using hw
      simp only [this] at hp
      exact ⟨y, hy, hp⟩
  · rintro ⟨y, hy, hp⟩
    have hw : y.who ≠ w := fun hw => by
      have : y = x := who_inj hnd hy hx (by rw [hw, hxw])
      subst this; exact hxp hp
    refine ⟨y, List.mem_map.2 ⟨y, hy, ?_⟩, hp⟩
    have : (y.who == w) = false := by simpa using hw
    simp [this]

theorem hasArm_filterW {l : List Snd} (hnd : (l.map (·.who)).Nodup) (w : Who)
    {x : Snd} (hx : x ∈ l) (hxw : x.who = w) (hxp : x.phase ≠ .arm) :
    hasArm (l.filter (fun y => y.who != w)) = hasArm l := by
  rw [Bool.eq_iff_iff, hasArm_iff, hasArm_iff]
  constructor
  · rintro ⟨y, hy, hp⟩
    exact ⟨y, (List.mem_filter.1 hy).1, hp⟩
  · rintro ⟨y, hy, hp⟩
    have hw : y.who ≠ w := fun hw => by
      have : y = x := who_inj hnd hy hx (by rw [hw, hxw])
      subst this; exact hxp hp
    exact ⟨y, List.mem_filter.2 ⟨hy, by simpa using hw⟩, hp⟩

theorem wakeM_of_held (n : Nat) {s : St} (h : mHeld s = true) : wakeM n s = s := by
  cases n with
  | zero => rfl
  | succ n => simp only [wakeM, h, if_true]

theorem mWait_finishFrame (s : St) (id : Nat) (it : Item) (f : Frame) :
    (finishFrame s id it f).mWait = s.mWait := by
  rw [finishFrame_eq]
  split
  · rfl
  · split
    · rfl
    · split
      · exact mWait_failConn _
      · rfl

theorem mWait_readerAtM (s : St) (id : Nat) (it : Item) (f : Frame) :
    (readerAtM s id it f).mWait = s.mWait := by
  rw [readerAtM_eq]
  generalize (s.inFlight + uint32 - 1) % uint32 = n
  simp only [readerAtN]
  split
  · rfl
  · exact mWait_finishFrame _ _ _ _

theorem mWait_finishSend_of_free (s : St) (w : Who) (hm : mHeld (finishSend s w) = false) :
    (finishSend s w).mWait = s.mWait := by
  revert hm
  simp only [finishSend]
  split
  · intro hm; exact mWait_writerLoop_of_free _ hm
  · intro _; rfl

theorem mWait_senderAtM_of_free (s : St) (w : Who) (hm : mHeld (senderAtM s w) = false) :
    (senderAtM s w).mWait = s.mWait := by
  revert hm
  simp only [senderAtM]
  split
  · intro hm; exact mWait_finishSend_of_free s w hm
  · intro _; rfl

theorem rest_wakeM (n : Nat) (s : St) (hn : s.mWait.length < n) : Rest (wakeM n s) := by
  induction n generalizing s with
  | zero => omega
  | succ n ih =>
    have step : ∀ s' : St, (mHeld s' = false → s'.mWait.length < n) → Rest (wakeM n s') := by
      intro s' hs'
      cases hm : mHeld s'
      · exact ih s' (hs' hm)
      · rw [wakeM_of_held n hm]; intro h; rw [hm] at h; cases h
    simp only [wakeM]
    split
    · rename_i hm; intro h; rw [h] at hm; simp at hm
    · split
      · rename_i hq; intro _; exact hq
      · rename_i w rest hq
        rw [hq] at hn
        simp only [List.length_cons] at hn
        split
        · split
          · exact step _ (fun _ => by show rest.length < n; omega)
          · split
            · refine step _ (fun hm => ?_)
              rw [mWait_senderAtM_of_free _ _ hm]
              show rest.length < n; omega
            · exact step _ (fun _ => by show rest.length < n; omega)
        · exact step _ (fun _ => by show rest.length < n; omega)
      · rename_i rest hq
        rw [hq] at hn
        simp only [List.length_cons] at hn
        split
        · refine step _ (fun _ => ?_)
          rw [mWait_readerAtM]
          show rest.length < n; omega
        · exact step _ (fun _ => by show rest.length < n; omega)

theorem rest_releaseM (s : St) : Rest (releaseM s) := rest_wakeM _ s (Nat.lt_succ_self _)

theorem clr_failConn (s : St) : (failConn s).reader.isClearing = s.reader.isClearing := by
  rw [failConn_eq]
  split
  · rfl
  · exact failReader_clr s.reader

theorem mHeld_failConn (s : St) : mHeld (failConn s) = mHeld s := by
  rw [mHeld_eq', mHeld_eq', sends_failConn, clr_failConn]

theorem clr_sendFailed (s : St) (snd : Snd) :
    (sendFailed s snd).reader.isClearing = s.reader.isClearing := by
  simp only [sendFailed]; split <;> exact clr_failConn s

theorem mHeld_releaseWriteM {s : St} (h : GD s) : mHeld (releaseWriteM s) = mHeld s := by
  simp only [releaseWriteM]
  split
  · rename_i x hx
    have hxm : x ∈ s.sends := List.mem_of_find?_eq_some hx
    have hxp : x.phase = .lockWait := by simpa using List.find?_some hx
    rw [mHeld_eq', mHeld_eq']
    show (hasArm (s.sends.map _) || s.reader.isClearing) = _
    rw [hasArm_mapW h.whoNodup x.who (fun y => { y with phase := .write }) hxm rfl
      (by rw [hxp]; simp) (by simp)]
  · rfl

theorem mHeld_regSend_mono (s : St) (w : Who) (it : Item) (h : mHeld s = true) :
    mHeld (regSend s w it) = true := by
  rw [mHeld_eq'] at h ⊢
  rw [Bool.or_eq_true] at h ⊢
  rcases h with h | h
  · left
    rw [hasArm_iff] at h ⊢
    obtain ⟨x, hx, hp⟩ := h
    exact ⟨x, List.mem_append_left _ hx, hp⟩
  · exact Or.inr h

theorem rest_startSend {s : St} (w : Who) (it : Item) (hr : Rest s) : Rest (startSend s w it) := by
  intro hm
  rw [mWait_startSend_of_free s w it hm]
  apply hr
  cases hs : mHeld s
  · rfl
  · have h1 := mHeld_regSend_mono s w it hs
    rw [startSend_eq', if_pos h1] at hm
    exact absurd (show mHeld (regSend s w it) = false from hm) (by rw [h1]; simp)

theorem mHeld_startSend_mono (s : St) (w : Who) (it : Item) (h : mHeld s = true) :
    mHeld (startSend s w it) = true := by
  have h1 := mHeld_regSend_mono s w it h
  rw [startSend_eq', if_pos h1]
  exact h1

theorem mHeld_writerLoop_mono (s : St) (h : mHeld s = true) : mHeld (writerLoop s) = true := by
  refine writerLoop_ind (Q := fun s' => mHeld s' = true) s h ?_ ?_ ?_
  · intro s' h; exact h
  · intro s' h _ _; exact h
  · intro s' h _ _; exact mHeld_startSend_mono _ _ _ h

theorem rest_writerLoop {s : St} (hr : Rest s) : Rest (writerLoop s) := by
  intro hm
  rw [mWait_writerLoop_of_free s hm]
  apply hr
  cases hs : mHeld s
  · rfl
  · rw [mHeld_writerLoop_mono s hs] at hm; cases hm

/-- the send of `w` (not arming) is over: `inFlightM` is held afterwards iff it was before -/
theorem mHeld_finishSend_free {s : St} (h : GD s) (w : Who) {x : Snd} (hx : x ∈ s.sends)
    (hxw : x.who = w) (hxp : x.phase ≠ .arm) (hm : mHeld (finishSend s w) = false) :
    mHeld s = false := by
  have key : mHeld { s with sends := s.sends.filter (fun y => y.who != w) } = mHeld s := by
    rw [mHeld_eq', mHeld_eq']
    show (hasArm (s.sends.filter _) || s.reader.isClearing) = _
    rw [hasArm_filterW h.whoNodup w hx hxw hxp]
  rw [← key]
  revert hm
  simp only [finishSend]
  split
  · intro hm
    cases hs : mHeld { s with sends := s.sends.filter (fun y => y.who != w) }
    · rfl
    · have := mHeld_writerLoop_mono { s with sends := s.sends.filter (fun y => y.who != w), writerBusy := false } hs
      rw [this] at hm; cases hm
  · exact fun hm => hm

theorem length_erase (l : List (Nat × Item)) (id : Nat) (p : Nat × Item)
    (hnd : (l.map (·.1)).Nodup) (hf : l.find? (·.1 == id) = some p) :
    (l.filter (fun q => q.1 != id)).length + 1 = l.length := by
  induction l with
  | nil => simp at hf
  | cons a l ih =>
    simp only [List.map_cons, List.nodup_cons] at hnd
    by_cases ha : a.1 = id
    · have : l.filter (fun q => q.1 != id) = l := by
        apply List.filter_eq_self.2
        intro q hq
        have : q.1 ≠ a.1 := fun e => hnd.1 (e ▸ List.mem_map_of_mem hq)
        simp [← ha, this]
      simp [ha, this]
    · have hb : (a.1 == id) = false := by simp [ha]
      simp only [List.find?_cons, hb] at hf
      have := ih hnd.2 hf
      simp only [List.filter_cons, bne, hb, Bool.not_false, if_true, List.length_cons]
      simp only [bne] at this
      omega

/-- `read`: the reader unregisters the item and is now (as if) waiting to count down -/
theorem gd_erase {s : St} {id : Nat} {it : Item} (f : Frame) (h : GD s) (hr : s.reader = .reading)
    (hnd : (s.sent.map (·.1)).Nodup) (hl : lookupSent s id = some it) :
    GD { eraseSent s id with reader := .downWait id it f } := by
  have hlen := length_erase s.sent id (id, it) hnd (lookupSent_some hl)
  have hb := h.bound
  rw [hr] at hb
  have hrq : MW.reader ∉ s.mWait := fun hq => by have := h.readerQ hq; rw [hr] at this; cases this
  exact {
    whoNodup := h.whoNodup
    writerSnd := h.writerSnd
    directHanded := h.directHanded
    queued := h.queued
    qNodup := h.qNodup
    readerQ := fun _ => rfl
    excl := fun hc => by cases hc
    bound := by
      show (s.sent.filter (fun p => p.1 != id)).length + 1 ≤ s.nextId
      have : s.sent.length + 0 ≤ s.nextId := hb
      omega
    eq := fun hl' => by
      have := h.eq hl'
      rw [hr] at this
      show s.inFlight + cntQ s.sends s.mWait = (s.sent.filter (fun p => p.1 != id)).length + 1
      have : s.inFlight + cntQ s.sends s.mWait = s.sent.length + 0 := this
      omega
    fifo := fun _ l1 l2 hq =>
      (hrq (by rw [show s.mWait = l1 ++ MW.reader :: l2 from hq]; exact List.mem_append_right _ (List.mem_cons_self ..))).elim
    armPos := h.armPos
    i1 := fun hl' ha => by
      rcases h.i1 hl' ha with h1 | h1
      · exact Or.inl h1
      · rw [hr] at h1; cases h1
    i2 := fun hl' hp => by
      rcases h.i2 hl' hp with h2 | h2
      · exact Or.inl ⟨h2.1, rfl⟩
      · exact Or.inr h2 }

/-- the reader queues up for `inFlightM`: by then everything queued before it has been counted -/
theorem gd_enqueueR {s : St} (h : GD s) (hdw : s.reader.dw = 1) (hrq : MW.reader ∉ s.mWait) :
    GD { s with mWait := s.mWait ++ [.reader] } where
  whoNodup := h.whoNodup
  writerSnd := h.writerSnd
  directHanded := h.directHanded
  queued w hw := by
    rcases List.mem_append.1 hw with hw | hw
    · exact h.queued w hw
    · simp at hw
  qNodup := by
    refine List.nodup_append.2 ⟨h.qNodup, by simp, ?_⟩
    intro a ha b hb
    simp only [List.mem_singleton] at hb
    rw [hb]; intro e; exact hrq (e ▸ ha)
  readerQ _ := hdw
  excl := h.excl
  bound := h.bound
  eq hl := by
    have := h.eq hl
    show s.inFlight + cntQ s.sends (s.mWait ++ [MW.reader]) = _
    rw [cntQ_append, cntQ_cons, cntQ_nil]
    simpa [qAdd] using this
  fifo hl l1 l2 hq := by
    rcases split_snoc _ _ _ _ _ hq with ⟨_, e, _⟩ | ⟨l2', _, hq'⟩
    · have := h.eq hl
      show 1 ≤ s.inFlight + cntQ s.sends l1
      rw [e, this, hdw]; omega
    · exact (hrq (by rw [hq']; exact List.mem_append_right _ (List.mem_cons_self ..))).elim
  armPos := h.armPos
  i1 := h.i1
  i2 := h.i2

/-! ### §5.6 per-action preservation of `GD` and `Rest` -/

/-- `handed` grows, irrelevant fields change -/
theorem gd_handed {s : St} (h : GD s) (c : Nat) (dl : List Dlv) (dr : List Nat) (off : List Nat)
    (pz : List Nat := s.poison) :
    GD { s with handed := s.handed ++ [c], delivered := dl, dropped := dr, offered := off,
                poison := pz } :=
  ⟨h.whoNodup, h.writerSnd, fun x hx c' hw => List.mem_append_left _ (h.directHanded x hx c' hw),
   h.queued, h.qNodup, h.readerQ, h.excl, h.bound, h.eq, h.fifo, h.armPos, h.i1, h.i2⟩

theorem gdr_queueBatched {s s' : St} {c : Nat} (h : GD s) (hr : Rest s)
    (hs : step s (.queueBatched c) = some s') : GD s' ∧ Rest s' := by
  simp only [step] at hs
  split at hs
  · cases hs
  · split at hs
    · cases hs
    · split at hs
      · injection hs with hs; subst hs
        exact ⟨gd_handed h c _ _ _, hr⟩
      · injection hs with hs; subst hs
        exact ⟨gd_writerLoop (gd_handed h c _ _ _), rest_writerLoop (s := { s with handed := _, offered := _ }) hr⟩

theorem gdr_queueBatchedUnsendable {s s' : St} {c : Nat} (h : GD s) (hr : Rest s)
    (hs : step s (.queueBatchedUnsendable c) = some s') : GD s' ∧ Rest s' := by
  simp only [step] at hs
  split at hs
  · cases hs
  · split at hs
    · cases hs
    · split at hs
      · injection hs with hs; subst hs
        exact ⟨gd_handed h c _ _ _, hr⟩
      · injection hs with hs; subst hs
        exact ⟨gd_writerLoop (gd_handed h c _ _ _ (s.poison ++ [c])),
          rest_writerLoop (s := { s with handed := _, offered := _, poison := _ }) hr⟩

theorem gdr_queueDirect {s s' : St} {c : Nat} (h : GD s) (hr : Rest s)
    (hs : step s (.queueDirect c) = some s') : GD s' ∧ Rest s' := by
  simp only [step] at hs
  split at hs
  · cases hs
  · rename_i hc
    have hc : c ∉ s.handed := by simpa using hc
    split at hs
    · split at hs
      · cases hs
      · injection hs with hs; subst hs
        exact ⟨gd_handed h c _ _ _, hr⟩
    · split at hs
      · injection hs with hs; subst hs
        exact ⟨gd_handed h c _ _ _, hr⟩
      · injection hs with hs; subst hs
        refine ⟨gd_startSend _ _ (gd_handed h c s.delivered s.dropped s.offered) ?_ (fun e => by cases e) ?_,
          rest_startSend (s := { s with handed := _ }) _ _ hr⟩
        · intro x hx hw
          exact hc (h.directHanded x hx c hw)
        · intro c' e
          injection e with e; subst e
          exact List.mem_append_right _ (List.mem_singleton.2 rfl)

theorem handed_failConn (s : St) : (failConn s).handed = s.handed := by
  rw [failConn_eq]; split <;> rfl

theorem rest_failConn {s : St} (hr : Rest s) : Rest (failConn s) := by
  intro hm
  rw [mWait_failConn]
  apply hr
  rw [← mHeld_failConn]; exact hm

theorem gdr_queueDirectClosing {s s' : St} {c : Nat} (h : GD s) (hr : Rest s)
    (hs : step s (.queueDirectClosing c) = some s') : GD s' ∧ Rest s' := by
  simp only [step] at hs
  split at hs
  · cases hs
  · rename_i hc
    have hc : c ∉ s.handed := by simpa using hc
    split at hs
    · split at hs
      · cases hs
      · injection hs with hs; subst hs
        exact ⟨gd_handed h c _ _ _, hr⟩
    · split at hs
      · injection hs with hs; subst hs
        exact ⟨gd_handed h c _ _ _, hr⟩
      · injection hs with hs; subst hs
        refine ⟨gd_startSend _ _ (gd_failConn (gd_handed h c s.delivered s.dropped s.offered)) ?_
          (fun e => by cases e) ?_,
          rest_startSend _ _ (rest_failConn (s := { s with handed := _ }) hr)⟩
        · intro x hx hw
          rw [sends_failConn] at hx
          exact hc (h.directHanded x hx c hw)
        · intro c' e
          injection e with e; subst e
          rw [handed_failConn]
          exact List.mem_append_right _ (List.mem_singleton.2 rfl)

theorem gdr_queueUnsendable {s s' : St} {c : Nat} (h : GD s) (hr : Rest s)
    (hs : step s (.queueUnsendable c) = some s') : GD s' ∧ Rest s' := by
  simp only [step] at hs
  split at hs
  · cases hs
  · split at hs
    · split at hs
      · cases hs
      · injection hs with hs; subst hs
        exact ⟨gd_handed h c _ _ _, hr⟩
    · split at hs
      · injection hs with hs; subst hs
        exact ⟨gd_handed h c _ _ _, hr⟩
      · injection hs with hs; subst hs
        refine ⟨?_, hr⟩
        exact {
          whoNodup := h.whoNodup
          writerSnd := h.writerSnd
          directHanded := fun x hx c' hw => List.mem_append_left _ (h.directHanded x hx c' hw)
          queued := h.queued
          qNodup := h.qNodup
          readerQ := h.readerQ
          excl := h.excl
          bound := Nat.le_succ_of_le h.bound
          eq := fun hl => h.eq (live_succ hl s rfl rfl).1
          fifo := fun hl => h.fifo (live_succ hl s rfl rfl).1
          armPos := fun hl => h.armPos (live_succ hl s rfl rfl).1
          i1 := fun hl => h.i1 (live_succ hl s rfl rfl).1
          i2 := fun hl => h.i2 (live_succ hl s rfl rfl).1 }

theorem gdr_cancel {s s' : St} {c : Nat} (h : GD s) (hr : Rest s)
    (hs : step s (.cancel c) = some s') : GD s' ∧ Rest s' := by
  simp only [step] at hs
  split at hs
  · cases hs
  · injection hs with hs; subst hs
    exact ⟨gd_repack h, hr⟩

theorem gdr_write {s s' : St} {w : Who} {last : Bool} {r : IO} (h : GD s) (hr : Rest s)
    (hs : step s (.write w last r) = some s') : GD s' ∧ Rest s' := by
  have henv := (envOK_write hs).1
  have hs := (envOK_write hs).2
  simp only [writeCore] at hs
  split at hs
  · cases hs
  · rename_i snd hf
    obtain ⟨hx, hxw, hxp⟩ := findSend_some hf
    have hnq : MW.sender w ∉ s.mWait := by
      rw [← hxw]; exact not_queued_of_phase h hx (by rw [hxp]; simp) (by rw [hxp]; simp)
    have h1 := gd_releaseWriteM h
    obtain ⟨x', hx', hx'w, hx'p⟩ := sends_releaseWriteM_phase hx hxp
    rw [hxw] at hx'w
    split at hs
    · injection hs with hs; subst hs
      have h2 := gd_sendFailed snd h1
      have hx2 : x' ∈ (sendFailed (releaseWriteM s) snd).sends := by rw [sends_sendFailed]; exact hx'
      refine ⟨gd_finishSend w h2 ?_ (fun hl => absurd hl (not_live (done_sendFailed _ _))), ?_⟩
      · rw [mWait_sendFailed, mWait_releaseWriteM]; exact hnq
      · intro hm
        rw [mWait_finishSend_of_free _ _ hm, mWait_sendFailed, mWait_releaseWriteM]
        apply hr
        have := mHeld_finishSend_free h2 w hx2 hx'w (by rw [hx'p]; simp) hm
        rw [mHeld_eq', sends_sendFailed, clr_sendFailed, ← mHeld_eq', mHeld_releaseWriteM h] at this
        exact this
    · split at hs
      · injection hs with hs; subst hs; exact ⟨h, hr⟩
      · split at hs
        · rename_i hm
          injection hs with hs; subst hs
          refine ⟨gd_queueArm w h1 hx' hx'w hx'p, ?_⟩
          intro hm'
          exfalso
          have e : mHeld { setPhase (releaseWriteM s) w .armWait with
              mWait := (releaseWriteM s).mWait ++ [.sender w] } = mHeld (releaseWriteM s) := by
            rw [mHeld_eq', mHeld_eq']
            show (hasArm ((releaseWriteM s).sends.map _) || (releaseWriteM s).reader.isClearing) = _
            rw [hasArm_mapW h1.whoNodup w (fun y => { y with phase := .armWait }) hx' hx'w
              (by rw [hx'p]; simp) (by simp)]
          rw [e, hm] at hm'; cases hm'
        · rename_i hm
          have hm : mHeld (releaseWriteM s) = false := by simpa using hm
          injection hs with hs; subst hs
          refine ⟨gd_senderAtM w h1 hm (by rw [mWait_releaseWriteM]; exact hnq), ?_⟩
          intro hm'
          rw [mWait_senderAtM_of_free _ _ hm', mWait_releaseWriteM]
          apply hr
          rw [← mHeld_releaseWriteM h]; exact hm

theorem gdr_arm {s s' : St} {w : Who} {r : IO} (hg : GR s) (h : GD s)
    (hs : step s (.arm w r) = some s') : GD s' ∧ Rest s' := by
  have henv := (envOK_arm hs).1
  have hs := (envOK_arm hs).2
  simp only [armCore] at hs
  split at hs
  · cases hs
  · rename_i snd hf
    obtain ⟨hx, hxw, hxp⟩ := findSend_some hf
    have hnq : MW.sender w ∉ s.mWait := by
      rw [← hxw]; exact not_queued_of_phase h hx (by rw [hxp]; simp) (by rw [hxp]; simp)
    split at hs
    · injection hs with hs; subst hs
      have hnc : s.reader.isClearing = false := by
        cases hc : s.reader.isClearing
        · rfl
        · exact absurd hxp (h.excl hc snd hx)
      have h0 : GD { s with armed := true } :=
        ⟨h.whoNodup, h.writerSnd, h.directHanded, h.queued, h.qNodup, h.readerQ, h.excl, h.bound,
         h.eq, h.fifo, h.armPos, fun hl _ => Or.inl (h.armPos hl snd hx hxp),
         fun _ _ => Or.inl ⟨rfl, hnc⟩⟩
      have hg0 : GR { s with armed := true } := ⟨go_repack hg.go, hg.held⟩
      exact ⟨gd_releaseM (gr_finishSend w hg0) (gd_finishSend w h0 hnq (fun _ _ => ⟨rfl, hnc⟩)),
        rest_releaseM _⟩
    · injection hs with hs; subst hs
      refine ⟨gd_releaseM (gr_finishSend w (gr_sendFailed snd hg))
        (gd_finishSend w (gd_sendFailed snd h) ?_
          (fun hl => absurd hl (not_live (done_sendFailed _ _)))), rest_releaseM _⟩
      rw [mWait_sendFailed]; exact hnq

theorem gd_reader_eq {s : St} {r : Reader} (h : GD s) (e : s.reader = r) :
    GD { s with reader := r } := by
  subst e; exact h

/-- the reader fails the connection and exits (bad header, unexpected id, read error, timeout) -/
theorem gdr_readerFails {s : St} (h : GD s) (hr : Rest s) (hrd : s.reader = .reading) :
    GD { failConn { s with reader := .exited } with reader := .exited } ∧
    Rest { failConn { s with reader := .exited } with reader := .exited } := by
  have hrq : MW.reader ∉ s.mWait := fun hq => by have := h.readerQ hq; rw [hrd] at this; cases this
  have h0 := gd_reader_eq h hrd
  have h1 := gd_idleReader h0 .exited ⟨rfl, rfl⟩
  refine ⟨gd_exit (gd_failConn h1) (done_failConn _) (by rw [mWait_failConn]; exact hrq), ?_⟩
  intro hm
  show (failConn { s with reader := .exited }).mWait = []
  rw [mWait_failConn]
  apply hr
  have e : mHeld { failConn { s with reader := .exited } with reader := .exited } = mHeld s := by
    rw [mHeld_eq', mHeld_eq', hrd]
    show (hasArm (failConn { s with reader := .exited }).sends || false) = _
    rw [sends_failConn]; rfl
  rw [← e]; exact hm

theorem gdr_read {s s' : St} {id : Nat} {f : Frame} (hg : GR s) (h : GD s) (hr : Rest s)
    (hs : step s (.read id f) = some s') : GD s' ∧ Rest s' := by
  simp only [step] at hs
  split at hs
  · cases hs
  · rename_i hrd
    have hrd : s.reader = .reading := by simpa using hrd
    have hrq : MW.reader ∉ s.mWait := fun hq => by have := h.readerQ hq; rw [hrd] at this; cases this
    split at hs
    · injection hs with hs; subst hs; exact gdr_readerFails h hr hrd
    · rename_i hf
      split at hs
      · injection hs with hs; subst hs; exact gdr_readerFails h hr hrd
      · rename_i it hl
        have hf : f ≠ .badHeader := fun e => hf e
        have h1 := gd_erase f h hrd hg.go.idsNodup hl
        split at hs
        · rename_i hm
          injection hs with hs; subst hs
          refine ⟨gd_enqueueR h1 rfl hrq, ?_⟩
          intro hm'
          exfalso
          rw [mHeld_eq'] at hm hm'
          have hm2 : (hasArm s.sends || false) = false := hm'
          have hm3 : (hasArm s.sends || s.reader.isClearing) = true := hm
          rw [hrd] at hm3
          have hm4 : (hasArm s.sends || false) = true := hm3
          rw [hm2] at hm4; cases hm4
        · rename_i hm
          have hm : mHeld s = false := by
            have : mHeld (eraseSent s id) = false := by simpa using hm
            exact this
          have hmw := hr hm
          injection hs with hs; subst hs
          rw [readerAtM_eq]
          refine ⟨gd_readerAtN h1 hrq (not_mHeld hm).1 ?_ hf rfl, ?_⟩
          · intro hl'
            have := h.eq hl'
            rw [hmw, cntQ_nil, hrd] at this
            have : (eraseSent s id).inFlight = s.sent.length + 0 := this
            have hpos : 0 < s.sent.length := List.length_pos_of_mem (lookupSent_mem hl)
            omega
          · intro _
            rw [← readerAtM_eq, mWait_readerAtM]
            exact hmw

theorem gdr_readErr {s s' : St} (h : GD s) (hr : Rest s)
    (hs : step s .readErr = some s') : GD s' ∧ Rest s' := by
  simp only [step] at hs
  split at hs
  · cases hs
  · rename_i hrd
    injection hs with hs; subst hs
    exact gdr_readerFails h hr (by simpa using hrd)

theorem gdr_timeout {s s' : St} (h : GD s) (hr : Rest s)
    (hs : step s .timeout = some s') : GD s' ∧ Rest s' := by
  simp only [step] at hs
  split at hs
  · cases hs
  · rename_i hrd
    injection hs with hs; subst hs
    refine gdr_readerFails h hr ?_
    simp only [Bool.or_eq_true, not_or] at hrd
    simpa using hrd.1

theorem gdr_clear {s s' : St} {r : IO} (hg : GR s) (h : GD s)
    (hs : step s (.clear r) = some s') : GD s' ∧ Rest s' := by
  simp only [step] at hs
  split at hs
  · rename_i id it f hrd
    have hh : s.reader.held = some (id, it, f) := by rw [hrd]; rfl
    obtain ⟨hf, hw⟩ := hg.held _ _ _ hh
    have hrq : MW.reader ∉ s.mWait := fun hq => by have := h.readerQ hq; rw [hrd] at this; cases this
    have hg0 : GO s it.calls := by
      have := hg.go; rwa [Reader.calls_of_some hh] at this
    split at hs
    · injection hs with hs; subst hs
      have h0 : GD { s with armed := false, reader := .reading } := {
        whoNodup := h.whoNodup
        writerSnd := h.writerSnd
        directHanded := h.directHanded
        queued := h.queued
        qNodup := h.qNodup
        readerQ := fun hq => absurd hq hrq
        excl := fun hc => by cases hc
        bound := by have := h.bound; rw [hrd] at this; exact this
        eq := fun hl => by have := h.eq hl; rw [hrd] at this; exact this
        fifo := h.fifo
        armPos := h.armPos
        i1 := fun _ ha => by cases ha
        i2 := fun hl hp => by
          rcases h.i2 hl hp with h2 | h2
          · have := h2.2; rw [hrd] at this; cases this
          · exact Or.inr h2 }
      have hgr : GR (finishFrame { s with armed := false, reader := .reading } id it f) :=
        gr_of_nil (go_finishFrame (x := []) (by rw [List.append_nil]; exact go_repack hg0) hf hw)
          (held_finishFrame _ _ _ _ hf)
      exact ⟨gd_releaseM hgr (gd_finishFrame h0 hf), rest_releaseM _⟩
    · injection hs with hs; subst hs
      have hu : GU { deliverItem s it .connErr none with reader := Reader.exited } :=
        ⟨h.whoNodup, h.writerSnd, h.directHanded, h.queued, h.qNodup, fun hq => absurd hq hrq,
         (fun hc => by cases hc), (by have := h.bound; rw [hrd] at this; exact this)⟩
      have h1 : GO (deliverItem s it .connErr none) [] :=
        go_deliverItem (x := []) it .connErr none (by rw [List.append_nil]; exact hg0) (fun _ => rfl)
          (fun id hid => by cases hid)
      have h2 : GO { deliverItem s it .connErr none with reader := Reader.exited } [] := go_repack h1
      have hgr : GR { failConn { deliverItem s it .connErr none with reader := .exited } with
          reader := .exited } := gr_of_nil (go_repack (go_failConn h2)) rfl
      refine ⟨gd_releaseM hgr (gd_exit (gd_failConn' hu) (done_failConn _) ?_), rest_releaseM _⟩
      rw [mWait_failConn]; exact hrq
  · cases hs

theorem gdr_close {s s' : St} (h : GD s) (hr : Rest s)
    (hs : step s .close = some s') : GD s' ∧ Rest s' := by
  simp only [step] at hs
  injection hs with hs; subst hs
  refine ⟨gd_failConn h, ?_⟩
  intro hm
  rw [mWait_failConn]
  apply hr
  rw [← mHeld_failConn]; exact hm

/-! ## §6 after the failure: `DS` (a registered item belongs to a send still before/in its write),
`DR` (the reader is not parked in `Read`)

Since `queueDirectClosing` an item can be registered on a connection that is already `done`
(registered after the failure sweep). It is completed by its own sender when that sender's write
fails (`sendFailed` finds it still registered). `DS` needs the environment restriction `envOK`:
on a closed connection a final `Write` cannot succeed. -/

def okPhase (p : Phase) : Prop := p = .addWait ∨ p = .lockWait ∨ p = .write

/-- the only send of its goroutine -/
def Only (l : List Snd) (x : Snd) : Prop := ∀ y ∈ l, y.who = x.who → y = x

def DS (s : St) : Prop :=
  s.done = true → ∀ p ∈ s.sent, ∃ x ∈ s.sends, x.id = p.1 ∧ okPhase x.phase ∧ Only s.sends x

/-- when `done`: goroutine `w` has a send that is past its write, or whose item is not registered -/
def Free (s : St) (w : Who) : Prop :=
  s.done = true → ∃ xf ∈ s.sends, xf.who = w ∧ (¬ okPhase xf.phase ∨ ∀ p ∈ s.sent, p.1 ≠ xf.id)

theorem ds_of_live {s : St} (h : s.done = false) : DS s := fun hd => by rw [h] at hd; cases hd

theorem done_startSend (s : St) (w : Who) (it : Item) : (startSend s w it).done = s.done := by
  rw [startSend_eq']; split <;> rfl

theorem done_writerLoop (s : St) : (writerLoop s).done = s.done := by
  refine writerLoop_ind (Q := fun s' => s'.done = s.done) s rfl ?_ ?_ ?_
  · intro s' h; exact h
  · intro s' h _ _; exact h
  · intro s' h _ _; rw [wlSend, done_startSend]; exact h

theorem done_finishSend (s : St) (w : Who) : (finishSend s w).done = s.done := by
  simp only [finishSend]
  split
  · exact done_writerLoop _
  · rfl

theorem done_releaseWriteM (s : St) : (releaseWriteM s).done = s.done := by
  simp only [releaseWriteM]; split <;> rfl

theorem done_senderAtM (s : St) (w : Who) : (senderAtM s w).done = s.done := by
  simp only [senderAtM]
  split
  · exact done_finishSend s w
  · rfl

theorem ds_failConn {s : St} (h : DS s) : DS (failConn s) := by
  rw [failConn_eq]
  split
  · exact h
  · intro _ p hp; cases hp

/-- same sends, fewer registered items -/
theorem ds_sub {s s' : St} (h : DS s) (hd : s'.done = true → s.done = true)
    (hsends : s'.sends = s.sends) (hsent : ∀ p ∈ s'.sent, p ∈ s.sent) : DS s' := by
  intro hd' p hp
  rw [hsends]
  exact h (hd hd') p (hsent p hp)

theorem ds_sendFailed {s : St} (snd : Snd) (h : DS s) : DS (sendFailed s snd) := by
  have h1 := ds_failConn h
  simp only [sendFailed]
  split
  · exact ds_sub h1 (fun hd => hd) rfl (fun p hp => (List.mem_filter.1 hp).1)
  · exact h1

theorem sent_sendFailed_ne (s : St) (snd : Snd) : ∀ p ∈ (sendFailed s snd).sent, p.1 ≠ snd.id := by
  simp only [sendFailed]
  split
  · intro p hp
    have := (List.mem_filter.1 hp).2
    simpa using this
  · rename_i hl
    intro p hp e
    simp only [lookupSent, Option.map_eq_none_iff, List.find?_eq_none] at hl
    have := hl p hp
    simp [e] at this

/-- rewriting the sends of `w` keeping id and who; either the new phase is still before/in the
write, or `w` is `Free` -/
theorem ds_mapW {s : St} (w : Who) (g : Snd → Snd) (h : DS s) (hgw : ∀ y, (g y).who = y.who)
    (hgi : ∀ y, (g y).id = y.id) (hc : (∀ y, okPhase (g y).phase) ∨ Free s w) :
    DS { s with sends := s.sends.map (fun y => if y.who == w then g y else y) } := by
  intro hd p hp
  have hd : s.done = true := hd
  obtain ⟨x, hx, hxi, hxp, hxo⟩ := h hd p hp
  have hg' : ∀ y : Snd, (if y.who == w then g y else y).who = y.who := by
    intro y; split
    · exact hgw y
    · rfl
  refine ⟨if x.who == w then g x else x, List.mem_map.2 ⟨x, hx, rfl⟩, ?_, ?_, ?_⟩
  · split
    · rw [hgi]; exact hxi
    · exact hxi
  · split
    · rename_i hw
      have hw : x.who = w := by simpa using hw
      rcases hc with hc | hc
      · exact hc x
      · obtain ⟨xf, hxf, hxfw, hxf2⟩ := hc hd
        have : xf = x := hxo xf hxf (by rw [hxfw, hw])
        subst this
        rcases hxf2 with h2 | h2
        · exact absurd hxp h2
        · exact absurd hxi.symm (h2 p hp)
    · exact hxp
  · intro y' hy' hwho
    obtain ⟨y, hy, rfl⟩ := List.mem_map.1 hy'
    rw [hg' y, hg' x] at hwho
    rw [hxo y hy hwho]

theorem ds_filterW {s : St} (w : Who) (h : DS s) (hc : Free s w) :
    DS { s with sends := s.sends.filter (fun x => x.who != w) } := by
  intro hd p hp
  have hd : s.done = true := hd
  obtain ⟨x, hx, hxi, hxp, hxo⟩ := h hd p hp
  have hne : x.who ≠ w := by
    intro hw
    obtain ⟨xf, hxf, hxfw, hxf2⟩ := hc hd
    have : xf = x := hxo xf hxf (by rw [hxfw, hw])
    subst this
    rcases hxf2 with h2 | h2
    · exact h2 hxp
    · exact h2 p hp hxi.symm
  refine ⟨x, List.mem_filter.2 ⟨hx, by simpa using hne⟩, hxi, hxp, ?_⟩
  intro y hy hwho
  exact hxo y (List.mem_filter.1 hy).1 hwho

theorem ds_writerLoop {s : St} (h : DS s) : DS (writerLoop s) := by
  refine writerLoop_ind (Q := DS) s h ?_ ?_ ?_
  · intro s' h; exact h
  · intro s' _ _ hnd; exact ds_of_live hnd
  · intro s' _ _ hnd
    exact ds_of_live (by rw [wlSend, done_startSend]; exact hnd)

theorem ds_finishSend {s : St} (w : Who) (h : DS s) (hc : Free s w) : DS (finishSend s w) := by
  have h1 := ds_filterW w h hc
  simp only [finishSend]
  split
  · exact ds_writerLoop (s := { s with sends := _, writerBusy := false }) h1
  · exact h1

theorem ds_releaseWriteM {s : St} (h : DS s) : DS (releaseWriteM s) := by
  simp only [releaseWriteM]
  split
  · rename_i x _
    exact ds_mapW x.who (fun y => { y with phase := .write }) h (fun _ => rfl) (fun _ => rfl)
      (Or.inl (fun _ => Or.inr (Or.inr rfl)))
  · exact h

theorem ds_senderAtM {s : St} (w : Who) (h : DS s) (hc : Free s w) : DS (senderAtM s w) := by
  simp only [senderAtM]
  split
  · exact ds_finishSend w h hc
  · exact ds_mapW w (fun y => { y with phase := .arm }) h (fun _ => rfl) (fun _ => rfl) (Or.inr hc)

theorem ds_senderAddN {s : St} (n : Nat) (w : Who) (h : DS s) : DS (senderAddN s n w) :=
  ds_mapW w (addG s) h (fun _ => rfl) (fun _ => rfl) (Or.inl (fun y => by
    show okPhase (if s.writeM.isNone then Phase.write else Phase.lockWait)
    split
    · exact Or.inr (Or.inr rfl)
    · exact Or.inr (Or.inl rfl)))

/-- registering a new send of a goroutine that has none -/
theorem ds_regSend {s : St} (w : Who) (it : Item) (h : DS s) (hw : ∀ x ∈ s.sends, x.who ≠ w) :
    DS (regSend s w it) := by
  intro hd p hp
  have hd : s.done = true := hd
  rcases List.mem_append.1 hp with hp | hp
  · obtain ⟨x, hx, hxi, hxp, hxo⟩ := h hd p hp
    refine ⟨x, List.mem_append_left _ hx, hxi, hxp, ?_⟩
    intro y hy hwho
    rcases List.mem_append.1 hy with hy | hy
    · exact hxo y hy hwho
    · simp only [List.mem_singleton] at hy; subst hy
      exact absurd hwho.symm (hw x hx)
  · simp only [List.mem_singleton] at hp; subst hp
    refine ⟨newSnd s w it, List.mem_append_right _ (List.mem_singleton.2 rfl), rfl, Or.inl rfl, ?_⟩
    intro y hy hwho
    rcases List.mem_append.1 hy with hy | hy
    · exact absurd hwho (hw y hy)
    · exact List.mem_singleton.1 hy

theorem ds_startSend {s : St} (w : Who) (it : Item) (h : DS s) (hw : ∀ x ∈ s.sends, x.who ≠ w) :
    DS (startSend s w it) := by
  have h1 := ds_regSend w it h hw
  rw [startSend_eq]
  split
  · exact h1
  · exact ds_senderAddN _ w h1

theorem ds_finishFrame {s : St} {id : Nat} {it : Item} {f : Frame} (h : DS s) :
    DS (finishFrame s id it f) := by
  rw [finishFrame_eq]
  split
  · exact h
  · split
    · exact h
    · split
      · have := ds_failConn (s := { s with delivered := s.delivered ++ frameDlv id it f, reader := .exited }) h
        exact this
      · exact h

theorem ds_readerAtN {s : St} {n id : Nat} {it : Item} {f : Frame} (h : DS s) :
    DS (readerAtN s n id it f) := by
  simp only [readerAtN]
  split
  · exact h
  · exact ds_finishFrame (s := { s with inFlight := n }) h

theorem ds_wakeM (n : Nat) {s : St} (h : DS s) : DS (wakeM n s) := by
  induction n generalizing s with
  | zero => exact h
  | succ n ih =>
    simp only [wakeM]
    split
    · exact h
    · split
      · exact h
      · rename_i w rest hq
        have h1 : DS { s with mWait := rest } := h
        split
        · rename_i x hx
          split
          · rw [senderAdd_eq]
            exact ih (ds_senderAddN _ w h1)
          · rename_i hna
            split
            · rename_i hp
              refine ih (ds_senderAtM w h1 (fun _ => ⟨x, List.mem_of_find?_eq_some hx, ?_, Or.inl ?_⟩))
              · simpa using List.find?_some hx
              · have hp : x.phase = .armWait := by simpa using hp
                rw [hp]; intro e; rcases e with e | e | e <;> cases e
            · exact ih h1
        · exact ih h1
      · rename_i rest hq
        have h1 : DS { s with mWait := rest } := h
        split
        · rw [readerAtM_eq]
          exact ih (ds_readerAtN h1)
        · exact ih h1

theorem ds_releaseM {s : St} (h : DS s) : DS (releaseM s) := ds_wakeM _ h

theorem sends_releaseWriteM_id {s : St} {x : Snd} (hx : x ∈ s.sends)
    (hp : x.phase = .write) :
    ∃ x' ∈ (releaseWriteM s).sends, x'.who = x.who ∧ x'.id = x.id ∧ x'.phase = .write := by
  simp only [releaseWriteM]
  split
  · rename_i y _
    refine ⟨_, List.mem_map.2 ⟨x, hx, rfl⟩, ?_, ?_, ?_⟩
    · split <;> rfl
    · split <;> rfl
    · split
      · rfl
      · exact hp
  · exact ⟨x, hx, rfl, rfl, hp⟩

theorem live_of_env {s : St} {r : IO} (henv : ¬ (s.done = true ∧ r = .ok)) (hr : r = .ok) :
    s.done = false := by
  cases hd : s.done
  · rfl
  · exact absurd ⟨hd, hr⟩ henv

theorem ds_step {s s' : St} {a : Act} (hgd : GD s) (h : DS s) (hs : step s a = some s') : DS s' := by
  cases a with
  | queueBatched c =>
    simp only [step] at hs
    split at hs
    · cases hs
    · split at hs
      · cases hs
      · split at hs
        · injection hs with hs; subst hs
          exact ds_sub h (fun hd => hd) rfl (fun _ hp => hp)
        · rename_i hnd
          injection hs with hs; subst hs
          refine ds_of_live ?_
          rw [done_writerLoop]; simpa using hnd
  | queueBatchedUnsendable c =>
    simp only [step] at hs
    split at hs
    · cases hs
    · split at hs
      · cases hs
      · split at hs
        · injection hs with hs; subst hs
          exact ds_sub h (fun hd => hd) rfl (fun _ hp => hp)
        · rename_i hnd
          injection hs with hs; subst hs
          refine ds_of_live ?_
          rw [done_writerLoop]; simpa using hnd
  | queueDirect c =>
    simp only [step] at hs
    split at hs
    · cases hs
    · split at hs
      · split at hs
        · cases hs
        · injection hs with hs; subst hs
          exact ds_sub h (fun hd => hd) rfl (fun _ hp => hp)
      · split at hs
        · injection hs with hs; subst hs
          exact ds_sub h (fun hd => hd) rfl (fun _ hp => hp)
        · rename_i hnd
          injection hs with hs; subst hs
          refine ds_of_live ?_
          rw [done_startSend]; simpa using hnd
  | queueDirectClosing c =>
    simp only [step] at hs
    split at hs
    · cases hs
    · rename_i hc
      have hc : c ∉ s.handed := by simpa using hc
      split at hs
      · split at hs
        · cases hs
        · injection hs with hs; subst hs
          exact ds_sub h (fun hd => hd) rfl (fun _ hp => hp)
      · split at hs
        · injection hs with hs; subst hs
          exact ds_sub h (fun hd => hd) rfl (fun _ hp => hp)
        · injection hs with hs; subst hs
          refine ds_startSend _ _ (ds_failConn (s := { s with handed := _ }) h) ?_
          intro x hx hw
          rw [sends_failConn] at hx
          exact hc (hgd.directHanded x hx c hw)
  | queueUnsendable c =>
    simp only [step] at hs
    split at hs
    · cases hs
    · split at hs
      · split at hs
        · cases hs
        · injection hs with hs; subst hs
          exact ds_sub h (fun hd => hd) rfl (fun _ hp => hp)
      · split at hs
        · injection hs with hs; subst hs
          exact ds_sub h (fun hd => hd) rfl (fun _ hp => hp)
        · injection hs with hs; subst hs
          exact ds_sub h (fun hd => hd) rfl (fun _ hp => hp)
  | cancel c =>
    simp only [step] at hs
    split at hs
    · cases hs
    · injection hs with hs; subst hs
      exact ds_sub h (fun hd => hd) rfl (fun _ hp => hp)
  | write w last r =>
    have henv := (envOK_write hs).1
    have hs := (envOK_write hs).2
    simp only [writeCore] at hs
    split at hs
    · cases hs
    · rename_i snd hf
      obtain ⟨hx, hxw, hxp⟩ := findSend_some hf
      split at hs
      · injection hs with hs; subst hs
        obtain ⟨x', hx', hx'w, hx'i, _⟩ := sends_releaseWriteM_id hx hxp
        refine ds_finishSend w (ds_sendFailed snd (ds_releaseWriteM h)) (fun _ => ⟨x', ?_, ?_, Or.inr ?_⟩)
        · rw [sends_sendFailed]; exact hx'
        · rw [hx'w, hxw]
        · rw [hx'i]; exact sent_sendFailed_ne _ _
      · have hlive := live_of_env henv rfl
        split at hs
        · injection hs with hs; subst hs; exact h
        · split at hs
          · injection hs with hs; subst hs
            exact ds_of_live (by
              show (releaseWriteM s).done = false
              rw [done_releaseWriteM]; exact hlive)
          · injection hs with hs; subst hs
            exact ds_of_live (by rw [done_senderAtM, done_releaseWriteM]; exact hlive)
  | arm w r =>
    have henv := (envOK_arm hs).1
    have hs := (envOK_arm hs).2
    simp only [armCore] at hs
    split at hs
    · cases hs
    · rename_i snd hf
      obtain ⟨hx, hxw, hxp⟩ := findSend_some hf
      split at hs
      · have hlive := live_of_env henv rfl
        injection hs with hs; subst hs
        exact ds_releaseM (ds_of_live (by rw [done_finishSend]; exact hlive))
      · injection hs with hs; subst hs
        refine ds_releaseM (ds_finishSend w (ds_sendFailed snd h) (fun _ => ⟨snd, ?_, hxw, Or.inl ?_⟩))
        · rw [sends_sendFailed]; exact hx
        · rw [hxp]; intro e; rcases e with e | e | e <;> cases e
  | read id f =>
    simp only [step] at hs
    split at hs
    · cases hs
    · have hfail : DS { failConn { s with reader := .exited } with reader := .exited } :=
        ds_failConn (s := { s with reader := .exited }) h
      split at hs
      · injection hs with hs; subst hs; exact hfail
      · split at hs
        · injection hs with hs; subst hs; exact hfail
        · have h1 : DS (eraseSent s id) :=
            ds_sub h (fun hd => hd) rfl (fun p hp => (List.mem_filter.1 hp).1)
          split at hs
          · injection hs with hs; subst hs; exact h1
          · injection hs with hs; subst hs
            rw [readerAtM_eq]; exact ds_readerAtN h1
  | readErr =>
    simp only [step] at hs
    split at hs
    · cases hs
    · injection hs with hs; subst hs
      exact ds_failConn (s := { s with reader := .exited }) h
  | timeout =>
    simp only [step] at hs
    split at hs
    · cases hs
    · injection hs with hs; subst hs
      exact ds_failConn (s := { s with reader := .exited }) h
  | clear r =>
    simp only [step] at hs
    split at hs
    · split at hs
      · injection hs with hs; subst hs
        exact ds_releaseM (ds_finishFrame (s := { s with armed := false, reader := .reading }) h)
      · injection hs with hs; subst hs
        exact ds_releaseM (ds_failConn (s := { deliverItem s _ .connErr none with reader := .exited }) h)
    · cases hs
  | close =>
    simp only [step] at hs
    injection hs with hs; subst hs
    exact ds_failConn h

/-! ### `DR`: on a failed connection the reader is never parked in `Read` -/

def DR (s : St) : Prop := s.done = true → s.reader ≠ .reading

theorem dr_same {s s' : St} (h : DR s) (e1 : s'.done = s.done) (e2 : s'.reader = s.reader) :
    DR s' := by
  intro hd; rw [e2]; exact h (e1 ▸ hd)

theorem dr_failConn (s : St) (h : DR s) : DR (failConn s) := by
  rw [failConn_eq]
  split
  · exact h
  · intro _
    show (if s.reader = .reading then Reader.exited else s.reader) ≠ .reading
    split
    · simp
    · assumption

theorem dr_sendFailed {s : St} (snd : Snd) (h : DR s) : DR (sendFailed s snd) := by
  simp only [sendFailed]
  split
  · exact dr_same (dr_failConn s h) rfl rfl
  · exact dr_failConn s h

theorem dr_readerNext (s : St) : s.done = true → readerNext s ≠ .reading := by
  intro hd; simp [readerNext, hd]

theorem dr_finishFrame {s : St} {id : Nat} {it : Item} {f : Frame} (h : f = .badHeader → DR s) :
    DR (finishFrame s id it f) := by
  rw [finishFrame_eq]
  split
  · exact dr_readerNext s
  · split
    · rename_i hf; exact h hf
    · split
      · intro _; show Reader.exited ≠ .reading; simp
      · exact dr_readerNext s

theorem dr_readerAtN {s : St} {n id : Nat} {it : Item} {f : Frame} (h : f = .badHeader → DR s) :
    DR (readerAtN s n id it f) := by
  simp only [readerAtN]
  split
  · intro _; show Reader.clearing id it f ≠ .reading; simp
  · exact dr_finishFrame (s := { s with inFlight := n }) h

theorem dr_wakeM (n : Nat) {s : St} (h : DR s) : DR (wakeM n s) := by
  induction n generalizing s with
  | zero => exact h
  | succ n ih =>
    simp only [wakeM]
    split
    · exact h
    · split
      · exact h
      · rename_i w rest hq
        have h1 : DR { s with mWait := rest } := h
        split
        · split
          · exact ih (dr_same h1 rfl rfl)
          · split
            · exact ih (dr_same h1 (done_senderAtM _ _) (reader_senderAtM _ _))
            · exact ih h1
        · exact ih h1
      · rename_i rest hq
        have h1 : DR { s with mWait := rest } := h
        split
        · rw [readerAtM_eq]
          exact ih (dr_readerAtN (fun _ => h1))
        · exact ih h1

theorem dr_step {s s' : St} {a : Act} (hg : GR s) (h : DR s) (hs : step s a = some s') : DR s' := by
  have hex : ∀ X : St, DR { X with reader := .exited } := fun X _ => by
    show Reader.exited ≠ .reading; simp
  cases a with
  | queueBatched c =>
    simp only [step] at hs
    split at hs
    · cases hs
    · split at hs
      · cases hs
      · split at hs
        · injection hs with hs; subst hs; exact dr_same h rfl rfl
        · injection hs with hs; subst hs
          exact dr_same h (done_writerLoop _) (reader_writerLoop _)
  | queueBatchedUnsendable c =>
    simp only [step] at hs
    split at hs
    · cases hs
    · split at hs
      · cases hs
      · split at hs
        · injection hs with hs; subst hs; exact dr_same h rfl rfl
        · injection hs with hs; subst hs
          exact dr_same h (done_writerLoop _) (reader_writerLoop _)
  | queueDirect c =>
    simp only [step] at hs
    split at hs
    · cases hs
    · split at hs
      · split at hs
        · cases hs
        · injection hs with hs; subst hs; exact dr_same h rfl rfl
      · split at hs
        · injection hs with hs; subst hs; exact dr_same h rfl rfl
        · injection hs with hs; subst hs
          exact dr_same h (done_startSend _ _ _) (reader_startSend _ _ _)
  | queueDirectClosing c =>
    simp only [step] at hs
    split at hs
    · cases hs
    · split at hs
      · split at hs
        · cases hs
        · injection hs with hs; subst hs; exact dr_same h rfl rfl
      · split at hs
        · injection hs with hs; subst hs; exact dr_same h rfl rfl
        · injection hs with hs; subst hs
          have h0 : DR { s with handed := s.handed ++ [c] } := dr_same h rfl rfl
          have h1 := dr_failConn _ h0
          exact dr_same h1 (done_startSend _ _ _) (reader_startSend _ _ _)
  | queueUnsendable c =>
    simp only [step] at hs
    split at hs
    · cases hs
    · split at hs
      · split at hs
        · cases hs
        · injection hs with hs; subst hs; exact dr_same h rfl rfl
      · split at hs
        · injection hs with hs; subst hs; exact dr_same h rfl rfl
        · injection hs with hs; subst hs; exact dr_same h rfl rfl
  | cancel c =>
    simp only [step] at hs
    split at hs
    · cases hs
    · injection hs with hs; subst hs; exact dr_same h rfl rfl
  | write w last r =>
    have hs := (envOK_write hs).2
    simp only [writeCore] at hs
    have h1 : DR (releaseWriteM s) := dr_same h (done_releaseWriteM s) (reader_releaseWriteM s)
    split at hs
    · cases hs
    · split at hs
      · injection hs with hs; subst hs
        exact dr_same (dr_sendFailed _ h1) (done_finishSend _ _) (reader_finishSend _ _)
      · split at hs
        · injection hs with hs; subst hs; exact h
        · split at hs
          · injection hs with hs; subst hs; exact dr_same h1 rfl rfl
          · injection hs with hs; subst hs
            exact dr_same h1 (done_senderAtM _ _) (reader_senderAtM _ _)
  | arm w r =>
    have hs := (envOK_arm hs).2
    simp only [armCore] at hs
    split at hs
    · cases hs
    · split at hs
      · injection hs with hs; subst hs
        exact dr_wakeM _ (dr_same (s := { s with armed := true }) (dr_same h rfl rfl)
          (done_finishSend _ _) (reader_finishSend _ _))
      · injection hs with hs; subst hs
        exact dr_wakeM _ (dr_same (dr_sendFailed _ h) (done_finishSend _ _) (reader_finishSend _ _))
  | read id f =>
    simp only [step] at hs
    split at hs
    · cases hs
    · split at hs
      · injection hs with hs; subst hs; exact hex _
      · split at hs
        · injection hs with hs; subst hs; exact hex _
        · split at hs
          · injection hs with hs; subst hs
            intro _; show Reader.downWait id _ f ≠ .reading; simp
          · injection hs with hs; subst hs
            rw [readerAtM_eq]
            exact dr_readerAtN (fun _ => dr_same (s' := eraseSent s id) h rfl rfl)
  | readErr =>
    simp only [step] at hs
    split at hs
    · cases hs
    · injection hs with hs; subst hs; exact hex _
  | timeout =>
    simp only [step] at hs
    split at hs
    · cases hs
    · injection hs with hs; subst hs; exact hex _
  | clear r =>
    simp only [step] at hs
    split at hs
    · rename_i id it f hrd
      have hh : s.reader.held = some (id, it, f) := by rw [hrd]; rfl
      have hf := (hg.held _ _ _ hh).1
      split at hs
      · injection hs with hs; subst hs
        exact dr_wakeM _ (dr_finishFrame (fun e => absurd e hf))
      · injection hs with hs; subst hs
        exact dr_wakeM _ (hex _)
    · cases hs
  | close =>
    simp only [step] at hs
    injection hs with hs; subst hs
    exact dr_failConn s h

/-- everything proved about reachable states -/
structure Good (s : St) : Prop where
  gr : GR s
  gd : GD s
  rest : Rest s
  ds : DS s
  dr : DR s

theorem good_step {s s' : St} {a : Act} (h : Good s) (hs : step s a = some s') : Good s' := by
  have hgr := gr_step h.gr hs
  have : GD s' ∧ Rest s' := by
    cases a with
    | queueBatched c => exact gdr_queueBatched h.gd h.rest hs
    | queueBatchedUnsendable c => exact gdr_queueBatchedUnsendable h.gd h.rest hs
    | queueDirect c => exact gdr_queueDirect h.gd h.rest hs
    | queueUnsendable c => exact gdr_queueUnsendable h.gd h.rest hs
    | queueDirectClosing c => exact gdr_queueDirectClosing h.gd h.rest hs
    | cancel c => exact gdr_cancel h.gd h.rest hs
    | write w last r => exact gdr_write h.gd h.rest hs
    | arm w r => exact gdr_arm h.gr h.gd hs
    | read id f => exact gdr_read h.gr h.gd h.rest hs
    | readErr => exact gdr_readErr h.gd h.rest hs
    | timeout => exact gdr_timeout h.gd h.rest hs
    | clear r => exact gdr_clear h.gr h.gd hs
    | close => exact gdr_close h.gd h.rest hs
  exact ⟨hgr, this.1, this.2, ds_step h.gd h.ds hs, dr_step h.gr h.dr hs⟩

theorem gd_init (q : Nat) : GD (init q) where
  whoNodup := List.nodup_nil
  writerSnd := fun x hx => by cases hx
  directHanded := fun x hx => by cases hx
  queued := fun w hw => by cases hw
  qNodup := List.nodup_nil
  readerQ := fun hq => by cases hq
  excl := fun hc => by cases hc
  bound := Nat.le_refl _
  eq := fun _ => rfl
  fifo := fun _ l1 l2 hq => by
    have : (init q).mWait = [] := rfl
    rw [this] at hq
    cases l1 <;> cases hq
  armPos := fun _ x hx => by cases hx
  i1 := fun _ ha => by cases ha
  i2 := fun _ hp => by cases hp

theorem good_init (q : Nat) : Good (init q) :=
  ⟨gr_init q, gd_init q, fun _ => rfl, ds_of_live rfl, fun hd => by cases hd⟩

theorem good_run {s s' : St} (as : List Act) (h : Good s) (hr : run s as = some s') : Good s' := by
  induction as generalizing s with
  | nil => simp only [run] at hr; injection hr with hr; exact hr ▸ h
  | cons a as ih =>
    simp only [run] at hr
    split at hr
    · rename_i s1 hs; exact ih (good_step h hs) hr
    · cases hr

theorem good_reachable {q : Nat} {s : St} (h : Reachable q s) : Good s := by
  obtain ⟨as, hr⟩ := h
  exact good_run as (good_init q) hr

theorem run_append (s : St) (as bs : List Act) :
    run s (as ++ bs) = (run s as).bind (fun s' => run s' bs) := by
  induction as generalizing s with
  | nil => rfl
  | cons a as ih =>
    simp only [List.cons_append, run]
    cases step s a with
    | none => rfl
    | some s1 => exact ih s1

theorem reachable_step {q : Nat} {s s' : St} {a : Act} (h : Reachable q s)
    (hs : step s a = some s') : Reachable q s' := by
  obtain ⟨as, hr⟩ := h
  refine ⟨as ++ [a], ?_⟩
  rw [run_append, hr]
  simp [run, hs]

theorem two_entries (l : List (Nat × Nat)) (c i j : Nat) (hi : (c, i) ∈ l) (hj : (c, j) ∈ l)
    (hne : i ≠ j) : 2 ≤ (l.map (·.1)).count c := by
  induction l with
  | nil => cases hi
  | cons a l ih =>
    have hpos : ∀ k, (c, k) ∈ l → 0 < (l.map (·.1)).count c := fun k hk =>
      List.count_pos_iff.2 (List.mem_map.2 ⟨(c, k), hk, rfl⟩)
    simp only [List.map_cons, List.count_cons]
    rcases List.mem_cons.1 hi with hi | hi
    · rcases List.mem_cons.1 hj with hj | hj
      · exact absurd (by rw [← hi] at hj; injection hj with _ e; exact e.symm) hne
      · have := hpos j hj; subst hi; simp only [beq_self_eq_true, if_true]; omega
    · rcases List.mem_cons.1 hj with hj | hj
      · have := hpos i hi; subst hj; simp only [beq_self_eq_true, if_true]; omega
      · have := ih hi hj; omega

theorem quiescent_iff {s : St} (hq : quiescent s = true) :
    s.sends = [] ∧ s.offered = [] ∧ (s.reader = .reading ∨ s.reader = .exited) := by
  simp only [quiescent, Bool.and_eq_true, Bool.or_eq_true, beq_iff_eq, List.isEmpty_iff] at hq
  exact ⟨hq.1.1, hq.1.2, hq.2⟩

/-! ## §7 a frame that fails the connection after its own delivery (`Frame.fatal`): a server
exception in the response header, or inside a decoded multi-response -/

theorem fatal_ne_badHeader {f : Frame} (h : f.fatal = true) : f ≠ .badHeader := by
  intro e; subst e; simp [Frame.fatal] at h

theorem ctxEnded_multi (s : St) (cs : List Nat) : ctxEnded s (.multi cs) = false := rfl

/-- What the reader does with such a frame on a live connection: the calls of the item get what
the frame says about them, then `fail` runs — `done`, every other registered item and every
queued call completed with a connection-level error, the reader gone. -/
theorem finishFrame_fatal {s : St} {id : Nat} {it : Item} {f : Frame}
    (hc : ctxEnded s it = false) (hf : f.fatal = true) (hd : s.done = false) :
    finishFrame s id it f =
      { s with done := true, sent := [], offered := [],
               delivered := s.delivered ++ frameDlv id it f ++ failDlv s, reader := .exited,
               writerExited := if s.writerBusy then s.writerExited else true } := by
  rw [finishFrame_eq, if_neg (by simp [hc]), if_neg (fatal_ne_badHeader hf), if_pos hf, failConn_eq]
  simp [hd, failDlv, List.append_assoc]

/-- the reader's count-down followed by such a frame (new counter value `n` abstract) -/
theorem readerAtN_fatal {s : St} {n id : Nat} {it : Item} {f : Frame}
    (hc : ctxEnded s it = false) (hf : f.fatal = true) (hd : s.done = false) :
    readerAtN s n id it f =
      if n = 0 then { s with inFlight := n, reader := .clearing id it f }
      else
      { s with inFlight := n, done := true, sent := [], offered := [],
               delivered := s.delivered ++ frameDlv id it f ++ failDlv s, reader := .exited,
               writerExited := if s.writerBusy then s.writerExited else true } := by
  simp only [readerAtN]
  split
  · rfl
  · rw [finishFrame_fatal (s := { s with inFlight := n }) hc hf hd]
    rfl

/-- … and on any connection it leaves the connection failed. -/
theorem done_finishFrame_fatal {s : St} {id : Nat} {it : Item} {f : Frame}
    (hc : ctxEnded s it = false) (hf : f.fatal = true) : (finishFrame s id it f).done = true := by
  rw [finishFrame_eq, if_neg (by simp [hc]), if_neg (fatal_ne_badHeader hf), if_pos hf]
  exact done_failConn _

theorem mem_unique_key {l : List (Nat × Item)} (hnd : (l.map (·.1)).Nodup) {p q : Nat × Item}
    (hp : p ∈ l) (hq : q ∈ l) (e : p.1 = q.1) : p = q := by
  induction l with
  | nil => cases hp
  | cons a l ih =>
    simp only [List.map_cons, List.nodup_cons] at hnd
    rcases List.mem_cons.1 hp with hp | hp <;> rcases List.mem_cons.1 hq with hq | hq
    · rw [hp, hq]
    · exact absurd (List.mem_map_of_mem (f := (·.1)) hq) (by rw [← e, hp]; exact hnd.1)
    · exact absurd (List.mem_map_of_mem (f := (·.1)) hp) (by rw [e, hq]; exact hnd.1)
    · exact ih hnd.2 hp hq

/-- a call registered under another id than `id` is still registered after `eraseSent s id` -/
theorem outstanding_erase {s : St} {id : Nat} {it : Item} {c : Nat}
    (hnd : (s.sent.map (·.1)).Nodup) (hl : lookupSent s id = some it)
    (hc : c ∈ outstanding s) (hn : c ∉ it.calls) : c ∈ outstanding (eraseSent s id) := by
  simp only [outstanding, List.mem_flatMap] at hc ⊢
  obtain ⟨p, hp, hcp⟩ := hc
  refine ⟨p, ?_, hcp⟩
  simp only [eraseSent, List.mem_filter, bne_iff_ne, ne_eq]
  refine ⟨hp, fun e => hn ?_⟩
  have := mem_unique_key hnd hp (lookupSent_mem hl) e
  rw [this] at hcp; exact hcp

theorem mem_failDlv_sent {s : St} {c : Nat} (hc : c ∈ outstanding s) :
    Dlv.mk c .connErr none ∈ failDlv s := by
  simp only [outstanding, List.mem_flatMap] at hc
  obtain ⟨p, hp, hcp⟩ := hc
  exact List.mem_append_left _ (List.mem_flatMap.2 ⟨p, hp, List.mem_map.2 ⟨c, hcp, rfl⟩⟩)

theorem mem_failDlv_offered {s : St} {c : Nat} (hc : c ∈ s.offered) :
    Dlv.mk c .connErr none ∈ failDlv s :=
  List.mem_append_right _ (List.mem_map.2 ⟨c, hc, rfl⟩)

/-- The queue hand-off never makes the reader forget a fatal frame it holds: it keeps holding it
(parked) or the connection has been failed. -/
theorem wakeM_fatal (n : Nat) {s : St} {id : Nat} {cs : List Nat} {f : Frame}
    (hh : s.reader.held = some (id, .multi cs, f)) (hf : f.fatal = true) :
    (wakeM n s).reader.held = some (id, .multi cs, f) ∨ (wakeM n s).done = true := by
  induction n generalizing s with
  | zero => exact Or.inl hh
  | succ n ih =>
    simp only [wakeM]
    split
    · exact Or.inl hh
    · split
      · exact Or.inl hh
      · split
        · split
          · exact ih (s := senderAdd _ _) hh
          · split
            · exact ih (s := senderAtM _ _) (by rw [reader_senderAtM]; exact hh)
            · exact ih (s := { s with mWait := _ }) hh
        · exact ih (s := { s with mWait := _ }) hh
      · split
        · rename_i id' it' f' hr
          have e : (id', it', f') = (id, Item.multi cs, f) := by
            rw [hr] at hh; simpa [Reader.held] using hh
          injection e with e1 e2; injection e2 with e2 e3
          subst e1; subst e2; subst e3
          rw [readerAtM_eq]
          generalize (_ + uint32 - 1) % uint32 = k
          simp only [readerAtN]
          split
          · exact ih (s := { s with mWait := _, inFlight := _, reader := .clearing _ _ _ }) rfl
          · exact Or.inr ((ext_wakeM n _).done (done_finishFrame_fatal (ctxEnded_multi _ _) hf))
        · exact ih (s := { s with mWait := _ }) hh

theorem releaseM_fatal {s : St} {id : Nat} {cs : List Nat} {f : Frame}
    (hh : s.reader.held = some (id, .multi cs, f)) (hf : f.fatal = true) :
    (releaseM s).reader.held = some (id, .multi cs, f) ∨ (releaseM s).done = true :=
  wakeM_fatal _ hh hf

theorem held_reading {s : St} {x : Nat × Item × Frame} (hh : s.reader.held = some x)
    (hr : s.reader = .reading) : False := by
  rw [hr] at hh; cases hh

/-- From one event to the next the reader either still holds the multi whose response carried the
server exception, or the connection has been failed (every action of the model). -/
theorem held_fatal_step {s s' : St} {a : Act} {id : Nat} {cs : List Nat} {f : Frame}
    (hh : s.reader.held = some (id, .multi cs, f)) (hf : f.fatal = true)
    (hs : step s a = some s') :
    s'.reader.held = some (id, .multi cs, f) ∨ s'.done = true := by
  cases a with
  | queueBatched c =>
    left
    simp only [step] at hs
    repeat' (split at hs)
    all_goals first
      | (injection hs with hs; subst hs; first | exact hh | (rw [reader_writerLoop]; exact hh))
      | cases hs
  | queueBatchedUnsendable c =>
    left
    simp only [step] at hs
    repeat' (split at hs)
    all_goals first
      | (injection hs with hs; subst hs; first | exact hh | (rw [reader_writerLoop]; exact hh))
      | cases hs
  | queueDirect c =>
    left
    simp only [step] at hs
    repeat' (split at hs)
    all_goals first
      | (injection hs with hs; subst hs; first | exact hh | (rw [reader_startSend]; exact hh))
      | cases hs
  | queueDirectClosing c =>
    left
    simp only [step] at hs
    repeat' (split at hs)
    all_goals first
      | (injection hs with hs; subst hs;
         first | exact hh | (rw [reader_startSend, held_failConn]; exact hh))
      | cases hs
  | queueUnsendable c =>
    left
    simp only [step] at hs
    repeat' (split at hs)
    all_goals first
      | (injection hs with hs; subst hs; exact hh)
      | cases hs
  | cancel c =>
    left
    simp only [step] at hs
    split at hs
    · cases hs
    · injection hs with hs; subst hs; exact hh
  | write w last r =>
    left
    have hc := (envOK_write hs).2
    simp only [writeCore] at hc
    repeat' (split at hc)
    all_goals first
      | (injection hc with hc; subst hc;
         first
           | exact hh
           | (rw [reader_finishSend, held_sendFailed, reader_releaseWriteM]; exact hh)
           | (show (releaseWriteM s).reader.held = _; rw [reader_releaseWriteM]; exact hh)
           | (rw [reader_senderAtM, reader_releaseWriteM]; exact hh))
      | cases hc
  | arm w r =>
    have hc := (envOK_arm hs).2
    simp only [armCore] at hc
    repeat' (split at hc)
    all_goals first
      | (injection hc with hc; subst hc;
         first
           | exact releaseM_fatal (by rw [reader_finishSend]; exact hh) hf
           | exact releaseM_fatal (by rw [reader_finishSend, held_sendFailed]; exact hh) hf)
      | cases hc
  | read id' f' =>
    simp only [step] at hs
    split at hs
    · cases hs
    · rename_i hr
      exact (held_reading hh (by simpa using hr)).elim
  | readErr =>
    simp only [step] at hs
    split at hs
    · cases hs
    · rename_i hr
      exact (held_reading hh (by simpa using hr)).elim
  | timeout =>
    simp only [step] at hs
    split at hs
    · cases hs
    · rename_i hr
      simp only [Bool.or_eq_true, not_or] at hr
      exact (held_reading hh (by simpa using hr.1)).elim
  | clear r =>
    right
    simp only [step] at hs
    split at hs
    · rename_i id' it' f' hr
      have e : (id', it', f') = (id, Item.multi cs, f) := by
        rw [hr] at hh; simpa [Reader.held] using hh
      injection e with e1 e2; injection e2 with e2 e3
      subst e1; subst e2; subst e3
      split at hs
      · injection hs with hs; subst hs
        exact (ext_releaseM _).done (done_finishFrame_fatal (ctxEnded_multi _ _) hf)
      · injection hs with hs; subst hs
        exact (ext_releaseM _).done (done_failConn _)
    · cases hs
  | close =>
    left
    simp only [step] at hs
    injection hs with hs; subst hs
    rw [held_failConn]; exact hh

end GV.Conn
