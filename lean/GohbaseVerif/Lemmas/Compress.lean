import GohbaseVerif.Model.Compress
/-! Helper lemmas for C15 / C11 (compression framing). Core Lean only. -/
set_option linter.unusedVariables false
namespace GV.Compress
open GV

/-! ### big-endian fields -/

@[simp] theorem length_toBE (n v : Nat) : (toBE n v).length = n := by
  induction n with
  | zero => rfl
  | succ n ih => simp [toBE, ih]

theorem u8_ofNat_toNat (x : Nat) (h : x < 256) : (UInt8.ofNat x).toNat = x := by
  simp; omega

theorem beNat_toBE (n v : Nat) : beNat (toBE n v) = v % 256 ^ n := by
  induction n with
  | zero => simp [toBE, beNat, Nat.mod_one]
  | succ n ih =>
    simp only [toBE, beNat, length_toBE, ih]
    rw [u8_ofNat_toNat _ (Nat.mod_lt _ (by decide))]
    rw [Nat.pow_succ, Nat.mod_mul, Nat.mul_comm, Nat.add_comm]

theorem beNat_toBE4 {v : Nat} (h : v < U32) : beNat (toBE 4 v) = v := by
  rw [beNat_toBE]; exact Nat.mod_eq_of_lt h

theorem beNat_lt (b : Bytes) : beNat b < 256 ^ b.length := by
  induction b with
  | nil => simp [beNat]
  | cons x xs ih =>
    simp only [beNat, List.length_cons, Nat.pow_succ]
    have := x.toNat_lt
    have h1 : x.toNat * 256 ^ xs.length ≤ 255 * 256 ^ xs.length := Nat.mul_le_mul_right _ (by omega)
    omega

theorem readUint32_lt {b : Bytes} {v : Nat} {t : Bytes} (e : readUint32 b = .ok (v, t)) : v < U32 := by
  have a := readUint32_ok e
  rw [a.2.1]
  have := beNat_lt (b.take 4)
  have hl : (b.take 4).length = 4 := by simp [List.length_take]; omega
  rw [hl] at this
  exact this

theorem mem_length_le_flatten {p : Bytes} {l : List Bytes} (h : p ∈ l) : p.length ≤ l.flatten.length := by
  induction l with
  | nil => cases h
  | cons x xs ih =>
    simp only [List.flatten_cons, List.length_append]
    rcases List.mem_cons.mp h with rfl | h
    · omega
    · have := ih h; omega

/-! ### `chunksOf` -/
namespace Spec

theorem chunksOf_nil (k : Nat) : chunksOf k [] = [] := by
  unfold chunksOf; simp

theorem chunksOf_zero (s : Bytes) : chunksOf 0 s = [] := by
  unfold chunksOf; simp

theorem chunksOf_cons {k : Nat} {s : Bytes} (hk : k ≠ 0) (hs : s ≠ []) :
    chunksOf k s = s.take k :: chunksOf k (s.drop k) := by
  rw [chunksOf]; simp [hk, hs]

theorem chunksOf_flatten {k : Nat} (hk : k ≠ 0) (s : Bytes) : (chunksOf k s).flatten = s := by
  induction hn : s.length using Nat.strongRecOn generalizing s with
  | _ n ih =>
    by_cases hs : s = []
    · subst hs; simp [chunksOf_nil]
    · rw [chunksOf_cons hk hs]
      have hpos : 0 < s.length := List.length_pos_iff.mpr hs
      have : (s.drop k).length < n := by simp only [List.length_drop]; omega
      simp only [List.flatten_cons, ih _ this _ rfl, List.take_append_drop]

/-- Every piece is non-empty and at most `k` long; all pieces but the last are exactly `k` long. -/
theorem chunksOf_shape {k : Nat} (hk : k ≠ 0) (s : Bytes) :
    (∀ p ∈ chunksOf k s, p ≠ [] ∧ p.length ≤ k) ∧
    (s ≠ [] → ∃ init last, chunksOf k s = init ++ [last] ∧ ∀ p ∈ init, p.length = k) := by
  induction hn : s.length using Nat.strongRecOn generalizing s with
  | _ n ih =>
    by_cases hs : s = []
    · subst hs; simp [chunksOf_nil]
    · rw [chunksOf_cons hk hs]
      have hpos : 0 < s.length := List.length_pos_iff.mpr hs
      have hlt : (s.drop k).length < n := by simp only [List.length_drop]; omega
      obtain ⟨i1, i2⟩ := ih _ hlt (s.drop k) rfl
      constructor
      · intro p hp
        rcases List.mem_cons.mp hp with rfl | hp
        · constructor
          · intro e
            have := congrArg List.length e
            simp only [List.length_take, List.length_nil] at this
            omega
          · simp only [List.length_take]; omega
        · exact i1 p hp
      · intro _
        by_cases hd : s.drop k = []
        · refine ⟨[], s.take k, ?_, by simp⟩
          rw [hd, chunksOf_nil]; rfl
        · obtain ⟨init, last, e, hi⟩ := i2 hd
          refine ⟨s.take k :: init, last, by rw [e]; rfl, ?_⟩
          intro p hp
          rcases List.mem_cons.mp hp with rfl | hp
          · have : k < s.length := by
              have := List.length_pos_iff.mpr hd
              simp only [List.length_drop] at this; omega
            simp only [List.length_take]; omega
          · exact hi p hp

end Spec

/-! ### the compressor emits one block, chunked by `chunksOf` -/

theorem compressLoop_zero (c : Codec) (v : List Bytes) (b : Bytes) : compressLoop c 0 v b = b := by
  unfold compressLoop
  have := (readLoop_spec v 0).1
  simp [Buffers.read, this]

theorem compressLoop_eq (c : Codec) {k : Nat} (hk : k ≠ 0) (v : List Bytes) (b : Bytes) :
    compressLoop c k v b = b ++ ((Spec.chunksOf k v.flatten).map (Spec.encChunk c)).flatten := by
  induction hn : v.flatten.length using Nat.strongRecOn generalizing v b with
  | _ n ih =>
    unfold compressLoop
    obtain ⟨s1, s2⟩ := readLoop_spec v k
    simp only [Buffers.read, s1]
    by_cases hv : v.flatten = []
    · simp [hv, Spec.chunksOf_nil]
    · have hpos : 0 < v.flatten.length := List.length_pos_iff.mpr hv
      have htake : ¬ v.flatten.take k = [] := by
        intro e
        have := congrArg List.length e
        simp only [List.length_take, List.length_nil] at this
        omega
      simp only [htake, if_false]
      rw [Spec.chunksOf_cons hk hv]
      by_cases he : (readLoop v k).2 = []
      · have hd : v.flatten.drop k = [] := by rw [← s2, he]; rfl
        simp [he, hd, Spec.chunksOf_nil, Spec.encChunk]
      · have hlt : (readLoop v k).2.flatten.length < n := by
          rw [s2]; simp only [List.length_drop]; omega
        have he' : (readLoop v k).2.isEmpty = false := by
          cases h : (readLoop v k).2 with
          | nil => exact absurd h he
          | cons _ _ => rfl
        simp only [he', Bool.false_eq_true, if_false]
        rw [ih _ hlt _ _ rfl, s2]
        simp [Spec.encChunk, List.append_assoc]

theorem compress_eq_encode (c : Codec) (hc : 0 < c.chunkLen) (bufs : List Bytes) :
    compressCellblocks c bufs bufs.flatten.length =
      Spec.encode c [Spec.chunksOf (min bufs.flatten.length c.chunkLen) bufs.flatten] := by
  unfold compressCellblocks Spec.encode Spec.encBlock
  by_cases hk : min bufs.flatten.length c.chunkLen = 0
  · have h0 : bufs.flatten.length = 0 := by omega
    rw [hk, compressLoop_zero, Spec.chunksOf_zero, h0]; simp
  · rw [compressLoop_eq c hk]
    simp only [List.map_cons, List.map_nil, List.flatten_cons, List.flatten_nil, List.append_nil]
    rw [Spec.chunksOf_flatten hk]

/-! ### step equations of the decoder loops (non-dependent matches) -/

/-- One iteration of the inner loop, as a non-dependent match. -/
theorem chunkLoop_step (c : Codec) (L soFar : Nat) (b out : Bytes) :
    chunkLoop c L soFar b out =
      if soFar < L then
        match readUint32 b with
        | .err _ => .err "chunk-len"
        | .fault w => .fault w
        | .ok (cl, b1) =>
          match readN b1 cl with
          | .err _ => .err "chunk"
          | .fault w => .fault w
          | .ok (chunk, b2) =>
            match c.decode chunk with
            | none => .err "decode"
            | some d => chunkLoop c L ((soFar + d.length % U32) % U32) b2 (out ++ d)
      else .ok (soFar, b, out) := by
  rw [chunkLoop]
  split
  · split
    · rename_i h; simp only [h]
    · rename_i h; simp only [h]
    · rename_i cl b1 h
      simp only [h]
      split
      · rename_i h2; simp only [h2]
      · rename_i h2; simp only [h2]
      · rename_i chunk b2 h2; simp only [h2]; cases c.decode chunk <;> rfl
  · rfl

theorem blockLoop_step (c : Codec) (b out : Bytes) :
    blockLoop c b out =
      if b.length = 0 then .ok out else
      match readUint32 b with
      | .err _ => .err "block-len"
      | .fault w => .fault w
      | .ok (blockLen, b1) =>
        match chunkLoop c blockLen 0 b1 out with
        | .err e => .err e
        | .fault w => .fault w
        | .ok (soFar, b2, out') =>
          if soFar > blockLen then .err "more" else blockLoop c b2 out' := by
  rw [blockLoop]
  split
  · rfl
  · split
    · rename_i h; simp only [h]
    · rename_i h; simp only [h]
    · rename_i L b1 h
      simp only [h]
      split
      · rename_i h2; simp only [h2]
      · rename_i h2; simp only [h2]
      · rename_i sf b2 out' h2; simp only [h2]

/-! ### the decoder on conforming streams -/


theorem readUint32_append {v : Nat} (hv : v < U32) (rest : Bytes) :
    readUint32 (toBE 4 v ++ rest) = .ok (v, rest) := by
  rw [readUint32_of_le (by simp)]
  rw [List.take_left' (by simp), List.drop_left' (by simp), beNat_toBE4 hv]

theorem readN_append (x rest : Bytes) : readN (x ++ rest) x.length = .ok (x, rest) := by
  rw [readN_of_le (by simp)]
  rw [List.take_left' rfl, List.drop_left' rfl]

/-- The inner loop absorbs the encoded pieces of a block. -/
theorem chunkLoop_pieces (c : Codec) (hrt : c.Roundtrip) {L : Nat} (hL : L < U32) (ps : List Bytes)
    (hps : ∀ p ∈ ps, p ≠ [] ∧ (c.encode p).length < U32) (soFar : Nat)
    (hsum : soFar + ps.flatten.length = L) (tail out : Bytes) :
    chunkLoop c L soFar ((ps.map (Spec.encChunk c)).flatten ++ tail) out
      = .ok (L, tail, out ++ ps.flatten) := by
  induction ps generalizing soFar out with
  | nil =>
    rw [chunkLoop_step]
    simp at hsum
    simp [hsum]
  | cons p ps ih =>
    have hp := hps p (List.mem_cons_self)
    have hpl : 0 < p.length := List.length_pos_iff.mpr hp.1
    simp only [List.flatten_cons, List.length_append] at hsum
    rw [chunkLoop_step]
    have hlt : soFar < L := by omega
    simp only [hlt, if_true, List.map_cons, List.flatten_cons, Spec.encChunk, List.append_assoc]
    rw [readUint32_append hp.2]
    simp only
    rw [readN_append]
    simp only
    rw [hrt p]
    simp only
    have e : (soFar + p.length % U32) % U32 = soFar + p.length := by
      rw [Nat.mod_eq_of_lt (by omega : p.length < U32), Nat.mod_eq_of_lt (by omega)]
    rw [e]
    have := ih (fun q hq => hps q (List.mem_cons_of_mem _ hq)) (soFar + p.length) (by omega) (out ++ p)
    rw [this]
    simp [List.append_assoc]

/-- The outer loop absorbs whole conforming blocks. -/
theorem blockLoop_encode (c : Codec) (hrt : c.Roundtrip) (bs : List Spec.Pieces)
    (hws : Spec.WellSized c bs) (tail out : Bytes) :
    blockLoop c (Spec.encode c bs ++ tail) out = blockLoop c tail (out ++ Spec.rawData bs) := by
  induction bs generalizing out with
  | nil => simp [Spec.encode, Spec.rawData]
  | cons ps bs ih =>
    have hp := hws ps (List.mem_cons_self)
    rw [blockLoop_step]
    simp only [Spec.encode, List.map_cons, List.flatten_cons, Spec.encBlock, List.append_assoc]
    have hne : ¬ (toBE 4 ps.flatten.length ++ ((ps.map (Spec.encChunk c)).flatten ++
        ((bs.map (Spec.encBlock c)).flatten ++ tail))).length = 0 := by simp
    rw [if_neg hne, readUint32_append hp.1]
    simp only
    rw [chunkLoop_pieces c hrt hp.1 ps hp.2 0 (by simp)]
    simp only [Nat.lt_irrefl, if_false, gt_iff_lt]
    have := ih (fun q hq => hws q (List.mem_cons_of_mem _ hq)) (out ++ ps.flatten)
    simp only [Spec.encode] at this
    rw [this]
    simp [Spec.rawData, List.append_assoc]

theorem blockLoop_nil (c : Codec) (out : Bytes) : blockLoop c [] out = .ok out := by
  rw [blockLoop_step]; simp


/-! ### truncated streams -/

theorem take_append' (m : Nat) (a b : Bytes) : (a ++ b).take m = a.take m ++ b.take (m - a.length) := by
  rw [List.take_append]

/-- A block cut anywhere inside its chunk sequence makes the inner loop fail. -/
theorem chunkLoop_truncated (c : Codec) (hrt : c.Roundtrip) {L : Nat} (hL : L < U32) (ps : List Bytes)
    (hps : ∀ p ∈ ps, p ≠ [] ∧ (c.encode p).length < U32) (soFar : Nat)
    (hsum : soFar + ps.flatten.length = L) (m : Nat)
    (hm : m < ((ps.map (Spec.encChunk c)).flatten).length) (out : Bytes) :
    ∃ e, chunkLoop c L soFar (((ps.map (Spec.encChunk c)).flatten).take m) out = .err e := by
  induction ps generalizing soFar out m with
  | nil => simp at hm
  | cons p ps ih =>
    have hp := hps p (List.mem_cons_self)
    have hpl : 0 < p.length := List.length_pos_iff.mpr hp.1
    simp only [List.flatten_cons, List.length_append] at hsum
    have hlt : soFar < L := by omega
    rw [chunkLoop_step]
    simp only [hlt, if_true, List.map_cons, List.flatten_cons, Spec.encChunk, List.append_assoc]
    simp only [List.map_cons, List.flatten_cons, Spec.encChunk, List.append_assoc, List.length_append,
      length_toBE] at hm
    by_cases h4 : m < 4
    · rw [readUint32_of_lt (by simp [List.length_take]; omega)]
      exact ⟨_, rfl⟩
    · rw [take_append', List.take_of_length_le (by simp; omega), length_toBE, readUint32_append hp.2]
      simp only
      by_cases hn : m - 4 < (c.encode p).length
      · rw [readN_of_lt (by simp [List.length_take]; omega)]
        exact ⟨_, rfl⟩
      · rw [take_append', List.take_of_length_le (by omega), readN_append]
        simp only
        rw [hrt p]
        simp only
        have e : (soFar + p.length % U32) % U32 = soFar + p.length := by
          rw [Nat.mod_eq_of_lt (by omega : p.length < U32), Nat.mod_eq_of_lt (by omega)]
        rw [e]
        exact ih (fun q hq => hps q (List.mem_cons_of_mem _ hq)) (soFar + p.length) (by omega)
          (m - 4 - (c.encode p).length) (by omega) (out ++ p)

/-- A block cut anywhere (but not before its first byte) makes the outer loop fail. -/
theorem blockLoop_truncated_block (c : Codec) (hrt : c.Roundtrip) (ps : Spec.Pieces)
    (hL : ps.flatten.length < U32) (hps : ∀ p ∈ ps, p ≠ [] ∧ (c.encode p).length < U32)
    (m : Nat) (h0 : 0 < m) (hm : m < (Spec.encBlock c ps).length) (out : Bytes) :
    ∃ e, blockLoop c ((Spec.encBlock c ps).take m) out = .err e := by
  simp only [Spec.encBlock, List.length_append, length_toBE] at hm ⊢
  rw [blockLoop_step]
  have hne : ¬ ((toBE 4 ps.flatten.length ++ (ps.map (Spec.encChunk c)).flatten).take m).length = 0 := by
    simp [List.length_take]; omega
  rw [if_neg hne]
  by_cases h4 : m < 4
  · rw [readUint32_of_lt (by simp [List.length_take]; omega)]
    exact ⟨_, rfl⟩
  · rw [take_append', List.take_of_length_le (by simp; omega), length_toBE, readUint32_append hL]
    simp only
    obtain ⟨e, he⟩ := chunkLoop_truncated c hrt hL ps hps 0 (by simp) (m - 4) (by omega) out
    rw [he]
    exact ⟨_, rfl⟩



/-! ### no fault, for every byte string and every codec -/

theorem chunkLoop_no_fault (c : Codec) (L soFar : Nat) (b out : Bytes) :
    (chunkLoop c L soFar b out).isFault = false := by
  induction hn : b.length using Nat.strongRecOn generalizing b soFar out with
  | _ n ih =>
    rw [chunkLoop_step]
    split
    · by_cases h4 : 4 ≤ b.length
      · rw [readUint32_of_le h4]
        simp only
        by_cases hc : beNat (b.take 4) ≤ (b.drop 4).length
        · rw [readN_of_le hc]
          simp only
          cases c.decode (List.take (beNat (b.take 4)) (b.drop 4)) with
          | none => rfl
          | some d =>
            simp only
            apply ih _ _ _ _ _ rfl
            simp only [List.length_drop]; omega
        · rw [readN_of_lt (by omega)]; rfl
      · rw [readUint32_of_lt (by omega)]; rfl
    · rfl

theorem blockLoop_no_fault (c : Codec) (b out : Bytes) : (blockLoop c b out).isFault = false := by
  induction hn : b.length using Nat.strongRecOn generalizing b out with
  | _ n ih =>
    rw [blockLoop_step]
    split
    · rfl
    · by_cases h4 : 4 ≤ b.length
      · rw [readUint32_of_le h4]
        simp only
        have nf := chunkLoop_no_fault c (beNat (b.take 4)) 0 (b.drop 4) out
        cases hcl : chunkLoop c (beNat (b.take 4)) 0 (b.drop 4) out with
        | err e => rfl
        | fault w => rw [hcl] at nf; cases nf
        | ok st =>
          obtain ⟨sf, b2, out'⟩ := st
          simp only
          split
          · rfl
          · apply ih _ _ _ _ rfl
            have := chunkLoop_rest_le _ _ _ _ _ hcl
            simp only [List.length_drop] at this
            omega
      · rw [readUint32_of_lt (by omega)]; rfl


/-! ### what a successful run has read (length-field consistency) -/

theorem toBE_add_mul (n a r : Nat) : toBE n (a * 256 ^ n + r) = toBE n r := by
  induction n generalizing a with
  | zero => rfl
  | succ n ih =>
    simp only [toBE]
    have e : a * 256 ^ (n + 1) = (a * 256) * 256 ^ n := by rw [Nat.pow_succ, Nat.mul_assoc, Nat.mul_comm 256]
    rw [e, ih]
    congr 2
    have hpos : 0 < 256 ^ n := Nat.pow_pos (by decide)
    rw [Nat.add_comm, Nat.add_mul_div_right _ _ hpos, Nat.add_mul_mod_self_right]

theorem u8_ofNat_toNat' (x : UInt8) : UInt8.ofNat x.toNat = x := by
  apply UInt8.toNat_inj.mp
  rw [u8_ofNat_toNat _ x.toNat_lt]

theorem toBE_beNat (x : Bytes) : toBE x.length (beNat x) = x := by
  induction x with
  | nil => rfl
  | cons a xs ih =>
    simp only [List.length_cons, toBE, beNat]
    rw [toBE_add_mul, ih]
    congr 1
    have hpos : 0 < 256 ^ xs.length := Nat.pow_pos (by decide)
    have hlt := beNat_lt xs
    rw [Nat.add_comm, Nat.add_mul_div_right _ _ hpos, Nat.div_eq_of_lt hlt, Nat.zero_add,
      Nat.mod_eq_of_lt a.toNat_lt, u8_ofNat_toNat']

/-- What the inner loop has read when it ends without error. -/
theorem chunkLoop_ok_inv (c : Codec) (L soFar : Nat) (hsf : soFar < U32) (b out : Bytes) {st : ChunkState}
    (e : chunkLoop c L soFar b out = .ok st) :
    ∃ chs : List (Bytes × Bytes),
      b = (chs.map fun ch => toBE 4 ch.1.length ++ ch.1).flatten ++ st.2.1 ∧
      (∀ ch ∈ chs, ch.1.length < U32 ∧ c.decode ch.1 = some ch.2) ∧
      st.2.2 = out ++ (chs.map (·.2)).flatten ∧
      st.1 = (soFar + (chs.map (·.2)).flatten.length) % U32 ∧ ¬ st.1 < L := by
  induction hn : b.length using Nat.strongRecOn generalizing b soFar out with
  | _ n ih =>
    rw [chunkLoop_step] at e
    by_cases hlt : soFar < L
    · simp only [hlt, if_true] at e
      by_cases h4 : 4 ≤ b.length
      · rw [readUint32_of_le h4] at e
        simp only at e
        by_cases hc : beNat (b.take 4) ≤ (b.drop 4).length
        · rw [readN_of_le hc] at e
          simp only at e
          cases hd : c.decode (List.take (beNat (b.take 4)) (b.drop 4)) with
          | none => rw [hd] at e; cases e
          | some d =>
            rw [hd] at e
            simp only at e
            have hlt2 : (List.drop (beNat (b.take 4)) (b.drop 4)).length < n := by
              simp only [List.length_drop]; omega
            obtain ⟨chs, h1, h2, h3, h4', h5⟩ :=
              ih _ hlt2 _ (Nat.mod_lt _ (by decide)) _ _ e rfl
            refine ⟨(List.take (beNat (b.take 4)) (b.drop 4), d) :: chs, ?_, ?_, ?_, ?_, h5⟩
            · simp only [List.map_cons, List.flatten_cons, List.append_assoc]
              rw [← h1]
              have hl : (List.take (beNat (b.take 4)) (b.drop 4)).length = beNat (b.take 4) := by
                simp only [List.length_take]; omega
              have h44 : (b.take 4).length = 4 := by simp only [List.length_take]; omega
              rw [hl]
              have := toBE_beNat (b.take 4)
              rw [h44] at this
              rw [this, List.take_append_drop, List.take_append_drop]
            · intro ch hch
              rcases List.mem_cons.mp hch with rfl | hch
              · refine ⟨?_, hd⟩
                simp only [List.length_take]
                have := beNat_lt (b.take 4)
                have h44 : (b.take 4).length = 4 := by simp only [List.length_take]; omega
                rw [h44] at this
                have : beNat (b.take 4) < U32 := this
                omega
              · exact h2 ch hch
            · rw [h3]; simp [List.append_assoc]
            · rw [h4']
              simp only [List.map_cons, List.flatten_cons, List.length_append]
              simp only [U32]
              omega
        · rw [readN_of_lt (by omega)] at e; cases e
      · rw [readUint32_of_lt (by omega)] at e; cases e
    · simp only [hlt, if_false] at e
      injection e with e
      subst e
      exact ⟨[], by simp, by simp, by simp, by simp [Nat.mod_eq_of_lt hsf], hlt⟩

/-- What the outer loop has read when it ends without error. -/
theorem blockLoop_ok_inv (c : Codec) (b out d : Bytes) (e : blockLoop c b out = .ok d) :
    ∃ fbs : List Spec.FBlock,
      b = Spec.frameStream fbs ∧ (∀ fb ∈ fbs, fb.Valid c) ∧
      d = out ++ (fbs.map Spec.FBlock.data).flatten ∧
      ∀ fb ∈ fbs, fb.data.length % U32 = fb.rawLen := by
  induction hn : b.length using Nat.strongRecOn generalizing b out with
  | _ n ih =>
    rw [blockLoop_step] at e
    by_cases h0 : b.length = 0
    · simp only [h0, if_true] at e
      injection e with e
      have : b = [] := List.length_eq_zero_iff.mp h0
      exact ⟨[], by simp [this, Spec.frameStream], by simp, by simp [e], by simp⟩
    · simp only [h0, if_false] at e
      by_cases h4 : 4 ≤ b.length
      · rw [readUint32_of_le h4] at e
        simp only at e
        cases hcl : chunkLoop c (beNat (b.take 4)) 0 (b.drop 4) out with
        | err x => rw [hcl] at e; cases e
        | fault w => rw [hcl] at e; cases e
        | ok st =>
          obtain ⟨sf, b2, out'⟩ := st
          rw [hcl] at e
          simp only at e
          by_cases hgt : sf > beNat (b.take 4)
          · simp only [hgt, if_true] at e; cases e
          · simp only [hgt, if_false] at e
            obtain ⟨chs, c1, c2, c3, c4, c5⟩ := chunkLoop_ok_inv c _ 0 (by decide) _ _ hcl
            simp only at c1 c3 c4 c5
            have hle := chunkLoop_rest_le _ _ _ _ _ hcl
            simp only [List.length_drop] at hle
            obtain ⟨fbs, f1, f2, f3, f4⟩ := ih _ (by omega) _ _ e rfl
            have h44 : (b.take 4).length = 4 := by simp only [List.length_take]; omega
            have hraw : beNat (b.take 4) < U32 := by
              have := beNat_lt (b.take 4); rw [h44] at this; exact this
            refine ⟨⟨beNat (b.take 4), chs⟩ :: fbs, ?_, ?_, ?_, ?_⟩
            · simp only [Spec.frameStream, List.map_cons, List.flatten_cons, Spec.FBlock.frame,
                List.append_assoc]
              have hf : (fbs.map Spec.FBlock.frame).flatten = b2 := by rw [f1]; rfl
              rw [hf, ← c1]
              have := toBE_beNat (b.take 4)
              rw [h44] at this
              rw [this, List.take_append_drop]
            · intro fb hfb
              rcases List.mem_cons.mp hfb with rfl | hfb
              · exact ⟨hraw, c2⟩
              · exact f2 fb hfb
            · rw [f3, c3]; simp [Spec.FBlock.data, List.append_assoc]
            · intro fb hfb
              rcases List.mem_cons.mp hfb with rfl | hfb
              · simp only [Spec.FBlock.data]
                simp only [Nat.zero_add] at c4
                rw [← c4]
                omega
              · exact f4 fb hfb
      · rw [readUint32_of_lt (by omega)] at e; cases e



/-! ### the client decoder against the reference decoder -/
namespace Spec

theorem be32?_of_le {s : Bytes} (h : 4 ≤ s.length) : be32? s = some (beNat (s.take 4), s.drop 4) := by
  match s, h with
  | a :: b :: c :: d :: rest, _ =>
    simp [be32?, beNat]
    omega

theorem be32?_of_lt {s : Bytes} (h : s.length < 4) : be32? s = none := by
  match s, h with
  | [], _ => rfl
  | [_], _ => rfl
  | [_, _], _ => rfl
  | [_, _, _], _ => rfl
  | _ :: _ :: _ :: _ :: _, h => simp at h; omega

theorem parseChunks_step (c : Codec) (remaining : Nat) (s : Bytes) :
    parseChunks c remaining s =
      if remaining = 0 then some ([], s) else
      match be32? s with
      | none => none
      | some (cl, s1) =>
        if s1.length < cl then none else
        match c.decode (s1.take cl) with
        | none => none
        | some d =>
          if remaining < d.length then none else
          match parseChunks c (remaining - d.length) (s1.drop cl) with
          | none => none
          | some (ps, rest) => some (d :: ps, rest) := by
  rw [parseChunks]
  split
  · rfl
  · split
    · rename_i h; simp only [h]
    · rename_i cl s1 h; simp only [h]
      split
      · rfl
      · cases c.decode (s1.take cl) with
        | none => rfl
        | some d =>
          simp only
          split
          · rfl
          · cases parseChunks c (remaining - d.length) (s1.drop cl) <;> rfl

theorem parseStream_step (c : Codec) (s : Bytes) :
    parseStream c s =
      if s.length = 0 then some [] else
      match be32? s with
      | none => none
      | some (raw, s1) =>
        match parseChunks c raw s1 with
        | none => none
        | some (ps, rest) =>
          match parseStream c rest with
          | none => none
          | some bs => some (⟨raw, ps⟩ :: bs) := by
  rw [parseStream]
  split
  · rfl
  · split
    · rename_i h; simp only [h]
    · rename_i raw s1 h
      simp only [h]
      split
      · rename_i h2; simp only [h2]
      · rename_i ps rest h2; simp only [h2]; cases parseStream c rest <;> rfl

end Spec



/-- Inner loop = reference chunk parser, as long as the `uint32` sum cannot wrap. -/
theorem chunkLoop_vs_spec (c : Codec) (R : Nat) (hexp : c.ExpandsAtMost R) (L : Nat) (soFar : Nat)
    (b out : Bytes) (hle : soFar ≤ L) (hb : soFar + R * b.length < U32) :
    match Spec.parseChunks c (L - soFar) b with
    | some (ps, rest) => chunkLoop c L soFar b out = .ok (L, rest, out ++ ps.flatten)
    | none => (∃ e, chunkLoop c L soFar b out = .err e) ∨
              (∃ sf b' o', chunkLoop c L soFar b out = .ok (sf, b', o') ∧ sf > L) := by
  induction hn : b.length using Nat.strongRecOn generalizing b soFar out with
  | _ n ih =>
    rw [Spec.parseChunks_step, chunkLoop_step]
    by_cases hlt : soFar < L
    · have h0 : ¬ L - soFar = 0 := by omega
      simp only [hlt, h0, if_true, if_false]
      by_cases h4 : 4 ≤ b.length
      · rw [Spec.be32?_of_le h4, readUint32_of_le h4]
        simp only
        by_cases hc : beNat (b.take 4) ≤ (b.drop 4).length
        · have hc' : ¬ (b.drop 4).length < beNat (b.take 4) := by omega
          rw [readN_of_le hc]
          simp only [hc', if_false]
          cases hd : c.decode (List.take (beNat (b.take 4)) (b.drop 4)) with
          | none => simp only; exact Or.inl ⟨_, rfl⟩
          | some d =>
            simp only
            have hdl := hexp _ _ hd
            have htl : (List.take (beNat (b.take 4)) (b.drop 4)).length = beNat (b.take 4) := by
              simp only [List.length_take]; omega
            rw [htl] at hdl
            have hdrop : (List.drop (beNat (b.take 4)) (b.drop 4)).length
                = b.length - 4 - beNat (b.take 4) := by simp only [List.length_drop]
            have hmul : R * b.length = R * beNat (b.take 4) + R * 4
                + R * (b.length - 4 - beNat (b.take 4)) := by
              rw [← Nat.mul_add, ← Nat.mul_add]; congr 1; simp only [List.length_drop] at hc; omega
            have e : (soFar + d.length % U32) % U32 = soFar + d.length := by
              rw [Nat.mod_eq_of_lt (by omega : d.length < U32), Nat.mod_eq_of_lt (by omega)]
            rw [e]
            by_cases hover : L - soFar < d.length
            · simp only [hover, if_true]
              right
              rw [chunkLoop_step]
              have : ¬ soFar + d.length < L := by omega
              simp only [this, if_false]
              exact ⟨_, _, _, rfl, by omega⟩
            · simp only [hover, if_false]
              have hlt2 : (List.drop (beNat (b.take 4)) (b.drop 4)).length < n := by
                rw [hdrop]; omega
              have := ih _ hlt2 (soFar + d.length) _ (out ++ d) (by omega) (by rw [hdrop]; omega) rfl
              have e2 : L - (soFar + d.length) = L - soFar - d.length := by omega
              rw [e2] at this
              cases hp : Spec.parseChunks c (L - soFar - d.length)
                  (List.drop (beNat (b.take 4)) (b.drop 4)) with
              | none => rw [hp] at this; simpa using this
              | some r =>
                obtain ⟨ps, rest⟩ := r
                rw [hp] at this
                simp only at this ⊢
                rw [this]
                simp [List.append_assoc]
        · rw [readN_of_lt (by omega)]
          have : (b.drop 4).length < beNat (b.take 4) := by omega
          simp only [this, if_true]
          exact Or.inl ⟨_, rfl⟩
      · rw [Spec.be32?_of_lt (by omega), readUint32_of_lt (by omega)]
        exact Or.inl ⟨_, rfl⟩
    · have h0 : L - soFar = 0 := by omega
      have : soFar = L := by omega
      simp [this]

/-- Outer loop = reference stream parser (same proviso). -/
theorem blockLoop_vs_spec (c : Codec) (R : Nat) (hexp : c.ExpandsAtMost R) (b out : Bytes)
    (hb : R * b.length < U32) :
    match Spec.parseStream c b with
    | some bs => blockLoop c b out = .ok (out ++ (bs.map fun pb => pb.pieces.flatten).flatten)
    | none => ∃ e, blockLoop c b out = .err e := by
  induction hn : b.length using Nat.strongRecOn generalizing b out with
  | _ n ih =>
    rw [Spec.parseStream_step, blockLoop_step]
    by_cases h0 : b.length = 0
    · simp [h0]
    · simp only [h0, if_false]
      by_cases h4 : 4 ≤ b.length
      · rw [Spec.be32?_of_le h4, readUint32_of_le h4]
        simp only
        have hmul : R * (b.drop 4).length ≤ R * b.length := Nat.mul_le_mul_left _ (by simp)
        have hcl := chunkLoop_vs_spec c R hexp (beNat (b.take 4)) 0 (b.drop 4) out (Nat.zero_le _)
          (by omega)
        simp only [Nat.sub_zero] at hcl
        cases hp : Spec.parseChunks c (beNat (b.take 4)) (b.drop 4) with
        | none =>
          rw [hp] at hcl
          simp only at hcl ⊢
          rcases hcl with ⟨e, he⟩ | ⟨sf, b', o', he, hgt⟩
          · rw [he]; exact ⟨_, rfl⟩
          · rw [he]; simp only [hgt, if_true]; exact ⟨_, rfl⟩
        | some r =>
          obtain ⟨ps, rest⟩ := r
          rw [hp] at hcl
          simp only at hcl ⊢
          rw [hcl]
          simp only [Nat.lt_irrefl, gt_iff_lt, if_false]
          have hrl := Spec.parseChunks_rest_le _ _ _ hp
          simp only [List.length_drop] at hrl
          have hmul2 : R * rest.length ≤ R * b.length := Nat.mul_le_mul_left _ (by omega)
          have := ih _ (by omega : rest.length < n) rest (out ++ ps.flatten) (by omega) rfl
          cases hps : Spec.parseStream c rest with
          | none => rw [hps] at this; simpa using this
          | some bs =>
            rw [hps] at this
            simp only at this ⊢
            rw [this]
            simp [List.append_assoc]
      · rw [Spec.be32?_of_lt (by omega), readUint32_of_lt (by omega)]
        exact ⟨_, rfl⟩


/-! ### the reference parser: exact lengths, and it reads conforming streams -/
namespace Spec

/-- The reference parser only accepts blocks whose chunks add up exactly. -/
theorem parseChunks_sum (c : Codec) (r : Nat) (s : Bytes) {ps : List Bytes} {rest : Bytes}
    (e : parseChunks c r s = some (ps, rest)) : ps.flatten.length = r := by
  induction hn : s.length using Nat.strongRecOn generalizing s r ps rest with
  | _ n ih =>
    rw [parseChunks_step] at e
    by_cases h0 : r = 0
    · simp only [h0, if_true] at e
      injection e with e; injection e with e _; subst e; simp [h0]
    · simp only [h0, if_false] at e
      by_cases h4 : 4 ≤ s.length
      · rw [be32?_of_le h4] at e
        simp only at e
        split at e
        · cases e
        · cases hd : c.decode (List.take (beNat (s.take 4)) (s.drop 4)) with
          | none => rw [hd] at e; cases e
          | some d =>
            rw [hd] at e
            simp only at e
            split at e
            · cases e
            · cases hp : parseChunks c (r - d.length) (List.drop (beNat (s.take 4)) (s.drop 4)) with
              | none => rw [hp] at e; cases e
              | some q =>
                obtain ⟨ps', rest'⟩ := q
                rw [hp] at e
                simp only at e
                injection e with e; injection e with e1 e2
                subst e1
                have := ih _ (by simp only [List.length_drop]; omega) _ _ hp rfl
                simp only [List.flatten_cons, List.length_append, this]
                omega
      · rw [be32?_of_lt (by omega)] at e; cases e

theorem parseStream_sum (c : Codec) (s : Bytes) {bs : List PBlock} (e : parseStream c s = some bs) :
    ∀ pb ∈ bs, pb.pieces.flatten.length = pb.rawLen := by
  induction hn : s.length using Nat.strongRecOn generalizing s bs with
  | _ n ih =>
    rw [parseStream_step] at e
    by_cases h0 : s.length = 0
    · simp only [h0, if_true] at e
      injection e with e; subst e; simp
    · simp only [h0, if_false] at e
      by_cases h4 : 4 ≤ s.length
      · rw [be32?_of_le h4] at e
        simp only at e
        cases hp : parseChunks c (beNat (s.take 4)) (s.drop 4) with
        | none => rw [hp] at e; cases e
        | some q =>
          obtain ⟨ps, rest⟩ := q
          rw [hp] at e
          simp only at e
          cases hps : parseStream c rest with
          | none => rw [hps] at e; cases e
          | some bs' =>
            rw [hps] at e
            simp only at e
            injection e with e; subst e
            have hrl := parseChunks_rest_le _ _ _ hp
            simp only [List.length_drop] at hrl
            intro pb hpb
            rcases List.mem_cons.mp hpb with rfl | hpb
            · exact parseChunks_sum _ _ _ hp
            · exact ih _ (by omega : rest.length < n) _ hps rfl pb hpb
      · rw [be32?_of_lt (by omega)] at e; cases e

theorem be32?_append {v : Nat} (hv : v < U32) (rest : Bytes) : be32? (toBE 4 v ++ rest) = some (v, rest) := by
  rw [be32?_of_le (by simp)]
  rw [List.take_left' (by simp), List.drop_left' (by simp), beNat_toBE4 hv]

/-- The reference parser reads back the pieces of a conforming block. -/
theorem parseChunks_pieces (c : Codec) (hrt : c.Roundtrip) (ps : List Bytes)
    (hps : ∀ p ∈ ps, p ≠ [] ∧ (c.encode p).length < U32) (tail : Bytes) :
    parseChunks c ps.flatten.length ((ps.map (encChunk c)).flatten ++ tail) = some (ps, tail) := by
  induction ps with
  | nil => rw [parseChunks_step]; simp
  | cons p ps ih =>
    have hp := hps p (List.mem_cons_self)
    have hpl : 0 < p.length := List.length_pos_iff.mpr hp.1
    rw [parseChunks_step]
    have h0 : ¬ (p :: ps).flatten.length = 0 := by
      simp only [List.flatten_cons, List.length_append]; omega
    rw [if_neg h0]
    simp only [List.map_cons, List.flatten_cons, encChunk, List.append_assoc]
    rw [be32?_append hp.2]
    simp only
    have hl : ¬ (c.encode p ++ ((ps.map (encChunk c)).flatten ++ tail)).length < (c.encode p).length := by
      simp
    have e1 : List.take (c.encode p).length (c.encode p ++ ((ps.map (encChunk c)).flatten ++ tail))
        = c.encode p := List.take_left' rfl
    have e2 : List.drop (c.encode p).length (c.encode p ++ ((ps.map (encChunk c)).flatten ++ tail))
        = (ps.map (encChunk c)).flatten ++ tail := List.drop_left' rfl
    simp only [hl, if_false, e1, e2, hrt p]
    have h2 : ¬ (p.length + ps.flatten.length) < p.length := by omega
    simp only [List.length_append, h2, if_false, Nat.add_sub_cancel_left]
    rw [ih (fun q hq => hps q (List.mem_cons_of_mem _ hq))]

theorem parseStream_encode (c : Codec) (hrt : c.Roundtrip) (bs : List Pieces) (hws : WellSized c bs) :
    parseStream c (encode c bs) = some (bs.map fun ps => ⟨ps.flatten.length, ps⟩) := by
  induction bs with
  | nil => rw [parseStream_step]; simp [encode]
  | cons ps bs ih =>
    have hp := hws ps (List.mem_cons_self)
    rw [parseStream_step]
    simp only [encode, List.map_cons, List.flatten_cons, encBlock, List.append_assoc]
    have hne : ¬ (toBE 4 ps.flatten.length ++ ((ps.map (encChunk c)).flatten ++
        (bs.map (encBlock c)).flatten)).length = 0 := by simp
    rw [if_neg hne, be32?_append hp.1]
    simp only
    rw [parseChunks_pieces c hrt ps hp.2]
    simp only
    have := ih (fun q hq => hws q (List.mem_cons_of_mem _ hq))
    simp only [encode] at this
    rw [this]

end Spec

end GV.Compress
