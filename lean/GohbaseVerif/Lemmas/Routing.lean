import GohbaseVerif.Lemmas.Put
/-! Routing: cache lookup and meta answer in closed form. -/
set_option linter.unusedSimpArgs false
namespace GV.Routing
open GV GV.RegionName GV.Cache

/-- Truncating the looked-up key to `n` bytes does not change its order against a start key of
at most `n` bytes. -/
theorem bcmp_take_le_iff (s k : Bytes) (n : Nat) (h : s.length ≤ n) :
    bcmp s (k.take n) ≠ .gt ↔ bcmp s k ≠ .gt := by
  induction s generalizing k n with
  | nil => simp [bcmp_nil_le]
  | cons x xs ih =>
    cases n with
    | zero => simp at h
    | succ m =>
      cases k with
      | nil => simp
      | cons y ys =>
        simp only [List.take_succ_cons, bcmp]
        by_cases h1 : x < y
        · simp [h1]
        · by_cases h2 : y < x
          · simp [h1, h2]
          · simp only [h1, h2, if_false]
            exact ih ys m (by simpa using h)

theorem bcmp_take_le (k : Bytes) (n : Nat) : bcmp (k.take n) k ≠ .gt := by
  induction k generalizing n with
  | nil => simp
  | cons y ys ih =>
    cases n with
    | zero => simp [bcmp]
    | succ m => simp [bcmp, u8_lt_irrefl, ih m]

/-- The key the cache is searched with: the row key, cut to what fits a meta row. -/
def cutKey (t k : Bytes) : Bytes := k.take (32767 - t.length - 3)

theorem take_min_length (k : Bytes) (n : Nat) : k.take (min k.length n) = k.take n := by
  by_cases h : n ≤ k.length
  · rw [Nat.min_eq_right h]
  · have h' : k.length ≤ n := by omega
    rw [Nat.min_eq_left h', List.take_of_length_le h', List.take_of_length_le (Nat.le_refl _)]

theorem searchKeyO_eq {t : Bytes} (h : t.length + 3 ≤ 32767) (k : Bytes) :
    searchKeyO t k = .ok (searchKey t (cutKey t k)) := by
  rw [searchKeyO_ok h, searchKeyImpl_eq]
  simp only [searchKeyN, searchKey, cutKey, take_min_length]

theorem searchKeyImpl_cut {t : Bytes} (k : Bytes) :
    searchKeyImpl t k = searchKey t (cutKey t k) := by
  rw [searchKeyImpl_eq]
  simp only [searchKeyN, searchKey, cutKey, take_min_length]

theorem cacheGet_eq {l : List Region} {key : Bytes} {p : Nat}
    (hs : seekIdx key l = .ok (p, false)) :
    cacheGet l key = .ok (if p = 0 then none else l[p - 1]?) := by
  simp only [cacheGet, seek, hs, Cursor.prev, Cursor.prevAt]
  by_cases hp : p = 0
  · simp [hp]
  · simp only [Bool.false_eq_true, if_false, Bool.not_false, if_true, hp]
    cases l[p - 1]? <;> rfl

/-- The single entry `getRegionFromCache` looks at, and its two checks. -/
def pick (t k : Bytes) : Option Region → Option Region
  | none => none
  | some x => if x.fq != t then none else if !x.stop.isEmpty && bcmp k x.stop != .lt then none else some x

theorem getRegionFromCache_eq {l : List Region} (hwf : ∀ x ∈ l, x.WF) (hs : Sorted l) {t : Bytes}
    (ht : comma ∉ t) (hlen : t.length + 3 ≤ 32767) (k : Bytes) :
    ∃ p, p ≤ l.length ∧ (∀ x ∈ l.take p, Below t (cutKey t k) x) ∧
      (∀ y ∈ l.drop p, ¬ Below t (cutKey t k) y) ∧
      getRegionFromCache l t k = .ok (pick t k (if p = 0 then none else l[p - 1]?)) := by
  obtain ⟨p, hseek, hp, hb, ha⟩ := seek_searchKey hwf hs ht (cutKey t k)
  refine ⟨p, hp, hb, ha, ?_⟩
  simp only [getRegionFromCache, searchKeyO_eq hlen, cacheGet_eq hseek]
  cases (if p = 0 then none else l[p - 1]?) with
  | none => rfl
  | some x =>
    simp only [pick]
    by_cases h1 : (x.fq != t) = true
    · simp [h1]
    · simp only [h1, Bool.false_eq_true, if_false]
      by_cases h2 : (!x.stop.isEmpty && bcmp k x.stop != .lt) = true
      · simp [h2]
      · simp [h2]

/-- A region that contains `k`, of table `t`, is the last one below the search key. -/
theorem owner_is_last_below {l : List Region} (hg : GoodL l) {t k : Bytes} {r v : Region} {p : Nat}
    (hr : r ∈ l) (hfq : r.fq = t) (hstart : bcmp r.start (cutKey t k) ≠ .gt)
    (hstop : r.stop = [] ∨ bcmp k r.stop = .lt)
    (hv : l[p - 1]? = some v) (hp : 0 < p)
    (hb : ∀ x ∈ l.take p, Below t (cutKey t k) x) (ha : ∀ y ∈ l.drop p, ¬ Below t (cutKey t k) y) :
    r = v := by
  have hrB : Below t (cutKey t k) r := .inr ⟨hfq, hstart⟩
  have hrtake : r ∈ l.take p := by
    have : r ∈ l.take p ++ l.drop p := by rw [List.take_append_drop]; exact hr
    rw [List.mem_append] at this
    rcases this with h | h
    · exact h
    · exact absurd hrB (ha r h)
  by_cases e : r = v
  · exact e
  · exfalso
    have hvmem : v ∈ l := List.mem_of_getElem? hv
    have hsplit := split_at hv
    have hp1 : p - 1 + 1 = p := by omega
    -- r lies strictly before v
    have hrfront : r ∈ l.take (p - 1) := by
      have hlt := (List.getElem?_eq_some_iff.mp hv).1
      have : l.take p = l.take (p - 1) ++ [v] := by
        conv => lhs; rw [← hp1]
        rw [List.take_add_one, hv]; rfl
      rw [this, List.mem_append] at hrtake
      rcases hrtake with h | h
      · exact h
      · simp at h; exact absurd h e
    have hsorted := hg.sorted
    have hdisj := hg.disjoint
    rw [hsplit] at hsorted hdisj
    unfold Sorted at hsorted
    rw [List.pairwise_append] at hsorted hdisj
    have hlt : nameLt r v := hsorted.2.2 r hrfront v (by simp)
    have hno : overlap r v = false := hdisj.2.2 r hrfront v (by simp)
    have hvB : Below t (cutKey t k) v := by
      apply hb
      rw [List.mem_take_iff_getElem]
      obtain ⟨h1, h2⟩ := List.getElem?_eq_some_iff.mp hv
      exact ⟨p - 1, by omega, h2⟩
    -- a probe region [cutKey, ∞) of the same table
    let q : Region := ⟨r.ns, r.tbl, cutKey t k, [], [], 0⟩
    have hqfq : q.fq = t := by rw [← hfq]; rfl
    have hrwf := hg.wf r hr
    have hq : q.TableOK := ⟨by rw [hqfq, ← hfq]; exact hrwf.fqNoComma, hrwf.tblNoColon,
      by rw [hqfq, ← hfq]; exact hrwf.tableOK.fqLen⟩
    have hvB' : Below q.fq q.start v := by rw [hqfq]; exact hvB
    have h1 := before_no_overlap hrwf (hg.wf v hvmem) hq hlt hvB' hno
    have h2 : overlap r q = true := by
      rw [overlap_true_iff hrwf.tblNoColon hq.tblNoColon]
      refine ⟨by rw [hqfq, hfq], .inl rfl, ?_⟩
      rcases hstop with h | h
      · exact .inl h
      · exact .inr (bcmp_lt_of_le_of_lt (bcmp_take_le k _) h)
    rw [h1] at h2; cases h2

theorem cutKey_le_iff {r : Region} (hr : r.WF) {t : Bytes} (hfq : r.fq = t) (k : Bytes) :
    bcmp r.start (cutKey t k) ≠ .gt ↔ bcmp r.start k ≠ .gt := by
  apply bcmp_take_le_iff
  rw [← hfq]; exact hr.startLen

/-- `nameLtB name searchKey` on a well-formed name. -/
theorem nameLtB_searchKey {x : Region} (hx : x.WF) {t : Bytes} (ht : comma ∉ t) (k : Bytes) :
    nameLtB x.name (searchKey t k) = true ↔ Below t k x := by
  have h := compare_sign_eq_tuple x.fq x.start x.sfx t k [0x3a] hx.fqNoComma ht hx.sfx_noComma
    (by simp [comma])
  rw [← hx.name_eq] at h
  change (compareName x.name (searchKey t k)).map signOf = _ at h
  obtain ⟨d, hd, hs⟩ := map_ok_inv h
  unfold nameLtB
  rw [hd]
  simp only [decide_eq_true_eq]
  rw [← signOf_lt_iff, hs, lex3_lt_iff]
  unfold Below
  constructor
  · rintro (h | ⟨e, h | ⟨e2, _⟩⟩)
    · exact .inl h
    · right; refine ⟨e, ?_⟩; rw [h]; decide
    · right; refine ⟨e, ?_⟩; rw [e2]; simp
  · rintro (h | ⟨e, h⟩)
    · exact .inl h
    · right; refine ⟨e, ?_⟩
      rcases (bcmp_ne_gt_iff _ _).mp h with h | h
      · exact .inl h
      · exact .inr ⟨h, hx.sfx_lt_colon⟩

theorem getLast?_of_sorted {l : List Region} (hs : Sorted l) {v : Region} (hv : l.getLast? = some v)
    {a : Region} (ha : a ∈ l) (hne : a ≠ v) : nameLt a v := by
  obtain ⟨l', rfl⟩ : ∃ l', l = l' ++ [v] := by
    rw [List.getLast?_eq_some_iff] at hv
    exact hv
  unfold Sorted at hs
  rw [List.pairwise_append] at hs
  rw [List.mem_append] at ha
  rcases ha with h | h
  · exact hs.2.2 a h v (by simp)
  · simp at h; exact absurd h hne

/-- `Env.Meta` answers with the owner, when the layout has one. -/
theorem metaRow_owner {L : List Region} (hg : GoodL L) {t k : Bytes} (ht : comma ∉ t) {o : Region}
    (ho : o ∈ L) (hfq : o.fq = t) (hk : o.contains k) : metaRow L t k = some o := by
  unfold metaRow
  rw [searchKeyImpl_cut]
  generalize hF' : L.filter (fun x => x.fq == t && nameLtB x.name (searchKey t (cutKey t k))) = F
  have hF := hF'.symm
  have hmemF : ∀ x, x ∈ F ↔ x ∈ L ∧ x.fq = t ∧ Below t (cutKey t k) x := by
    intro x
    rw [hF, List.mem_filter]
    constructor
    · rintro ⟨h1, h2⟩
      simp only [Bool.and_eq_true, beq_iff_eq] at h2
      exact ⟨h1, h2.1, (nameLtB_searchKey (hg.wf x h1) ht _).mp h2.2⟩
    · rintro ⟨h1, h2, h3⟩
      refine ⟨h1, ?_⟩
      simp only [Bool.and_eq_true, beq_iff_eq]
      exact ⟨h2, (nameLtB_searchKey (hg.wf x h1) ht _).mpr h3⟩
  have howf := hg.wf o ho
  have hstart : bcmp o.start (cutKey t k) ≠ .gt := (cutKey_le_iff howf hfq k).mpr hk.1
  have hoF : o ∈ F := (hmemF o).mpr ⟨ho, hfq, .inr ⟨hfq, hstart⟩⟩
  have hFs : Sorted F := by rw [hF]; exact List.Pairwise.sublist List.filter_sublist hg.sorted
  cases hlast : F.getLast? with
  | none =>
    rw [List.getLast?_eq_none_iff] at hlast
    rw [hlast] at hoF; simp at hoF
  | some v =>
    by_cases e : o = v
    · rw [e]
    · exfalso
      have hvF : v ∈ F := List.mem_of_getLast? hlast
      obtain ⟨hvL, hvfq, hvB⟩ := (hmemF v).mp hvF
      have hlt := getLast?_of_sorted hFs hlast hoF e
      have hsym : ∀ {x y : Region}, overlap x y = false → overlap y x = false :=
        fun h => by rw [overlap_symm]; exact h
      have hno := pairwise_forall_sym hsym hg.disjoint ho hvL e
      let q : Region := ⟨o.ns, o.tbl, cutKey t k, [], [], 0⟩
      have hqfq : q.fq = t := by rw [← hfq]; rfl
      have hq : q.TableOK := ⟨by rw [hqfq, ← hfq]; exact howf.fqNoComma, howf.tblNoColon,
        by rw [hqfq, ← hfq]; exact howf.tableOK.fqLen⟩
      have hvB' : Below q.fq q.start v := by rw [hqfq]; exact hvB
      have h1 := before_no_overlap howf (hg.wf v hvL) hq hlt hvB' hno
      have h2 : overlap o q = true := by
        rw [overlap_true_iff howf.tblNoColon hq.tblNoColon]
        refine ⟨by rw [hqfq, hfq], .inl rfl, ?_⟩
        rcases hk.2 with h | h
        · exact .inl h
        · exact .inr (bcmp_lt_of_le_of_lt (bcmp_take_le k _) h)
      rw [h1] at h2; cases h2

/-- Whatever `Env.Meta` answers is a region of the table starting at or before the key. -/
theorem metaRow_sound {L : List Region} (hg : GoodL L) {t k : Bytes} (ht : comma ∉ t) {m : Region}
    (h : metaRow L t k = some m) : m ∈ L ∧ m.fq = t ∧ bcmp m.start k ≠ .gt := by
  unfold metaRow at h
  rw [searchKeyImpl_cut] at h
  have hm := List.mem_of_getLast? h
  rw [List.mem_filter] at hm
  obtain ⟨h1, h2⟩ := hm
  simp only [Bool.and_eq_true, beq_iff_eq] at h2
  have hB := (nameLtB_searchKey (hg.wf m h1) ht _).mp h2.2
  refine ⟨h1, h2.1, ?_⟩
  rcases hB with h | ⟨_, h⟩
  · rw [h2.1] at h; simp at h
  · exact (cutKey_le_iff (hg.wf m h1) h2.1 k).mp h

end GV.Routing
