import GohbaseVerif.Model.Retry
/-! Helper lemmas for C17. -/
namespace GV.Retry
open GV.Gen GV.Gen.RetryLoop

theorem nextBackoff_eq (b : Int) :
    Backoff.nextBackoff b =
      if b < 5000 * msec then b * 2 else if b < 30000 * msec then b + 5000 * msec else b := by
  unfold Backoff.nextBackoff msec
  rfl

theorem backoffStart_eq : Backoff.backoffStart = 16 * msec := by
  unfold Backoff.backoffStart msec; rfl

theorem nextBackoff_ge (b : Int) (h : 0 < b) : b ≤ Backoff.nextBackoff b ∧ 0 < Backoff.nextBackoff b := by
  rw [nextBackoff_eq]; unfold msec
  split
  · constructor <;> omega
  · split
    · constructor <;> omega
    · constructor <;> omega

theorem sched_pos (n : Nat) : 0 < sched n := by
  induction n with
  | zero => simp [sched, backoffStart_eq, msec]
  | succ n ih => exact (nextBackoff_ge _ ih).2

theorem sched_mono (n : Nat) : sched n ≤ sched (n + 1) := (nextBackoff_ge _ (sched_pos n)).1

theorem beforeWait_pos (b : Int) (h : 0 < b) : Backoff.beforeWait b = b := by
  unfold Backoff.beforeWait
  rw [if_neg (by omega)]

theorem sleepFor_eq (b : Int) : Backoff.sleepFor b = b := rfl

theorem sleepAndIncrease_pos (next : Int → Int) (b : Int) (h : 0 < b) :
    sleepAndIncrease next b = (some b, next b) := by
  simp [sleepAndIncrease, beforeWait_pos b h, sleepFor_eq]

theorem sleepAndIncrease_zero (next : Int → Int) :
    sleepAndIncrease next 0 = (none, Backoff.backoffStart) := by
  simp [sleepAndIncrease, Backoff.beforeWait, backoffStart_eq, msec]

/-- `[sched j, sched (j+1), …]` of length `k`. -/
def schedFrom (j : Nat) : Nat → List Int
  | 0 => []
  | k + 1 => sched j :: schedFrom (j + 1) k

theorem arm_retryable : armFor sendRPCArms .retryable =
    some { types := ["RetryableError"], sleeps := true, guardVar := "", guardN := 0,
           continues := true, incs := [], marks := [] } := by decide

theorem arm_server : armFor sendRPCArms .server =
    some { types := ["NotServingRegionError", "ServerError"], sleeps := true, guardVar := "serverErrorCount", guardN := 1,
           continues := true, incs := ["serverErrorCount"], marks := [] } := by decide

/-- since fix (NotServingRegionError shares the ServerError arm): a region that passes its probe
and refuses the request every time is not retried in a hot loop any more -/
theorem arm_nsre : armFor sendRPCArms .nsre =
    some { types := ["NotServingRegionError", "ServerError"], sleeps := true, guardVar := "serverErrorCount", guardN := 1,
           continues := true, incs := ["serverErrorCount"], marks := [] } := by decide

theorem arm_ok : armFor sendRPCArms .ok = none := by decide
theorem arm_fatal : armFor sendRPCArms .fatal = none := by decide


theorem immediateRetries_attempt_sendRPC (c c' : Cls) (next : Int → Int) (arms : List Arm)
    (st : LoopSt) (outs : List Cls) :
    immediateRetries c (.attempt c' :: sendRPC next arms st outs) =
      (if outs = [] then 0 else if c' = c then 1 else 0) +
        immediateRetries c (sendRPC next arms st outs) := by
  cases outs with
  | nil => simp [sendRPC, immediateRetries]
  | cons d rest =>
    have : ∃ tl, sendRPC next arms st (d :: rest) = .attempt d :: tl := ⟨_, by rw [sendRPC]⟩
    obtain ⟨tl, h⟩ := this
    rw [h]; simp [immediateRetries]

theorem immediateRetries_attempt_sleep (c c' : Cls) (d : Int) (r : List Ev) :
    immediateRetries c (.attempt c' :: .sleep d :: r) = immediateRetries c r := by
  simp [immediateRetries]

theorem sendBatchRounds_head (next : Int → Int) (g : Option (String × Int)) (st : BatchSt)
    (rs : List Bool) : ∃ c tl, sendBatchRounds next g st rs = .attempt c :: tl := by
  cases rs with
  | nil => exact ⟨.ok, [], by simp [sendBatchRounds]⟩
  | cons b rest => exact ⟨_, _, by simp only [sendBatchRounds]; rfl⟩

theorem immediateRetries_attempt_attempt (c c' c'' : Cls) (r : List Ev) :
    immediateRetries c (.attempt c' :: .attempt c'' :: r) =
      (if c' = c then 1 else 0) + immediateRetries c (.attempt c'' :: r) := by
  simp [immediateRetries]


/-! One-step unfoldings of the loops on the regenerated arms. -/
def runRPC := sendRPC Backoff.nextBackoff sendRPCArms

theorem sendRPC_ok (st : LoopSt) (rest : List Cls) : runRPC st (.ok :: rest) = [.attempt .ok] := by
  simp [runRPC, sendRPC, arm_ok]

theorem sendRPC_fatal (st : LoopSt) (rest : List Cls) :
    runRPC st (.fatal :: rest) = [.attempt .fatal] := by
  simp [runRPC, sendRPC, arm_fatal]

theorem sendRPC_retryable (j : Nat) (s : Int) (rest : List Cls) :
    runRPC ⟨sched j, s⟩ (.retryable :: rest) =
      .attempt .retryable :: .sleep (sched j) :: runRPC ⟨sched (j + 1), s⟩ rest := by
  simp only [runRPC, sendRPC, arm_retryable, sleepAndIncrease_pos _ _ (sched_pos j)]
  simp [sched]

theorem sendRPC_server_sleep (j : Nat) (s : Int) (hs : s > 1) (rest : List Cls) :
    runRPC ⟨sched j, s⟩ (.server :: rest) =
      .attempt .server :: .sleep (sched j) :: runRPC ⟨sched (j + 1), s + 1⟩ rest := by
  simp only [runRPC, sendRPC, arm_server, sleepAndIncrease_pos _ _ (sched_pos j)]
  simp [sched, hs]

theorem sendRPC_server_imm (j : Nat) (s : Int) (hs : ¬ s > 1) (rest : List Cls) :
    runRPC ⟨sched j, s⟩ (.server :: rest) =
      .attempt .server :: runRPC ⟨sched j, s + 1⟩ rest := by
  simp only [runRPC, sendRPC, arm_server]
  simp [hs]

theorem sendRPC_nsre_sleep (j : Nat) (s : Int) (hs : s > 1) (rest : List Cls) :
    runRPC ⟨sched j, s⟩ (.nsre :: rest) =
      .attempt .nsre :: .sleep (sched j) :: runRPC ⟨sched (j + 1), s + 1⟩ rest := by
  simp only [runRPC, sendRPC, arm_nsre, sleepAndIncrease_pos _ _ (sched_pos j)]
  simp [sched, hs]

theorem sendRPC_nsre_imm (j : Nat) (s : Int) (hs : ¬ s > 1) (rest : List Cls) :
    runRPC ⟨sched j, s⟩ (.nsre :: rest) =
      .attempt .nsre :: runRPC ⟨sched j, s + 1⟩ rest := by
  simp only [runRPC, sendRPC, arm_nsre]
  simp [hs]

theorem immediateRetries_attempt_runRPC (c c' : Cls) (st : LoopSt) (outs : List Cls) :
    immediateRetries c (.attempt c' :: runRPC st outs) =
      (if outs = [] then 0 else if c' = c then 1 else 0) + immediateRetries c (runRPC st outs) := by
  unfold runRPC; exact immediateRetries_attempt_sendRPC c c' _ _ st outs

def runBatch := sendBatchRounds Backoff.nextBackoff (some ("immediateRetries", 1))

theorem batch_need (j : Nat) (i : Int) (rest : List Bool) :
    runBatch ⟨sched j, i⟩ (true :: rest) =
      .attempt .retryable :: .sleep (sched j) :: runBatch ⟨sched (j + 1), i⟩ rest := by
  simp only [runBatch, sendBatchRounds, Bool.true_or, if_true, sleepAndIncrease_pos _ _ (sched_pos j)]
  simp [sched]

theorem batch_imm_sleep (j : Nat) (i : Int) (hi : i > 1) (rest : List Bool) :
    runBatch ⟨sched j, i⟩ (false :: rest) =
      .attempt .server :: .sleep (sched j) :: runBatch ⟨sched (j + 1), i + 1⟩ rest := by
  simp only [runBatch, sendBatchRounds, Bool.false_or, decide_eq_true hi, if_true,
    sleepAndIncrease_pos _ _ (sched_pos j)]
  simp [sched]

theorem batch_imm (j : Nat) (i : Int) (hi : ¬ i > 1) (rest : List Bool) :
    runBatch ⟨sched j, i⟩ (false :: rest) =
      .attempt .server :: runBatch ⟨sched j, i + 1⟩ rest := by
  simp only [runBatch, sendBatchRounds, Bool.false_or, decide_eq_false hi]
  simp

theorem runBatch_nil (st : BatchSt) : runBatch st [] = [.attempt .ok] := by
  simp [runBatch, sendBatchRounds]

theorem immediateRetries_attempt_runBatch (c c' : Cls) (st : BatchSt) (rs : List Bool) :
    immediateRetries c (.attempt c' :: runBatch st rs) =
      (if c' = c then 1 else 0) + immediateRetries c (runBatch st rs) := by
  obtain ⟨c'', tl, h⟩ := sendBatchRounds_head Backoff.nextBackoff (some ("immediateRetries", 1)) st rs
  simp only [runBatch, h]
  exact immediateRetries_attempt_attempt c c' c'' tl

end GV.Retry
