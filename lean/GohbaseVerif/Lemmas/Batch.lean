import GohbaseVerif.Model.Batch
/-!
Helper lemmas for C07 / C12 (model `Model/Batch.lean`).
-/
namespace GV.Batch

/-! ### `rpcToRes` and slot access -/

theorem firstIdx_lt {c : Nat} {l : List Nat} (h : c ∈ l) : firstIdx c l < l.length := by
  induction l with
  | nil => cases h
  | cons x xs ih =>
    simp only [firstIdx]
    by_cases hx : x = c
    · simp [hx]
    · simp only [hx, if_false, List.length_cons]
      have : c ∈ xs := by
        cases h with
        | head => exact absurd rfl hx
        | tail _ h => exact h
      have := ih this
      omega

theorem getElem_firstIdx {c : Nat} {l : List Nat} (h : c ∈ l) :
    l[firstIdx c l]'(firstIdx_lt h) = c := by
  induction l with
  | nil => cases h
  | cons x xs ih =>
    by_cases hx : x = c
    · simp [firstIdx, hx]
    · have hm : c ∈ xs := by
        cases h with
        | head => exact absurd rfl hx
        | tail _ h => exact h
      simp only [firstIdx, hx, if_false, List.getElem_cons_succ]
      exact ih hm

theorem firstIdx_inj {c d : Nat} {l : List Nat} (hc : c ∈ l) (hd : d ∈ l)
    (h : firstIdx c l = firstIdx d l) : c = d := by
  have h1 := getElem_firstIdx hc
  have h2 := getElem_firstIdx hd
  simp only [h] at h1
  exact h1.symm.trans h2

theorem rpcToRes_lt {b0 : List Nat} {c : Nat} (h : c ∈ b0) : rpcToRes b0 c < b0.length := by
  simp only [rpcToRes, h, if_true]; exact firstIdx_lt h

theorem rpcToRes_inj {b0 : List Nat} {c d : Nat} (hc : c ∈ b0) (hd : d ∈ b0)
    (h : rpcToRes b0 c = rpcToRes b0 d) : c = d := by
  simp only [rpcToRes, hc, hd, if_true] at h
  exact firstIdx_inj hc hd h

/-- position `i` of a batch without repeated calls is the slot of the call at `i` -/
theorem firstIdx_getElem_of_nodup {l : List Nat} (hn : l.Nodup) (i : Nat) (hi : i < l.length) :
    firstIdx l[i] l = i := by
  induction l generalizing i with
  | nil => cases hi
  | cons x xs ih =>
    rw [List.nodup_cons] at hn
    cases i with
    | zero => simp [firstIdx]
    | succ j =>
      have hj : j < xs.length := by simpa using hi
      have hne : x ≠ xs[j] := by
        intro h; exact hn.1 (h ▸ List.getElem_mem hj)
      simp only [List.getElem_cons_succ, firstIdx, hne, if_false]
      rw [ih hn.2 j hj]

theorem rpcToRes_getElem_of_nodup {b0 : List Nat} (hn : b0.Nodup) (i : Nat) (hi : i < b0.length) :
    rpcToRes b0 b0[i] = i := by
  simp only [rpcToRes, List.getElem_mem hi, if_true]
  exact firstIdx_getElem_of_nodup hn i hi

@[simp] theorem length_setRes (b0 res c s) : (setRes b0 res c s).length = res.length := by
  simp [setRes]

@[simp] theorem length_setErr (b0 res c e) : (setErr b0 res c e).length = res.length := by
  simp [setErr]

theorem getSlot_setRes_self {b0 : List Nat} {res : List Slot} {c : Nat} {s : Slot}
    (hc : c ∈ b0) (hl : res.length = b0.length) : getSlot b0 (setRes b0 res c s) c = s := by
  have := rpcToRes_lt hc
  simp only [getSlot, setRes, List.getD_eq_getElem?_getD, List.getElem?_set]
  simp [hl, this]

theorem getSlot_setRes_other {b0 : List Nat} {res : List Slot} {c d : Nat} {s : Slot}
    (hc : c ∈ b0) (hd : d ∈ b0) (hne : d ≠ c) : getSlot b0 (setRes b0 res c s) d = getSlot b0 res d := by
  have : rpcToRes b0 c ≠ rpcToRes b0 d := fun h => hne (rpcToRes_inj hc hd h).symm
  simp only [getSlot, setRes, List.getD_eq_getElem?_getD, List.getElem?_set, this, if_false]

theorem getSlot_setErr_self {b0 : List Nat} {res : List Slot} {c : Nat} {e : Err}
    (hc : c ∈ b0) (hl : res.length = b0.length) :
    getSlot b0 (setErr b0 res c e) c = { getSlot b0 res c with err := some e } := by
  have := rpcToRes_lt hc
  have hlt : rpcToRes b0 c < res.length := by omega
  simp only [getSlot, setErr, List.getD_eq_getElem?_getD, List.getElem?_modify_eq]
  simp [List.getElem?_eq_getElem hlt]

theorem getSlot_setErr_other {b0 : List Nat} {res : List Slot} {c d : Nat} {e : Err}
    (hc : c ∈ b0) (hd : d ∈ b0) (hne : d ≠ c) : getSlot b0 (setErr b0 res c e) d = getSlot b0 res d := by
  have : rpcToRes b0 c ≠ rpcToRes b0 d := fun h => hne (rpcToRes_inj hc hd h).symm
  simp only [getSlot, setErr, List.getD_eq_getElem?_getD, List.getElem?_modify_ne _ _ this]

/-- reading the slice by position = reading the slot of the call at that position -/
theorem getSlot_eq_getElem {b0 : List Nat} {res : List Slot} (hn : b0.Nodup) (hl : res.length = b0.length)
    (i : Nat) (hi : i < b0.length) : getSlot b0 res b0[i] = res[i]'(by omega) := by
  have hi' : i < res.length := by omega
  simp only [getSlot, rpcToRes_getElem_of_nodup hn i hi, List.getD_eq_getElem?_getD,
    List.getElem?_eq_getElem hi', Option.getD_some]

/-! ### `dedup`, `arrange`, `groups` -/

theorem mem_dedup {k : Nat} {l : List Nat} : k ∈ dedup l ↔ k ∈ l := by
  induction l with
  | nil => simp [dedup]
  | cons x xs ih =>
    simp only [dedup, List.mem_cons, List.mem_filter, ih, bne_iff_ne, ne_eq]
    constructor
    · rintro (h | ⟨h, _⟩)
      · exact Or.inl h
      · exact Or.inr h
    · rintro (h | h)
      · exact Or.inl h
      · by_cases hk : k = x
        · exact Or.inl hk
        · exact Or.inr ⟨h, hk⟩

theorem nodup_dedup (l : List Nat) : (dedup l).Nodup := by
  induction l with
  | nil => simp [dedup]
  | cons x xs ih =>
    simp only [dedup, List.nodup_cons, List.mem_filter, bne_iff_ne, ne_eq, not_and]
    refine ⟨fun _ h => h trivial, ?_⟩
    exact (List.filter_sublist).nodup ih

theorem mem_arrange {k : Nat} {ord cls : List Nat} : k ∈ arrange ord cls ↔ k ∈ cls := by
  simp only [arrange, List.mem_append, List.mem_filter, mem_dedup, List.contains_iff_mem,
    Bool.not_eq_true']
  constructor
  · rintro (⟨_, h⟩ | ⟨h, _⟩) <;> exact h
  · intro h
    by_cases ho : k ∈ ord
    · exact Or.inl ⟨ho, h⟩
    · refine Or.inr ⟨h, ?_⟩
      simpa using ho

theorem nodup_arrange {ord cls : List Nat} (h : cls.Nodup) : (arrange ord cls).Nodup := by
  simp only [arrange, List.nodup_append]
  refine ⟨(List.filter_sublist).nodup (nodup_dedup ord), (List.filter_sublist).nodup h, ?_⟩
  intro a ha b hb hab
  subst hab
  simp only [List.mem_filter, mem_dedup] at ha hb
  have := hb.2
  simp [ha.1] at this


theorem groups_eq {rd : Round} {batch : List Nat} {g : Nat × List Nat} (h : g ∈ groups rd batch) :
    g.2 = batch.filter (fun c => clientOf rd c == g.1) ∧ g.1 ∈ batch.map (clientOf rd) := by
  simp only [groups, List.mem_map] at h
  obtain ⟨k, hk, rfl⟩ := h
  rw [mem_arrange, mem_dedup] at hk
  exact ⟨rfl, hk⟩

theorem groups_sublist {rd : Round} {batch : List Nat} {g : Nat × List Nat} (h : g ∈ groups rd batch) :
    g.2.Sublist batch := by
  rw [(groups_eq h).1]; exact List.filter_sublist

theorem groups_keys_nodup (rd : Round) (batch : List Nat) : ((groups rd batch).map (·.1)).Nodup := by
  simp only [groups, List.map_map]
  have : ((fun g : Nat × List Nat => g.1) ∘ fun k => (k, batch.filter (fun c => clientOf rd c == k))) = id := by
    funext k; rfl
  rw [this, List.map_id]
  exact nodup_arrange (nodup_dedup _)

theorem mem_groups_flat {rd : Round} {batch : List Nat} {c : Nat} :
    c ∈ (groups rd batch).flatMap (·.2) ↔ c ∈ batch := by
  simp only [List.mem_flatMap]
  constructor
  · rintro ⟨g, hg, hc⟩
    exact (groups_sublist hg).subset hc
  · intro hc
    refine ⟨(clientOf rd c, batch.filter (fun d => clientOf rd d == clientOf rd c)), ?_, ?_⟩
    · simp only [groups, List.mem_map]
      refine ⟨clientOf rd c, ?_, rfl⟩
      rw [mem_arrange, mem_dedup]
      exact List.mem_map_of_mem hc
    · simp [List.mem_filter, hc]

/-- each call sits in exactly one group: the one of its client -/
theorem mem_group_iff {rd : Round} {batch : List Nat} {g : Nat × List Nat} (h : g ∈ groups rd batch)
    {c : Nat} : c ∈ g.2 ↔ c ∈ batch ∧ clientOf rd c = g.1 := by
  rw [(groups_eq h).1]; simp [List.mem_filter]

end GV.Batch
