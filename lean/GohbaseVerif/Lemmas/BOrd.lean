import GohbaseVerif.Lemmas.Bcmp
/-! Order lemmas for `bcmp`: `a < b` is `bcmp a b = .lt`, `a ≤ b` is `bcmp a b ≠ .gt`. -/
namespace GV

theorem bcmp_ne_gt_iff (a b : Bytes) : bcmp a b ≠ .gt ↔ bcmp a b = .lt ∨ a = b := by
  constructor
  · intro h
    cases e : bcmp a b with
    | lt => exact .inl rfl
    | eq => exact .inr (bcmp_eq_iff.mp e)
    | gt => exact absurd e h
  · rintro (h | h)
    · rw [h]; decide
    · subst h; simp

theorem bcmp_lt_asymm {a b : Bytes} (h : bcmp a b = .lt) : bcmp b a = .gt := by
  rw [bcmp_swap a b, h]; rfl

theorem bcmp_lt_irrefl (a : Bytes) : bcmp a a ≠ .lt := by simp

theorem bcmp_lt_of_lt_of_le {a b c : Bytes} (h1 : bcmp a b = .lt) (h2 : bcmp b c ≠ .gt) :
    bcmp a c = .lt := by
  rcases (bcmp_ne_gt_iff b c).mp h2 with h | h
  · exact bcmp_trans_lt h1 h
  · subst h; exact h1

theorem bcmp_lt_of_le_of_lt {a b c : Bytes} (h1 : bcmp a b ≠ .gt) (h2 : bcmp b c = .lt) :
    bcmp a c = .lt := by
  rcases (bcmp_ne_gt_iff a b).mp h1 with h | h
  · exact bcmp_trans_lt h h2
  · subst h; exact h2

theorem bcmp_le_trans {a b c : Bytes} (h1 : bcmp a b ≠ .gt) (h2 : bcmp b c ≠ .gt) :
    bcmp a c ≠ .gt := by
  rcases (bcmp_ne_gt_iff a b).mp h1 with h | h
  · rw [bcmp_lt_of_lt_of_le h h2]; decide
  · subst h; exact h2

/-- `¬ a ≤ b ↔ b < a`. -/
theorem bcmp_gt_iff_lt' (a b : Bytes) : bcmp a b = .gt ↔ bcmp b a = .lt := bcmp_gt_iff_lt a b

theorem bcmp_not_le_iff (a b : Bytes) : ¬ bcmp a b ≠ .gt ↔ bcmp b a = .lt := by
  rw [← bcmp_gt_iff_lt]; exact Decidable.not_not

theorem bcmp_lt_not_le {a b : Bytes} (h : bcmp a b = .lt) : ¬ bcmp b a ≠ .gt := by
  rw [bcmp_not_le_iff]; exact h

theorem bcmp_le_not_lt {a b : Bytes} (h : bcmp a b ≠ .gt) : bcmp b a ≠ .lt := by
  intro h'; exact h ((bcmp_gt_iff_lt a b).mpr h')

theorem bcmp_le_total (a b : Bytes) : bcmp a b ≠ .gt ∨ bcmp b a = .lt := by
  cases e : bcmp a b with
  | lt => left; decide
  | eq => left; decide
  | gt => right; exact (bcmp_gt_iff_lt a b).mp e

theorem bcmp_nil_le (b : Bytes) : bcmp [] b ≠ .gt := by cases b <;> simp [bcmp]

theorem bcmp_lt_nil (a : Bytes) : bcmp a [] ≠ .lt := by cases a <;> simp [bcmp]

end GV
