import GohbaseVerif.Model.Avail
/-! Invariant of the availability protocol (C09). -/
namespace GV.Avail

/-- per-object invariant; `closed`, `closes` are the global flag and closure log, `r` the object -/
structure GoodReg (closed : Bool) (closes : List (Nat × Nat)) (r : Nat) (x : Reg) : Prop where
  le1 : x.ests.length ≤ 1
  held : x.avail = none → x.ests = []
  tok : x.avail ≠ none → x.ests.length = 1 ∨ x.published = false ∨ closed = true
  pristine : x.used = false → x.avail = none ∧ x.published = false ∧ x.gen = 0
  pubUsed : x.published = true → x.used = true
  gen : ∀ g, x.avail = some g → g + 1 = x.gen
  log : ∀ g, closes.count (r, g) = if g < x.gen ∧ x.avail ≠ some g then 1 else 0

structure Good (s : State) : Prop where
  regs : ∀ r, GoodReg s.closed s.closes r (s.regs r)
  nofault : s.fault = false

theorem ests_single {l : List PC} {p : PC} (h : l.length ≤ 1) (hp : p ∈ l) : l = [p] := by
  match l, h, hp with
  | [a], _, hp => simp at hp; rw [hp]
  | a :: b :: t, h, _ => simp at h

theorem count_cons_other (cl : List (Nat × Nat)) (r i g g' : Nat) (h : r ≠ i) :
    ((r, g) :: cl).count (i, g') = cl.count (i, g') := by
  rw [List.count_cons]
  have : ((r, g) == (i, g')) = false := by
    simp [h]
  simp [this]

namespace GoodReg
variable {c : Bool} {cl : List (Nat × Nat)} {r : Nat} {x : Reg}

theorem other_close (h : GoodReg c cl i x) (hne : r ≠ i) (g : Nat) : GoodReg c ((r, g) :: cl) i x :=
  { h with log := fun g' => by rw [count_cons_other _ _ _ _ _ hne]; exact h.log g' }

theorem closing (h : GoodReg c cl r x) : GoodReg true cl r x :=
  { h with tok := fun _ => Or.inr (Or.inr rfl) }

/-- changes of `client` / `dead` are irrelevant -/
theorem irrelevant (h : GoodReg c cl r x) (y : Reg) (h1 : y.ests = x.ests) (h2 : y.avail = x.avail)
    (h3 : y.published = x.published) (h4 : y.used = x.used) (h5 : y.gen = x.gen) :
    GoodReg c cl r y := by
  constructor
  · rw [h1]; exact h.le1
  · rw [h1, h2]; exact h.held
  · rw [h1, h2, h3]; exact h.tok
  · rw [h2, h3, h4, h5]; exact h.pristine
  · rw [h3, h4]; exact h.pubUsed
  · rw [h2, h5]; exact h.gen
  · rw [h2, h5]; exact h.log

theorem log_fresh_gen (h : GoodReg c cl r x) (_hn : x.avail = none) : cl.count (r, x.gen) = 0 := by
  have := h.log x.gen
  simpa using this

theorem markAndSpawn (h : GoodReg c cl r x) (hu : x.used = true) (b : Bool) :
    GoodReg c cl r (markAndSpawn x b) := by
  unfold Avail.markAndSpawn
  split
  · rename_i hn
    have he := h.held hn
    constructor
    · simp [he]
    · intro h'; cases h'
    · intro _; left; simp [he]
    · intro hu'; simp [hu] at hu'
    · exact h.pubUsed
    · intro g hg; simp at hg; simp [hg]
    · intro g
      have hl := h.log g
      simp only [hn] at hl
      show cl.count (r, g) = if g < x.gen + 1 ∧ some x.gen ≠ some g then 1 else 0
      by_cases hg : g = x.gen
      · subst hg; simp [h.log_fresh_gen hn]
      · rw [hl]
        have h1 : (some x.gen ≠ some g) := by intro h'; injection h' with h'; exact hg h'.symm
        have h2 : (g < x.gen + 1) ↔ g < x.gen := by omega
        simp [h1, h2]
  · exact h

theorem movePC (h : GoodReg c cl r x) {p : PC} (hp : p ∈ x.ests) (q : PC) :
    GoodReg c cl r (movePC x p q) := by
  have he := ests_single h.le1 hp
  have hav : x.avail ≠ none := fun hn => by rw [h.held hn] at hp; cases hp
  constructor
  · simp [Avail.movePC, he]
  · intro hn; exact absurd hn hav
  · intro _; left; simp [Avail.movePC, he]
  · exact h.pristine
  · exact h.pubUsed
  · exact h.gen
  · exact h.log

/-- an establisher leaving without `MarkAvailable` is only fine once the client is closed -/
theorem dropPC_closed (h : GoodReg true cl r x) (p : PC) : GoodReg true cl r (dropPC x p) := by
  constructor
  · exact Nat.le_trans (List.length_erase_le) h.le1
  · intro hn; simp [Avail.dropPC, h.held hn]
  · intro _; right; right; rfl
  · exact h.pristine
  · exact h.pubUsed
  · exact h.gen
  · exact h.log

/-- `MarkUnavailable(); SetClient(nil)` by `closeAll` (after `close(done)`) -/
theorem closeAllMark (h : GoodReg true cl r x) (hu : x.used = true) :
    GoodReg true cl r { (markUnavail x).1 with client := none } := by
  unfold markUnavail
  split
  · rename_i hn
    have he := h.held hn
    constructor
    · simp [he]
    · intro h'; cases h'
    · intro _; right; right; rfl
    · intro hu'; simp [hu] at hu'
    · exact h.pubUsed
    · intro g hg; simp at hg; simp [hg]
    · intro g
      have hl := h.log g
      simp only [hn] at hl
      show cl.count (r, g) = if g < x.gen + 1 ∧ some x.gen ≠ some g then 1 else 0
      by_cases hg : g = x.gen
      · subst hg; simp [h.log_fresh_gen hn]
      · rw [hl]
        have h1 : (some x.gen ≠ some g) := by intro h'; injection h' with h'; exact hg h'.symm
        have h2 : (g < x.gen + 1) ↔ g < x.gen := by omega
        simp [h1, h2]
  · exact h.irrelevant _ rfl rfl rfl rfl rfl

/-- the `release` step: the establisher leaves and the channel of generation `g` is closed -/
theorem release (h : GoodReg c cl r x) (hp : PC.release ∈ x.ests) {g : Nat} (hg : x.avail = some g) :
    GoodReg c ((r, g) :: cl) r { dropPC x .release with avail := none } := by
  have he := ests_single h.le1 hp
  have hgen := h.gen g hg
  constructor
  · simp [Avail.dropPC, he]
  · intro _; simp [Avail.dropPC, he]
  · intro h'; exact absurd rfl h'
  · intro hu; have := h.pristine hu; rw [hg] at this; cases this.1
  · exact h.pubUsed
  · intro g' h'; cases h'
  · intro g'
    have hl := h.log g'
    rw [hg] at hl
    show ((r, g) :: cl).count (r, g') = if g' < x.gen ∧ (none : Option Nat) ≠ some g' then 1 else 0
    rw [List.count_cons, hl]
    by_cases hgg : g' = g
    · subst hgg
      have : g' < x.gen := by omega
      simp [this]
    · have h1 : ((r, g) == (r, g')) = false := by
        simp; intro h'; exact hgg h'.symm
      have h2 : some g ≠ some g' := by intro h'; injection h' with h'; exact hgg h'.symm
      simp [h1, h2]

theorem fresh_obj (h : GoodReg c cl n x) (hu : x.used = false) (pub : Bool) (ests : List PC)
    (he : ests.length = 1 ∨ (ests = [] ∧ pub = false)) : GoodReg c cl n (fresh pub ests) := by
  have hp := h.pristine hu
  constructor
  · rcases he with he | he
    · simp [fresh, he]
    · simp [fresh, he.1]
  · intro h'; cases h'
  · intro _
    rcases he with he | he
    · left; simp [fresh, he]
    · right; left; simp [fresh, he.2]
  · intro h'; cases h'
  · intro _; rfl
  · intro g hg; simp [fresh] at hg; simp [fresh, ← hg]
  · intro g
    have hl := h.log g
    rw [hp.1, hp.2.2] at hl
    simp at hl
    simp only [fresh]
    rw [hl]
    by_cases hg : g = 0
    · subst hg; simp
    · have : ¬ g < 1 := by omega
      simp [this]

/-- lookup found another region but the cache refused it: the private object was marked
unavailable and available again -/
theorem fresh_not_replaced (h : GoodReg c cl n x) (hu : x.used = false) :
    GoodReg c ((n, 0) :: cl) n { used := true, avail := none, gen := 1 } := by
  have hp := h.pristine hu
  constructor
  · simp
  · intro _; rfl
  · intro h'; exact absurd rfl h'
  · intro h'; cases h'
  · intro h'; cases h'
  · intro g h'; cases h'
  · intro g
    have hl := h.log g
    rw [hp.1, hp.2.2] at hl
    simp at hl
    rw [List.count_cons, hl]
    by_cases hg : g = 0
    · subst hg; simp
    · have h1 : ¬ g < 1 := by omega
      have h2 : ((n, 0) == (n, g)) = false := by simp; exact fun h' => hg h'.symm
      simp [h1, h2]

end GoodReg

theorem init_good : Good init := by
  constructor
  · intro r
    simp only [init]
    split <;> constructor <;> simp
  · rfl

@[simp] theorem upd_regs_self (s : State) (r : Nat) (f : Reg → Reg) :
    (upd s r f).regs r = f (s.regs r) := by simp [upd]
theorem upd_regs_other (s : State) (r : Nat) (f : Reg → Reg) {i : Nat} (h : i ≠ r) :
    (upd s r f).regs i = s.regs i := by simp [upd, h]
@[simp] theorem upd_closed (s : State) (r : Nat) (f : Reg → Reg) : (upd s r f).closed = s.closed := rfl
@[simp] theorem upd_closes (s : State) (r : Nat) (f : Reg → Reg) : (upd s r f).closes = s.closes := rfl
@[simp] theorem upd_fault (s : State) (r : Nat) (f : Reg → Reg) : (upd s r f).fault = s.fault := rfl

theorem upd_ests_lt {s : State} {r i : Nat} {f : Reg → Reg}
    (h : ((upd s r f).regs i).ests.length < (s.regs i).ests.length) :
    i = r ∧ (f (s.regs r)).ests.length < (s.regs r).ests.length := by
  by_cases hi : i = r
  · subst hi; simpa using h
  · rw [upd_regs_other _ _ _ hi] at h; omega

theorem movePC_len {x : Reg} {p q : PC} (hp : p ∈ x.ests) : (movePC x p q).ests.length = x.ests.length := by
  simp only [movePC, List.length_cons, List.length_erase_of_mem hp]
  have : 0 < x.ests.length := List.length_pos_of_mem hp
  omega

theorem markAndSpawn_len (x : Reg) (b : Bool) : x.ests.length ≤ (markAndSpawn x b).ests.length := by
  unfold markAndSpawn; split <;> simp

theorem good_upd {s : State} (hg : Good s) (r : Nat) (f : Reg → Reg)
    (h : GoodReg s.closed s.closes r (f (s.regs r))) : Good (upd s r f) := by
  constructor
  · intro i
    by_cases hi : i = r
    · subst hi; simpa using h
    · rw [upd_regs_other _ _ _ hi]; exact hg.regs i
  · exact hg.nofault

theorem good_step {s s' : State} {a : Action} (hg : Good s) (h : step s a = some s') : Good s' := by
  cases a with
  | close =>
    simp only [step] at h; injection h with h; subst h
    exact ⟨fun r => (hg.regs r).closing, hg.nofault⟩
  | closeAllMark r =>
    simp only [step] at h
    split at h
    · rename_i hc
      injection h with h; subst h
      apply good_upd hg
      have := hg.regs r
      rw [hc.1] at this ⊢
      exact this.closeAllMark (this.pubUsed hc.2)
    · cases h
  | mark r =>
    simp only [step] at h
    split at h
    · rename_i hc
      injection h with h; subst h
      exact good_upd hg _ _ ((hg.regs r).markAndSpawn ((hg.regs r).pubUsed hc) _)
    · cases h
  | setClientNil r =>
    simp only [step] at h
    split at h
    · injection h with h; subst h
      exact good_upd hg _ _ ((hg.regs r).irrelevant _ rfl rfl rfl rfl rfl)
    · cases h
  | markDead r =>
    simp only [step] at h
    split at h
    · injection h with h; subst h
      exact good_upd hg _ _ ((hg.regs r).irrelevant _ rfl rfl rfl rfl rfl)
    · cases h
  | findRegion n replaced =>
    simp only [step] at h
    split at h
    · cases h
    · rename_i hu
      injection h with h; subst h
      apply good_upd hg
      apply (hg.regs n).fresh_obj (by simpa using hu)
      cases replaced <;> simp
  | estStart r =>
    simp only [step] at h
    split at h
    · rename_i hp
      split at h
      · rename_i hc
        injection h with h; subst h
        apply good_upd hg
        have := hg.regs r
        rw [hc] at this ⊢
        exact this.dropPC_closed _
      · injection h with h; subst h
        exact good_upd hg _ _ ((hg.regs r).movePC hp _)
    · cases h
  | estSleep r fromL err =>
    simp only [step] at h
    split at h
    · rename_i hp
      split at h
      · split at h
        · injection h with h; subst h
          exact good_upd hg _ _ ((hg.regs r).movePC hp _)
        · cases h
      · injection h with h; subst h
        exact good_upd hg _ _ ((hg.regs r).movePC hp _)
    · cases h
  | estLookup r res =>
    simp only [step] at h
    split at h
    · rename_i hp
      have hx := hg.regs r
      have hdead : Good (lookupDead s r) := good_upd hg _ _ (hx.movePC hp _)
      cases res with
      | tableNotFound =>
        simp only [stepLookup] at h; injection h with h; subst h
        apply good_upd hg
        exact (hx.irrelevant { s.regs r with dead := true, client := none }
          rfl rfl rfl rfl rfl).movePC hp _
      | ctxErr =>
        simp only [stepLookup] at h
        split at h
        · injection h with h; subst h; exact hdead
        · cases h
      | clientClosed =>
        simp only [stepLookup] at h
        split at h
        · injection h with h; subst h; exact hdead
        · split at h
          · rename_i hc
            injection h with h; subst h
            apply good_upd hg
            rw [hc] at hx ⊢
            exact hx.dropPC_closed _
          · cases h
      | same =>
        simp only [stepLookup] at h
        split at h
        · injection h with h; subst h; exact hdead
        · injection h with h; subst h
          exact good_upd hg _ _ (hx.movePC hp _)
      | newNotReplaced n =>
        simp only [stepLookup] at h
        split at h
        · injection h with h; subst h; exact hdead
        · split at h
          · cases h
          · rename_i hn
            injection h with h; subst h
            have hn' : (s.regs n).used = false ∧ n ≠ r := by
              constructor
              · cases hu : (s.regs n).used
                · rfl
                · exact absurd (Or.inl hu) hn
              · exact fun h' => hn (Or.inr h')
            constructor
            · intro i
              show GoodReg s.closed ((n, 0) :: s.closes) i _
              by_cases hi : i = r
              · subst hi
                simp only [upd_regs_self]
                rw [upd_regs_other _ _ _ (Ne.symm hn'.2)]
                exact (hx.movePC hp _).other_close hn'.2 0
              · rw [upd_regs_other _ _ _ hi]
                by_cases hin : i = n
                · subst hin
                  simp only [upd_regs_self]
                  exact (hg.regs i).fresh_not_replaced hn'.1
                · rw [upd_regs_other _ _ _ hin]
                  exact (hg.regs i).other_close (Ne.symm hin) 0
            · exact hg.nofault
      | newReplaced n =>
        simp only [stepLookup] at h
        split at h
        · injection h with h; subst h; exact hdead
        · split at h
          · cases h
          · rename_i hn
            injection h with h; subst h
            have hn' : (s.regs n).used = false ∧ n ≠ r := by
              constructor
              · cases hu : (s.regs n).used
                · rfl
                · exact absurd (Or.inl hu) hn
              · exact fun h' => hn (Or.inr h')
            have hg1 : Good (upd s n fun _ => fresh true [.haveAddr]) :=
              good_upd hg _ _ ((hg.regs n).fresh_obj hn'.1 _ _ (Or.inl rfl))
            apply good_upd hg1
            simp only [upd_closed, upd_closes]
            rw [upd_regs_other _ _ _ (Ne.symm hn'.2)]
            exact hx.movePC hp _
    · cases h
  | estDial r res =>
    simp only [step] at h
    split at h
    · rename_i hp
      have hx := hg.regs r
      have hav : (s.regs r).avail ≠ none := fun hn => by rw [hx.held hn] at hp; cases hp
      cases res with
      | ok c =>
        simp only [stepDial] at h; injection h with h; subst h
        exact good_upd hg _ _ ((hx.irrelevant { s.regs r with client := some c }
          rfl rfl rfl rfl rfl).movePC hp _)
      | notServing =>
        simp only [stepDial] at h; injection h with h; subst h
        exact good_upd hg _ _ (hx.movePC hp _)
      | serverError =>
        simp only [stepDial] at h; injection h with h; subst h
        apply good_upd hg
        have hms : markAndSpawn (s.regs r) true = s.regs r := by
          unfold markAndSpawn
          split
          · rename_i hn; exact absurd hn hav
          · rfl
        rw [hms]
        exact hx.movePC hp _
      | canceled =>
        simp only [stepDial] at h; injection h with h; subst h
        exact good_upd hg _ _ (hx.movePC hp _)
      | cacheClosed =>
        simp only [stepDial] at h
        split at h
        · rename_i hc
          injection h with h; subst h
          apply good_upd hg
          rw [hc] at hx ⊢
          exact hx.dropPC_closed _
        · cases h
    · cases h
  | estRelease r =>
    simp only [step] at h
    split at h
    · rename_i hp
      injection h with h; subst h
      have hx := hg.regs r
      have hav : (s.regs r).avail ≠ none := fun hn => by rw [hx.held hn] at hp; cases hp
      cases hgv : (s.regs r).avail with
      | none => exact absurd hgv hav
      | some g =>
        have hm : markAvail (upd s r fun x => dropPC x .release) r =
            { upd (upd s r fun x => dropPC x .release) r (fun x => { x with avail := none }) with
              closes := (r, g) :: s.closes } := by
          simp [markAvail, dropPC, hgv]
        rw [hm]
        constructor
        · intro i
          show GoodReg s.closed ((r, g) :: s.closes) i _
          by_cases hi : i = r
          · subst hi
            simp only [upd_regs_self]
            exact hx.release hp hgv
          · rw [upd_regs_other _ _ _ hi, upd_regs_other _ _ _ hi]
            exact (hg.regs i).other_close (Ne.symm hi) g
        · exact hg.nofault
    · cases h

theorem good_run {s s' : State} {as : List Action} (hg : Good s) (h : run s as = some s') : Good s' := by
  induction as generalizing s with
  | nil => simp only [run] at h; injection h with h; subst h; exact hg
  | cons a rest ih =>
    simp only [run] at h
    split at h
    · rename_i s1 hs; exact ih (good_step hg hs) h
    · cases h

theorem good_of_reachable {s : State} (h : Reachable s) : Good s := by
  obtain ⟨as, h⟩ := h
  exact good_run init_good h

end GV.Avail
