import GohbaseVerif.Lemmas.BatchFold
/-!
The retry loop: one-iteration case analysis (`loop_cons`) and the invariants proved by induction
over the rounds.
-/
namespace GV.Batch

/-- The back-off sleep did not complete: the batch context is done (`sleepCut`), or the own context
of every call about to be retried is (`sleepLeft`). Either way the retry loop ends there. -/
def isSleepCut : Event → Bool
  | .sleepCut _ => true
  | .sleepLeft _ => true
  | _ => false

def isSleep : Event → Bool
  | .sleep _ => true
  | _ => false

/-- The `QueueBatch` events of a round. -/
def queueEvents (r : Nat) (rd : Round) (batch : List Nat) : List Event :=
  (groups rd batch).map fun g => Event.queue r g.1 g.2

def acc0 (st : St) : Acc := ⟨st.res, st.allOK, [], false, st.unretry, false⟩

@[simp] theorem afterLocate_res (b0 rd batch st) :
    (afterLocate b0 rd batch st).res = locateErrors b0 rd batch st.res := rfl
@[simp] theorem afterLocate_allOK (b0 rd batch st) :
    (afterLocate b0 rd batch st).allOK = (st.allOK && !batch.any (ownGone rd)) := rfl
@[simp] theorem afterLocate_unretry (b0 rd batch st) :
    (afterLocate b0 rd batch st).unretry = (st.unretry || batch.any (ownGone rd)) := rfl
@[simp] theorem afterLocate_backoff (b0 rd batch st) : (afterLocate b0 rd batch st).backoff = st.backoff := rfl
@[simp] theorem afterLocate_immediate (b0 rd batch st) :
    (afterLocate b0 rd batch st).immediate = st.immediate := rfl
@[simp] theorem afterLocate_events (b0 rd batch st) : (afterLocate b0 rd batch st).events = st.events := rfl

/-- One pass through the retry loop: `findClients` fails (some call cannot be located for another
reason than its own context), or the calls whose own context ended the wait for their region are
failed alone (`afterLocate`), the wait phase runs on the others (`liveCalls`) and then the loop ends
(possibly inside the back-off sleep) or goes on with the calls to retry. -/
theorem loop_cons {b0 : List Nat} {rd : Round} {rest : List Round} {r : Nat} {batch : List Nat} {st : St}
    {R : Result} (h : loop b0 (rd :: rest) r batch st = .ok R) :
    (batch.any (fun c => !locOk rd c && !ownGone rd c) = true ∧
      R = ⟨locateErrors b0 rd batch st.res, false, st.events, false⟩) ∨
    (batch.any (fun c => !locOk rd c && !ownGone rd c) = false ∧ ∃ a,
      waitAll b0 rd.ans (cancelPos rd.cancel) (groups rd (liveCalls rd batch)) 0
        (acc0 (afterLocate b0 rd batch st)) = .ok a ∧
      ((∃ tail, R = ⟨a.res, a.allOK, st.events ++ queueEvents r rd (liveCalls rd batch) ++ tail,
            a.interrupted⟩ ∧
          (∀ e ∈ tail, isSleepCut e = true) ∧
          (a.retries = [] ∨ ctxDoneAfterWait rd.cancel = true ∨ tail ≠ [])) ∨
       (a.retries ≠ [] ∧ ctxDoneAfterWait rd.cancel = false ∧ ∃ bo imm tail,
          (∀ e ∈ tail, isSleep e = true) ∧
          loop b0 rest (r + 1) a.retries
            ⟨a.res, !a.unretry, a.unretry, bo, imm,
             st.events ++ queueEvents r rd (liveCalls rd batch) ++ tail⟩ = .ok R))) := by
  simp only [loop] at h
  split at h
  · rename_i hany
    simp only [Outcome.ok.injEq] at h
    exact Or.inl ⟨hany, h.symm⟩
  · rename_i hany
    refine Or.inr ⟨by simpa using hany, ?_⟩
    split at h
    · cases h
    · cases h
    · rename_i a ha
      refine ⟨a, ha, ?_⟩
      split at h
      · rename_i hex
        simp only [Outcome.ok.injEq] at h
        refine Or.inl ⟨[], by simp [← h, queueEvents], by simp, ?_⟩
        simp only [Bool.or_eq_true, List.isEmpty_iff] at hex
        rcases hex with h1 | h1
        · exact Or.inl h1
        · exact Or.inr (Or.inl h1)
      · rename_i hex
        simp only [Bool.or_eq_true, List.isEmpty_iff, not_or, Bool.not_eq_true] at hex
        split at h
        · split at h
          · exact Or.inr ⟨hex.1, hex.2, _, _, [], by simp, by simpa [queueEvents] using h⟩
          · split at h
            · simp only [Outcome.ok.injEq] at h
              exact Or.inl ⟨[.sleepCut (Gen.Backoff.sleepFor st.backoff)],
                by simp [← h, queueEvents], by simp [isSleepCut], Or.inr (Or.inr (by simp))⟩
            · split at h
              · simp only [Outcome.ok.injEq] at h
                exact Or.inl ⟨[.sleepLeft (Gen.Backoff.sleepFor st.backoff)],
                  by simp [← h, queueEvents], by simp [isSleepCut], Or.inr (Or.inr (by simp))⟩
              · exact Or.inr ⟨hex.1, hex.2, _, _, [.sleep (Gen.Backoff.sleepFor st.backoff)],
                  by simp [isSleep], by simpa [queueEvents] using h⟩
        · exact Or.inr ⟨hex.1, hex.2, _, _, [], by simp, by simpa [queueEvents] using h⟩

/-! ### the back-off sleep: what ends it -/

theorem backoffStart_ne_zero : Gen.Backoff.backoffStart ≠ 0 := by decide

theorem beforeWait_ne_zero (b : Int) : Gen.Backoff.beforeWait b ≠ 0 := by
  unfold Gen.Backoff.beforeWait
  split
  · exact backoffStart_ne_zero
  · assumption

theorem nextBackoff_ne_zero {b : Int} (h : b ≠ 0) : Gen.Backoff.nextBackoff b ≠ 0 := by
  unfold Gen.Backoff.nextBackoff
  split
  · omega
  · split <;> omega

/-- One pass that reaches a back-off sleep of non-zero length (some call is to be retried, the
batch context is not seen done by the wait, a back-off is due): the sleep is cut by the batch
context, or left because the own context of every call about to be retried is done — both end
`SendBatch` with `res` as it stands — or it completes and the next pass starts. -/
theorem loop_cons_sleep {b0 : List Nat} {rd : Round} {rest : List Round} {r : Nat} {batch : List Nat}
    {st : St} {R : Result} {a : Acc} (h : loop b0 (rd :: rest) r batch st = .ok R)
    (hany : batch.any (fun c => !locOk rd c && !ownGone rd c) = false)
    (ha : waitAll b0 rd.ans (cancelPos rd.cancel) (groups rd (liveCalls rd batch)) 0
        (acc0 (afterLocate b0 rd batch st)) = .ok a)
    (hret : a.retries ≠ []) (hnd : ctxDoneAfterWait rd.cancel = false)
    (hbk : (a.needBackoff || decide (st.immediate > 1)) = true) (hbo : st.backoff ≠ 0) :
    (rd.cancel = .sleep ∧
      R = ⟨a.res, a.allOK, st.events ++ queueEvents r rd (liveCalls rd batch) ++
            [.sleepCut (Gen.Backoff.sleepFor st.backoff)], a.interrupted⟩) ∨
    (rd.cancel ≠ .sleep ∧ a.retries.all rd.gaveUp = true ∧
      R = ⟨a.res, a.allOK, st.events ++ queueEvents r rd (liveCalls rd batch) ++
            [.sleepLeft (Gen.Backoff.sleepFor st.backoff)], a.interrupted⟩) ∨
    (rd.cancel ≠ .sleep ∧ a.retries.all rd.gaveUp = false ∧ ∃ imm,
      loop b0 rest (r + 1) a.retries
        ⟨a.res, !a.unretry, a.unretry, Gen.Backoff.nextBackoff st.backoff, imm,
         st.events ++ queueEvents r rd (liveCalls rd batch) ++
           [.sleep (Gen.Backoff.sleepFor st.backoff)]⟩ = .ok R) := by
  simp only [acc0] at ha
  have hne : a.retries.isEmpty = false := by
    cases hr : a.retries with
    | nil => exact absurd hr hret
    | cons x xs => rfl
  simp only [loop, hany, Bool.false_eq_true, if_false, afterLocate_events, afterLocate_immediate,
    afterLocate_backoff, ha, hne, hnd, Bool.or_self, hbo] at h
  simp only [Bool.or_eq_true, decide_eq_true_eq] at hbk
  split at h
  · by_cases hs : rd.cancel = .sleep
    · simp only [hs, if_true, Outcome.ok.injEq] at h
      exact Or.inl ⟨hs, by simp [← h, queueEvents]⟩
    · simp only [hs, if_false] at h
      by_cases hg : a.retries.all rd.gaveUp = true
      · simp only [hg, if_true, Outcome.ok.injEq] at h
        exact Or.inr (Or.inl ⟨hs, hg, by simp [← h, queueEvents]⟩)
      · simp only [hg, Bool.false_eq_true, if_false] at h
        exact Or.inr (Or.inr ⟨hs, by simpa using hg, _, by simpa [queueEvents] using h⟩)
  · rename_i hx
    simp only [Bool.or_eq_true] at hx
    rcases hbk with h1 | h1
    · exact (hx (Or.inl h1)).elim
    · exact (hx (Or.inr (decide_eq_true h1))).elim

/-- One pass after which some call is to be retried and the batch context was not seen done by the
wait: the loop ends inside the back-off sleep, or goes on — with a non-zero back-off if it had one,
and, if the pass had to back off for a non-zero time, only because some call about to be retried
has not given up. -/
theorem loop_cons_next {b0 : List Nat} {rd : Round} {rest : List Round} {r : Nat} {batch : List Nat}
    {st : St} {R : Result} {a : Acc} (h : loop b0 (rd :: rest) r batch st = .ok R)
    (hany : batch.any (fun c => !locOk rd c && !ownGone rd c) = false)
    (ha : waitAll b0 rd.ans (cancelPos rd.cancel) (groups rd (liveCalls rd batch)) 0
        (acc0 (afterLocate b0 rd batch st)) = .ok a)
    (hret : a.retries ≠ []) (hnd : ctxDoneAfterWait rd.cancel = false) :
    (∃ tail, R = ⟨a.res, a.allOK, st.events ++ queueEvents r rd (liveCalls rd batch) ++ tail,
          a.interrupted⟩ ∧ tail ≠ [] ∧ ∀ e ∈ tail, isSleepCut e = true) ∨
    (∃ bo imm tail, (∀ e ∈ tail, isSleep e = true) ∧
      loop b0 rest (r + 1) a.retries
        ⟨a.res, !a.unretry, a.unretry, bo, imm,
         st.events ++ queueEvents r rd (liveCalls rd batch) ++ tail⟩ = .ok R ∧
      (st.backoff ≠ 0 → bo ≠ 0) ∧
      (a.needBackoff = true → st.backoff ≠ 0 → a.retries.all rd.gaveUp = false)) := by
  by_cases hbk : (a.needBackoff || decide (st.immediate > 1)) = true
  · by_cases hbo : st.backoff = 0
    · -- sleepAndIncreaseBackoff returns at once
      simp only [acc0] at ha
      have hne : a.retries.isEmpty = false := by
        cases hr : a.retries with
        | nil => exact absurd hr hret
        | cons x xs => rfl
      simp only [loop, hany, Bool.false_eq_true, if_false, afterLocate_events, afterLocate_immediate,
        afterLocate_backoff, ha, hne, hnd, Bool.or_self, hbo, if_true] at h
      split at h
      · exact Or.inr ⟨_, _, [], by simp, by simpa [queueEvents] using h,
          fun _ => beforeWait_ne_zero _, fun _ hz => absurd hbo hz⟩
      · exact Or.inr ⟨_, _, [], by simp, by simpa [queueEvents] using h,
          fun hz => absurd hbo hz, fun _ hz => absurd hbo hz⟩
    · rcases loop_cons_sleep h hany ha hret hnd hbk hbo with ⟨_, rfl⟩ | ⟨_, _, rfl⟩ | ⟨_, hg, imm, hrec⟩
      · exact Or.inl ⟨_, rfl, by simp, by simp [isSleepCut]⟩
      · exact Or.inl ⟨_, rfl, by simp, by simp [isSleepCut]⟩
      · exact Or.inr ⟨_, imm, [.sleep (Gen.Backoff.sleepFor st.backoff)], by simp [isSleep], hrec,
          fun hz => nextBackoff_ne_zero hz, fun _ _ => hg⟩
  · -- immediate retry
    have hnb : a.needBackoff = false := by
      cases hx : a.needBackoff
      · rfl
      · simp [hx] at hbk
    simp only [acc0] at ha
    have hne : a.retries.isEmpty = false := by
      cases hr : a.retries with
      | nil => exact absurd hr hret
      | cons x xs => rfl
    have hi : ¬ (st.immediate > 1) := by
      intro hi
      simp [hi] at hbk
    simp only [loop, hany, Bool.false_eq_true, if_false, afterLocate_events, afterLocate_immediate,
      afterLocate_backoff, ha, hne, hnd, Bool.or_self, hnb, hi, decide_false] at h
    exact Or.inr ⟨_, _, [], by simp, by simpa [queueEvents] using h, fun hz => hz,
      fun hx => by rw [hnb] at hx; cases hx⟩

/-- calls of a round, in wait order, are exactly the round's batch -/
theorem mem_flat_iff {rd : Round} {batch : List Nat} {pre post : List Nat}
    (hf : (groups rd batch).flatMap (·.2) = pre ++ post) {c : Nat} : c ∈ pre ++ post ↔ c ∈ batch := by
  rw [← hf]; exact mem_groups_flat


/-- The wait phase of a round, from the state at the top of the loop. -/
theorem round_flat {b0 : List Nat} {rd : Round} {batch : List Nat} {st : St} {a : Acc}
    (h : waitAll b0 rd.ans (cancelPos rd.cancel) (groups rd batch) 0 (acc0 st) = .ok a) :
    ∃ pre post, (∀ c, c ∈ pre ++ post ↔ c ∈ batch) ∧ (a.interrupted = false → post = []) ∧
      a.res = sweep b0 rd.ans post (pre.foldl (wr1 b0 rd.ans) st.res) ∧
      a.retries = pre.filter (fun c => isRetry (rd.ans c)) ∧
      a.needBackoff = pre.any (fun c => isBackoff (rd.ans c)) ∧
      a.unretry = (st.unretry || pre.any (fun c => isUnretry (rd.ans c))) ∧
      a.allOK = (st.allOK && pre.all (fun c => isOkAns (rd.ans c)) &&
        post.all (fun c => isOkAns (rd.ans c))) ∧
      (∀ c ∈ pre, rd.ans c ≠ .silent) := by
  obtain ⟨pre, post, hf, _, hpost, hres, hret, hnb, hun, hall, hsil, _⟩ := waitAll_flat h
  exact ⟨pre, post, fun c => mem_flat_iff hf, hpost, hres, by simpa [acc0] using hret,
    by simpa [acc0] using hnb, hun, hall, hsil⟩

theorem retries_sub {pre post batch : List Nat} {p : Nat → Bool}
    (hm : ∀ c, c ∈ pre ++ post ↔ c ∈ batch) : ∀ c ∈ pre.filter p, c ∈ batch := by
  intro c hc
  exact (hm c).mp (List.mem_append_left _ (List.mem_filter.mp hc).1)

theorem loop_length {b0 : List Nat} {rounds : List Round} {r : Nat} {batch : List Nat} {st : St} {R : Result}
    (h : loop b0 rounds r batch st = .ok R) : R.res.length = st.res.length := by
  induction rounds generalizing r batch st with
  | nil => simp [loop] at h
  | cons rd rest ih =>
    rcases loop_cons h with ⟨_, rfl⟩ | ⟨_, a, ha, hcase⟩
    · simp
    · obtain ⟨pre, post, _, _, hres, _⟩ := round_flat ha
      have hal : a.res.length = st.res.length := by rw [hres]; simp
      rcases hcase with ⟨tail, rfl, _⟩ | ⟨_, _, bo, imm, tail, _, hrec⟩
      · exact hal
      · rw [ih hrec]; exact hal

/-- Calls that are not (re)sent keep their slot: later rounds only write the slots of their own batch. -/
theorem loop_frame {b0 : List Nat} {rounds : List Round} {r : Nat} {batch : List Nat} {st : St} {R : Result}
    (h : loop b0 rounds r batch st = .ok R) (hb : ∀ c ∈ batch, c ∈ b0) {d : Nat} (hd : d ∈ b0)
    (hn : d ∉ batch) : getSlot b0 R.res d = getSlot b0 st.res d := by
  induction rounds generalizing r batch st with
  | nil => simp [loop] at h
  | cons rd rest ih =>
    rcases loop_cons h with ⟨_, rfl⟩ | ⟨_, a, ha, hcase⟩
    · exact locateErrors_frame hb hd hn
    · -- the calls failed alone are calls of the batch; go on from the state after `findClients`
      have hb' : ∀ c ∈ liveCalls rd batch, c ∈ b0 := fun c hc => hb c (liveCalls_sub hc)
      have hn' : d ∉ liveCalls rd batch := fun hc => hn (liveCalls_sub hc)
      have hfr : getSlot b0 (afterLocate b0 rd batch st).res d = getSlot b0 st.res d := by
        rw [afterLocate_res]; exact locateErrors_frame hb hd hn
      rw [← hfr]
      clear hfr
      revert ha hcase hb' hn'
      generalize afterLocate b0 rd batch st = st', liveCalls rd batch = live
      intro ha hcase hb hn
      obtain ⟨pre, post, hm, _, hres, hret, _⟩ := round_flat ha
      have hpre : ∀ c ∈ pre, c ∈ b0 := fun c hc => hb c ((hm c).mp (List.mem_append_left _ hc))
      have hpost : ∀ c ∈ post, c ∈ b0 := fun c hc => hb c ((hm c).mp (List.mem_append_right _ hc))
      have hdpre : d ∉ pre := fun hc => hn ((hm d).mp (List.mem_append_left _ hc))
      have hdpost : d ∉ post := fun hc => hn ((hm d).mp (List.mem_append_right _ hc))
      have hframe : getSlot b0 a.res d = getSlot b0 st'.res d := by
        rw [hres, sweep_frame hpost hd hdpost, foldl_wr1_frame hpre hd hdpre]
      rcases hcase with ⟨tail, rfl, _⟩ | ⟨_, _, bo, imm, tail, _, hrec⟩
      · exact hframe
      · have hsub : ∀ c ∈ a.retries, c ∈ live := by rw [hret]; exact retries_sub hm
        rw [ih hrec (fun c hc => hb c (hsub c hc)) (fun hc => hn (hsub d hc))]
        exact hframe

/-- Per-call invariants are kept by the whole loop. -/
theorem loop_inv {P : Nat → Slot → Prop} {b0 : List Nat} {rounds : List Round} {r : Nat} {batch : List Nat}
    {st : St} {R : Result} (h : loop b0 rounds r batch st = .ok R) (hb : ∀ c ∈ batch, c ∈ b0)
    (hr : ∀ rd ∈ rounds, RoundInv P rd) (hs : SlotsInv P b0 st.res) : SlotsInv P b0 R.res := by
  induction rounds generalizing r batch st with
  | nil => simp [loop] at h
  | cons rd rest ih =>
    have hrd := hr rd (List.mem_cons_self ..)
    rcases loop_cons h with ⟨_, rfl⟩ | ⟨_, a, ha, hcase⟩
    · exact hs.locateErrors hrd hb
    · have hb' : ∀ c ∈ liveCalls rd batch, c ∈ b0 := fun c hc => hb c (liveCalls_sub hc)
      have hs' : SlotsInv P b0 (afterLocate b0 rd batch st).res := hs.locateErrors hrd hb
      revert ha hcase hb' hs'
      generalize afterLocate b0 rd batch st = st', liveCalls rd batch = live
      intro ha hcase hb hs
      obtain ⟨pre, post, hm, _, hres, hret, _⟩ := round_flat ha
      have hpre : ∀ c ∈ pre, c ∈ b0 := fun c hc => hb c ((hm c).mp (List.mem_append_left _ hc))
      have hpost : ∀ c ∈ post, c ∈ b0 := fun c hc => hb c ((hm c).mp (List.mem_append_right _ hc))
      have ha' : SlotsInv P b0 a.res := by
        rw [hres]; exact (hs.foldl_wr1 hrd hpre).sweep hrd hpost
      rcases hcase with ⟨tail, rfl, _⟩ | ⟨_, _, bo, imm, tail, _, hrec⟩
      · exact ha'
      · have hsub : ∀ c ∈ a.retries, c ∈ live := by rw [hret]; exact retries_sub hm
        exact ih hrec (fun c hc => hb c (hsub c hc)) (fun x hx => hr x (List.mem_cons_of_mem _ hx)) ha'


/-! ### `allOK` -/

theorem handled_err_none {c : Nat} {a : Ans} {s : Slot} (h : HandledSlot c a s) (hs : a ≠ .silent) :
    s.err = none ↔ isOkAns a = true := by
  cases a with
  | ok m => simp only [HandledSlot] at h; simp [h, isOkAns, Ans.isOk]
  | fail cls t => simp only [HandledSlot] at h; simp [h, isOkAns, Ans.isOk]
  | ownDone => simp only [HandledSlot] at h; simp [h, isOkAns, Ans.isOk]
  | silent => exact absurd rfl hs

theorem unretry_not_retry {a : Ans} (h : isUnretry a = true) : isRetry a = false := by
  cases a with
  | fail cls t => cases cls <;> simp_all [isUnretry, isRetry]
  | _ => simp_all [isUnretry, isRetry]

theorem not_ok_retry_unretry {a : Ans} (h1 : isOkAns a = false) (h2 : isRetry a = false) (h3 : a ≠ .silent) :
    isUnretry a = true := by
  cases a with
  | fail cls t => cases cls <;> simp_all [isUnretry, isRetry]
  | _ => simp_all [isUnretry, isRetry, isOkAns, Ans.isOk]

theorem waitGroup_no_cancel {b0 : List Nat} {ans : Nat → Ans} {cs : List Nat} {pos : Nat} {w w' : W} {cut : Bool}
    (h : waitGroup b0 ans none cs pos w = .ok (w', cut)) : cut = false := by
  induction cs generalizing pos w with
  | nil => simp only [waitGroup, Outcome.ok.injEq, Prod.mk.injEq] at h; exact h.2.symm
  | cons c cs ih =>
    simp only [waitGroup] at h
    split at h
    · rename_i hc; cases hc
    · split at h
      · exact ih h
      · cases h
      · cases h

theorem waitAll_no_cancel {b0 : List Nat} {ans : Nat → Ans} {gs : List (Nat × List Nat)} {pos : Nat} {a a' : Acc}
    (h : waitAll b0 ans none gs pos a = .ok a') (hi : a.interrupted = false) : a'.interrupted = false := by
  induction gs generalizing pos a with
  | nil => simp only [waitAll, Outcome.ok.injEq] at h; rw [← h]; exact hi
  | cons g gs ih =>
    simp only [waitAll, hi, Bool.false_eq_true, if_false] at h
    split at h
    · rename_i w cut hw
      have hc := waitGroup_no_cancel hw
      subst hc
      refine ih h ?_
      split <;> rfl
    · cases h
    · cases h

theorem cancelPos_none_of_not_done {c : Cancel} (h : ctxDoneAfterWait c = false) : cancelPos c = none := by
  cases c <;> simp_all [ctxDoneAfterWait, cancelPos]

theorem swept_err_none {a : Ans} {s : Slot} (h : SweptSlot a s) : s.err = none ↔ isOkAns a = true := by
  cases a with
  | ok m => simp only [SweptSlot] at h; simp [h, isOkAns, Ans.isOk]
  | fail cls t => simp only [SweptSlot] at h; simp [h, isOkAns, Ans.isOk]
  | ownDone => simp only [SweptSlot] at h; simp [h, isOkAns, Ans.isOk]
  | silent => simp only [SweptSlot] at h; simp [h, isOkAns, Ans.isOk]

/-- The bookkeeping invariant at the top of the retry loop and what it gives at every exit:
`allOK` is true exactly when every slot has a nil error. -/
theorem loop_allOK {b0 : List Nat} {rounds : List Round} {r : Nat} {batch : List Nat} {st : St} {R : Result}
    (h : loop b0 rounds r batch st = .ok R) (hb : ∀ c ∈ batch, c ∈ b0) (hl : st.res.length = b0.length)
    (h2 : st.allOK = !st.unretry)
    (h3 : st.unretry = true ↔ ∃ c ∈ b0, c ∉ batch ∧ (getSlot b0 st.res c).err ≠ none) :
    R.allOK = true ↔ ∀ c ∈ b0, (getSlot b0 R.res c).err = none := by
  induction rounds generalizing r batch st with
  | nil => simp [loop] at h
  | cons rd rest ih =>
    rcases loop_cons h with ⟨hany, rfl⟩ | ⟨_, a, ha, hcase⟩
    · refine ⟨fun h => Bool.noConfusion h, fun hall => ?_⟩
      obtain ⟨c, hc, hloc⟩ := List.any_eq_true.mp hany
      have : ∃ e, rd.locate c = .error e := by
        simp only [Bool.and_eq_true, Bool.not_eq_true', locOk] at hloc
        replace hloc := hloc.1
        split at hloc
        · cases hloc
        · rename_i e he; exact ⟨e, he⟩
      obtain ⟨e, he⟩ := this
      have := hall c (hb c hc)
      rw [locateErrors_self hb hl hc he] at this
      cases this
    · -- the state after `findClients` (calls failed alone by their own context) satisfies the
      -- bookkeeping invariant for the remaining calls
      have hb' : ∀ c ∈ liveCalls rd batch, c ∈ b0 := fun c hc => hb c (liveCalls_sub hc)
      have hl' : (afterLocate b0 rd batch st).res.length = b0.length := by simp [hl]
      have h2' : (afterLocate b0 rd batch st).allOK = !(afterLocate b0 rd batch st).unretry := by
        simp only [afterLocate_allOK, afterLocate_unretry, h2]
        cases st.unretry <;> cases batch.any (ownGone rd) <;> rfl
      have h3' : (afterLocate b0 rd batch st).unretry = true ↔
          ∃ c ∈ b0, c ∉ liveCalls rd batch ∧ (getSlot b0 (afterLocate b0 rd batch st).res c).err ≠ none := by
        simp only [afterLocate_unretry, afterLocate_res, Bool.or_eq_true]
        constructor
        · rintro (hu | hg)
          · obtain ⟨c, hc, hcb, he⟩ := h3.mp hu
            exact ⟨c, hc, fun hcl => hcb (liveCalls_sub hcl), by rw [locateErrors_frame hb hc hcb]; exact he⟩
          · obtain ⟨c, hcb, hcg⟩ := List.any_eq_true.mp hg
            refine ⟨c, hb c hcb, fun hcl => ?_, ?_⟩
            · rw [(mem_liveCalls.mp hcl).2] at hcg; cases hcg
            · rw [locateErrors_self hb hl hcb (ownGone_locate hcg)]; simp
        · rintro ⟨c, hc, hcl, he⟩
          by_cases hcb : c ∈ batch
          · refine Or.inr (List.any_eq_true.mpr ⟨c, hcb, ?_⟩)
            cases hg : ownGone rd c
            · exact absurd (mem_liveCalls.mpr ⟨hcb, hg⟩) hcl
            · rfl
          · rw [locateErrors_frame hb hc hcb] at he
            exact Or.inl (h3.mpr ⟨c, hc, hcb, he⟩)
      revert ha hcase hb' hl' h2' h3'
      generalize afterLocate b0 rd batch st = st', liveCalls rd batch = live
      intro ha hcase hb hl h2 h3
      obtain ⟨pre, post, hm, hpost0, hres, hret, _, hun, hallok, hsil⟩ := round_flat ha
      have hpre : ∀ c ∈ pre, c ∈ b0 := fun c hc => hb c ((hm c).mp (List.mem_append_left _ hc))
      have hpostb : ∀ c ∈ post, c ∈ b0 := fun c hc => hb c ((hm c).mp (List.mem_append_right _ hc))
      have hmid : (pre.foldl (wr1 b0 rd.ans) st'.res).length = b0.length := by simp [hl]
      -- slots of calls outside the round's live are untouched
      have hframe : ∀ d ∈ b0, d ∉ live → getSlot b0 a.res d = getSlot b0 st'.res d := by
        intro d hd hn
        have hdpre : d ∉ pre := fun hc => hn ((hm d).mp (List.mem_append_left _ hc))
        have hdpost : d ∉ post := fun hc => hn ((hm d).mp (List.mem_append_right _ hc))
        rw [hres, sweep_frame hpostb hd hdpost, foldl_wr1_frame hpre hd hdpre]
      -- every call of the live ends the round with a nil error exactly when its answer is a success
      have hslot : ∀ c ∈ live, ((getSlot b0 a.res c).err = none ↔ isOkAns (rd.ans c) = true) := by
        intro c hc
        by_cases hcp : c ∈ post
        · have := sweep_self (ans := rd.ans) hpostb hmid hcp
          rw [hres]; exact swept_err_none this
        · have hcpre : c ∈ pre := by
            rcases List.mem_append.mp ((hm c).mpr hc) with h | h
            · exact h
            · exact absurd h hcp
          rw [hres, sweep_frame hpostb (hb c hc) hcp]
          exact handled_err_none (foldl_wr1_self hpre hl hcpre) (hsil c hcpre)
      have hexit : a.allOK = true ↔ ∀ c ∈ b0, (getSlot b0 a.res c).err = none := by
        constructor
        · intro hok
          rw [hallok] at hok
          simp only [Bool.and_eq_true, List.all_eq_true] at hok
          obtain ⟨⟨hst, hallpre⟩, hallpost⟩ := hok
          intro c hc
          by_cases hcb : c ∈ live
          · refine (hslot c hcb).mpr ?_
            rcases List.mem_append.mp ((hm c).mpr hcb) with h | h
            · exact hallpre c h
            · exact hallpost c h
          · rw [hframe c hc hcb]
            have hu : st'.unretry = false := by rw [hst] at h2; simpa using h2.symm
            by_cases he : (getSlot b0 st'.res c).err = none
            · exact he
            · have := h3.mpr ⟨c, hc, hcb, he⟩
              rw [hu] at this; cases this
        · intro hnil
          rw [hallok]
          simp only [Bool.and_eq_true, List.all_eq_true]
          refine ⟨⟨?_, ?_⟩, ?_⟩
          · rw [h2]
            cases hu : st'.unretry
            · rfl
            · obtain ⟨c, hc, hcb, he⟩ := h3.mp hu
              rw [← hframe c hc hcb] at he
              exact absurd (hnil c hc) he
          · intro c hcp
            have hcb : c ∈ live := (hm c).mp (List.mem_append_left _ hcp)
            exact (hslot c hcb).mp (hnil c (hb c hcb))
          · intro c hcp
            have hcb : c ∈ live := (hm c).mp (List.mem_append_right _ hcp)
            exact (hslot c hcb).mp (hnil c (hb c hcb))
      rcases hcase with ⟨tail, rfl, _⟩ | ⟨_, hnd, bo, imm, tail, _, hrec⟩
      · exact hexit
      · have hsub : ∀ c ∈ a.retries, c ∈ live := by rw [hret]; exact retries_sub hm
        have hint : a.interrupted = false := by
          rw [cancelPos_none_of_not_done hnd] at ha
          exact waitAll_no_cancel ha rfl
        have hp := hpost0 hint
        subst hp
        have hal : a.res.length = b0.length := by rw [hres]; simp [hl]
        have hinpre : ∀ c ∈ live, c ∈ pre := fun c hc => by simpa using (hm c).mpr hc
        refine ih hrec (fun c hc => hb c (hsub c hc)) hal rfl ?_
        show a.unretry = true ↔ _
        rw [hun]
        constructor
        · intro hu
          simp only [Bool.or_eq_true, List.any_eq_true] at hu
          rcases hu with hu | ⟨c, hcp, hcu⟩
          · obtain ⟨c, hc, hcb, he⟩ := h3.mp hu
            exact ⟨c, hc, fun hcr => hcb (hsub c hcr), by rw [hframe c hc hcb]; exact he⟩
          · have hcb : c ∈ live := (hm c).mp (List.mem_append_left _ hcp)
            refine ⟨c, hb c hcb, ?_, ?_⟩
            · rw [hret]; intro hcr
              have := (List.mem_filter.mp hcr).2
              rw [unretry_not_retry hcu] at this; cases this
            · intro hnone
              have := (hslot c hcb).mp hnone
              cases hac : rd.ans c <;> simp_all [isOkAns, Ans.isOk, isUnretry]
        · rintro ⟨c, hc, hcr, he⟩
          simp only [Bool.or_eq_true, List.any_eq_true]
          by_cases hcb : c ∈ live
          · have hcp := hinpre c hcb
            refine Or.inr ⟨c, hcp, ?_⟩
            have hnok : isOkAns (rd.ans c) = false := by
              cases hk : isOkAns (rd.ans c)
              · rfl
              · exact absurd ((hslot c hcb).mpr hk) he
            have hnr : isRetry (rd.ans c) = false := by
              cases hk : isRetry (rd.ans c)
              · rfl
              · exact absurd (by rw [hret]; exact List.mem_filter.mpr ⟨hcp, hk⟩) hcr
            exact not_ok_retry_unretry hnok hnr (hsil c hcp)
          · exact Or.inl (h3.mpr ⟨c, hc, hcb, by rw [← hframe c hc hcb]; exact he⟩)

/-! ### calls failed alone by their own context during region location -/

theorem afterLocate_live {b0 : List Nat} {rd : Round} {batch : List Nat} {st : St}
    (hany : batch.any (fun c => !locOk rd c && !ownGone rd c) = false) :
    afterLocate b0 rd (liveCalls rd batch) st = st := by
  have h1 : locateErrors b0 rd (liveCalls rd batch) st.res = st.res :=
    locateErrors_id (fun c hc => locOk_of_live hany hc)
  simp only [afterLocate, h1, any_ownGone_live]
  cases st; simp

theorem live_any_false {rd : Round} {batch : List Nat}
    (hany : batch.any (fun c => !locOk rd c && !ownGone rd c) = false) :
    (liveCalls rd batch).any (fun c => !locOk rd c && !ownGone rd c) = false := by
  rw [List.any_eq_false] at hany ⊢
  intro c hc
  exact hany c (liveCalls_sub hc)

/-- **The round goes on without the calls whose own context ended the wait for their region**: as
long as `findClients` returns `ok == true`, a pass through the retry loop is the pass over the
remaining calls (`liveCalls`: the others are neither queued, nor waited for, nor retried) from the
state in which the calls failed alone carry their own-context error (`afterLocate`). -/
theorem loop_skip_ownGone {b0 : List Nat} {rd : Round} {rest : List Round} {r : Nat} {batch : List Nat}
    {st : St} (hany : batch.any (fun c => !locOk rd c && !ownGone rd c) = false) :
    loop b0 (rd :: rest) r batch st =
      loop b0 (rd :: rest) r (liveCalls rd batch) (afterLocate b0 rd batch st) := by
  simp only [loop, hany, live_any_false hany, liveCalls_idem, afterLocate_live hany, Bool.false_eq_true,
    if_false]

/-- A call of the round's batch whose own context ended the wait for its region ends with exactly
its own-context error, whatever happens to the other calls in this and in later rounds. -/
theorem loop_ownGone_slot {b0 : List Nat} {rd : Round} {rest : List Round} {r : Nat} {batch : List Nat}
    {st : St} {R : Result} (h : loop b0 (rd :: rest) r batch st = .ok R) (hb : ∀ c ∈ batch, c ∈ b0)
    (hl : st.res.length = b0.length) {c : Nat} (hc : c ∈ batch) (hg : ownGone rd c = true) :
    getSlot b0 R.res c = ⟨none, some (.ownCtx c)⟩ := by
  by_cases hany : batch.any (fun c => !locOk rd c && !ownGone rd c) = true
  · rcases loop_cons h with ⟨_, rfl⟩ | ⟨hno, _⟩
    · exact locateErrors_self hb hl hc (ownGone_locate hg)
    · rw [hany] at hno; cases hno
  · have hany' : batch.any (fun c => !locOk rd c && !ownGone rd c) = false := by
      simpa using hany
    rw [loop_skip_ownGone hany'] at h
    have hcl : c ∉ liveCalls rd batch := fun hcl => by
      rw [(mem_liveCalls.mp hcl).2] at hg; cases hg
    rw [loop_frame h (fun d hd => hb d (liveCalls_sub hd)) (hb c hc) hcl, afterLocate_res]
    exact locateErrors_self hb hl hc (ownGone_locate hg)

/-! ### validation -/

theorem validate_spec (info : Info) (t0 : Nat) (pre rest : List Nat) :
    (validate info t0 pre rest).1.length = rest.length ∧
    (∀ s ∈ (validate info t0 pre rest).1, s.msg = none ∧ s.err ≠ none) ∧
    ((validate info t0 pre rest).2 = true ↔
      (∀ c ∈ rest, c ∉ pre ∧ info.table c = t0 ∧ info.batchable c = true) ∧ rest.Nodup) := by
  induction rest generalizing pre with
  | nil => simp [validate]
  | cons c rest ih =>
    obtain ⟨ih1, ih2, ih3⟩ := ih (pre ++ [c])
    simp only [validate]
    split
    · rename_i hc
      refine ⟨by simp [ih1], ?_, ?_⟩
      · intro s hs
        rcases List.mem_cons.mp hs with rfl | hs
        · simp
        · exact ih2 s hs
      · simp [hc]
    · rename_i hc
      split
      · rename_i ht
        refine ⟨by simp [ih1], ?_, ?_⟩
        · intro s hs
          rcases List.mem_cons.mp hs with rfl | hs
          · simp
          · exact ih2 s hs
        · simp [ht]
      · rename_i ht
        split
        · rename_i hbt
          refine ⟨by simp [ih1], ?_, ?_⟩
          · intro s hs
            rcases List.mem_cons.mp hs with rfl | hs
            · simp
            · exact ih2 s hs
          · simp only [Bool.not_eq_true'] at hbt
            simp [hbt]
        · rename_i hbt
          refine ⟨by simp [ih1], ?_, ?_⟩
          · intro s hs
            rcases List.mem_cons.mp hs with rfl | hs
            · simp
            · exact ih2 s hs
          · simp only [Bool.not_eq_true', Bool.not_eq_false] at hbt
            simp only [ne_eq, Decidable.not_not] at ht
            rw [ih3]
            simp only [List.mem_cons, forall_eq_or_imp, List.nodup_cons, List.mem_append, not_or,
              List.not_mem_nil, not_false_eq_true, and_true]
            constructor
            · rintro ⟨hall, hnd⟩
              refine ⟨⟨⟨hc, ht, hbt⟩, fun d hd => ⟨(hall d hd).1.1, (hall d hd).2⟩⟩, ?_, hnd⟩
              intro hcr; exact (hall c hcr).1.2 rfl
            · rintro ⟨⟨_, hall⟩, hcr, hnd⟩
              refine ⟨fun d hd => ⟨⟨(hall d hd).1, ?_⟩, (hall d hd).2⟩, hnd⟩
              rintro rfl; exact hcr hd

/-- A batch `SendBatch` accepts: one table, only batchable calls, no call twice. -/
def ValidBatch (info : Info) (batch : List Nat) : Prop :=
  batch.Nodup ∧ ∀ c ∈ batch, info.table c = info.table (batch.headD 0) ∧ info.batchable c = true

theorem validate_true_iff (info : Info) (c0 : Nat) (rest : List Nat) :
    (validate info (info.table c0) [] (c0 :: rest)).2 = true ↔ ValidBatch info (c0 :: rest) := by
  rw [(validate_spec info (info.table c0) [] (c0 :: rest)).2.2]
  simp only [ValidBatch, List.headD_cons, List.not_mem_nil, not_false_eq_true, true_and]
  exact ⟨fun h => ⟨h.2, h.1⟩, fun h => ⟨h.2, h.1⟩⟩

/-- with no repeated call, quantifying over slots and over calls is the same -/
theorem slots_forall_iff {b0 : List Nat} {res : List Slot} (hn : b0.Nodup) (hl : res.length = b0.length)
    (P : Slot → Prop) : (∀ c ∈ b0, P (getSlot b0 res c)) ↔ ∀ s ∈ res, P s := by
  constructor
  · intro h s hs
    obtain ⟨i, hi, rfl⟩ := List.getElem_of_mem hs
    have hi' : i < b0.length := by omega
    have := h b0[i] (List.getElem_mem hi')
    rwa [getSlot_eq_getElem hn hl i hi'] at this
  · intro h c hc
    have hlt := rpcToRes_lt hc
    have hlt' : rpcToRes b0 c < res.length := by omega
    simp only [getSlot, List.getD_eq_getElem?_getD, List.getElem?_eq_getElem hlt', Option.getD_some]
    exact h _ (List.getElem_mem hlt')

end GV.Batch
