import GohbaseVerif.Lemmas.ScannerOrder
/-!
Geometry of the region walk: the region layout (`regions`, `locate`) and how the rows of a
scan range split into "rows of the region the request went to" and "rows beyond that region",
forward and reversed.
-/
namespace GV.Scanner
open GV

/-! ## the layout -/

theorem regionsFrom_start_le (a : Bytes) (bs : List Bytes) (hs : splitsOk a bs = true) :
    ∀ g ∈ regionsFrom a bs, ble a g.start = true := by
  induction bs generalizing a with
  | nil => intro g hg; simp [regionsFrom] at hg; subst hg; exact ble_refl a
  | cons b bs ih =>
    simp only [splitsOk, Bool.and_eq_true] at hs
    intro g hg
    simp only [regionsFrom, List.mem_cons] at hg
    rcases hg with rfl | hg
    · exact ble_refl a
    · exact ble_trans (ble_of_blt hs.1) (ih b hs.2 g hg)

theorem regionsFrom_wf (a : Bytes) (bs : List Bytes) (hs : splitsOk a bs = true) :
    ∀ g ∈ regionsFrom a bs, g.stop = [] ∨ blt g.start g.stop = true := by
  induction bs generalizing a with
  | nil => intro g hg; simp [regionsFrom] at hg; subst hg; exact .inl rfl
  | cons b bs ih =>
    simp only [splitsOk, Bool.and_eq_true] at hs
    intro g hg
    simp only [regionsFrom, List.mem_cons] at hg
    rcases hg with rfl | hg
    · exact .inr hs.1
    · exact ih b hs.2 g hg

/-- Regions are listed in key order and do not overlap. -/
theorem regionsFrom_pairwise (a : Bytes) (bs : List Bytes) (hs : splitsOk a bs = true) :
    (regionsFrom a bs).Pairwise (fun g1 g2 => g1.stop ≠ [] ∧ ble g1.stop g2.start = true) := by
  induction bs generalizing a with
  | nil => simp [regionsFrom]
  | cons b bs ih =>
    simp only [splitsOk, Bool.and_eq_true] at hs
    simp only [regionsFrom, List.pairwise_cons]
    refine ⟨fun g hg => ⟨?_, regionsFrom_start_le b bs hs.2 g hg⟩, ih b hs.2⟩
    intro e
    have e' : b = [] := e
    subst e'
    rw [blt_nil_right] at hs; exact absurd hs.1 (by simp)

theorem find_has (a : Bytes) (bs : List Bytes) (k : Bytes) (hk : ble a k = true) :
    ∃ g, (regionsFrom a bs).find? (·.has k) = some g := by
  induction bs generalizing a with
  | nil => exact ⟨⟨a, []⟩, by simp [regionsFrom, Region.has, hk]⟩
  | cons b bs ih =>
    simp only [regionsFrom, List.find?_cons]
    by_cases h : (Region.has ⟨a, b⟩ k) = true
    · refine ⟨⟨a, b⟩, ?_⟩
      simp [h]
    · simp only [h]
      apply ih
      simp only [Region.has, hk, Bool.true_and, Bool.or_eq_true, beq_iff_eq, not_or, Bool.not_eq_true] at h
      exact ble_iff_not_blt.mpr h.2

theorem locate_total (splits : List Bytes) (k : Bytes) : ∃ g, locate splits k = some g :=
  find_has [] splits k (ble_nil_left k)

theorem locate_has {splits : List Bytes} {k : Bytes} {g : Region} (h : locate splits k = some g) :
    g.has k = true ∧ g ∈ regions splits := by
  unfold locate at h
  exact ⟨by simpa using List.find?_some h, List.mem_of_find?_eq_some h⟩

theorem pairwise_cases {α : Type} {R : α → α → Prop} {l : List α} (h : l.Pairwise R) {x y : α}
    (hx : x ∈ l) (hy : y ∈ l) : x = y ∨ R x y ∨ R y x := by
  induction l with
  | nil => cases hx
  | cons z zs ih =>
    rw [List.pairwise_cons] at h
    rcases List.mem_cons.mp hx with ex | hx <;> rcases List.mem_cons.mp hy with ey | hy
    · exact .inl (ex.trans ey.symm)
    · exact .inr (.inl (ex ▸ h.1 y hy))
    · exact .inr (.inr (ey ▸ h.1 x hx))
    · exact ih h.2 hx hy

/-- A region is determined by any key it contains. -/
theorem region_unique {splits : List Bytes} (hs : splitsOk [] splits = true) {g g' : Region}
    (hg : g ∈ regions splits) (hg' : g' ∈ regions splits) {k : Bytes} (h : g.has k = true)
    (h' : g'.has k = true) : g = g' := by
  rcases pairwise_cases (regionsFrom_pairwise [] splits hs) hg hg' with e | ⟨h1, h2⟩ | ⟨h1, h2⟩
  · exact e
  · exfalso
    simp only [Region.has, Bool.and_eq_true, Bool.or_eq_true, beq_iff_eq] at h h'
    rcases h.2 with e | e
    · exact h1 e
    · have := blt_of_blt_of_ble (blt_of_blt_of_ble e h2) h'.1
      rw [blt_irrefl] at this; cases this
  · exfalso
    simp only [Region.has, Bool.and_eq_true, Bool.or_eq_true, beq_iff_eq] at h h'
    rcases h'.2 with e | e
    · exact h1 e
    · have := blt_of_blt_of_ble (blt_of_blt_of_ble e h2) h.1
      rw [blt_irrefl] at this; cases this

/-- Forward: the region that contains the stop key of `g` starts there. -/
theorem locate_stop {splits : List Bytes} (hs : splitsOk [] splits = true) {g g' : Region}
    (hg : g ∈ regions splits) (hstop : g.stop ≠ []) (h : locate splits g.stop = some g') :
    g'.start = g.stop := by
  obtain ⟨hhas, hg'⟩ := locate_has h
  rcases pairwise_cases (regionsFrom_pairwise [] splits hs) hg hg' with e | ⟨_, h2⟩ | ⟨h1, h2⟩
  · subst e
    simp only [Region.has, Bool.and_eq_true, Bool.or_eq_true, beq_iff_eq] at hhas
    rcases hhas.2 with e | e
    · exact absurd e hstop
    · rw [blt_irrefl] at e; cases e
  · simp only [Region.has, Bool.and_eq_true] at hhas
    rcases ble_cases h2 with e | e
    · have := blt_of_blt_of_ble e hhas.1; rw [blt_irrefl] at this; cases this
    · exact e.symm
  · exfalso
    simp only [Region.has, Bool.and_eq_true, Bool.or_eq_true, beq_iff_eq] at hhas
    rcases regionsFrom_wf [] splits hs g hg with e | e
    · exact hstop e
    · rcases hhas.2 with e2 | e2
      · exact h1 e2
      · have := blt_of_blt_of_ble (blt_trans e2 (blt_of_ble_of_blt h2 e)) (ble_refl _)
        rw [blt_irrefl] at this; cases this

/-- Reversed: a region containing a key below the start of `g` ends at or before that start. -/
theorem region_below {splits : List Bytes} (hs : splitsOk [] splits = true) {g g' : Region}
    (hg : g ∈ regions splits) (hg' : g' ∈ regions splits) {k : Bytes} (hk : blt k g.start = true)
    (h' : g'.has k = true) : g'.stop ≠ [] ∧ ble g'.stop g.start = true := by
  simp only [Region.has, Bool.and_eq_true, Bool.or_eq_true, beq_iff_eq] at h'
  rcases pairwise_cases (regionsFrom_pairwise [] splits hs) hg' hg with e | h1 | ⟨h1, h2⟩
  · subst e
    have := blt_of_blt_of_ble hk h'.1; rw [blt_irrefl] at this; cases this
  · exact h1
  · exfalso
    rcases regionsFrom_wf [] splits hs g hg with e | e
    · exact h1 e
    · have := blt_of_blt_of_ble (blt_trans hk e) (ble_trans h2 h'.1)
      rw [blt_irrefl] at this; cases this

/-! ## splitting a filter of an ordered list at a threshold -/

theorem filter_split {α : Type} (R : α → α → Prop) (l : List α) (hl : l.Pairwise R) (P lo : α → Bool)
    (hmono : ∀ a b, R a b → lo b = true → lo a = true) :
    l.filter (fun x => P x && lo x) ++ l.filter (fun x => P x && !lo x) = l.filter P := by
  induction l with
  | nil => rfl
  | cons x xs ih =>
    rw [List.pairwise_cons] at hl
    by_cases hlo : lo x = true
    · simp only [List.filter_cons, hlo, Bool.and_true, Bool.not_true, Bool.and_false, Bool.false_eq_true,
        if_false]
      rw [← ih hl.2]
      split <;> simp
    · have hall : ∀ y ∈ xs, lo y = false := by
        intro y hy
        cases h : lo y with
        | false => rfl
        | true => exact absurd (hmono x y (hl.1 y hy) h) hlo
      have h1 : xs.filter (fun x => P x && lo x) = [] := by
        rw [List.filter_eq_nil_iff]; intro y hy; simp [hall y hy]
      have h2 : xs.filter (fun x => P x && !lo x) = xs.filter P := by
        apply List.filter_congr; intro y hy; simp [hall y hy]
      simp only [Bool.not_eq_true] at hlo
      simp only [List.filter_cons, hlo, Bool.and_false, Bool.false_eq_true, if_false, h1, Bool.not_false,
        Bool.and_true, h2, List.nil_append]

/-! ## tables -/

theorem sortedKeys_pairwise (t : List Row) (h : sortedKeys t = true) :
    t.Pairwise (fun a b => blt a.key b.key = true) := by
  induction t with
  | nil => simp
  | cons a rest ih =>
    cases rest with
    | nil => simp
    | cons b rest' =>
      simp only [sortedKeys, Bool.and_eq_true] at h
      have ih' := ih h.2
      rw [List.pairwise_cons]
      refine ⟨?_, ih'⟩
      intro c hc
      rcases List.mem_cons.mp hc with e | hc
      · rw [e]; exact h.1
      · exact blt_trans h.1 ((List.pairwise_cons.mp ih').1 c hc)

/-- Order of the rows in scan direction. -/
def scanLt (reversed : Bool) (a b : Row) : Prop :=
  if reversed then blt b.key a.key = true else blt a.key b.key = true

theorem scanOrder_pairwise (rev : Bool) (t : List Row) (h : sortedKeys t = true) :
    (scanOrder rev t).Pairwise (scanLt rev) := by
  have := sortedKeys_pairwise t h
  cases rev with
  | false =>
    simp only [scanOrder, Bool.false_eq_true, if_false]
    exact this.imp (fun h => by simpa [scanLt] using h)
  | true =>
    simp only [scanOrder, if_true]
    rw [List.pairwise_reverse]
    exact this.imp (fun h => by simpa [scanLt] using h)

theorem mem_scanOrder {rev : Bool} {t : List Row} {r : Row} : r ∈ scanOrder rev t ↔ r ∈ t := by
  cases rev <;> simp [scanOrder]

/-! ## forward scans -/

section
variable (table : List Row) (hsort : sortedKeys table = true)
include hsort

/-- The rows of a forward request `[k, stop)` routed to `g ∋ k`: those in `g`, then the rest. -/
theorem fwd_split (g : Region) (k stop : Bytes) (hk : g.has k = true) :
    regionRows table g false k stop ++ beyond table g false k stop =
      table.filter (fun r => inRangeKey false k stop r.key) := by
  have hp := scanOrder_pairwise false table hsort
  simp only [scanOrder, Bool.false_eq_true, if_false] at hp
  rw [← filter_split (scanLt false) table hp (fun r => inRangeKey false k stop r.key)
    (fun r => g.stop == [] || blt r.key g.stop)]
  · simp only [regionRows, beyond, scanOrder, Bool.false_eq_true, if_false]
    congr 1
    · apply List.filter_congr
      intro r _
      simp only [Region.has, Bool.and_eq_true] at hk
      by_cases hin : inRangeKey false k stop r.key = true
      · have : ble g.start r.key = true := by
          simp only [inRangeKey, Bool.false_eq_true, if_false, Bool.and_eq_true] at hin
          exact ble_trans hk.1 hin.1
        simp [Region.has, this, hin]
      · simp [hin]
    · apply List.filter_congr
      intro r _
      by_cases hst : g.stop = []
      · simp [hst]
      · have h1 : (g.stop != []) = true := by simpa using hst
        have h2 : g.stop.isEmpty = false := by simpa using hst
        simp [h1, h2, ble_eq_not_blt g.stop r.key]
  · intro a b hab hb
    simp only [scanLt, Bool.false_eq_true, if_false] at hab
    simp only [Bool.or_eq_true, beq_iff_eq] at hb ⊢
    rcases hb with hb | hb
    · exact .inl hb
    · exact .inr (blt_trans hab hb)

omit hsort in
/-- What lies beyond `g` in a forward scan is the scan continued at `g.stop`. -/
theorem fwd_beyond (g : Region) (k stop : Bytes) (hk : g.has k = true) (hstop : g.stop ≠ []) :
    beyond table g false k stop = table.filter (fun r => inRangeKey false g.stop stop r.key) := by
  simp only [beyond, scanOrder, Bool.false_eq_true, if_false]
  apply List.filter_congr
  intro r _
  simp only [Region.has, Bool.and_eq_true, Bool.or_eq_true, beq_iff_eq] at hk
  have hlt : blt k g.stop = true := by
    rcases hk.2 with e | e
    · exact absurd e hstop
    · exact e
  simp only [inRangeKey, Bool.false_eq_true, if_false]
  by_cases h1 : ble g.stop r.key = true
  · have : ble k r.key = true := ble_of_blt (blt_of_blt_of_ble hlt h1)
    simp [h1, this, hstop]
  · simp [h1]

omit hsort in
theorem fwd_done (g : Region) (k stop : Bytes)
    (hd : g.stop = [] ∨ (stop ≠ [] ∧ ble stop g.stop = true)) :
    beyond table g false k stop = [] := by
  simp only [beyond, scanOrder, Bool.false_eq_true, if_false]
  rw [List.filter_eq_nil_iff]
  intro r _
  rcases hd with hd | ⟨hd1, hd2⟩
  · simp [hd]
  · simp only [inRangeKey, Bool.false_eq_true, if_false, Bool.and_eq_true, Bool.or_eq_true, beq_iff_eq,
      bne_iff_ne, ne_eq, not_and, and_imp]
    intro _ h2 _ h4
    rcases h2 with h2 | h2
    · exact absurd h2 hd1
    · have := blt_of_blt_of_ble (blt_of_blt_of_ble h2 hd2) h4
      rw [blt_irrefl] at this; cases this

/-! ## reversed scans -/

theorem rev_split (g : Region) (k stop : Bytes) (hk : g.has k = true) (hne : k ≠ []) :
    regionRows table g true k stop ++ beyond table g true k stop =
      table.reverse.filter (fun r => inRangeKey true k stop r.key) := by
  have hp := scanOrder_pairwise true table hsort
  simp only [scanOrder, if_true] at hp
  rw [← filter_split (scanLt true) table.reverse hp (fun r => inRangeKey true k stop r.key)
    (fun r => ble g.start r.key)]
  · simp only [regionRows, beyond, scanOrder, if_true]
    congr 1
    · apply List.filter_congr
      intro r _
      simp only [Region.has, Bool.and_eq_true, Bool.or_eq_true, beq_iff_eq] at hk
      by_cases hin : inRangeKey true k stop r.key = true
      · have h1 : ble r.key k = true := by
          simp only [inRangeKey, if_true, Bool.and_eq_true, Bool.or_eq_true, beq_iff_eq] at hin
          rcases hin.1 with e | e
          · exact absurd e hne
          · exact e
        have h2 : (g.stop == [] || blt r.key g.stop) = true := by
          rcases hk.2 with e | e
          · simp [e]
          · simp [blt_of_ble_of_blt h1 e]
        simp only [Region.has, h2, Bool.and_true, hin, Bool.true_and]
      · simp [hin]
    · apply List.filter_congr
      intro r _
      simp [blt_eq_not_ble r.key g.start]
  · intro a b hab hb
    simp only [scanLt, if_true] at hab
    exact ble_trans hb (ble_of_blt hab)

omit hsort in
theorem rev_done (g : Region) (k stop : Bytes)
    (hd : g.start = [] ∨ (stop ≠ [] ∧ ble g.start stop = true)) :
    beyond table g true k stop = [] := by
  simp only [beyond, scanOrder, if_true]
  rw [List.filter_eq_nil_iff]
  intro r _
  rcases hd with hd | ⟨hd1, hd2⟩
  · simp [hd, blt_nil_right]
  · simp only [inRangeKey, if_true, Bool.and_eq_true, Bool.or_eq_true, beq_iff_eq, not_and, and_imp]
    intro _ h2 h3
    rcases h2 with h2 | h2
    · exact absurd h2 hd1
    · have := blt_of_blt_of_ble (blt_trans h2 h3) hd2
      rw [blt_irrefl] at this; cases this

/-- What lies beyond `g` in a reversed scan is exactly what the request built from
    `prevKey g.start` yields — for tables whose keys are non-empty and free of `rowPadding`. -/
theorem rev_next (splits : List Bytes) (hs : splitsOk [] splits = true)
    (hkeys : ∀ r ∈ table, r.key ≠ [] ∧ hasPadding r.key = false)
    (g : Region) (hg : g ∈ regions splits) (k stop : Bytes) (hk : g.has k = true)
    (hstart : g.start ≠ []) (g' : Region) (hloc : locate splits (prevKey g.start) = some g') :
    regionRows table g' true (prevKey g.start) stop ++ beyond table g' true (prevKey g.start) stop =
      beyond table g true k stop := by
  obtain ⟨hhas', hg'⟩ := locate_has hloc
  have hkey : ∀ r ∈ table, blt r.key g.start = ble r.key (prevKey g.start) :=
    fun r hr => blt_iff_ble_prevKey g.start r.key hstart (hkeys r hr).2
  have hkle : ∀ r ∈ table, blt r.key g.start = true → ble r.key k = true := by
    intro r _ h
    simp only [Region.has, Bool.and_eq_true] at hk
    exact ble_of_blt (blt_of_blt_of_ble h hk.1)
  by_cases hpk : prevKey g.start = []
  · -- only the empty key lies below `g.start`, and no row has it
    have hnone : ∀ r ∈ table, blt r.key g.start = false := by
      intro r hr
      rw [hkey r hr, hpk]
      cases h : ble r.key [] with
      | false => rfl
      | true => exact absurd (ble_nil_right h) (hkeys r hr).1
    have hbelow := region_below hs hg hg' (k := prevKey g.start)
      (by rw [hpk]; exact blt_nil_left hstart) hhas'
    have e1 : beyond table g true k stop = [] := by
      simp only [beyond, scanOrder, if_true]
      rw [List.filter_eq_nil_iff]
      intro r hr
      simp [hnone r (List.mem_reverse.mp hr)]
    have e2 : regionRows table g' true (prevKey g.start) stop = [] := by
      simp only [regionRows, scanOrder, if_true]
      rw [List.filter_eq_nil_iff]
      intro r hr
      have hr' := List.mem_reverse.mp hr
      have : blt r.key g'.stop = false := by
        cases h : blt r.key g'.stop with
        | false => rfl
        | true =>
          have := blt_of_blt_of_ble h hbelow.2
          rw [hnone r hr'] at this; cases this
      simp [Region.has, this, hbelow.1]
    have e3 : beyond table g' true (prevKey g.start) stop = [] := by
      apply rev_done table
      left
      simp only [Region.has, Bool.and_eq_true] at hhas'
      rw [hpk] at hhas'
      exact ble_nil_right hhas'.1
    rw [e1, e2, e3]; rfl
  · rw [rev_split table hsort g' (prevKey g.start) stop hhas' hpk]
    simp only [beyond, scanOrder, if_true]
    apply List.filter_congr
    intro r hr
    have hr' := List.mem_reverse.mp hr
    simp only [inRangeKey, if_true]
    rw [hkey r hr']
    by_cases h1 : ble r.key (prevKey g.start) = true
    · have := hkle r hr' (by rw [hkey r hr']; exact h1)
      simp [h1, this]
    · simp [h1, hpk]

end

end GV.Scanner
