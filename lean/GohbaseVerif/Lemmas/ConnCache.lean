import GohbaseVerif.Model.ConnCache
/-! Invariants of the connection cache model (C19, C20). -/
namespace GV.ConnCache

def DialOK (c : Conn) : Prop := c.dials = (if c.onceDone then 1 else 0) ∧ c.dials ≤ c.dialCalls

structure GoodC (s : State) : Prop where
  idsConn : ∀ c ∈ s.conns, c.id < s.nextId
  idsCache : ∀ e ∈ s.cache, e.id < s.nextId
  addrNodup : (s.cache.map (·.addr)).Nodup
  live : ∀ c ∈ s.conns, c.down = false → ∃ e ∈ s.cache, e.id = c.id ∧ e.addr = c.addr
  succ : ∀ c1 ∈ s.conns, ∀ c2 ∈ s.conns, c1.addr = c2.addr → c1.id < c2.id → c1.down = true
  dialOK : ∀ c ∈ s.conns, DialOK c

/-- a per-connection update that keeps identity and never revives a connection -/
structure Pres (g : Conn → Conn) : Prop where
  id : ∀ c, (g c).id = c.id
  addr : ∀ c, (g c).addr = c.addr
  down : ∀ c, (g c).down = c.down
  dial : ∀ c, DialOK c → DialOK (g c)

/-- a per-entry update that keeps identity -/
structure PresE (h : Entry → Entry) : Prop where
  id : ∀ e, (h e).id = e.id
  addr : ∀ e, (h e).addr = e.addr

theorem init_good : GoodC init := by
  constructor <;> simp [init]

theorem good_mapConns {s : State} (hg : GoodC s) {g : Conn → Conn} (hp : Pres g) :
    GoodC { s with conns := s.conns.map g } := by
  constructor
  · intro c hc
    obtain ⟨c0, h0, rfl⟩ := List.mem_map.mp hc
    rw [hp.id]; exact hg.idsConn c0 h0
  · exact hg.idsCache
  · exact hg.addrNodup
  · intro c hc hd
    obtain ⟨c0, h0, rfl⟩ := List.mem_map.mp hc
    rw [hp.down] at hd
    rw [hp.id, hp.addr]; exact hg.live c0 h0 hd
  · intro c1 h1 c2 h2 ha hlt
    obtain ⟨a1, m1, rfl⟩ := List.mem_map.mp h1
    obtain ⟨a2, m2, rfl⟩ := List.mem_map.mp h2
    rw [hp.addr, hp.addr] at ha
    rw [hp.id, hp.id] at hlt
    rw [hp.down]; exact hg.succ a1 m1 a2 m2 ha hlt
  · intro c hc
    obtain ⟨c0, h0, rfl⟩ := List.mem_map.mp hc
    exact hp.dial c0 (hg.dialOK c0 h0)

theorem map_addr_eq {h : Entry → Entry} (hp : PresE h) (l : List Entry) :
    (l.map h).map (·.addr) = l.map (·.addr) := by
  induction l with
  | nil => rfl
  | cons a t ih => simp [hp.addr, ih]

theorem good_mapCache {s : State} (hg : GoodC s) {h : Entry → Entry} (hp : PresE h) :
    GoodC { s with cache := s.cache.map h } := by
  constructor
  · exact hg.idsConn
  · intro e he
    obtain ⟨e0, h0, rfl⟩ := List.mem_map.mp he
    rw [hp.id]; exact hg.idsCache e0 h0
  · show ((s.cache.map h).map (·.addr)).Nodup
    rw [map_addr_eq hp]; exact hg.addrNodup
  · intro c hc hd
    obtain ⟨e, he, h1, h2⟩ := hg.live c hc hd
    exact ⟨h e, List.mem_map.mpr ⟨e, he, rfl⟩, by rw [hp.id, h1], by rw [hp.addr, h2]⟩
  · exact hg.succ
  · exact hg.dialOK

theorem pres_ite (id : Nat) {f : Conn → Conn} (hf : Pres f) :
    Pres (fun c => if c.id == id then f c else c) := by
  constructor <;> intro c <;> by_cases h : (c.id == id) = true <;> simp [h, hf.id, hf.addr, hf.down]
  · exact hf.dial c

theorem dialConn_pres : Pres dialConn := by
  constructor
  · intro c; unfold dialConn; split <;> rfl
  · intro c; unfold dialConn; split <;> rfl
  · intro c; unfold dialConn; split <;> rfl
  · intro c ⟨h1, h2⟩
    unfold dialConn DialOK
    split
    · rename_i ho; simp only [ho, if_true] at h1 ⊢; constructor <;> omega
    · rename_i ho; simp only [ho] at h1 ⊢; simp at h1 ⊢; omega

theorem find_none_addr {l : List Entry} {addr : Nat} (h : l.find? (·.addr == addr) = none) :
    ∀ e ∈ l, e.addr ≠ addr := by
  intro e he ha
  have := List.find?_eq_none.mp h e he
  simp [ha] at this

theorem put_good (flag : Bool) {s : State} (hg : GoodC s) (addr reg : Nat) :
    GoodC (put flag s addr reg).1 := by
  unfold put
  split
  · exact hg
  · split
    · rename_i e _
      exact good_mapCache hg (h := fun x => if x.id == e.id then addReg reg x else x)
        ⟨fun x => by by_cases h : (x.id == e.id) = true <;> simp [h, addReg],
         fun x => by by_cases h : (x.id == e.id) = true <;> simp [h, addReg]⟩
    · rename_i hnone
      have hno := find_none_addr hnone
      constructor
      · intro c hc
        simp only [List.mem_cons] at hc
        rcases hc with rfl | hc
        · simp
        · have := hg.idsConn c hc; simp only; omega
      · intro e he
        simp only [List.mem_cons] at he
        rcases he with rfl | he
        · simp
        · have := hg.idsCache e he; simp only; omega
      · simp only [List.map_cons, List.nodup_cons]
        refine ⟨?_, hg.addrNodup⟩
        intro hm
        obtain ⟨e, he, ha⟩ := List.mem_map.mp hm
        exact hno e he ha
      · intro c hc hd
        simp only [List.mem_cons] at hc
        rcases hc with rfl | hc
        · exact ⟨_, List.mem_cons_self, rfl, rfl⟩
        · obtain ⟨e, he, h1, h2⟩ := hg.live c hc hd
          exact ⟨e, List.mem_cons_of_mem _ he, h1, h2⟩
      · intro c1 h1 c2 h2 ha hlt
        simp only [List.mem_cons] at h1 h2
        rcases h1 with rfl | h1
        · rcases h2 with rfl | h2
          · simp at hlt
          · have := hg.idsConn c2 h2; simp only at hlt; omega
        · rcases h2 with rfl | h2
          · simp only at ha
            cases hd : c1.down with
            | true => rfl
            | false =>
              obtain ⟨e, he, _, h2⟩ := hg.live c1 h1 hd
              exact absurd (h2.trans ha) (hno e he)
          · exact hg.succ c1 h1 c2 h2 ha hlt
      · intro c hc
        simp only [List.mem_cons] at hc
        rcases hc with rfl | hc
        · simp [DialOK]
        · exact hg.dialOK c hc

theorem good_step (flag : Bool) {s s' : State} {a : Action} (hg : GoodC s)
    (h : step flag s a = some s') : GoodC s' := by
  cases a with
  | spawnReestablish => simp only [step] at h; injection h with h; subst h; exact { hg with }
  | spawnEstablish => simp only [step] at h; injection h with h; subst h; exact { hg with }
  | estCheck =>
    simp only [step] at h
    split at h
    · cases h
    · split at h <;> (injection h with h; subst h; exact { hg with })
  | estPut addr reg =>
    simp only [step] at h
    split at h
    · cases h
    · injection h with h; subst h; exact put_good flag hg addr reg
  | estExit =>
    simp only [step] at h
    split at h
    · cases h
    · injection h with h; subst h; exact { hg with }
  | del id reg =>
    simp only [step] at h; injection h with h; subst h
    exact good_mapCache hg (h := fun x => if x.id == id then { x with regs := x.regs.erase reg } else x)
      ⟨fun x => by by_cases h : (x.id == id) = true <;> simp [h],
       fun x => by by_cases h : (x.id == id) = true <;> simp [h]⟩
  | clientDown id =>
    simp only [step] at h; injection h with h; subst h
    constructor
    · intro c hc
      obtain ⟨c0, h0, rfl⟩ := List.mem_map.mp hc
      have := hg.idsConn c0 h0
      by_cases hi : (c0.id == id) = true <;> simp [hi] <;> exact this
    · intro e he
      exact hg.idsCache e (List.mem_filter.mp he).1
    · exact (List.filter_sublist.map _).nodup hg.addrNodup
    · intro c hc hd
      obtain ⟨c0, h0, rfl⟩ := List.mem_map.mp hc
      by_cases hi : (c0.id == id) = true
      · simp [hi] at hd
      · simp only [hi] at hd ⊢
        obtain ⟨e, he, h1, h2⟩ := hg.live c0 h0 (by simpa using hd)
        refine ⟨e, List.mem_filter.mpr ⟨he, ?_⟩, by simpa using h1, by simpa using h2⟩
        simp only [bne_iff_ne, ne_eq]
        intro h'; rw [h1] at h'; simp [h'] at hi
    · intro c1 h1 c2 h2 ha hlt
      obtain ⟨a1, m1, rfl⟩ := List.mem_map.mp h1
      obtain ⟨a2, m2, rfl⟩ := List.mem_map.mp h2
      have e1 : ∀ c : Conn, (if (c.id == id) = true then { c with down := true } else c).id = c.id := by
        intro c; split <;> rfl
      have e2 : ∀ c : Conn, (if (c.id == id) = true then { c with down := true } else c).addr = c.addr := by
        intro c; split <;> rfl
      rw [e2, e2] at ha
      rw [e1, e1] at hlt
      have := hg.succ a1 m1 a2 m2 ha hlt
      split
      · rfl
      · exact this
    · intro c hc
      obtain ⟨c0, h0, rfl⟩ := List.mem_map.mp hc
      have := hg.dialOK c0 h0
      split
      · exact this
      · exact this
  | dial id =>
    simp only [step] at h; injection h with h; subst h
    exact good_mapConns hg (pres_ite id dialConn_pres)
  | closeBegin =>
    simp only [step] at h
    split at h <;> (injection h with h; subst h)
    · exact hg
    · exact { hg with }
  | closeAllRun =>
    simp only [step] at h
    split at h
    · injection h with h; subst h
      have hp : Pres (fun c : Conn => if s.cache.any (·.id == c.id) then { c with closed := true } else c) := by
        constructor <;> intro c <;> split <;> first | rfl | exact fun x => x
      have := good_mapConns hg hp
      exact { this with }
    · cases h

theorem good_run (flag : Bool) {s s' : State} {as : List Action} (hg : GoodC s)
    (h : run flag s as = some s') : GoodC s' := by
  induction as generalizing s with
  | nil => simp only [run] at h; injection h with h; subst h; exact hg
  | cons a rest ih =>
    simp only [run] at h
    split at h
    · rename_i s1 hs; exact ih (good_step flag hg hs) h
    · cases h

theorem good_of_reachable {flag : Bool} {s : State} (h : Reachable flag s) : GoodC s := by
  obtain ⟨as, h⟩ := h
  exact good_run flag init_good h

theorem eq_of_nodup_addr {l : List Entry} (h : (l.map (·.addr)).Nodup) :
    ∀ e1 ∈ l, ∀ e2 ∈ l, e1.addr = e2.addr → e1 = e2 := by
  induction l with
  | nil => intro e1 h1; cases h1
  | cons a t ih =>
    simp only [List.map_cons, List.nodup_cons] at h
    intro e1 h1 e2 h2 ha
    simp only [List.mem_cons] at h1 h2
    rcases h1 with rfl | h1 <;> rcases h2 with rfl | h2
    · rfl
    · exact absurd (List.mem_map.mpr ⟨e2, h2, ha.symm⟩) h.1
    · exact absurd (List.mem_map.mpr ⟨e1, h1, ha⟩) h.1
    · exact ih h.2 e1 h1 e2 h2 ha

/-! ### the variant with the `closed` flag in the cache -/

structure GoodF (s : State) : Prop where
  noneAfter : ∀ c ∈ s.conns, c.afterClose = false
  allClosed : s.closeAllDone = true → ∀ c ∈ s.conns, s.cache.any (·.id == c.id) = true → c.closed = true

theorem any_id_map {h : Entry → Entry} (hp : PresE h) (l : List Entry) (i : Nat) :
    (l.map h).any (·.id == i) = l.any (·.id == i) := by
  induction l with
  | nil => rfl
  | cons a t ih => simp [hp.id, ih]

theorem goodF_mapCache {s : State} (hg : GoodF s) {h : Entry → Entry} (hp : PresE h) :
    GoodF { s with cache := s.cache.map h } := by
  constructor
  · exact hg.noneAfter
  · intro hd c hc ha
    simp only at ha
    rw [any_id_map hp] at ha
    exact hg.allClosed hd c hc ha

theorem goodF_mapConns {s : State} (hg : GoodF s) {g : Conn → Conn}
    (h1 : ∀ c, (g c).id = c.id) (h2 : ∀ c, (g c).afterClose = c.afterClose)
    (h3 : ∀ c, c.closed = true → (g c).closed = true) :
    GoodF { s with conns := s.conns.map g } := by
  constructor
  · intro c hc
    obtain ⟨c0, h0, rfl⟩ := List.mem_map.mp hc
    rw [h2]; exact hg.noneAfter c0 h0
  · intro hd c hc ha
    obtain ⟨c0, h0, rfl⟩ := List.mem_map.mp hc
    simp only [h1] at ha
    exact h3 c0 (hg.allClosed hd c0 h0 ha)

theorem goodF_step {s s' : State} {a : Action} (hg : GoodF s)
    (h : step true s a = some s') : GoodF s' := by
  cases a with
  | spawnReestablish => simp only [step] at h; injection h with h; subst h; exact ⟨hg.noneAfter, hg.allClosed⟩
  | spawnEstablish => simp only [step] at h; injection h with h; subst h; exact ⟨hg.noneAfter, hg.allClosed⟩
  | estCheck =>
    simp only [step] at h
    split at h
    · cases h
    · split at h <;> (injection h with h; subst h; exact ⟨hg.noneAfter, hg.allClosed⟩)
  | estPut addr reg =>
    simp only [step] at h
    split at h
    · cases h
    · injection h with h; subst h
      unfold put
      split
      · exact hg
      · rename_i hfl
        have hnd : s.closeAllDone = false := by simpa using hfl
        split
        · rename_i e _
          exact goodF_mapCache hg (h := fun x => if x.id == e.id then addReg reg x else x)
            ⟨fun x => by by_cases h : (x.id == e.id) = true <;> simp [h, addReg],
             fun x => by by_cases h : (x.id == e.id) = true <;> simp [h, addReg]⟩
        · constructor
          · intro c hc
            simp only [List.mem_cons] at hc
            rcases hc with rfl | hc
            · exact hnd
            · exact hg.noneAfter c hc
          · intro hd; simp only at hd; rw [hnd] at hd; cases hd
  | estExit =>
    simp only [step] at h
    split at h
    · cases h
    · injection h with h; subst h; exact ⟨hg.noneAfter, hg.allClosed⟩
  | del id reg =>
    simp only [step] at h; injection h with h; subst h
    exact goodF_mapCache hg (h := fun x => if x.id == id then { x with regs := x.regs.erase reg } else x)
      ⟨fun x => by by_cases h : (x.id == id) = true <;> simp [h],
       fun x => by by_cases h : (x.id == id) = true <;> simp [h]⟩
  | clientDown id =>
    simp only [step] at h; injection h with h; subst h
    constructor
    · intro c hc
      obtain ⟨c0, h0, rfl⟩ := List.mem_map.mp hc
      have := hg.noneAfter c0 h0
      split <;> exact this
    · intro hd c hc ha
      obtain ⟨c0, h0, rfl⟩ := List.mem_map.mp hc
      have hid : (if (c0.id == id) = true then { c0 with down := true } else c0).id = c0.id := by
        split <;> rfl
      simp only [hid] at ha
      have hany : s.cache.any (·.id == c0.id) = true := by
        rw [List.any_eq_true] at ha ⊢
        obtain ⟨e, he, h1⟩ := ha
        exact ⟨e, (List.mem_filter.mp he).1, h1⟩
      have := hg.allClosed hd c0 h0 hany
      split <;> exact this
  | dial id =>
    simp only [step] at h; injection h with h; subst h
    have e1 : ∀ c, (dialConn c).id = c.id := by intro c; unfold dialConn; split <;> rfl
    have e2 : ∀ c, (dialConn c).afterClose = c.afterClose := by intro c; unfold dialConn; split <;> rfl
    have e3 : ∀ c, (dialConn c).closed = c.closed := by intro c; unfold dialConn; split <;> rfl
    refine goodF_mapConns hg ?_ ?_ ?_ <;> intro c <;> by_cases hi : (c.id == id) = true
    · simp only [hi, if_true, e1]
    · simp only [hi]; rfl
    · simp only [hi, if_true, e2]
    · simp only [hi]; rfl
    · simp only [hi, if_true, e3]; exact fun x => x
    · simp only [hi]; exact fun x => x
  | closeBegin =>
    simp only [step] at h
    split at h <;> (injection h with h; subst h)
    · exact hg
    · exact ⟨hg.noneAfter, hg.allClosed⟩
  | closeAllRun =>
    simp only [step] at h
    split at h
    · injection h with h; subst h
      constructor
      · intro c hc
        obtain ⟨c0, h0, rfl⟩ := List.mem_map.mp hc
        have := hg.noneAfter c0 h0
        split <;> exact this
      · intro _ c hc ha
        obtain ⟨c0, h0, rfl⟩ := List.mem_map.mp hc
        have hid : (if s.cache.any (·.id == c0.id) = true then { c0 with closed := true } else c0).id = c0.id := by
          split <;> rfl
        simp only [hid] at ha
        simp [ha]
    · cases h

theorem goodF_of_reachable {s : State} (h : Reachable true s) : GoodF s := by
  obtain ⟨as, h⟩ := h
  have hinit : GoodF init := ⟨by simp [init], by simp [init]⟩
  generalize init = s0 at h hinit
  induction as generalizing s0 with
  | nil => simp only [run] at h; injection h with h; subst h; exact hinit
  | cons a rest ih =>
    simp only [run] at h
    split at h
    · rename_i s1 hs; exact ih s1 h (goodF_step hinit hs)
    · cases h

/-! ### the master connection -/

structure GoodA (s : AState) : Prop where
  doneFirst : s.closeAdminDone = true → s.done = true
  covered : s.closeAdminDone = true → ∀ k, s.adminClient = some k → k ∈ s.closedConns ∨ k ∈ s.pendingCheck

theorem goodA_step {s s' : AState} {a : AAction} (hg : GoodA s) (h : astep true s a = some s') :
    GoodA s' := by
  cases a with
  | closeDone =>
    simp only [astep] at h; injection h with h; subst h
    exact ⟨fun _ => rfl, hg.covered⟩
  | closeAdmin =>
    simp only [astep] at h
    split at h
    · rename_i hc
      injection h with h; subst h
      refine ⟨fun _ => hc.1, ?_⟩
      intro _ k hk
      simp only at hk
      left
      simp [hk]
    · cases h
  | publish =>
    simp only [astep] at h; injection h with h; subst h
    refine ⟨hg.doneFirst, ?_⟩
    intro _ k hk
    simp only [Option.some.injEq] at hk
    right; simp [hk]
  | checkDone k =>
    simp only [astep] at h
    split at h
    · injection h with h; subst h
      refine ⟨hg.doneFirst, ?_⟩
      intro hc k' hk'
      have hd := hg.doneFirst hc
      simp only [hd, if_true]
      by_cases hkk : k' = k
      · left; simp [hkk]
      · rcases hg.covered hc k' hk' with h1 | h1
        · left; exact List.mem_cons_of_mem _ h1
        · right; exact (List.mem_erase_of_ne hkk).mpr h1
    · cases h

theorem goodA_of_reachable {s : AState} (h : AReachable true s) : GoodA s := by
  obtain ⟨as, h⟩ := h
  have hinit : GoodA {} := ⟨by simp, by simp⟩
  generalize ({} : AState) = s0 at h hinit
  induction as generalizing s0 with
  | nil => simp only [arun] at h; injection h with h; subst h; exact hinit
  | cons a rest ih =>
    simp only [arun] at h
    split at h
    · rename_i s1 hs; exact ih s1 h (goodA_step hinit hs)
    · cases h

end GV.ConnCache
