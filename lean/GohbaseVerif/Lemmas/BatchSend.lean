import GohbaseVerif.Lemmas.BatchEvents
/-!
`sendBatch` = validation + retry loop: the facts of `BatchLoop`/`BatchEvents` instantiated at the
initial state.
-/
namespace GV.Batch

/-- state at the first pass through the retry loop -/
def st0 (info : Info) (batch : List Nat) : St :=
  ⟨(validate info (info.table (batch.headD 0)) [] batch).1, true, false, Gen.Backoff.backoffStart, 0, []⟩

theorem sendBatch_valid {info : Info} {batch : List Nat} (hne : batch ≠ []) (hv : ValidBatch info batch)
    (rounds : List Round) : sendBatch info batch rounds = loop batch rounds 0 batch (st0 info batch) := by
  cases batch with
  | nil => exact absurd rfl hne
  | cons c0 rest =>
    have := (validate_true_iff info c0 rest).mpr hv
    simp [sendBatch, this, st0]

theorem sendBatch_invalid {info : Info} {batch : List Nat} (hne : batch ≠ []) (hv : ¬ ValidBatch info batch)
    (rounds : List Round) :
    sendBatch info batch rounds =
      .ok ⟨(validate info (info.table (batch.headD 0)) [] batch).1, false, [], false⟩ := by
  cases batch with
  | nil => exact absurd rfl hne
  | cons c0 rest =>
    have : (validate info (info.table c0) [] (c0 :: rest)).2 = false := by
      cases h : (validate info (info.table c0) [] (c0 :: rest)).2
      · rfl
      · exact absurd ((validate_true_iff info c0 rest).mp h) hv
    simp [sendBatch, this]

theorem st0_length (info : Info) (batch : List Nat) : (st0 info batch).res.length = batch.length :=
  (validate_spec info _ [] batch).1

theorem st0_slots {info : Info} {batch : List Nat} (hne : batch ≠ []) (hv : ValidBatch info batch) :
    ∀ s ∈ (st0 info batch).res, s = ⟨none, some .notExecuted⟩ := by
  have key : ∀ (t0 : Nat) (pre rest : List Nat), (validate info t0 pre rest).2 = true →
      ∀ s ∈ (validate info t0 pre rest).1, s = ⟨none, some .notExecuted⟩ := by
    intro t0 pre rest
    induction rest generalizing pre with
    | nil => simp [validate]
    | cons c rest ih =>
      simp only [validate]
      split
      · simp
      · split
        · simp
        · split
          · simp
          · intro h s hs
            rcases List.mem_cons.mp hs with rfl | hs
            · rfl
            · exact ih _ h s hs
  cases batch with
  | nil => exact absurd rfl hne
  | cons c0 rest =>
    exact key _ _ _ ((validate_true_iff info c0 rest).mpr hv)

theorem sendBatch_length {info : Info} {batch : List Nat} {rounds : List Round} {R : Result}
    (h : sendBatch info batch rounds = .ok R) : R.res.length = batch.length := by
  by_cases hne : batch = []
  · subst hne
    simp only [sendBatch, Outcome.ok.injEq] at h
    subst h; rfl
  · by_cases hv : ValidBatch info batch
    · rw [sendBatch_valid hne hv] at h
      rw [loop_length h]; exact st0_length info batch
    · rw [sendBatch_invalid hne hv, Outcome.ok.injEq] at h
      subst h
      exact (validate_spec info _ [] batch).1


theorem st0_getSlot {info : Info} {batch : List Nat} (hne : batch ≠ []) (hv : ValidBatch info batch) :
    ∀ c ∈ batch, getSlot batch (st0 info batch).res c = ⟨none, some .notExecuted⟩ :=
  (slots_forall_iff hv.1 (st0_length info batch) (fun s => s = ⟨none, some .notExecuted⟩)).mpr
    (st0_slots hne hv)

/-- A per-call invariant that holds of `NotExecutedError` and is kept by what each round may write
holds of every returned slot, position by position. -/
theorem sendBatch_inv {P : Nat → Slot → Prop} {info : Info} {batch : List Nat} {rounds : List Round}
    {R : Result} (hv : ValidBatch info batch) (h : sendBatch info batch rounds = .ok R)
    (h0 : ∀ c, P c ⟨none, some .notExecuted⟩) (hr : ∀ rd ∈ rounds, RoundInv P rd)
    (i : Nat) (hi : i < batch.length) :
    P batch[i] (R.res[i]'(by rw [sendBatch_length h]; exact hi)) := by
  have hne : batch ≠ [] := by intro h0; subst h0; cases hi
  have hlen := sendBatch_length h
  rw [sendBatch_valid hne hv] at h
  have hinit : SlotsInv P batch (st0 info batch).res :=
    ⟨st0_length info batch, fun c hc => by rw [st0_getSlot hne hv c hc]; exact h0 c⟩
  have := (loop_inv h (fun c hc => hc) hr hinit).2 batch[i] (List.getElem_mem hi)
  rwa [getSlot_eq_getElem hv.1 hlen i hi] at this


theorem st0_h3 (info : Info) (batch : List Nat) :
    (st0 info batch).unretry = true ↔
      ∃ c ∈ batch, c ∉ batch ∧ (getSlot batch (st0 info batch).res c).err ≠ none :=
  ⟨fun h => Bool.noConfusion h, fun ⟨_, hc, hn, _⟩ => absurd hc hn⟩


/-- what the validation pass writes for call `c` when the calls `pre` come before it -/
def entrySlot (info : Info) (t0 : Nat) (pre : List Nat) (c : Nat) : Slot :=
  if c ∈ pre then ⟨none, some (.dup (firstIdx c pre))⟩
  else if info.table c ≠ t0 then ⟨none, some .tables⟩
  else if !info.batchable c then ⟨none, some .nonBatchable⟩
  else ⟨none, some .notExecuted⟩

theorem validate_fst_cons (info : Info) (t0 : Nat) (pre : List Nat) (c : Nat) (rest : List Nat) :
    (validate info t0 pre (c :: rest)).1 = entrySlot info t0 pre c :: (validate info t0 (pre ++ [c]) rest).1 := by
  simp only [validate, entrySlot]
  split
  · rfl
  · split
    · rfl
    · split <;> rfl

theorem validate_getElem (info : Info) (t0 : Nat) (pre rest : List Nat) (i : Nat) (hi : i < rest.length) :
    (validate info t0 pre rest).1[i]'(by rw [(validate_spec info t0 pre rest).1]; exact hi)
      = entrySlot info t0 (pre ++ rest.take i) rest[i] := by
  induction rest generalizing pre i with
  | nil => cases hi
  | cons c rest ih =>
    simp only [validate_fst_cons]
    cases i with
    | zero => simp
    | succ j =>
      have hj : j < rest.length := by simpa using hi
      simp only [List.getElem_cons_succ, List.take_succ_cons]
      rw [ih (pre ++ [c]) j hj]
      simp [List.append_assoc]

/-! ### what is sent, at the level of `sendBatch` -/

/-- nothing is sent for an empty or a rejected batch -/
theorem sendBatch_unsent {info : Info} {batch : List Nat} {rounds : List Round} {R : Result}
    (h : sendBatch info batch rounds = .ok R) (hbad : batch = [] ∨ ¬ ValidBatch info batch) :
    R.events = [] := by
  by_cases hne : batch = []
  · subst hne
    simp only [sendBatch, Outcome.ok.injEq] at h
    subst h; rfl
  · rcases hbad with h0 | hv
    · exact absurd h0 hne
    · rw [sendBatch_invalid hne hv, Outcome.ok.injEq] at h
      subst h; rfl

/-- a call handed to a region client in round `r` is one region location found a client for in
round `r` (a call whose location failed — for whatever reason — is not queued) -/
theorem sent_located {info : Info} {batch : List Nat} {rounds : List Round} {R : Result}
    (h : sendBatch info batch rounds = .ok R) {r c : Nat} {rd : Round}
    (hs : Sent R.events r c) (hrd : rounds[r]? = some rd) : locOk rd c = true := by
  by_cases hbad : batch = [] ∨ ¬ ValidBatch info batch
  · rw [sendBatch_unsent h hbad] at hs; exact absurd hs sent_nil
  · have hne : batch ≠ [] := fun h0 => hbad (Or.inl h0)
    have hv : ValidBatch info batch := Classical.byContradiction fun hv => hbad (Or.inr hv)
    rw [sendBatch_valid hne hv] at h
    obtain ⟨new, hev, _, _, _, _, _, h6, _⟩ := loop_events h (fun c hc => hc) (st0_length info batch)
    have hev' : R.events = new := by simpa [st0] using hev
    rw [hev'] at hs
    exact h6 c r rd hs (by simpa using hrd)

/-- a call sent in round `r + 1` was sent in round `r` -/
theorem sent_pred {info : Info} {batch : List Nat} {rounds : List Round} {R : Result}
    (h : sendBatch info batch rounds = .ok R) {r c : Nat} (hs : Sent R.events (r + 1) c) :
    Sent R.events r c := by
  by_cases hbad : batch = [] ∨ ¬ ValidBatch info batch
  · rw [sendBatch_unsent h hbad] at hs; exact absurd hs sent_nil
  · have hne : batch ≠ [] := fun h0 => hbad (Or.inl h0)
    have hv : ValidBatch info batch := Classical.byContradiction fun hv => hbad (Or.inr hv)
    rw [sendBatch_valid hne hv] at h
    obtain ⟨new, hev, _, _, h3, _⟩ := loop_events h (fun c hc => hc) (st0_length info batch)
    have hev' : R.events = new := by simpa [st0] using hev
    rw [hev'] at hs ⊢
    exact (h3 c r (Nat.zero_le _) hs).1

end GV.Batch
