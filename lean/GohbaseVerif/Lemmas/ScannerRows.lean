import GohbaseVerif.Model.Scanner
/-!
`chunk` (how a conforming server may cut rows into fragments) against `assembleAll` (how `Next`
glues fragments together): whatever the cut, the rows come back whole (`assemble_chunk`).
-/
namespace GV.Scanner
open GV

/-- A row as the server holds it: non-empty, all cells carry the row key `k`. -/
def RowOk (k : Bytes) (r : List Cell) : Prop := r ≠ [] ∧ ∀ c ∈ r, c.row = k

/-- Rows with pairwise different keys next to each other. -/
def RowsOk : List (List Cell) → Prop
  | [] => True
  | r :: T => (∃ k, RowOk k r ∧ ∀ r' ∈ T.head?, ¬ RowOk k r') ∧ RowsOk T

theorem firstRow_of_rowOk {k : Bytes} {r : List Cell} (h : RowOk k r) : firstRow r = some k := by
  obtain ⟨hne, hk⟩ := h
  cases r with
  | nil => exact absurd rfl hne
  | cons c cs => simp [firstRow, hk c (by simp)]

theorem rowOk_prefix {k : Bytes} {r p : List Cell} (h : RowOk k r) (hp : p ≠ []) (hpre : p <+: r) :
    RowOk k p :=
  ⟨hp, fun c hc => h.2 c (hpre.subset hc)⟩

theorem take_eq_append_drop {α : Type} {l p : List α} (h : l.take p.length = p) :
    p ++ l.drop p.length = l := by
  have := List.take_append_drop p.length l
  rw [h] at this; exact this

theorem chunk_nil_frags (T : List (List Cell)) : chunk T [] = some T := by
  cases T <;> rfl

/-- Concatenating the fragments gives back the cells, in order. -/
theorem chunk_concat (T : List (List Cell)) (fs : List Frag) (T' : List (List Cell))
    (h : chunk T fs = some T') : fs.flatMap (·.cells) ++ T'.flatten = T.flatten := by
  induction fs generalizing T with
  | nil => rw [chunk_nil_frags] at h; injection h with h; subst h; simp
  | cons f fs ih =>
    cases T with
    | nil => simp [chunk] at h
    | cons row T =>
      simp only [chunk] at h
      split at h
      · cases h
      · split at h
        · split at h
          · rename_i hc
            have := ih _ h
            simp only [List.flatMap_cons, List.flatten_cons, List.append_assoc] at this ⊢
            rw [this, ← List.append_assoc, take_eq_append_drop hc.2]
          · cases h
        · split at h
          · rename_i hc
            have := ih _ h
            simp only [List.flatMap_cons, List.flatten_cons, List.append_assoc]
            rw [this, hc]
          · cases h

theorem isNewRow_same {k : Bytes} {a p : List Cell} (ha : RowOk k a) (hp : RowOk k p) (b1 b2 : Bool) :
    isNewRow ⟨a, b1⟩ ⟨p, b2⟩ = false := by
  simp [isNewRow, firstRow_of_rowOk ha, firstRow_of_rowOk hp]

theorem isNewRow_diff {k k' : Bytes} {a p : List Cell} (ha : RowOk k a) (hp : RowOk k' p) (hne : k ≠ k')
    (b1 b2 : Bool) : isNewRow ⟨a, b1⟩ ⟨p, b2⟩ = true := by
  simp [isNewRow, firstRow_of_rowOk ha, firstRow_of_rowOk hp, hne]

theorem rowOk_key_unique {k k' : Bytes} {r : List Cell} (h : RowOk k r) (h' : RowOk k' r) : k = k' := by
  have := firstRow_of_rowOk h
  rw [firstRow_of_rowOk h'] at this
  injection this with this
  exact this.symm

def whole (r : List Cell) : Frag := ⟨r, false⟩

/-- Both halves of the induction: from a fresh `Next` (`none`) and in the middle of a row. -/
theorem assemble_chunk_aux (fs : List Frag) :
    (∀ T, RowsOk T → chunk T fs = some [] → assembleAll none fs = T.map whole) ∧
    (∀ k pre rest T, RowOk k pre → (∀ c ∈ rest, c.row = k) → (∀ r' ∈ T.head?, ¬ RowOk k r') → RowsOk T →
      (if rest = [] then chunk T fs else chunk (rest :: T) fs) = some [] →
      assembleAll (some ⟨pre, true⟩) fs = ⟨pre ++ rest, false⟩ :: T.map whole) := by
  induction fs with
  | nil =>
    constructor
    · intro T _ h
      rw [chunk_nil_frags] at h; injection h with h; subst h; rfl
    · intro k pre rest T _ _ _ _ h
      by_cases hr : rest = []
      · simp only [hr, if_true, chunk_nil_frags] at h
        injection h with h; subst h hr
        simp [assembleAll]
      · simp only [hr, if_false, chunk_nil_frags] at h
        injection h with h; cases h
  | cons f fs ih =>
    obtain ⟨ihN, ihG⟩ := ih
    have hN : ∀ T, RowsOk T → chunk T (f :: fs) = some [] → assembleAll none (f :: fs) = T.map whole := by
      intro T hT h
      cases T with
      | nil => simp [chunk] at h
      | cons row T =>
        obtain ⟨⟨k, hrow, hnext⟩, hT'⟩ := hT
        simp only [chunk] at h
        by_cases hfe : f.cells = []
        · simp [hfe] at h
        · simp only [hfe, if_false] at h
          simp only [assembleAll, coalesce, if_true]
          by_cases hp : f.part = true
          · simp only [hp, if_true] at h ⊢
            by_cases hc : f.cells.length < row.length ∧ List.take f.cells.length row = f.cells
            · simp only [hc, and_self, if_true] at h
              have hpre : RowOk k f.cells := rowOk_prefix hrow hfe (hc.2 ▸ List.take_prefix _ _)
              have hrest : ∀ c ∈ row.drop f.cells.length, c.row = k :=
                fun c hc' => hrow.2 c (List.drop_subset _ _ hc')
              have hrne : row.drop f.cells.length ≠ [] := by
                intro e
                have := congrArg List.length e
                simp at this; omega
              have := ihG k f.cells (row.drop f.cells.length) T hpre hrest hnext hT' (by simp [hrne, h])
              have hf : f = ⟨f.cells, true⟩ := by cases f; simp_all
              rw [hf] at this ⊢
              simp only at this ⊢
              rw [this]
              simp only [List.map_cons, whole]
              congr 2
              exact take_eq_append_drop hc.2
            · simp [hc] at h
          · simp only [hp, Bool.false_eq_true, if_false] at h ⊢
            by_cases hc : f.cells = row
            · simp only [hc, if_true] at h
              rw [ihN T hT' h]
              have hf : f = ⟨row, false⟩ := by cases f; simp_all
              simp [hf, whole]
            · simp [hc] at h
    refine ⟨hN, ?_⟩
    intro k pre rest T hpre hrest hnext hT h
    by_cases hr : rest = []
    · -- the row is complete; the next fragment starts a new row
      subst hr
      simp only [if_true] at h
      cases T with
      | nil => simp [chunk] at h
      | cons row T' =>
        obtain ⟨⟨k', hrow, _⟩, _⟩ := hT
        have hne : k ≠ k' := by
          intro e; subst e
          exact hnext row (by simp) hrow
        have hfe : f.cells ≠ [] := by
          intro e; simp [chunk, e] at h
        have hfk : RowOk k' f.cells := by
          simp only [chunk, hfe, if_false] at h
          by_cases hp : f.part = true
          · simp only [hp, if_true] at h
            by_cases hc : f.cells.length < row.length ∧ List.take f.cells.length row = f.cells
            · exact rowOk_prefix hrow hfe (hc.2 ▸ List.take_prefix _ _)
            · simp [hc] at h
          · simp only [hp, Bool.false_eq_true, if_false] at h
            by_cases hc : f.cells = row
            · rw [hc]; exact hrow
            · simp [hc] at h
        have hnew : isNewRow ⟨pre, true⟩ f = true := by
          have := isNewRow_diff hpre hfk hne true f.part
          cases f; simpa using this
        have hNn := hN _ (by exact ⟨⟨k', hrow, by assumption⟩, by assumption⟩) h
        simp only [assembleAll, coalesce, Bool.not_true, Bool.false_eq_true, if_false, hnew, if_true,
          List.append_nil]
        simp only [assembleAll, coalesce, if_true] at hNn
        exact congrArg _ hNn
    · simp only [hr, if_false] at h
      have hfe : f.cells ≠ [] := by
        intro e; simp [chunk, e] at h
      simp only [chunk, hfe, if_false] at h
      have hrestOk : RowOk k rest := ⟨hr, hrest⟩
      by_cases hp : f.part = true
      · simp only [hp, if_true] at h
        by_cases hc : f.cells.length < rest.length ∧ List.take f.cells.length rest = f.cells
        · simp only [hc, and_self, if_true] at h
          have hfk : RowOk k f.cells := rowOk_prefix hrestOk hfe (hc.2 ▸ List.take_prefix _ _)
          have hsame : isNewRow ⟨pre, true⟩ f = false := by
            have := isNewRow_same hpre hfk true f.part
            cases f; simpa using this
          have hpre' : RowOk k (pre ++ f.cells) :=
            ⟨by simp [hpre.1], fun c hc' => by
              rcases List.mem_append.mp hc' with h1 | h1
              · exact hpre.2 c h1
              · exact hfk.2 c h1⟩
          have hrne : rest.drop f.cells.length ≠ [] := by
            intro e
            have := congrArg List.length e
            simp at this; omega
          have := ihG k (pre ++ f.cells) (rest.drop f.cells.length) T hpre'
            (fun c hc' => hrest c (List.drop_subset _ _ hc')) hnext hT (by simp [hrne, h])
          simp only [assembleAll, coalesce, Bool.not_true, Bool.false_eq_true, if_false, hsame, if_true]
          rw [this]
          congr 2
          rw [List.append_assoc]
          congr 1
          exact take_eq_append_drop hc.2
        · simp [hc] at h
      · simp only [hp, Bool.false_eq_true, if_false] at h
        by_cases hc : f.cells = rest
        · simp only [hc, if_true] at h
          have hsame : isNewRow ⟨pre, true⟩ f = false := by
            have := isNewRow_same hpre (hc ▸ hrestOk) true f.part
            cases f; simpa using this
          have hpre' : RowOk k (pre ++ f.cells) :=
            ⟨by simp [hpre.1], fun c hc' => by
              rcases List.mem_append.mp hc' with h1 | h1
              · exact hpre.2 c h1
              · exact hrest c (hc ▸ h1)⟩
          have := ihG k (pre ++ f.cells) [] T hpre' (by simp) hnext hT (by simp [h])
          simp only [assembleAll, coalesce, Bool.not_true, Bool.false_eq_true, if_false, hsame, if_true]
          rw [this, hc]
          simp
        · simp [hc] at h

/-- `coalesce_row`: whatever way a conforming server cuts the rows `T` into fragments, `Next`
    returns exactly the rows, each whole (all its cells, in order) and exactly once. -/
theorem assemble_chunk (T : List (List Cell)) (fs : List Frag) (hT : RowsOk T)
    (h : chunk T fs = some []) : assembleAll none fs = T.map whole :=
  (assemble_chunk_aux fs).1 T hT h

end GV.Scanner
