import GohbaseVerif.Model.Cache
import GohbaseVerif.Lemmas.BOrd
/-! Decimal region ids inside names, separator-splitting of byte strings, `fq`. -/
namespace GV.Cache
open GV GV.RegionName

theorem dec_small {n : Nat} (h : n < 10) : dec n = [UInt8.ofNat (48 + n)] := by
  rw [dec]; simp [h]

theorem dec_big {n : Nat} (h : ¬ n < 10) :
    dec n = dec (n / 10) ++ [UInt8.ofNat (48 + n % 10)] := by
  rw [dec]; simp [h]

theorem digit_toNat (m : Nat) (h : m < 10) : (UInt8.ofNat (48 + m)).toNat = 48 + m := by
  simp [UInt8.toNat_ofNat']
  omega

theorem dec_digits (n : Nat) : ∀ d ∈ dec n, 48 ≤ d.toNat ∧ d.toNat ≤ 57 := by
  induction n using Nat.strongRecOn with
  | _ n ih =>
    by_cases h : n < 10
    · rw [dec_small h]
      intro d hd
      simp only [List.mem_singleton] at hd
      subst hd
      rw [digit_toNat n h]; omega
    · rw [dec_big h]
      intro d hd
      rw [List.mem_append] at hd
      rcases hd with hd | hd
      · exact ih (n / 10) (by omega) d hd
      · simp only [List.mem_singleton] at hd
        subst hd
        rw [digit_toNat (n % 10) (by omega)]; omega

theorem dec_ne_nil (n : Nat) : dec n ≠ [] := by
  by_cases h : n < 10
  · rw [dec_small h]; simp
  · rw [dec_big h]; simp

def decVal (b : Bytes) : Nat := b.foldl (fun acc d => acc * 10 + (d.toNat - 48)) 0

theorem decVal_dec (n : Nat) : decVal (dec n) = n := by
  induction n using Nat.strongRecOn with
  | _ n ih =>
    by_cases h : n < 10
    · rw [dec_small h]
      simp only [decVal, List.foldl_cons, List.foldl_nil]
      rw [digit_toNat n h]; omega
    · rw [dec_big h]
      unfold decVal
      rw [List.foldl_append]
      have := ih (n / 10) (by omega)
      unfold decVal at this
      simp only [List.foldl_cons, List.foldl_nil]
      rw [this, digit_toNat (n % 10) (by omega)]
      omega

theorem dec_inj {a b : Nat} (h : dec a = dec b) : a = b := by
  rw [← decVal_dec a, ← decVal_dec b, h]

theorem comma_not_mem_dec (n : Nat) : comma ∉ dec n := by
  intro h
  have := dec_digits n _ h
  simp [comma] at this

theorem dot_not_mem_dec (n : Nat) : dot ∉ dec n := by
  intro h
  have := dec_digits n _ h
  simp [dot] at this

/-- An id suffix `<decimal id>.<rest>` sorts below `":"` (what the search key relies on). -/
theorem idSuffix_lt_colon (n : Nat) (rest : Bytes) : bcmp (dec n ++ dot :: rest) [0x3a] = .lt := by
  cases h : dec n with
  | nil => exact absurd h (dec_ne_nil n)
  | cons d ds =>
    have hd := dec_digits n d (by rw [h]; simp)
    have : d < 0x3a := by
      rw [UInt8.lt_iff_toNat_lt]
      have : (0x3a : UInt8).toNat = 58 := by decide
      omega
    simp [bcmp, this]

/-- Splitting at a separator that does not occur on the left. -/
theorem append_sep_inj_left {c : UInt8} {x x' y y' : Bytes} (hx : c ∉ x) (hx' : c ∉ x')
    (h : x ++ c :: y = x' ++ c :: y') : x = x' ∧ y = y' := by
  induction x generalizing x' with
  | nil =>
    cases x' with
    | nil => simpa using h
    | cons a xs =>
      simp only [List.nil_append, List.cons_append, List.cons.injEq] at h
      exact absurd (by simp [h.1]) hx'
  | cons a xs ih =>
    cases x' with
    | nil =>
      simp only [List.nil_append, List.cons_append, List.cons.injEq] at h
      exact absurd (by simp [h.1]) hx
    | cons b ys =>
      simp only [List.cons_append, List.cons.injEq] at h
      have hxs : c ∉ xs := fun e => hx (by simp [e])
      have hys : c ∉ ys := fun e => hx' (by simp [e])
      obtain ⟨e1, e2⟩ := ih hxs hys h.2
      exact ⟨by rw [h.1, e1], e2⟩

/-- Splitting at a separator that does not occur on the right. -/
theorem append_sep_inj_right {c : UInt8} {x x' y y' : Bytes} (hy : c ∉ y) (hy' : c ∉ y')
    (h : x ++ c :: y = x' ++ c :: y') : x = x' ∧ y = y' := by
  induction x generalizing x' with
  | nil =>
    cases x' with
    | nil => simpa using h
    | cons a xs =>
      simp only [List.nil_append, List.cons_append, List.cons.injEq] at h
      exact absurd (by rw [h.2]; simp) hy
  | cons a xs ih =>
    cases x' with
    | nil =>
      simp only [List.nil_append, List.cons_append, List.cons.injEq] at h
      exact absurd (by rw [← h.2]; simp) hy'
    | cons b ys =>
      simp only [List.cons_append, List.cons.injEq] at h
      obtain ⟨e1, e2⟩ := ih h.2
      exact ⟨by rw [h.1, e1], e2⟩

/-- With a colon-free qualifier, `(namespace, table)` and the fully-qualified name determine
each other (`isRegionOverlap` compares the former, the cache lookup the latter). -/
theorem fq_eq_iff {a b : Region} (ha : colon ∉ a.tbl) (hb : colon ∉ b.tbl) :
    a.fq = b.fq ↔ a.ns = b.ns ∧ a.tbl = b.tbl := by
  constructor
  · intro h
    unfold Region.fq at h
    by_cases h1 : a.ns = [] <;> by_cases h2 : b.ns = [] <;> simp only [h1, h2, if_true, if_false] at h
    · exact ⟨by rw [h1, h2], h⟩
    · exact absurd (by rw [h]; simp) ha
    · exact absurd (by rw [← h]; simp) hb
    · exact append_sep_inj_right ha hb h
  · rintro ⟨h1, h2⟩
    unfold Region.fq
    rw [h1, h2]

theorem overlap_symm (a b : Region) : overlap a b = overlap b a := by
  unfold overlap
  have h1 : (bcmp a.stop b.start == Ordering.gt) = (bcmp b.start a.stop == Ordering.lt) := by
    rw [bcmp_swap b.start a.stop]; cases bcmp b.start a.stop <;> rfl
  have h2 : (bcmp b.stop a.start == Ordering.gt) = (bcmp a.start b.stop == Ordering.lt) := by
    rw [bcmp_swap a.start b.stop]; cases bcmp a.start b.stop <;> rfl
  rw [h1, h2]
  have e1 : (a.ns == b.ns) = (b.ns == a.ns) := by
    rw [Bool.eq_iff_iff, beq_iff_eq, beq_iff_eq]; exact eq_comm
  have e2 : (a.tbl == b.tbl) = (b.tbl == a.tbl) := by
    rw [Bool.eq_iff_iff, beq_iff_eq, beq_iff_eq]; exact eq_comm
  rw [e1, e2]
  cases (b.ns == a.ns) <;> cases (b.tbl == a.tbl) <;> cases (b.stop.isEmpty || bcmp a.start b.stop == .lt) <;>
    cases (a.stop.isEmpty || bcmp b.start a.stop == .lt) <;> rfl

end GV.Cache
