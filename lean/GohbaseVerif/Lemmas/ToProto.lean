import GohbaseVerif.Model.ToProto
/-! Lemmas about `Model/ToProto.lean`: default elision round trips, request fidelity,
`multi.toProto`. Core Lean only. -/
namespace GV.ToProto
open GV

/-! ### default elision -/

theorem optIf_bne_getD (v d : Nat) : (optIf (v != d) v).getD d = v := by
  unfold optIf
  by_cases h : v = d <;> simp [h]

theorem optIf_bne_getD_bool (v d : Bool) : (optIf (v != d) v).getD d = v := by
  cases v <;> cases d <;> rfl

theorem optIf_true_getD (b : Bool) : (optIf b true).getD false = b := by
  cases b <;> rfl

theorem decodeColumns_familiesToColumn (ord : Families) :
    Spec.decodeColumns (familiesToColumn ord) = ord := by
  unfold Spec.decodeColumns familiesToColumn
  rw [List.map_map]
  conv => rhs; rw [← List.map_id ord]
  apply List.map_congr_left
  intro a _
  rfl

theorem decodeFrom_mk (f t : Nat) :
    Spec.decodeFrom (some { from_ := optIf (f != minTimestamp) f, to := optIf (t != maxTimestamp) t }) = f := by
  simp only [Spec.decodeFrom, Option.bind]
  exact optIf_bne_getD f minTimestamp

theorem decodeTo_mk (f t : Nat) :
    Spec.decodeTo (some { from_ := optIf (f != minTimestamp) f, to := optIf (t != maxTimestamp) t }) = t := by
  simp only [Spec.decodeTo, Option.bind]
  exact optIf_bne_getD t maxTimestamp

/-- The consistency field: absent for the default, never a fault for the three legal values,
and a server reading it with the STRONG default gets what the caller meant. -/
theorem consistencyField_ok (c : Consistency) (h : c ≠ .invalid) :
    ∃ o, consistencyField c = .ok o ∧ o.getD .strong = Spec.intentConsistency c := by
  cases c with
  | default => exact ⟨none, rfl, rfl⟩
  | strong => exact ⟨some .strong, rfl, rfl⟩
  | timeline => exact ⟨some .timeline, rfl, rfl⟩
  | invalid => exact absurd rfl h

theorem consistencyField_invalid : consistencyField .invalid = .fault "invalid value for ConsistencyType" := rfl

/-! ### Get -/

theorem getToProto_of (g : GetCall) (ord : Families) (o : Option PBConsistency)
    (h : consistencyField g.q.consistency = .ok o) :
    getToProto g ord = .ok
      { region := g.region
        get := { row := g.key
                 column := familiesToColumn ord
                 filter := g.q.filter
                 timeRange := some { from_ := optIf (g.q.fromTs != minTimestamp) g.q.fromTs
                                     to := optIf (g.q.toTs != maxTimestamp) g.q.toTs }
                 maxVersions := optIf (g.q.maxVersions != defaultMaxVersions) g.q.maxVersions
                 cacheBlocks := optIf (g.q.cacheBlocks != defaultCacheBlocks) g.q.cacheBlocks
                 storeLimit := optIf (g.q.storeLimit != defaultStoreLimit) g.q.storeLimit
                 storeOffset := optIf (g.q.storeOffset != 0) g.q.storeOffset
                 existenceOnly := optIf g.existsOnly true
                 consistency := o } } := by
  simp only [getToProto, h]

theorem get_fidelity' (g : GetCall) (ord : Families) (h : g.q.consistency ≠ .invalid) :
    ∃ r, getToProto g ord = .ok r ∧ Spec.decodeGet r = Spec.getIntent g ord := by
  obtain ⟨o, ho, hd⟩ := consistencyField_ok g.q.consistency h
  refine ⟨_, getToProto_of g ord o ho, ?_⟩
  simp only [Spec.decodeGet, Spec.getIntent, decodeColumns_familiesToColumn, decodeFrom_mk,
    decodeTo_mk, hd]
  have h1 := optIf_bne_getD g.q.maxVersions defaultMaxVersions
  have h2 := optIf_bne_getD g.q.storeLimit defaultStoreLimit
  have h3 := optIf_bne_getD g.q.storeOffset 0
  have h4 := optIf_bne_getD_bool g.q.cacheBlocks defaultCacheBlocks
  have h5 := optIf_true_getD g.existsOnly
  simp only [defaultMaxVersions, defaultCacheBlocks] at h1 h4 ⊢
  rw [h1, h2, h3, h4, h5]

theorem get_invalid_faults (g : GetCall) (ord : Families) (h : g.q.consistency = .invalid) :
    (getToProto g ord).isFault = true := by
  simp [getToProto, h, consistencyField_invalid, Outcome.isFault]

/-! ### Mutate -/

theorem mutationBase_of (m : MutateCall) (h : m.durability < 5) :
    mutationBase m = .ok
      { row := m.key, mutateType := some m.mutType, columnValue := []
        timestamp := optIf (m.timestamp != maxTimestamp) m.timestamp
        attrs := if 0 < m.ttl.length then [(attributeNameTTL, m.ttl)] else []
        durability := some m.durability, associatedCellCount := none } := by
  simp only [mutationBase, h, if_true]

theorem optIf_ts (t : Nat) :
    optIf (t != maxTimestamp) t = if t = maxTimestamp then none else some t := by
  unfold optIf
  by_cases h : t = maxTimestamp <;> simp [h]

theorem decodeTTL_mk (ttl : Bytes) :
    Spec.decodeTTL (if 0 < ttl.length then [(attributeNameTTL, ttl)] else [])
      = if 0 < ttl.length then some ttl else none := by
  by_cases h : 0 < ttl.length
  · simp [h, Spec.decodeTTL]
  · simp [h, Spec.decodeTTL]

/-- One family: the qualifier values `valuesToProto` writes denote exactly the cells the
caller's qualifier map stands for. -/
theorem family_cells (m : MutateCall) (inner : Option (List (Bytes × Bytes))) :
    ((effectiveInner m inner).map fun qv =>
        ({ qualifier := qv.1, value := qv.2,
           ts := if m.timestamp = maxTimestamp then none else some m.timestamp,
           kind := Spec.kindOfDelete (deleteTypeOf m inner) } : Spec.CellSpec))
      = Spec.intentCells m inner := by
  unfold Spec.intentCells effectiveInner deleteTypeOf
  by_cases hd : m.mutType = .delete
  · cases inner with
    | none =>
      cases m.deleteOneVersion <;> simp [hd, Spec.kindOfDelete]
    | some qs =>
      cases qs with
      | nil => cases m.deleteOneVersion <;> simp [hd, Spec.kindOfDelete]
      | cons q qs =>
        cases m.deleteOneVersion <;> simp [hd, Spec.kindOfDelete]
  · cases inner with
    | none => simp [hd]
    | some qs => simp [hd, Spec.kindOfDelete]

theorem decode_valuesToProto (m : MutateCall) (vals : Values) :
    ((valuesToProto m vals (optIf (m.timestamp != maxTimestamp) m.timestamp)).map fun cv =>
        (cv.family, cv.qualifierValue.map fun qv =>
          ({ qualifier := qv.qualifier, value := qv.value, ts := qv.timestamp
             kind := Spec.kindOfDelete qv.deleteType } : Spec.CellSpec)))
      = vals.map fun fv => (fv.1, Spec.intentCells m fv.2) := by
  unfold valuesToProto
  rw [List.map_map]
  apply List.map_congr_left
  intro fv _
  simp only [Function.comp_apply, List.map_map, optIf_ts]
  rw [← family_cells m fv.2]
  rfl

theorem mutate_fidelity' (m : MutateCall) (vals : Values) (h : m.durability < 5) :
    ∃ r, mutateToProto m vals = .ok r ∧ Spec.decodeMutate r = Spec.mutateIntent m vals := by
  refine ⟨_, by simp only [mutateToProto, mutationBase_of m h, Outcome.map]; rfl, ?_⟩
  simp only [Spec.decodeMutate, Spec.decodeMutation, Spec.mutateIntent, decodeTTL_mk, Option.getD]
  rw [decode_valuesToProto]
  simp only [optIf_ts]

theorem mutate_durability_fault (m : MutateCall) (vals : Values) (h : ¬ m.durability < 5) :
    (mutateToProto m vals).isFault = true := by
  simp [mutateToProto, mutationBase, h, Outcome.map, Outcome.isFault]

theorem mutate_cellblock_fidelity' (m : MutateCall) (cb : Bytes) (count : Nat) (cbs : List Bytes)
    (h : m.durability < 5) :
    ∃ r, mutateSerialize m cb count cbs
        = .ok (r, (if 0 < cb.length then cbs ++ [cb] else cbs), cb.length) ∧
      Spec.decodeMutate r = Spec.mutateIntentCB m count := by
  refine ⟨_, by simp only [mutateSerialize, mutationBase_of m h, Outcome.map]; rfl, ?_⟩
  simp only [Spec.decodeMutate, Spec.decodeMutation, Spec.mutateIntentCB, Spec.mutateIntent,
    decodeTTL_mk, optIf_ts, Option.getD, List.map_nil]

theorem cas_fidelity' (c : CasCall) (vals : Values) (h : c.put.durability < 5) :
    ∃ r, casToProto c vals = .ok r ∧ Spec.decodeMutate r = Spec.casIntent c vals := by
  obtain ⟨r, hr, hd⟩ := mutate_fidelity' c.put vals h
  refine ⟨_, by simp only [casToProto, hr, Outcome.map]; rfl, ?_⟩
  simp only [Spec.decodeMutate, Spec.decodeMutation, Spec.casIntent] at hd ⊢
  simp only [Spec.mutateIntent] at hd ⊢
  injection hd with h1 h2 h3 h4 h5 h6 h7 h8 h9
  simp only [h1, h2, h3, h4, h5, h6, h7, h8]

/-! ### Scan -/

theorem scan_fidelity_next (s : ScanCall) (ord : Families) (h : s.scannerID ≠ noScannerID) :
    ∃ r, scanToProto s ord = .ok r ∧ Spec.decodeScan r = Spec.scanIntent s ord := by
  have hb : (s.scannerID != noScannerID) = true := by simp [h]
  refine ⟨_, by simp only [scanToProto, hb, if_true]; rfl, ?_⟩
  simp only [Spec.decodeScan, Spec.scanIntent, hb, if_true, Option.getD]

theorem scan_fidelity_open (s : ScanCall) (ord : Families) (h : s.scannerID = noScannerID)
    (hc : s.q.consistency ≠ .invalid) :
    ∃ r, scanToProto s ord = .ok r ∧ Spec.decodeScan r = Spec.scanIntent s ord := by
  have hb : (s.scannerID != noScannerID) = false := by simp [h]
  obtain ⟨o, ho, hd⟩ := consistencyField_ok s.q.consistency hc
  refine ⟨_, by simp only [scanToProto, hb, ho]; rfl, ?_⟩
  simp only [Spec.decodeScan, Spec.scanIntent, hb, Spec.decodeScanSpec,
    decodeColumns_familiesToColumn, decodeFrom_mk, decodeTo_mk, hd]
  have h1 := optIf_bne_getD s.q.maxVersions defaultMaxVersions
  have h2 := optIf_bne_getD s.q.storeLimit defaultStoreLimit
  have h3 := optIf_bne_getD s.q.storeOffset 0
  have h4 := optIf_bne_getD_bool s.q.cacheBlocks defaultCacheBlocks
  have h5 := optIf_true_getD s.reversed
  simp only [defaultMaxVersions, defaultCacheBlocks] at h1 h4 ⊢
  rw [h1, h2, h3, h4, h5]
  simp

/-! ### multi -/

theorem decodeActions_intent {α β} (need : α → Nat) (l : List (Nat × MCall α β))
    (hneed : ∀ ic ∈ l, need ic.2.msg = ic.2.cbs.length) (rest : List β) :
    Spec.decodeActions need (l.map fun ic => ({ index := ic.1 + 1, msg := ic.2.msg } : PBAction α))
        ((l.flatMap fun ic => ic.2.cbs) ++ rest)
      = .ok (l.map fun ic => ⟨ic.1 + 1, ic.2.msg, ic.2.cbs⟩, rest) := by
  induction l with
  | nil => simp [Spec.decodeActions]
  | cons ic l ih =>
    have h1 : need ic.2.msg = ic.2.cbs.length := hneed ic (by simp)
    have ih' := ih (fun x hx => hneed x (by simp [hx]))
    simp only [List.map_cons, List.flatMap_cons, List.append_assoc, Spec.decodeActions, h1]
    have hl : ¬ ((ic.2.cbs ++ ((l.flatMap fun ic => ic.2.cbs) ++ rest)).length < ic.2.cbs.length) := by
      simp
    rw [if_neg hl, List.drop_left' rfl, List.take_left' rfl, ih']

theorem decodeMulti_intent {α β} (need : α → Nat) (calls : List (MCall α β))
    (hneed : ∀ c ∈ calls, need c.msg = c.cbs.length) (π : List Region) (rest : List β) :
    Spec.decodeMulti need (multiToProto calls π).regionActions
        ((multiToProto calls π).cellblocks ++ rest)
      = .ok (Spec.multiIntent calls π, rest) := by
  simp only [multiToProto, Spec.multiIntent]
  induction π with
  | nil => simp [Spec.decodeMulti]
  | cons r π ih =>
    simp only [List.map_cons, List.flatMap_cons, List.append_assoc, Spec.decodeMulti]
    have hn : ∀ ic ∈ actionsOf calls r, need ic.2.msg = ic.2.cbs.length := by
      intro ic hic
      have hm : ic ∈ indexed calls := (List.mem_filter.mp hic).1
      have : ic.2 ∈ calls := (List.of_mem_zip hm).2
      exact hneed _ this
    rw [decodeActions_intent need (actionsOf calls r) hn]
    simp only
    rw [ih]

theorem indexed_map_fst {γ} (l : List γ) : (indexed l).map (·.1) = List.range l.length := by
  unfold indexed
  rw [List.map_fst_zip]
  simp

/-- Inside one region the batch order is kept: indices are strictly increasing. -/
theorem actionsOf_sorted {α β} (calls : List (MCall α β)) (r : Region) :
    ((actionsOf calls r).map (·.1)).Pairwise (· < ·) := by
  have hs : ((actionsOf calls r).map (·.1)).Sublist ((indexed calls).map (·.1)) :=
    (List.filter_sublist).map _
  rw [indexed_map_fst] at hs
  exact List.Pairwise.sublist hs List.pairwise_lt_range

theorem mem_indexed {γ} (l : List γ) (i : Nat) (c : γ) :
    (i, c) ∈ indexed l ↔ l[i]? = some c := by
  unfold indexed
  constructor
  · intro h
    obtain ⟨k, hk, he⟩ := List.getElem_of_mem h
    simp only [List.getElem_zip, List.getElem_range, Prod.mk.injEq] at he
    simp only [List.length_zip, List.length_range, Nat.min_self] at hk
    obtain ⟨h1, h2⟩ := he
    subst h1
    rw [← h2]
    exact List.getElem?_eq_getElem hk
  · intro h
    obtain ⟨hi, he⟩ := List.getElem?_eq_some_iff.mp h
    have hk : i < ((List.range l.length).zip l).length := by simp [hi]
    have : ((List.range l.length).zip l)[i] = (i, c) := by
      simp [List.getElem_zip, he]
    rw [← this]
    exact List.getElem_mem hk


/-! ### coverage of the batch by the region actions -/

theorem multi_complete' {α β} (calls : List (MCall α β)) (π : List Region) (i : Nat) (c : MCall α β)
    (h : calls[i]? = some c) (hl : c.cancelled = false) (hr : c.region ∈ π) :
    ∃ ra ∈ Spec.multiIntent calls π, ra.1 = c.region.name ∧
      (⟨i + 1, c.msg, c.cbs⟩ : Spec.DecodedAction α β) ∈ ra.2 := by
  refine ⟨(c.region.name, (actionsOf calls c.region).map fun ic => ⟨ic.1 + 1, ic.2.msg, ic.2.cbs⟩), ?_, rfl, ?_⟩
  · exact List.mem_map.mpr ⟨c.region, hr, rfl⟩
  · refine List.mem_map.mpr ⟨(i, c), ?_, rfl⟩
    refine List.mem_filter.mpr ⟨(mem_indexed calls i c).mpr h, ?_⟩
    simp [hl]

theorem multi_sound' {α β} (calls : List (MCall α β)) (π : List Region)
    (ra : Bytes × List (Spec.DecodedAction α β)) (hra : ra ∈ Spec.multiIntent calls π)
    (a : Spec.DecodedAction α β) (ha : a ∈ ra.2) :
    ∃ r ∈ π, ra.1 = r.name ∧ ∃ i c, calls[i]? = some c ∧ a.index = i + 1 ∧ c.cancelled = false ∧
      c.region = r ∧ a.msg = c.msg ∧ a.cbs = c.cbs := by
  obtain ⟨r, hr, rfl⟩ := List.mem_map.mp hra
  refine ⟨r, hr, rfl, ?_⟩
  obtain ⟨ic, hic, rfl⟩ := List.mem_map.mp ha
  obtain ⟨hm, hp⟩ := List.mem_filter.mp hic
  refine ⟨ic.1, ic.2, (mem_indexed calls ic.1 ic.2).mp hm, rfl, ?_, ?_, rfl, rfl⟩
  · simp at hp; exact hp.1
  · simp at hp; exact hp.2

/-- No call is sent twice: with pairwise different regions all indices are different. -/
theorem multi_once' {α β} (calls : List (MCall α β)) (π : List Region) (hπ : π.Nodup) :
    ((Spec.multiIntent calls π).flatMap fun ra => ra.2.map (·.index)).Nodup := by
  induction π with
  | nil => simp [Spec.multiIntent]
  | cons r π ih =>
    have hr : r ∉ π := (List.nodup_cons.mp hπ).1
    have ih' := ih (List.nodup_cons.mp hπ).2
    simp only [Spec.multiIntent, List.map_cons, List.flatMap_cons] at ih' ⊢
    rw [List.nodup_append]
    refine ⟨?_, ih', ?_⟩
    · rw [List.map_map]
      have hs := actionsOf_sorted calls r
      have : (List.map ((fun (x : Spec.DecodedAction α β) => x.index) ∘ fun ic => ⟨ic.1 + 1, ic.2.msg, ic.2.cbs⟩)
          (actionsOf calls r)) = ((actionsOf calls r).map (·.1)).map (· + 1) := by
        rw [List.map_map]; rfl
      rw [this]
      have hp : (((actionsOf calls r).map (·.1)).map (· + 1)).Pairwise (· < ·) := by
        rw [List.pairwise_map]
        exact hs.imp (fun h => by omega)
      exact hp.imp (fun h => by omega)
    · intro x hx y hy hxy
      subst hxy
      simp only [List.mem_map] at hx
      obtain ⟨a, ha, rfl⟩ := hx
      obtain ⟨ic, hic, rfl⟩ := ha
      simp only [List.mem_flatMap, List.mem_map] at hy
      obtain ⟨ra, ⟨r', hr', hra⟩, b, hb, hidx⟩ := hy
      subst hra
      obtain ⟨jc, hjc, hb'⟩ := List.mem_map.mp hb
      subst hb'
      simp only at hidx
      have h1 := List.mem_filter.mp hic
      have h2 := List.mem_filter.mp hjc
      have e1 := (mem_indexed calls ic.1 ic.2).mp h1.1
      have e2 := (mem_indexed calls jc.1 jc.2).mp h2.1
      have : jc.1 = ic.1 := by omega
      rw [this, e1] at e2
      have hc : ic.2 = jc.2 := Option.some.inj e2
      have p1 := h1.2
      have p2 := h2.2
      simp at p1 p2
      have : r = r' := by rw [← p1.2, ← p2.2, hc]
      exact hr (this ▸ hr')

end GV.ToProto
