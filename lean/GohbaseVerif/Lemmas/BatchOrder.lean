import GohbaseVerif.Lemmas.BatchSend
/-!
Relative order of two calls that stay together (same region client in every round) is the batch
order in every `QueueBatch`, also in retry rounds.
-/
namespace GV.Batch

/-- if both are in `l`, `c` comes before `d` -/
def Before (c d : Nat) (l : List Nat) : Prop := c ∈ l → d ∈ l → [c, d].Sublist l

theorem pair_sublist_filter {l : List Nat} {p : Nat → Bool} {c d : Nat} (h : [c, d].Sublist l)
    (hc : p c = true) (hd : p d = true) : [c, d].Sublist (l.filter p) := by
  have := h.filter p
  simpa [List.filter_cons, hc, hd] using this

theorem pair_sublist_of_lt {l : List Nat} {i j : Nat} (hij : i < j) (hj : j < l.length) :
    [l[i], l[j]].Sublist l := by
  induction l generalizing i j with
  | nil => cases hj
  | cons x xs ih =>
    cases j with
    | zero => cases hij
    | succ j' =>
      have hj' : j' < xs.length := by simpa using hj
      cases i with
      | zero =>
        simp only [List.getElem_cons_zero, List.getElem_cons_succ]
        exact List.Sublist.cons_cons _ (List.singleton_sublist.mpr (List.getElem_mem hj'))
      | succ i' =>
        simp only [List.getElem_cons_succ]
        exact List.Sublist.cons _ (ih (by omega) hj')

theorem group_sublist_flat {gs : List (Nat × List Nat)} {g : Nat × List Nat} (h : g ∈ gs) :
    g.2.Sublist (gs.flatMap (·.2)) := by
  induction gs with
  | nil => cases h
  | cons x xs ih =>
    simp only [List.flatMap_cons]
    rcases List.mem_cons.mp h with rfl | h
    · exact List.sublist_append_left _ _
    · exact (ih h).trans (List.sublist_append_right _ _)

theorem before_group {rd : Round} {batch : List Nat} {c d : Nat} (hb : Before c d batch)
    {g : Nat × List Nat} (hg : g ∈ groups rd batch) : Before c d g.2 := by
  intro hc hd
  obtain ⟨hcb, hck⟩ := (mem_group_iff hg).mp hc
  obtain ⟨hdb, hdk⟩ := (mem_group_iff hg).mp hd
  rw [(groups_eq hg).1]
  exact pair_sublist_filter (hb hcb hdb) (by simp [hck]) (by simp [hdk])

theorem loop_order {b0 : List Nat} {rounds : List Round} {r : Nat} {batch : List Nat} {st : St} {R : Result}
    (h : loop b0 rounds r batch st = .ok R) {c d : Nat} (hbef : Before c d batch)
    (hsame : ∀ rd ∈ rounds, clientOf rd c = clientOf rd d) :
    ∃ new, R.events = st.events ++ new ∧ ∀ r' k cs, Event.queue r' k cs ∈ new → Before c d cs := by
  induction rounds generalizing r batch st with
  | nil => simp [loop] at h
  | cons rd rest ih =>
    -- the calls the round keeps (`liveCalls`) are a sublist of the round's batch
    have hbefL : Before c d (liveCalls rd batch) := by
      intro hc hd
      exact pair_sublist_filter (hbef (liveCalls_sub hc) (liveCalls_sub hd))
        (by simp [(mem_liveCalls.mp hc).2]) (by simp [(mem_liveCalls.mp hd).2])
    rcases loop_cons h with ⟨_, rfl⟩ | ⟨_, a, ha, hcase⟩
    · exact ⟨[], by simp, fun _ _ _ hm => by cases hm⟩
    · revert ha hcase hbefL
      generalize afterLocate b0 rd batch st = st', liveCalls rd batch = live
      intro hbef ha hcase
      have hq : ∀ r' k cs, Event.queue r' k cs ∈ queueEvents r rd live → Before c d cs := by
        intro r' k cs hm
        simp only [queueEvents, List.mem_map] at hm
        obtain ⟨g, hg, heq⟩ := hm
        cases heq
        exact before_group hbef hg
      rcases hcase with ⟨tail, rfl, htail, _⟩ | ⟨_, hnd, bo, imm, tail, htail, hrec⟩
      · refine ⟨queueEvents r rd live ++ tail, by simp [List.append_assoc], ?_⟩
        intro r' k cs hm
        rcases List.mem_append.mp hm with hm | hm
        · exact hq r' k cs hm
        · have := htail _ hm; simp [isSleepCut] at this
      · -- not interrupted: every call of the live was handled, in wait order
        have hint : a.interrupted = false := by
          rw [cancelPos_none_of_not_done hnd] at ha
          exact waitAll_no_cancel ha rfl
        obtain ⟨pre, post, hf, _, hpost, _, hret, _⟩ := waitAll_flat ha
        have hp := hpost hint
        subst hp
        simp only [List.append_nil] at hf
        have hret' : a.retries = pre.filter (fun c => isRetry (rd.ans c)) := by simpa [acc0] using hret
        have hbef' : Before c d a.retries := by
          intro hc hd
          rw [hret'] at hc hd ⊢
          obtain ⟨hcp, hcr⟩ := List.mem_filter.mp hc
          obtain ⟨hdp, hdr⟩ := List.mem_filter.mp hd
          have hcb : c ∈ live := mem_groups_flat.mp (hf ▸ hcp)
          have hdb : d ∈ live := mem_groups_flat.mp (hf ▸ hdp)
          -- both are in the group of their common client
          obtain ⟨g, hg, hcg⟩ := List.mem_flatMap.mp (mem_groups_flat.mpr hcb)
          have hk := ((mem_group_iff hg).mp hcg).2
          have hdg : d ∈ g.2 := (mem_group_iff hg).mpr
            ⟨hdb, by rw [← hsame rd (List.mem_cons_self ..)]; exact hk⟩
          have h1 : [c, d].Sublist pre := by
            rw [← hf]; exact (before_group hbef hg hcg hdg).trans (group_sublist_flat hg)
          exact pair_sublist_filter h1 hcr hdr
        obtain ⟨new, hev, hnew⟩ := ih hrec hbef' (fun x hx => hsame x (List.mem_cons_of_mem _ hx))
        refine ⟨queueEvents r rd live ++ tail ++ new, by rw [hev]; simp [List.append_assoc], ?_⟩
        intro r' k cs hm
        rcases List.mem_append.mp hm with hm | hm
        · rcases List.mem_append.mp hm with hm | hm
          · exact hq r' k cs hm
          · have := htail _ hm; simp [isSleep] at this
        · exact hnew r' k cs hm

end GV.Batch
