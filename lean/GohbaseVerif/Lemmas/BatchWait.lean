import GohbaseVerif.Lemmas.Batch
/-!
The wait phase of one retry round in flat form: the calls in wait order split into a handled
prefix and a swept suffix (empty unless a select took `<-ctx.Done()`), and every variable of
`SendBatch` after the phase is an explicit function of the two lists.
-/
namespace GV.Batch

/-- the write a handled call makes -/
def wrA (b0 : List Nat) (a : Ans) (res : List Slot) (c : Nat) : List Slot :=
  match a with
  | .ok m => setRes b0 res c ⟨some m, none⟩
  | .fail cls t => setRes b0 res c ⟨none, some (.ans cls t)⟩
  | .ownDone => setErr b0 res c (.ownCtx c)
  | .silent => res

def wr1 (b0 : List Nat) (ans : Nat → Ans) (res : List Slot) (c : Nat) : List Slot :=
  wrA b0 (ans c) res c

abbrev isOkAns (a : Ans) : Bool := a.isOk

def isRetry : Ans → Bool
  | .fail .retryable _ => true
  | .fail .nsre _ => true
  | .fail .server _ => true
  | _ => false

def isBackoff : Ans → Bool
  | .fail .retryable _ => true
  | _ => false

def isUnretry : Ans → Bool
  | .fail .fatal _ => true
  | .ownDone => true
  | _ => false

theorem handle_ok {b0 : List Nat} {a : Ans} {c : Nat} {w w' : W} (h : handle b0 a c w = .ok w') :
    a ≠ .silent ∧
    w' = ⟨wrA b0 a w.res c,
          w.retry ++ (if isRetry a then [c] else []), w.backoff || isBackoff a,
          w.unretry || isUnretry a, w.ok && isOkAns a⟩ := by
  cases a with
  | ok m => simp only [handle, Outcome.ok.injEq] at h; subst h; simp [isRetry, isBackoff, isUnretry, isOkAns, Ans.isOk, wrA]
  | fail cls t =>
    cases cls <;> simp only [handle, Outcome.ok.injEq] at h <;> subst h <;>
      simp [isRetry, isBackoff, isUnretry, isOkAns, Ans.isOk, wrA]
  | ownDone => simp only [handle, Outcome.ok.injEq] at h; subst h; simp [isRetry, isBackoff, isUnretry, isOkAns, Ans.isOk, wrA]
  | silent => simp [handle] at h

theorem sweep_append (b0 : List Nat) (ans : Nat → Ans) (xs ys : List Nat) (res : List Slot) :
    sweep b0 ans (xs ++ ys) res = sweep b0 ans ys (sweep b0 ans xs res) := by
  induction xs generalizing res with
  | nil => rfl
  | cons x xs ih =>
    simp only [List.cons_append, sweep]
    split <;> exact ih _

theorem waitGroup_flat {b0 : List Nat} {ans : Nat → Ans} {cancel : Option Nat} {cs : List Nat} {pos : Nat}
    {w w' : W} {cut : Bool} (h : waitGroup b0 ans cancel cs pos w = .ok (w', cut)) :
    ∃ pre post, cs = pre ++ post ∧ (cut = false → post = []) ∧
      w'.res = sweep b0 ans post (pre.foldl (wr1 b0 ans) w.res) ∧
      w'.retry = w.retry ++ pre.filter (fun c => isRetry (ans c)) ∧
      w'.backoff = (w.backoff || pre.any (fun c => isBackoff (ans c))) ∧
      w'.unretry = (w.unretry || pre.any (fun c => isUnretry (ans c))) ∧
      w'.ok = (w.ok && pre.all (fun c => isOkAns (ans c)) && post.all (fun c => isOkAns (ans c))) ∧
      ∀ c ∈ pre, ans c ≠ .silent := by
  induction cs generalizing pos w with
  | nil =>
    simp only [waitGroup, Outcome.ok.injEq, Prod.mk.injEq] at h
    obtain ⟨rfl, rfl⟩ := h
    exact ⟨[], [], rfl, fun _ => rfl, by simp [sweep], by simp, by simp, by simp, by simp, by simp⟩
  | cons c cs ih =>
    simp only [waitGroup] at h
    split at h
    · simp only [Outcome.ok.injEq, Prod.mk.injEq] at h
      obtain ⟨rfl, rfl⟩ := h
      exact ⟨[], c :: cs, rfl, by simp, by simp, by simp, by simp, by simp, by simp, by simp⟩
    · split at h
      · rename_i w1 hw1
        obtain ⟨hns, rfl⟩ := handle_ok hw1
        obtain ⟨pre, post, hcs, hcut, hres, hretry, hb, hu, hok, hsil⟩ := ih h
        refine ⟨c :: pre, post, by simp [hcs], hcut, ?_, ?_, ?_, ?_, ?_, ?_⟩
        · rw [hres]; simp only [List.foldl_cons, wr1]
        · rw [hretry]; simp only [List.filter_cons]
          cases hr : isRetry (ans c) <;> simp
        · rw [hb]; simp [Bool.or_assoc]
        · rw [hu]; simp [Bool.or_assoc]
        · rw [hok]; simp [Bool.and_assoc]
        · intro d hd
          cases hd with
          | head => exact hns
          | tail _ hd => exact hsil d hd
      · cases h
      · cases h


theorem ok_not_others {a : Ans} (h : isOkAns a = true) :
    isRetry a = false ∧ isBackoff a = false ∧ isUnretry a = false := by
  cases a <;> simp [isOkAns, Ans.isOk] at h <;> simp [isRetry, isBackoff, isUnretry]

theorem all_ok_no_retry {ans : Nat → Ans} {l : List Nat} (h : l.all (fun c => isOkAns (ans c)) = true) :
    l.filter (fun c => isRetry (ans c)) = [] ∧ l.any (fun c => isBackoff (ans c)) = false ∧
    l.any (fun c => isUnretry (ans c)) = false := by
  rw [List.all_eq_true] at h
  refine ⟨List.filter_eq_nil_iff.mpr fun x hx => ?_, List.any_eq_false.mpr fun x hx => ?_,
    List.any_eq_false.mpr fun x hx => ?_⟩
  · simp [(ok_not_others (h x hx)).1]
  · simp [(ok_not_others (h x hx)).2.1]
  · simp [(ok_not_others (h x hx)).2.2]

/-- The wait phase of a round in flat form. -/
theorem waitAll_flat {b0 : List Nat} {ans : Nat → Ans} {cancel : Option Nat} {gs : List (Nat × List Nat)}
    {pos : Nat} {a a' : Acc} (h : waitAll b0 ans cancel gs pos a = .ok a') :
    ∃ pre post, gs.flatMap (·.2) = pre ++ post ∧ (a.interrupted = true → pre = []) ∧
      (a'.interrupted = false → post = []) ∧
      a'.res = sweep b0 ans post (pre.foldl (wr1 b0 ans) a.res) ∧
      a'.retries = a.retries ++ pre.filter (fun c => isRetry (ans c)) ∧
      a'.needBackoff = (a.needBackoff || pre.any (fun c => isBackoff (ans c))) ∧
      a'.unretry = (a.unretry || pre.any (fun c => isUnretry (ans c))) ∧
      a'.allOK = (a.allOK && pre.all (fun c => isOkAns (ans c)) && post.all (fun c => isOkAns (ans c))) ∧
      (∀ c ∈ pre, ans c ≠ .silent) ∧ (a.interrupted = true → a'.interrupted = true) := by
  induction gs generalizing pos a with
  | nil =>
    simp only [waitAll, Outcome.ok.injEq] at h
    subst h
    exact ⟨[], [], rfl, fun _ => rfl, fun _ => rfl, by simp [sweep], by simp, by simp, by simp, by simp, by simp,
      fun h => h⟩
  | cons g gs ih =>
    simp only [waitAll] at h
    split at h
    · -- entered with a done context: the whole group is swept
      rename_i hint
      obtain ⟨pre, post, hf, hpre, hpost, hres, hret, hnb, hun, hall, hsil, hmono⟩ :=
        ih (a := { a with res := sweep b0 ans g.2 a.res,
                          allOK := a.allOK && g.2.all (fun d => (ans d).isOk) }) h
      have hp : pre = [] := hpre hint
      subst hp
      have hi' : a'.interrupted = true := hmono hint
      refine ⟨[], g.2 ++ post, by simp [List.flatMap_cons, hf], fun _ => rfl, ?_, ?_, by simpa using hret,
        by simpa using hnb, by simpa using hun, ?_, by simp, fun _ => hi'⟩
      · intro hf'; rw [hi'] at hf'; cases hf'
      · rw [hres]; simp [sweep_append]
      · rw [hall]; simp [List.all_append, Bool.and_assoc]
    · rename_i hint
      split at h
      · rename_i w cut hw
        obtain ⟨pg, qg, hg, hcut, hwres, hwretry, hwb, hwu, hwok, hwsil⟩ := waitGroup_flat hw
        simp only [Bool.true_and, List.nil_append, Bool.false_or] at hwretry hwb hwu hwok
        cases hwk : w.ok
        · -- the group reported !ok
          simp only [hwk, Bool.not_false, if_true] at h
          obtain ⟨pre, post, hf, hpre, hpost, hres, hret, hnb, hun, hall, hsil, hmono⟩ :=
            ih (a := { res := w.res, allOK := false, retries := a.retries ++ w.retry,
                       needBackoff := a.needBackoff || w.backoff, unretry := a.unretry || w.unretry,
                       interrupted := cut }) h
          simp only at hpre hres hret hnb hun hall hmono
          have hfalse : (pg.all (fun c => isOkAns (ans c)) && qg.all (fun c => isOkAns (ans c))) = false := by
            rw [hwk] at hwok; exact hwok.symm
          cases hc : cut
          · -- not cut: the group was handled entirely
            have hq : qg = [] := hcut hc
            subst hq
            simp only [List.append_nil] at hg
            simp only [List.all_nil, Bool.and_true] at hfalse
            refine ⟨pg ++ pre, post, by simp [List.flatMap_cons, hg, hf], ?_, hpost, ?_, ?_, ?_, ?_, ?_, ?_, ?_⟩
            · intro hi; simp [hi] at hint
            · rw [hres, hwres]; simp [sweep, List.foldl_append]
            · rw [hret, hwretry]; simp [List.filter_append]
            · rw [hnb, hwb]; simp [Bool.or_assoc]
            · rw [hun, hwu]; simp [Bool.or_assoc]
            · rw [hall]; simp [List.all_append, hfalse]
            · intro c hc'
              rcases List.mem_append.mp hc' with h1 | h1
              · exact hwsil c h1
              · exact hsil c h1
            · intro hi; simp [hi] at hint
          · -- cut inside this group: everything after is swept
            have hp : pre = [] := hpre hc
            subst hp
            have hi' : a'.interrupted = true := hmono hc
            refine ⟨pg, qg ++ post, by simp [List.flatMap_cons, hg, hf], ?_, ?_, ?_, ?_, ?_, ?_, ?_, hwsil,
              fun _ => hi'⟩
            · intro hi; simp [hi] at hint
            · intro hf'; rw [hi'] at hf'; cases hf'
            · rw [hres, hwres]; simp [sweep_append]
            · rw [hret, hwretry]; simp
            · rw [hnb, hwb]; simp
            · rw [hun, hwu]; simp
            · rw [hall]
              simp only [Bool.false_and, List.all_append]
              cases hpa : pg.all (fun c => isOkAns (ans c))
              · simp
              · rw [hpa] at hfalse
                simp only [Bool.true_and] at hfalse
                simp [hfalse]
        · -- the group reported ok: nothing is merged
          simp only [hwk, Bool.not_true, Bool.false_eq_true, if_false] at h
          have htrue : pg.all (fun c => isOkAns (ans c)) = true ∧ qg.all (fun c => isOkAns (ans c)) = true := by
            rw [hwk] at hwok
            have := hwok.symm
            simpa [Bool.and_eq_true] using this
          obtain ⟨hr0, hb0, hu0⟩ := all_ok_no_retry htrue.1
          obtain ⟨pre, post, hf, hpre, hpost, hres, hret, hnb, hun, hall, hsil, hmono⟩ :=
            ih (a := { a with res := w.res, interrupted := cut }) h
          simp only at hpre hres hret hnb hun hall hmono
          cases hc : cut
          · have hq : qg = [] := hcut hc
            subst hq
            simp only [List.append_nil] at hg
            refine ⟨pg ++ pre, post, by simp [List.flatMap_cons, hg, hf], ?_, hpost, ?_, ?_, ?_, ?_, ?_, ?_, ?_⟩
            · intro hi; simp [hi] at hint
            · rw [hres, hwres]; simp [sweep, List.foldl_append]
            · rw [hret]; simp [List.filter_append, hr0]
            · rw [hnb]; simp [hb0]
            · rw [hun]; simp [hu0]
            · rw [hall]; simp [List.all_append, htrue.1]
            · intro c hc'
              rcases List.mem_append.mp hc' with h1 | h1
              · exact hwsil c h1
              · exact hsil c h1
            · intro hi; simp [hi] at hint
          · -- cut, but the sweep found a success for every remaining call of the group
            have hp : pre = [] := hpre hc
            subst hp
            have hi' : a'.interrupted = true := hmono hc
            refine ⟨pg, qg ++ post, by simp [List.flatMap_cons, hg, hf], ?_, ?_, ?_, ?_, ?_, ?_, ?_, hwsil,
              fun _ => hi'⟩
            · intro hi; simp [hi] at hint
            · intro hf'; rw [hi'] at hf'; cases hf'
            · rw [hres, hwres]; simp [sweep_append]
            · rw [hret]; simp [hr0]
            · rw [hnb]; simp [hb0]
            · rw [hun]; simp [hu0]
            · rw [hall]; simp [List.all_append, htrue.1, htrue.2]
      · cases h
      · cases h

end GV.Batch
