import GohbaseVerif.Lemmas.Overlaps
/-! `put` / `del` on a good cache, in closed form. -/
set_option linter.unusedSimpArgs false
namespace GV.Cache
open GV GV.RegionName

theorem Region.WF.startLen {r : Region} (h : r.WF) : r.start.length ≤ 32767 - r.fq.length - 3 := by
  have := h.nameLen
  rw [h.name_eq] at this
  obtain ⟨rest, hs, _⟩ := h.sfx_eq
  have : 0 < (dec r.id).length := List.length_pos_iff.mpr (dec_ne_nil r.id)
  simp [mkName, hs] at *
  omega

theorem key3_eq_of_name_eq {a b : Region} (ha : a.WF) (hb : b.WF) (e : a.name = b.name) :
    a.key3 = b.key3 := by
  obtain ⟨e1, e2, _⟩ := ha.name_inj hb e
  unfold Region.key3 Region.sfx
  rw [e1, e2, e]

theorem cmp_names {a b : Region} (ha : a.WF) (hb : b.WF) :
    ∃ d, compareName a.name b.name = .ok d ∧ (0 < d ↔ nameLt b a) ∧ (d = 0 ↔ a.name = b.name) ∧
      (d < 0 ↔ nameLt a b) := by
  obtain ⟨d, hd, hs⟩ := map_ok_inv (cmpName_wf ha hb)
  refine ⟨d, hd, ?_, ?_, ?_⟩
  · rw [← signOf_gt_iff, hs, lex3_gt_iff_lt, nameLt_iff hb ha]
  · rw [← signOf_eq_iff, hs, lex3_eq_iff]
    constructor
    · intro h
      rw [ha.name_eq, hb.name_eq]
      unfold Region.key3 at h
      simp only [Prod.mk.injEq] at h
      rw [h.1, h.2.1, h.2.2]
    · exact key3_eq_of_name_eq ha hb
  · rw [← signOf_lt_iff, hs, nameLt_iff ha hb]

/-- `Tree.Put`'s descent for the name of a well-formed region. -/
theorem seek_name {l : List Region} (hwf : ∀ x ∈ l, x.WF) (hs : Sorted l) {r : Region} (hr : r.WF) :
    ∃ i h, seekIdx r.name l = .ok (i, h) ∧ i ≤ l.length ∧ (∀ x ∈ l.take i, nameLt x r) ∧
      (h = true → ∃ v, l[i]? = some v ∧ v.name = r.name) ∧
      (h = false → ∀ y ∈ l.drop i, nameLt r y) := by
  obtain ⟨i, h, h1, h2, h3, h4, h5⟩ := seekIdx_spec r.name l
    (fun x hx => by obtain ⟨d, hd, _⟩ := cmp_names hr (hwf x hx); exact ⟨d, hd⟩)
  refine ⟨i, h, h1, h2, ?_, ?_, ?_⟩
  · intro x hx
    obtain ⟨d, hd, hpos⟩ := h3 x hx
    obtain ⟨d', hd', hb, _⟩ := cmp_names hr (hwf x (List.mem_of_mem_take hx))
    rw [hd] at hd'; injection hd' with e; subst e
    exact hb.mp hpos
  · intro hh
    have hi := h5 hh
    refine ⟨l[i], List.getElem?_eq_getElem hi, ?_⟩
    obtain ⟨d, hd, _, hz⟩ := h4 l[i] (List.getElem?_eq_getElem hi)
    obtain ⟨d', hd', _, hb, _⟩ := cmp_names hr (hwf l[i] (List.getElem_mem hi))
    rw [hd] at hd'; injection hd' with e; subst e
    exact (hb.mp (hz.mp hh)).symm
  · intro hh y hy
    obtain ⟨y0, rest, hdrop, hy0, hcase⟩ := mem_drop_cases hy
    have hy0mem : y0 ∈ l := List.mem_of_getElem? hy0
    have hlt0 : nameLt r y0 := by
      obtain ⟨d, hd, hnpos, hz⟩ := h4 y0 hy0
      obtain ⟨d', hd', _, _, hb⟩ := cmp_names hr (hwf y0 hy0mem)
      rw [hd] at hd'; injection hd' with e; subst e
      apply hb.mp
      have : d ≠ 0 := fun e => by rw [hh] at hz; exact absurd (hz.mpr e) (by simp)
      omega
    rcases hcase with e | hmem
    · subst e; exact hlt0
    · have hsd := sorted_drop hs i
      rw [hdrop] at hsd
      have hlt : nameLt y0 y := (List.pairwise_cons.mp hsd).1 y hmem
      exact nameLt_trans hr (hwf y0 hy0mem) (hwf y (List.mem_of_mem_drop hy)) hlt0 hlt

theorem pairwise_forall_sym {α} {R : α → α → Prop} (hsym : ∀ {a b}, R a b → R b a) {l : List α}
    (hp : l.Pairwise R) {a b : α} (ha : a ∈ l) (hb : b ∈ l) (hne : a ≠ b) : R a b := by
  induction l with
  | nil => simp at ha
  | cons x xs ih =>
    obtain ⟨hx, hxs⟩ := List.pairwise_cons.mp hp
    rw [List.mem_cons] at ha hb
    rcases ha with ha | ha <;> rcases hb with hb | hb
    · exact absurd (ha.trans hb.symm) hne
    · subst ha; exact hx b hb
    · subst hb; exact hsym (hx a ha)
    · exact ih hxs ha hb

/-- Names are unique in a sorted cache. -/
theorem sorted_name_inj {l : List Region} (hwf : ∀ x ∈ l, x.WF) (hs : Sorted l) {x y : Region}
    (hx : x ∈ l) (hy : y ∈ l) (h : x.name = y.name) : x = y := by
  by_cases e : x = y
  · exact e
  · have hp : l.Pairwise (fun a b => a.name ≠ b.name) :=
      List.Pairwise.imp_of_mem (fun {a b} ha hb hlt => nameLt_ne (hwf a ha) (hwf b hb) hlt) hs
    have hsym : ∀ {a b : Region}, a.name ≠ b.name → b.name ≠ a.name := fun h => Ne.symm h
    exact absurd h (pairwise_forall_sym hsym hp hx hy e)

theorem foldl_delName (ov L : List Region) :
    ov.foldl (fun l o => delName l o.name) L
      = L.filter (fun x => !(ov.any (fun o => o.name == x.name))) := by
  induction ov generalizing L with
  | nil =>
    symm
    show List.filter _ L = L
    rw [List.filter_eq_self]
    intro x _
    simp
  | cons o os ih =>
    rw [List.foldl_cons, ih]
    unfold delName
    rw [List.filter_filter]
    simp only [List.any_cons]
    apply List.filter_congr
    intro x _
    by_cases h : o.name = x.name
    · simp [h]
    · have h' : ¬ x.name = o.name := fun e => h e.symm
      have e1 : (x.name != o.name) = true := by simp [h']
      have e2 : (o.name == x.name) = false := by simp [h]
      rw [e1, e2]
      simp

theorem mem_foldl_markDead (ov d : List Region) (x : Region) :
    x ∈ ov.foldl markDead d ↔ x ∈ d ∨ x ∈ ov := by
  induction ov generalizing d with
  | nil => simp
  | cons o os ih =>
    simp only [List.foldl_cons, ih, List.mem_cons]
    unfold markDead
    by_cases h : o ∈ d
    · simp only [h, if_true]
      constructor
      · rintro (h1 | h1)
        · exact .inl h1
        · exact .inr (.inr h1)
      · rintro (h1 | h1 | h1)
        · exact .inl h1
        · subst h1; exact .inl h
        · exact .inr h1
    · simp only [h, if_false, List.mem_append, List.mem_singleton]
      constructor
      · rintro ((h1 | h1) | h1)
        · exact .inl h1
        · exact .inr (.inl h1)
        · exact .inr (.inr h1)
      · rintro (h1 | h1 | h1)
        · exact .inl (.inl h1)
        · exact .inl (.inr h1)
        · exact .inr h1

/-- The cache content after an evicting `put`. -/
def evicted (l : List Region) (i : Nat) (r : Region) : List Region :=
  (l.take i).filter (fun x => !overlap x r) ++ r :: (l.drop i).filter (fun x => !overlap x r)

theorem put_spec {c : Cache} (hg : Good c) {r : Region} (hr : r.WF) :
    (∃ v ∈ c.regions, v.name = r.name ∧ put c r = .ok (c, [v], false)) ∨
    ((∀ x ∈ c.regions, x.name ≠ r.name) ∧
      ((c.regions.filter (overlap · r)).any (fun o => r.id < o.id) = true →
        put c r = .ok (c, c.regions.filter (overlap · r), false)) ∧
      ((c.regions.filter (overlap · r)).any (fun o => r.id < o.id) = false →
        ∃ i, put c r = .ok (⟨evicted c.regions i r, (c.regions.filter (overlap · r)).foldl markDead c.dead⟩,
              c.regions.filter (overlap · r), true) ∧
          (∀ x ∈ c.regions.take i, nameLt x r) ∧ (∀ y ∈ c.regions.drop i, nameLt r y))) := by
  obtain ⟨i, h, h1, h2, h3, h4, h5⟩ := seek_name hg.wf hg.sorted hr
  cases h with
  | true =>
    left
    obtain ⟨v, hv, hn⟩ := h4 rfl
    exact ⟨v, List.mem_of_getElem? hv, hn, by simp [put, h1, hv]⟩
  | false =>
    right
    have habove := h5 rfl
    have hnames : ∀ x ∈ c.regions, x.name ≠ r.name := by
      intro x hx
      rw [← List.take_append_drop i c.regions, List.mem_append] at hx
      rcases hx with hx | hx
      · exact nameLt_ne (hg.wf x (List.mem_of_mem_take hx)) hr (h3 x hx)
      · exact (nameLt_ne hr (hg.wf x (List.mem_of_mem_drop hx)) (habove x hx)).symm
    have hgo := getOverlaps_filter hg hr.tableOK hr.startLen
    refine ⟨hnames, ?_, ?_⟩
    · intro hany
      simp [put, h1, hgo, hany]
    · intro hany
      refine ⟨i, ?_, h3, habove⟩
      have hany' : ¬ ((c.regions.filter (overlap · r)).any (fun o => decide (r.id < o.id)) = true) := by
        rw [hany]; simp
      simp only [put, h1, hgo, hany, Bool.false_eq_true, if_false]
      congr 3
      rw [foldl_delName]
      unfold insertAt evicted
      rw [List.filter_append, List.filter_cons]
      have hkeepr : (!(c.regions.filter (overlap · r)).any (fun o => o.name == r.name)) = true := by
        simp only [Bool.not_eq_true', List.any_eq_false, beq_iff_eq, List.mem_filter]
        intro o ho
        exact hnames o ho.1
      rw [if_pos hkeepr]
      have hkeep : ∀ x ∈ c.regions,
          (!(c.regions.filter (overlap · r)).any (fun o => o.name == x.name)) = !overlap x r := by
        intro x hx
        by_cases hov : overlap x r = true
        · have : (c.regions.filter (overlap · r)).any (fun o => o.name == x.name) = true := by
            rw [List.any_eq_true]
            exact ⟨x, List.mem_filter.mpr ⟨hx, hov⟩, by simp⟩
          simp [this, hov]
        · have : (c.regions.filter (overlap · r)).any (fun o => o.name == x.name) = false := by
            rw [List.any_eq_false]
            intro o ho
            obtain ⟨ho1, ho2⟩ := List.mem_filter.mp ho
            simp only [beq_iff_eq]
            intro e
            have := sorted_name_inj hg.wf hg.sorted ho1 hx e
            subst this
            exact hov ho2
          simp [this, hov]
      congr 1
      · exact List.filter_congr (fun x hx => hkeep x (List.mem_of_mem_take hx))
      · congr 1
        exact List.filter_congr (fun x hx => hkeep x (List.mem_of_mem_drop hx))

theorem evicted_good {l : List Region} (hg : GoodL l) {r : Region} (hr : r.WF) {i : Nat}
    (hbelow : ∀ x ∈ l.take i, nameLt x r) (habove : ∀ y ∈ l.drop i, nameLt r y) :
    GoodL (evicted l i r) := by
  have hsl : Sorted (l.take i ++ l.drop i) := by rw [List.take_append_drop]; exact hg.sorted
  have hdl : (l.take i ++ l.drop i).Pairwise (fun a b => overlap a b = false) := by
    rw [List.take_append_drop]; exact hg.disjoint
  unfold Sorted at hsl
  rw [List.pairwise_append] at hsl hdl
  obtain ⟨s1, s2, s3⟩ := hsl
  obtain ⟨d1, d2, d3⟩ := hdl
  refine ⟨?_, ?_, ?_⟩
  · unfold Sorted evicted
    rw [List.pairwise_append]
    refine ⟨s1.filter _, ?_, ?_⟩
    · rw [List.pairwise_cons]
      exact ⟨fun y hy => habove y (List.mem_filter.mp hy).1, s2.filter _⟩
    · intro a ha b hb
      have ha' := (List.mem_filter.mp ha).1
      rw [List.mem_cons] at hb
      rcases hb with hb | hb
      · subst hb; exact hbelow a ha'
      · exact s3 a ha' b (List.mem_filter.mp hb).1
  · intro x hx
    unfold evicted at hx
    rw [List.mem_append, List.mem_cons] at hx
    rcases hx with hx | hx | hx
    · exact hg.wf x (List.mem_of_mem_take (List.mem_filter.mp hx).1)
    · subst hx; exact hr
    · exact hg.wf x (List.mem_of_mem_drop (List.mem_filter.mp hx).1)
  · unfold evicted
    rw [List.pairwise_append]
    refine ⟨d1.filter _, ?_, ?_⟩
    · rw [List.pairwise_cons]
      refine ⟨fun y hy => ?_, d2.filter _⟩
      have := (List.mem_filter.mp hy).2
      rw [overlap_symm]; simpa using this
    · intro a ha b hb
      obtain ⟨ha', hna⟩ := List.mem_filter.mp ha
      rw [List.mem_cons] at hb
      rcases hb with hb | hb
      · subst hb; simpa using hna
      · exact d3 a ha' b (List.mem_filter.mp hb).1

theorem mem_evicted {l : List Region} {i : Nat} {r x : Region} :
    x ∈ evicted l i r ↔ x = r ∨ (x ∈ l ∧ overlap x r = false) := by
  unfold evicted
  rw [List.mem_append, List.mem_cons, List.mem_filter, List.mem_filter]
  constructor
  · rintro (⟨h1, h2⟩ | h | ⟨h1, h2⟩)
    · exact .inr ⟨List.mem_of_mem_take h1, by simpa using h2⟩
    · exact .inl h
    · exact .inr ⟨List.mem_of_mem_drop h1, by simpa using h2⟩
  · rintro (h | ⟨h1, h2⟩)
    · exact .inr (.inl h)
    · rw [← List.take_append_drop i l, List.mem_append] at h1
      rcases h1 with h1 | h1
      · exact .inl ⟨h1, by simpa using h2⟩
      · exact .inr (.inr ⟨h1, by simpa using h2⟩)

theorem delName_good {l : List Region} (hg : GoodL l) (n : Bytes) : GoodL (delName l n) := by
  unfold delName
  exact ⟨List.Pairwise.sublist (List.filter_sublist) hg.sorted,
    fun x hx => hg.wf x (List.mem_filter.mp hx).1,
    List.Pairwise.sublist (List.filter_sublist) hg.disjoint⟩

end GV.Cache
