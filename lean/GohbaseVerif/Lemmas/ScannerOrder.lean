import GohbaseVerif.Model.Scanner
import GohbaseVerif.Lemmas.Bcmp
/-!
Byte-string order facts used by the region walk: `blt`/`ble` algebra, and the key lemma of
reversed scans — `prevKey rsk` is the greatest key below `rsk` among keys that do not contain
`rowPadding`.
-/
namespace GV.Scanner
open GV

theorem blt_iff {a b : Bytes} : blt a b = true ↔ bcmp a b = .lt := by
  simp [blt]

theorem ble_iff {a b : Bytes} : ble a b = true ↔ bcmp a b ≠ .gt := by
  simp [ble]

theorem ble_iff_not_blt {a b : Bytes} : ble a b = true ↔ blt b a = false := by
  rw [ble_iff, ← Bool.not_eq_true, blt_iff, ← bcmp_gt_iff_lt]

theorem ble_eq_not_blt (a b : Bytes) : ble a b = !blt b a := by
  cases h : blt b a with
  | true =>
    cases h2 : ble a b with
    | false => rfl
    | true => rw [ble_iff_not_blt.mp h2] at h; cases h
  | false => exact ble_iff_not_blt.mpr h

theorem blt_eq_not_ble (a b : Bytes) : blt a b = !ble b a := by
  rw [ble_eq_not_blt]; simp

theorem blt_irrefl (a : Bytes) : blt a a = false := by simp [blt]

theorem ble_refl (a : Bytes) : ble a a = true := by simp [ble]

theorem blt_trans {a b c : Bytes} (h1 : blt a b = true) (h2 : blt b c = true) : blt a c = true :=
  blt_iff.mpr (bcmp_trans_lt (blt_iff.mp h1) (blt_iff.mp h2))

theorem ble_of_blt {a b : Bytes} (h : blt a b = true) : ble a b = true := by
  rw [ble_iff, blt_iff.mp h]; simp

theorem ble_cases {a b : Bytes} (h : ble a b = true) : blt a b = true ∨ a = b := by
  rw [ble_iff] at h
  rcases bcmp_total a b with h1 | h1 | h1
  · exact .inl (blt_iff.mpr h1)
  · exact .inr h1
  · exact absurd ((bcmp_gt_iff_lt a b).mpr h1) h

theorem blt_of_blt_of_ble {a b c : Bytes} (h1 : blt a b = true) (h2 : ble b c = true) : blt a c = true := by
  rcases ble_cases h2 with h | h
  · exact blt_trans h1 h
  · subst h; exact h1

theorem blt_of_ble_of_blt {a b c : Bytes} (h1 : ble a b = true) (h2 : blt b c = true) : blt a c = true := by
  rcases ble_cases h1 with h | h
  · exact blt_trans h h2
  · subst h; exact h2

theorem ble_trans {a b c : Bytes} (h1 : ble a b = true) (h2 : ble b c = true) : ble a c = true := by
  rcases ble_cases h1 with h | h
  · exact ble_of_blt (blt_of_blt_of_ble h h2)
  · subst h; exact h2

theorem blt_or_ble (a b : Bytes) : blt a b = true ∨ ble b a = true := by
  cases h : blt a b with
  | true => exact .inl rfl
  | false => exact .inr (ble_iff_not_blt.mpr h)

theorem not_blt_of_ble {a b : Bytes} (h : ble a b = true) : blt b a = false := ble_iff_not_blt.mp h

theorem ble_nil_left (a : Bytes) : ble [] a = true := by
  cases a <;> simp [ble, bcmp]

theorem blt_nil_right (a : Bytes) : blt a [] = false := by
  cases a <;> simp [blt, bcmp]

theorem ble_nil_right {a : Bytes} (h : ble a [] = true) : a = [] := by
  cases a with
  | nil => rfl
  | cons x xs => simp [ble, bcmp] at h

theorem blt_nil_left {a : Bytes} (h : a ≠ []) : blt [] a = true := by
  cases a with
  | nil => exact absurd rfl h
  | cons x xs => simp [blt, bcmp]

/-! ### common prefixes -/

theorem blt_cons_same (x : UInt8) (a b : Bytes) : blt (x :: a) (x :: b) = blt a b := by
  simp [blt, bcmp]

theorem ble_cons_same (x : UInt8) (a b : Bytes) : ble (x :: a) (x :: b) = ble a b := by
  simp [ble, bcmp]

theorem blt_cons_lt {x y : UInt8} (h : x < y) (a b : Bytes) : blt (x :: a) (y :: b) = true := by
  simp [blt, bcmp, h]

theorem ble_cons_lt {x y : UInt8} (h : x < y) (a b : Bytes) : ble (x :: a) (y :: b) = true := by
  simp [ble, bcmp, h]

theorem blt_cons_gt {x y : UInt8} (h : y < x) (a b : Bytes) : blt (x :: a) (y :: b) = false := by
  have h2 : ¬ x < y := by simp [UInt8.lt_iff_toNat_lt] at *; omega
  simp [blt, bcmp, h, h2]

theorem ble_cons_gt {x y : UInt8} (h : y < x) (a b : Bytes) : ble (x :: a) (y :: b) = false := by
  have h2 : ¬ x < y := by simp [UInt8.lt_iff_toNat_lt] at *; omega
  simp [ble, bcmp, h, h2]

/-! ### the padding -/

theorem hasPadding_tail {x : UInt8} {k : Bytes} (h : hasPadding (x :: k) = false) : hasPadding k = false := by
  cases k with
  | nil => rfl
  | cons y ys =>
    simp only [hasPadding, Bool.or_eq_false_iff] at h
    exact by simpa [hasPadding] using h.2

/-- Above a run of `0xff` bytes only keys that start with that run. -/
theorem gt_ff_run (n : Nat) (k : Bytes) (h : ble k (List.replicate n 255) = false) :
    (List.replicate n (255 : UInt8)).isPrefixOf k = true := by
  induction n generalizing k with
  | zero => simp
  | succ n ih =>
    simp only [List.replicate_succ] at h ⊢
    cases k with
    | nil => simp [ble, bcmp] at h
    | cons y ys =>
      by_cases hy : y = 255
      · subst hy
        rw [ble_cons_same] at h
        simp [List.isPrefixOf, ih ys h]
      · have : y < 255 := by
          have := y.toNat_lt
          simp [UInt8.lt_iff_toNat_lt]
          have h2 : y.toNat ≠ 255 := fun e => hy (UInt8.toNat_inj.mp (by simpa using e))
          omega
        rw [ble_cons_lt this] at h; cases h

theorem rowPadding_ff : Gen.Wire.rowPadding = List.replicate Gen.Wire.rowPadding.length 255 := by decide

theorem le_padding_of_no_padding {x : UInt8} {k : Bytes} (h : hasPadding (x :: k) = false) :
    ble k Gen.Wire.rowPadding = true := by
  cases hb : ble k Gen.Wire.rowPadding with
  | true => rfl
  | false =>
    exfalso
    rw [rowPadding_ff] at hb
    have := gt_ff_run _ k hb
    rw [← rowPadding_ff] at this
    have hk := hasPadding_tail h
    cases k with
    | nil =>
      -- the padding is not empty
      have : Gen.Wire.rowPadding.isPrefixOf ([] : Bytes) = false := by decide
      simp_all
    | cons y ys =>
      simp [hasPadding, this] at hk

/-- `prevKey rsk` is the greatest padding-free key below `rsk`:
    `k < rsk ↔ k ≤ prevKey rsk` for every key `k` that does not contain `rowPadding`. -/
theorem blt_iff_ble_prevKey (rsk k : Bytes) (hr : rsk ≠ []) (hk : hasPadding k = false) :
    blt k rsk = ble k (prevKey rsk) := by
  induction rsk generalizing k with
  | nil => exact absurd rfl hr
  | cons x p ih =>
    cases p with
    | nil =>
      -- rsk = [x]
      simp only [prevKey, List.getLast?_singleton, List.dropLast_singleton, List.nil_append]
      by_cases hx : x = 0
      · subst hx
        simp only [if_true]
        cases k with
        | nil => simp [blt, ble, bcmp]
        | cons y ys =>
          have hy : ¬ y < 0 := by simp [UInt8.lt_iff_toNat_lt]
          by_cases h0 : (0 : UInt8) < y
          · simp [blt, ble, bcmp, hy, h0]
          · have : y = 0 := by
              apply UInt8.toNat_inj.mp
              simp [UInt8.lt_iff_toNat_lt] at h0; simpa using h0
            subst this
            cases ys <;> simp [blt, ble, bcmp]
      · simp only [hx, if_false]
        cases k with
        | nil => simp [blt, ble, bcmp]
        | cons y ys =>
          have hx1 : (x - 1).toNat = x.toNat - 1 := by
            have hx0 : x.toNat ≠ 0 := fun e => hx (UInt8.toNat_inj.mp (by simpa using e))
            have := x.toNat_lt
            rw [UInt8.toNat_sub]; simp; omega
          have hx0 : x.toNat ≠ 0 := fun e => hx (UInt8.toNat_inj.mp (by simpa using e))
          by_cases h1 : y < x - 1
          · have h2 : y < x := by simp [UInt8.lt_iff_toNat_lt] at *; omega
            simp only [List.cons_append, List.nil_append]
            rw [blt_cons_lt h2, ble_cons_lt h1]
          · by_cases h2 : x - 1 < y
            · -- y ≥ x
              have h3 : ¬ y < x := by simp [UInt8.lt_iff_toNat_lt] at *; omega
              simp only [List.cons_append, List.nil_append]
              rw [ble_cons_gt h2]
              by_cases h4 : x < y
              · rw [blt_cons_gt h4]
              · have : y = x := by
                  apply UInt8.toNat_inj.mp
                  simp [UInt8.lt_iff_toNat_lt] at *; omega
                subst this
                rw [blt_cons_same, blt_nil_right]
            · have : y = x - 1 := u8_trichotomy _ _ h1 h2
              subst this
              have h3 : x - 1 < x := by simp [UInt8.lt_iff_toNat_lt]; omega
              simp only [List.cons_append, List.nil_append]
              rw [blt_cons_lt h3, ble_cons_same]
              exact (le_padding_of_no_padding hk).symm
    | cons x2 p2 =>
      have hpk : prevKey (x :: x2 :: p2) = x :: prevKey (x2 :: p2) := by
        simp only [prevKey, List.getLast?_cons_cons, List.dropLast_cons_cons]
        cases hl : (x2 :: p2).getLast? with
        | none => simp at hl
        | some b =>
          simp only []
          split <;> simp
      rw [hpk]
      cases k with
      | nil => simp [blt, ble, bcmp]
      | cons y ys =>
        by_cases h1 : y < x
        · rw [blt_cons_lt h1, ble_cons_lt h1]
        · by_cases h2 : x < y
          · rw [blt_cons_gt h2, ble_cons_gt h2]
          · have := u8_trichotomy _ _ h1 h2
            subst this
            rw [blt_cons_same, ble_cons_same]
            exact ih ys (by simp) (hasPadding_tail hk)

end GV.Scanner
