import GohbaseVerif.Lemmas.NameOrd
import GohbaseVerif.Model.Routing
/-! `Seek`, the enumerator walk of `getOverlaps` and of `keyRegionCache.get`, in closed form. -/
set_option linter.unusedSimpArgs false
namespace GV.Cache
open GV GV.RegionName

/-- What `Tree.Seek` computes on a list, whatever the key (only totality of the comparison
against the stored names is needed). -/
theorem seekIdx_spec (key : Bytes) (l : List Region)
    (hok : ∀ x ∈ l, ∃ d, compareName key x.name = .ok d) :
    ∃ i h, seekIdx key l = .ok (i, h) ∧ i ≤ l.length ∧
      (∀ x ∈ l.take i, ∃ d, compareName key x.name = .ok d ∧ 0 < d) ∧
      (∀ y, l[i]? = some y → ∃ d, compareName key y.name = .ok d ∧ ¬ 0 < d ∧ (h = true ↔ d = 0)) ∧
      (h = true → i < l.length) := by
  induction l with
  | nil => exact ⟨0, false, rfl, Nat.le_refl _, by simp, by simp, by simp⟩
  | cons x xs ih =>
    obtain ⟨d, hd⟩ := hok x (by simp)
    obtain ⟨i, h, h1, h2, h3, h4, h5⟩ := ih (fun y hy => hok y (by simp [hy]))
    by_cases hpos : 0 < d
    · refine ⟨i + 1, h, ?_, by simp; omega, ?_, ?_, ?_⟩
      · simp [seekIdx, hd, hpos, h1]
      · intro y hy
        rw [List.take_succ_cons, List.mem_cons] at hy
        rcases hy with hy | hy
        · subst hy; exact ⟨d, hd, hpos⟩
        · exact h3 y hy
      · intro y hy
        rw [List.getElem?_cons_succ] at hy
        exact h4 y hy
      · intro hh; have := h5 hh; simp; omega
    · by_cases h0 : d = 0
      · refine ⟨0, true, ?_, by simp, by simp, ?_, by simp⟩
        · simp [seekIdx, hd, h0]
        · intro y hy
          simp only [List.getElem?_cons_zero, Option.some.injEq] at hy
          subst hy
          exact ⟨d, hd, hpos, by simp [h0]⟩
      · refine ⟨0, false, ?_, by simp, by simp, ?_, by simp⟩
        · simp [seekIdx, hd, hpos, h0]
        · intro y hy
          simp only [List.getElem?_cons_zero, Option.some.injEq] at hy
          subst hy
          exact ⟨d, hd, hpos, by simp [h0]⟩

theorem mem_drop_cases {α} {l : List α} {i : Nat} {y : α} (hy : y ∈ l.drop i) :
    ∃ y0 rest, l.drop i = y0 :: rest ∧ l[i]? = some y0 ∧ (y = y0 ∨ y ∈ rest) := by
  cases hd : l.drop i with
  | nil => rw [hd] at hy; simp at hy
  | cons y0 rest =>
    refine ⟨y0, rest, rfl, ?_, ?_⟩
    · have := List.getElem?_drop (xs := l) (i := i) (j := 0)
      rw [hd] at this
      simpa using this.symm
    · rw [hd] at hy; simpa using hy

theorem sorted_drop {l : List Region} (hs : Sorted l) (i : Nat) : Sorted (l.drop i) :=
  List.Pairwise.sublist (List.drop_sublist i l) hs

/-- `Seek(searchKey t k)` on a sorted well-formed cache: a miss at the first region that does
not sort below `t,k,:`. -/
theorem seek_searchKey {l : List Region} (hwf : ∀ x ∈ l, x.WF) (hs : Sorted l) {t : Bytes}
    (ht : comma ∉ t) (k : Bytes) :
    ∃ p, seekIdx (searchKey t k) l = .ok (p, false) ∧ p ≤ l.length ∧
      (∀ x ∈ l.take p, Below t k x) ∧ (∀ y ∈ l.drop p, ¬ Below t k y) := by
  obtain ⟨i, h, h1, h2, h3, h4, h5⟩ := seekIdx_spec (searchKey t k) l
    (fun x hx => by obtain ⟨d, hd, _⟩ := cmp_searchKey (hwf x hx) ht k; exact ⟨d, hd⟩)
  have hfalse : h = false := by
    cases h with
    | false => rfl
    | true =>
      have hi := h5 rfl
      obtain ⟨d, hd, _, hz⟩ := h4 l[i] (List.getElem?_eq_getElem hi)
      obtain ⟨d', hd', hne, _⟩ := cmp_searchKey (hwf l[i] (List.getElem_mem hi)) ht k
      rw [hd] at hd'; injection hd' with e; subst e
      exact absurd (hz.mp rfl) hne
  subst hfalse
  refine ⟨i, h1, h2, ?_, ?_⟩
  · intro x hx
    obtain ⟨d, hd, hpos⟩ := h3 x hx
    obtain ⟨d', hd', _, hb⟩ := cmp_searchKey (hwf x (List.mem_of_mem_take hx)) ht k
    rw [hd] at hd'; injection hd' with e; subst e
    exact hb.mp hpos
  · intro y hy
    obtain ⟨y0, rest, hdrop, hy0, hcase⟩ := mem_drop_cases hy
    have hy0mem : y0 ∈ l := List.mem_of_getElem? hy0
    have hnb0 : ¬ Below t k y0 := by
      obtain ⟨d, hd, hnpos, _⟩ := h4 y0 hy0
      obtain ⟨d', hd', _, hb⟩ := cmp_searchKey (hwf y0 hy0mem) ht k
      rw [hd] at hd'; injection hd' with e; subst e
      exact fun hB => hnpos (hb.mpr hB)
    rcases hcase with e | hmem
    · subst e; exact hnb0
    · have hsd := sorted_drop hs i
      rw [hdrop] at hsd
      have hlt : nameLt y0 y := (List.pairwise_cons.mp hsd).1 y hmem
      exact fun hB => hnb0 (Below.mono (hwf y0 hy0mem) (hwf y (List.mem_of_mem_drop hy)) hlt hB)

/-! ### the enumerator walk -/

theorem ovLoop_eq (l : List Region) (r : Region) :
    ∀ (f : Nat) (c : Cursor) (acc : List Region), (c.eof = true → l.length ≤ c.pos) →
      l.length + 1 ≤ f + c.pos →
      ovLoop l r f c acc = acc ++ (l.drop c.pos).takeWhile (overlap · r) := by
  intro f
  induction f with
  | zero =>
    intro c acc _ hf
    have : l.drop c.pos = [] := List.drop_eq_nil_of_le (by omega)
    simp [ovLoop, this]
  | succ f ih =>
    intro c acc he hf
    unfold ovLoop Cursor.next
    by_cases heof : c.eof = true
    · have : l.drop c.pos = [] := List.drop_eq_nil_of_le (he heof)
      simp [heof, this]
    · simp only [heof, Bool.false_eq_true, if_false]
      cases hg : l[c.pos]? with
      | none =>
        have : l.drop c.pos = [] := List.drop_eq_nil_of_le (by
          rcases List.getElem?_eq_none_iff.mp hg with h; omega)
        simp [this]
      | some x =>
        have hlt : c.pos < l.length := (List.getElem?_eq_some_iff.mp hg).1
        have hx : l[c.pos] = x := (List.getElem?_eq_some_iff.mp hg).2
        have hdrop : l.drop c.pos = x :: l.drop (c.pos + 1) := by
          rw [← hx]; exact List.drop_eq_getElem_cons hlt
        simp only []
        by_cases hov : overlap x r = true
        · simp only [hov, if_true]
          rw [ih _ _ (by simp) (by simp; omega), hdrop]
          simp [hov]
        · simp [hov, hdrop]

theorem getOverlaps_eq {l : List Region} {r : Region} {key : Bytes} {p : Nat} (hne : l ≠ [])
    (hk : searchKeyO r.fq r.start = .ok key) (hs : seekIdx key l = .ok (p, false))
    (hp : p ≤ l.length) :
    ∃ v, l[p - 1]? = some v ∧
      getOverlaps l r = .ok ((if overlap v r then [v] else []) ++
        (l.drop (p - 1 + 1)).takeWhile (overlap · r)) := by
  have hlen : 0 < l.length := List.length_pos_iff.mpr hne
  have hemp : l.isEmpty = false := by simpa using hne
  rcases p with _ | _ | p
  · refine ⟨l[0], List.getElem?_eq_getElem hlen, ?_⟩
    have h0 : l[0]? = some l[0] := List.getElem?_eq_getElem hlen
    simp only [getOverlaps, hemp, hk, seek, hs, Cursor.prev, Cursor.next, seekFirst, h0]
    simp only [Bool.false_eq_true, if_false, Bool.not_false, if_true, Option.isNone_none, h0]
    rw [ovLoop_eq l r _ _ _ (by simp) (by simp)]
  · refine ⟨l[0], List.getElem?_eq_getElem hlen, ?_⟩
    have h0 : l[0]? = some l[0] := List.getElem?_eq_getElem hlen
    simp only [getOverlaps, hemp, hk, seek, hs, Cursor.prev, Cursor.next, Cursor.prevAt, seekFirst, h0]
    simp only [Bool.false_eq_true, if_false, Bool.not_false, if_true, Option.isNone_none, h0,
      Nat.add_one_sub_one, Nat.zero_add, Nat.succ_ne_self, decide_true, Nat.add_eq_zero_iff, Nat.one_ne_zero,
      and_false, Nat.sub_self, Nat.sub_zero]
    rw [ovLoop_eq l r _ _ _ (by simp) (by simp)]
  · have h1 : p + 1 < l.length := by omega
    have h0 : p < l.length := by omega
    refine ⟨l[p + 1], List.getElem?_eq_getElem h1, ?_⟩
    have e1 : l[p + 1]? = some l[p + 1] := List.getElem?_eq_getElem h1
    have e0 : l[p]? = some l[p] := List.getElem?_eq_getElem h0
    have hd : decide (l.length ≤ p + 1) = false := by simp; omega
    simp only [getOverlaps, hemp, hk, seek, hs, Cursor.prev, Cursor.next, Cursor.prevAt, seekFirst]
    simp only [Bool.false_eq_true, if_false, Bool.not_false, if_true, Option.isNone_none, e0, e1,
      Nat.add_one_sub_one, Nat.add_eq_zero_iff, Nat.one_ne_zero, and_false, decide_false, hd,
      Option.isNone_some]
    rw [ovLoop_eq l r _ _ _ (by simp) (by simp)]

end GV.Cache
