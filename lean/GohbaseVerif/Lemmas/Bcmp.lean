import GohbaseVerif.Basic
/-! `bytes.Compare` is a strict total order on byte strings. -/
namespace GV

theorem u8_lt_irrefl (x : UInt8) : ¬ x < x := by
  simp [UInt8.lt_iff_toNat_lt]

theorem u8_trichotomy (x y : UInt8) (h1 : ¬ x < y) (h2 : ¬ y < x) : x = y := by
  apply UInt8.toNat_inj.mp
  simp [UInt8.lt_iff_toNat_lt] at h1 h2
  omega

@[simp] theorem bcmp_refl (a : Bytes) : bcmp a a = .eq := by
  induction a with
  | nil => rfl
  | cons x xs ih => simp [bcmp, u8_lt_irrefl, ih]

theorem bcmp_eq_iff {a b : Bytes} : bcmp a b = .eq ↔ a = b := by
  constructor
  · intro h
    induction a generalizing b with
    | nil => cases b <;> simp_all [bcmp]
    | cons x xs ih =>
      cases b with
      | nil => simp [bcmp] at h
      | cons y ys =>
        simp only [bcmp] at h
        split at h
        · cases h
        · split at h
          · cases h
          · rename_i h1 h2
            rw [u8_trichotomy x y h1 h2, ih h]
  · intro h; subst h; simp

theorem bcmp_swap (a b : Bytes) : bcmp b a = (bcmp a b).swap := by
  induction a generalizing b with
  | nil => cases b <;> rfl
  | cons x xs ih =>
    cases b with
    | nil => rfl
    | cons y ys =>
      simp only [bcmp]
      by_cases h1 : x < y
      · have h2 : ¬ y < x := by
          simp [UInt8.lt_iff_toNat_lt] at *; omega
        simp [h1, h2]
      · by_cases h2 : y < x
        · simp [h1, h2]
        · simp [h1, h2, ih]

theorem bcmp_gt_iff_lt (a b : Bytes) : bcmp a b = .gt ↔ bcmp b a = .lt := by
  rw [bcmp_swap a b]; cases bcmp a b <;> simp [Ordering.swap]

theorem bcmp_trans_lt {a b c : Bytes} (h1 : bcmp a b = .lt) (h2 : bcmp b c = .lt) :
    bcmp a c = .lt := by
  induction a generalizing b c with
  | nil =>
    cases b with
    | nil => simp [bcmp] at h1
    | cons y ys => cases c with
      | nil => simp [bcmp] at h2
      | cons z zs => rfl
  | cons x xs ih =>
    cases b with
    | nil => simp [bcmp] at h1
    | cons y ys =>
      cases c with
      | nil => simp [bcmp] at h2
      | cons z zs =>
        simp only [bcmp] at h1 h2 ⊢
        by_cases hxy : x < y
        · by_cases hyz : y < z
          · have : x < z := by simp [UInt8.lt_iff_toNat_lt] at *; omega
            simp [this]
          · by_cases hzy : z < y
            · simp [hyz, hzy] at h2
            · have := u8_trichotomy y z hyz hzy; subst this; simp [hxy]
        · by_cases hyx : y < x
          · simp [hxy, hyx] at h1
          · have := u8_trichotomy x y hxy hyx; subst this
            by_cases hyz : x < z
            · simp [hyz]
            · by_cases hzy : z < x
              · simp [hyz, hzy] at h2
              · simp only [hxy, hyz, hzy, if_false] at h1 h2 ⊢
                exact ih h1 h2

theorem bcmp_append_left (p a b : Bytes) : bcmp (p ++ a) (p ++ b) = bcmp a b := by
  induction p with
  | nil => rfl
  | cons x xs ih => simp [bcmp, u8_lt_irrefl, ih]

theorem bcmp_nil_left (b : Bytes) : bcmp [] b = .lt ∨ b = [] := by
  cases b <;> simp [bcmp]

theorem bcmp_total (a b : Bytes) : bcmp a b = .lt ∨ a = b ∨ bcmp b a = .lt := by
  cases h : bcmp a b with
  | lt => exact .inl rfl
  | eq => exact .inr (.inl (bcmp_eq_iff.mp h))
  | gt => exact .inr (.inr ((bcmp_gt_iff_lt a b).mp h))

end GV
