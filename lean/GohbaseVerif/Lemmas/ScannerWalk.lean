import GohbaseVerif.Lemmas.ScannerStream
import GohbaseVerif.Lemmas.ScannerLease
import GohbaseVerif.Lemmas.ScannerGeom
/-!
The region walk against a conforming server: if the server accepts the conversation the walk
produces (`Srv.run`), the fragments it delivered are a fragmentation of exactly the rows of the
range, in scan order (`walk_chunk`).
-/
namespace GV.Scanner
open GV

/-! ## the exchanges of a walk, oldest first -/

def closeEx (sc : Scan) (s : St) : List Exch :=
  if s.closed then [] else
  match s.curId with
  | none => []
  | some id => if sc.closing then [] else [⟨closeReq { s with closed := true } id, none⟩]

theorem closeEx_reverse (sc : Scan) (s : St) : (closeEx sc s).reverse = closeEx sc s := by
  unfold closeEx
  split
  · rfl
  · split
    · rfl
    · split <;> rfl

theorem close_log (sc : Scan) (s : St) : (close sc s).log = closeEx sc s ++ s.log := by
  unfold close closeEx closeRegionScanner
  by_cases hc : s.closed = true
  · simp [hc]
  · simp only [hc, Bool.false_eq_true, if_false]
    cases s.curId with
    | none => rfl
    | some id =>
      simp only []
      by_cases hcl : sc.closing = true <;> simp [hcl]

def respEx (sc : Scan) (s : St) (g : Region) (r : Resp) : List Exch :=
  let s2 := update sc (logged sc s (.resp g r)) r g
  ⟨mkReq sc s, some (.resp g r)⟩ :: (if isDone sc s2 r g then closeEx sc s2 else [])

theorem onResp_log (sc : Scan) (s : St) (g : Region) (r : Resp) :
    (onResp sc s g r).log.reverse = s.log.reverse ++ respEx sc s g r := by
  rw [onResp_eq]
  unfold respEx
  simp only []
  split
  · rw [close_log, update_log]
    simp [logged, closeEx_reverse]
  · rw [update_log]
    simp [logged]

def errEx (sc : Scan) (s : St) (c : String) : List Exch :=
  ⟨mkReq sc s, some (.err c)⟩ :: closeEx sc (logged sc s (.err c))

def pullEx (sc : Scan) : List Reply → St → List Exch
  | [], s => if s.closed then [] else errEx sc s "starved"
  | rp :: rest, s =>
    if s.closed then [] else
    match rp with
    | .err c => errEx sc s c
    | .resp g r => respEx sc s g r ++ pullEx sc rest (onResp sc s g r)

theorem onErr_log (sc : Scan) (s : St) (c : String) :
    (onErr sc s (some (.err c))).log.reverse = s.log.reverse ++ errEx sc s c := by
  rw [onErr_eq, close_log]
  simp [errEx, logged, closeEx_reverse]

theorem pull_log (sc : Scan) (R : List Reply) (s : St) :
    (pull sc R s).fin.log.reverse = s.log.reverse ++ pullEx sc R s := by
  induction R generalizing s with
  | nil =>
    unfold pull pullEx
    by_cases h : s.closed = true
    · simp [h]
    · simp only [h, Bool.false_eq_true, if_false]
      exact onErr_log sc s _
  | cons rp rest ih =>
    unfold pull pullEx
    by_cases h : s.closed = true
    · simp [h]
    · simp only [h, Bool.false_eq_true, if_false]
      cases rp with
      | err c => exact onErr_log sc s c
      | resp g r =>
        simp only []
        rw [ih, onResp_log, List.append_assoc]

/-! ## `Srv.run` -/

theorem srvRun_append (table : List Row) (splits : List Bytes) (sc : Scan) (v : Srv) (a b : List Exch) :
    Srv.run table splits sc v (a ++ b) =
      (Srv.run table splits sc v a).bind (fun v' => Srv.run table splits sc v' b) := by
  induction a generalizing v with
  | nil => rfl
  | cons e es ih =>
    simp only [List.cons_append, Srv.run]
    cases Srv.step table splits sc v e with
    | none => rfl
    | some v' => exact ih v'

theorem srvStep_err (table : List Row) (splits : List Bytes) (sc : Scan) (v : Srv) (s : St) (c : String) :
    Srv.step table splits sc v ⟨mkReq sc s, some (.err c)⟩ = none := by
  unfold Srv.step mkReq
  cases s.curId <;> rfl

theorem srvRun_errEx (table : List Row) (splits : List Bytes) (sc : Scan) (v : Srv) (s : St) (c : String)
    (rest : List Exch) : Srv.run table splits sc v (errEx sc s c ++ rest) = none := by
  simp [errEx, Srv.run, srvStep_err]

/-! ## chunk -/

theorem chunk_append (T U : List (List Cell)) (fs : List Frag) (T' : List (List Cell))
    (h : chunk T fs = some T') : chunk (T ++ U) fs = some (T' ++ U) := by
  induction fs generalizing T with
  | nil =>
    have : chunk T [] = some T := by cases T <;> rfl
    rw [this] at h; injection h with h; subst h
    cases T <;> cases U <;> rfl
  | cons f fs ih =>
    cases T with
    | nil => simp [chunk] at h
    | cons row T1 =>
      simp only [List.cons_append, chunk] at h ⊢
      split at h
      · cases h
      · rename_i hfe
        simp only [hfe, if_false]
        split at h
        · rename_i hp
          simp only [hp, if_true]
          split at h
          · rename_i hc
            simp only [hc, and_self, if_true]
            exact ih _ h
          · cases h
        · rename_i hp
          simp only [hp, if_false]
          split at h
          · rename_i hc
            simp only [hc, if_true]
            exact ih _ h
          · cases h

theorem chunk_trans (T : List (List Cell)) (fs gs : List Frag) (T' : List (List Cell))
    (h : chunk T fs = some T') : chunk T (fs ++ gs) = chunk T' gs := by
  induction fs generalizing T with
  | nil =>
    have : chunk T [] = some T := by cases T <;> rfl
    rw [this] at h; injection h with h; subst h; rfl
  | cons f fs ih =>
    cases T with
    | nil => simp [chunk] at h
    | cons row T1 =>
      simp only [List.cons_append, chunk] at h ⊢
      split at h
      · cases h
      · rename_i hfe
        simp only [hfe, if_false]
        split at h
        · rename_i hp
          simp only [hp, if_true]
          split at h
          · rename_i hc
            simp only [hc, and_self, if_true]
            exact ih _ h
          · cases h
        · rename_i hp
          simp only [hp, if_false]
          split at h
          · rename_i hc
            simp only [hc, if_true]
            exact ih _ h
          · cases h

/-! ## what `onResp` does, case by case (scan without `CloseScanner`) -/

/-- Start row of the next open request after region `g` is finished. -/
def nextStart (sc : Scan) (g : Region) : Bytes :=
  if !sc.reversed then g.stop else if g.start = [] then g.start else prevKey g.start

/-- The part of `isDone` that depends on the region only. -/
def geoDone (sc : Scan) (g : Region) : Bool :=
  if g.stop = [] && !sc.reversed then true
  else if sc.reversed && g.start = [] then true
  else if !sc.reversed then sc.stop ≠ [] && bcmp sc.stop g.stop != .gt
  else sc.stop ≠ [] && bcmp sc.stop g.start != .lt

theorem onResp_eval (sc : Scan) (s : St) (g : Region) (r : Resp) (id : Nat)
    (hcl : sc.closing = false) (hc : s.closed = false)
    (hcur : (s.curId = none ∧ r.scannerId = some id) ∨ s.curId = some id) :
    onResp sc s g r =
      if r.moreInRegion then
        if r.moreResults then { s with curId := some id, log := ⟨mkReq sc s, some (.resp g r)⟩ :: s.log }
        else { s with curId := none, closed := true,
                      log := ⟨⟨.close, s.startRow, [], some id, true, 0⟩, none⟩ ::
                             ⟨mkReq sc s, some (.resp g r)⟩ :: s.log }
      else
        if !r.moreResults || geoDone sc g
        then { s with curId := none, startRow := nextStart sc g, closed := true,
                      log := ⟨mkReq sc s, some (.resp g r)⟩ :: s.log }
        else { s with curId := none, startRow := nextStart sc g,
                      log := ⟨mkReq sc s, some (.resp g r)⟩ :: s.log } := by
  have hs1 : update sc { s with log := ⟨mkReq sc s, some (.resp g r)⟩ :: s.log } r g =
      updateRow sc { s with curId := some id, log := ⟨mkReq sc s, some (.resp g r)⟩ :: s.log } r g := by
    unfold update
    rcases hcur with ⟨h1, h2⟩ | h1
    · simp only [h1, h2]
    · cases h2 : r.scannerId <;> simp only [h1]
  unfold onResp
  simp only []
  rw [hs1]
  by_cases hmi : r.moreInRegion = true
  · simp only [updateRow, hmi, if_true]
    by_cases hmr : r.moreResults = true
    · simp [isDone, hmr]
    · simp [isDone, hmr, close, closeRegionScanner, hc, hcl, closeReq]
  · simp only [updateRow, hmi, Bool.false_eq_true, if_false]
    by_cases hrev : sc.reversed = true
    · by_cases hst : g.start = []
      · by_cases hmr : r.moreResults = true <;>
          simp [isDone, hrev, hst, hmr, close, closeRegionScanner, hc, nextStart, geoDone]
      · by_cases hmr : r.moreResults = true
        · by_cases hd : (¬sc.stop = [] ∧ ¬bcmp sc.stop g.start = Ordering.lt)
          · simp [isDone, hrev, hst, hmr, close, closeRegionScanner, hc, nextStart, geoDone, hd]
          · simp [isDone, hrev, hst, hmr, nextStart, geoDone, hd]
        · simp [isDone, hrev, hst, hmr, close, closeRegionScanner, hc, nextStart]
    · by_cases hmr : r.moreResults = true
      · by_cases hst : g.stop = []
        · simp [isDone, hrev, hst, hmr, close, closeRegionScanner, hc, nextStart, geoDone]
        · by_cases hd : (¬sc.stop = [] ∧ ¬bcmp sc.stop g.stop = Ordering.gt)
          · simp [isDone, hrev, hst, hmr, close, closeRegionScanner, hc, nextStart, geoDone, hd]
          · simp [isDone, hrev, hst, hmr, nextStart, geoDone, hd]
      · simp [isDone, hrev, hmr, close, closeRegionScanner, hc, nextStart]

theorem respEx_eval (sc : Scan) (s : St) (g : Region) (r : Resp) (id : Nat)
    (hcl : sc.closing = false) (hc : s.closed = false)
    (hcur : (s.curId = none ∧ r.scannerId = some id) ∨ s.curId = some id) :
    respEx sc s g r = ⟨mkReq sc s, some (.resp g r)⟩ ::
      (if r.moreInRegion && !r.moreResults then [⟨⟨.close, s.startRow, [], some id, true, 0⟩, none⟩] else []) := by
  have h1 := onResp_log sc s g r
  rw [onResp_eval sc s g r id hcl hc hcur] at h1
  by_cases hmi : r.moreInRegion = true
  · by_cases hmr : r.moreResults = true
    · simp only [hmi, hmr, if_true, List.reverse_cons, List.append_assoc] at h1
      have := List.append_cancel_left h1
      simp [hmi, hmr, ← this]
    · simp only [hmi, hmr, if_true, Bool.false_eq_true, if_false, List.reverse_cons, List.append_assoc] at h1
      have := List.append_cancel_left h1
      simp [hmi, hmr, ← this]
  · by_cases hd : (!r.moreResults || geoDone sc g) = true
    · simp only [hmi, hd, if_true, Bool.false_eq_true, if_false, List.reverse_cons, List.append_assoc] at h1
      have := List.append_cancel_left h1
      simp [hmi, ← this]
    · simp only [hmi, hd, Bool.false_eq_true, if_false, List.reverse_cons, List.append_assoc] at h1
      have := List.append_cancel_left h1
      simp [hmi, ← this]

/-! ## the server's side of one exchange -/

section
variable (table : List Row) (splits : List Bytes) (sc : Scan)

theorem srvStep_open (s : St) (v v1 : Srv) (g1 : Region) (r : Resp)
    (hcur : s.curId = none) (hcl : sc.closing = false)
    (h : Srv.step table splits sc v ⟨mkReq sc s, some (.resp g1 r)⟩ = some v1) :
    ∃ id p, locate splits s.startRow = some g1 ∧ r.scannerId = some id ∧
      chunk ((regionRows table g1 sc.reversed s.startRow sc.stop).map Row.frag) r.results = some p ∧
      flagsOk r p (beyond table g1 sc.reversed s.startRow sc.stop).isEmpty = true ∧
      v1.scanners = if r.moreInRegion
        then ⟨id, g1, p, (beyond table g1 sc.reversed s.startRow sc.stop).isEmpty⟩ :: v.scanners
        else v.scanners := by
  rw [mkReq_kind_none sc s hcur] at h
  simp only [Srv.step] at h
  split at h
  · rename_i g' id hl hid
    split at h
    · rename_i hg
      obtain ⟨hg1, _⟩ := hg
      subst hg1
      split at h
      · rename_i p hch
        split at h
        · rename_i hfl
          refine ⟨id, p, hl, hid, hch, hfl, ?_⟩
          split at h
          · rename_i hmi
            injection h with h; subst h
            simp only [hcl, Bool.not_false, Bool.and_true] at hmi
            simp [hmi]
          · rename_i hmi
            injection h with h; subst h
            simp only [hcl, Bool.not_false, Bool.and_true] at hmi
            simp [hmi]
        · cases h
      · cases h
    · cases h
  · cases h

theorem srvStep_cont (s : St) (v v1 : Srv) (g1 : Region) (r : Resp) (id : Nat) (x : SrvScanner)
    (hcur : s.curId = some id) (hv : v.scanners = [x]) (hx : x.id = id)
    (h : Srv.step table splits sc v ⟨mkReq sc s, some (.resp g1 r)⟩ = some v1) :
    x.reg = g1 ∧ ∃ p, chunk x.pending r.results = some p ∧ flagsOk r p x.last = true ∧
      v1.scanners = if r.moreInRegion then [{ x with pending := p }] else [] := by
  rw [mkReq_kind_some sc s id hcur] at h
  simp only [Srv.step, hv] at h
  have hf : List.find? (fun y => some y.id == some id) [x] = some x := by
    simp [List.find?, hx]
  rw [hf] at h
  simp only [] at h
  split at h
  · rename_i hreg
    refine ⟨hreg, ?_⟩
    split at h
    · rename_i p hch
      split at h
      · rename_i hfl
        refine ⟨p, hch, hfl, ?_⟩
        have hoth : List.filter (fun y => y.id != x.id) [x] = [] := by simp
        split at h
        · rename_i hmi
          injection h with h; subst h
          simp only [Bool.not_false, Bool.and_true] at hmi
          simp [hmi, hoth]
        · rename_i hmi
          injection h with h; subst h
          simp only [Bool.not_false, Bool.and_true] at hmi
          simp [hmi, hoth]
      · cases h
    · cases h
  · cases h

theorem srvStep_close (v : Srv) (q : Req) (hk : q.kind = .close) :
    ∃ v1, Srv.step table splits sc v ⟨q, none⟩ = some v1 := by
  obtain ⟨k, a, b, i, c, n⟩ := q
  simp only at hk; subst hk
  exact ⟨_, rfl⟩

end

/-! ## the invariant of the walk and the main induction -/

structure WalkHyps (table : List Row) (splits : List Bytes) (sc : Scan) : Prop where
  splitsOk : splitsOk [] splits = true
  sorted : sortedKeys table = true
  keys : ∀ r ∈ table, r.key ≠ [] ∧ hasPadding r.key = false
  notClosing : sc.closing = false

/-- `T` = the cell rows still to be delivered when the scanner is in state `s` and the server
    in state `v`. -/
def WalkInv (table : List Row) (splits : List Bytes) (sc : Scan) (s : St) (v : Srv)
    (T : List (List Cell)) : Prop :=
  (s.closed = true ∧ T = []) ∨
  (s.closed = false ∧ ∃ g, locate splits s.startRow = some g ∧
    ((s.curId = none ∧ v.scanners = [] ∧
        T = (regionRows table g sc.reversed s.startRow sc.stop ++
             beyond table g sc.reversed s.startRow sc.stop).map Row.frag) ∨
     (∃ id p, s.curId = some id ∧
        v.scanners = [⟨id, g, p, (beyond table g sc.reversed s.startRow sc.stop).isEmpty⟩] ∧
        T = p ++ (beyond table g sc.reversed s.startRow sc.stop).map Row.frag)))

theorem geoDone_beyond {table : List Row} {sc : Scan} (g : Region) (k : Bytes)
    (hd : geoDone sc g = true) : beyond table g sc.reversed k sc.stop = [] := by
  cases hrev : sc.reversed with
  | false =>
    apply fwd_done
    by_cases hst : g.stop = []
    · exact .inl hst
    · right
      have : sc.stop ≠ [] ∧ bcmp sc.stop g.stop ≠ .gt := by simpa [geoDone, hrev, hst] using hd
      exact ⟨this.1, ble_iff.mpr this.2⟩
  | true =>
    apply rev_done
    by_cases hst : g.start = []
    · exact .inl hst
    · right
      have : sc.stop ≠ [] ∧ bcmp sc.stop g.start ≠ .lt := by simpa [geoDone, hrev, hst] using hd
      refine ⟨this.1, ble_iff.mpr ?_⟩
      intro hgt
      exact this.2 ((bcmp_gt_iff_lt _ _).mp hgt)

theorem after_resp {table : List Row} {splits : List Bytes} {sc : Scan} (H : WalkHyps table splits sc)
    (s : St) (g : Region) (r : Resp) (id : Nat) (p : List (List Cell))
    (hc : s.closed = false)
    (hcur : (s.curId = none ∧ r.scannerId = some id) ∨ s.curId = some id)
    (hloc : locate splits s.startRow = some g)
    (hfl : flagsOk r p (beyond table g sc.reversed s.startRow sc.stop).isEmpty = true)
    (v1 : Srv)
    (hv1 : v1.scanners = if r.moreInRegion
      then [⟨id, g, p, (beyond table g sc.reversed s.startRow sc.stop).isEmpty⟩] else [])
    (rest : List Exch) (v' : Srv)
    (hrun : Srv.run table splits sc v1 ((respEx sc s g r).tail ++ rest) = some v') :
    ∃ v2, Srv.run table splits sc v2 rest = some v' ∧
      WalkInv table splits sc (onResp sc s g r) v2
        (p ++ (beyond table g sc.reversed s.startRow sc.stop).map Row.frag) := by
  rw [respEx_eval sc s g r id H.notClosing hc hcur] at hrun
  rw [onResp_eval sc s g r id H.notClosing hc hcur]
  simp only [List.tail_cons] at hrun
  simp only [flagsOk, Bool.and_eq_true, Bool.or_eq_true, beq_iff_eq] at hfl
  obtain ⟨hhas, hgmem⟩ := locate_has hloc
  by_cases hmi : r.moreInRegion = true
  · by_cases hmr : r.moreResults = true
    · -- more to come from this region
      simp only [hmi, hmr, Bool.not_true, Bool.and_false, Bool.false_eq_true, if_false, List.nil_append] at hrun
      simp only [hmi, hmr, if_true]
      refine ⟨v1, hrun, .inr ⟨hc, g, hloc, .inr ⟨id, p, rfl, ?_, rfl⟩⟩⟩
      simpa [hmi] using hv1
    · -- "no more results" with the region scanner still open: the client closes it
      simp only [hmi, hmr, Bool.not_false, Bool.and_self, if_true, List.cons_append, List.nil_append,
        Srv.run] at hrun
      simp only [hmi, hmr, if_true, Bool.false_eq_true, if_false]
      obtain ⟨v1', hv1'⟩ := srvStep_close table splits sc v1 ⟨.close, s.startRow, [], some id, true, 0⟩ rfl
      rw [hv1'] at hrun
      refine ⟨v1', hrun, .inl ⟨rfl, ?_⟩⟩
      rcases hfl.2 with h | ⟨h1, h2⟩
      · exact absurd h hmr
      · subst h1
        simp [List.isEmpty_iff.mp h2]
  · -- the region is finished
    have hp : p = [] := by
      rcases hfl.1 with h | h
      · exact absurd h hmi
      · exact h
    subst hp
    simp only [hmi, Bool.false_and, Bool.false_eq_true, if_false, List.nil_append] at hrun
    simp only [hmi, Bool.false_eq_true, if_false, List.nil_append]
    have hv1s : v1.scanners = [] := by simpa [hmi] using hv1
    by_cases hd : (!r.moreResults || geoDone sc g) = true
    · simp only [hd, if_true]
      refine ⟨v1, hrun, .inl ⟨rfl, ?_⟩⟩
      simp only [Bool.or_eq_true, Bool.not_eq_true'] at hd
      rcases hd with hd | hd
      · rcases hfl.2 with h | ⟨_, h2⟩
        · rw [hd] at h; cases h
        · simp [List.isEmpty_iff.mp h2]
      · rw [geoDone_beyond g s.startRow hd]; rfl
    · simp only [hd, Bool.false_eq_true, if_false]
      simp only [Bool.or_eq_true, Bool.not_eq_true', not_or, Bool.not_eq_false, Bool.not_eq_true] at hd
      obtain ⟨g', hloc'⟩ := locate_total splits (nextStart sc g)
      refine ⟨v1, hrun, .inr ⟨hc, g', hloc', .inl ⟨rfl, hv1s, ?_⟩⟩⟩
      congr 1
      cases hrev : sc.reversed with
      | false =>
        have hstop : g.stop ≠ [] := by
          intro e
          have := hd.2
          simp [geoDone, e, hrev] at this
        have hns : nextStart sc g = g.stop := by simp [nextStart, hrev]
        rw [hns] at hloc' ⊢
        show beyond table g false s.startRow sc.stop =
          regionRows table g' false g.stop sc.stop ++ beyond table g' false g.stop sc.stop
        rw [fwd_beyond table g s.startRow sc.stop hhas hstop,
          fwd_split table H.sorted g' g.stop sc.stop (locate_has hloc').1]
      | true =>
        have hstart : g.start ≠ [] := by
          intro e
          have := hd.2
          simp [geoDone, e, hrev] at this
        have hns : nextStart sc g = prevKey g.start := by simp [nextStart, hrev, hstart]
        rw [hns] at hloc' ⊢
        show beyond table g true s.startRow sc.stop =
          regionRows table g' true (prevKey g.start) sc.stop ++ beyond table g' true (prevKey g.start) sc.stop
        exact (rev_next table H.sorted splits H.splitsOk H.keys g hgmem s.startRow sc.stop hhas hstart g'
          hloc').symm

/-- If a conforming server accepts the walk's conversation, the walk ends cleanly and the
    fragments it received are a fragmentation of exactly the rows still to be delivered. -/
theorem walk_chunk {table : List Row} {splits : List Bytes} {sc : Scan} (H : WalkHyps table splits sc)
    (R : List Reply) (s : St) (v v' : Srv) (T : List (List Cell))
    (hinv : WalkInv table splits sc s v T)
    (hrun : Srv.run table splits sc v (pullEx sc R s) = some v') :
    (pull sc R s).ok = true ∧ chunk T (pull sc R s).frags = some [] := by
  induction R generalizing s v T with
  | nil =>
    unfold pull
    unfold pullEx at hrun
    by_cases hc : s.closed = true
    · rcases hinv with ⟨_, hT⟩ | ⟨hc', _⟩
      · subst hT; simp [hc, chunk]
      · rw [hc] at hc'; cases hc'
    · simp only [hc, Bool.false_eq_true, if_false] at hrun
      have := srvRun_errEx table splits sc v s "starved" []
      rw [List.append_nil] at this
      rw [this] at hrun; cases hrun
  | cons rp rest ih =>
    unfold pull
    unfold pullEx at hrun
    by_cases hc : s.closed = true
    · rcases hinv with ⟨_, hT⟩ | ⟨hc', _⟩
      · subst hT; simp [hc, chunk]
      · rw [hc] at hc'; cases hc'
    · simp only [hc, Bool.false_eq_true, if_false] at hrun ⊢
      have hcf : s.closed = false := by simpa using hc
      cases rp with
      | err c =>
        simp only [] at hrun
        have := srvRun_errEx table splits sc v s c []
        rw [List.append_nil] at this
        rw [this] at hrun; cases hrun
      | resp g1 r =>
        simp only [] at hrun ⊢
        rcases hinv with ⟨hc', _⟩ | ⟨_, g, hloc, hcase⟩
        · exact absurd hc' hc
        · -- split the first exchange off
          have hre : respEx sc s g1 r = ⟨mkReq sc s, some (.resp g1 r)⟩ :: (respEx sc s g1 r).tail := by
            simp [respEx]
          rw [hre, List.cons_append, Srv.run] at hrun
          cases hst : Srv.step table splits sc v ⟨mkReq sc s, some (.resp g1 r)⟩ with
          | none => rw [hst] at hrun; cases hrun
          | some v1 =>
            rw [hst] at hrun
            simp only [] at hrun
            rcases hcase with ⟨hcur, hvs, hT⟩ | ⟨id, p0, hcur, hvs, hT⟩
            · -- open request
              obtain ⟨id, p, hl, hid, hch, hfl, hv1⟩ :=
                srvStep_open table splits sc s v v1 g1 r hcur H.notClosing hst
              have hg : g = g1 := by rw [hloc] at hl; injection hl
              subst hg
              rw [hvs] at hv1
              obtain ⟨v2, hrun2, hinv2⟩ := after_resp H s g r id p hcf (.inl ⟨hcur, hid⟩) hloc hfl v1 hv1
                _ v' hrun
              obtain ⟨hok, hchunk⟩ := ih _ _ _ hinv2 hrun2
              refine ⟨hok, ?_⟩
              rw [hT, List.map_append]
              rw [chunk_trans _ _ _ _ (chunk_append _ _ _ _ hch)]
              exact hchunk
            · -- continue request
              obtain ⟨hreg, p, hch, hfl, hv1⟩ :=
                srvStep_cont table splits sc s v v1 g1 r id _ hcur hvs rfl hst
              simp only [] at hreg hch hfl hv1
              subst hreg
              obtain ⟨v2, hrun2, hinv2⟩ := after_resp H s g r id p hcf (.inr hcur) hloc hfl v1 hv1
                _ v' hrun
              obtain ⟨hok, hchunk⟩ := ih _ _ _ hinv2 hrun2
              refine ⟨hok, ?_⟩
              rw [hT]
              rw [chunk_trans _ _ _ _ (chunk_append _ _ _ _ hch)]
              exact hchunk

end GV.Scanner
