import GohbaseVerif.Lemmas.ScannerWalk
import GohbaseVerif.Lemmas.ScannerRows
/-!
Glue for `scan_exact`: the property's hypotheses (`ScanHyps`) give the walk's hypotheses, the
rows in range are well-formed (`RowsOk`), a fresh scanner has exactly them to deliver, and a
conforming conversation of a complete run delivers a fragmentation of them.
-/
namespace GV.Scanner
open GV

theorem ScanHyps.walk {table : List Row} {splits : List Bytes} {sc : Scan} (H : ScanHyps table splits sc) :
    WalkHyps table splits sc := ⟨H.splitsOk, H.sorted, H.keys, H.notClosing⟩

theorem rowOk_frag (r : Row) (h : r.cells ≠ []) : RowOk r.key r.frag := by
  refine ⟨by simpa [Row.frag] using h, ?_⟩
  intro c hc
  simp only [Row.frag, List.mem_map] at hc
  obtain ⟨q, _, rfl⟩ := hc
  rfl

theorem rowsOk_frags (l : List Row) (hp : l.Pairwise (fun a b => a.key ≠ b.key))
    (hc : ∀ r ∈ l, r.cells ≠ []) : RowsOk (l.map Row.frag) := by
  induction l with
  | nil => trivial
  | cons r rest ih =>
    rw [List.pairwise_cons] at hp
    refine ⟨⟨r.key, rowOk_frag r (hc r (by simp)), ?_⟩, ih hp.2 (fun x hx => hc x (by simp [hx]))⟩
    intro r' hr' hok
    cases rest with
    | nil => simp at hr'
    | cons r2 rest2 =>
      simp only [List.map_cons, List.head?_cons, Option.mem_def, Option.some.injEq] at hr'
      subst hr'
      have := rowOk_key_unique hok (rowOk_frag r2 (hc r2 (by simp)))
      exact hp.1 r2 (by simp) this

theorem inRange_rowsOk {table : List Row} {splits : List Bytes} {sc : Scan} (H : ScanHyps table splits sc) :
    RowsOk ((inRange sc table).map Row.frag) := by
  apply rowsOk_frags
  · unfold inRange
    apply List.Pairwise.filter
    apply (scanOrder_pairwise sc.reversed table H.sorted).imp
    intro a b hab e
    unfold scanLt at hab
    rw [e] at hab
    split at hab <;> (rw [blt_irrefl] at hab; cases hab)
  · intro r hr
    unfold inRange at hr
    exact H.cells r (mem_scanOrder.mp (List.mem_filter.mp hr).1)

/-- The walk started by a fresh scanner has all rows of the range to deliver. -/
theorem walkInv_init {table : List Row} {splits : List Bytes} {sc : Scan} (H : ScanHyps table splits sc) :
    WalkInv table splits sc (St.init sc) Srv.init ((inRange sc table).map Row.frag) := by
  obtain ⟨g, hg⟩ := locate_total splits sc.start
  refine .inr ⟨rfl, g, hg, .inl ⟨rfl, rfl, ?_⟩⟩
  congr 1
  show inRange sc table = regionRows table g sc.reversed sc.start sc.stop ++ beyond table g sc.reversed sc.start sc.stop
  unfold inRange
  cases hrev : sc.reversed with
  | false => rw [fwd_split table H.sorted g sc.start sc.stop (locate_has hg).1]; rfl
  | true => rw [rev_split table H.sorted g sc.start sc.stop (locate_has hg).1 (H.revStart hrev)]; rfl

/-- What a complete run fetched: a clean end, and a fragmentation of exactly the rows in range. -/
theorem conforming_walk {table : List Row} {splits : List Bytes} {sc : Scan} (H : ScanHyps table splits sc)
    (R : List Reply) (hconf : Conforming table splits sc (collect sc R).2.1.log.reverse) :
    (pull sc R (St.init sc)).ok = true ∧
      chunk ((inRange sc table).map Row.frag) (pull sc R (St.init sc)).frags = some [] := by
  unfold Conforming at hconf
  rw [collect_log, pull_log] at hconf
  simp only [St.init, List.reverse_nil, List.nil_append] at hconf
  obtain ⟨v', hv'⟩ := Option.isSome_iff_exists.mp hconf
  exact walk_chunk H.walk R (St.init sc) Srv.init v' _ (walkInv_init H) hv'


end GV.Scanner
