import GohbaseVerif.Model.RegionName
import GohbaseVerif.Lemmas.Bcmp
/-! Helper lemmas for C16: each phase of `compareName` against `bcmp`. -/
namespace GV.RegionName
open GV

theorem signOf_sub (x y : UInt8) (h : x ≠ y) :
    signOf ((x.toNat : Int) - (y.toNat : Int)) = if x < y then .lt else .gt := by
  have hne : x.toNat ≠ y.toNat := fun e => h (UInt8.toNat_inj.mp e)
  unfold signOf
  by_cases hlt : x < y
  · have : x.toNat < y.toNat := UInt8.lt_iff_toNat_lt.mp hlt
    simp [hlt]; omega
  · have : ¬ x.toNat < y.toNat := fun e => hlt (UInt8.lt_iff_toNat_lt.mpr e)
    have h1 : ¬ ((x.toNat : Int) - (y.toNat : Int) < 0) := by omega
    have h2 : (0 : Int) < (x.toNat : Int) - (y.toNat : Int) := by omega
    simp [hlt, h1]
    omega

/-- `cmpPrefix` + length tie-break is `bcmp`. -/
theorem cmpPrefix_bcmp (a b : Bytes) :
    bcmp a b = match cmpPrefix a b with
      | some d => signOf d
      | none => if a.length < b.length then .lt else if b.length < a.length then .gt else .eq := by
  induction a generalizing b with
  | nil => cases b <;> simp [bcmp, cmpPrefix]
  | cons x xs ih =>
    cases b with
    | nil => simp [bcmp, cmpPrefix]
    | cons y ys =>
      by_cases hxy : x = y
      · subst hxy
        simp only [bcmp, cmpPrefix, u8_lt_irrefl, if_false, ne_eq, not_true_eq_false]
        rw [ih ys]
        simp only [List.length_cons, Nat.add_lt_add_iff_right]
      · simp only [bcmp, cmpPrefix, ne_eq, hxy, not_false_eq_true, if_true]
        rw [signOf_sub x y hxy]
        by_cases hlt : x < y
        · simp [hlt]
        · have : y < x := by
            have hne : x.toNat ≠ y.toNat := fun e => hxy (UInt8.toNat_inj.mp e)
            simp [UInt8.lt_iff_toNat_lt] at *; omega
          simp [hlt, this]

theorem cmpPrefix_some_ne {a b : Bytes} {d : Int} (h : cmpPrefix a b = some d) :
    signOf d ≠ .eq := by
  induction a generalizing b with
  | nil => cases b <;> simp [cmpPrefix] at h
  | cons x xs ih =>
    cases b with
    | nil => simp [cmpPrefix] at h
    | cons y ys =>
      simp only [cmpPrefix] at h
      split at h
      · rename_i hxy
        injection h with h; subst h
        rw [signOf_sub x y hxy]; split <;> simp
      · exact ih h

theorem cmpPrefix_none_eq_len {a b : Bytes} (h : cmpPrefix a b = none)
    (hl : a.length = b.length) : a = b := by
  have := cmpPrefix_bcmp a b
  rw [h] at this
  simp [hl] at this
  exact bcmp_eq_iff.mp this

/-- Phase 1 on `t₁,r₁` vs `t₂,r₂` with comma-free tables. -/
theorem phase1_tables (t1 t2 r1 r2 : Bytes) (h1 : comma ∉ t1) (h2 : comma ∉ t2) :
    (bcmp t1 t2 = .eq ∧ phase1 (t1 ++ comma :: r1) (t2 ++ comma :: r2) = .same r1 r2) ∨
    (∃ d, phase1 (t1 ++ comma :: r1) (t2 ++ comma :: r2) = .done d ∧ signOf d = bcmp t1 t2 ∧
      bcmp t1 t2 ≠ .eq) := by
  induction t1 generalizing t2 with
  | nil =>
    cases t2 with
    | nil => left; simp [phase1, bcmp]
    | cons y ys =>
      right
      have hy : y ≠ comma := fun e => h2 (by simp [e])
      have hy' : ¬ comma = y := fun e => hy e.symm
      refine ⟨-1001, ?_, ?_, ?_⟩ <;> simp [phase1, bcmp, hy', signOf]
  | cons x xs ih =>
    have hx : x ≠ comma := fun e => h1 (by simp [e])
    have hxs : comma ∉ xs := fun e => h1 (by simp [e])
    cases t2 with
    | nil =>
      right
      refine ⟨1001, ?_, ?_, ?_⟩ <;> simp [phase1, bcmp, hx, signOf]
    | cons y ys =>
      have hy : y ≠ comma := fun e => h2 (by simp [e])
      have hys : comma ∉ ys := fun e => h2 (by simp [e])
      by_cases hxy : x = y
      · subst hxy
        simp only [List.cons_append, phase1, ne_eq, not_true_eq_false, if_false, hx, bcmp,
          u8_lt_irrefl]
        exact ih ys hxs hys
      · right
        refine ⟨(x.toNat : Int) - (y.toNat : Int), ?_, ?_, ?_⟩
        · simp [phase1, hxy, hx, hy]
        · rw [signOf_sub x y hxy]
          simp only [bcmp]
          by_cases hlt : x < y
          · simp [hlt]
          · have : y < x := by
              have hne : x.toNat ≠ y.toNat := fun e => hxy (UInt8.toNat_inj.mp e)
              simp [UInt8.lt_iff_toNat_lt] at *; omega
            simp [hlt, this]
        · simp only [bcmp]
          by_cases hlt : x < y
          · simp [hlt]
          · have : y < x := by
              have hne : x.toNat ≠ y.toNat := fun e => hxy (UInt8.toNat_inj.mp e)
              simp [UInt8.lt_iff_toNat_lt] at *; omega
            simp [hlt, this]

theorem splitLastComma_nocomma (s : Bytes) (h : comma ∉ s) : splitLastComma s = none := by
  induction s with
  | nil => rfl
  | cons x xs ih =>
    have hx : x ≠ comma := fun e => h (by simp [e])
    have hxs : comma ∉ xs := fun e => h (by simp [e])
    simp [splitLastComma, ih hxs, hx]

theorem splitLastComma_key (k s : Bytes) (h : comma ∉ s) :
    splitLastComma (k ++ comma :: s) = some (k, s) := by
  induction k with
  | nil => simp [splitLastComma, splitLastComma_nocomma s h]
  | cons x xs ih => simp [splitLastComma, ih]

end GV.RegionName
