import GohbaseVerif.Lemmas.Scanner
/-!
Invariants behind C14: a closed scanner has no current region scanner; the region scanners
open at the server are at most the current one; accounting of learnt / exhausted / closed ids.
-/
namespace GV.Scanner
open GV

/-! ## closed → no current region scanner -/

def ClosedNoCur (s : St) : Prop := s.closed = true → s.curId = none

theorem close_curId_closed (sc : Scan) (s : St) (h : ClosedNoCur s) : ClosedNoCur (close sc s) := by
  unfold close
  by_cases hc : s.closed
  · simpa [hc] using h
  · intro _
    simp only [hc, Bool.false_eq_true, if_false]
    exact closeRegionScanner_curId sc _

theorem closedNoCur_stable (sc : Scan) : Stable sc ClosedNoCur where
  buf := fun s rs h => h
  close := fun s h => close_curId_closed sc s h
  err := fun s c _ hc => by intro h; simp [logged, hc] at h
  resp := fun s g r _ hc => by
    intro h
    rw [update_closed] at h
    simp [logged, hc] at h

/-! ## the lease invariant -/

/-- Every region scanner open at the server is the scanner's current one (and there is none at
    all for a scan the user made with `CloseScanner`). -/
def LeaseOk (sc : Scan) (s : St) : Prop :=
  ∀ i ∈ openSet s.log, s.curId = some i ∧ sc.closing = false

theorem mkReq_kind_none (sc : Scan) (s : St) (h : s.curId = none) :
    mkReq sc s = { kind := .open, startRow := s.startRow, stopRow := sc.stop, id := none,
                   closeFlag := sc.closing, nrows := sc.nrows } := by
  simp [mkReq, h]

theorem mkReq_kind_some (sc : Scan) (s : St) (i : Nat) (h : s.curId = some i) :
    mkReq sc s = { kind := .cont, startRow := s.startRow, stopRow := [], id := some i,
                   closeFlag := false, nrows := sc.nrows } := by
  simp [mkReq, h]

theorem updateRow_curId (sc : Scan) (s : St) (r : Resp) (g : Region) :
    (updateRow sc s r g).curId = if r.moreInRegion then s.curId else none := by
  unfold updateRow
  by_cases h : r.moreInRegion
  · simp [h]
  · simp only [h, Bool.false_eq_true, if_false]
    split
    · rfl
    · split <;> rfl

theorem updateRow_log (sc : Scan) (s : St) (r : Resp) (g : Region) :
    (updateRow sc s r g).log = s.log := by
  unfold updateRow
  split
  · rfl
  · simp only []
    split
    · rfl
    · split <;> rfl

theorem update_log (sc : Scan) (s : St) (r : Resp) (g : Region) :
    (update sc s r g).log = s.log := by
  unfold update
  rw [updateRow_log]
  split <;> rfl

theorem update_curId (sc : Scan) (s : St) (r : Resp) (g : Region) :
    (update sc s r g).curId =
      if r.moreInRegion then (match s.curId, r.scannerId with
        | none, some id => some id
        | c, _ => c) else none := by
  unfold update
  rw [updateRow_curId]
  cases h1 : s.curId <;> cases h2 : r.scannerId <;> simp [h1]

theorem leaseOk_stable (sc : Scan) : Stable sc (LeaseOk sc) where
  buf := fun s rs h => h
  close := fun s h => by
    unfold close
    by_cases hc : s.closed
    · simpa [hc] using h
    · simp only [hc, Bool.false_eq_true, if_false]
      unfold closeRegionScanner
      cases hcur : s.curId with
      | none => simpa [LeaseOk, hcur] using h
      | some id =>
        simp only []
        intro i hi
        exfalso
        by_cases hcl : sc.closing
        · simp only [hcl, if_true] at hi
          exact absurd (h i hi).2 (by simp [hcl])
        · simp only [hcl, Bool.false_eq_true, if_false, openSet, openAfter, closeReq] at hi
          rw [List.mem_filter] at hi
          have := (h i hi.1).1
          rw [hcur] at this
          injection this with this
          subst this
          simp at hi
  err := fun s c h _ => by
    intro i hi
    simp only [logged, openSet] at hi ⊢
    cases hcur : s.curId with
    | none =>
      rw [mkReq_kind_none sc s hcur] at hi
      simp only [openAfter] at hi
      exact absurd (h i hi).1 (by simp [hcur])
    | some id =>
      rw [mkReq_kind_some sc s id hcur] at hi
      simp only [openAfter] at hi
      have := h i hi
      rw [hcur] at this
      exact this
  resp := fun s g r h _ => by
    intro i hi
    rw [update_log] at hi
    rw [update_curId]
    simp only [logged, openSet] at hi ⊢
    cases hcur : s.curId with
    | none =>
      have hemp : ∀ j, j ∉ openSet s.log := fun j hj => absurd (h j hj).1 (by simp [hcur])
      rw [mkReq_kind_none sc s hcur] at hi
      simp only [openAfter] at hi
      cases hid : r.scannerId with
      | none => simp only [hid] at hi; exact absurd hi (hemp i)
      | some id =>
        simp only [hid] at hi
        by_cases hcond : (r.moreInRegion && !sc.closing) = true
        · simp only [hcond, if_true, List.mem_cons] at hi
          rcases hi with rfl | hi
          · simp only [Bool.and_eq_true, Bool.not_eq_true'] at hcond
            simp [hcond.1, hcond.2]
          · exact absurd hi (hemp i)
        · simp only [hcond, Bool.false_eq_true, if_false] at hi
          exact absurd hi (hemp i)
    | some id =>
      rw [mkReq_kind_some sc s id hcur] at hi
      simp only [openAfter] at hi
      by_cases hmi : r.moreInRegion = true
      · simp only [hmi, Bool.not_false, Bool.and_self, if_true] at hi ⊢
        have := h i hi
        rw [hcur] at this
        exact this
      · simp only [hmi, Bool.false_and, Bool.false_eq_true, if_false] at hi
        rw [List.mem_filter] at hi
        have := (h i hi.1).1
        rw [hcur] at this
        injection this with this
        subst this
        simp at hi

/-! ## accounting of scanner ids (scans without `CloseScanner`) -/

/-- Each learnt id is in exactly one of three conditions: exhausted at the server and never sent
    a close; sent exactly one close and never reported exhausted; or it is the current one and
    neither. Only learnt ids are ever reported exhausted or closed. -/
structure Account (s : St) : Prop where
  each : ∀ id ∈ learnt s.log,
    (id ∈ exhausted s.log ∧ id ∉ closesSent s.log) ∨
    (id ∉ exhausted s.log ∧ (closesSent s.log).count id = 1 ∧ s.curId ≠ some id) ∨
    (s.curId = some id ∧ id ∉ exhausted s.log ∧ id ∉ closesSent s.log)
  cur : ∀ id, s.curId = some id → id ∈ learnt s.log
  exh : ∀ id ∈ exhausted s.log, id ∈ learnt s.log ∧ s.curId ≠ some id
  cls : ∀ id ∈ closesSent s.log, id ∈ learnt s.log

/-- … as long as the server never hands out the same id twice. -/
def AccountOk (sc : Scan) (s : St) : Prop :=
  sc.closing = false → (learnt s.log).Nodup → Account s

theorem learnt_err (sc : Scan) (s : St) (c : String) (l : List Exch) :
    learnt (⟨mkReq sc s, some (.err c)⟩ :: l) = learnt l := by
  cases hcur : s.curId <;> simp [learnt, mkReq, hcur]

theorem exhausted_err (q : Req) (c : String) (l : List Exch) :
    exhausted (⟨q, some (.err c)⟩ :: l) = exhausted l := by
  simp [exhausted]

theorem closesSent_mkReq (sc : Scan) (s : St) (rp : Option Reply) (l : List Exch) :
    closesSent (⟨mkReq sc s, rp⟩ :: l) = closesSent l := by
  cases hcur : s.curId <;> simp [closesSent, mkReq, hcur]

theorem learnt_resp_open (sc : Scan) (s : St) (g : Region) (r : Resp) (l : List Exch)
    (h : s.curId = none) :
    learnt (⟨mkReq sc s, some (.resp g r)⟩ :: l) = r.scannerId.toList ++ learnt l := by
  simp [learnt, mkReq, h]

theorem learnt_resp_cont (sc : Scan) (s : St) (g : Region) (r : Resp) (l : List Exch) (c : Nat)
    (h : s.curId = some c) :
    learnt (⟨mkReq sc s, some (.resp g r)⟩ :: l) = learnt l := by
  simp [learnt, mkReq, h]

theorem exhausted_resp_open (sc : Scan) (s : St) (g : Region) (r : Resp) (l : List Exch)
    (h : s.curId = none) :
    exhausted (⟨mkReq sc s, some (.resp g r)⟩ :: l) =
      if r.moreInRegion then exhausted l else r.scannerId.toList ++ exhausted l := by
  simp [exhausted, mkReq, h, Exch.subject]

theorem exhausted_resp_cont (sc : Scan) (s : St) (g : Region) (r : Resp) (l : List Exch) (c : Nat)
    (h : s.curId = some c) :
    exhausted (⟨mkReq sc s, some (.resp g r)⟩ :: l) =
      if r.moreInRegion then exhausted l else c :: exhausted l := by
  simp [exhausted, mkReq, h, Exch.subject]

theorem account_err (sc : Scan) (s : St) (c : String) (h : AccountOk sc s) :
    AccountOk sc (logged sc s (.err c)) := by
  intro hcl hnd
  simp only [logged, learnt_err] at hnd
  have A := h hcl hnd
  constructor
  · simpa only [logged, learnt_err, exhausted_err, closesSent_mkReq] using A.each
  · simpa only [logged, learnt_err] using A.cur
  · simpa only [logged, learnt_err, exhausted_err] using A.exh
  · simpa only [logged, learnt_err, closesSent_mkReq] using A.cls

theorem account_resp (sc : Scan) (s : St) (g : Region) (r : Resp) (h : AccountOk sc s) :
    AccountOk sc (update sc (logged sc s (.resp g r)) r g) := by
  intro hcl hnd
  rw [update_log] at hnd
  have hlog : (update sc (logged sc s (.resp g r)) r g).log = ⟨mkReq sc s, some (.resp g r)⟩ :: s.log := by
    rw [update_log]; rfl
  have hcurU := update_curId sc (logged sc s (.resp g r)) r g
  have hlc : (logged sc s (.resp g r)).curId = s.curId := rfl
  rw [hlc] at hcurU
  simp only [logged] at hnd
  cases hcur : s.curId with
  | none =>
    rw [learnt_resp_open sc s g r _ hcur] at hnd
    cases hid : r.scannerId with
    | none =>
      rw [hid] at hnd
      have A := h hcl (by simpa using hnd)
      have hc' : (update sc (logged sc s (.resp g r)) r g).curId = none := by
        rw [hcurU, hcur, hid]; simp
      have hl' : learnt (⟨mkReq sc s, some (.resp g r)⟩ :: s.log) = learnt s.log := by
        rw [learnt_resp_open sc s g r _ hcur, hid]; rfl
      have he' : exhausted (⟨mkReq sc s, some (.resp g r)⟩ :: s.log) = exhausted s.log := by
        rw [exhausted_resp_open sc s g r _ hcur, hid]; simp
      constructor
      · intro id hidm
        rw [hlog, hl'] at hidm
        rw [hlog, he', closesSent_mkReq, hc']
        rcases A.each id hidm with h1 | h2 | h3
        · exact .inl h1
        · exact .inr (.inl ⟨h2.1, h2.2.1, by simp⟩)
        · rw [hcur] at h3; exact absurd h3.1 (by simp)
      · intro id hidm; rw [hc'] at hidm; cases hidm
      · intro id hidm
        rw [hlog, he'] at hidm
        rw [hlog, hl', hc']
        exact ⟨(A.exh id hidm).1, by simp⟩
      · intro id hidm
        rw [hlog, closesSent_mkReq] at hidm
        rw [hlog, hl']
        exact A.cls id hidm
    | some nid =>
      rw [hid] at hnd
      simp only [Option.toList, List.cons_append, List.nil_append, List.nodup_cons] at hnd
      have hfresh := hnd.1
      have A := h hcl hnd.2
      have hl' : learnt (⟨mkReq sc s, some (.resp g r)⟩ :: s.log) = nid :: learnt s.log := by
        rw [learnt_resp_open sc s g r _ hcur, hid]; rfl
      have hne : nid ∉ exhausted s.log := fun hx => hfresh (A.exh nid hx).1
      have hnc : nid ∉ closesSent s.log := fun hx => hfresh (A.cls nid hx)
      by_cases hmi : r.moreInRegion = true
      · have hc' : (update sc (logged sc s (.resp g r)) r g).curId = some nid := by
          rw [hcurU, hcur, hid]; simp [hmi]
        have he' : exhausted (⟨mkReq sc s, some (.resp g r)⟩ :: s.log) = exhausted s.log := by
          rw [exhausted_resp_open sc s g r _ hcur]; simp [hmi]
        constructor
        · intro id hidm
          rw [hlog, hl', List.mem_cons] at hidm
          rw [hlog, he', closesSent_mkReq, hc']
          rcases hidm with rfl | hidm
          · exact .inr (.inr ⟨rfl, hne, hnc⟩)
          · have hneq : id ≠ nid := fun e => hfresh (e ▸ hidm)
            rcases A.each id hidm with h1 | h2 | h3
            · exact .inl h1
            · exact .inr (.inl ⟨h2.1, h2.2.1, by simp; exact fun e => hneq e.symm⟩)
            · rw [hcur] at h3; exact absurd h3.1 (by simp)
        · intro id hidm
          rw [hc'] at hidm; injection hidm with hidm; subst hidm
          rw [hlog, hl']; exact List.mem_cons_self
        · intro id hidm
          rw [hlog, he'] at hidm
          rw [hlog, hl', hc']
          refine ⟨List.mem_cons_of_mem _ (A.exh id hidm).1, ?_⟩
          intro e; injection e with e; subst e
          exact hne hidm
        · intro id hidm
          rw [hlog, closesSent_mkReq] at hidm
          rw [hlog, hl']
          exact List.mem_cons_of_mem _ (A.cls id hidm)
      · have hc' : (update sc (logged sc s (.resp g r)) r g).curId = none := by
          rw [hcurU]; simp [hmi]
        have he' : exhausted (⟨mkReq sc s, some (.resp g r)⟩ :: s.log) = nid :: exhausted s.log := by
          rw [exhausted_resp_open sc s g r _ hcur, hid]; simp [hmi]
        constructor
        · intro id hidm
          rw [hlog, hl', List.mem_cons] at hidm
          rw [hlog, he', closesSent_mkReq, hc']
          rcases hidm with rfl | hidm
          · exact .inl ⟨List.mem_cons_self, hnc⟩
          · have hneq : id ≠ nid := fun e => hfresh (e ▸ hidm)
            rcases A.each id hidm with h1 | h2 | h3
            · exact .inl ⟨List.mem_cons_of_mem _ h1.1, h1.2⟩
            · refine .inr (.inl ⟨?_, h2.2.1, by simp⟩)
              intro hx; rcases List.mem_cons.mp hx with e | hx
              · exact hneq e
              · exact h2.1 hx
            · rw [hcur] at h3; exact absurd h3.1 (by simp)
        · intro id hidm; rw [hc'] at hidm; cases hidm
        · intro id hidm
          rw [hlog, he', List.mem_cons] at hidm
          rw [hlog, hl', hc']
          rcases hidm with rfl | hidm
          · exact ⟨List.mem_cons_self, by simp⟩
          · exact ⟨List.mem_cons_of_mem _ (A.exh id hidm).1, by simp⟩
        · intro id hidm
          rw [hlog, closesSent_mkReq] at hidm
          rw [hlog, hl']
          exact List.mem_cons_of_mem _ (A.cls id hidm)
  | some c =>
    rw [learnt_resp_cont sc s g r _ c hcur] at hnd
    have A := h hcl hnd
    have hl' : learnt (⟨mkReq sc s, some (.resp g r)⟩ :: s.log) = learnt s.log :=
      learnt_resp_cont sc s g r _ c hcur
    by_cases hmi : r.moreInRegion = true
    · have hc' : (update sc (logged sc s (.resp g r)) r g).curId = some c := by
        rw [hcurU, hcur]; simp [hmi]
      have he' : exhausted (⟨mkReq sc s, some (.resp g r)⟩ :: s.log) = exhausted s.log := by
        rw [exhausted_resp_cont sc s g r _ c hcur]; simp [hmi]
      constructor
      · intro id hidm
        rw [hlog, hl'] at hidm
        rw [hlog, he', closesSent_mkReq, hc', ← hcur]
        exact A.each id hidm
      · intro id hidm
        rw [hc', ← hcur] at hidm
        rw [hlog, hl']; exact A.cur id hidm
      · intro id hidm
        rw [hlog, he'] at hidm
        rw [hlog, hl', hc', ← hcur]
        exact A.exh id hidm
      · intro id hidm
        rw [hlog, closesSent_mkReq] at hidm
        rw [hlog, hl']
        exact A.cls id hidm
    · have hc' : (update sc (logged sc s (.resp g r)) r g).curId = none := by
        rw [hcurU]; simp [hmi]
      have he' : exhausted (⟨mkReq sc s, some (.resp g r)⟩ :: s.log) = c :: exhausted s.log := by
        rw [exhausted_resp_cont sc s g r _ c hcur]; simp [hmi]
      constructor
      · intro id hidm
        rw [hlog, hl'] at hidm
        rw [hlog, he', closesSent_mkReq, hc']
        rcases A.each id hidm with h1 | h2 | h3
        · exact .inl ⟨List.mem_cons_of_mem _ h1.1, h1.2⟩
        · refine .inr (.inl ⟨?_, h2.2.1, by simp⟩)
          intro hx; rcases List.mem_cons.mp hx with e | hx
          · subst e; exact h2.2.2 hcur
          · exact h2.1 hx
        · rw [hcur] at h3
          have e : c = id := by injection h3.1
          subst e
          exact .inl ⟨List.mem_cons_self, h3.2.2⟩
      · intro id hidm; rw [hc'] at hidm; cases hidm
      · intro id hidm
        rw [hlog, he', List.mem_cons] at hidm
        rw [hlog, hl', hc']
        rcases hidm with rfl | hidm
        · exact ⟨A.cur _ hcur, by simp⟩
        · exact ⟨(A.exh id hidm).1, by simp⟩
      · intro id hidm
        rw [hlog, closesSent_mkReq] at hidm
        rw [hlog, hl']
        exact A.cls id hidm

theorem account_close (sc : Scan) (s : St) (h : AccountOk sc s) : AccountOk sc (close sc s) := by
  unfold close
  by_cases hc : s.closed
  · simpa [hc] using h
  · simp only [hc, Bool.false_eq_true, if_false]
    unfold closeRegionScanner
    cases hcur : s.curId with
    | none =>
      simp only []
      intro hcl hnd
      have A := h hcl hnd
      exact ⟨by simpa [hcur] using A.each, by simp, by simpa [hcur] using A.exh, A.cls⟩
    | some c =>
      intro hcl hnd
      simp only [hcl, Bool.false_eq_true, if_false] at hnd ⊢
      have hl' : ∀ t : St, learnt (⟨closeReq t c, none⟩ :: s.log) = learnt s.log := by
        intro t; simp [learnt, closeReq]
      have he' : ∀ t : St, exhausted (⟨closeReq t c, none⟩ :: s.log) = exhausted s.log := by
        intro t; simp [exhausted]
      have hs' : ∀ t : St, closesSent (⟨closeReq t c, none⟩ :: s.log) = c :: closesSent s.log := by
        intro t; simp [closesSent, closeReq]
      simp only [hl'] at hnd
      have A := h hcl hnd
      have hcc : c ∉ closesSent s.log ∧ c ∉ exhausted s.log := by
        rcases A.each c (A.cur c hcur) with h1 | h2 | h3
        · exact absurd hcur (A.exh c h1.1).2
        · exact absurd hcur h2.2.2
        · exact ⟨h3.2.2, h3.2.1⟩
      constructor
      · intro id hidm
        simp only [hl'] at hidm
        simp only [he', hs']
        rcases A.each id hidm with h1 | h2 | h3
        · refine .inl ⟨h1.1, ?_⟩
          intro hx; rcases List.mem_cons.mp hx with e | hx
          · subst e; exact (A.exh id h1.1).2 hcur
          · exact h1.2 hx
        · refine .inr (.inl ⟨h2.1, ?_, by simp⟩)
          have hne : c ≠ id := fun e => h2.2.2 (e ▸ hcur)
          rw [List.count_cons_of_ne hne]; exact h2.2.1
        · rw [hcur] at h3
          have e : c = id := by injection h3.1
          subst e
          refine .inr (.inl ⟨h3.2.1, ?_, by simp⟩)
          rw [List.count_cons_self, List.count_eq_zero_of_not_mem h3.2.2]
      · intro id hidm; simp at hidm
      · intro id hidm
        simp only [he'] at hidm
        simp only [hl']
        exact ⟨(A.exh id hidm).1, by simp⟩
      · intro id hidm
        simp only [hs', List.mem_cons] at hidm
        simp only [hl']
        rcases hidm with rfl | hidm
        · exact A.cur _ hcur
        · exact A.cls id hidm

theorem accountOk_stable (sc : Scan) : Stable sc (AccountOk sc) where
  buf := fun _ _ h => fun hcl hnd => let A := h hcl hnd; ⟨A.each, A.cur, A.exh, A.cls⟩
  close := fun s h => account_close sc s h
  err := fun s c h _ => account_err sc s c h
  resp := fun s g r h _ => account_resp sc s g r h

theorem accountOk_init (sc : Scan) : AccountOk sc (St.init sc) := by
  intro _ _
  constructor <;> simp [St.init, learnt, exhausted, closesSent]

end GV.Scanner
