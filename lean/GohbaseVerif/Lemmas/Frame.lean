import GohbaseVerif.Model.Frame
/-! Lemmas about `Model/Frame.lean`: varints, big-endian prefixes, frame and stream parsing,
call ids, interleavings. Core Lean only. -/
namespace GV.Frame
open GV

/-! ### big-endian -/

theorem toBE_length (n v : Nat) : (toBE n v).length = n := by
  induction n with
  | zero => rfl
  | succ n ih => simp [toBE, ih]

theorem u8_ofNat_toNat (n : Nat) (h : n < 256) : (UInt8.ofNat n).toNat = n := by
  simp [UInt8.toNat_ofNat', Nat.mod_eq_of_lt h]

theorem beNat_toBE (n v : Nat) (h : v < 256 ^ n) : beNat (toBE n v) = v := by
  induction n generalizing v with
  | zero => simp [toBE, beNat]; simp at h; omega
  | succ n ih =>
    simp only [toBE, beNat, toBE_length]
    have hq : v / 256 ^ n < 256 := by
      rw [Nat.div_lt_iff_lt_mul (Nat.pow_pos (by decide))]
      rw [Nat.pow_succ] at h; rw [Nat.mul_comm]; exact h
    rw [Nat.mod_eq_of_lt hq, u8_ofNat_toNat _ hq]
    have hm : v % 256 ^ n < 256 ^ n := Nat.mod_lt _ (Nat.pow_pos (by decide))
    have e : toBE n v = toBE n (v % 256 ^ n) := by
      clear ih hq hm h
      induction n generalizing v with
      | zero => rfl
      | succ m ihm =>
        simp only [toBE]
        congr 1
        · congr 1
          rw [Nat.pow_succ, Nat.mod_mul_right_div_self]
          rw [Nat.mod_mod_of_dvd _ (by exact ⟨1, by simp⟩ : 256 ∣ 256)]
        · rw [ihm v, ihm (v % 256 ^ (m + 1))]
          congr 1
          rw [Nat.pow_succ, Nat.mod_mul_right_mod]
    rw [e, ih _ hm]
    have := Nat.div_add_mod v (256 ^ n)
    rw [Nat.mul_comm] at this
    exact this

/-! ### varints -/

theorem varint_arith (acc a b X : Nat) :
    acc + a * X + b * (X * 128) = acc + (a + 128 * b) * X := by
  rw [Nat.add_mul, Nat.add_assoc]
  congr 2
  rw [Nat.mul_comm X 128, ← Nat.mul_assoc, Nat.mul_comm b 128]

theorem varintDecAux_enc (f : Nat) : ∀ (n sh acc : Nat) (rest : Bytes), 1 ≤ f → n < 2 ^ (7 * f - 6) →
    varintDecAux f sh acc (varintEncAux f n ++ rest) = .ok (acc + n * 2 ^ sh, rest) := by
  induction f with
  | zero => intro n sh acc rest h; omega
  | succ k ih =>
    intro n sh acc rest _ hn
    rw [varintEncAux]
    by_cases h128 : n < 128
    · have hb : (UInt8.ofNat n).toNat = n := u8_ofNat_toNat n (by omega)
      simp only [h128, if_true, List.cons_append, List.nil_append, varintDecAux, hb]
      have : ¬ (k = 0 ∧ 1 < n) := by
        rintro ⟨rfl, h1⟩
        simp at hn; omega
      simp [this]
    · have hb : (UInt8.ofNat (n % 128 + 128)).toNat = n % 128 + 128 :=
        u8_ofNat_toNat _ (by omega)
      have hnb : ¬ (n % 128 + 128 < 128) := by omega
      simp only [h128, if_false, List.cons_append, varintDecAux, hb, hnb]
      have hk : k ≠ 0 := by
        rintro rfl
        simp at hn; omega
      simp only [hk, if_false]
      have hk1 : 1 ≤ k := by omega
      have hdiv : n / 128 < 2 ^ (7 * k - 6) := by
        rw [Nat.div_lt_iff_lt_mul (by decide)]
        have e : 7 * (k + 1) - 6 = (7 * k - 6) + 7 := by omega
        rw [e, Nat.pow_add] at hn
        exact hn
      rw [ih (n / 128) (sh + 7) _ rest hk1 hdiv]
      have e1 : n % 128 + 128 - 128 = n % 128 := by omega
      have e7 : (2 : Nat) ^ 7 = 128 := by decide
      rw [e1, Nat.pow_add, e7, varint_arith]
      have e2 := Nat.mod_add_div n 128
      rw [e2]

theorem varintDec_enc (n : Nat) (rest : Bytes) (h : n < 2 ^ 64) :
    varintDec (varintEnc n ++ rest) = .ok (n, rest) := by
  unfold varintDec varintEnc
  rw [Nat.mod_eq_of_lt h, varintDecAux_enc 10 n 0 0 rest (by decide) h]
  simp

theorem varintEncAux_length_pos (f n : Nat) : 0 < (varintEncAux (f + 1) n).length := by
  rw [varintEncAux]; split <;> simp

theorem varintEnc_length_pos (n : Nat) : 0 < (varintEnc n).length :=
  varintEncAux_length_pos 9 _

theorem varintEncAux_length_le (f n : Nat) : (varintEncAux f n).length ≤ f := by
  induction f generalizing n with
  | zero => simp [varintEncAux]
  | succ k ih =>
    rw [varintEncAux]
    split
    · simp
    · simp only [List.length_cons]
      have := ih (n / 128)
      omega

/-! ### delimited payloads -/

theorem readDelimited_delimited (p rest : Bytes) (h : p.length < 2 ^ 64) :
    readDelimited (delimited p ++ rest) = .ok (p, rest) := by
  unfold readDelimited delimited
  rw [List.append_assoc, varintDec_enc _ _ h]
  simp

/-! ### frames -/

theorem marshal_eq (h r cbs : Bytes) :
    marshal h r cbs =
      toBE 4 (((delimited h ++ delimited r).length % 2 ^ 32 + cbs.length % 2 ^ 32) % 2 ^ 32)
        ++ (delimited h ++ delimited r ++ cbs) := by
  simp [marshal, marshalProto, List.append_assoc]

theorem marshal_length (h r cbs : Bytes) : (marshal h r cbs).length = 4 + bodyLen h r cbs := by
  simp [marshal_eq, toBE_length, bodyLen]; omega

/-- Raw frame parsing inverts `marshal` whenever the body fits the 32-bit length prefix. -/
theorem parseFrame_marshal (h r cbs rest : Bytes) (hlen : bodyLen h r cbs < 2 ^ 32) :
    parseFrame (marshal h r cbs ++ rest) = .ok (h, r, cbs, rest) := by
  have hh : h.length < 2 ^ 64 := by unfold bodyLen delimited at hlen; simp at hlen; omega
  have hr : r.length < 2 ^ 64 := by unfold bodyLen delimited at hlen; simp at hlen; omega
  have hpre : ((delimited h ++ delimited r).length % 2 ^ 32 + cbs.length % 2 ^ 32) % 2 ^ 32
      = bodyLen h r cbs := by
    unfold bodyLen at hlen ⊢
    simp only [List.length_append]
    omega
  rw [marshal_eq, hpre]
  unfold parseFrame
  have h4 : ¬ ((toBE 4 (bodyLen h r cbs) ++ (delimited h ++ delimited r ++ cbs) ++ rest).length < 4) := by
    simp [toBE_length]
  rw [if_neg h4]
  have htake : (toBE 4 (bodyLen h r cbs) ++ (delimited h ++ delimited r ++ cbs) ++ rest).take 4
      = toBE 4 (bodyLen h r cbs) := by
    rw [List.append_assoc, List.take_left' (toBE_length _ _)]
  have hdrop : (toBE 4 (bodyLen h r cbs) ++ (delimited h ++ delimited r ++ cbs) ++ rest).drop 4
      = (delimited h ++ delimited r ++ cbs) ++ rest := by
    rw [List.append_assoc, List.drop_left' (toBE_length _ _)]
  simp only [htake, hdrop]
  rw [beNat_toBE 4 _ (by simpa using hlen)]
  have hbl : (delimited h ++ delimited r ++ cbs).length = bodyLen h r cbs := by
    simp [bodyLen]; omega
  have hnl : ¬ ((delimited h ++ delimited r ++ cbs ++ rest).length < bodyLen h r cbs) := by
    rw [List.length_append, hbl]; omega
  rw [if_neg hnl]
  rw [List.take_left' hbl, List.drop_left' hbl]
  rw [List.append_assoc, readDelimited_delimited h _ hh]
  simp only
  rw [readDelimited_delimited r _ hr]

theorem marshal_shape (h r cbs : Bytes) (hlen : bodyLen h r cbs < 2 ^ 32) :
    marshal h r cbs = toBE 4 (bodyLen h r cbs) ++ (delimited h ++ delimited r ++ cbs) := by
  have hpre : ((delimited h ++ delimited r).length % 2 ^ 32 + cbs.length % 2 ^ 32) % 2 ^ 32
      = bodyLen h r cbs := by
    unfold bodyLen at hlen ⊢
    simp only [List.length_append]
    omega
  rw [marshal_eq, hpre]

theorem prefix_len_generic (pre body : Bytes) (v : Nat) (h4 : pre.length = 4)
    (hv : beNat pre = v) (hb : body.length = v) :
    beNat ((pre ++ body).take 4) = ((pre ++ body).drop 4).length := by
  rw [List.take_left' h4, List.drop_left' h4, hv, hb]

theorem marshal_prefix (h r cbs : Bytes) (hlen : bodyLen h r cbs < 2 ^ 32) :
    beNat ((marshal h r cbs).take 4) = ((marshal h r cbs).drop 4).length := by
  rw [marshal_shape h r cbs hlen]
  exact prefix_len_generic _ _ _ (toBE_length _ _) (beNat_toBE 4 _ (by simpa using hlen))
    (by simp [bodyLen]; omega)

theorem marshal_ne_nil (h r cbs : Bytes) : marshal h r cbs ≠ [] := by
  intro e
  have := congrArg List.length e
  rw [marshal_length] at this
  simp at this

theorem parseFramesAux_flatten (fs : List RawFrame) :
    ∀ fuel, fs.length < fuel → (∀ f ∈ fs, f.bodyLen < 2 ^ 32) →
    parseFramesAux fuel (fs.map RawFrame.bytes).flatten = .ok fs := by
  induction fs with
  | nil =>
    intro fuel hf _
    cases fuel with
    | zero => simp at hf
    | succ k => simp [parseFramesAux]
  | cons f fs ih =>
    intro fuel hf hb
    cases fuel with
    | zero => simp at hf
    | succ k =>
      simp only [List.map_cons, List.flatten_cons]
      have hne : f.bytes ++ (fs.map RawFrame.bytes).flatten ≠ [] := by
        intro e
        have := List.append_eq_nil_iff.mp e
        exact marshal_ne_nil _ _ _ this.1
      cases hx : f.bytes ++ (fs.map RawFrame.bytes).flatten with
      | nil => exact absurd hx hne
      | cons x xs =>
        rw [parseFramesAux, ← hx]
        have := parseFrame_marshal f.header f.request f.cellblocks
          (fs.map RawFrame.bytes).flatten (hb f (by simp))
        simp only [RawFrame.bytes] at this ⊢
        rw [this]
        simp only
        have ih' := ih k (by simp at hf; omega) (fun g hg => hb g (by simp [hg]))
        rw [ih']

theorem flatten_bytes_length_ge (fs : List RawFrame) :
    fs.length ≤ (fs.map RawFrame.bytes).flatten.length := by
  induction fs with
  | nil => simp
  | cons f fs ih =>
    simp only [List.map_cons, List.flatten_cons, List.length_append, List.length_cons]
    have : (f.bytes).length = 4 + f.bodyLen := marshal_length _ _ _
    omega

theorem parseFrames_flatten (fs : List RawFrame) (hb : ∀ f ∈ fs, f.bodyLen < 2 ^ 32) :
    parseFrames (fs.map RawFrame.bytes).flatten = .ok fs := by
  unfold parseFrames
  exact parseFramesAux_flatten fs _ (by have := flatten_bytes_length_ge fs; omega) hb

theorem parseMsg_of {ρ} (ch : PBCodec ReqHeader) (cr : PBCodec ρ) (x h r cbs rest : Bytes)
    (hd : ReqHeader) (rq : ρ) (h1 : parseFrame x = .ok (h, r, cbs, rest))
    (h2 : ch.unmarshal h = some hd) (h3 : cr.unmarshal r = some rq) :
    parseMsg ch cr x = .ok (hd, rq, cbs, rest) := by
  simp only [parseMsg, h1, h2, h3]

/-! ### hello -/

theorem preamble_length : Gen.Wire.preamble.length = 6 := by decide

theorem parseHello_hello (p rest : Bytes) (hp : p.length < 2 ^ 32) :
    parseHello (hello p ++ rest) = .ok (p, rest) := by
  unfold parseHello hello
  rw [Nat.mod_eq_of_lt hp]
  simp only [List.append_assoc]
  rw [List.take_left' rfl, List.drop_left' rfl]
  simp only [ne_eq, not_true_eq_false, if_false]
  have h4 : ¬ ((toBE 4 p.length ++ (p ++ rest)).length < 4) := by simp [toBE_length]
  rw [if_neg h4, List.take_left' (toBE_length _ _), List.drop_left' (toBE_length _ _)]
  rw [beNat_toBE 4 _ (by simpa using hp)]
  have : ¬ ((p ++ rest).length < p.length) := by simp
  rw [if_neg this, List.take_left' rfl, List.drop_left' rfl]

theorem parseStream_of (x p l : Bytes) (fs : List RawFrame)
    (h1 : parseHello x = .ok (p, l)) (h2 : parseFrames l = .ok fs) :
    parseStream x = .ok (p, fs) := by
  simp only [parseStream, h1, h2]

theorem parseStream_hello_frames (p : Bytes) (fs : List RawFrame) (hp : p.length < 2 ^ 32)
    (hb : ∀ f ∈ fs, f.bodyLen < 2 ^ 32) :
    parseStream (hello p ++ (fs.map RawFrame.bytes).flatten) = .ok (p, fs) :=
  parseStream_of _ _ _ _ (parseHello_hello p ((fs.map RawFrame.bytes).flatten) hp)
    (parseFrames_flatten fs hb)

/-! ### call ids -/

theorem allocIds_length (s n : Nat) : (allocIds s n).length = n := by
  induction n generalizing s with
  | zero => rfl
  | succ n ih => simp [allocIds, ih]

theorem mem_allocIds (s n x : Nat) (hs : s < 2 ^ 32) (hn : s + n < 2 ^ 32) :
    x ∈ allocIds s n → s < x ∧ x ≤ s + n := by
  induction n generalizing s with
  | zero => intro h; simp [allocIds] at h
  | succ n ih =>
    intro h
    simp only [allocIds, List.mem_cons] at h
    have e : nextId s = s + 1 := by unfold nextId; exact Nat.mod_eq_of_lt (by omega)
    rw [e] at h
    rcases h with h | h
    · omega
    · have := ih (s + 1) (by omega) (by omega) h
      omega

theorem allocIds_nodup (s n : Nat) (hs : s < 2 ^ 32) (hn : s + n < 2 ^ 32) :
    (allocIds s n).Nodup := by
  induction n generalizing s with
  | zero => simp [allocIds]
  | succ n ih =>
    simp only [allocIds, List.nodup_cons]
    have e : nextId s = s + 1 := by unfold nextId; exact Nat.mod_eq_of_lt (by omega)
    rw [e]
    refine ⟨?_, ih (s + 1) (by omega) (by omega)⟩
    intro hm
    have := mem_allocIds (s + 1) n (s + 1) (by omega) (by omega) hm
    omega

/-! ### interleavings -/

theorem interleave2_map {α β} (f : α → β) (a b : List α) :
    interleave2 (a.map f) (b.map f) = (interleave2 a b).map (List.map f) := by
  fun_induction interleave2 a b with
  | case1 ys => simp [interleave2]
  | case2 xs h => 
    cases xs with
    | nil => simp [interleave2]
    | cons x xs => simp [interleave2]
  | case3 x xs y ys ih1 ih2 =>
    simp only [List.map_cons] at ih1 ih2 ⊢
    simp only [interleave2, ih1, ih2, List.map_append, List.map_map]
    congr 1

theorem interleavings_map {α β} (f : α → β) (ss : List (List α)) :
    interleavings (ss.map (List.map f)) = (interleavings ss).map (List.map f) := by
  induction ss with
  | nil => simp [interleavings]
  | cons s ss ih =>
    simp only [List.map_cons, interleavings, ih, List.flatMap_map, List.map_flatMap]
    congr 1
    funext t
    exact interleave2_map f s t

theorem perm_of_mem_interleave2 {α} (a b s : List α) (h : s ∈ interleave2 a b) : s.Perm (a ++ b) := by
  fun_induction interleave2 a b generalizing s with
  | case1 ys => simp at h; subst h; simp
  | case2 xs hx => 
    cases xs with
    | nil => simp at h; subst h; simp
    | cons x xs => simp at h; subst h; simp
  | case3 x xs y ys ih1 ih2 =>
    simp only [List.mem_append, List.mem_map] at h
    rcases h with ⟨t, ht, rfl⟩ | ⟨t, ht, rfl⟩
    · exact (ih1 t ht).cons x
    · have := (ih2 t ht).cons y
      exact this.trans (List.perm_middle (a := y) (l₁ := x :: xs) (l₂ := ys)).symm

theorem perm_of_mem_interleavings {α} (ss : List (List α)) (s : List α) (h : s ∈ interleavings ss) :
    s.Perm ss.flatten := by
  induction ss generalizing s with
  | nil => simp [interleavings] at h; subst h; simp
  | cons a ss ih =>
    simp only [interleavings, List.mem_flatMap] at h
    obtain ⟨t, ht, hs⟩ := h
    have := perm_of_mem_interleave2 a t s hs
    simp only [List.flatten_cons]
    exact this.trans ((ih t ht).append_left a)

theorem sublist_of_mem_interleave2 {α} (a b s : List α) (h : s ∈ interleave2 a b) :
    a.Sublist s ∧ b.Sublist s := by
  fun_induction interleave2 a b generalizing s with
  | case1 ys => simp at h; subst h; simp
  | case2 xs hx =>
    cases xs with
    | nil => simp at h; subst h; simp
    | cons x xs => simp at h; subst h; simp
  | case3 x xs y ys ih1 ih2 =>
    simp only [List.mem_append, List.mem_map] at h
    rcases h with ⟨t, ht, rfl⟩ | ⟨t, ht, rfl⟩
    · exact ⟨(ih1 t ht).1.cons_cons x, (ih1 t ht).2.cons x⟩
    · exact ⟨(ih2 t ht).1.cons y, (ih2 t ht).2.cons_cons y⟩

/-- Every sender's own sequence survives in order inside any interleaving. -/
theorem sublist_of_mem_interleavings {α} (ss : List (List α)) (s : List α)
    (h : s ∈ interleavings ss) : ∀ a ∈ ss, a.Sublist s := by
  induction ss generalizing s with
  | nil => intro a ha; simp at ha
  | cons a0 ss ih =>
    simp only [interleavings, List.mem_flatMap] at h
    obtain ⟨t, ht, hs⟩ := h
    have h2 := sublist_of_mem_interleave2 a0 t s hs
    intro a ha
    simp only [List.mem_cons] at ha
    rcases ha with rfl | ha
    · exact h2.1
    · exact (ih t ht a ha).trans h2.2

theorem units_flatten (k : ConnKind) (q : SendReq) : (q.units k).flatten = q.raw.bytes := by
  unfold SendReq.units frameUnits sendUnits SendReq.raw RawFrame.bytes marshal
  cases hq : q.cellblocks with
  | none => simp
  | some bufs => cases k <;> simp

theorem flatten_flatten_map {α β} (f : α → List (List β)) (l : List α) :
    (l.map f).flatten.flatten = (l.map fun x => (f x).flatten).flatten := by
  induction l with
  | nil => rfl
  | cons x l ih => simp [ih]

/-- Frames emitted as atomic blocks (one `Write`, one `writev`, or several `Write`s under the
writer mutex): whatever the interleaving of the senders, the reader finds whole frames. -/
theorem atomic_blocks_parse (k : ConnKind) (p : Bytes) (senders : List (List SendReq))
    (hp : p.length < 2 ^ 32) (hb : ∀ s ∈ senders, ∀ q ∈ s, q.raw.bodyLen < 2 ^ 32)
    (s : List (List Bytes))
    (hs : s ∈ interleavings (senders.map (List.map (SendReq.units k)))) :
    ∃ order, order ∈ interleavings senders ∧ order.Perm senders.flatten ∧
      (∀ a ∈ senders, a.Sublist order) ∧
      parseStream (hello p ++ s.flatten.flatten) = .ok (p, order.map SendReq.raw) := by
  rw [interleavings_map] at hs
  obtain ⟨order, ho, rfl⟩ := List.mem_map.mp hs
  have hperm := perm_of_mem_interleavings senders order ho
  refine ⟨order, ho, hperm, sublist_of_mem_interleavings senders order ho, ?_⟩
  have e : (order.map (SendReq.units k)).flatten.flatten
      = ((order.map SendReq.raw).map RawFrame.bytes).flatten := by
    rw [flatten_flatten_map, List.map_map]
    congr 1
    apply List.map_congr_left
    intro q _
    exact units_flatten k q
  rw [e]
  apply parseStream_hello_frames p _ hp
  intro f hf
  obtain ⟨q, hq, rfl⟩ := List.mem_map.mp hf
  have hq' : q ∈ senders.flatten := hperm.mem_iff.mp hq
  obtain ⟨sd, hsd, hqs⟩ := List.mem_flatten.mp hq'
  exact hb sd hsd q hqs

end GV.Frame
