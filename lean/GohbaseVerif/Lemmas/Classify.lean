import GohbaseVerif.Model.Classify
import GohbaseVerif.Gen.Selects
/-! Helper lemmas for `classify` (C04). -/
namespace GV.Classify
open GV.Gen

theorem infixOf_nil (l : List Char) : infixOf [] l = true := by
  cases l <;> simp [infixOf, List.isPrefixOf]

theorem contains_empty (s : String) : contains s "" = true := by
  simp [contains, infixOf_nil]

/-- the (value, class) pairs of the arms whose table has the class, in arm order -/
def hits (arms : List (String × String)) (cls : String) : List (String × ErrClass) :=
  arms.filterMap fun a => (lookup (tableOf a.1) cls).map fun v => (v, classOfType a.2)

def firstHit : List (String × ErrClass) → String → ErrClass
  | [], _ => .fatal
  | (v, k) :: rest, stack => if contains stack v then k else firstHit rest stack

theorem classifyArms_eq (arms : List (String × String)) (cls stack : String) :
    classifyArms arms cls stack = firstHit (hits arms cls) stack := by
  induction arms with
  | nil => rfl
  | cons a rest ih =>
    obtain ⟨tbl, ty⟩ := a
    simp only [classifyArms, hits, List.filterMap_cons]
    cases h : lookup (tableOf tbl) cls with
    | none => simpa [hits] using ih
    | some v =>
      simp only [Option.map_some, firstHit]
      split
      · rfl
      · simpa [hits] using ih

theorem lookup_none_of_not_mem (t : List (String × String)) (cls : String)
    (h : cls ∉ t.map (·.1)) : lookup t cls = none := by
  induction t with
  | nil => rfl
  | cons a rest ih =>
    obtain ⟨k, v⟩ := a
    simp only [List.map_cons, List.mem_cons, not_or] at h
    simp only [lookup]
    rw [if_neg (fun hk => h.1 hk.symm)]
    exact ih h.2

theorem lookup_some_mem (t : List (String × String)) (cls v : String)
    (h : lookup t cls = some v) : cls ∈ t.map (·.1) := by
  induction t with
  | nil => cases h
  | cons a rest ih =>
    obtain ⟨k, w⟩ := a
    simp only [lookup] at h
    split at h
    · rename_i hk; simp [hk]
    · simp [ih h]

/-- every table an arm of the current source consults is one of the three extracted tables -/
theorem arm_tables_within_names :
    ∀ a ∈ Exceptions.arms, ∀ k ∈ (tableOf a.1).map (·.1), k ∈ tableNames := by decide

theorem hits_nil_of_unknown (arms : List (String × String)) (cls : String)
    (harms : ∀ a ∈ arms, ∀ k ∈ (tableOf a.1).map (·.1), k ∈ tableNames)
    (h : cls ∉ tableNames) : hits arms cls = [] := by
  induction arms with
  | nil => rfl
  | cons a rest ih =>
    have hn : lookup (tableOf a.1) cls = none :=
      lookup_none_of_not_mem _ _ (fun hm => h (harms a (List.mem_cons_self) cls hm))
    simp only [hits, List.filterMap_cons, hn, Option.map_none]
    exact ih (fun b hb => harms b (List.mem_cons_of_mem _ hb))

end GV.Classify
