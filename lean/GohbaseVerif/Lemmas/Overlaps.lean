import GohbaseVerif.Lemmas.Seek
/-! `getOverlaps` finds every cached region that overlaps — on a sorted, overlap-free cache. -/
set_option linter.unusedSimpArgs false
namespace GV.Cache
open GV GV.RegionName

/-- What `getOverlaps` needs of the region it is asked about: a table name that can be compared. -/
structure Region.TableOK (r : Region) : Prop where
  fqNoComma : comma ∉ r.fq
  tblNoColon : colon ∉ r.tbl
  fqLen : r.fq.length + 3 ≤ 32767

theorem Region.WF.tableOK {r : Region} (h : r.WF) : r.TableOK := by
  refine ⟨h.fqNoComma, h.tblNoColon, ?_⟩
  have := h.nameLen
  rw [h.name_eq] at this
  obtain ⟨rest, hs, _⟩ := h.sfx_eq
  have hne := dec_ne_nil r.id
  have : 0 < (dec r.id).length := List.length_pos_iff.mpr hne
  simp [mkName, hs] at *
  omega

theorem overlap_true_iff {a b : Region} (ha : colon ∉ a.tbl) (hb : colon ∉ b.tbl) :
    overlap a b = true ↔ a.fq = b.fq ∧ (b.stop = [] ∨ bcmp a.start b.stop = .lt) ∧
      (a.stop = [] ∨ bcmp b.start a.stop = .lt) := by
  rw [fq_eq_iff ha hb]
  unfold overlap
  have : (bcmp a.stop b.start == Ordering.gt) = (bcmp b.start a.stop == Ordering.lt) := by
    rw [bcmp_swap b.start a.stop]; cases bcmp b.start a.stop <;> rfl
  rw [this]
  simp only [Bool.and_eq_true, beq_iff_eq, Bool.or_eq_true, List.isEmpty_iff, and_assoc]

theorem overlap_false_iff {a b : Region} (ha : colon ∉ a.tbl) (hb : colon ∉ b.tbl) :
    overlap a b = false ↔ ¬ (a.fq = b.fq ∧ (b.stop = [] ∨ bcmp a.start b.stop = .lt) ∧
      (a.stop = [] ∨ bcmp b.start a.stop = .lt)) := by
  rw [← overlap_true_iff ha hb]; simp

theorem filter_eq_takeWhile {α} (P : α → Bool) (l : List α)
    (h : l.Pairwise (fun a b => P b = true → P a = true)) : l.filter P = l.takeWhile P := by
  induction l with
  | nil => rfl
  | cons x xs ih =>
    obtain ⟨hx, hxs⟩ := List.pairwise_cons.mp h
    by_cases hp : P x = true
    · simp [List.filter, List.takeWhile, hp, ih hxs]
    · have : xs.filter P = [] := by
        rw [List.filter_eq_nil_iff]
        intro b hb hpb
        exact hp (hx b hb hpb)
      simp [List.filter, List.takeWhile, hp, this]

theorem split_at {α} {l : List α} {s : Nat} {v : α} (h : l[s]? = some v) :
    l = l.take s ++ v :: l.drop (s + 1) := by
  obtain ⟨hlt, hv⟩ := List.getElem?_eq_some_iff.mp h
  rw [← hv, ← List.drop_eq_getElem_cons hlt, List.take_append_drop]

/-- Nothing before the entry just below the search key can overlap: it ends where that entry
starts, at the latest. -/
theorem before_no_overlap {a v r : Region} (ha : a.WF) (hv : v.WF) (hr : r.TableOK)
    (hlt : nameLt a v) (hB : Below r.fq r.start v) (hd : overlap a v = false) :
    overlap a r = false := by
  rw [overlap_false_iff ha.tblNoColon hr.tblNoColon]
  rintro ⟨hfq, _, h3⟩
  rw [overlap_false_iff ha.tblNoColon hv.tblNoColon] at hd
  rcases nameLt_fq_start ha hv hlt with h | ⟨e, hs⟩
  · rw [hfq] at h
    rcases hB with h' | ⟨e', _⟩
    · have := bcmp_lt_asymm h; rw [h'] at this; cases this
    · rw [e'] at h; simp at h
  · rcases hB with h' | ⟨e', hs'⟩
    · rw [← e, hfq] at h'; simp at h'
    · apply hd
      refine ⟨e, ?_, ?_⟩
      · rcases hv.range with h0 | h0
        · exact .inl h0
        · exact .inr (bcmp_lt_of_le_of_lt hs h0)
      · rcases h3 with h0 | h0
        · exact .inl h0
        · -- r.start < a.stop; need v.start < a.stop: v.start ≤ r.start < a.stop
          exact .inr (bcmp_lt_of_le_of_lt hs' h0)

/-- Among the entries above the search key the overlapping ones form a prefix. -/
theorem after_mono {x y r : Region} (hx : x.WF) (hy : y.WF) (hr : r.TableOK)
    (hlt : nameLt x y) (hnB : ¬ Below r.fq r.start x) (hov : overlap y r = true) :
    overlap x r = true := by
  rw [overlap_true_iff hy.tblNoColon hr.tblNoColon] at hov
  obtain ⟨hfq, h2, _⟩ := hov
  rw [overlap_true_iff hx.tblNoColon hr.tblNoColon]
  unfold Below at hnB
  rcases nameLt_fq_start hx hy hlt with h | ⟨e, hs⟩
  · rw [hfq] at h; exact absurd (.inl h) hnB
  · have hxfq : x.fq = r.fq := e.trans hfq
    have hstart : bcmp r.start x.start = .lt := by
      rcases bcmp_le_total x.start r.start with h | h
      · exact absurd (.inr ⟨hxfq, h⟩) hnB
      · exact h
    refine ⟨hxfq, ?_, ?_⟩
    · rcases h2 with h0 | h0
      · exact .inl h0
      · exact .inr (bcmp_lt_of_le_of_lt hs h0)
    · rcases hx.range with h0 | h0
      · exact .inl h0
      · exact .inr (bcmp_trans_lt hstart h0)

theorem searchKeyO_ok {t : Bytes} (h : t.length + 3 ≤ 32767) (k : Bytes) :
    searchKeyO t k = .ok (searchKeyImpl t k) := by
  unfold searchKeyO
  have : ¬ (Gen.Wire.searchKeyMax < t.length + Gen.Wire.searchKeySlack) := by
    simp [Gen.Wire.searchKeyMax, Gen.Wire.searchKeySlack]; omega
  simp [this]

/-- The closed form of `getOverlaps` is the filter, on a good cache. -/
theorem walk_eq_filter {l : List Region} (hg : GoodL l) {r : Region} (hr : r.TableOK) {p : Nat}
    {v : Region} (hv : l[p - 1]? = some v)
    (hbelow : ∀ x ∈ l.take p, Below r.fq r.start x) (habove : ∀ y ∈ l.drop p, ¬ Below r.fq r.start y) :
    (if overlap v r then [v] else []) ++ (l.drop (p - 1 + 1)).takeWhile (overlap · r)
      = l.filter (overlap · r) := by
  have hsplit := split_at hv
  have hvmem : v ∈ l := List.mem_of_getElem? hv
  -- the tail lies above the search key
  have htail : ∀ y ∈ l.drop (p - 1 + 1), ¬ Below r.fq r.start y := by
    intro y hy
    rcases p with _ | p
    · exact habove y (by simpa using List.mem_of_mem_drop (i := 1) (by simpa using hy))
    · exact habove y (by simpa using hy)
  have hsorted := hg.sorted
  have hdisj := hg.disjoint
  rw [hsplit] at hsorted hdisj
  unfold Sorted at hsorted
  rw [List.pairwise_append] at hsorted hdisj
  obtain ⟨_, hs2, hs3⟩ := hsorted
  obtain ⟨_, _, hd3⟩ := hdisj
  obtain ⟨hs4, hs5⟩ := List.pairwise_cons.mp hs2
  -- nothing in front overlaps
  have hfront : (l.take (p - 1)).filter (overlap · r) = [] := by
    rw [List.filter_eq_nil_iff]
    intro a ha
    have hamem : a ∈ l := List.mem_of_mem_take ha
    have hvB : Below r.fq r.start v := by
      rcases p with _ | p
      · simp at ha
      · apply hbelow
        rw [List.mem_take_iff_getElem]
        have hlt := (List.getElem?_eq_some_iff.mp hv).1
        simp only [Nat.add_one_sub_one] at hlt hv
        refine ⟨p, by omega, ?_⟩
        exact (List.getElem?_eq_some_iff.mp hv).2
    have := before_no_overlap (hg.wf a hamem) (hg.wf v hvmem) hr (hs3 a ha v (by simp)) hvB
      (hd3 a ha v (by simp))
    simp [this]
  -- behind, the overlapping ones form a prefix
  have hback : (l.drop (p - 1 + 1)).filter (overlap · r) = (l.drop (p - 1 + 1)).takeWhile (overlap · r) := by
    apply filter_eq_takeWhile
    apply List.Pairwise.imp_of_mem _ hs5
    intro x y hx hy hlt
    exact after_mono (hg.wf x (List.mem_of_mem_drop hx)) (hg.wf y (List.mem_of_mem_drop hy)) hr hlt
      (htail x hx)
  conv => rhs; rw [hsplit]
  rw [List.filter_append, hfront, List.nil_append, List.filter_cons, hback]
  by_cases hov : overlap v r = true <;> simp [hov]

/-- **The heart of C08.**  On a cache that is sorted, well-formed and overlap-free, the
one-entry-back start and the stop-at-first-miss loop of `getOverlaps` lose nothing: the result is
exactly the cached regions overlapping `r`, in cache order — and `getOverlaps` never panics. -/
theorem getOverlaps_filter {l : List Region} (hg : GoodL l) {r : Region} (hr : r.TableOK)
    (hlen : r.start.length ≤ 32767 - r.fq.length - 3) :
    getOverlaps l r = .ok (l.filter (overlap · r)) := by
  by_cases hne : l = []
  · subst hne; simp [getOverlaps]
  · have hk := searchKeyO_ok hr.fqLen r.start
    rw [searchKeyImpl_eq, searchKeyN_short _ _ hlen] at hk
    obtain ⟨p, hs, hp, hbelow, habove⟩ := seek_searchKey hg.wf hg.sorted hr.fqNoComma r.start
    obtain ⟨v, hv, hgo⟩ := getOverlaps_eq hne hk hs hp
    rw [hgo, walk_eq_filter hg hr hv hbelow habove]

end GV.Cache
