import GohbaseVerif.Lemmas.Put
import GohbaseVerif.Lemmas.Routing
/-! Helper lemmas for C08 / C01 (umbrella). -/
