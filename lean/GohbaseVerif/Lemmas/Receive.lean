import GohbaseVerif.Model.Receive
import GohbaseVerif.Lemmas.Cell
/-! Lemmas for C11 (`Model/Receive.lean`). -/
namespace GV.Receive
open GV GV.Cell

/-! ### `Outcome` plumbing -/

theorem isFault_bind {α β} {x : Outcome α} {f : α → Outcome β} (hx : x.isFault = false)
    (hf : ∀ a, x = .ok a → (f a).isFault = false) : (x.bind f).isFault = false := by
  cases x with
  | ok a => exact hf a rfl
  | err e => rfl
  | fault w => cases hx

theorem isFault_map {α β} (x : Outcome α) (f : α → β) : (x.map f).isFault = x.isFault := by
  cases x <;> rfl

theorem bind_eq_ok {α β} {x : Outcome α} {f : α → Outcome β} {b : β} (h : x.bind f = .ok b) :
    ∃ a, x = .ok a ∧ f a = .ok b := by
  cases x with
  | ok a => exact ⟨a, rfl, h⟩
  | err e => cases h
  | fault w => cases h

theorem map_eq_ok {α β} {x : Outcome α} {f : α → β} {b : β} (h : x.map f = .ok b) :
    ∃ a, x = .ok a ∧ f a = b := by
  cases x with
  | ok a => exact ⟨a, rfl, by cases h; rfl⟩
  | err e => cases h
  | fault w => cases h

/-- `Good o P`: `o` is not a fault, and if it is a value the value satisfies `P`. -/
def Good {α} (o : Outcome α) (P : α → Prop) : Prop :=
  match o with
  | .ok a => P a
  | .err _ => True
  | .fault _ => False

theorem Good.isFault {α} {o : Outcome α} {P : α → Prop} (h : Good o P) : o.isFault = false := by
  cases o <;> first | rfl | exact h.elim

theorem Good.of_ok {α} {o : Outcome α} {P : α → Prop} {a : α} (h : Good o P) (ho : o = .ok a) : P a := by
  subst ho; exact h

/-! ### cells: the number of bytes read never exceeds the buffer -/

theorem deserializeFrom_read_le (b : Bytes) (n readLen : Nat) (h : readLen ≤ b.length)
    {cs : List Cell} {r : Nat} (hr : deserializeFrom b n readLen = .ok (cs, r)) : r ≤ b.length := by
  induction n generalizing readLen cs r with
  | zero => unfold deserializeFrom at hr; cases hr; exact h
  | succ n ih =>
    unfold deserializeFrom at hr
    rw [if_neg (by omega)] at hr
    split at hr
    · rename_i c l hc
      have hl := cellFromCellBlock_consumed_le hc
      simp only [List.length_drop] at hl
      have hle : (readLen + l) % two32 ≤ b.length :=
        Nat.le_trans (Nat.mod_le _ _) (by omega)
      split at hr
      · rename_i cs' r' hrec
        cases hr
        exact ih _ hle hrec
      · cases hr
      · cases hr
    · cases hr
    · cases hr

theorem deserializeCellBlocks_read_le {b : Bytes} {n : Nat} {cs : List Cell} {r : Nat}
    (h : deserializeCellBlocks b n = .ok (cs, r)) : r ≤ b.length := by
  unfold deserializeCellBlocks at h
  split at h
  · cases h
  · exact deserializeFrom_read_le b n 0 (Nat.zero_le _) h

theorem getDeserialize_no_fault (r : GetResp) (b : Bytes) : (getDeserialize r b).isFault = false := by
  unfold getDeserialize
  split
  · rfl
  · have := deserializeCellBlocks_no_fault b (toU32 ((‹PResult›).assocCount.getD 0))
    split
    · rfl
    · rfl
    · rename_i w hw; rw [hw] at this; exact this

theorem getDeserialize_read_le {r r' : GetResp} {b : Bytes} {n : Nat}
    (h : getDeserialize r b = .ok (r', n)) : n ≤ b.length := by
  unfold getDeserialize at h
  split at h
  · cases h; exact Nat.zero_le _
  · split at h
    · rename_i cells read hd
      cases h
      exact deserializeCellBlocks_read_le hd
    · cases h
    · cases h

/-! ### scan -/

theorem scanLoop_no_fault (b : Bytes) (partials : List Bool) (i : Nat) (cpr : List Nat) (readLen : Nat)
    (hr : readLen ≤ b.length) (hi : i + cpr.length ≤ partials.length) :
    (scanLoop b partials i cpr readLen).isFault = false := by
  induction cpr generalizing i readLen with
  | nil => rfl
  | cons n rest ih =>
    unfold scanLoop
    rw [if_neg (by omega)]
    have nf := deserializeCellBlocks_no_fault (b.drop readLen) n
    split
    · rename_i cells l hd
      have hl := deserializeCellBlocks_read_le hd
      simp only [List.length_drop] at hl
      simp only [List.length_cons] at hi
      have hlt : i < partials.length := by omega
      split
      · rename_i hnone
        rw [List.getElem?_eq_none_iff] at hnone
        omega
      · have hle : (readLen + l) % two32 ≤ b.length :=
          Nat.le_trans (Nat.mod_le _ _) (by omega)
        have := ih (i + 1) _ hle (by omega)
        split
        · rfl
        · rfl
        · rename_i w hw; rw [hw] at this; exact this
    · rfl
    · rename_i w hw; rw [hw] at nf; exact nf

theorem scanDeserialize_no_fault' (r : ScanResp) (b : Bytes) : (scanDeserialize r b).isFault = false := by
  unfold scanDeserialize
  split
  · rfl
  · rename_i hlen
    have hlen' : r.cellsPerResult.length = r.partialFlags.length := by
      simpa using hlen
    have := scanLoop_no_fault b r.partialFlags 0 r.cellsPerResult 0 (Nat.zero_le _) (by omega)
    split
    · rfl
    · rfl
    · rename_i w hw; rw [hw] at this; exact this

/-! ### multi: validation -/

/-- The call at position `j` of `m.calls` is live (not dropped). -/
def liveAt (calls : List (Option MCall)) (j : Nat) : Bool :=
  match calls[j]? with
  | some (some _) => true
  | _ => false

/-- What `multi.DeserializeCellBlocks` has checked about one action result. -/
def ValidRoe (m : Multi) (roe : ResultOrException) : Prop :=
  roe.index.getD 0 ≠ 0 ∧ liveAt m.calls (roe.index.getD 0 - 1) = true

def ValidRar (m : Multi) (rar : RegionActionResult) : Prop :=
  (rar.exception.isSome = true → rar.roes = []) ∧
  (rar.exception = none → ∀ roe ∈ rar.roes, ValidRoe m roe)

/-- `Validated m mr`: the indices of `mr` are usable by `returnResults`. -/
def Validated (m : Multi) (mr : MultiResp) : Prop := ∀ rar ∈ mr.rars, ValidRar m rar

/-- The protobuf library's guarantee for `required` fields (`NameBytesPair.name`). -/
def ReqNBP (e : Option NameBytesPair) : Prop := ∀ x, e = some x → x.name.isSome = true
def ReqRoes (roes : List ResultOrException) : Prop := ∀ roe ∈ roes, ReqNBP roe.exception
def ReqRar (rar : RegionActionResult) : Prop := ReqNBP rar.exception ∧ ReqRoes rar.roes
def ReqMulti (mr : MultiResp) : Prop := ∀ rar ∈ mr.rars, ReqRar rar

theorem mget_of_live {m : Multi} {i : Nat} (h0 : i ≠ 0) (hl : liveAt m.calls (i - 1) = true) :
    ∃ c, mget m i = .ok (some c) := by
  unfold liveAt at hl
  unfold mget
  rw [if_neg h0]
  split at hl
  · rename_i c hc
    exact ⟨c, by rw [hc]⟩
  · cases hl

/-- Spec of the inner loop: no fault; on success the offset stays inside the buffer, every result is
valid, and `required` names are kept. -/
theorem desRoes_spec (m : Multi) (b : Bytes) (roes : List ResultOrException) (st : DState)
    (hn : st.nread ≤ b.length) :
    Good (desRoes m b roes st) (fun p =>
      p.2.nread ≤ b.length ∧ (∀ roe ∈ p.1, ValidRoe m roe) ∧ (ReqRoes roes → ReqRoes p.1)) := by
  induction roes generalizing st with
  | nil => simp [desRoes, Good, hn, ReqRoes]
  | cons roe rest ih =>
    unfold desRoes
    dsimp only
    split
    · trivial
    · rename_i h0
      split
      · trivial
      · split
        · trivial
        · split
          · trivial
          · rename_i hle
            have hlt : roe.index.getD 0 - 1 < m.calls.length := by omega
            split
            · rename_i hnone
              rw [List.getElem?_eq_none_iff] at hnone
              omega
            · trivial
            · rename_i c hc
              have hlive : liveAt m.calls (roe.index.getD 0 - 1) = true := by
                unfold liveAt; rw [hc]
              have hvalid : ValidRoe m roe := ⟨h0, hlive⟩
              split
              · trivial
              · split
                · -- an exception: nothing is read
                  rename_i e he
                  have := ih { st with seen := (roe.index.getD 0 - 1) :: st.seen } hn
                  split
                  · rename_i rs st2 hrec
                    rw [hrec] at this
                    dsimp only [Good] at this ⊢
                    obtain ⟨h1, h2, h3⟩ := this
                    refine ⟨h1, ?_, ?_⟩
                    · intro r hr
                      rcases List.mem_cons.mp hr with rfl | hr
                      · exact hvalid
                      · exact h2 r hr
                    · intro hreq r hr
                      rcases List.mem_cons.mp hr with rfl | hr
                      · exact hreq r (List.mem_cons_self ..)
                      · exact h3 (fun x hx => hreq x (List.mem_cons_of_mem _ hx)) r hr
                  · trivial
                  · rename_i w hrec; rw [hrec] at this; exact this
                · rename_i hexc
                  obtain ⟨c', hget⟩ := mget_of_live h0 hlive
                  rw [hget]
                  dsimp only
                  rw [if_neg (by omega)]
                  have gnf := getDeserialize_no_fault ⟨roe.result⟩ (b.drop st.nread)
                  split
                  · rename_i r' n hg
                    have hnle := getDeserialize_read_le hg
                    simp only [List.length_drop] at hnle
                    have hle2 : (st.nread + n) % two32 ≤ b.length :=
                      Nat.le_trans (Nat.mod_le _ _) (by omega)
                    have := ih { seen := (roe.index.getD 0 - 1) :: st.seen, nread := (st.nread + n) % two32 } hle2
                    split
                    · rename_i rs st2 hrec
                      rw [hrec] at this
                      dsimp only [Good] at this ⊢
                      obtain ⟨h1, h2, h3⟩ := this
                      refine ⟨h1, ?_, ?_⟩
                      · intro r hr
                        rcases List.mem_cons.mp hr with rfl | hr
                        · exact hvalid
                        · exact h2 r hr
                      · intro hreq r hr
                        rcases List.mem_cons.mp hr with rfl | hr
                        · intro x hx
                          simp only [hexc] at hx
                          cases hx
                        · exact h3 (fun x hx => hreq x (List.mem_cons_of_mem _ hx)) r hr
                    · trivial
                    · rename_i w hrec; rw [hrec] at this; exact this
                  · trivial
                  · rename_i w hw; rw [hw] at gnf; cases gnf

theorem desRars_spec (m : Multi) (b : Bytes) (rars : List RegionActionResult) (st : DState)
    (hn : st.nread ≤ b.length) :
    Good (desRars m b rars st) (fun p =>
      p.2.nread ≤ b.length ∧ (∀ rar ∈ p.1, ValidRar m rar) ∧
        ((∀ rar ∈ rars, ReqRar rar) → ∀ rar ∈ p.1, ReqRar rar)) := by
  induction rars generalizing st with
  | nil => simp [desRars, Good, hn]
  | cons rar rest ih =>
    unfold desRars
    split
    · rename_i e he
      split
      · trivial
      · rename_i hlen
        have hroes : rar.roes = [] := by
          cases hr : rar.roes with
          | nil => rfl
          | cons a t => rw [hr] at hlen; simp at hlen
        have := ih st hn
        split
        · rename_i rs st2 hrec
          rw [hrec] at this
          dsimp only [Good] at this ⊢
          obtain ⟨h1, h2, h3⟩ := this
          refine ⟨h1, ?_, ?_⟩
          · intro r hr
            rcases List.mem_cons.mp hr with rfl | hr
            · exact ⟨fun _ => hroes, fun hn => by rw [he] at hn; cases hn⟩
            · exact h2 r hr
          · intro hreq r hr
            rcases List.mem_cons.mp hr with rfl | hr
            · exact hreq r (List.mem_cons_self ..)
            · exact h3 (fun x hx => hreq x (List.mem_cons_of_mem _ hx)) r hr
        · trivial
        · rename_i w hrec; rw [hrec] at this; exact this
    · rename_i he
      have h1 := desRoes_spec m b rar.roes st hn
      split
      · rename_i roes st1 hroes
        rw [hroes] at h1
        obtain ⟨hn1, hv1, hq1⟩ := h1
        have := ih st1 hn1
        split
        · rename_i rs st2 hrec
          rw [hrec] at this
          dsimp only [Good] at this ⊢
          obtain ⟨g1, g2, g3⟩ := this
          refine ⟨g1, ?_, ?_⟩
          · intro r hr
            rcases List.mem_cons.mp hr with rfl | hr
            · exact ⟨fun h => by simp [he] at h, fun _ => hv1⟩
            · exact g2 r hr
          · intro hreq r hr
            rcases List.mem_cons.mp hr with rfl | hr
            · have := hreq rar (List.mem_cons_self ..)
              exact ⟨this.1, hq1 this.2⟩
            · exact g3 (fun x hx => hreq x (List.mem_cons_of_mem _ hx)) r hr
        · trivial
        · rename_i w hrec; rw [hrec] at this; exact this
      · trivial
      · rename_i w hw; rw [hw] at h1; exact h1

theorem multiDeserialize_spec (m : Multi) (mr : MultiResp) (b : Bytes) :
    Good (multiDeserialize m mr b) (fun p =>
      p.2 ≤ b.length ∧ Validated m p.1 ∧ (ReqMulti mr → ReqMulti p.1)) := by
  unfold multiDeserialize
  have := desRars_spec m b mr.rars ⟨[], 0⟩ (Nat.zero_le _)
  split
  · rename_i rars st h
    rw [h] at this
    exact this
  · trivial
  · rename_i w h; rw [h] at this; exact this

/-! ### multi: returning results -/

def outIdx (st : RState) : List Nat := st.out.map (·.1)

/-- Every position has been sent to exactly once iff it is marked answered. -/
def CInv (st : RState) : Prop :=
  ∀ j, (outIdx st).count j = if j ∈ st.answered then 1 else 0

/-- Only live calls are marked answered. -/
def AInv (calls : List (Option MCall)) (st : RState) : Prop :=
  ∀ j ∈ st.answered, liveAt calls j = true

theorem send_ok_of_count {st : RState} {j : Nat} {d : Delivery} (h : (outIdx st).count j = 0) :
    send st j d = .ok { st with out := st.out ++ [(j, d)] } := by
  unfold send
  have : (st.out.map (·.1)).contains j = false := by
    rw [List.count_eq_zero] at h
    simpa [outIdx] using h
  rw [this]
  rfl

theorem send_eq_ok {st st' : RState} {j : Nat} {d : Delivery} (h : send st j d = .ok st') :
    st' = { st with out := st.out ++ [(j, d)] } := by
  unfold send at h
  split at h
  · cases h
  · cases h; rfl

theorem outIdx_append (st : RState) (j : Nat) (d : Delivery) :
    outIdx { st with out := st.out ++ [(j, d)] } = outIdx st ++ [j] := by
  simp [outIdx]

theorem count_snoc (l : List Nat) (j k : Nat) :
    (l ++ [j]).count k = l.count k + (if k = j then 1 else 0) := by
  rw [List.count_append]
  by_cases h : k = j
  · subst h; simp
  · have : j ≠ k := fun e => h e.symm
    simp [h, this]

/-- Marking `j` answered and sending to it keeps the counting invariant. -/
theorem CInv_mark_send {st : RState} {j : Nat} {d : Delivery} (hC : CInv st)
    (hj : j ∉ st.answered) :
    CInv { answered := j :: st.answered, out := st.out ++ [(j, d)] } := by
  intro k
  have hk := hC k
  have : outIdx { answered := j :: st.answered, out := st.out ++ [(j, d)] } = outIdx st ++ [j] := by
    simp [outIdx]
  rw [this, count_snoc, hk]
  by_cases hkj : k = j
  · subst hkj
    simp [hj]
  · simp [hkj]

theorem count_zero_of_not_answered {st : RState} {j : Nat} (hC : CInv st)
    (hj : j ∉ st.answered) : (outIdx st).count j = 0 := by
  have := hC j
  rw [if_neg hj] at this
  exact this

theorem AInv_mark {calls : List (Option MCall)} {st : RState} {j : Nat} {o : List (Nat × Delivery)}
    (hA : AInv calls st) (hl : liveAt calls j = true) :
    AInv calls { answered := j :: st.answered, out := o } := by
  intro k hk
  rcases List.mem_cons.mp hk with rfl | hk
  · exact hl
  · exact hA k hk

theorem liveAt_of_getElem? {calls : List (Option MCall)} {j : Nat} {c : MCall}
    (h : calls[j]? = some (some c)) : liveAt calls j = true := by
  unfold liveAt; rw [h]

theorem liveAt_none {calls : List (Option MCall)} {j : Nat}
    (h : calls[j]? = some none) : liveAt calls j = false := by
  unfold liveAt; rw [h]

theorem liveAt_of_ge {calls : List (Option MCall)} {j : Nat} (h : calls.length ≤ j) :
    liveAt calls j = false := by
  unfold liveAt
  rw [List.getElem?_eq_none_iff.mpr h]

theorem not_contains {l : List Nat} {j : Nat} (h : ¬ (l.contains j = true)) : j ∉ l := by
  simpa using h

/-- `failRegion` over the not yet visited calls `cs` (`pre ++ cs = calls`): never faults and keeps
both invariants. -/
theorem failRegion_spec (calls : List (Option MCall)) (reg : Nat) (d : Delivery)
    (pre cs : List (Option MCall)) (hcs : pre ++ cs = calls) (st : RState)
    (hC : CInv st) (hA : AInv calls st) :
    ∃ st', failRegion reg d (indexed pre.length cs) st = .ok st' ∧ CInv st' ∧ AInv calls st' := by
  induction cs generalizing pre st with
  | nil => exact ⟨st, rfl, hC, hA⟩
  | cons c rest ih =>
    have hnext : (pre ++ [c]) ++ rest = calls := by rw [← hcs]; simp
    have hlen : (pre ++ [c]).length = pre.length + 1 := by simp
    have hget : calls[pre.length]? = some c := by rw [← hcs]; simp
    cases c with
    | none =>
      simp only [indexed, failRegion]
      have := ih (pre ++ [none]) hnext st hC hA
      rw [hlen] at this
      exact this
    | some c =>
      simp only [indexed, failRegion]
      split
      · have := ih (pre ++ [some c]) hnext st hC hA
        rw [hlen] at this
        exact this
      · rename_i hans
        have hans' := not_contains hans
        split
        · have h0 := count_zero_of_not_answered hC hans'
          have h0' : (outIdx { st with answered := pre.length :: st.answered }).count pre.length = 0 := h0
          rw [send_ok_of_count h0']
          simp only [Outcome.bind]
          have hC' := CInv_mark_send (d := d) hC hans'
          have hA' : AInv calls { answered := pre.length :: st.answered, out := st.out ++ [(pre.length, d)] } :=
            AInv_mark hA (liveAt_of_getElem? hget)
          have := ih (pre ++ [some c]) hnext _ hC' hA'
          rw [hlen] at this
          exact this
        · have := ih (pre ++ [some c]) hnext st hC hA
          rw [hlen] at this
          exact this

theorem mget_ok_live {m : Multi} {i : Nat} {c : MCall} (h : mget m i = .ok (some c)) :
    liveAt m.calls (i - 1) = true := by
  unfold mget at h
  split at h
  · cases h
  · split at h
    · cases h
    · rename_i c0 hc0
      cases h
      exact liveAt_of_getElem? hc0

/-- `returnRoes` keeps the invariants whenever it does not fault. -/
theorem returnRoes_inv (m : Multi) (roes : List ResultOrException) (st st' : RState)
    (hC : CInv st) (hA : AInv m.calls st) (h : returnRoes m roes st = .ok st') :
    CInv st' ∧ AInv m.calls st' := by
  induction roes generalizing st with
  | nil => unfold returnRoes at h; cases h; exact ⟨hC, hA⟩
  | cons roe rest ih =>
    unfold returnRoes at h
    dsimp only at h
    split at h
    · cases h
    · cases h
    · rename_i c hget
      split at h
      · exact ih st hC hA h
      · rename_i hans
        have hans' := not_contains hans
        have step : ∀ (d : Delivery) (cc : MCall), c = some cc →
            (send { st with answered := (roe.index.getD 0 - 1) :: st.answered } (roe.index.getD 0 - 1) d).bind
              (fun st' => returnRoes m rest st') = .ok st' → CInv st' ∧ AInv m.calls st' := by
          intro d cc hcc hb
          obtain ⟨s1, hs1, hrec⟩ := bind_eq_ok hb
          have hs1eq := send_eq_ok hs1
          subst hs1eq
          have hlive : liveAt m.calls (roe.index.getD 0 - 1) = true := mget_ok_live (hcc ▸ hget)
          exact ih _ (CInv_mark_send hC hans') (AInv_mark hA hlive) hrec
        split at h
        · rename_i e he
          split at h
          · cases h
          · cases h
          · exact step _ _ rfl h
        · split at h
          · cases h
          · exact step _ _ rfl h

/-- `returnRoes` does not fault on validated results (given the `required` names). -/
theorem returnRoes_no_fault (m : Multi) (roes : List ResultOrException) (st : RState)
    (hC : CInv st) (hA : AInv m.calls st) (hv : ∀ roe ∈ roes, ValidRoe m roe) (hq : ReqRoes roes) :
    (returnRoes m roes st).isFault = false := by
  induction roes generalizing st with
  | nil => rfl
  | cons roe rest ih =>
    have hv' : ∀ r ∈ rest, ValidRoe m r := fun r hr => hv r (List.mem_cons_of_mem _ hr)
    have hq' : ReqRoes rest := fun r hr => hq r (List.mem_cons_of_mem _ hr)
    obtain ⟨h0, hl⟩ := hv roe (List.mem_cons_self ..)
    obtain ⟨c, hget⟩ := mget_of_live h0 hl
    unfold returnRoes
    dsimp only
    rw [hget]
    dsimp only
    split
    · exact ih st hC hA hv' hq'
    · rename_i hans
      have hans' := not_contains hans
      have h0c := count_zero_of_not_answered hC hans'
      have h0' : (outIdx { st with answered := (roe.index.getD 0 - 1) :: st.answered }).count
          (roe.index.getD 0 - 1) = 0 := h0c
      have stepnf : ∀ d : Delivery,
          ((send { st with answered := (roe.index.getD 0 - 1) :: st.answered } (roe.index.getD 0 - 1) d).bind
            (fun st' => returnRoes m rest st')).isFault = false := by
        intro d
        rw [send_ok_of_count h0']
        simp only [Outcome.bind]
        exact ih _ (CInv_mark_send hC hans') (AInv_mark hA hl) hv' hq'
      split
      · rename_i e he
        have hname := hq roe (List.mem_cons_self ..) e he
        cases hn : e.name with
        | none => rw [hn] at hname; cases hname
        | some n => exact stepnf _
      · exact stepnf _

theorem returnRars_inv (m : Multi) (rars : List RegionActionResult) (i : Nat) (st st' : RState)
    (hC : CInv st) (hA : AInv m.calls st) (h : returnRars m i rars st = .ok st') :
    CInv st' ∧ AInv m.calls st' := by
  induction rars generalizing i st with
  | nil => unfold returnRars at h; cases h; exact ⟨hC, hA⟩
  | cons rar rest ih =>
    unfold returnRars at h
    split at h
    · rename_i e he
      split at h
      · exact ih _ st hC hA h
      · split at h
        · cases h
        · rename_i reg hreg
          split at h
          · cases h
          · rename_i n hn
            obtain ⟨s1, hs1, hrec⟩ := bind_eq_ok h
            obtain ⟨s1', hs1', hC1, hA1⟩ := failRegion_spec m.calls reg
              (errD (exceptionToError n (e.value.getD []))) [] m.calls rfl st hC hA
            simp only [List.length_nil] at hs1'
            rw [hs1'] at hs1
            cases hs1
            exact ih _ _ hC1 hA1 hrec
    · obtain ⟨s1, hs1, hrec⟩ := bind_eq_ok h
      obtain ⟨hC1, hA1⟩ := returnRoes_inv m rar.roes st s1 hC hA hs1
      exact ih _ _ hC1 hA1 hrec

theorem returnRars_no_fault (m : Multi) (rars : List RegionActionResult) (i : Nat) (st : RState)
    (hC : CInv st) (hA : AInv m.calls st) (hv : ∀ rar ∈ rars, ValidRar m rar)
    (hq : ∀ rar ∈ rars, ReqRar rar) : (returnRars m i rars st).isFault = false := by
  induction rars generalizing i st with
  | nil => rfl
  | cons rar rest ih =>
    have hv' : ∀ r ∈ rest, ValidRar m r := fun r hr => hv r (List.mem_cons_of_mem _ hr)
    have hq' : ∀ r ∈ rest, ReqRar r := fun r hr => hq r (List.mem_cons_of_mem _ hr)
    unfold returnRars
    split
    · rename_i e he
      split
      · exact ih _ st hC hA hv' hq'
      · rename_i hi
        have hi' : i < m.regions.length := by omega
        split
        · rename_i hnone
          rw [List.getElem?_eq_none_iff] at hnone
          omega
        · rename_i reg hreg
          have hname := (hq rar (List.mem_cons_self ..)).1 e he
          split
          · rename_i hn; rw [hn] at hname; cases hname
          · rename_i n hn
            obtain ⟨s1, hs1, hC1, hA1⟩ := failRegion_spec m.calls reg
              (errD (exceptionToError n (e.value.getD []))) [] m.calls rfl st hC hA
            simp only [List.length_nil] at hs1
            rw [hs1]
            simp only [Outcome.bind]
            exact ih _ _ hC1 hA1 hv' hq'
    · rename_i he
      have hvr := (hv rar (List.mem_cons_self ..)).2 he
      have hqr := (hq rar (List.mem_cons_self ..)).2
      apply isFault_bind (returnRoes_no_fault m rar.roes st hC hA hvr hqr)
      intro s1 hs1
      obtain ⟨hC1, hA1⟩ := returnRoes_inv m rar.roes st s1 hC hA hs1
      exact ih _ _ hC1 hA1 hv' hq'

/-- The final sweep over the calls not yet visited: never faults; afterwards a position holds exactly
one result iff it was answered before or is a live call. -/
theorem sweep_spec (calls : List (Option MCall)) (ans : List Nat)
    (pre cs : List (Option MCall)) (hcs : pre ++ cs = calls) (st : RState) (hans : st.answered = ans)
    (hI : ∀ j, (outIdx st).count j =
      if j ∈ ans ∨ (j < pre.length ∧ liveAt calls j = true) then 1 else 0) :
    ∃ st', sweep (indexed pre.length cs) st = .ok st' ∧
      ∀ j, (outIdx st').count j = if j ∈ ans ∨ liveAt calls j = true then 1 else 0 := by
  induction cs generalizing pre st with
  | nil =>
    refine ⟨st, rfl, ?_⟩
    intro j
    rw [hI j]
    have hlen : pre.length = calls.length := by rw [← hcs]; simp
    by_cases hj : j < calls.length
    · simp [hlen, hj]
    · have : liveAt calls j = false := liveAt_of_ge (by omega)
      simp [this]
  | cons c rest ih =>
    have hnext : (pre ++ [c]) ++ rest = calls := by rw [← hcs]; simp
    have hlen : (pre ++ [c]).length = pre.length + 1 := by simp
    have hget : calls[pre.length]? = some c := by rw [← hcs]; simp
    cases c with
    | none =>
      simp only [indexed, sweep]
      have hdead := liveAt_none hget
      have := ih (pre ++ [none]) hnext st hans (by
        intro j
        rw [hI j, hlen]
        by_cases hj : j = pre.length
        · subst hj; simp [hdead]
        · have : (j < pre.length + 1) ↔ (j < pre.length) := by omega
          simp only [this])
      rw [hlen] at this
      exact this
    | some c =>
      simp only [indexed, sweep]
      have hlive := liveAt_of_getElem? hget
      split
      · rename_i ha
        rw [hans] at ha
        have ha' : pre.length ∈ ans := by simpa using ha
        have := ih (pre ++ [some c]) hnext st hans (by
          intro j
          rw [hI j, hlen]
          by_cases hj : j = pre.length
          · subst hj; simp [ha']
          · have : (j < pre.length + 1) ↔ (j < pre.length) := by omega
            simp only [this])
        rw [hlen] at this
        exact this
      · rename_i ha
        rw [hans] at ha
        have ha' : pre.length ∉ ans := not_contains ha
        have h0 : (outIdx st).count pre.length = 0 := by
          rw [hI pre.length]
          simp [ha']
        rw [send_ok_of_count h0]
        simp only [Outcome.bind]
        have := ih (pre ++ [some c]) hnext { st with out := st.out ++ [(pre.length, errD .retryable)] } hans (by
          intro j
          rw [outIdx_append, count_snoc, hI j, hlen]
          by_cases hj : j = pre.length
          · subst hj; simp [ha', hlive]
          · have : (j < pre.length + 1) ↔ (j < pre.length) := by omega
            simp only [this]
            simp [hj])
        rw [hlen] at this
        exact this

/-- `failAll`: one send, of `d`, to every live call. -/
theorem failAll_spec (calls : List (Option MCall)) (d : Delivery)
    (pre cs : List (Option MCall)) (hcs : pre ++ cs = calls) (st : RState)
    (hI : ∀ j, (outIdx st).count j = if j < pre.length ∧ liveAt calls j = true then 1 else 0)
    (hD : ∀ p ∈ st.out, p.2 = d) :
    ∃ st', failAll d (indexed pre.length cs) st = .ok st' ∧
      (∀ j, (outIdx st').count j = if liveAt calls j = true then 1 else 0) ∧ (∀ p ∈ st'.out, p.2 = d) := by
  induction cs generalizing pre st with
  | nil =>
    refine ⟨st, rfl, ?_, hD⟩
    intro j
    rw [hI j]
    have hlen : pre.length = calls.length := by rw [← hcs]; simp
    by_cases hj : j < calls.length
    · simp [hlen, hj]
    · have : liveAt calls j = false := liveAt_of_ge (by omega)
      simp [this]
  | cons c rest ih =>
    have hnext : (pre ++ [c]) ++ rest = calls := by rw [← hcs]; simp
    have hlen : (pre ++ [c]).length = pre.length + 1 := by simp
    have hget : calls[pre.length]? = some c := by rw [← hcs]; simp
    cases c with
    | none =>
      simp only [indexed, failAll]
      have hdead := liveAt_none hget
      have := ih (pre ++ [none]) hnext st (by
        intro j
        rw [hI j, hlen]
        by_cases hj : j = pre.length
        · subst hj; simp [hdead]
        · have : (j < pre.length + 1) ↔ (j < pre.length) := by omega
          simp only [this]) hD
      rw [hlen] at this
      exact this
    | some c =>
      simp only [indexed, failAll]
      have hlive := liveAt_of_getElem? hget
      have h0 : (outIdx st).count pre.length = 0 := by
        rw [hI pre.length]
        simp
      rw [send_ok_of_count h0]
      simp only [Outcome.bind]
      have := ih (pre ++ [some c]) hnext { st with out := st.out ++ [(pre.length, d)] } (by
        intro j
        rw [outIdx_append, count_snoc, hI j, hlen]
        by_cases hj : j = pre.length
        · subst hj; simp [hlive]
        · have : (j < pre.length + 1) ↔ (j < pre.length) := by omega
          simp only [this]
          simp [hj]) (by
        intro p hp
        rcases List.mem_append.mp hp with hp | hp
        · exact hD p hp
        · simp at hp; subst hp; rfl)
      rw [hlen] at this
      exact this

theorem CInv_init : CInv ⟨[], []⟩ := by
  intro j; simp [outIdx]

theorem AInv_init (calls : List (Option MCall)) : AInv calls ⟨[], []⟩ := by
  intro j hj; simp at hj

/-- Error path of `returnResults`. -/
theorem multiReturn_err (m : Multi) (msg : Option MultiResp) (e : ErrCls) :
    ∃ ds, multiReturn m msg (some e) = .ok ds ∧
      (∀ j, (ds.map (·.1)).count j = if liveAt m.calls j = true then 1 else 0) ∧
      (∀ p ∈ ds, p.2 = errD e) := by
  obtain ⟨st', h1, h2, h3⟩ := failAll_spec m.calls (errD e) [] m.calls rfl ⟨[], []⟩
    (by intro j; simp [outIdx]) (by intro p hp; simp at hp)
  refine ⟨st'.out, ?_, h2, h3⟩
  simp only [multiReturn]
  simp only [List.length_nil] at h1
  rw [h1]
  rfl

/-- Whenever `returnResults` completes, every live call got exactly one result and no dropped call
got any. -/
theorem multiReturn_counts (m : Multi) (msg : Option MultiResp) (err : Option ErrCls)
    (ds : List (Nat × Delivery)) (h : multiReturn m msg err = .ok ds) :
    ∀ j, (ds.map (·.1)).count j = if liveAt m.calls j = true then 1 else 0 := by
  cases err with
  | some e =>
    obtain ⟨ds', h1, h2, _⟩ := multiReturn_err m msg e
    rw [h1] at h; cases h; exact h2
  | none =>
    cases msg with
    | none => simp [multiReturn] at h
    | some mr =>
      simp only [multiReturn] at h
      obtain ⟨st2, hst2, hout⟩ := map_eq_ok h
      obtain ⟨st1, hst1, hsw⟩ := bind_eq_ok hst2
      obtain ⟨hC1, hA1⟩ := returnRars_inv m mr.rars 0 ⟨[], []⟩ st1 CInv_init (AInv_init _) hst1
      obtain ⟨st2', hsw', hcnt⟩ := sweep_spec m.calls st1.answered [] m.calls rfl st1 rfl (by
        intro j
        rw [hC1 j]
        simp)
      simp only [List.length_nil] at hsw'
      rw [hsw'] at hsw
      cases hsw
      subst hout
      intro j
      have := hcnt j
      rw [show (st2.out.map (·.1)) = outIdx st2 from rfl, this]
      by_cases ha : j ∈ st1.answered
      · simp [ha, hA1 j ha]
      · simp [ha]

/-- A validated response is returned without a fault. -/
theorem multiReturn_no_fault (m : Multi) (mr : MultiResp) (hv : Validated m mr) (hq : ReqMulti mr) :
    (multiReturn m (some mr) none).isFault = false := by
  simp only [multiReturn]
  rw [isFault_map]
  apply isFault_bind (returnRars_no_fault m mr.rars 0 ⟨[], []⟩ CInv_init (AInv_init _) hv hq)
  intro st1 hst1
  obtain ⟨hC1, _⟩ := returnRars_inv m mr.rars 0 ⟨[], []⟩ st1 CInv_init (AInv_init _) hst1
  obtain ⟨st2', hsw', _⟩ := sweep_spec m.calls st1.answered [] m.calls rfl st1 rfl (by
    intro j
    rw [hC1 j]
    simp)
  simp only [List.length_nil] at hsw'
  rw [hsw']
  rfl

/-! ### receive -/

/-- The message fits the call: what `rpc.NewResponse()` creates (or no message at all). -/
def MsgFits : Rpc → Msg → Prop
  | .multi _, .multi _ => True
  | .multi _, .nil => True
  | .multi _, _ => False
  | _, _ => True

/-- The protobuf library's `required` guarantee for everything a message carries. -/
def ReqMsg : Msg → Prop
  | .multi mr => ReqMulti mr
  | _ => True

def ReqDecoded (d : Decoded) : Prop := ∀ mr, d.multi = some mr → ReqMulti mr

theorem finish_err_no_fault (rpc : Rpc) (msg : Msg) (e : ErrCls) (hf : MsgFits rpc msg) :
    (finish rpc msg (some e)).isFault = false := by
  unfold finish
  rw [isFault_map]
  unfold returnResult
  cases rpc with
  | multi m =>
    cases msg with
    | multi mr =>
      obtain ⟨ds, h, _⟩ := multiReturn_err m (some mr) e
      simp only [h]; rfl
    | nil =>
      obtain ⟨ds, h, _⟩ := multiReturn_err m none e
      simp only [h]; rfl
    | get _ => exact hf.elim
    | mutate _ => exact hf.elim
    | scan _ => exact hf.elim
    | other => exact hf.elim
  | get => rfl
  | mutate => rfl
  | scan => rfl
  | other => rfl

theorem finish_single_no_fault (rpc : Rpc) (msg : Msg) (err : Option ErrCls) (h : isMulti rpc = false) :
    (finish rpc msg err).isFault = false := by
  unfold finish
  rw [isFault_map]
  unfold returnResult
  cases rpc with
  | multi m => cases h
  | get => rfl
  | mutate => rfl
  | scan => rfl
  | other => rfl

theorem finish_multi_ok_no_fault (m : Multi) (mr : MultiResp) (hv : Validated m mr) (hq : ReqMulti mr) :
    (finish (.multi m) (.multi mr) none).isFault = false := by
  unfold finish
  rw [isFault_map]
  exact multiReturn_no_fault m mr hv hq

theorem finishOk_single_no_fault (rpc : Rpc) (msg : Msg) (h : isMulti rpc = false) :
    (finishOk rpc msg).isFault = false := by
  cases rpc with
  | multi m => cases h
  | get => rfl
  | mutate => rfl
  | scan => rfl
  | other => rfl

theorem finishOk_multi_eq (m : Multi) (mr : MultiResp) :
    finishOk (.multi m) (.multi mr)
      = (multiReturn m (some mr) none).map (fun ds => ⟨ds, serverErrorIn mr⟩) := rfl

theorem finishOk_multi_no_fault (m : Multi) (mr : MultiResp) (hv : Validated m mr) (hq : ReqMulti mr) :
    (finishOk (.multi m) (.multi mr)).isFault = false := by
  rw [finishOk_multi_eq, isFault_map]
  exact multiReturn_no_fault m mr hv hq

theorem emptyFor_fits (rpc : Rpc) : MsgFits rpc (emptyFor rpc) := by
  cases rpc <;> trivial

theorem decodeFor_fits {rpc : Rpc} {d : Decoded} {msg : Msg} (h : decodeFor rpc d = some msg) :
    MsgFits rpc msg := by
  cases rpc with
  | multi m =>
    simp only [decodeFor] at h
    cases hd : d.multi with
    | none => rw [hd] at h; cases h
    | some mr => rw [hd] at h; cases h; trivial
  | get => trivial
  | mutate => trivial
  | scan => trivial
  | other => trivial

/-- `DeserializeCellBlocks` on the message the call's own `NewResponse` produced: no fault; for a
multi the accepted response is validated. -/
theorem deserializeFor_spec {rpc : Rpc} {d : Decoded} {msg : Msg} (h : decodeFor rpc d = some msg)
    (hc : canDeserialize rpc = true) (hq : ReqDecoded d) (b : Bytes) :
    Good (deserializeFor rpc msg b) (fun p => MsgFits rpc p.1 ∧
      (∀ m, rpc = .multi m → ∃ mr, p.1 = .multi mr ∧ Validated m mr ∧ ReqMulti mr)) := by
  cases rpc with
  | get =>
    simp only [decodeFor] at h
    cases hd : d.get with
    | none => rw [hd] at h; cases h
    | some r =>
      rw [hd] at h; cases h
      simp only [deserializeFor]
      have := getDeserialize_no_fault r b
      cases hg : getDeserialize r b with
      | ok p => exact ⟨trivial, fun m hm => by cases hm⟩
      | err e => trivial
      | fault w => rw [hg] at this; cases this
  | mutate =>
    simp only [decodeFor] at h
    cases hd : d.mutate with
    | none => rw [hd] at h; cases h
    | some r =>
      rw [hd] at h; cases h
      simp only [deserializeFor]
      have := getDeserialize_no_fault r b
      cases hg : getDeserialize r b with
      | ok p => exact ⟨trivial, fun m hm => by cases hm⟩
      | err e => trivial
      | fault w => rw [hg] at this; cases this
  | scan =>
    simp only [decodeFor] at h
    cases hd : d.scan with
    | none => rw [hd] at h; cases h
    | some r =>
      rw [hd] at h; cases h
      simp only [deserializeFor]
      have := scanDeserialize_no_fault' r b
      cases hg : scanDeserialize r b with
      | ok p => exact ⟨trivial, fun m hm => by cases hm⟩
      | err e => trivial
      | fault w => rw [hg] at this; cases this
  | multi m =>
    simp only [decodeFor] at h
    cases hd : d.multi with
    | none => rw [hd] at h; cases h
    | some mr =>
      rw [hd] at h; cases h
      simp only [deserializeFor]
      have := multiDeserialize_spec m mr b
      cases hg : multiDeserialize m mr b with
      | ok p =>
        rw [hg] at this
        obtain ⟨_, hv, hr⟩ := this
        refine ⟨trivial, fun m' hm => ?_⟩
        cases hm
        exact ⟨p.1, rfl, hv, hr (hq mr hd)⟩
      | err e => trivial
      | fault w => rw [hg] at this; exact this.elim
  | other => cases hc

theorem subU64_of_le {a b : Nat} (ha : a < two64) (h : b ≤ a) : subU64 a b = a - b := by
  unfold subU64
  have hb : b < two64 := Nat.lt_of_le_of_lt h ha
  rw [Nat.mod_eq_of_lt ha, Nat.mod_eq_of_lt hb]
  have : a + two64 - b = (a - b) + two64 := by omega
  rw [this, Nat.add_mod_right, Nat.mod_eq_of_lt (by omega)]

/-- The main lemma: `receive` never faults. -/
theorem receiveDecide_no_fault (lookup : Nat → Option Rpc) (ctxDone : Bool)
    (decompress : Option (Bytes → Outcome Bytes)) (f : Frame) (hwf : f.WF)
    (hreq : ReqDecoded f.decoded)
    (hdec : ∀ dec, decompress = some dec → ∀ b, (dec b).isFault = false) :
    (receiveDecide lookup ctxDone decompress f).isFault = false := by
  obtain ⟨hsize, hlens⟩ := hwf
  unfold receiveDecide
  dsimp only
  split
  · rfl
  · split
    · rfl
    · rename_i rpc hrpc
      split
      · rfl
      · split
        · exact finish_err_no_fault _ _ _ (by cases rpc <;> trivial)
        · rw [if_neg (by omega)]
          split
          · exact finish_err_no_fault _ _ _ (emptyFor_fits rpc)
          · rename_i respLen hrl
            rw [hrl] at hlens
            simp only [Option.getD_some] at hlens
            split
            · exact finish_err_no_fault _ _ _ (emptyFor_fits rpc)
            · rename_i msg hmsg
              have hfits := decodeFor_fits hmsg
              generalize hcl : cellsLenOf f.header = cellsLen
              have hclt : cellsLen < two32 := by
                rw [← hcl]; unfold cellsLenOf
                split
                · exact Nat.mod_lt _ (by decide)
                · decide
              split
              · -- DeserializeCellBlocks is not called: a single call, or one without the method
                rename_i hcond
                apply finishOk_single_no_fault
                cases rpc with
                | multi m => simp [isMulti, canDeserialize] at hcond
                | get => rfl
                | mutate => rfl
                | scan => rfl
                | other => rfl
              · rename_i hcond
                have hcan : canDeserialize rpc = true := by
                  cases hc : canDeserialize rpc with
                  | true => rfl
                  | false => simp [hc] at hcond
                split
                · exact finish_err_no_fault _ _ _ hfits
                · rename_i hguard
                  -- the guard has passed: cellsLen ≤ size - headerLen - respLen
                  have t64 : two32 < two64 := by decide
                  have h1 : subU64 f.body.length f.headerLen = f.body.length - f.headerLen :=
                    subU64_of_le (by omega) (by omega)
                  have hrest : subU64 (subU64 f.body.length f.headerLen) respLen
                      = f.body.length - f.headerLen - respLen := by
                    rw [h1, subU64_of_le (by omega) (by omega)]
                  rw [hrest] at hguard
                  have hle : cellsLen ≤ f.body.length := by omega
                  have hsub : subU32 f.body.length cellsLen = f.body.length - cellsLen :=
                    subU32_of_le hsize hle
                  rw [hsub, if_neg (by omega)]
                  -- decompression
                  have hcb : ∀ (cb' : Outcome Bytes), cb'.isFault = false →
                      (match cb' with
                        | .fault w => Outcome.fault w
                        | .err _ => finish rpc msg (some .retryable)
                        | .ok cb =>
                          match deserializeFor rpc msg cb with
                          | .fault w => .fault w
                          | .err _ => finish rpc msg (some .retryable)
                          | .ok (msg', nread) =>
                            if nread < cb.length then finish rpc msg' (some .retryable)
                            else finishOk rpc msg').isFault = false := by
                    intro cb' hnf
                    cases cb' with
                    | fault w => cases hnf
                    | err e => exact finish_err_no_fault _ _ _ hfits
                    | ok cb =>
                      dsimp only
                      have hspec := deserializeFor_spec hmsg hcan hreq cb
                      cases hd : deserializeFor rpc msg cb with
                      | fault w => rw [hd] at hspec; exact hspec.elim
                      | err e => exact finish_err_no_fault _ _ _ hfits
                      | ok p =>
                        rw [hd] at hspec
                        obtain ⟨hfit', hmulti⟩ := hspec
                        obtain ⟨msg', nread⟩ := p
                        dsimp only
                        split
                        · exact finish_err_no_fault _ _ _ hfit'
                        · cases rpc with
                          | multi m =>
                            obtain ⟨mr, hmr, hv, hq⟩ := hmulti m rfl
                            dsimp only at hmr
                            subst hmr
                            exact finishOk_multi_no_fault m mr hv hq
                          | get => exact finishOk_single_no_fault _ _ rfl
                          | mutate => exact finishOk_single_no_fault _ _ rfl
                          | scan => exact finishOk_single_no_fault _ _ rfl
                          | other => exact finishOk_single_no_fault _ _ rfl
                  apply hcb
                  cases decompress with
                  | none => rfl
                  | some dec => exact hdec dec rfl _

/-- Every completed `receive` for a multi hands exactly one result to each live call. -/
theorem receiveDecide_multi_counts (lookup : Nat → Option Rpc) (decompress : Option (Bytes → Outcome Bytes))
    (f : Frame) (id : Nat) (m : Multi) (v : Verdict)
    (hid : f.header.callId = some id) (hl : lookup id = some (.multi m))
    (h : receiveDecide lookup false decompress f = .ok v) :
    ∀ j, (v.deliveries.map (·.1)).count j = if liveAt m.calls j = true then 1 else 0 := by
  have key : ∀ msg err, finish (.multi m) msg err = .ok v →
      ∀ j, (v.deliveries.map (·.1)).count j = if liveAt m.calls j = true then 1 else 0 := by
    intro msg err hf
    unfold finish at hf
    obtain ⟨ds, hds, hv⟩ := map_eq_ok hf
    subst hv
    unfold returnResult at hds
    cases msg with
    | multi mr => exact multiReturn_counts m _ _ ds hds
    | nil => exact multiReturn_counts m _ _ ds hds
    | get _ => cases hds
    | mutate _ => cases hds
    | scan _ => cases hds
    | other => cases hds
  have keyOk : ∀ msg, finishOk (.multi m) msg = .ok v →
      ∀ j, (v.deliveries.map (·.1)).count j = if liveAt m.calls j = true then 1 else 0 := by
    intro msg hf
    cases msg with
    | multi mr =>
      rw [finishOk_multi_eq] at hf
      obtain ⟨ds, hds, hv⟩ := map_eq_ok hf
      subst hv
      exact multiReturn_counts m _ _ ds hds
    | nil => cases hf
    | get _ => cases hf
    | mutate _ => cases hf
    | scan _ => cases hf
    | other => cases hf
  unfold receiveDecide at h
  dsimp only at h
  rw [hid] at h
  dsimp only at h
  rw [hl] at h
  dsimp only at h
  simp only [Bool.false_eq_true, if_false] at h
  repeat' split at h
  all_goals first
    | exact key _ _ h
    | exact keyOk _ h
    | cases h

/-! ### a server-class exception inside a multi response -/

/-- `DeserializeCellBlocks` fills in cells; it leaves every exception where it is. -/
theorem desRoes_exc (m : Multi) (b : Bytes) (roes : List ResultOrException) (st : DState)
    {rs : List ResultOrException} {st' : DState} (h : desRoes m b roes st = .ok (rs, st')) :
    rs.map (·.exception) = roes.map (·.exception) := by
  induction roes generalizing st rs st' with
  | nil => unfold desRoes at h; cases h; rfl
  | cons roe rest ih =>
    unfold desRoes at h
    dsimp only at h
    split at h
    · cases h
    split at h
    · cases h
    split at h
    · cases h
    split at h
    · cases h
    split at h
    · cases h
    · cases h
    · split at h
      · cases h
      split at h
      · split at h
        · rename_i rs' st2 hrec
          cases h
          simp [ih _ hrec]
        · cases h
        · cases h
      · rename_i hexc
        split at h
        · cases h
        · cases h
        · cases h
        · split at h
          · cases h
          split at h
          · split at h
            · rename_i rs' st2 hrec
              cases h
              simp [ih _ hrec]
            · cases h
            · cases h
          · cases h
          · cases h

theorem any_exc_congr {rs roes : List ResultOrException}
    (h : rs.map (·.exception) = roes.map (·.exception)) :
    rs.any (fun roe => excIsServer roe.exception) = roes.any (fun roe => excIsServer roe.exception) := by
  have := congrArg (fun l => l.any excIsServer) h
  simpa [List.any_map, Function.comp_def] using this

/-- The test `serverErrorIn` applies to one region result. -/
def rarServer (rar : RegionActionResult) : Bool :=
  excIsServer rar.exception || rar.roes.any (fun roe => excIsServer roe.exception)

theorem desRars_server (m : Multi) (b : Bytes) (rars : List RegionActionResult) (st : DState)
    {rs : List RegionActionResult} {st' : DState} (h : desRars m b rars st = .ok (rs, st')) :
    rs.any rarServer = rars.any rarServer := by
  induction rars generalizing st rs st' with
  | nil => unfold desRars at h; cases h; rfl
  | cons rar rest ih =>
    unfold desRars at h
    split at h
    · split at h
      · cases h
      split at h
      · rename_i rs' st2 hrec
        cases h
        simp [ih _ hrec]
      · cases h
      · cases h
    · split at h
      · rename_i roes st1 hroes
        split at h
        · rename_i rs' st2 hrec
          cases h
          simp [ih _ hrec, rarServer, any_exc_congr (desRoes_exc m b _ _ hroes)]
        · cases h
        · cases h
      · cases h
      · cases h

/-- What `serverErrorIn` finds in the response after `DeserializeCellBlocks` is what the wire
message held. -/
theorem multiDeserialize_serverErrorIn {m : Multi} {mr mr' : MultiResp} {b : Bytes} {n : Nat}
    (h : multiDeserialize m mr b = .ok (mr', n)) : serverErrorIn mr' = serverErrorIn mr := by
  unfold multiDeserialize at h
  split at h
  · rename_i rars st hd
    cases h
    exact desRars_server m b mr.rars _ hd
  · cases h
  · cases h

/-- The accepted path of `receive` for a multi, spelled out: no header exception, a response that
decodes, a `cell_block_meta` length that fits, a cellblock `DeserializeCellBlocks` accepts and reads
completely.  Every call gets what `returnResults(response, nil)` gives it, and `receive` returns a
`ServerError` exactly if the response holds a server-class exception. -/
theorem receiveDecide_multi_accepted (lookup : Nat → Option Rpc) (f : Frame) (id rl : Nat) (m : Multi)
    (mr mr' : MultiResp) (n : Nat) (hwf : f.WF)
    (hid : f.header.callId = some id) (hl : lookup id = some (.multi m))
    (hexc : f.header.exception = none) (hrl : f.respLen = some rl)
    (hdec : f.decoded.multi = some mr)
    (hcl : cellsLenOf f.header ≤ f.body.length - f.headerLen - rl)
    (hdes : multiDeserialize m mr (f.body.drop (f.body.length - cellsLenOf f.header)) = .ok (mr', n))
    (hn : cellsLenOf f.header ≤ n) :
    receiveDecide lookup false none f
      = (multiReturn m (some mr') none).map (fun ds => ⟨ds, serverErrorIn mr⟩) := by
  obtain ⟨hsize, hlens⟩ := hwf
  rw [hrl] at hlens
  simp only [Option.getD_some] at hlens
  have t64 : two32 < two64 := by decide
  have h1 : subU64 f.body.length f.headerLen = f.body.length - f.headerLen :=
    subU64_of_le (by omega) (by omega)
  have hrest : subU64 (subU64 f.body.length f.headerLen) rl = f.body.length - f.headerLen - rl := by
    rw [h1, subU64_of_le (by omega) (by omega)]
  have hle : cellsLenOf f.header ≤ f.body.length := by omega
  have hsub : subU32 f.body.length (cellsLenOf f.header) = f.body.length - cellsLenOf f.header :=
    subU32_of_le hsize hle
  have hse := multiDeserialize_serverErrorIn hdes
  unfold receiveDecide
  simp only [hid, hl, hexc, hrl, decodeFor, hdec, Option.map_some, isMulti, canDeserialize,
    Bool.or_true, Bool.and_true, Bool.not_true, Bool.false_eq_true, if_false, hrest, hsub]
  rw [if_neg (by omega), if_neg (by omega), if_neg (by omega)]
  simp only [deserializeFor, hdes, Outcome.map]
  rw [if_neg (by simp only [List.length_drop]; omega), finishOk_multi_eq, hse]
  cases multiReturn m (some mr') none <;> rfl

/-- `receive` returns a `ServerError` for the response to a multi only for a server-class exception:
in the header (then every call gets that error), or inside the accepted response (then every call
has got what `returnResults(response, nil)` gives it). -/
theorem receiveDecide_multi_connFail_cause (lookup : Nat → Option Rpc)
    (decompress : Option (Bytes → Outcome Bytes)) (f : Frame) (id : Nat) (m : Multi) (v : Verdict)
    (hid : f.header.callId = some id) (hl : lookup id = some (.multi m))
    (h : receiveDecide lookup false decompress f = .ok v) (hcf : v.connFail = true) :
    (∃ e, f.header.exception = some e ∧
        exceptionToError (e.className.getD []) (e.stackTrace.getD []) = .connErr ∧
        multiReturn m none (some .connErr) = .ok v.deliveries) ∨
    (f.header.exception = none ∧
      ∃ mr, serverErrorIn mr = true ∧ multiReturn m (some mr) none = .ok v.deliveries) := by
  have key : ∀ msg, finish (.multi m) msg (some .retryable) = .ok v → False := by
    intro msg hf
    unfold finish at hf
    obtain ⟨ds, _, hv⟩ := map_eq_ok hf
    subst hv
    cases hcf
  have keyOk : ∀ msg, finishOk (.multi m) msg = .ok v →
      ∃ mr, serverErrorIn mr = true ∧ multiReturn m (some mr) none = .ok v.deliveries := by
    intro msg hf
    cases msg with
    | multi mr =>
      rw [finishOk_multi_eq] at hf
      obtain ⟨ds, hds, hv⟩ := map_eq_ok hf
      subst hv
      exact ⟨mr, hcf, hds⟩
    | nil => cases hf
    | get _ => cases hf
    | mutate _ => cases hf
    | scan _ => cases hf
    | other => cases hf
  unfold receiveDecide at h
  dsimp only at h
  rw [hid] at h
  dsimp only at h
  rw [hl] at h
  dsimp only at h
  simp only [Bool.false_eq_true, if_false] at h
  split at h
  · rename_i e he
    left
    unfold finish at h
    obtain ⟨ds, hds, hv⟩ := map_eq_ok h
    subst hv
    have hc : exceptionToError (e.className.getD []) (e.stackTrace.getD []) = .connErr := by
      simpa using hcf
    rw [hc] at hds
    exact ⟨e, he, hc, hds⟩
  · right
    refine ⟨by assumption, ?_⟩
    repeat' split at h
    all_goals first
      | exact (key _ h).elim
      | exact keyOk _ h
      | cases h

/-! ### scanner -/

theorem coalesce_no_fault' (result : Option PResult) (part : PResult) :
    (coalesce result part).isFault = false := by
  unfold coalesce
  cases result with
  | none => rfl
  | some r =>
    dsimp only
    split
    · rfl
    · cases hr : r.cells with
      | nil => simp [Outcome.isFault]
      | cons a as =>
        cases hp : part.cells with
        | nil => simp [Outcome.isFault]
        | cons b bs =>
          simp only [List.length_cons, cell0]
          by_cases hab : (a.row != b.row) = true
          · simp [hab, Outcome.isFault]
          · simp [hab, Outcome.isFault]

/-- When `coalesce` does not consume the partial result, the result it returns is complete. -/
theorem coalesce_not_done {result : Option PResult} {part r : PResult}
    (h : coalesce result part = .ok (r, false)) : r.partialFlag.getD false = false := by
  unfold coalesce at h
  cases result with
  | none => cases h
  | some r0 =>
    dsimp only at h
    split at h
    · rename_i hp
      cases h
      simpa using hp
    · split at h
      · cases h
      · cases h
      · cases h; rfl
      · cases h

theorem nextLoop_no_fault' (result : Option PResult) (buf : List PResult) :
    (nextLoop result buf).isFault = false := by
  induction buf generalizing result with
  | nil => cases result <;> rfl
  | cons p rest ih =>
    rw [nextLoop.eq_3]
    have hc := coalesce_no_fault' result p
    split
    · rename_i r done hco
      split
      · rfl
      · rename_i hpart
        cases done with
        | true => exact ih _
        | false =>
          have := coalesce_not_done hco
          rw [this] at hpart
          simp at hpart
    · rfl
    · rename_i w hw; rw [hw] at hc; cases hc

/-- `Next` never hands back more than it was given … -/
theorem nextLoop_rest_le (result : Option PResult) (buf : List PResult) {x : Option PResult}
    {rest : List PResult} (h : nextLoop result buf = .ok (x, rest)) : rest.length ≤ buf.length := by
  induction buf generalizing result with
  | nil => cases result <;> (unfold nextLoop at h; cases h; exact Nat.le_refl _)
  | cons p tl ih =>
    rw [nextLoop.eq_3] at h
    split at h
    · rename_i r done hco
      split at h
      · cases h
        cases done <;> simp
      · split at h
        · have := ih _ h
          simp only [List.length_cons]; omega
        · cases h
    · cases h
    · cases h

/-- … and a `Next` that returns a result has consumed at least one fetched result: the caller's
`for { Next() }` loop ends. -/
theorem nextLoop_progress (buf : List PResult) {r : PResult} {rest : List PResult}
    (h : nextLoop none buf = .ok (some r, rest)) : rest.length < buf.length := by
  cases buf with
  | nil => unfold nextLoop at h; cases h
  | cons p tl =>
    rw [nextLoop.eq_3] at h
    simp only [coalesce] at h
    split at h
    · cases h; simp
    · simp only [if_true] at h
      have := nextLoop_rest_le _ _ h
      simp only [List.length_cons]; omega

/-! ### region info -/

def ReqDecode (decode : Bytes → Option RegionInfoPB) : Prop :=
  ∀ b ri, decode b = some ri → ri.tableName.isSome = true

theorem infoFromCell_no_fault (decode : Bytes → Option RegionInfoPB) (hreq : ReqDecode decode)
    (value : Bytes) : (infoFromCell decode value).isFault = false := by
  unfold infoFromCell
  split
  · rfl
  · rename_i hlen
    split
    · rename_i hnil; simp at hlen
    · split
      · rfl
      · split
        · rfl
        · rename_i h4
          split
          · rfl
          · split
            · rfl
            · rename_i ri hri
              split
              · rfl
              · have := hreq _ ri hri
                split
                · rename_i hn; rw [hn] at this; cases this
                · rfl

theorem parseLoop_no_fault (decode : Bytes → Option RegionInfoPB) (hreq : ReqDecode decode)
    (cells : List (MetaQual × Bytes)) (reg : Bool) (addr : Bytes) :
    (parseLoop decode cells reg addr).isFault = false := by
  induction cells generalizing reg addr with
  | nil => rfl
  | cons c rest ih =>
    obtain ⟨q, v⟩ := c
    cases q with
    | regioninfo =>
      simp only [parseLoop]
      have := infoFromCell_no_fault decode hreq v
      split
      · exact ih _ _
      · rfl
      · rename_i w hw; rw [hw] at this; cases this
    | server =>
      simp only [parseLoop]
      split
      · exact ih _ _
      · exact ih _ _
    | other =>
      simp only [parseLoop]
      exact ih _ _

theorem parseRegionInfo_no_fault (decode : Bytes → Option RegionInfoPB) (hreq : ReqDecode decode)
    (cells : List (MetaQual × Bytes)) : (parseRegionInfo decode cells).isFault = false := by
  unfold parseRegionInfo
  have := parseLoop_no_fault decode hreq cells false []
  split
  · split
    · rfl
    · split <;> rfl
  · rfl
  · rename_i w hw; rw [hw] at this; cases this
end GV.Receive
