import GohbaseVerif.Lemmas.Dec
import GohbaseVerif.Props.C16
/-! The order of well-formed region names and of search keys, in terms of (table, start key). -/
namespace GV.Cache
open GV GV.RegionName

theorem signOf_gt_iff (d : Int) : signOf d = .gt ↔ 0 < d := by
  unfold signOf; by_cases h1 : d < 0 <;> by_cases h2 : 0 < d <;> simp [h1, h2] <;> omega

theorem signOf_lt_iff (d : Int) : signOf d = .lt ↔ d < 0 := by
  unfold signOf; by_cases h1 : d < 0 <;> by_cases h2 : 0 < d <;> simp [h1, h2]

theorem signOf_eq_iff (d : Int) : signOf d = .eq ↔ d = 0 := by
  unfold signOf; by_cases h1 : d < 0 <;> by_cases h2 : 0 < d <;> simp [h1, h2] <;> omega

theorem map_ok_inv {α β} {o : Outcome α} {f : α → β} {v : β} (h : o.map f = .ok v) :
    ∃ d, o = .ok d ∧ f d = v := by
  cases o with
  | ok d => exact ⟨d, rfl, by simpa [Outcome.map] using h⟩
  | err e => simp [Outcome.map] at h
  | fault w => simp [Outcome.map] at h

theorem lex3_lt_iff (a b c a' b' c' : Bytes) :
    lex3 (a, b, c) (a', b', c') = .lt ↔
      bcmp a a' = .lt ∨ (a = a' ∧ (bcmp b b' = .lt ∨ (b = b' ∧ bcmp c c' = .lt))) := by
  simp only [lex3]
  cases e1 : bcmp a a' with
  | lt => simp
  | gt =>
    have : a ≠ a' := fun h => by subst h; simp at e1
    simp [this]
  | eq =>
    have := bcmp_eq_iff.mp e1; subst this
    cases e2 : bcmp b b' with
    | lt => simp
    | gt =>
      have : b ≠ b' := fun h => by subst h; simp at e2
      simp [this]
    | eq =>
      have := bcmp_eq_iff.mp e2; subst this
      simp

theorem lex3_gt_iff_lt (x y : Bytes × Bytes × Bytes) : lex3 x y = .gt ↔ lex3 y x = .lt := by
  rw [lex3_swap x y]; cases lex3 x y <;> simp [Ordering.swap]

/-- The id suffix of a name `table,start,suffix`. -/
def Region.sfx (r : Region) : Bytes := r.name.drop (r.fq.length + 1 + r.start.length + 1)

def Region.key3 (r : Region) : Bytes × Bytes × Bytes := (r.fq, r.start, r.sfx)

theorem drop_mkName (t k s : Bytes) : (mkName t k s).drop (t.length + 1 + k.length + 1) = s := by
  unfold mkName
  have : t ++ comma :: (k ++ comma :: s) = (t ++ comma :: k ++ [comma]) ++ s := by simp
  rw [this]
  apply List.drop_left'
  simp
  omega

theorem Region.WF.name_eq {r : Region} (h : r.WF) : r.name = mkName r.fq r.start r.sfx := by
  obtain ⟨rest, hn, _⟩ := h.nameShape
  have : r.sfx = dec r.id ++ dot :: rest := by
    unfold Region.sfx; rw [hn]; exact drop_mkName _ _ _
  rw [this]; exact hn

theorem Region.WF.sfx_eq {r : Region} (h : r.WF) : ∃ rest, r.sfx = dec r.id ++ dot :: rest ∧ comma ∉ rest := by
  obtain ⟨rest, hn, hc⟩ := h.nameShape
  refine ⟨rest, ?_, hc⟩
  unfold Region.sfx; rw [hn]; exact drop_mkName _ _ _

theorem Region.WF.sfx_noComma {r : Region} (h : r.WF) : comma ∉ r.sfx := by
  obtain ⟨rest, hs, hc⟩ := h.sfx_eq
  rw [hs]
  intro hm
  rw [List.mem_append] at hm
  rcases hm with hm | hm
  · exact comma_not_mem_dec _ hm
  · rw [List.mem_cons] at hm
    rcases hm with hm | hm
    · simp [comma, dot] at hm
    · exact hc hm

theorem Region.WF.sfx_lt_colon {r : Region} (h : r.WF) : bcmp r.sfx [0x3a] = .lt := by
  obtain ⟨rest, hs, _⟩ := h.sfx_eq
  rw [hs]; exact idSuffix_lt_colon _ _

/-- HBase region names embed the region id: equal names ⇒ equal table, start key and id. -/
theorem Region.WF.name_inj {a b : Region} (ha : a.WF) (hb : b.WF) (h : a.name = b.name) :
    a.fq = b.fq ∧ a.start = b.start ∧ a.id = b.id := by
  rw [ha.name_eq, hb.name_eq] at h
  unfold mkName at h
  obtain ⟨e1, h2⟩ := append_sep_inj_left ha.fqNoComma hb.fqNoComma h
  obtain ⟨e2, e3⟩ := append_sep_inj_right ha.sfx_noComma hb.sfx_noComma h2
  refine ⟨e1, e2, ?_⟩
  obtain ⟨r1, s1, _⟩ := ha.sfx_eq
  obtain ⟨r2, s2, _⟩ := hb.sfx_eq
  rw [s1, s2] at e3
  exact dec_inj (append_sep_inj_left (dot_not_mem_dec _) (dot_not_mem_dec _) e3).1

theorem cmpName_wf {a b : Region} (ha : a.WF) (hb : b.WF) :
    (compareName a.name b.name).map signOf = .ok (lex3 a.key3 b.key3) := by
  rw [ha.name_eq, hb.name_eq]
  exact compare_sign_eq_tuple _ _ _ _ _ _ ha.fqNoComma hb.fqNoComma ha.sfx_noComma hb.sfx_noComma

theorem cmpKey_wf {x : Region} (hx : x.WF) {t : Bytes} (ht : comma ∉ t) (k : Bytes) :
    (compareName (searchKey t k) x.name).map signOf = .ok (lex3 (t, k, [0x3a]) x.key3) := by
  rw [hx.name_eq]
  exact compare_sign_eq_tuple _ _ _ _ _ _ ht hx.fqNoComma (by simp [comma]) hx.sfx_noComma

theorem nameLt_iff {a b : Region} (ha : a.WF) (hb : b.WF) : nameLt a b ↔ lex3 a.key3 b.key3 = .lt := by
  unfold nameLt; rw [cmpName_wf ha hb]
  constructor
  · intro h; injection h
  · intro h; rw [h]

theorem nameLt_trans {a b c : Region} (ha : a.WF) (hb : b.WF) (hc : c.WF)
    (h1 : nameLt a b) (h2 : nameLt b c) : nameLt a c := by
  rw [nameLt_iff ha hc]
  exact lex3_trans_lt ((nameLt_iff ha hb).mp h1) ((nameLt_iff hb hc).mp h2)

theorem nameLt_ne {a b : Region} (ha : a.WF) (hb : b.WF) (h : nameLt a b) : a.name ≠ b.name := by
  intro e
  have h1 := (nameLt_iff ha hb).mp h
  have : a.key3 = b.key3 := by
    obtain ⟨e1, e2, _⟩ := ha.name_inj hb e
    unfold Region.key3 Region.sfx
    rw [e1, e2, e]
  rw [this, lex3_refl] at h1
  cases h1

/-- Sorting by name sorts by (table, start key). -/
theorem nameLt_fq_start {a b : Region} (ha : a.WF) (hb : b.WF) (h : nameLt a b) :
    bcmp a.fq b.fq = .lt ∨ (a.fq = b.fq ∧ bcmp a.start b.start ≠ .gt) := by
  have h1 := (nameLt_iff ha hb).mp h
  unfold Region.key3 at h1
  rw [lex3_lt_iff] at h1
  rcases h1 with h1 | ⟨e, h1 | ⟨e2, _⟩⟩
  · exact .inl h1
  · right; refine ⟨e, ?_⟩; rw [h1]; decide
  · right; refine ⟨e, ?_⟩; rw [e2]; simp

/-- `x` sorts below the search key `t,k,:`. -/
def Below (t k : Bytes) (x : Region) : Prop :=
  bcmp x.fq t = .lt ∨ (x.fq = t ∧ bcmp x.start k ≠ .gt)

/-- `Tree.Seek(searchKey)` compares the key with a cached name: never equal, never a panic. -/
theorem cmp_searchKey {x : Region} (hx : x.WF) {t : Bytes} (ht : comma ∉ t) (k : Bytes) :
    ∃ d, compareName (searchKey t k) x.name = .ok d ∧ d ≠ 0 ∧ (0 < d ↔ Below t k x) := by
  obtain ⟨d, hd, hs⟩ := map_ok_inv (cmpKey_wf hx ht k)
  refine ⟨d, hd, ?_, ?_⟩
  · intro h0
    have : signOf d = .eq := (signOf_eq_iff d).mpr h0
    rw [this] at hs
    have := (lex3_eq_iff _ _).mp hs.symm
    unfold Region.key3 at this
    simp only [Prod.mk.injEq] at this
    have hl := hx.sfx_lt_colon
    rw [← this.2.2] at hl
    simp at hl
  · rw [← signOf_gt_iff, hs, lex3_gt_iff_lt]
    unfold Region.key3 Below
    rw [lex3_lt_iff]
    constructor
    · rintro (h | ⟨e, h | ⟨e2, _⟩⟩)
      · exact .inl h
      · right; refine ⟨e, ?_⟩; rw [h]; decide
      · right; refine ⟨e, ?_⟩; rw [e2]; simp
    · rintro (h | ⟨e, h⟩)
      · exact .inl h
      · right; refine ⟨e, ?_⟩
        rcases (bcmp_ne_gt_iff _ _).mp h with h | h
        · exact .inl h
        · exact .inr ⟨h, hx.sfx_lt_colon⟩

/-- `Below` is downward closed along the name order. -/
theorem Below.mono {t k : Bytes} {a b : Region} (ha : a.WF) (hb : b.WF) (h : nameLt a b)
    (hB : Below t k b) : Below t k a := by
  rcases nameLt_fq_start ha hb h with h1 | ⟨e, h1⟩
  · rcases hB with h2 | ⟨e2, _⟩
    · exact .inl (bcmp_trans_lt h1 h2)
    · left; rw [← e2]; exact h1
  · rcases hB with h2 | ⟨e2, h2⟩
    · left; rw [e]; exact h2
    · right; exact ⟨e.trans e2, bcmp_le_trans h1 h2⟩

end GV.Cache
