import GohbaseVerif.Model.ClientSeq
import GohbaseVerif.Lemmas.Classify
/-! Lemmas for the sequentialised progress argument (C04). -/
set_option linter.unusedSimpArgs false
namespace GV.ClientSeq
open GV.Classify

theorem and_le {α} (p q : α → Bool) (l : List α) :
    (l.filter fun a => p a && q a).length ≤ (l.filter p).length := by
  induction l with
  | nil => simp
  | cons a t ih =>
    simp only [List.filter_cons]
    cases hq : q a <;> cases hp : p a <;> simp only [Bool.and_true, Bool.and_false, Bool.false_and,
      Bool.true_and, if_true, if_false, Bool.false_eq_true, List.length_cons] <;> omega

theorem and_lt {α} (p q : α → Bool) (l : List α) (x : α) (hx : x ∈ l) (hp : p x = true)
    (hq : q x = false) : (l.filter fun a => p a && q a).length < (l.filter p).length := by
  induction l with
  | nil => cases hx
  | cons a t ih =>
    simp only [List.mem_cons] at hx
    simp only [List.filter_cons]
    rcases hx with rfl | hx
    · have := and_le p q t
      simp only [hp, hq, Bool.and_false, Bool.false_eq_true, if_false, if_true, List.length_cons]; omega
    · have := ih hx
      cases hq' : q a <;> cases hp' : p a <;> simp only [Bool.and_true, Bool.and_false, Bool.false_and,
        Bool.true_and, if_true, if_false, Bool.false_eq_true, List.length_cons] <;> omega

theorem ff_le {α} (p q : α → Bool) (l : List α) :
    ((l.filter q).filter p).length ≤ (l.filter p).length := by
  rw [List.filter_filter]; exact and_le p q l

theorem ff_lt {α} (p q : α → Bool) (l : List α) (x : α) (hx : x ∈ l) (hp : p x = true)
    (hq : q x = false) : ((l.filter q).filter p).length < (l.filter p).length := by
  rw [List.filter_filter]; exact and_lt p q l x hx hp hq

theorem filter_ne_lt (l : List Nat) (x : Nat) (hx : x ∈ l) : (l.filter (· != x)).length < l.length := by
  induction l with
  | nil => cases hx
  | cons a t ih =>
    simp only [List.mem_cons] at hx
    simp only [List.filter_cons]
    rcases hx with rfl | hx
    · have := List.length_filter_le (· != x) t
      simp; omega
    · have := ih hx
      split <;> simp <;> omega

/-- stale links -/
def ns (L : Layout) (c : Client) : Nat := (c.links.filter (staleLink L)).length
/-- stale cache entry for the key -/
def cs (L : Layout) (o : Option Nat) : Nat :=
  match o with | some r => if r = L.owner then 0 else 1 | none => 0

theorem measure_eq (L : Layout) (c : Client) :
    measure L c = cs L c.cached + ns L c + c.deadConns.length + c.transient := rfl

theorem ns_cons_good (L : Layout) (r : Nat) (l : List (Nat × Nat)) :
    (((r, L.host r) :: l).filter (staleLink L)).length = (l.filter (staleLink L)).length := by
  simp [List.filter_cons, staleLink]

theorem linkOf_mem {c : Client} {r srv : Nat} (h : linkOf c r = some srv) : (r, srv) ∈ c.links := by
  unfold linkOf at h
  cases hf : c.links.find? (·.1 == r) with
  | none => rw [hf] at h; cases h
  | some x =>
    rw [hf] at h
    simp only [Option.map_some] at h
    injection h with h
    have h1 : x.1 = r := by simpa using List.find?_some hf
    have hm := List.mem_of_find?_eq_some hf
    obtain ⟨a, b⟩ := x
    simp only at h h1
    subst h; subst h1; exact hm

theorem connect_parts (L : Layout) (c : Client) (r : Nat) :
    (connect L c r).cached = c.cached ∧ ns L (connect L c r) ≤ ns L c ∧
    (connect L c r).deadConns.length ≤ c.deadConns.length ∧
    (connect L c r).transient = c.transient ∧
    linkOf (connect L c r) r = some (L.host r) ∧ L.host r ∉ (connect L c r).deadConns := by
  unfold connect
  split
  · refine ⟨rfl, ?_, List.length_filter_le _ _, rfl, ?_, ?_⟩
    · simp only [ns]; rw [ns_cons_good]; exact ff_le _ _ _
    · simp [linkOf]
    · simp
  · rename_i hnd
    refine ⟨rfl, ?_, Nat.le_refl _, rfl, ?_, hnd⟩
    · simp only [ns]; rw [ns_cons_good]; exact ff_le _ _ _
    · simp [linkOf]

/-- a stale link of `r` itself is repaired by `connect` -/
theorem connect_ns_lt (L : Layout) (c : Client) (r srv : Nat) (hm : (r, srv) ∈ c.links)
    (hs : srv ≠ L.host r) : ns L (connect L c r) < ns L c := by
  unfold connect
  split
  · simp only [ns]; rw [ns_cons_good]
    exact ff_lt _ _ _ (r, srv) hm (by simp [staleLink, hs]) (by simp)
  · simp only [ns]; rw [ns_cons_good]
    exact ff_lt _ _ _ (r, srv) hm (by simp [staleLink, hs]) (by simp)

theorem measure_connect_le (L : Layout) (c : Client) (r : Nat) :
    measure L (connect L c r) ≤ measure L c := by
  obtain ⟨h1, h2, h3, h4, _⟩ := connect_parts L c r
  rw [measure_eq, measure_eq, h1, h4]; omega

theorem establish_parts (L : Layout) (c : Client) (r : Nat) :
    cs L (establish L c r).cached ≤ cs L c.cached ∧ ns L (establish L c r) ≤ ns L c ∧
    (establish L c r).deadConns.length ≤ c.deadConns.length ∧
    (establish L c r).transient = c.transient := by
  unfold establish
  split
  · obtain ⟨h1, h2, h3, h4, _⟩ := connect_parts L c r
    rw [h1]; exact ⟨Nat.le_refl _, h2, h3, h4⟩
  · have hf : ns L { c with links := c.links.filter (·.1 != r), cached := none } ≤ ns L c := by
      simp only [ns]; exact ff_le _ _ _
    simp only
    split
    · obtain ⟨h1, h2, h3, h4, _⟩ := connect_parts L
        { c with links := c.links.filter (·.1 != r), cached := some L.owner } L.owner
      rw [h1]
      refine ⟨by simp [cs], Nat.le_trans h2 ?_, h3, h4⟩
      simp only [ns]; exact ff_le _ _ _
    · exact ⟨by simp [cs], hf, Nat.le_refl _, rfl⟩

theorem measure_establish_le (L : Layout) (c : Client) (r : Nat) :
    measure L (establish L c r) ≤ measure L c := by
  obtain ⟨h1, h2, h3, h4⟩ := establish_parts L c r
  rw [measure_eq, measure_eq, h4]; omega

/-- re-establishing the cached stale descriptor removes it -/
theorem measure_establish_lt_stale (L : Layout) (c : Client) (r : Nat) (hc : c.cached = some r)
    (hr : r ≠ L.owner) : measure L (establish L c r) < measure L c := by
  obtain ⟨_, h2, h3, h4⟩ := establish_parts L c r
  have h0 : cs L (establish L c r).cached = 0 := by
    unfold establish
    rw [if_neg hr]
    simp only
    split
    · rw [(connect_parts L _ _).1]; simp [cs]
    · simp [cs]
  have h1 : cs L c.cached = 1 := by rw [hc]; simp [cs, hr]
  rw [measure_eq, measure_eq, h4, h0, h1]; omega

/-- re-establishing the owner when its link goes to the wrong server repairs the link -/
theorem measure_establish_lt_link (L : Layout) (c : Client) (srv : Nat)
    (hm : (L.owner, srv) ∈ c.links) (hs : srv ≠ L.host L.owner) :
    measure L (establish L c L.owner) < measure L c := by
  unfold establish
  rw [if_pos rfl]
  obtain ⟨h1, _, h3, h4, _⟩ := connect_parts L c L.owner
  have := connect_ns_lt L c L.owner srv hm hs
  rw [measure_eq, measure_eq, h1, h4]; omega

/-- what `resolve` guarantees: a cached descriptor with a connection, and nothing got staler -/
theorem resolve_ready (L : Layout) (c : Client) :
    ∃ r srv, (resolve L c).cached = some r ∧ linkOf (resolve L c) r = some srv := by
  unfold resolve
  cases hc : c.cached with
  | none =>
    simp only
    rw [hc]
    simp only
    obtain ⟨h1, _, _, _, h5, _⟩ := connect_parts L { c with cached := some L.owner } L.owner
    exact ⟨L.owner, _, h1, h5⟩
  | some r =>
    simp only
    cases hl : linkOf c r with
    | some srv =>
      simp only [Option.isSome_some, if_true, hc]
      exact ⟨r, srv, rfl, hl⟩
    | none =>
      simp only [Option.isSome_none, Bool.false_eq_true, if_false]
      unfold establish
      by_cases hro : r = L.owner
      · rw [if_pos hro]
        obtain ⟨h1, _, _, _, h5, _⟩ := connect_parts L c r
        rw [h1, hc]
        exact ⟨r, _, by rw [h1, hc], h5⟩
      · rw [if_neg hro]
        simp only
        cases hs : L.sameStart r with
        | true =>
          simp only [if_true]
          obtain ⟨h1, _, _, _, h5, _⟩ := connect_parts L
            { c with links := c.links.filter (·.1 != r), cached := some L.owner } L.owner
          rw [h1]
          exact ⟨L.owner, _, h1, h5⟩
        | false =>
          simp only [Bool.false_eq_true, if_false]
          obtain ⟨h1, _, _, _, h5, _⟩ := connect_parts L
            { c with links := c.links.filter (·.1 != r), cached := some L.owner } L.owner
          exact ⟨L.owner, _, h1, h5⟩

theorem measure_resolve_le (L : Layout) (c : Client) : measure L (resolve L c) ≤ measure L c := by
  have key : ∀ c1 : Client, measure L c1 ≤ measure L c →
      measure L (match c1.cached with
        | none => connect L { c1 with cached := some L.owner } L.owner
        | some _ => c1) ≤ measure L c := by
    intro c1 h1
    cases hc1 : c1.cached with
    | some _ => exact h1
    | none =>
      simp only
      refine Nat.le_trans (measure_connect_le L _ _) (Nat.le_trans ?_ h1)
      rw [measure_eq, measure_eq, hc1]
      simp [cs, ns]
  unfold resolve
  apply key
  cases hc : c.cached with
  | none => exact Nat.le_refl _
  | some r =>
    simp only
    split
    · exact Nat.le_refl _
    · exact measure_establish_le L c r

theorem measure_connectionLost_lt (L : Layout) (c : Client) (r srv : Nat) (hd : srv ∈ c.deadConns) :
    measure L (connectionLost L c r srv) < measure L c := by
  unfold connectionLost
  refine Nat.lt_of_le_of_lt (measure_establish_le L _ r) ?_
  have h1 := filter_ne_lt c.deadConns srv hd
  have h2 : ns L { c with deadConns := c.deadConns.filter (· != srv),
                          links := c.links.filter (·.2 != srv) } ≤ ns L c := by
    simp only [ns]; exact ff_le _ _ _
  rw [measure_eq, measure_eq]
  simp only
  omega

theorem classify_nsre : classify "org.apache.hadoop.hbase.NotServingRegionException" "" = .nsre := by
  decide
theorem classify_busy : classify "org.apache.hadoop.hbase.RegionTooBusyException" "" = .retryable := by
  decide

theorem classify_unknown (cls stack : String) (h : cls ∉ tableNames) : classify cls stack = .fatal := by
  rw [classify, classifyArms_eq, hits_nil_of_unknown _ cls arm_tables_within_names h]
  rfl

/-- a layout whose application error, if any, is a real (unclassified) one -/
def RealError (L : Layout) : Prop := ∀ cls, L.appError = some cls → cls ∉ tableNames

/-- the outcome of one iteration of the loop, by cases -/
inductive AttemptSpec (L : Layout) (c : Client) : Outcome × Client → Prop where
  | failed (k : ErrClass) (c' : Client) (h : measure L c' < measure L c) : AttemptSpec L c (.failed k, c')
  | success (c' : Client) : AttemptSpec L c (.success (L.host L.owner) L.owner, c')
  | returned (cls : String) (c' : Client) (h : L.appError = some cls) :
      AttemptSpec L c (.returned cls (L.host L.owner) L.owner, c')

theorem attempt_spec (L : Layout) (hL : RealError L) (c : Client) : AttemptSpec L c (attempt L c) := by
  obtain ⟨r, srv, hc, hl⟩ := resolve_ready L c
  have hle := measure_resolve_le L c
  by_cases hd : srv ∈ (resolve L c).deadConns
  · have he : attempt L c = (.failed .server, connectionLost L (resolve L c) r srv) := by
      simp only [attempt, hc, hl, hd, if_true]
    rw [he]
    exact .failed _ _ (Nat.lt_of_lt_of_le (measure_connectionLost_lt L _ r srv hd) hle)
  · by_cases hbad : r ≠ L.owner ∨ srv ≠ L.host r
    · have he : attempt L c = (.failed .nsre, establish L (resolve L c) r) := by
        simp only [attempt, hc, hl, hd, if_false, serverAnswer, hbad, if_true, classify_nsre]
      rw [he]
      refine .failed _ _ (Nat.lt_of_lt_of_le ?_ hle)
      by_cases hro : r = L.owner
      · subst hro
        have hs : srv ≠ L.host L.owner := by
          rcases hbad with h | h
          · exact absurd rfl h
          · exact h
        exact measure_establish_lt_link L _ srv (linkOf_mem hl) hs
      · exact measure_establish_lt_stale L _ r hc hro
    · have hro : r = L.owner := Classical.byContradiction fun h => hbad (Or.inl h)
      have hsrv : srv = L.host r := Classical.byContradiction fun h => hbad (Or.inr h)
      subst hro; subst hsrv
      by_cases ht : (resolve L c).transient > 0
      · have he : attempt L c = (.failed .retryable,
            { resolve L c with transient := (resolve L c).transient - 1 }) := by
          simp only [attempt, hc, hl, hd, if_false, serverAnswer, hbad, ht, if_true, classify_busy]
        rw [he]
        refine .failed _ _ (Nat.lt_of_lt_of_le ?_ hle)
        rw [measure_eq, measure_eq]
        simp only [ns]
        omega
      · cases ha : L.appError with
        | none =>
          have he : attempt L c = (.success (L.host L.owner) L.owner, resolve L c) := by
            simp only [attempt, hc, hl, hd, if_false, serverAnswer, hbad, ht, ha]
          rw [he]; exact .success _
        | some cls =>
          have hf : classify cls "" = .fatal := classify_unknown cls "" (hL cls ha)
          have he : attempt L c = (.returned cls (L.host L.owner) L.owner, resolve L c) := by
            simp only [attempt, hc, hl, hd, if_false, serverAnswer, hbad, ht, ha, hf]
          rw [he]; exact .returned cls _ ha

/-- the good endings of a request: answered by the server hosting the owner of the key, for that
region; or the application's own error, from that same server -/
def AtOwner (L : Layout) (o : Outcome) : Prop :=
  o = .success (L.host L.owner) L.owner ∨
  ∃ cls, L.appError = some cls ∧ o = .returned cls (L.host L.owner) L.owner

theorem sendRPC_progress (L : Layout) (hL : RealError L) :
    ∀ fuel c n, measure L c < fuel →
      ∃ m o, m ≤ measure L c + 1 ∧ 1 ≤ m ∧ sendRPC L fuel c n = some (n + m, o) ∧ AtOwner L o := by
  intro fuel
  induction fuel with
  | zero => intro c n h; omega
  | succ fuel ih =>
    intro c n hlt
    have hs := attempt_spec L hL c
    generalize hat : attempt L c = x at hs
    cases hs with
    | failed k c' hdec =>
      obtain ⟨m, o, hm, _, hrun, hat'⟩ := ih c' (n + 1) (by omega)
      refine ⟨m + 1, o, by omega, by omega, ?_, hat'⟩
      simp only [sendRPC, hat]
      rw [hrun]
      congr 2; omega
    | success c' =>
      exact ⟨1, _, by omega, Nat.le_refl _, by simp only [sendRPC, hat], Or.inl rfl⟩
    | returned cls c' h =>
      exact ⟨1, _, by omega, Nat.le_refl _, by simp only [sendRPC, hat], Or.inr ⟨cls, h, rfl⟩⟩

end GV.ClientSeq
