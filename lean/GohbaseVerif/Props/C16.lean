import GohbaseVerif.Lemmas.RegionName
/-!
# C16 — Region names are totally ordered by table, start key, then id

Property theorems only (helpers live in `Lemmas/`).  `compareName` is the model of
`region.Compare`; the correspondence check ties it to the Go code (sign only).
-/
namespace GV.RegionName
open GV

/-- The ordering the client uses coincides with the component-wise order on
(table, start key, id suffix) — for *all* start keys (commas included), and never panics
on a well-formed name. -/
theorem compare_sign_eq_tuple (t1 k1 s1 t2 k2 s2 : Bytes)
    (h1 : comma ∉ t1) (h2 : comma ∉ t2) (h3 : comma ∉ s1) (h4 : comma ∉ s2) :
    (compareName (mkName t1 k1 s1) (mkName t2 k2 s2)).map signOf
      = .ok (lex3 (t1, k1, s1) (t2, k2, s2)) := by
  unfold compareName mkName
  rcases phase1_tables t1 t2 (k1 ++ comma :: s1) (k2 ++ comma :: s2) h1 h2 with
    ⟨hteq, hp⟩ | ⟨d, hp, hs, hne⟩
  · rw [hp]
    simp only [splitLastComma_key k1 s1 h3, splitLastComma_key k2 s2 h4]
    simp only [lex3, hteq]
    rw [cmpPrefix_bcmp k1 k2]
    cases hk : cmpPrefix k1 k2 with
    | some d =>
      have hne := cmpPrefix_some_ne hk
      simp only [Outcome.map]
    | none =>
      simp only
      by_cases hl1 : k1.length < k2.length
      · simp [hl1, Outcome.map, signOf]
      · by_cases hl2 : k2.length < k1.length
        · simp [hl1, hl2, Outcome.map, signOf]
        · simp only [hl1, hl2, if_false]
          rw [cmpPrefix_bcmp s1 s2]
          cases hs : cmpPrefix s1 s2 with
          | some d => simp [Outcome.map]
          | none =>
            simp only [Outcome.map, signOf]
            congr 1
            by_cases a1 : s1.length < s2.length
            · have : ((s1.length : Int) - (s2.length : Int) < 0) := by omega
              simp [a1, this]
            · by_cases a2 : s2.length < s1.length
              · have e1 : ¬ ((s1.length : Int) - (s2.length : Int) < 0) := by omega
                have e2 : (0 : Int) < (s1.length : Int) - (s2.length : Int) := by omega
                simp [a1, a2, e1, e2]
              · have e1 : ¬ ((s1.length : Int) - (s2.length : Int) < 0) := by omega
                have e2 : ¬ (0 : Int) < (s1.length : Int) - (s2.length : Int) := by omega
                simp [a1, a2, e1, e2]
  · rw [hp]
    simp only [Outcome.map, lex3, hs]

/-- Never a panic on well-formed names. -/
theorem compare_no_fault_wf (t1 k1 s1 t2 k2 s2 : Bytes)
    (h1 : comma ∉ t1) (h2 : comma ∉ t2) (h3 : comma ∉ s1) (h4 : comma ∉ s2) :
    (compareName (mkName t1 k1 s1) (mkName t2 k2 s2)).isFault = false := by
  have := compare_sign_eq_tuple t1 k1 s1 t2 k2 s2 h1 h2 h3 h4
  cases h : compareName (mkName t1 k1 s1) (mkName t2 k2 s2) <;> simp_all [Outcome.map, Outcome.isFault]

/-! ## `lex3` is a strict total order (so `Compare` is one on well-formed names) -/

theorem lex3_refl (x : Bytes × Bytes × Bytes) : lex3 x x = .eq := by simp [lex3]

theorem lex3_eq_iff (x y : Bytes × Bytes × Bytes) : lex3 x y = .eq ↔ x = y := by
  obtain ⟨a, b, c⟩ := x; obtain ⟨a', b', c'⟩ := y
  simp only [lex3, Prod.mk.injEq]
  constructor
  · intro h
    cases h1 : bcmp a a' <;> simp only [h1] at h <;> try cases h
    cases h2 : bcmp b b' <;> simp only [h2] at h <;> try cases h
    exact ⟨bcmp_eq_iff.mp h1, bcmp_eq_iff.mp h2, bcmp_eq_iff.mp h⟩
  · rintro ⟨rfl, rfl, rfl⟩; simp

theorem lex3_swap (x y : Bytes × Bytes × Bytes) : lex3 y x = (lex3 x y).swap := by
  obtain ⟨a, b, c⟩ := x; obtain ⟨a', b', c'⟩ := y
  simp only [lex3]
  rw [bcmp_swap a a', bcmp_swap b b', bcmp_swap c c']
  cases bcmp a a' <;> cases bcmp b b' <;> cases bcmp c c' <;> rfl

theorem lex3_trans_lt {x y z : Bytes × Bytes × Bytes}
    (h1 : lex3 x y = .lt) (h2 : lex3 y z = .lt) : lex3 x z = .lt := by
  obtain ⟨a, b, c⟩ := x; obtain ⟨a', b', c'⟩ := y; obtain ⟨a'', b'', c''⟩ := z
  simp only [lex3] at *
  cases e1 : bcmp a a' <;> simp only [e1] at h1 <;> try cases h1
  · -- a < a'
    cases e2 : bcmp a' a'' <;> simp only [e2] at h2 <;> try cases h2
    · simp [bcmp_trans_lt e1 e2]
    · simp [← bcmp_eq_iff.mp e2, e1]
  · -- a = a'
    have := bcmp_eq_iff.mp e1; subst this
    cases e2 : bcmp a a'' <;> simp only [e2] at h2 ⊢ <;> try cases h2
    cases f1 : bcmp b b' <;> simp only [f1] at h1 <;> try cases h1
    · cases f2 : bcmp b' b'' <;> simp only [f2] at h2 <;> try cases h2
      · rw [bcmp_trans_lt f1 f2]
      · rw [← bcmp_eq_iff.mp f2, f1]
    · have := bcmp_eq_iff.mp f1; subst this
      cases f2 : bcmp b b'' <;> simp only [f2] at h2 ⊢ <;> try cases h2
      exact bcmp_trans_lt h1 h2

theorem lex3_total (x y : Bytes × Bytes × Bytes) : lex3 x y = .lt ∨ x = y ∨ lex3 y x = .lt := by
  cases h : lex3 x y with
  | lt => exact .inl rfl
  | eq => exact .inr (.inl ((lex3_eq_iff x y).mp h))
  | gt => right; right; rw [lex3_swap x y, h]; rfl

/-- `Compare(a, b) = 0` only for identical well-formed names. -/
theorem compare_eq_zero_iff (t1 k1 s1 t2 k2 s2 : Bytes)
    (h1 : comma ∉ t1) (h2 : comma ∉ t2) (h3 : comma ∉ s1) (h4 : comma ∉ s2) :
    (compareName (mkName t1 k1 s1) (mkName t2 k2 s2)).map signOf = .ok .eq ↔
      (t1, k1, s1) = (t2, k2, s2) := by
  rw [compare_sign_eq_tuple t1 k1 s1 t2 k2 s2 h1 h2 h3 h4]
  constructor
  · intro h; injection h with h; exact (lex3_eq_iff _ _).mp h
  · intro h; rw [(lex3_eq_iff _ _).mpr h]

/-- A table's first region (empty start key) sorts before all its other regions. -/
theorem first_region_first (t k s1 s2 : Bytes) (hk : k ≠ [])
    (h1 : comma ∉ t) (h3 : comma ∉ s1) (h4 : comma ∉ s2) :
    (compareName (mkName t [] s1) (mkName t k s2)).map signOf = .ok .lt := by
  rw [compare_sign_eq_tuple t [] s1 t k s2 h1 h1 h3 h4]
  cases k with
  | nil => exact absurd rfl hk
  | cons x xs => simp [lex3, bcmp]

/-- Every region of a smaller table name sorts first, whatever the keys and ids — including
when one table name is a proper prefix of the other. -/
theorem smaller_table_first (t1 k1 s1 t2 k2 s2 : Bytes) (ht : bcmp t1 t2 = .lt)
    (h1 : comma ∉ t1) (h2 : comma ∉ t2) (h3 : comma ∉ s1) (h4 : comma ∉ s2) :
    (compareName (mkName t1 k1 s1) (mkName t2 k2 s2)).map signOf = .ok .lt := by
  rw [compare_sign_eq_tuple t1 k1 s1 t2 k2 s2 h1 h2 h3 h4]; simp [lex3, ht]

theorem prefix_table_first (t u k1 s1 k2 s2 : Bytes) (hu : u ≠ [])
    (h1 : comma ∉ t) (h2 : comma ∉ t ++ u) (h3 : comma ∉ s1) (h4 : comma ∉ s2) :
    (compareName (mkName t k1 s1) (mkName (t ++ u) k2 s2)).map signOf = .ok .lt := by
  apply smaller_table_first _ _ _ _ _ _ _ h1 h2 h3 h4
  have := bcmp_append_left t [] u
  rw [List.append_nil] at this
  rw [this]
  cases u with
  | nil => exact absurd rfl hu
  | cons x xs => rfl

/-- The lookup key `table,key,:` sorts after every region `table,key,<id>` whose id suffix
starts with a byte below `':'` (digits). -/
theorem searchKey_after_every_id (t k s : Bytes) (h1 : comma ∉ t) (h3 : comma ∉ s)
    (hs : bcmp s [0x3a] = .lt) :
    (compareName (mkName t k s) (searchKey t k)).map signOf = .ok .lt := by
  unfold searchKey
  rw [compare_sign_eq_tuple t k s t k [0x3a] h1 h1 h3 (by simp [comma])]
  simp [lex3, hs]

/-- … and before every region of the same table with a larger start key. -/
theorem searchKey_before_larger_start (t k k' s : Bytes) (h1 : comma ∉ t) (h3 : comma ∉ s)
    (hk : bcmp k k' = .lt) :
    (compareName (searchKey t k) (mkName t k' s)).map signOf = .ok .lt := by
  unfold searchKey
  rw [compare_sign_eq_tuple t k [0x3a] t k' s h1 h1 (by simp [comma]) h3]
  simp [lex3, hk]

/-- The search key is never equal to a region name with a digit-led id. -/
theorem searchKey_ne_region (t k s : Bytes) (h1 : comma ∉ t) (h3 : comma ∉ s)
    (hs : bcmp s [0x3a] = .lt) :
    (compareName (mkName t k s) (searchKey t k)).map signOf ≠ .ok .eq := by
  rw [searchKey_after_every_id t k s h1 h3 hs]; simp

/-! ## Non-vacuity: concrete names meeting the hypotheses -/

example : (compareName (mkName [0x74] [0x2c, 0x2b] [0x31]) (mkName [0x74] [0x2c] [0x39, 0x39])).map signOf
    = .ok .gt := by decide
example : comma ∉ ([0x74] : Bytes) ∧ comma ∉ ([0x31] : Bytes) := by decide
example : bcmp [0x31, 0x32] [0x3a] = .lt := by decide
/-- An ill-formed name (no second comma) does panic — the explicit `panic` in `findCommaFromEnd`. -/
example : (compareName [0x74, 0x2c] [0x74, 0x2c]).isFault = true := by decide

end GV.RegionName

namespace GV.RegionName
/-- Regenerated tie: the search key built with the working tree's constants and separator
bytes is `table,key[:MaxInt16-len(table)-3],:`. Breaks if a separator or the bound changes. -/
theorem searchKeyImpl_eq (t k : Bytes) : searchKeyImpl t k = searchKeyN 32767 t k := by
  simp [searchKeyImpl, searchKeyN, mkName, comma, Gen.Wire.searchKeySeps, Gen.Wire.searchKeyMax,
    Gen.Wire.searchKeySlack]

theorem searchKeyN_short (t k : Bytes) (h : k.length ≤ 32767 - t.length - 3) :
    searchKeyN 32767 t k = searchKey t k := by
  simp [searchKeyN, searchKey, Nat.min_eq_left h]

theorem gen_wire_shape : Gen.Wire.shapeOk = true := by decide
end GV.RegionName
