import GohbaseVerif.Lemmas.Compress
/-!
# C11 (compression part) — no byte string in the position of a compressed cellblock stream can
make `decompressCellblocks` panic, read out of bounds or loop forever

In `Model/Compress.lean` every slice expression (`b[:n]`, `b[n:]`) and `binary.BigEndian.Uint32`
is `Outcome.fault` when out of range, so `decompress_no_fault` is a statement about the guards in
`readN`.  "Cannot loop forever": the two Go loops are defined by well-founded recursion on the
length of the unread input (accepted by Lean's termination checker without fuel); the two
`…_iteration_consumes` theorems state the decrease explicitly: one inner iteration consumes
`4 + compressedChunkLen` bytes (≥ 4, also when the chunk is empty and decodes to nothing), one
outer iteration at least 4.

Not modelled: `slices.Grow(out, int(uncompressedBlockLen))` and the codec's own allocation of a
wire-declared size (up to 4 GiB each; resource exhaustion, DESIGN §4); `int(compressedChunkLen)`
is taken as non-negative (64-bit `int`).
-/
namespace GV.Compress
open GV

/-- For *all* byte strings and *all* codecs (any total `decode`): `ok` or `err`, never a panic. -/
theorem decompress_no_fault (c : Codec) (b : Bytes) : (decompressCellblocks c b).isFault = false :=
  blockLoop_no_fault c b []

/-- … in other words the outcome is a value or an `error`. -/
theorem decompress_ok_or_err (c : Codec) (b : Bytes) :
    (∃ d, decompressCellblocks c b = .ok d) ∨ (∃ e, decompressCellblocks c b = .err e) := by
  have := decompress_no_fault c b
  cases h : decompressCellblocks c b with
  | ok d => exact .inl ⟨d, rfl⟩
  | err e => exact .inr ⟨e, rfl⟩
  | fault w => rw [h] at this; cases this

/-- `readN` never slices out of range, whatever length the wire declares. -/
theorem readN_no_fault (b : Bytes) (n : Nat) : (readN b n).isFault = false := by
  by_cases h : n ≤ b.length
  · rw [readN_of_le h]; rfl
  · rw [readN_of_lt (by omega)]; rfl

theorem readUint32_no_fault (b : Bytes) : (readUint32 b).isFault = false := by
  by_cases h : 4 ≤ b.length
  · rw [readUint32_of_le h]; rfl
  · rw [readUint32_of_lt (by omega)]; rfl

/-- One iteration of the inner loop consumes the 4-byte length and the chunk: the remainder is
strictly shorter even for `compressedChunkLen = 0` with a chunk that decodes to 0 bytes. -/
theorem chunk_iteration_consumes {b b1 b2 chunk : Bytes} {cl : Nat}
    (h1 : readUint32 b = .ok (cl, b1)) (h2 : readN b1 cl = .ok (chunk, b2)) :
    b2.length + 4 + cl = b.length := by
  have a := readUint32_ok h1
  have a2 := readN_ok h2
  rw [a2.2.2, a.2.2]
  have := a2.1
  rw [a.2.2] at this
  simp only [List.length_drop] at this ⊢
  omega

/-- One iteration of the outer loop consumes at least the 4-byte block length. -/
theorem block_iteration_consumes (c : Codec) {b b1 b2 out out' : Bytes} {L sf : Nat}
    (h1 : readUint32 b = .ok (L, b1)) (h2 : chunkLoop c L 0 b1 out = .ok (sf, b2, out')) :
    b2.length + 4 ≤ b.length := by
  have a := readUint32_ok h1
  have l := chunkLoop_rest_le _ _ _ _ _ h2
  simp only at l
  rw [a.2.2] at l
  simp only [List.length_drop] at l
  omega

/-! Non-vacuity: garbage, a huge declared chunk length, an empty chunk. -/
example : ∃ e, decompressCellblocks (idCodec 4) [0xff] = .err e := by
  refine ⟨"block-len", ?_⟩
  unfold decompressCellblocks; rw [blockLoop_step, readUint32_of_lt (by decide)]; rfl

end GV.Compress
