import GohbaseVerif.Lemmas.ScannerLease
import GohbaseVerif.Gen.Selects
/-!
# C14 — scanners terminate cleanly and release server-side scanners

Model: `Model/Scanner.lean` (tied to `/repo/scanner.go` by the correspondence run `c06`).
All theorems quantify over *every* script of replies (conforming or not, RPC errors anywhere,
script exhausted) and every user behaviour (`Next`, `Close`, cancellation in any order):
`Reachable sc s` is "some sequence of operations against some replies leads to `s`".

Residual (cannot be proved of any client): a region scanner the server opened for a request
whose response never reached the client has an id the client never learnt; nobody can close it.
`openSet`, `learnt` speak about ids in responses the client received.
`renewLoop` (timing only) is not part of the model.
-/
namespace GV.Scanner
open GV

/-- An error — an RPC error, a cancelled context, or `io.EOF` — is reported once: whatever the
    context and the remaining script are, every later `Next` answers `(nil, io.EOF)` and changes
    nothing (in particular sends nothing). -/
theorem error_once_then_eof (sc : Scan) (c : Bool) (R : List Reply) (s : St) (e : String)
    (h : (next sc c R s).1.err = some e) :
    ∀ c' R', next sc c' R' (next sc c R s).2.1 = (⟨none, some "EOF"⟩, (next sc c R s).2.1, R') := by
  have key := next_err_closed sc c R s (by simp [h])
  intro c' R'
  obtain ⟨hcl, hres⟩ := key
  generalize (next sc c R s).2.1 = t at hcl hres
  unfold next
  have hpk : peek sc R' t = (.eof, t, R') := by simp [peek, hres, hcl]
  simp only [hcl, Bool.not_true, Bool.and_false, Bool.false_eq_true, if_false]
  by_cases hp : sc.allowPartial = true
  · simp [hp, hpk]
  · simp only [hp, Bool.false_eq_true, if_false]
    simp [nextLoop, hpk]

example : (next ⟨[], [], false, false, false, 1⟩ false [.err "rpc"] (St.init ⟨[], [], false, false, false, 1⟩)).1.err
    = some "rpc" := by decide

/-- The error is returned *together with the row assembled so far*: when the loop of `Next` has
    accumulated `acc` and the next request fails, the call returns `(acc, err)`. -/
theorem error_with_assembled_row (sc : Scan) (fuel : Nat) (acc : Option Frag) (R : List Reply) (s : St)
    (c : String) (s1 : St) (R1 : List Reply) (h : peek sc R s = (.err c, s1, R1)) :
    nextLoop sc (fuel + 1) acc R s = some (⟨acc, some c⟩, s1, R1) := by
  simp [nextLoop, h]

/-- Non-vacuity: the open response carries the first, partial fragment of a row and the next
    request fails — `Next` returns that fragment *and* the error; the following `Next` is `io.EOF`;
    the region scanner (id 7) got its close request. -/
example :
    let sc : Scan := ⟨[], [], false, false, false, 1⟩
    let R := [Reply.resp ⟨[], []⟩ ⟨[⟨[⟨[1], 0⟩], true⟩], some 7, true, true⟩, Reply.err "rpc"]
    let r1 := next sc false R (St.init sc)
    let r2 := next sc false r1.2.2 r1.2.1
    r1.1 = ⟨some ⟨[⟨[1], 0⟩], true⟩, some "rpc"⟩ ∧ r2.1 = ⟨none, some "EOF"⟩ ∧
      closesSent r2.2.1.log = [7] ∧ r2.2.1.serverOpen = [] := by decide

/-- A cancelled context is reported by the first `Next` after the cancellation (if the scanner
    was still open), closes the scanner and drops what was buffered. -/
theorem cancel_reported (sc : Scan) (R : List Reply) (s : St) (h : s.closed = false) :
    next sc true R s = (⟨none, some "canceled"⟩, { close sc s with results := [] }, R) := by
  simp [next, h]

/-- `Close` is idempotent: a second `Close` changes nothing — in particular it sends nothing.
    (`close` takes no script argument: it never waits for a reply, so it cannot block.) -/
theorem close_idempotent (sc : Scan) (s : St) : close sc (close sc s) = close sc s :=
  close_of_closed sc _ (close_closed sc s)

/-- `Close` sends at most one request (the asynchronous close of the current region scanner). -/
theorem close_sends_at_most_one (sc : Scan) (s : St) :
    (close sc s).log = s.log ∨
      ∃ id, s.curId = some id ∧ (close sc s).log = ⟨closeReq { s with closed := true } id, none⟩ :: s.log := by
  unfold close closeRegionScanner
  by_cases hc : s.closed = true
  · simp [hc]
  · cases hcur : s.curId with
    | none => simp [hc]
    | some id =>
      by_cases hcl : sc.closing = true
      · simp [hc, hcl]
      · right; exact ⟨id, rfl, by simp [hc, hcl]⟩

example : Reachable ⟨[], [], false, false, false, 1⟩
    (runOps ⟨[], [], false, false, false, 1⟩ [.next, .close, .cancel, .next] false [.err "rpc"]
      (St.init ⟨[], [], false, false, false, 1⟩)).2.1 :=
  ⟨[.next, .close, .cancel, .next], [.err "rpc"], rfl⟩

/-- At every reachable state the region scanners that are open at the server (among the ids the
    client has learnt) are at most the scanner's current one. -/
theorem lease_invariant (sc : Scan) (s : St) (h : Reachable sc s) :
    ∀ i ∈ s.serverOpen, s.curId = some i :=
  fun i hi => (stable_reachable (leaseOk_stable sc) (by intro i hi; simp [St.init, openSet] at hi) h i hi).1

/-- A closed scanner — exhausted, closed early, failed or cancelled, in whatever state that
    happened — leaves no region scanner open at the server. -/
theorem no_lease_left (sc : Scan) (s : St) (h : Reachable sc s) (hc : s.closed = true) :
    s.serverOpen = [] := by
  have h1 := stable_reachable (closedNoCur_stable sc) (by intro h; simp [St.init] at h) h hc
  have h2 := lease_invariant sc s h
  cases hs : s.serverOpen with
  | nil => rfl
  | cons i is =>
    have := h2 i (by simp [hs])
    rw [h1] at this; cases this

/-- … and precisely: provided the server never hands out the same scanner id twice, every id
    the client learnt was either reported exhausted by the server (and then never sent a close)
    or was sent exactly one close request (and never reported exhausted). -/
theorem no_lease_left_accounting (sc : Scan) (s : St) (h : Reachable sc s) (hc : s.closed = true)
    (hn : sc.closing = false) (hfresh : (learnt s.log).Nodup) :
    ∀ id ∈ learnt s.log,
      (id ∈ exhausted s.log ∧ (closesSent s.log).count id = 0) ∨
      (id ∉ exhausted s.log ∧ (closesSent s.log).count id = 1) := by
  have A := stable_reachable (accountOk_stable sc) (accountOk_init sc) h hn hfresh
  have h1 := stable_reachable (closedNoCur_stable sc) (by intro h; simp [St.init] at h) h hc
  intro id hid
  rcases A.each id hid with h1' | h2 | h3
  · exact .inl ⟨h1'.1, List.count_eq_zero_of_not_mem h1'.2⟩
  · exact .inr ⟨h2.1, h2.2.1⟩
  · rw [h1] at h3; exact absurd h3.1 (by simp)

/-- A scan the user made with `CloseScanner()` never sends a separate close — and does not need
    to: every request that opens a region scanner carries `close_scanner = true` itself, so the
    server closes it with the very response that announces it (`lease_invariant` counts it so). -/
theorem closing_scan_opens_carry_close (sc : Scan) (s : St) (h : Reachable sc s) (hcl : sc.closing = true) :
    ∀ e ∈ s.log, e.req.kind = .open → e.req.closeFlag = true := by
  have st : Stable sc (fun s => ∀ e ∈ s.log, e.req.kind = .open → e.req.closeFlag = true) := {
    buf := fun _ _ h => h
    close := fun s h => by
      rcases close_sends_at_most_one sc s with h1 | ⟨id, _, h1⟩
      · rw [h1]; exact h
      · rw [h1]; intro e he
        rcases List.mem_cons.mp he with rfl | he
        · simp [closeReq]
        · exact h e he
    err := fun s c h _ => by
      intro e he
      rcases List.mem_cons.mp he with rfl | he
      · cases hcur : s.curId <;> simp [mkReq, hcur, hcl]
      · exact h e he
    resp := fun s g r h _ => by
      rw [update_log]
      intro e he
      rcases List.mem_cons.mp he with rfl | he
      · cases hcur : s.curId <;> simp [mkReq, hcur, hcl]
      · exact h e he }
  exact stable_reachable st (by simp [St.init]) h

/-! Non-vacuity: a scan ended by `more_results = false` while the region scanner is still open
    at the server gets its close request; an RPC error in the middle of a region too. -/

example :
    let sc : Scan := ⟨[], [], false, false, false, 1⟩
    let R := [Reply.resp ⟨[], []⟩ ⟨[⟨[⟨[1], 0⟩], false⟩], some 7, true, false⟩]
    let s := (runOps sc [.next, .next] false R (St.init sc)).2.1
    s.closed = true ∧ learnt s.log = [7] ∧ closesSent s.log = [7] ∧ s.serverOpen = [] := by decide

example :
    let sc : Scan := ⟨[], [], false, false, false, 1⟩
    let R := [Reply.resp ⟨[], []⟩ ⟨[⟨[⟨[1], 0⟩], false⟩], some 7, true, true⟩, Reply.err "rpc"]
    let s := (runOps sc [.next, .next] false R (St.init sc)).2.1
    s.closed = true ∧ closesSent s.log = [7] ∧ exhausted s.log = [] ∧ s.serverOpen = [] := by decide

/-- Regenerated from scanner.go: the lease renewer (`go s.renewLoop`) is started only while the scan
is open *and* a region scanner is open on a server (fix 1332c04).  A renewer running between two
regions sends its renew request without a scanner id; a regionserver opens a region scanner — with
a lease of its own — for such a request, and nobody ever closes it (observed as `lease-leak-*` with
renewing scans).  The lease accounting of `lease_invariant` / `no_lease_left` is about the
scanners the scan itself opened; this fact is what keeps the renewer from opening others. -/
theorem renewer_only_while_region_scanner_open_in_source :
    (GV.Gen.Selects.goStmts.filter (fun g => g.call == "s.renewLoop")).map (fun g => (g.fn, g.guard))
      = [("scanner.peek", "!s.closed && !s.isRegionScannerClosed() && s.rpc.RenewInterval() > 0")] := by decide

end GV.Scanner
