import GohbaseVerif.Lemmas.Cache
import GohbaseVerif.Model.CacheIO
/-!
# C08 — The location cache never holds overlapping regions; the newest wins

`Model/Cache.lean` is the model of `keyRegionCache` (the B-tree abstracted by its contract);
`Region.WF` is the property's domain: descriptors as HBase emits them.  Two remarks on `WF`:

* **Names embed the id.**  `put` treats two descriptors with the same *name* as the same region
  whatever their id or stop key, while "newer" is decided on the descriptor's *id*.  HBase region
  names are `table,start,<id>.<md5>.`, so `WF` requires the name to contain the decimal id:
  equal names then force equal table, start key and id (`Region.WF.name_inj`), and "already
  cached" and "not newer" cannot disagree (`put_strictly_newer_evicts` needs no name hypothesis).
* **Ties.**  The code evicts overlapping regions with an *equal* id (`o.ID() > reg.ID()` keeps
  the old ones only when strictly newer); the model and the theorems follow the code: "newer"
  in `put_newer_evicts_all` is `≤`.
-/
namespace GV.Cache
open GV GV.RegionName

/-- `isRegionOverlap` decides exactly "same table and the key ranges share a key". -/
theorem overlap_iff_ranges_intersect {a b : Region} (ha : a.WF) (hb : b.WF) :
    overlap a b = true ↔ a.fq = b.fq ∧ ∃ k, a.contains k ∧ b.contains k := by
  rw [overlap_true_iff ha.tblNoColon hb.tblNoColon]
  unfold Region.contains
  constructor
  · rintro ⟨hfq, h2, h3⟩
    refine ⟨hfq, ?_⟩
    rcases bcmp_le_total a.start b.start with h | h
    · exact ⟨b.start, ⟨h, h3⟩, ⟨by simp, hb.range⟩⟩
    · refine ⟨a.start, ⟨by simp, ha.range⟩, ⟨?_, h2⟩⟩
      rw [h]; decide
  · rintro ⟨hfq, k, ⟨h1, h2⟩, ⟨h3, h4⟩⟩
    refine ⟨hfq, ?_, ?_⟩
    · rcases h4 with h4 | h4
      · exact .inl h4
      · exact .inr (bcmp_lt_of_le_of_lt h1 h4)
    · rcases h2 with h2 | h2
      · exact .inl h2
      · exact .inr (bcmp_lt_of_le_of_lt h3 h2)

/-- **The heart.** On a good cache `getOverlaps` returns exactly the cached regions that overlap
`r`, in cache order, and does not panic — whether or not `r`'s name is cached. -/
theorem getOverlaps_complete {c : Cache} (hc : Good c) {r : Region} (hr : r.WF) :
    getOverlaps c.regions r = .ok (c.regions.filter (overlap · r)) :=
  getOverlaps_filter hc hr.tableOK hr.startLen

/-- The same for any descriptor with a comparable table name and a start key that fits a row:
`r`'s own range may even be empty (`start ≥ stop ≠ []`). -/
theorem getOverlaps_complete_anyRange {c : Cache} (hc : Good c) {r : Region} (hr : r.TableOK)
    (hlen : r.start.length ≤ 32767 - r.fq.length - 3) :
    getOverlaps c.regions r = .ok (c.regions.filter (overlap · r)) :=
  getOverlaps_filter hc hr hlen

/-! ### Why well-formedness of the *cached* regions is a hypothesis

A cached descriptor with `start ≥ stop ≠ []` (no key range; HBase never emits one) overlaps
nothing, so it may sit next to a real region — and then hides it from `getOverlaps`. -/

def wA : Region := ⟨[], [0x74], [0x61], [], [0x74, 0x2c, 0x61, 0x2c, 0x31, 0x2e, 0x78], 1⟩
def wBad : Region := ⟨[], [0x74], [0x61], [0x61], [0x74, 0x2c, 0x61, 0x2c, 0x32, 0x2e, 0x78], 2⟩
def wNew : Region := ⟨[], [0x74], [0x61], [0x62], [0x74, 0x2c, 0x61, 0x2c, 0x33, 0x2e, 0x78], 3⟩

/-- The cache `[t[a,∞)#1, t[a,a)#2]` is sorted and pairwise non-overlapping, `t[a,b)#3`
overlaps its first entry, yet `getOverlaps` finds nothing … -/
theorem illformed_needed :
    Sorted [wA, wBad] ∧ [wA, wBad].Pairwise (fun a b => overlap a b = false) ∧
    overlap wA wNew = true ∧ getOverlaps [wA, wBad] wNew = .ok [] := by
  refine ⟨?_, ?_, ?_, ?_⟩
  · exact List.Pairwise.cons (by intro b hb; simp at hb; subst hb; unfold nameLt; decide)
      (List.Pairwise.cons (by simp) List.Pairwise.nil)
  · exact List.Pairwise.cons (by intro b hb; simp at hb; subst hb; decide)
      (List.Pairwise.cons (by simp) List.Pairwise.nil)
  · decide
  · decide

/-- … so three `put`s leave two overlapping, individually well-formed regions in the cache. -/
theorem illformed_breaks_invariant :
    ∃ c, run [.put wA, .put wBad, .put wNew] Cache.empty = .ok c ∧
      wA ∈ c.regions ∧ wNew ∈ c.regions ∧ overlap wA wNew = true := by
  refine ⟨⟨[wA, wBad, wNew], []⟩, ?_, by simp, by simp, by decide⟩
  decide

/-! ### The invariant -/

theorem put_good {c : Cache} (hc : Good c) {r : Region} (hr : r.WF) :
    ∃ c' ov rep, put c r = .ok (c', ov, rep) ∧ Good c' := by
  rcases put_spec hc hr with ⟨v, _, _, hp⟩ | ⟨_, hold, hnew⟩
  · exact ⟨c, [v], false, hp, hc⟩
  · cases hany : (c.regions.filter (overlap · r)).any (fun o => decide (r.id < o.id)) with
    | true => exact ⟨c, _, false, hold hany, hc⟩
    | false =>
      obtain ⟨i, hp, hb, ha⟩ := hnew hany
      exact ⟨_, _, true, hp, evicted_good hc hr hb ha⟩

theorem del_good {c : Cache} (hc : Good c) (r : Region) : Good (del c r).1 :=
  delName_good hc r.name

theorem run_good (ops : List Op) : ∀ {c : Cache}, Good c → (∀ op ∈ ops, op.region.WF) →
    ∃ c', run ops c = .ok c' ∧ Good c' := by
  induction ops with
  | nil => intro c hc _; exact ⟨c, rfl, hc⟩
  | cons op ops ih =>
    intro c hc hwf
    have hrest : ∀ o ∈ ops, o.region.WF := fun o ho => hwf o (by simp [ho])
    cases op with
    | put r =>
      obtain ⟨c', ov, rep, hp, hg'⟩ := put_good hc (hwf (.put r) (by simp))
      obtain ⟨c'', hr, hg''⟩ := ih hg' hrest
      have hp' : put c r = .ok (c', ov, rep) := hp
      exact ⟨c'', by simp [run, step, hp', Outcome.map, hr], hg''⟩
    | del r =>
      obtain ⟨c'', hr, hg''⟩ := ih (del_good hc r) hrest
      exact ⟨c'', by simp [run, step, hr], hg''⟩

theorem empty_good : Good Cache.empty :=
  ⟨List.Pairwise.nil, fun _ h => by simp [Cache.empty] at h, List.Pairwise.nil⟩

/-- After any sequence of discoveries and removals of well-formed regions the cache is good —
and no operation ever panicked. -/
theorem reachable_good (ops : List Op) (h : ∀ op ∈ ops, op.region.WF) :
    ∃ c, run ops Cache.empty = .ok c ∧ Good c :=
  run_good ops empty_good h

/-- … hence no two cached regions of the same table have intersecting key ranges. -/
theorem no_two_cached_intersect (ops : List Op) (h : ∀ op ∈ ops, op.region.WF) :
    ∃ c, run ops Cache.empty = .ok c ∧
      ∀ a ∈ c.regions, ∀ b ∈ c.regions, a ≠ b → a.fq = b.fq →
        ¬ ∃ k, a.contains k ∧ b.contains k := by
  obtain ⟨c, hr, hg⟩ := reachable_good ops h
  refine ⟨c, hr, ?_⟩
  intro a ha b hb hne hfq hk
  have hov : overlap a b = true :=
    (overlap_iff_ranges_intersect (hg.wf a ha) (hg.wf b hb)).mpr ⟨hfq, hk⟩
  have hsym : ∀ {x y : Region}, overlap x y = false → overlap y x = false :=
    fun h => by rw [overlap_symm]; exact h
  have := pairwise_forall_sym hsym hg.disjoint ha hb hne
  rw [hov] at this; cases this

/-! ### Newest wins -/

/-- Discovering a region that is not cached by name and at least as new as everything it overlaps:
all of those are evicted and marked dead, the new region is cached, nothing else moves. -/
theorem put_newer_evicts_all {c : Cache} (hc : Good c) {r : Region} (hr : r.WF)
    (hname : ∀ x ∈ c.regions, x.name ≠ r.name)
    (hnew : ∀ x ∈ c.regions, overlap x r = true → x.id ≤ r.id) :
    ∃ c', put c r = .ok (c', c.regions.filter (overlap · r), true) ∧ Good c' ∧ r ∈ c'.regions ∧
      (∀ x ∈ c.regions, overlap x r = true → x ∉ c'.regions ∧ x ∈ c'.dead) ∧
      (∀ x ∈ c.regions, overlap x r = false → x ∈ c'.regions) ∧
      (∀ x ∈ c'.regions, x = r ∨ x ∈ c.regions) := by
  rcases put_spec hc hr with ⟨v, hv, hn, _⟩ | ⟨_, _, hnew'⟩
  · exact absurd hn (hname v hv)
  · have hany : (c.regions.filter (overlap · r)).any (fun o => decide (r.id < o.id)) = false := by
      rw [List.any_eq_false]
      intro o ho
      obtain ⟨h1, h2⟩ := List.mem_filter.mp ho
      have := hnew o h1 h2
      simp; omega
    obtain ⟨i, hp, hb, ha⟩ := hnew' hany
    refine ⟨_, hp, evicted_good hc hr hb ha, mem_evicted.mpr (.inl rfl), ?_, ?_, ?_⟩
    · intro x hx hov
      refine ⟨?_, (mem_foldl_markDead _ _ _).mpr (.inr (List.mem_filter.mpr ⟨hx, hov⟩))⟩
      intro hmem
      rcases mem_evicted.mp hmem with e | ⟨_, hno⟩
      · exact hname x hx (by rw [e])
      · rw [hov] at hno; cases hno
    · intro x hx hno
      exact mem_evicted.mpr (.inr ⟨hx, hno⟩)
    · intro x hx
      rcases mem_evicted.mp hx with e | ⟨h1, _⟩
      · exact .inl e
      · exact .inr h1

/-- A well-formed cached region with the same name overlaps (same table, same start key). -/
theorem same_name_overlaps {x r : Region} (hx : x.WF) (hr : r.WF) (h : x.name = r.name) :
    overlap x r = true ∧ x.id = r.id := by
  obtain ⟨e1, e2, e3⟩ := hx.name_inj hr h
  refine ⟨?_, e3⟩
  rw [overlap_true_iff hx.tblNoColon hr.tblNoColon]
  refine ⟨e1, ?_, ?_⟩
  · rw [e2]; exact hr.range
  · rw [← e2]; exact hx.range

/-- Strictly newer than everything it overlaps: no hypothesis about names is needed, because
names embed the id. -/
theorem put_strictly_newer_evicts {c : Cache} (hc : Good c) {r : Region} (hr : r.WF)
    (hnew : ∀ x ∈ c.regions, overlap x r = true → x.id < r.id) :
    ∃ c', put c r = .ok (c', c.regions.filter (overlap · r), true) ∧ Good c' ∧ r ∈ c'.regions ∧
      (∀ x ∈ c.regions, overlap x r = true → x ∉ c'.regions ∧ x ∈ c'.dead) ∧
      (∀ x ∈ c.regions, overlap x r = false → x ∈ c'.regions) ∧
      (∀ x ∈ c'.regions, x = r ∨ x ∈ c.regions) := by
  apply put_newer_evicts_all hc hr
  · intro x hx e
    obtain ⟨hov, hid⟩ := same_name_overlaps (hc.wf x hx) hr e
    have := hnew x hx hov
    omega
  · intro x hx hov
    exact Nat.le_of_lt (hnew x hx hov)

/-- Discovering a region that is already cached (by name), or that overlaps a newer cached
region: cache and dead marks unchanged, `replaced = false`. -/
theorem put_known_or_older_noop {c : Cache} (hc : Good c) {r : Region} (hr : r.WF)
    (h : (∃ x ∈ c.regions, x.name = r.name) ∨ (∃ x ∈ c.regions, overlap x r = true ∧ r.id < x.id)) :
    ∃ ov, put c r = .ok (c, ov, false) := by
  rcases put_spec hc hr with ⟨v, _, _, hp⟩ | ⟨hnames, hold, _⟩
  · exact ⟨[v], hp⟩
  · rcases h with ⟨x, hx, e⟩ | ⟨x, hx, hov, hid⟩
    · exact absurd e (hnames x hx)
    · refine ⟨_, hold ?_⟩
      rw [List.any_eq_true]
      exact ⟨x, List.mem_filter.mpr ⟨hx, hov⟩, by simpa using hid⟩

/-- `put` marks dead only what it evicts (and never un-marks). -/
theorem others_not_marked {c c' : Cache} (hc : Good c) {r : Region} (hr : r.WF)
    {ov : List Region} {rep : Bool} (hp : put c r = .ok (c', ov, rep)) :
    (∀ x ∈ c.dead, x ∈ c'.dead) ∧
    (∀ x ∈ c'.dead, x ∈ c.dead ∨ (rep = true ∧ x ∈ c.regions ∧ overlap x r = true ∧ x ∉ c'.regions)) := by
  rcases put_spec hc hr with ⟨v, _, _, hp'⟩ | ⟨hnames, hold, hnew⟩
  · rw [hp] at hp'; injection hp' with e; injection e with e1 _; subst e1
    exact ⟨fun x h => h, fun x h => .inl h⟩
  · cases hany : (c.regions.filter (overlap · r)).any (fun o => decide (r.id < o.id)) with
    | true =>
      have hp' := hold hany
      rw [hp] at hp'; injection hp' with e; injection e with e1 _; subst e1
      exact ⟨fun x h => h, fun x h => .inl h⟩
    | false =>
      obtain ⟨i, hp', _, _⟩ := hnew hany
      rw [hp] at hp'; injection hp' with e; injection e with e1 e2
      injection e2 with _ e3
      subst e1 e3
      refine ⟨fun x h => (mem_foldl_markDead _ _ _).mpr (.inl h), ?_⟩
      intro x hx
      rcases (mem_foldl_markDead _ _ _).mp hx with h | h
      · exact .inl h
      · obtain ⟨h1, h2⟩ := List.mem_filter.mp h
        refine .inr ⟨rfl, h1, h2, ?_⟩
        intro hmem
        rcases mem_evicted.mp hmem with e | ⟨_, hno⟩
        · exact hnames x h1 (by rw [e])
        · rw [h2] at hno; cases hno

/-! ### The driver's domain test -/

theorem mkName_append (t k s rest : Bytes) : mkName t k s ++ rest = mkName t k (s ++ rest) := by
  simp [mkName]

/-- The driver's executable domain test is `WF`. -/
theorem wfB_iff_WF (r : Region) : r.wfB = true ↔ r.WF := by
  unfold Region.wfB
  simp only [Bool.and_eq_true, Bool.not_eq_true', List.contains_eq_mem, decide_eq_false_iff_not,
    Bool.or_eq_true, List.isEmpty_iff, beq_iff_eq, decide_eq_true_eq, List.isPrefixOf_iff_prefix]
  constructor
  · rintro ⟨⟨⟨⟨⟨h1, h2⟩, h3⟩, h4⟩, h5⟩, h6⟩
    refine ⟨⟨r.name.drop (mkName r.fq r.start (dec r.id ++ [dot])).length, ?_, h2⟩, h3, h4, h5, h6⟩
    have := List.prefix_iff_eq_append.mp h1
    rw [mkName_append] at this
    simpa using this.symm
  · intro h
    obtain ⟨rest, hn, hc⟩ := h.nameShape
    have hpre : r.name = mkName r.fq r.start (dec r.id ++ [dot]) ++ rest := by
      rw [mkName_append]; simpa using hn
    refine ⟨⟨⟨⟨⟨?_, ?_⟩, h.fqNoComma⟩, h.tblNoColon⟩, h.range⟩, h.nameLen⟩
    · rw [hpre]; exact List.prefix_append _ _
    · rw [hpre, List.drop_left]; exact hc
theorem containsB_iff (r : Region) (k : Bytes) : r.containsB k = true ↔ r.contains k := by
  simp [Region.containsB, Region.contains]

/-- The driver's spec oracle (`CacheIO.intersects`, used to re-judge the implementation's cache
dumps) is exactly "same table and the two key ranges share a key". -/
theorem intersects_iff (a b : Region) :
    CacheIO.intersects a b = true ↔ a.fq = b.fq ∧ ∃ k, a.contains k ∧ b.contains k := by
  unfold CacheIO.intersects
  simp only [Bool.and_eq_true, beq_iff_eq, containsB_iff]
  constructor
  · rintro ⟨h1, h2, h3⟩
    exact ⟨h1, _, h2, h3⟩
  · rintro ⟨h1, k, ⟨ha1, ha2⟩, ⟨hb1, hb2⟩⟩
    refine ⟨h1, ?_⟩
    by_cases hgt : bcmp a.start b.start = .gt
    · simp only [hgt, if_true]
      refine ⟨⟨by simp, ?_⟩, ⟨?_, ?_⟩⟩
      · rcases ha2 with h | h
        · exact .inl h
        · exact .inr (bcmp_lt_of_le_of_lt ha1 h)
      · rw [(bcmp_gt_iff_lt _ _).mp hgt]; decide
      · rcases hb2 with h | h
        · exact .inl h
        · exact .inr (bcmp_lt_of_le_of_lt ha1 h)
    · simp only [hgt, if_false]
      refine ⟨⟨hgt, ?_⟩, ⟨by simp, ?_⟩⟩
      · rcases ha2 with h | h
        · exact .inl h
        · exact .inr (bcmp_lt_of_le_of_lt hb1 h)
      · rcases hb2 with h | h
        · exact .inl h
        · exact .inr (bcmp_lt_of_le_of_lt hb1 h)

/-- … hence, on well-formed descriptors, it agrees with `isRegionOverlap`. -/
theorem intersects_eq_overlap {a b : Region} (ha : a.WF) (hb : b.WF) :
    CacheIO.intersects a b = overlap a b := by
  rw [Bool.eq_iff_iff, intersects_iff]
  exact (overlap_iff_ranges_intersect ha hb).symm
/-! ### Non-vacuity -/

def exA : Region := ⟨[], [0x74], [], [0x62], mkName [0x74] [] (dec 1 ++ dot :: [0x78]), 1⟩
def exB : Region := ⟨[0x6e], [0x74], [0x61], [], mkName [0x6e, 0x3a, 0x74] [0x61] (dec 12 ++ dot :: [0x78]), 12⟩

theorem exA_wf : exA.WF :=
  ⟨⟨[0x78], rfl, by decide⟩, by decide, by decide, by decide, by
    show (mkName [0x74] [] (dec 1 ++ dot :: [0x78])).length ≤ 32767
    rw [dec_small (by decide)]; decide⟩

theorem exB_wf : exB.WF :=
  ⟨⟨[0x78], rfl, by decide⟩, by decide, by decide, by decide, by
    show (mkName [0x6e, 0x3a, 0x74] [0x61] (dec 12 ++ dot :: [0x78])).length ≤ 32767
    rw [dec_big (by decide), dec_small (by decide)]; decide⟩

example : ∃ c, run [.put exA, .put exB, .del exA] Cache.empty = .ok c ∧ Good c :=
  reachable_good _ (by
    intro op h
    simp only [List.mem_cons, List.mem_nil_iff, or_false] at h
    rcases h with h | h | h <;> subst h <;> first | exact exA_wf | exact exB_wf)

end GV.Cache
