import GohbaseVerif.Props.C11Cell
import GohbaseVerif.Props.C11Names
import GohbaseVerif.Lemmas.Receive
/-!
# C11 — Malformed data from the network cannot crash the client

"No byte sequence received from a regionserver — response frames, headers, exceptions,
multi-responses, cellblocks — or read as an hbase:meta row can make the client panic, read outside
the received data or spin: decoding either produces a result or reports an error to the affected
callers, and an unusable stream fails the connection in the orderly way of C03."

The model (`Model/Receive.lean`, `Model/Cell.lean`) turns every Go index / slice / nil dereference /
type assertion / explicit `panic` and every send on a full result channel into `Outcome.fault`; the
theorems say that no input reaches one: for *all* decoded structures (optional fields absent,
counts / lengths / indices inconsistent with the data) and *all* byte strings.

Hypotheses that appear below and what they stand for:
* `Frame.WF`: the frame buffer has the `uint32` size read from the wire and `protowire.ConsumeBytes`
  consumed no more than the buffer holds (trusted protobuf library);
* `ReqDecoded` / `ReqMulti` / `ReqDecode`: `proto.Unmarshal` rejects a message that lacks a proto2
  `required` field (`NameBytesPair.name`, `RegionInfo.table_name`) — trusted protobuf library;
* the connection's decompressor does not fault (the compressed-stream part of C11, proved separately);
* result channels are empty when a call's response arrives (C02/C03/C12: one completion per call).

Cannot spin: every loop of the modelled functions is structural recursion over the finite decoded
response — `desRars`/`desRoes`/`returnRars`/`returnRoes`/`failRegion`/`sweep`/`failAll` over the
lists of region results, action results and calls, `scanLoop` over `cells_per_result`,
`deserializeFrom` over the cell count, `nextLoop` over the fetched results, `parseLoop` over the
cells of the meta row. No definition takes fuel. The one Go loop whose iteration may not consume
input (`Next`'s coalescing loop, when `coalesce` reports "not done") is shown to return in that
case (`next_never_spins`), and every `Next` that yields a result consumes a fetched result
(`next_consumes_input`).

A multi response may itself say that the regionserver is not in service (an exception of the classes
of `javaServerExceptions`, for a region or for one action): `receive` then fails the connection
after having answered every call (`server_exception_in_multi_ends_connection`,
`multi_connection_failure_only_for_server_exception`); the no-panic / no-block / exactly-once
theorems hold for these responses like for every other.

Outside the model (DESIGN §6 C11 **R**): the *size* of allocations made from wire-declared counts
(`make([]*pb.Cell, count)`), see KNOWN_FINDINGS `alloc-*`.
-/
namespace GV.C11
open GV GV.Cell GV.Receive

/-! ## cells (restated from `Props/C11Cell.lean`, so that this module is self-contained for the audit) -/

/-- `cellFromCellBlock` returns a cell or an error on every byte string. -/
theorem cellFromCellBlock_never_faults (b : Bytes) : (cellFromCellBlock b).isFault = false :=
  GV.Cell.cellFromCellBlock_never_faults b

/-- A decoded cell never claims more bytes than the buffer holds. -/
theorem cellFromCellBlock_consumed_le_len (b : Bytes) (c : Cell) (l : Nat)
    (h : cellFromCellBlock b = .ok (c, l)) : l ≤ b.length :=
  GV.Cell.cellFromCellBlock_consumed_le_len b c l h

/-- `deserializeCellBlocks` returns cells or an error on every byte string and every count. -/
theorem deserializeCellBlocks_never_faults (b : Bytes) (cellsLen : Nat) :
    (deserializeCellBlocks b cellsLen).isFault = false :=
  GV.Cell.deserializeCellBlocks_never_faults b cellsLen

/-- … and never reports more bytes read than the buffer holds (callers slice with it). -/
theorem deserializeCellBlocks_read_le_len (b : Bytes) (n : Nat) (cs : List Cell) (r : Nat)
    (h : deserializeCellBlocks b n = .ok (cs, r)) : r ≤ b.length :=
  deserializeCellBlocks_read_le h

/-! ## response frames -/

/-- `receive`, from the decoded header onward, never panics: for every header, every response
structure, every cellblock bytes, every `cell_block_meta` length (the `uint32` arithmetic of
`b[size-cellsLen:]` included), every registered call (single, multi, or none). -/
theorem receive_no_fault (lookup : Nat → Option Rpc) (ctxDone : Bool)
    (decompress : Option (Bytes → Outcome Bytes)) (f : Frame) (hwf : f.WF)
    (hreq : ReqDecoded f.decoded)
    (hdec : ∀ dec, decompress = some dec → ∀ b, (dec b).isFault = false) :
    (receiveDecide lookup ctxDone decompress f).isFault = false :=
  receiveDecide_no_fault lookup ctxDone decompress f hwf hreq hdec

/-- A frame whose header carries no call id, or the id of no outstanding call, is an unusable
stream: `receive` returns a `ServerError` (connection failure of C03) and delivers nothing itself. -/
theorem receive_unusable_id_fails_connection (lookup : Nat → Option Rpc) (ctxDone : Bool)
    (decompress : Option (Bytes → Outcome Bytes)) (f : Frame)
    (h : f.header.callId = none ∨ ∃ id, f.header.callId = some id ∧ lookup id = none) :
    receiveDecide lookup ctxDone decompress f = .ok ⟨[], true⟩ := by
  unfold receiveDecide
  rcases h with h | ⟨id, h1, h2⟩
  · simp only [h]
  · simp only [h1, h2]

/-- The `if … else if` chain of `exceptionToError` consults the tables in this order (regenerated
from the source on every run). -/
theorem exception_arms_order :
    Gen.Exceptions.arms.map (·.2) = ["RetryableError", "NotServingRegionError", "ServerError"] ∧
    Gen.Exceptions.shapeOk = true := by decide

/-- Whatever a response for a multi looks like — valid, rejected, an exception, undecodable —
when `receive` is done with it every live call of the multi holds exactly one result and no
dropped call holds any. -/
theorem receive_multi_each_live_call_once (lookup : Nat → Option Rpc)
    (decompress : Option (Bytes → Outcome Bytes)) (f : Frame) (id : Nat) (m : Multi) (v : Verdict)
    (hid : f.header.callId = some id) (hl : lookup id = some (.multi m))
    (h : receiveDecide lookup false decompress f = .ok v) :
    ∀ j, (v.deliveries.map (·.1)).count j = if liveAt m.calls j = true then 1 else 0 :=
  receiveDecide_multi_counts lookup decompress f id m v hid hl h

/-! ## a multi response that says the regionserver is going down

`region/client.go` `serverErrorIn`: an exception of the classes of `javaServerExceptions`
(`exceptionToError` makes a `ServerError` of it) inside a multi response — for a whole region or for
one action — fails the connection like the same exception in a response header does, *after* every
call of the multi has been given its own result. -/

/-- The accepted path of `receive` for a multi — no header exception, a response that decodes (`mr`),
a `cell_block_meta` length that fits into the frame, a cellblock that `DeserializeCellBlocks`
accepts (giving `mr'`) and reads to its end: every call gets exactly what
`returnResults(response, nil)` gives it (the per-call results do not depend on whether the connection
fails afterwards; `multi_return_no_fault_after_validation` and `multi_each_live_call_answered_once`
speak about them), and `receive` returns a `ServerError` — the connection fails — exactly if the
response carries a server-class exception. -/
theorem accepted_multi_connection_state (lookup : Nat → Option Rpc) (f : Frame) (id rl : Nat)
    (m : Multi) (mr mr' : MultiResp) (n : Nat) (hwf : f.WF)
    (hid : f.header.callId = some id) (hl : lookup id = some (.multi m))
    (hexc : f.header.exception = none) (hrl : f.respLen = some rl)
    (hdec : f.decoded.multi = some mr)
    (hcl : cellsLenOf f.header ≤ f.body.length - f.headerLen - rl)
    (hdes : multiDeserialize m mr (f.body.drop (f.body.length - cellsLenOf f.header)) = .ok (mr', n))
    (hn : cellsLenOf f.header ≤ n) :
    receiveDecide lookup false none f
      = (multiReturn m (some mr') none).map (fun ds => ⟨ds, serverErrorIn mr⟩) :=
  receiveDecide_multi_accepted lookup f id rl m mr mr' n hwf hid hl hexc hrl hdec hcl hdes hn

/-- NEW BEHAVIOUR. A well-formed multi response that contains a server-class exception — region-level
or per-action, in any `RegionActionResult` — ends the connection: the calls get their results as
before (`returnResults(response, nil)`), then `receive` returns the `ServerError` (`connFail`), so
`receiveRPCs` calls `c.fail` and exits (C03). -/
theorem server_exception_in_multi_ends_connection (lookup : Nat → Option Rpc) (f : Frame) (id rl : Nat)
    (m : Multi) (mr mr' : MultiResp) (n : Nat) (hwf : f.WF)
    (hid : f.header.callId = some id) (hl : lookup id = some (.multi m))
    (hexc : f.header.exception = none) (hrl : f.respLen = some rl)
    (hdec : f.decoded.multi = some mr)
    (hcl : cellsLenOf f.header ≤ f.body.length - f.headerLen - rl)
    (hdes : multiDeserialize m mr (f.body.drop (f.body.length - cellsLenOf f.header)) = .ok (mr', n))
    (hn : cellsLenOf f.header ≤ n) (hsrv : serverErrorIn mr = true) :
    receiveDecide lookup false none f
      = (multiReturn m (some mr') none).map (fun ds => ⟨ds, true⟩) := by
  rw [accepted_multi_connection_state lookup f id rl m mr mr' n hwf hid hl hexc hrl hdec hcl hdes hn,
    hsrv]

/-- Conversely, the response to a multi fails the connection only for a server-class exception: in
the header (every call gets that `ServerError`) or inside the accepted response (every call has got
what `returnResults(response, nil)` gives it). A response that is rejected — undecodable, bad
`cell_block_meta`, bad cellblock, indices `DeserializeCellBlocks` refuses, short read — never does,
whatever exceptions it mentions. -/
theorem multi_connection_failure_only_for_server_exception (lookup : Nat → Option Rpc)
    (decompress : Option (Bytes → Outcome Bytes)) (f : Frame) (id : Nat) (m : Multi) (v : Verdict)
    (hid : f.header.callId = some id) (hl : lookup id = some (.multi m))
    (h : receiveDecide lookup false decompress f = .ok v) (hcf : v.connFail = true) :
    (∃ e, f.header.exception = some e ∧
        exceptionToError (e.className.getD []) (e.stackTrace.getD []) = .connErr ∧
        multiReturn m none (some .connErr) = .ok v.deliveries) ∨
    (f.header.exception = none ∧
      ∃ mr, serverErrorIn mr = true ∧ multiReturn m (some mr) none = .ok v.deliveries) :=
  receiveDecide_multi_connFail_cause lookup decompress f id m v hid hl h hcf

/-- `DeserializeCellBlocks` does not touch exceptions: what `serverErrorIn` finds in the response
handed to the callers is what the wire message held. -/
theorem multiDeserialize_keeps_server_exceptions (m : Multi) (mr mr' : MultiResp) (b : Bytes) (n : Nat)
    (h : multiDeserialize m mr b = .ok (mr', n)) : serverErrorIn mr' = serverErrorIn mr :=
  multiDeserialize_serverErrorIn h

/-! ## multi responses -/

/-- `multi.DeserializeCellBlocks` never panics, whatever indices, results, exceptions and counts
the response carries and whatever the cellblock bytes are. -/
theorem multiDeserialize_no_fault (m : Multi) (mr : MultiResp) (b : Bytes) :
    (multiDeserialize m mr b).isFault = false :=
  (multiDeserialize_spec m mr b).isFault

/-- … and a response it accepts is `Validated`: every action index is non-zero and refers to a
live call; a region exception comes without action results. -/
theorem multiDeserialize_validates (m : Multi) (mr mr' : MultiResp) (b : Bytes) (n : Nat)
    (h : multiDeserialize m mr b = .ok (mr', n)) : Validated m mr' ∧ n ≤ b.length := by
  have := (multiDeserialize_spec m mr b).of_ok h
  exact ⟨this.2.1, this.1⟩

/-- If `DeserializeCellBlocks` accepted the response, `returnResults` never panics and never blocks:
`m.get(i)` with `i = 0` or out of range, `m.regions[i]` out of range, a nil call, a second send on
a result channel — all unreachable. -/
theorem multi_return_no_fault_after_validation (m : Multi) (mr mr' : MultiResp) (b : Bytes) (n : Nat)
    (hreq : ReqMulti mr) (h : multiDeserialize m mr b = .ok (mr', n)) :
    (multiReturn m (some mr') none).isFault = false := by
  have := (multiDeserialize_spec m mr b).of_ok h
  exact multiReturn_no_fault m mr' this.2.1 (this.2.2 hreq)

/-- After `returnResults` every live call of the multi has exactly one delivery and every dropped
call none — whether the response mentions the call once, never, twice, or its region reported an
exception. (Holds for every completed run, validated or not; with the previous theorem: for every
accepted response.) -/
theorem multi_each_live_call_answered_once (m : Multi) (msg : Option MultiResp) (err : Option ErrCls)
    (ds : List (Nat × Delivery)) (h : multiReturn m msg err = .ok ds) :
    ∀ j, (ds.map (·.1)).count j = if liveAt m.calls j = true then 1 else 0 :=
  multiReturn_counts m msg err ds h

/-- A rejected response (`returnResults(nil or msg, err)`) yields exactly one error of that class per
live call, and nothing else. -/
theorem multi_invalid_response_is_error_for_all (m : Multi) (msg : Option MultiResp) (e : ErrCls) :
    ∃ ds, multiReturn m msg (some e) = .ok ds ∧
      (∀ j, (ds.map (·.1)).count j = if liveAt m.calls j = true then 1 else 0) ∧
      (∀ p ∈ ds, p.2 = errD e) :=
  multiReturn_err m msg e

/-! ## get / mutate / scan responses -/

theorem getDeserialize_no_fault (r : GetResp) (b : Bytes) : (getDeserialize r b).isFault = false :=
  GV.Receive.getDeserialize_no_fault r b

/-- `Scan.DeserializeCellBlocks` never panics: `partials[i]`, `Results[i]` and `b[readLen:]` stay in
range for every pair of count / flag arrays and every cellblock. -/
theorem scanDeserialize_no_fault (r : ScanResp) (b : Bytes) : (scanDeserialize r b).isFault = false :=
  scanDeserialize_no_fault' r b

/-! ## scanner coalescing -/

/-- `coalesce` never indexes an empty cell list (zero-cell partial results included). -/
theorem coalesce_no_fault (result : Option PResult) (part : PResult) :
    (coalesce result part).isFault = false :=
  coalesce_no_fault' result part

/-- The coalescing loop of `Next` never panics and never spins: an iteration that does not consume
the fetched result returns. -/
theorem next_never_spins (result : Option PResult) (buf : List PResult) :
    (nextLoop result buf).isFault = false :=
  nextLoop_no_fault' result buf

/-- A `Next` that yields a result has consumed at least one fetched result. -/
theorem next_consumes_input (buf : List PResult) (r : PResult) (rest : List PResult)
    (h : nextLoop none buf = .ok (some r, rest)) : rest.length < buf.length :=
  nextLoop_progress buf h

/-! ## region info -/

/-- `ParseRegionInfo` / `infoFromCell` never panic, for every value of the `regioninfo` cell (length
0–3 included) and every meta row. -/
theorem regionInfo_no_fault (decode : Bytes → Option RegionInfoPB) (hreq : ReqDecode decode)
    (cells : List (MetaQual × Bytes)) : (parseRegionInfo decode cells).isFault = false :=
  parseRegionInfo_no_fault decode hreq cells

/-! ## Non-vacuity: the fault branches are real and the hypotheses are satisfiable -/

def mcg (r : Nat) : Option MCall := some ⟨.get, r⟩
def m2 : Multi := ⟨[mcg 0, none, mcg 1], [0, 1]⟩
def okRoe (i : Nat) : ResultOrException := ⟨some i, some { cells := [] }, none⟩
def excRoe (i : Nat) : ResultOrException := ⟨some i, none, some ⟨some [1], none⟩⟩

/-- without validation `returnResults` does panic / block: index 0, out of range, a dropped call … -/
example : (multiReturn m2 (some ⟨[⟨[okRoe 0], none⟩]⟩) none).isFault = true := by decide
example : (multiReturn m2 (some ⟨[⟨[okRoe 4], none⟩]⟩) none).isFault = true := by decide
example : (multiReturn m2 (some ⟨[⟨[okRoe 2], none⟩]⟩) none).isFault = true := by decide
/-- … and `DeserializeCellBlocks` rejects exactly these -/
example : multiDeserialize m2 ⟨[⟨[okRoe 0], none⟩]⟩ [] = .err "no index" := by decide
example : multiDeserialize m2 ⟨[⟨[okRoe 4], none⟩]⟩ [] = .err "unexpected index" := by decide
example : multiDeserialize m2 ⟨[⟨[okRoe 2], none⟩]⟩ [] = .err "unexpected index" := by decide
example : multiDeserialize m2 ⟨[⟨[okRoe 1, okRoe 1], none⟩]⟩ [] = .err "duplicate index" := by decide
/-- a duplicate index that got through would not block (the `answered` guard), a missing one is answered -/
example : (multiReturn m2 (some ⟨[⟨[okRoe 1, okRoe 1], none⟩]⟩) none).map (·.map (·.1)) = .ok [0, 2] := by
  decide
/-- a second send is a fault -/
example : (send ⟨[], [(0, errD .fatal)]⟩ 0 (errD .fatal)).isFault = true := by decide
/-- an accepted response: call 0 answered, call 1 dropped, call 2 not mentioned → retryable -/
example : (multiDeserialize m2 ⟨[⟨[okRoe 1], none⟩]⟩ []).isOk = true := by decide
example : multiReturn m2 (some ⟨[⟨[okRoe 1], none⟩]⟩) none
    = .ok [(0, ⟨.get ⟨some { cells := [] }⟩, none⟩), (2, errD .retryable)] := by decide
/-- more region results than regions: skipped, everybody still answered -/
example : (multiReturn m2 (some ⟨[⟨[], none⟩, ⟨[], none⟩, ⟨[], some ⟨some [1], none⟩⟩]⟩) none).map (·.map (·.1))
    = .ok [0, 2] := by decide
/-- scan: unequal arrays are an error, not `partials[i]` out of range -/
example : scanDeserialize ⟨[0, 0], [true], []⟩ [] = .err "partial flags" := by decide
example : (scanLoop [] [true] 0 [0, 0] 0).isFault = true := by decide
example : (scanDeserialize ⟨[0, 0], [true, false], []⟩ []).isOk = true := by decide
/-- coalesce with a zero-cell partial result -/
example : (coalesce (some { cells := [], partialFlag := some true }) { cells := [⟨[1], [], [], 0, 4, []⟩] }).isOk
    = true := by decide
example : (cell0 []).isFault = true := by decide
/-- region info values of 0–4 bytes -/
example : infoFromCell (fun _ => none) [80, 66] = .err "region info is too short" := by decide
example : infoFromCell (fun _ => none) [] = .err "empty value" := by decide
example : infoFromCell (fun _ => some ⟨false, some ([], [])⟩) [80, 66, 85, 70] = .ok () := by decide
example : (infoFromCell (fun _ => some ⟨false, none⟩) [80, 66, 85, 70]).isFault = true := by decide
/-- `cell_block_meta.length` larger than what follows the response: an error; without the guard the
slice expression would fault (`subU32` wraps) -/
example : subU32 10 11 = 4294967295 := by decide
def fr (cbm : Nat) : Frame :=
  ⟨[0, 0, 0], 1, ⟨some 1, none, some (some cbm)⟩, some 1, { get := some ⟨some { cells := [] }⟩ }⟩
example : (fr 7).WF := by unfold Frame.WF; decide
example : receiveDecide (fun _ => some .get) false none (fr 7)
    = .ok ⟨[(0, ⟨.get ⟨some { cells := [] }⟩, some .retryable⟩)], false⟩ := by decide
example : receiveDecide (fun _ => some .get) false none (fr 4294967295)
    = .ok ⟨[(0, ⟨.get ⟨some { cells := [] }⟩, some .retryable⟩)], false⟩ := by decide
/-- a one-byte cellblock that is not read (count 0) is a short read -/
example : receiveDecide (fun _ => some .get) false none (fr 1)
    = .ok ⟨[(0, ⟨.get ⟨some { cells := [] }⟩, some .retryable⟩)], false⟩ := by decide
/-- no call id / unknown call id: the connection fails (C03) and nothing is delivered by `receive` -/
example : receiveDecide (fun _ => none) false none (fr 0) = .ok ⟨[], true⟩ := by decide

/-! ### a server-class exception inside a multi response (`decide +kernel`: the class names are
string literals of the regenerated tables, whose UTF-8 bytes only the kernel evaluates) -/

def stoppedNBP : NameBytesPair :=
  ⟨some (strBytes "org.apache.hadoop.hbase.regionserver.RegionServerStoppedException"), some [115]⟩
def ioNBP (v : String) : NameBytesPair := ⟨some (strBytes "java.io.IOException"), some (strBytes v)⟩
def excRoeOf (i : Nat) (e : NameBytesPair) : ResultOrException := ⟨some i, none, some e⟩
/-- a frame for the multi `m2` (calls 0 and 2 live, regions 0 and 1) without cellblock -/
def frM (mr : MultiResp) : Frame := ⟨[0, 0], 1, ⟨some 1, none, none⟩, some 1, { multi := some mr }⟩
def mrAction : MultiResp := ⟨[⟨[excRoeOf 1 stoppedNBP], none⟩, ⟨[okRoe 3], none⟩]⟩
def mrRegion : MultiResp := ⟨[⟨[], some stoppedNBP⟩, ⟨[okRoe 3], none⟩]⟩

/-- the hypotheses of `server_exception_in_multi_ends_connection` are satisfiable … -/
example : (frM mrAction).WF ∧ (frM mrAction).header.exception = none ∧
    cellsLenOf (frM mrAction).header ≤ (frM mrAction).body.length - (frM mrAction).headerLen - 1 ∧
    multiDeserialize m2 mrAction ((frM mrAction).body.drop
      ((frM mrAction).body.length - cellsLenOf (frM mrAction).header)) = .ok (mrAction, 0) ∧
    serverErrorIn mrAction = true := by
  unfold Frame.WF; decide +kernel
/-- … per action: the failed call gets its `ServerError`, the other call keeps its success, then the
connection fails -/
example : receiveDecide (fun _ => some (.multi m2)) false none (frM mrAction)
    = .ok ⟨[(0, errD .connErr), (2, ⟨.get ⟨some { cells := [] }⟩, none⟩)], true⟩ := by decide +kernel
/-- … for a whole region -/
example : receiveDecide (fun _ => some (.multi m2)) false none (frM mrRegion)
    = .ok ⟨[(0, errD .connErr), (2, ⟨.get ⟨some { cells := [] }⟩, none⟩)], true⟩ := by decide +kernel
/-- … in a region result beyond the regions of the request: nobody is told, the connection still fails -/
example : receiveDecide (fun _ => some (.multi m2)) false none
      (frM ⟨[⟨[okRoe 1], none⟩, ⟨[okRoe 3], none⟩, ⟨[], some stoppedNBP⟩]⟩)
    = .ok ⟨[(0, ⟨.get ⟨some { cells := [] }⟩, none⟩), (2, ⟨.get ⟨some { cells := [] }⟩, none⟩)], true⟩ := by
  decide +kernel
/-- `java.io.IOException` is not server-class, with ("log is closed": the region is not served) and
without the text: the connection stays in service -/
example : receiveDecide (fun _ => some (.multi m2)) false none
      (frM ⟨[⟨[excRoeOf 1 (ioNBP "Cannot append; log is closed")], none⟩, ⟨[okRoe 3], none⟩]⟩)
    = .ok ⟨[(0, errD .nsre), (2, ⟨.get ⟨some { cells := [] }⟩, none⟩)], false⟩ := by decide +kernel
example : receiveDecide (fun _ => some (.multi m2)) false none
      (frM ⟨[⟨[excRoeOf 1 (ioNBP "other")], none⟩, ⟨[okRoe 3], none⟩]⟩)
    = .ok ⟨[(0, errD .fatal), (2, ⟨.get ⟨some { cells := [] }⟩, none⟩)], false⟩ := by decide +kernel
/-- a rejected response (a short read: one cellblock byte nobody reads) mentions the exception in
vain: every call is told to retry, the connection stays in service -/
example : receiveDecide (fun _ => some (.multi m2)) false none
      ⟨[0, 0, 0], 1, ⟨some 1, none, some (some 1)⟩, some 1, { multi := some mrAction }⟩
    = .ok ⟨[(0, errD .retryable), (2, errD .retryable)], false⟩ := by decide +kernel
/-- without the exception nothing changes: no connection failure -/
example : receiveDecide (fun _ => some (.multi m2)) false none (frM ⟨[⟨[okRoe 1], none⟩, ⟨[okRoe 3], none⟩]⟩)
    = .ok ⟨[(0, ⟨.get ⟨some { cells := [] }⟩, none⟩), (2, ⟨.get ⟨some { cells := [] }⟩, none⟩)], false⟩ := by
  decide

/-! ## Meta row keys (fix 7f9c1ed) — proofs in `Props/C11Names.lean` -/

/-- A meta row key that passes `infoFromCell`'s check is `table,startkey,id` with comma-free table
and id … -/
theorem meta_row_key_accepted_is_region_name (n : Bytes) (h : GV.RegionName.acceptedName n = true) :
    ∃ t k s, n = GV.RegionName.mkName t k s ∧ GV.RegionName.comma ∉ t ∧ GV.RegionName.comma ∉ s :=
  GV.RegionName.accepted_is_mkName n h

/-- … so comparing two accepted names (what the location cache does with them) never panics. -/
theorem meta_row_keys_never_crash_the_cache (a b : Bytes)
    (ha : GV.RegionName.acceptedName a = true) (hb : GV.RegionName.acceptedName b = true) :
    (GV.RegionName.compareName a b).isFault = false :=
  GV.RegionName.accepted_names_never_fault a b ha hb

/-- Regenerated: the check `infoFromCell` applies is the two-comma check. -/
theorem meta_row_key_checked_in_source :
    GV.Gen.Exits.metaRowKeyCheck
      = "i < 0 || j == i || j+1 == len(cell.Row) || cell.Row[j+1] < '0' || cell.Row[j+1] > '9'" :=
  GV.RegionName.meta_row_key_checked_in_source

end GV.C11
