import GohbaseVerif.Lemmas.Classify
import GohbaseVerif.Lemmas.ClientSeq
/-!
# C04 — Requests survive region and server faults; only real errors surface

Part 1 (this section): the decision logic.  `classify` is `region.exceptionToError` over the
regenerated tables and arm order (`Gen.Exceptions`); the per-class behaviour of `SendRPC`,
`handleResultError`, `isRegionEstablished` is `Gen.RetryLoop` / `Gen.Selects` (regenerated).
Part 2 (below): sequentialised progress over `Model/ClientSeq.lean`.
-/
namespace GV.Classify
open GV.Gen GV.Gen.RetryLoop

/-! ## Classification -/

/-- No Java class name occurs twice across (or within) the three tables … -/
theorem class_tables_disjoint : tableNames.Nodup := by decide

/-- all orders in which the three `if … else if …` arms of the source could be written -/
def armOrders : List (List (String × String)) :=
  match Exceptions.arms with
  | [a, b, c] => [[a, b, c], [a, c, b], [b, a, c], [b, c, a], [c, a, b], [c, b, a]]
  | other => [other]

theorem arm_orders_hits : ∀ p ∈ armOrders, ∀ c ∈ tableNames, hits p c = hits Exceptions.arms c := by
  decide

theorem arm_orders_tables : ∀ p ∈ armOrders, ∀ a ∈ p, ∀ k ∈ (tableOf a.1).map (·.1), k ∈ tableNames := by
  decide

/-- … so the order of the arms of `exceptionToError` is immaterial: every order classifies every
(class, stack) alike. -/
theorem arm_order_immaterial :
    ∀ p ∈ armOrders, ∀ cls stack, classifyArms p cls stack = classify cls stack := by
  intro p hp cls stack
  rw [classify, classifyArms_eq, classifyArms_eq]
  by_cases h : cls ∈ tableNames
  · rw [arm_orders_hits p hp cls h]
  · rw [hits_nil_of_unknown p cls (arm_orders_tables p hp) h,
        hits_nil_of_unknown _ cls arm_tables_within_names h]

example : armOrders.length = 6 ∧ Exceptions.arms ∈ armOrders := by decide
/-- negative: were a class in two tables, the order would matter -/
example : classifyArms [("javaRetryableExceptions", "RetryableError"), ("javaRetryableExceptions", "ServerError")]
      "org.apache.hadoop.hbase.PleaseHoldException" "" ≠
    classifyArms [("javaRetryableExceptions", "ServerError"), ("javaRetryableExceptions", "RetryableError")]
      "org.apache.hadoop.hbase.PleaseHoldException" "" := by decide

/-- classes whose table value is the empty string are classified by class name alone -/
theorem classify_of_hits (cls stack : String) (k : ErrClass)
    (h : hits Exceptions.arms cls = [("", k)]) : classify cls stack = k := by
  rw [classify, classifyArms_eq, h]
  simp [firstHit, contains_empty]

def expectNsre : List String := [
  "org.apache.hadoop.hbase.NotServingRegionException",
  "org.apache.hadoop.hbase.exceptions.RegionMovedException"]
def expectRetryable : List String := [
  "org.apache.hadoop.hbase.exceptions.RegionOpeningException",
  "org.apache.hadoop.hbase.RegionTooBusyException",
  "org.apache.hadoop.hbase.CallQueueTooBigException",
  "org.apache.hadoop.hbase.quotas.RpcThrottlingException",
  "org.apache.hadoop.hbase.PleaseHoldException",
  "org.apache.hadoop.hbase.RetryImmediatelyException"]
def expectServer : List String := [
  "org.apache.hadoop.hbase.regionserver.RegionServerAbortedException",
  "org.apache.hadoop.hbase.regionserver.RegionServerStoppedException",
  "org.apache.hadoop.hbase.exceptions.MasterStoppedException",
  "org.apache.hadoop.hbase.ipc.ServerNotRunningYetException"]

theorem expected_hits :
    (∀ c ∈ expectNsre, hits Exceptions.arms c = [("", .nsre)]) ∧
    (∀ c ∈ expectRetryable, hits Exceptions.arms c = [("", .retryable)]) ∧
    (∀ c ∈ expectServer, hits Exceptions.arms c = [("", .server)]) ∧
    hits Exceptions.arms "java.io.IOException" = [("Cannot append; log is closed", .nsre)] := by
  decide

/-- The classification the property states, for every stack trace:
region-level classes → NotServingRegionError, retry-later classes → RetryableError, server-level
classes → ServerError; `java.io.IOException` is region-level exactly when the stack contains
"Cannot append; log is closed", otherwise it is returned to the caller. -/
theorem expected_classification (stack : String) :
    (∀ c ∈ expectNsre, classify c stack = .nsre) ∧
    (∀ c ∈ expectRetryable, classify c stack = .retryable) ∧
    (∀ c ∈ expectServer, classify c stack = .server) ∧
    (contains stack "Cannot append; log is closed" = true →
      classify "java.io.IOException" stack = .nsre) ∧
    (contains stack "Cannot append; log is closed" = false →
      classify "java.io.IOException" stack = .fatal) := by
  obtain ⟨h1, h2, h3, h4⟩ := expected_hits
  refine ⟨fun c hc => classify_of_hits c stack _ (h1 c hc),
          fun c hc => classify_of_hits c stack _ (h2 c hc),
          fun c hc => classify_of_hits c stack _ (h3 c hc), ?_, ?_⟩
  · intro h; rw [classify, classifyArms_eq, h4]; simp [firstHit, h]
  · intro h; rw [classify, classifyArms_eq, h4]; simp [firstHit, h]

/-- the expectation lists cover the tables exactly: no class of the source is left unexamined -/
theorem expectation_covers_tables :
    ∀ c ∈ tableNames, c ∈ expectNsre ++ expectRetryable ++ expectServer ++ ["java.io.IOException"] := by
  decide

example : classify "java.io.IOException"
    "java.io.IOException: Cannot append; log is closed\n\tat org.apache…" = .nsre := by decide
example : classify "java.io.IOException" "java.io.IOException: disk full" = .fatal := by decide
example : classify "org.apache.hadoop.hbase.exceptions.RegionMovedException" "anything" = .nsre := by
  decide

/-- Any class in none of the tables (application exceptions, DoNotRetryIOException, …) is
returned to the caller as a plain error. -/
theorem unknown_class_is_fatal (cls stack : String) (h : cls ∉ tableNames) :
    classify cls stack = .fatal := by
  rw [classify, classifyArms_eq, hits_nil_of_unknown _ cls arm_tables_within_names h]
  rfl

example : classify "org.apache.hadoop.hbase.DoNotRetryIOException" "x" = .fatal :=
  unknown_class_is_fatal _ _ (by decide)
example : classify "org.apache.hadoop.hbase.TableNotFoundException" "" = .fatal := by decide

/-! ## What each loop does with each class (`Gen.RetryLoop`) -/

/-- the Go type name an error of the class has in a `switch err.(type)` -/
def ErrClass.typeName : ErrClass → String
  | .retryable => "RetryableError"
  | .nsre => "NotServingRegionError"
  | .server => "ServerError"
  | .fatal => "error"

theorem typeName_classOfType : ∀ k : ErrClass, classOfType k.typeName = k := by
  intro k; cases k <;> decide

/-- the type names the arms of `exceptionToError` produce are the ones the loops switch on -/
theorem arm_types_are_loop_types :
    ∀ a ∈ Exceptions.arms, a.2 ∈ [ErrClass.retryable, .nsre, .server].map ErrClass.typeName := by
  decide

inductive Decision where
  | retry     -- `continue`
  | ret       -- falls out of the type switch: `return msg, err`
  deriving Repr, DecidableEq

/-- `SendRPC`'s type switch: an error is retried iff some arm lists its type and that arm ends
in `continue`; anything else reaches `return msg, err` below the switch. -/
def sendRPCDecision (k : ErrClass) : Decision :=
  match sendRPCArms.find? (fun a => a.types.contains k.typeName) with
  | some a => if a.continues then .retry else .ret
  | none => .ret

/-- A fatal (unclassified) error matches no arm of `SendRPC`'s switch: it is returned, not
retried; and only the three classified kinds are retried. -/
theorem fatal_returned_not_retried :
    sendRPCDecision .fatal = .ret ∧
    (∀ k, sendRPCDecision k = .retry ↔ k ≠ .fatal) ∧
    sendRPCArms.flatMap (·.types) = ["RetryableError", "NotServingRegionError", "ServerError"] ∧
    (∀ a ∈ sendRPCArms, a.continues = true) ∧
    -- SendBatch: the `default` arm marks the call unretryable, the others queue it for retry
    (∀ a ∈ waitForCompletionArms, a.marks.contains "append:retryables" = !a.types.contains "default") ∧
    (∀ a ∈ waitForCompletionArms, a.types.contains "default" → a.marks = ["true:unretryableError"]) := by
  refine ⟨by decide, ?_, by decide, by decide, by decide, by decide⟩
  intro k; cases k <;> decide

example : sendRPCDecision .nsre = .retry := by decide

/-- does `handleResultError` do anything for an error of this class -/
def handlerActs (k : ErrClass) : Bool := handleResultErrorArms.any (·.contains k.typeName)

/-- does the establisher's probe treat an answer of this class as "region not established" -/
def probeNotEstablished (k : ErrClass) : Bool :=
  match isRegionEstablishedArms.find? (fun ts => ts.contains k.typeName || ts.contains "default") with
  | some ts => !ts.contains "default"
  | none => false

/-- `handleResultError` acts on NotServingRegionError and ServerError only (a retry-later answer
and a fatal error leave region and connection alone); every `go c.reestablishRegion` in it is
taken only by the goroutine whose `reg.MarkUnavailable()` created the channel; the probe of
`isRegionEstablished` treats exactly the three classified kinds as "not established" and any
other answer (including an application error) as established. -/
theorem handler_per_class :
    handleResultErrorArms = [["NotServingRegionError"], ["ServerError"]] ∧
    (∀ k, handlerActs k = true ↔ (k = .nsre ∨ k = .server)) ∧
    (∀ g ∈ Selects.goStmts, g.fn = "client.handleResultError" →
        g.call = "c.reestablishRegion" ∧ g.guard = "reg.MarkUnavailable()") ∧
    (∀ g ∈ Selects.goStmts, g.fn = "client.clientDown" →
        g.call = "c.reestablishRegion" ∧
        (g.guard = "reg.MarkUnavailable()" ∨ g.guard = "downreg.MarkUnavailable()")) ∧
    (∀ k, probeNotEstablished k = true ↔ k ≠ .fatal) := by
  refine ⟨by decide, ?_, by decide, by decide, ?_⟩
  · intro k; cases k <;> decide
  · intro k; cases k <;> decide

example : handlerActs .retryable = false ∧ handlerActs .fatal = false := by decide
example : (Selects.goStmts.filter (·.fn = "client.handleResultError")).length = 2 := by decide

end GV.Classify

/-!
## Part 2 — sequentialised progress (`Model/ClientSeq.lean`)

Assumptions of the model (stated in full in the model file): stable layout, lookups return the
truth, one handler + establisher runs to completion between two attempts, fair scheduling.
-/
namespace GV.ClientSeq
open GV.Classify

/-- Every failed attempt is paid for: the handler and the establisher it starts remove a stale
cache entry, a stale region→connection link, a broken connection object or consume a pending
retry-later answer, and add none. -/
theorem stale_measure_decreases (L : Layout) (hL : RealError L) (c c' : Client) (k : ErrClass)
    (h : attempt L c = (.failed k, c')) : measure L c' < measure L c := by
  have hs := attempt_spec L hL c
  rw [h] at hs
  cases hs with
  | failed _ _ hlt => exact hlt

/-- An attempt never ends anywhere but: retried (classified), answered at the owner, or a real
error from the owner — in particular a classified error is never handed to the caller and the
requester is never left without a region and a connection (`stuck`). -/
theorem attempt_outcomes (L : Layout) (hL : RealError L) (c : Client) :
    (∃ k, (attempt L c).1 = .failed k) ∨ AtOwner L (attempt L c).1 := by
  have hs := attempt_spec L hL c
  generalize attempt L c = x at hs
  cases hs with
  | failed k _ _ => exact Or.inl ⟨k, rfl⟩
  | success _ => exact Or.inr (Or.inl rfl)
  | returned cls _ h => exact Or.inr (Or.inr ⟨cls, h, rfl⟩)

/-- With nothing stale left the attempt is answered by the owner's server. -/
theorem fresh_attempt_succeeds_at_owner (L : Layout) (hL : RealError L) (c : Client)
    (h0 : measure L c = 0) : AtOwner L (attempt L c).1 := by
  rcases attempt_outcomes L hL c with ⟨k, hk⟩ | h
  · have := stale_measure_decreases L hL c (attempt L c).2 k (by rw [← hk])
    omega
  · exact h

/-- From every client state — whatever is cached for the key, wherever its connection points,
however many broken connection objects and pending retry-later answers there are — the `SendRPC`
loop ends within `measure + 1` attempts, at the server hosting the owner of the key. -/
theorem eventually_succeeds (L : Layout) (hL : RealError L) (c : Client) :
    ∃ n o, n ≤ measure L c + 1 ∧ sendRPC L (measure L c + 1) c 0 = some (n, o) ∧ AtOwner L o := by
  obtain ⟨m, o, hm, _, hrun, hat⟩ := sendRPC_progress L hL (measure L c + 1) c 0 (by omega)
  exact ⟨m, o, hm, by simpa using hrun, hat⟩

/-- … and when the application has no error to report the ending is success. -/
theorem eventually_succeeds_no_app_error (L : Layout) (hn : L.appError = none) (c : Client) :
    ∃ n, n ≤ measure L c + 1 ∧
      sendRPC L (measure L c + 1) c 0 = some (n, .success (L.host L.owner) L.owner) := by
  have hL : RealError L := fun cls h => by rw [hn] at h; cases h
  obtain ⟨n, o, hle, hrun, hat⟩ := eventually_succeeds L hL c
  rcases hat with rfl | ⟨cls, h, _⟩
  · exact ⟨n, hle, hrun⟩
  · rw [hn] at h; cases h

/-- Only real errors surface: what `SendRPC` hands back other than a result is the
application's own (unclassified) exception, unchanged. -/
theorem only_real_errors_surface (L : Layout) (hL : RealError L) (c : Client) (cls : String)
    (s r : Nat) (c' : Client) (h : attempt L c = (.returned cls s r, c')) :
    L.appError = some cls ∧ cls ∉ tableNames := by
  have hs := attempt_spec L hL c
  rw [h] at hs
  cases hs with
  | returned _ _ ha => exact ⟨ha, hL cls ha⟩

/-- non-vacuity: a stale descriptor (region 3, split since), its link, a link of the owner to the
wrong server, two broken connection objects and two retry-later answers: measure 8, done in 4 -/
def demoLayout : Layout := { owner := 7, host := fun r => if r = 7 then 2 else 1, sameStart := fun _ => false }
def demoClient : Client :=
  { cached := some 3, links := [(3, 2), (7, 1), (9, 4)], deadConns := [2, 1], transient := 2 }

example : measure demoLayout demoClient = 8 := by decide
example : sendRPC demoLayout 9 demoClient 0 = some (4, .success 2 7) := by decide
example : (attempt demoLayout demoClient).1 = .failed .server := by decide
/-- an application error comes back from the owner's server at once when nothing is stale -/
example : sendRPC { demoLayout with appError := some "org.apache.hadoop.hbase.DoNotRetryIOException" }
    1 { cached := some 7, links := [(7, 2)] } 0
    = some (1, .returned "org.apache.hadoop.hbase.DoNotRetryIOException" 2 7) := by decide
/-- negative: were a classified exception handed to the caller as the "application error", the
hypothesis `RealError` fails (and the loop would retry it, not return it) -/
example : ¬ RealError { demoLayout with appError := some "org.apache.hadoop.hbase.NotServingRegionException" } := by
  intro h; exact h _ rfl (by decide)

end GV.ClientSeq
