import GohbaseVerif.Lemmas.Cell
/-!
# C11 (cell decoder part) — no byte string in the position of a cellblock crashes the decoder

Every slice and index expression of `cellFromCellBlock` / `deserializeCellBlocks` that Go
bounds-checks is an explicit `Outcome.fault` branch of the model (`Model/Cell.lean`, slices with
`cap = len`); the theorems say those branches are unreachable for *all* inputs.
-/
namespace GV.Cell
open GV

/-- `cellFromCellBlock` returns a cell or an error on every byte string. -/
theorem cellFromCellBlock_never_faults (b : Bytes) : (cellFromCellBlock b).isFault = false :=
  cellFromCellBlock_no_fault b

/-- … and a decoded cell never claims more bytes than the buffer holds (so the caller's
`b[readLen:]` stays in range). -/
theorem cellFromCellBlock_consumed_le_len (b : Bytes) (c : Cell) (l : Nat)
    (h : cellFromCellBlock b = .ok (c, l)) : l ≤ b.length :=
  cellFromCellBlock_consumed_le h

/-- `deserializeCellBlocks` returns cells or an error on every byte string and every count
(including the `uint32` wrap of `readLen`). The loop runs at most `cellsLen` times. -/
theorem deserializeCellBlocks_never_faults (b : Bytes) (cellsLen : Nat) :
    (deserializeCellBlocks b cellsLen).isFault = false :=
  deserializeCellBlocks_no_fault b cellsLen

/-! Non-vacuity: the inputs that crashed the decoder before ea9133c are errors now, and the fault
branches are real (the second half of the decoder does fault when called without the checks). -/
example : cellFromCellBlock [0, 0, 0, 0] = .err "small" := by decide
example : cellFromCellBlock
    [0, 0, 0, 20, 0, 0, 0, 12, 0, 0, 0, 0, 0xff, 0xff, 0, 0, 0, 0, 0, 0, 0, 0, 0, 4]
    = .err "rowlen" := by decide
example : (cellBody 20 12 0 65535 [0, 0, 0, 0, 0, 0, 0, 0, 0, 4]).isFault = true := by decide
example : deserializeCellBlocks [0, 0, 0, 1] 3 = .err "buffer is too small for the cell count" := by decide

end GV.Cell
