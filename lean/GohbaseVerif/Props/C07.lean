import GohbaseVerif.Lemmas.BatchSend
import GohbaseVerif.Gen.Exits
/-!
# C07 — Batch results are positional and self-consistent

`sendBatch` (Model/Batch.lean) is the model of `(*client).SendBatch`: a function of the batch and of
one `Round` per pass through the retry loop — what region location returns for each call, what is
on each call's result channel when `waitForCompletion` looks at it, the map iteration order,
where the batch context is seen done, and which calls' own contexts the back-off sleep after the
pass sees done (`gaveUp`). All of these are universally quantified below; a hypothesis
`sendBatch … = .ok R` only says that SendBatch returns (it does not block forever on a call that
never gets an answer while nobody cancels). The correspondence run (`harness/c07.go`, driver
`c07`) ties the model to the Go code.
-/
namespace GV.Batch
open GV

/-- Data that belongs to call `c` under the scripts: a response it was given in some round; an
error it was given in some round; an error region location returned for it in some round; the
error of its own context; the error of the batch context; `NotExecutedError`. -/
def OwnSlot (rounds : List Round) (c : Nat) (s : Slot) : Prop :=
  (∀ m, s.msg = some m → ∃ rd ∈ rounds, rd.ans c = .ok m) ∧
  (∀ e, s.err = some e → e = .notExecuted ∨ e = .batchCtx ∨ e = .ownCtx c ∨
    (∃ rd ∈ rounds, ∃ cls t, rd.ans c = .fail cls t ∧ e = .ans cls t) ∨
    (∃ rd ∈ rounds, rd.locate c = .error e))

theorem ownSlot_roundInv (rounds : List Round) (rd : Round) (h : rd ∈ rounds) :
    RoundInv (OwnSlot rounds) rd := by
  constructor
  · intro c m hm
    refine ⟨fun m' h' => ?_, fun e h' => ?_⟩
    · cases h'; exact ⟨rd, h, hm⟩
    · cases h'
  · intro c cls t hm
    refine ⟨fun m' h' => ?_, fun e h' => ?_⟩
    · cases h'
    · cases h'; exact Or.inr (Or.inr (Or.inr (Or.inl ⟨rd, h, cls, t, hm, rfl⟩)))
  · intro c s hs
    refine ⟨hs.1, fun e h' => ?_⟩
    cases h'; exact Or.inr (Or.inr (Or.inl rfl))
  · intro c s hs
    refine ⟨hs.1, fun e h' => ?_⟩
    cases h'; exact Or.inr (Or.inl rfl)
  · intro c e he
    refine ⟨fun m' h' => ?_, fun e' h' => ?_⟩
    · cases h'
    · cases h'; exact Or.inr (Or.inr (Or.inr (Or.inr ⟨rd, h, he⟩)))

/-- **The i-th result describes the i-th call and nothing else.** Whatever the other calls, the
routing, the grouping order and the cancellation point are: everything `SendBatch` returns in slot
`i` is data of call `batch[i]` itself (`OwnSlot`) — never another call's response or error. -/
theorem positional {info : Info} {batch : List Nat} {rounds : List Round} {R : Result}
    (hv : ValidBatch info batch) (h : sendBatch info batch rounds = .ok R)
    (i : Nat) (hi : i < batch.length) :
    OwnSlot rounds batch[i] (R.res[i]'(by rw [sendBatch_length h]; exact hi)) :=
  sendBatch_inv hv h
    (fun c => ⟨fun m h' => (by cases h'), fun e h' => (by cases h'; exact Or.inl rfl)⟩)
    (fun rd hrd => ownSlot_roundInv rounds rd hrd) i hi

/-- One write to a result slot: the whole `RPCResult`, or only its `Error` field. -/
inductive Touch where
  | whole (s : Slot)
  | errOnly (e : Err)

def applyTouch (s : Slot) : Touch → Slot
  | .whole s' => s'
  | .errOnly e => { s with err := some e }

/-- A write made of call `c`'s own data: a response / an error it was given in some round, an
error region location returned for it in some round, its own context's error, the batch context's. -/
def OwnTouch (rounds : List Round) (c : Nat) : Touch → Prop
  | .whole s =>
    (∃ rd ∈ rounds, ∃ m, rd.ans c = .ok m ∧ s = ⟨some m, none⟩) ∨
    (∃ rd ∈ rounds, ∃ cls t, rd.ans c = .fail cls t ∧ s = ⟨none, some (.ans cls t)⟩) ∨
    (∃ rd ∈ rounds, ∃ e, rd.locate c = .error e ∧ s = ⟨none, some e⟩)
  | .errOnly e => e = .ownCtx c ∨ e = .batchCtx

/-- **Explicit form of `positional`**: slot `i` is `NotExecutedError` overwritten by a sequence of
writes — the history of call `batch[i]` — each of which consists of that call's own data only;
`applyTouch` does not mention any other call. -/
theorem positional_fold {info : Info} {batch : List Nat} {rounds : List Round} {R : Result}
    (hv : ValidBatch info batch) (h : sendBatch info batch rounds = .ok R)
    (i : Nat) (hi : i < batch.length) :
    ∃ hist : List Touch,
      R.res[i]'(by rw [sendBatch_length h]; exact hi) = hist.foldl applyTouch ⟨none, some .notExecuted⟩ ∧
      ∀ t ∈ hist, OwnTouch rounds batch[i] t := by
  refine sendBatch_inv (P := fun c s => ∃ hist : List Touch,
      s = hist.foldl applyTouch ⟨none, some .notExecuted⟩ ∧ ∀ t ∈ hist, OwnTouch rounds c t)
    hv h (fun c => ⟨[], rfl, fun _ ht => by cases ht⟩) ?_ i hi
  intro rd hrd
  constructor
  · intro c m hm
    refine ⟨[.whole ⟨some m, none⟩], rfl, fun t ht => ?_⟩
    rw [List.mem_singleton.mp ht]
    exact Or.inl ⟨rd, hrd, m, hm, rfl⟩
  · intro c cls t hm
    refine ⟨[.whole ⟨none, some (.ans cls t)⟩], rfl, fun t' ht => ?_⟩
    rw [List.mem_singleton.mp ht]
    exact Or.inr (Or.inl ⟨rd, hrd, cls, t, hm, rfl⟩)
  · rintro c s ⟨hist, rfl, hown⟩
    refine ⟨hist ++ [.errOnly (.ownCtx c)], by simp [List.foldl_append, applyTouch], fun t ht => ?_⟩
    rcases List.mem_append.mp ht with ht | ht
    · exact hown t ht
    · rw [List.mem_singleton.mp ht]; exact Or.inl rfl
  · rintro c s ⟨hist, rfl, hown⟩
    refine ⟨hist ++ [.errOnly .batchCtx], by simp [List.foldl_append, applyTouch], fun t ht => ?_⟩
    rcases List.mem_append.mp ht with ht | ht
    · exact hown t ht
    · rw [List.mem_singleton.mp ht]; exact Or.inr rfl
  · intro c e he
    refine ⟨[.whole ⟨none, some e⟩], rfl, fun t ht => ?_⟩
    rw [List.mem_singleton.mp ht]
    exact Or.inr (Or.inr ⟨rd, hrd, e, he, rfl⟩)

/-- **A call that succeeded keeps its response and a nil error**: if call `batch[i]` was sent in
retry round `r` and the answer it got in that round is the response `m`, then slot `i` of the
returned results is exactly `⟨m, nil⟩` — whatever happens to the other calls and in later rounds
(failures, retries, re-location failures, cancellation at any point). -/
theorem success_kept {info : Info} {batch : List Nat} {rounds : List Round} {R : Result}
    (hv : ValidBatch info batch) (h : sendBatch info batch rounds = .ok R)
    (i : Nat) (hi : i < batch.length) {r m : Nat} {rd : Round}
    (hsent : Sent R.events r batch[i]) (hrd : rounds[r]? = some rd) (hm : rd.ans batch[i] = .ok m) :
    R.res[i]'(by rw [sendBatch_length h]; exact hi) = ⟨some m, none⟩ := by
  have hne : batch ≠ [] := by intro h0; subst h0; cases hi
  have hlen := sendBatch_length h
  rw [sendBatch_valid hne hv] at h
  obtain ⟨new, hev, _, _, _, h4, _⟩ := loop_events h (fun c hc => hc) (st0_length info batch)
  have hev' : R.events = new := by simpa [st0] using hev
  rw [hev'] at hsent
  have := h4 batch[i] r rd m hsent (by simpa using hrd) hm
  rwa [getSlot_eq_getElem hv.1 hlen i hi] at this

/-- **Every call ends with either a response or an error**: no returned slot is empty, for every
batch (valid or not) and every script. -/
theorem every_call_ends {info : Info} {batch : List Nat} {rounds : List Round} {R : Result}
    (h : sendBatch info batch rounds = .ok R) : ∀ s ∈ R.res, s.msg ≠ none ∨ s.err ≠ none := by
  by_cases hne : batch = []
  · subst hne
    simp only [sendBatch, Outcome.ok.injEq] at h
    subst h; simp
  · by_cases hv : ValidBatch info batch
    · intro s hs
      obtain ⟨i, hi, rfl⟩ := List.getElem_of_mem hs
      have hi' : i < batch.length := by rw [← sendBatch_length h]; exact hi
      refine sendBatch_inv (P := fun _ s => s.msg ≠ none ∨ s.err ≠ none) hv h ?_ ?_ i hi'
      · intro c; exact Or.inr (by simp)
      · intro rd _
        constructor
        · intro c m _; exact Or.inl (by simp)
        · intro c cls t _; exact Or.inr (by simp)
        · intro c s _; exact Or.inr (by simp)
        · intro c s _; exact Or.inr (by simp)
        · intro c e _; exact Or.inr (by simp)
    · rw [sendBatch_invalid hne hv, Outcome.ok.injEq] at h
      subst h
      intro s hs
      exact Or.inr ((validate_spec info _ [] batch).2.1 s hs).2

/-- **The overall success flag is true exactly when every result has a nil error** — for every
batch (valid, invalid or empty), every routing, every outcome script and every cancellation point,
including a wait that is interrupted by cancellation and whose sweep still finds answers. -/
theorem allOK_iff {info : Info} {batch : List Nat} {rounds : List Round} {R : Result}
    (h : sendBatch info batch rounds = .ok R) : R.allOK = true ↔ ∀ s ∈ R.res, s.err = none := by
  by_cases hne : batch = []
  · subst hne
    simp only [sendBatch, Outcome.ok.injEq] at h
    subst h; simp
  · by_cases hv : ValidBatch info batch
    · have hlen := sendBatch_length h
      rw [sendBatch_valid hne hv] at h
      rw [loop_allOK h (fun c hc => hc) (st0_length info batch) rfl (st0_h3 info batch)]
      exact slots_forall_iff hv.1 hlen (fun s => s.err = none)
    · rw [sendBatch_invalid hne hv, Outcome.ok.injEq] at h
      subst h
      refine ⟨fun hf => Bool.noConfusion hf, fun hnil => ?_⟩
      exfalso
      cases batch with
      | nil => exact hne rfl
      | cons c0 rest =>
        have hl := (validate_spec info (info.table c0) [] (c0 :: rest)).1
        have hs := (validate_spec info (info.table c0) [] (c0 :: rest)).2.1
        simp only [List.headD_cons] at hnil
        cases hvv : (validate info (info.table c0) [] (c0 :: rest)).1 with
        | nil => rw [hvv] at hl; cases hl
        | cons s ss =>
          rw [hvv] at hs hnil
          exact (hs s (List.mem_cons_self ..)).2 (hnil s (List.mem_cons_self ..))

/-- `allOK` is never true with an error in a slot. -/
theorem allOK_sound {info : Info} {batch : List Nat} {rounds : List Round} {R : Result}
    (h : sendBatch info batch rounds = .ok R) (hok : R.allOK = true) : ∀ s ∈ R.res, s.err = none :=
  (allOK_iff h).mp hok

/-! ### A call whose own context is done while its region cannot be located

`rd.locate c = .error (.ownCtx c)` is what `findClients` reports for call `c` when the wait for
`c`'s region ended because `c`'s own context is done while the batch context is alive. -/

/-- **Such a call is failed alone, with its own-context error, and is neither queued nor retried.**
First round of a valid batch: whatever region location returns for the other calls (a client, the
same kind of failure, or another error that ends the whole batch), whatever they are answered and
wherever the batch is cancelled, slot `i` ends as exactly `⟨nil, ownCtxErr⟩`, `allOK` is false and
the call is not handed to any region client in any round. -/
theorem own_ctx_located_alone {info : Info} {batch : List Nat} {rd : Round} {rest : List Round}
    {R : Result} (hv : ValidBatch info batch) (h : sendBatch info batch (rd :: rest) = .ok R)
    (i : Nat) (hi : i < batch.length) (hown : rd.locate batch[i] = .error (.ownCtx batch[i])) :
    R.res[i]'(by rw [sendBatch_length h]; exact hi) = ⟨none, some (.ownCtx batch[i])⟩ ∧
    R.allOK = false ∧ ∀ r, ¬ Sent R.events r batch[i] := by
  have hne : batch ≠ [] := by intro h0; subst h0; cases hi
  have hlen := sendBatch_length h
  have hg := ownGone_of_locate hown
  have hslot : R.res[i]'(by rw [hlen]; exact hi) = ⟨none, some (.ownCtx batch[i])⟩ := by
    have h' := h
    rw [sendBatch_valid hne hv] at h'
    have := loop_ownGone_slot h' (fun c hc => hc) (st0_length info batch) (List.getElem_mem hi) hg
    rwa [getSlot_eq_getElem hv.1 hlen i hi] at this
  refine ⟨hslot, ?_, ?_⟩
  · cases hok : R.allOK
    · rfl
    · have := allOK_sound h hok _ (List.getElem_mem (by rw [hlen]; exact hi))
      rw [hslot] at this; cases this
  · intro r
    induction r with
    | zero =>
      intro hs
      have := sent_located h hs (rd := rd) rfl
      rw [ownGone_not_locOk hg] at this; cases this
    | succ r ih => exact fun hs => ih (sent_pred h hs)

/-- … in every retry round, too: a call is handed to a region client in round `r` only if region
location found a client for it in round `r` — a call whose location failed (its own context, or
anything else) is not queued in that round, hence (`only_retryable_resent`, C12) in no later one. -/
theorem queued_only_if_located {info : Info} {batch : List Nat} {rounds : List Round} {R : Result}
    (h : sendBatch info batch rounds = .ok R) {r c : Nat} {rd : Round}
    (hs : Sent R.events r c) (hrd : rounds[r]? = some rd) : ∃ k, rd.locate c = .ok k := by
  have := sent_located h hs hrd
  simp only [locOk] at this
  split at this
  · rename_i k hk; exact ⟨k, hk⟩
  · cases this

/-- **The other calls of the batch are unaffected by it.** In any pass through the retry loop (any
round, any state) in which every call either is located or is given up on because of its own
context: the pass is the pass over the remaining calls only (`liveCalls` — same grouping, same
waits, same retries, same back-off) from the state in which the calls failed alone carry their
own-context errors (`afterLocate`: `allOK` cleared, `unretryableErrorSeen` set). -/
theorem own_ctx_others_unaffected {b0 : List Nat} {rd : Round} {rest : List Round} {r : Nat}
    {batch : List Nat} {st : St}
    (hloc : ∀ c ∈ batch, locOk rd c = true ∨ rd.locate c = .error (.ownCtx c)) :
    loop b0 (rd :: rest) r batch st =
      loop b0 (rd :: rest) r (liveCalls rd batch) (afterLocate b0 rd batch st) := by
  apply loop_skip_ownGone
  rw [List.any_eq_false]
  intro c hc
  rcases hloc c hc with h1 | h1
  · simp [h1]
  · simp [ownGone_of_locate h1]

/-- … and in the first round the `QueueBatch` calls are exactly the groups of the remaining calls. -/
theorem own_ctx_round0_queue {info : Info} {batch : List Nat} {rd : Round} {rest : List Round}
    {R : Result} (hne : batch ≠ []) (hv : ValidBatch info batch)
    (hloc : ∀ c ∈ batch, locOk rd c = true ∨ rd.locate c = .error (.ownCtx c))
    (h : sendBatch info batch (rd :: rest) = .ok R) :
    queuedAt R.events 0 = groups rd (liveCalls rd batch) ∧
    ∀ c, c ∈ liveCalls rd batch ↔ c ∈ batch ∧ rd.locate c ≠ .error (.ownCtx c) := by
  rw [sendBatch_valid hne hv] at h
  obtain ⟨new, hev, _, _, _, _, _, _, h7⟩ := loop_events h (fun c hc => hc) (st0_length info batch)
  have hev' : R.events = new := by simpa [st0] using hev
  have hany : batch.any (fun c => !locOk rd c && !ownGone rd c) = false := by
    rw [List.any_eq_false]
    intro c hc
    rcases hloc c hc with h1 | h1
    · simp [h1]
    · simp [ownGone_of_locate h1]
  refine ⟨by rw [hev']; exact h7 rd rest rfl hany, fun c => ?_⟩
  rw [mem_liveCalls]
  constructor
  · rintro ⟨hc, hg⟩
    refine ⟨hc, fun hl => ?_⟩
    rw [ownGone_of_locate hl] at hg; cases hg
  · rintro ⟨hc, hn⟩
    refine ⟨hc, ?_⟩
    cases hg : ownGone rd c
    · rfl
    · exact absurd (ownGone_locate hg) hn

/-! ### The back-off sleep ends when nobody waits for the calls to be retried any more

`rd.gaveUp c` = call `c` has a context of its own and the back-off sleep after this pass sees it done
(`contextOfCalls` in rpc.go: the sleep runs under a context that is done when the batch context is
done or when the own context of EVERY call about to be retried is done; a call without a context of
its own keeps the sleep going to its end). -/

/-- **Any pass, any state**: all calls of the pass are located (or failed alone by their own
context), the batch context is not seen done, the pass has to back off for a non-zero time (a call
answered with a `RetryableError`, or the third immediate retry in a row) and every call about to be
retried has given up. Then `SendBatch` returns from inside the sleep: this pass's `QueueBatch`es are
the last ones, `allOK = false`, and every call of the pass that was answered with an error — the
ones that were going to be retried included — keeps exactly that error. -/
theorem sleep_ends_when_all_retries_gave_up_pass {b0 : List Nat} {rd : Round} {rest : List Round}
    {r : Nat} {batch : List Nat} {st : St} {R : Result}
    (h : loop b0 (rd :: rest) r batch st = .ok R)
    (hb : ∀ c ∈ batch, c ∈ b0) (hl : st.res.length = b0.length)
    (hany : batch.any (fun c => !locOk rd c && !ownGone rd c) = false)
    (hcancel : rd.cancel = .none)
    (hbk : (∃ c ∈ liveCalls rd batch, isBackoff (rd.ans c) = true) ∨
           (st.immediate > 1 ∧ ∃ c ∈ liveCalls rd batch, isRetry (rd.ans c) = true))
    (hbo : st.backoff ≠ 0)
    (hgone : ∀ c ∈ liveCalls rd batch, isRetry (rd.ans c) = true → rd.gaveUp c = true) :
    R.events = st.events ++ queueEvents r rd (liveCalls rd batch) ++
      [.sleepLeft (Gen.Backoff.sleepFor st.backoff)] ∧
    R.allOK = false ∧ R.interrupted = false ∧
    ∀ c ∈ liveCalls rd batch, ∀ cls t, rd.ans c = .fail cls t →
      getSlot b0 R.res c = ⟨none, some (.ans cls t)⟩ := by
  have hnd : ctxDoneAfterWait rd.cancel = false := by rw [hcancel]; rfl
  have hns : rd.cancel ≠ .sleep := by rw [hcancel]; intro h'; cases h'
  rcases loop_cons h with ⟨hany', _⟩ | ⟨_, a, ha, _⟩
  · rw [hany] at hany'; cases hany'
  · obtain ⟨pre, hmem, hint, hres, hretries, hnb, hallok⟩ := round_flat_uncut ha hnd
    obtain ⟨c0, hc0, hr0⟩ : ∃ c ∈ liveCalls rd batch, isRetry (rd.ans c) = true := by
      rcases hbk with ⟨c, hc, hbc⟩ | ⟨_, h'⟩
      · exact ⟨c, hc, isBackoff_isRetry hbc⟩
      · exact h'
    have hret : a.retries ≠ [] := by
      rw [hretries]; intro hnil
      have : c0 ∈ pre.filter (fun c => isRetry (rd.ans c)) :=
        List.mem_filter.mpr ⟨(hmem c0).mpr hc0, hr0⟩
      rw [hnil] at this; cases this
    have hneed : (a.needBackoff || decide (st.immediate > 1)) = true := by
      rcases hbk with ⟨c, hc, hbc⟩ | ⟨hi, _⟩
      · rw [hnb, List.any_eq_true.mpr ⟨c, (hmem c).mpr hc, hbc⟩]; rfl
      · simp [hi]
    have hall : a.retries.all rd.gaveUp = true := by
      rw [hretries, List.all_eq_true]
      intro c hc
      obtain ⟨hcp, hcr⟩ := List.mem_filter.mp hc
      exact hgone c ((hmem c).mp hcp) hcr
    rcases loop_cons_sleep h hany ha hret hnd hneed hbo with ⟨hs, _⟩ | ⟨_, _, rfl⟩ | ⟨_, hg, _⟩
    · exact absurd hs hns
    · refine ⟨rfl, ?_, hint, ?_⟩
      · show a.allOK = false
        rw [hallok]
        have : pre.all (fun c => isOkAns (rd.ans c)) = false := by
          rw [List.all_eq_false]
          refine ⟨c0, (hmem c0).mpr hc0, ?_⟩
          cases hx : rd.ans c0 <;> simp_all [isRetry, isOkAns, Ans.isOk]
        rw [this, Bool.and_false]
      · intro c hc cls t hans
        show getSlot b0 a.res c = _
        rw [hres]
        have hpre : ∀ x ∈ pre, x ∈ b0 := fun x hx => hb x (liveCalls_sub ((hmem x).mp hx))
        have := foldl_wr1_self (ans := rd.ans) (res := (afterLocate b0 rd batch st).res) hpre
          (by simp [hl]) ((hmem c).mpr hc)
        rw [hans] at this; exact this
    · rw [hall] at hg; cases hg

/-- **First pass of a valid batch**: some call is answered with a `RetryableError` (so the pass
backs off, for `backoffStart`) and every call answered with an error that is retried has a context of
its own that the sleep sees done. Then nothing is queued in any later round, every call answered with
an error keeps it in its slot, and `allOK = false`. -/
theorem sleep_ends_when_all_retries_gave_up {info : Info} {batch : List Nat} {rd : Round}
    {rest : List Round} {R : Result}
    (hv : ValidBatch info batch) (h : sendBatch info batch (rd :: rest) = .ok R)
    (hloc : ∀ c ∈ batch, locOk rd c = true ∨ rd.locate c = .error (.ownCtx c))
    (hcancel : rd.cancel = .none)
    (hbk : ∃ c ∈ liveCalls rd batch, isBackoff (rd.ans c) = true)
    (hgone : ∀ c ∈ liveCalls rd batch, isRetry (rd.ans c) = true → rd.gaveUp c = true) :
    R.events = queueEvents 0 rd (liveCalls rd batch) ++
      [.sleepLeft (Gen.Backoff.sleepFor Gen.Backoff.backoffStart)] ∧
    (∀ r c, ¬ Sent R.events (r + 1) c) ∧
    R.allOK = false ∧ R.interrupted = false ∧
    ∀ (i : Nat) (hi : i < batch.length) (cls : Cls) (t : Nat),
      batch[i] ∈ liveCalls rd batch → rd.ans batch[i] = .fail cls t →
      R.res[i]'(by rw [sendBatch_length h]; exact hi) = ⟨none, some (.ans cls t)⟩ := by
  have hne : batch ≠ [] := by
    obtain ⟨c, hc, _⟩ := hbk
    intro h0; subst h0
    exact absurd (liveCalls_sub hc) (by simp)
  have hlen := sendBatch_length h
  have h' := h
  rw [sendBatch_valid hne hv] at h'
  have hany : batch.any (fun c => !locOk rd c && !ownGone rd c) = false := by
    rw [List.any_eq_false]
    intro c hc
    rcases hloc c hc with h1 | h1
    · simp [h1]
    · simp [ownGone_of_locate h1]
  obtain ⟨hev, hok, hint, hslots⟩ :=
    sleep_ends_when_all_retries_gave_up_pass h' (fun c hc => hc) (st0_length info batch) hany hcancel
      (Or.inl hbk) backoffStart_ne_zero hgone
  have hev' : R.events = queueEvents 0 rd (liveCalls rd batch) ++
      [.sleepLeft (Gen.Backoff.sleepFor Gen.Backoff.backoffStart)] := by simpa [st0] using hev
  refine ⟨hev', ?_, hok, hint, ?_⟩
  · intro r c hs
    rw [hev'] at hs
    rcases sent_append.mp hs with hs | hs
    · have := (sent_queueEvents.mp hs).1; omega
    · exact absurd hs (not_sent_sleepCut (by simp [isSleepCut]))
  · intro i hi cls t hlive hans
    have := hslots batch[i] hlive cls t hans
    rwa [getSlot_eq_getElem hv.1 hlen i hi] at this

/-- **Every round**: when a call queued in round `r` is answered with a `RetryableError` (the round
backs off) and something is queued in round `r + 1`, then some call queued in round `r` was answered
with an error that is retried and had not given up when the back-off sleep ended: if all of them
have, nothing is sent any more. -/
theorem resent_after_backoff_needs_waiter {info : Info} {batch : List Nat} {rounds : List Round}
    {R : Result} (h : sendBatch info batch rounds = .ok R) {r c : Nat} {rd : Round}
    (hrd : rounds[r]? = some rd) (hs : Sent R.events (r + 1) c)
    (hbk : ∃ d t, Sent R.events r d ∧ rd.ans d = .fail .retryable t) :
    ∃ d, Sent R.events r d ∧ isRetry (rd.ans d) = true ∧ rd.gaveUp d = false := by
  by_cases hbad : batch = [] ∨ ¬ ValidBatch info batch
  · rw [sendBatch_unsent h hbad] at hs; exact absurd hs sent_nil
  · have hne : batch ≠ [] := fun h0 => hbad (Or.inl h0)
    have hv : ValidBatch info batch := Classical.byContradiction fun hv => hbad (Or.inr hv)
    rw [sendBatch_valid hne hv] at h
    obtain ⟨d, t, hsd, hans⟩ := hbk
    exact loop_backoff_waiter h (fun c hc => hc) (st0_length info batch) backoffStart_ne_zero
      (new := R.events) (by simp [st0]) c r rd (Nat.zero_le _) hs (by simpa using hrd)
      ⟨d, hsd, by rw [hans]; rfl⟩

/-- non-vacuity: call 0 succeeds, call 1 gets a RetryableError and its own context is done inside
the back-off sleep: `SendBatch` returns from the sleep, the scripted second round never happens -/
def gaveRound0 : Round :=
  ⟨fun _ => .ok 0, fun c => if c = 0 then .ok 11 else .fail .retryable 12, [], .none, fun c => c == 1⟩

example : sendBatch ⟨fun _ => 0, fun _ => true⟩ [0, 1]
    [gaveRound0, ⟨fun _ => .ok 0, fun _ => .ok 13, [], .none, fun _ => false⟩]
    = .ok ⟨[⟨some 11, none⟩, ⟨none, some (.ans .retryable 12)⟩], false,
           [.queue 0 0 [0, 1], .sleepLeft 16000000], false⟩ := by decide

example : ∃ c ∈ liveCalls gaveRound0 [0, 1], isBackoff (gaveRound0.ans c) = true :=
  ⟨1, by decide, by decide⟩

example : ∀ c ∈ liveCalls gaveRound0 [0, 1], isRetry (gaveRound0.ans c) = true → gaveRound0.gaveUp c = true := by
  decide

/-- two calls to retry, only call 1 has given up (call 0 has no context of its own, or it is alive):
the sleep runs to its end, both are queued again; call 1 then ends with its own-context error -/
example : sendBatch ⟨fun _ => 0, fun _ => true⟩ [0, 1]
    [⟨fun _ => .ok 0, fun c => .fail .retryable (12 + c), [], .none, fun c => c == 1⟩,
     ⟨fun _ => .ok 0, fun c => if c = 0 then .ok 13 else .ownDone, [], .none, fun _ => false⟩]
    = .ok ⟨[⟨some 13, none⟩, ⟨none, some (.ownCtx 1)⟩], false,
           [.queue 0 0 [0, 1], .sleep 16000000, .queue 1 0 [0, 1]], false⟩ := by decide

/-- a later back-off: the first sleep completes (nobody has given up yet), the second one is left -/
example : sendBatch ⟨fun _ => 0, fun _ => true⟩ [0]
    [⟨fun _ => .ok 0, fun _ => .fail .retryable 1, [], .none, fun _ => false⟩,
     ⟨fun _ => .ok 0, fun _ => .fail .retryable 2, [], .none, fun _ => true⟩,
     ⟨fun _ => .ok 0, fun _ => .ok 3, [], .none, fun _ => false⟩]
    = .ok ⟨[⟨none, some (.ans .retryable 2)⟩], false,
           [.queue 0 0 [0], .sleep 16000000, .queue 1 0 [0], .sleepLeft 32000000], false⟩ := by decide

/-- not-serving errors only: the first retries are immediate (no sleep to leave, whoever has given
up); the sleep that the third one in a row asks for is left -/
example : sendBatch ⟨fun _ => 0, fun _ => true⟩ [0]
    [⟨fun _ => .ok 0, fun _ => .fail .nsre 1, [], .none, fun _ => true⟩,
     ⟨fun _ => .ok 0, fun _ => .fail .nsre 2, [], .none, fun _ => true⟩,
     ⟨fun _ => .ok 0, fun _ => .fail .nsre 3, [], .none, fun _ => true⟩,
     ⟨fun _ => .ok 0, fun _ => .ok 4, [], .none, fun _ => false⟩]
    = .ok ⟨[⟨none, some (.ans .nsre 3)⟩], false,
           [.queue 0 0 [0], .queue 1 0 [0], .queue 2 0 [0], .sleepLeft 16000000], false⟩ := by decide

/-! ### Regression witness (the defect repaired by commit 862de01)

One call, one region client; the batch context is seen done by the select that waits for the call
and the call's successful answer is there when the non-blocking sweep reads the channel. Before the
repair `SendBatch` returned `([{Msg: 7, Error: nil}], allOK = false)`; now `allOK = true`. -/
def witnessInfo : Info := ⟨fun _ => 0, fun _ => true⟩
def witnessRound : Round := ⟨fun _ => .ok 0, fun _ => .ok 7, [], .wait 0, fun _ => false⟩

example : sendBatch witnessInfo [0] [witnessRound]
    = .ok ⟨[⟨some 7, none⟩], true, [.queue 0 0 [0]], true⟩ := by decide

/-- an interrupted wait whose sweep finds nothing: context error, `allOK = false` -/
example : sendBatch witnessInfo [0] [⟨fun _ => .ok 0, fun _ => .silent, [], .wait 0, fun _ => false⟩]
    = .ok ⟨[⟨none, some .batchCtx⟩], false, [.queue 0 0 [0]], true⟩ := by decide

/-! ### Non-vacuity: the hypotheses are satisfiable by non-trivial runs -/

/-- two calls on two region clients; call 0 succeeds, call 1 gets NotServingRegion, is retried and
its re-location is cancelled: the success is kept, the other call ends with the location error -/
def exInfo : Info := ⟨fun _ => 0, fun _ => true⟩
def exRound0 : Round := ⟨fun c => .ok c, fun c => if c = 0 then .ok 11 else .fail .nsre 12, [1, 0], .none, fun _ => false⟩
def exRound1 : Round := ⟨fun c => if c = 1 then .error .batchCtx else .ok 0, fun _ => .silent, [], .none, fun _ => false⟩

example : sendBatch exInfo [0, 1] [exRound0, exRound1]
    = .ok ⟨[⟨some 11, none⟩, ⟨none, some .batchCtx⟩], false,
           [.queue 0 1 [1], .queue 0 0 [0]], false⟩ := by decide

example : ValidBatch exInfo [0, 1] := by
  refine ⟨by simp, ?_⟩
  intro c _; exact ⟨rfl, rfl⟩

example : Sent [Event.queue 0 1 [1], Event.queue 0 0 [0]] 0 0 := ⟨0, [0], by simp, by simp⟩

/-- three calls; call 1's own context is done and its region cannot be located in round 0: it is
failed alone (not queued, not retried), call 0 succeeds, call 2 gets NotServingRegion, is retried
alone and succeeds; `allOK = false` because of call 1 only -/
def ownRound0 : Round :=
  ⟨fun c => if c = 1 then .error (.ownCtx 1) else .ok 0, fun c => if c = 0 then .ok 11 else .fail .nsre 12, [], .none, fun _ => false⟩
def ownRound1 : Round := ⟨fun _ => .ok 0, fun _ => .ok 13, [], .none, fun _ => false⟩

example : sendBatch exInfo [0, 1, 2] [ownRound0, ownRound1]
    = .ok ⟨[⟨some 11, none⟩, ⟨none, some (.ownCtx 1)⟩, ⟨some 13, none⟩], false,
           [.queue 0 0 [0, 2], .queue 1 0 [2]], false⟩ := by decide

example : ownRound0.locate [0, 1, 2][1] = .error (.ownCtx [0, 1, 2][1]) := rfl

example : ∀ c ∈ [0, 1, 2], locOk ownRound0 c = true ∨ ownRound0.locate c = .error (.ownCtx c) := by
  intro c hc
  simp only [List.mem_cons, List.not_mem_nil, or_false] at hc
  rcases hc with rfl | rfl | rfl <;> simp [locOk, ownRound0]

/-- … in a retry round: call 1 is retried, its own context is done by then and its region is not
available: it ends with its own-context error instead of waiting; call 0 keeps its success -/
example : sendBatch exInfo [0, 1]
    [exRound0, ⟨fun c => if c = 1 then .error (.ownCtx 1) else .ok 0, fun _ => .silent, [], .none, fun _ => false⟩]
    = .ok ⟨[⟨some 11, none⟩, ⟨none, some (.ownCtx 1)⟩], false,
           [.queue 0 1 [1], .queue 0 0 [0]], false⟩ := by decide

/-- … next to a call whose location fails for another reason: the batch ends, both errors reported -/
example : sendBatch exInfo [0, 1]
    [⟨fun c => if c = 1 then .error (.ownCtx 1) else .error .closed, fun _ => .silent, [], .none, fun _ => false⟩]
    = .ok ⟨[⟨none, some .closed⟩, ⟨none, some (.ownCtx 1)⟩], false, [], false⟩ := by decide

/-- a run with a retry after back-off that ends `allOK = true`, not interrupted -/
example : sendBatch exInfo [0]
    [⟨fun _ => .ok 0, fun _ => .fail .retryable 1, [], .none, fun _ => false⟩, ⟨fun _ => .ok 0, fun _ => .ok 2, [], .none, fun _ => false⟩]
    = .ok ⟨[⟨some 2, none⟩], true, [.queue 0 0 [0], .sleep 16000000, .queue 1 0 [0]], false⟩ := by decide

/-- Regenerated from rpc.go (`findClients`): the model's `Round.locate` is a function of the call —
what location returns for one call does not depend on which calls were located before it in the
same round. In the source that rests on the context of a location being declared per call, inside
the loop over the batch (`rctx, … := ctx, …` in the body of the `range`), and derived from the batch
context alone; a context carried over from the previous call would make the location of a call
without a context of its own fail with that other call's cancellation. -/
theorem location_context_is_per_call_in_source :
    GV.Gen.Exits.findClientsLocateCtxPerCall = true ∧
    GV.Gen.Exits.findClientsWithCancel = ["rctx, cancel = WithCancel(ctx)"] := by decide

end GV.Batch
