import GohbaseVerif.Lemmas.Conn
import GohbaseVerif.Gen.Exits
/-!
# C18 — the read timeout tears the connection down only while something is outstanding

Model: `Model/Conn.lean`. `armed` = a read deadline is set on the connection; `timeout` (the
deadline expiring inside `conn.Read`) is enabled only while `armed`; `inFlight` is the `uint32`
counter of `inFlightAdd` / `inFlightDown`, which are serialised by `inFlightM` with FIFO hand-off.

The counter is a `uint32` and call ids are a `uint32` as well: the theorems assume that fewer than
2^32 ids have been allocated on this connection (`s.nextId < uint32`).

The proofs rest on the invariant `GD` of `Lemmas/Conn.lean`, which holds in *every* reachable state
(not only quiescent ones); the quiescent statements below are its specialisation.
-/
namespace GV.Conn

/-- In a live quiescent state the in-flight counter is exactly the number of registered
(outstanding) requests. -/
theorem counter_tracks_outstanding {q : Nat} {s : St} (h : Reachable q s) (hd : s.done = false)
    (hq : quiescent s = true) (hid : s.nextId < uint32) : s.inFlight = s.sent.length := by
  have g := (good_reachable h).gd
  obtain ⟨hs, _, hr⟩ := quiescent_iff hq
  have := g.eq ⟨hd, hid⟩
  rw [hs, cntQ_sends_nil] at this
  rcases hr with e | e <;> rw [e] at this <;> simpa [Reader.dw] using this

example : ∃ s, run (init 2) [.queueDirect 1, .write (.direct 1) true .ok, .arm (.direct 1) .ok,
      .queueBatched 2, .write .writer true .ok, .arm .writer .ok, .read 1 .result] = some s ∧
    s.done = false ∧ quiescent s = true ∧ s.nextId < uint32 ∧ s.inFlight = 1 ∧ s.sent.length = 1 := by
  refine ⟨_, rfl, ?_⟩
  decide

/-- a request that cannot be marshalled consumes an id but is never counted in flight -/
example : ∃ s, run (init 2) [.queueDirect 1, .write (.direct 1) true .ok, .arm (.direct 1) .ok,
      .queueUnsendable 3] = some s ∧
    s.done = false ∧ quiescent s = true ∧ s.nextId = 2 ∧ s.inFlight = 1 ∧ s.sent.length = 1 ∧
    s.unsendable = [3] ∧ s.armed = true := by
  refine ⟨_, rfl, ?_⟩
  decide

/-- In a live quiescent state the read deadline is set iff something is outstanding — for every
interleaving of senders (batching goroutine, direct senders), reader and cancellations. -/
theorem deadline_tracks_outstanding {q : Nat} {s : St} (h : Reachable q s) (hd : s.done = false)
    (hq : quiescent s = true) (hid : s.nextId < uint32) :
    (s.armed = true ↔ 0 < s.sent.length) := by
  have g := (good_reachable h).gd
  have hc := counter_tracks_outstanding h hd hq hid
  obtain ⟨hs, _, hr⟩ := quiescent_iff hq
  have hnc : s.reader.isClearing = false := by rcases hr with e | e <;> rw [e] <;> rfl
  constructor
  · intro ha
    rcases g.i1 ⟨hd, hid⟩ ha with h1 | h1
    · omega
    · rw [hnc] at h1; cases h1
  · intro hp
    rcases g.i2 ⟨hd, hid⟩ (by omega) with h2 | h2
    · exact h2.1
    · exact absurd hs h2

/-- a response overtakes the arming of its own request (read before `arm`), a second request is
written meanwhile: the deadline ends up set, for the second request -/
example : ∃ s, run (init 2) [.queueDirect 1, .write (.direct 1) true .ok, .queueDirect 2,
      .read 1 .result, .arm (.direct 1) .ok, .write (.direct 2) true .ok, .arm (.direct 2) .ok] = some s ∧
    s.done = false ∧ quiescent s = true ∧ s.armed = true ∧ s.sent.length = 1 := by
  refine ⟨_, rfl, ?_⟩
  decide

/-- the last response clears the deadline -/
example : ∃ s, run (init 2) [.queueDirect 1, .write (.direct 1) true .ok, .arm (.direct 1) .ok,
      .read 1 .result, .clear .ok] = some s ∧
    s.done = false ∧ quiescent s = true ∧ s.armed = false ∧ s.sent = [] := by
  refine ⟨_, rfl, ?_⟩
  decide

/-- A connection with nothing outstanding is never torn down by the read timeout, however long it
stays idle: the timeout event is not enabled. -/
theorem idle_never_times_out {q : Nat} {s : St} (h : Reachable q s) (hd : s.done = false)
    (hq : quiescent s = true) (hid : s.nextId < uint32) (he : s.sent = []) :
    step s .timeout = none := by
  have := (deadline_tracks_outstanding h hd hq hid).1
  rw [he] at this
  have ha : s.armed = false := by
    cases hb : s.armed
    · rfl
    · exact absurd (this hb) (by simp)
  simp [step, ha]

/-- an idle connection after traffic, including a sender that had to queue for `inFlightM`
(`queueDirect 2` arrives while sender 1 is inside the arming call) and a response that is read
before its request has been counted in flight (`read 2` right after): no timeout possible -/
example : ∃ s, run (init 2) [.queueDirect 1, .write (.direct 1) true .ok, .queueDirect 2, .read 2 .result,
      .arm (.direct 1) .ok, .write (.direct 2) true .ok, .arm (.direct 2) .ok, .read 1 .result,
      .clear .ok] = some s ∧
    s.done = false ∧ quiescent s = true ∧ s.nextId < uint32 ∧ s.sent = [] ∧ s.handed = [1, 2] ∧
    s.inFlight = 0 ∧ step s .timeout = none := by
  refine ⟨_, rfl, ?_⟩
  decide

/-- only unsendable requests so far (one direct, one batched): the deadline was never set -/
example : ∃ s, run (init 2) [.queueUnsendable 3, .queueBatchedUnsendable 4] = some s ∧
    s.done = false ∧ quiescent s = true ∧ s.nextId = 2 ∧ s.sent = [] ∧ s.inFlight = 0 ∧
    step s .timeout = none := by
  refine ⟨_, rfl, ?_⟩
  decide

/-- When the timeout does fire (something is outstanding and no response came in time), the
connection is failed and nothing stays registered. -/
theorem timeout_fails_everything {q : Nat} {s s' : St} (h : Reachable q s)
    (hs : step s .timeout = some s') : s'.done = true ∧ s'.sent = [] := by
  simp only [step] at hs
  split at hs
  · cases hs
  · rename_i hen
    simp only [Bool.or_eq_true, not_or] at hen
    have hrd : s.reader = .reading := by simpa using hen.1
    -- the reader is parked in `Read`, so the connection has not failed yet
    have hlive : s.done = false := by
      cases hd : s.done
      · rfl
      · exact absurd hrd ((good_reachable h).dr hd)
    injection hs with hs; subst hs
    refine ⟨done_failConn _, ?_⟩
    show (failConn { s with reader := .exited }).sent = []
    rw [failConn_eq]
    show (if s.done = true then _ else _ : St).sent = []
    rw [hlive]
    rfl

/-- … and every outstanding call has received its connection-level error -/
example : ∃ s, run (init 2) [.queueDirect 1, .write (.direct 1) true .ok, .arm (.direct 1) .ok,
      .queueBatched 2, .timeout] = some s ∧
    s.done = true ∧ s.sent = [] ∧ deliveredCount s 1 = 1 ∧ deliveredCount s 2 = 1 := by
  refine ⟨_, rfl, ?_⟩
  decide

/-- The invariant behind the quiescent statements, valid in every reachable state of a live
connection: mutual exclusion on `inFlightM`, exact accounting of the counter against the queue of
pending increments, and the two implications tying the deadline to the counter. -/
theorem deadline_invariant {q : Nat} {s : St} (h : Reachable q s) (hd : s.done = false)
    (hid : s.nextId < uint32) :
    (s.reader.isClearing = true → ∀ x ∈ s.sends, x.phase ≠ .arm) ∧
    s.inFlight + cntQ s.sends s.mWait = s.sent.length + s.reader.dw ∧
    (s.armed = true → 0 < s.inFlight ∨ s.reader.isClearing = true) ∧
    (0 < s.inFlight → (s.armed = true ∧ s.reader.isClearing = false) ∨ s.sends ≠ []) ∧
    (mHeld s = false → s.mWait = []) := by
  have g := good_reachable h
  exact ⟨g.gd.excl, g.gd.eq ⟨hd, hid⟩, g.gd.i1 ⟨hd, hid⟩, g.gd.i2 ⟨hd, hid⟩, g.rest⟩

/-- Regenerated from rpc.go, region/new.go and region/client.go: the duration that decides when a
silent server is detected is the configured `RegionReadTimeout` on every connection the client
creates. `establishRegion` passes `c.regionReadTimeout` in the read-timeout position of *both*
`newRegionClientFn` calls (regionserver / hbase:meta connections and the admin client's master
connection); `region.NewClient` stores its sixth parameter in the `readTimeout` field; and the
only non-zero argument of `SetReadDeadline` is `time.Now().Add(c.readTimeout)` (the other one is
the zero time, which clears the deadline: `Act.clear`). So the `timeout` action of the model fires
`readTimeout` after the last request was written, where `readTimeout` is what the user configured. -/
theorem read_timeout_is_the_configured_one_in_source :
    GV.Gen.Exits.regionClientReadTimeoutArgs = ["c.regionReadTimeout", "c.regionReadTimeout"] ∧
    GV.Gen.Exits.newClientReadTimeoutParam = ("readTimeout", "readTimeout") ∧
    GV.Gen.Exits.readDeadlineArgs = ["time.Now().Add(c.readTimeout)", "time.Time{}"] := by decide

end GV.Conn
