import GohbaseVerif.Gen.Exits
import GohbaseVerif.Lemmas.ConnCache
import GohbaseVerif.Gen.Selects
/-!
# C20 — One connection per regionserver

Model: `Model/ConnCache.lean`; invariant `GoodC` in `Lemmas/ConnCache.lean`.  All theorems hold
for both variants of `put` (`flag`), in particular for the current source (`flag = true`: `put`
returns nil once `closeAll` has closed the cache), over every interleaving of `put` / `del` /
`clientDown` / `Dial` / `Close`.
-/
namespace GV.ConnCache
open GV.Gen.Selects

/-- No two cached connection objects share an address. -/
theorem addr_unique {flag : Bool} {s : State} (h : Reachable flag s) :
    (s.cache.map (·.addr)).Nodup ∧
    ∀ e1 ∈ s.cache, ∀ e2 ∈ s.cache, e1.addr = e2.addr → e1 = e2 :=
  ⟨(good_of_reachable h).addrNodup, eq_of_nodup_addr (good_of_reachable h).addrNodup⟩

/-- twelve regions on two servers, discovered concurrently, with a connection failure between -/
def demo : List Action :=
  [.spawnEstablish, .spawnEstablish, .estPut 5 1, .estPut 6 2, .estPut 5 3, .dial 0, .dial 0, .dial 1,
   .clientDown 0, .estPut 5 1, .dial 2, .del 1 2]

example : (run true init demo).map (·.cache) = some [⟨2, 5, [1]⟩, ⟨1, 6, []⟩] := by decide
example : (run true init demo).map (fun s => s.conns.map fun c => (c.id, c.addr, c.down))
    = some [(2, 5, false), (1, 6, false), (0, 5, true)] := by decide
example : (run true init demo).map (fun s => s.conns.map fun c => (c.dials, c.dialCalls))
    = some [(1, 1), (1, 1), (1, 2)] := by decide

/-- negative: a `put` that did not look the address up under the same lock (insert
unconditionally) breaks the property — the invariant is not vacuous -/
example : ¬ (([⟨1, 5, [2]⟩, ⟨0, 5, [1]⟩] : List Entry).map (·.addr)).Nodup := by decide

/-- The dialer of a connection object runs at most once, however many goroutines call `Dial`
(all establishers of regions on that server do). -/
theorem dial_once_per_connection {flag : Bool} {s : State} (h : Reachable flag s) :
    ∀ c ∈ s.conns, c.dials ≤ 1 ∧ c.dials ≤ c.dialCalls := by
  intro c hc
  obtain ⟨h1, h2⟩ := (good_of_reachable h).dialOK c hc
  refine ⟨?_, h2⟩
  rw [h1]; split <;> omega

/-- the dial happens under `dialOnce` in the source, and nothing else is a bare `Once` there -/
theorem dial_under_once :
    (bareOps.filter (·.fn = "client.Dial")) = [⟨"region", "client.Dial", "do", "c.dialOnce"⟩] := by
  decide

example : (run true init [.spawnEstablish, .estPut 5 1, .dial 0, .dial 0, .dial 0]).map
    (fun s => s.conns.map fun c => (c.dials, c.dialCalls)) = some [(1, 3)] := by decide

/-- `put` for an address that has a cached connection returns that connection and creates
nothing (while the cache is open; a closed cache returns nil and creates nothing either). -/
theorem healthy_reused (flag : Bool) (s : State) (addr reg : Nat) (hex : ∃ e ∈ s.cache, e.addr = addr) :
    (put flag s addr reg).1.conns = s.conns ∧ (put flag s addr reg).1.nextId = s.nextId ∧
    ((flag && s.closeAllDone) = false →
      ∃ e ∈ s.cache, e.addr = addr ∧ (put flag s addr reg).2 = .existing e.id) ∧
    ((flag && s.closeAllDone) = true → (put flag s addr reg) = (s, .refused)) := by
  unfold put
  cases hfl : (flag && s.closeAllDone) with
  | true => simp
  | false =>
    simp only [Bool.false_eq_true, if_false]
    cases hf : s.cache.find? (·.addr == addr) with
    | none =>
      obtain ⟨e, he, ha⟩ := hex
      exact absurd ha (find_none_addr hf e he)
    | some e =>
      have hm := List.mem_of_find?_eq_some hf
      have ha : e.addr = addr := by simpa using List.find?_some hf
      exact ⟨rfl, rfl, fun _ => ⟨e, hm, ha, rfl⟩, fun h => by cases h⟩

/-- in a reachable state it is *the* cached connection of that address -/
theorem healthy_reused_unique {flag : Bool} {s : State} (h : Reachable flag s) (addr reg : Nat)
    (hopen : (flag && s.closeAllDone) = false) (e : Entry) (he : e ∈ s.cache) (ha : e.addr = addr) :
    (put flag s addr reg).2 = .existing e.id := by
  obtain ⟨_, _, h3, _⟩ := healthy_reused flag s addr reg ⟨e, he, ha⟩
  obtain ⟨e', he', ha', hr⟩ := h3 hopen
  rw [hr, (addr_unique h).2 e he e' he' (ha.trans ha'.symm)]

example : (put true { cache := [⟨0, 5, [1]⟩], conns := [{ id := 0, addr := 5 }], nextId := 1 } 5 9).2
    = .existing 0 := by decide
example : (put true { cache := [⟨0, 5, [1]⟩], conns := [{ id := 0, addr := 5 }], nextId := 1 } 6 9).2
    = .created 1 := by decide
def closedCache : State where
  cache := [⟨0, 5, [1]⟩]
  conns := [{ id := 0, addr := 5, closed := true }]
  nextId := 1
  onceStarted := true
  closeAllDone := true
/-- after `closeAll` even a cached address yields nil, and nothing is created -/
example : put true closedCache 5 9 = (closedCache, .refused) := by decide

/-- The (k+1)-th connection object for an address is created only after `clientDown` of the
k-th: of two connection objects with the same address, the older has been declared dead. -/
theorem new_only_after_declared_dead {flag : Bool} {s : State} (h : Reachable flag s) :
    ∀ c1 ∈ s.conns, ∀ c2 ∈ s.conns, c1.addr = c2.addr → c1.id < c2.id → c1.down = true :=
  (good_of_reachable h).succ

/-- and a connection that has not been declared dead is still the cached one for its address -/
theorem live_connection_is_cached {flag : Bool} {s : State} (h : Reachable flag s) :
    ∀ c ∈ s.conns, c.down = false → ∃ e ∈ s.cache, e.id = c.id ∧ e.addr = c.addr :=
  (good_of_reachable h).live

/-- negative: without the intervening `clientDown` no second object appears -/
example : (run true init [.spawnEstablish, .estPut 5 1, .estPut 5 2, .estPut 5 3]).map
    (fun s => s.conns.length) = some 1 := by decide

end GV.ConnCache

namespace GV.ConnCache
open GV.Gen

/-- Regenerated from region/new.go: the dialer is called only inside `dialOnce.Do`. -/
theorem dialer_only_under_once_in_source : Exits.dialerOnlyInsideOnce = true := by decide

end GV.ConnCache
