import GohbaseVerif.Gen.Selects
import GohbaseVerif.Gen.Exits
/-!
# C13 — Cancellation is honoured promptly in every state

`Gen.Selects` is regenerated from the Go source on every run: every `select` (with its cases),
every bare channel operation / `sync.Once.Do`, every `go` statement of rpc.go, scanner.go,
client.go, caches.go, admin_client.go and region/*.go.  The obligations below are closed facts
about that table, so a new blocking operation in the source that is on none of the lists makes
`no_unlisted_blocking` / `bare_ops_all_justified` fail to check.
-/
namespace GV.Cancel
open GV.Gen.Selects

/-- A wait on a caller path: the `select` (file, function, ordinal) and the case that carries the
context of the call the wait serves. -/
structure Wait where
  file : String
  fn : String
  ord : Nat
  ctxCase : String
  deriving Repr, DecidableEq

/-- Every wait a goroutine executing an API call (`SendRPC`, `SendBatch`, `Scanner.Next`, admin
calls) can block in. -/
def callerWaits : List Wait := [
  -- waiting for a region to become available (first look, and after marking it unavailable)
  ⟨"gohbase", "client.getRegionAndClientForRPC", 0, "recv:ctx.Done()"⟩,
  ⟨"gohbase", "client.getRegionAndClientForRPC", 1, "recv:ctx.Done()"⟩,
  -- SendBatch waiting for the results of one region server's share
  ⟨"gohbase", "client.waitForCompletion", 0, "recv:ctx.Done()"⟩,
  -- single call waiting for its result
  ⟨"gohbase", "sendBlocking", 0, "recv:ctx.Done()"⟩,
  -- back-off sleep of SendRPC / SendBatch / lookupRegion / lookupAllRegions
  ⟨"gohbase", "sleepAndIncreaseBackoff", 0, "recv:ctx.Done()"⟩,
  -- ZooKeeper lookup (meta / master address)
  ⟨"gohbase", "client.zkLookup", 0, "recv:ctx.Done()"⟩,
  -- handing a batch to the writer goroutine (blocks while the queue is full)
  ⟨"region", "client.QueueBatch", 0, "recv:ctx.Done()"⟩,
  -- unbatched send: checks the call's context before writing
  ⟨"region", "client.QueueRPC", 0, "recv:rpc.Context().Done()"⟩,
  -- scanner: checks the scan's context before every fetch
  ⟨"gohbase", "scanner.Next", 0, "recv:s.rpc.Context().Done()"⟩]

def Wait.matches (w : Wait) (s : Sel) : Bool :=
  s.file == w.file && s.fn == w.fn && s.ord == w.ord

/-- the wait exists in the source and has its context case -/
def Wait.present (w : Wait) : Bool :=
  selects.any fun s => w.matches s && s.cases.contains w.ctxCase

/-- Every wait on a caller path exists in the current source as a `select` that has a case on
the context of the call it serves. -/
theorem caller_waits_cancellable : ∀ w ∈ callerWaits, w.present = true := by decide

/-- `waitForCompletion` additionally watches each call's own context (fix d985bcf). -/
theorem batch_wait_watches_call_context :
    selects.any (fun s => s.fn == "client.waitForCompletion" && s.ord == 0 &&
      s.cases.contains "recv:ctx.Done()" && s.cases.contains "recv:rpc.Context().Done()") = true := by
  decide

example : callerWaits.length = 9 := by decide
/-- negative: a wait that is not in the source is not `present` -/
example : (Wait.mk "gohbase" "client.getRegionAndClientForRPC" 2 "recv:ctx.Done()").present = false := by
  decide
/-- negative: a select without the context case is not accepted (`reestablishRegion` #0 has only
`c.done`) -/
example : (Wait.mk "gohbase" "client.reestablishRegion" 0 "recv:ctx.Done()").present = false := by
  decide

/-- Blocking `select`s of background goroutines, which serve no caller.  (file, fn, ord) -/
def backgroundWaits : List (String × String × Nat) := [
  -- writer goroutine idle: waits for the first batch or for the connection to die (`c.done`)
  ("region", "client.processRPCs", 1),
  -- writer goroutine collecting a batch: waits for more calls, the flush timer or `c.done`
  ("region", "client.processRPCs", 2),
  -- scanner lease renewal goroutine: ticker or its own cancellable context (cancelled by Close/EOF)
  ("gohbase", "scanner.renewLoop", 0),
  -- CreateSnapshot polling loop: ticker or the caller's ctx (it has the `ctx.Done()` case, see below)
  ("gohbase", "client.CreateSnapshot", 0)]

def isCallerWait (s : Sel) : Bool := callerWaits.any fun w => w.matches s
def nonBlocking (s : Sel) : Bool := s.cases.contains "default"
def isBackground (s : Sel) : Bool := backgroundWaits.contains (s.file, s.fn, s.ord)

/-- EVERY `select` of the source is a listed caller wait (which has the context case by
`caller_waits_cancellable`), or non-blocking (`default`), or an allow-listed background wait. -/
theorem no_unlisted_blocking :
    ∀ s ∈ selects, (isCallerWait s || nonBlocking s || isBackground s) = true := by decide

/-- The allow-listed background waits all exist and every one of them can be ended: each has
`c.done` (connection torn down) or a context case. -/
theorem background_waits_end :
    ∀ b ∈ backgroundWaits, selects.any (fun s => (s.file, s.fn, s.ord) == b &&
      (s.cases.contains "recv:c.done" || s.cases.contains "recv:ctx.Done()")) = true := by decide

/-- the snapshot poll is cancellable by its caller -/
theorem create_snapshot_wait_has_ctx :
    selects.any (fun s => s.fn == "client.CreateSnapshot" && s.cases.contains "recv:ctx.Done()") = true := by
  decide

/-- negative: a blocking select on no list is rejected by the predicate of `no_unlisted_blocking` -/
example : let s : Sel := ⟨"gohbase", "client.SendRPC", 0, ["recv:somechan"]⟩
    (isCallerWait s || nonBlocking s || isBackground s) = false := by decide
/-- non-vacuity: the three classes are all inhabited -/
example : (selects.filter isCallerWait).length = callerWaits.length ∧
    0 < (selects.filter nonBlocking).length ∧
    (selects.filter isBackground).length = backgroundWaits.length := by decide

/-! ## Bare channel operations and `Once.Do` -/

/-- Allow-list for operations outside any `select`: the operation, how many times it occurs in
that function, and why it cannot block a caller. -/
structure Allowed where
  op : Bare
  count : Nat
  why : String
  deriving Repr

def allowedBare : List Allowed := [
  ⟨⟨"gohbase", "client.zkLookup", "send", "reschan"⟩, 1,
    "reschan is created with capacity 1 in zkLookup and receives exactly this one send"⟩,
  ⟨⟨"gohbase", "client.Close", "do", "c.closeOnce"⟩, 1,
    "sync.Once: the body closes channels and connections and waits for nothing (C19 close_twice_noop)"⟩,
  ⟨⟨"region", "client.QueueBatch", "send", "call.ResultChan()"⟩, 1,
    "capacity-1 result channel, each call completed at most once: C03 at_most_once"⟩,
  ⟨⟨"region", "client.fail", "do", "c.failOnce"⟩, 1,
    "sync.Once: the body closes c.done and the net.Conn and waits for nothing"⟩,
  ⟨⟨"region", "client.processRPCs", "recv", "timer.C"⟩, 1,
    "drain after a failed timer.Stop(): the timer has fired, so the value is (or is about to be) in the capacity-1 channel; writer goroutine only"⟩,
  ⟨⟨"region", "returnResult", "send", "call.ResultChan()"⟩, 1,
    "capacity-1 result channel, each call completed at most once: C03 at_most_once"⟩,
  ⟨⟨"region", "client.Dial", "do", "c.dialOnce"⟩, 1,
    "sync.Once: the body's dial and hello write are bounded by the dial context's deadline (establisher goroutine, not a caller)"⟩,
  ⟨⟨"region", "multi.returnResults", "send", "call.ResultChan()"⟩, 5,
    "capacity-1 result channel, each call completed at most once: C03 at_most_once (and the fix validating multi responses)"⟩]

def justified (b : Bare) : Bool :=
  allowedBare.any fun a => a.op == b && bareOps.count b == a.count

/-- EVERY bare send / receive / `Once.Do` of the source is on the allow-list, with exactly the
listed multiplicity (an added send in an already listed function changes the count). -/
theorem bare_ops_all_justified : ∀ b ∈ bareOps, justified b = true := by decide

/-- and the allow-list has no stale entry -/
theorem allow_list_tight : ∀ a ∈ allowedBare, bareOps.contains a.op = true := by decide

example : 0 < bareOps.length ∧ (allowedBare.map (·.count)).sum = bareOps.length := by decide
/-- negative: an unlisted bare receive is rejected -/
example : justified (Bare.mk "gohbase" "client.SendRPC" "recv" "ch") = false := by decide

/-! ## Model: what a `select` does once the context is cancelled

Go semantics: a `select` without `default` blocks until at least one case is ready and then
takes one of the ready cases (chosen at random).  `ready` tells which cases are ready; `pick`
is the scheduler's choice among them. -/

inductive SelOut where
  | took (case : String)
  | blocked
  deriving Repr, DecidableEq

def selectStep (cases : List String) (ready : String → Bool) (pick : Nat) : SelOut :=
  match cases.filter ready with
  | [] => if cases.contains "default" then .took "default" else .blocked
  | r :: rs => .took ((r :: rs)[pick % (r :: rs).length]'(Nat.mod_lt _ (Nat.succ_pos _)))

/-- A select that has the cancelled context among its cases never blocks … -/
theorem cancel_never_blocks (cases : List String) (ctxCase : String) (ready : String → Bool)
    (pick : Nat) (hin : ctxCase ∈ cases) (hc : ready ctxCase = true) :
    selectStep cases ready pick ≠ .blocked := by
  unfold selectStep
  have hm : ctxCase ∈ cases.filter ready := List.mem_filter.mpr ⟨hin, hc⟩
  split
  · rename_i h; rw [h] at hm; cases hm
  · intro h; cases h

/-- … and a cancel event alone (no other case ready) makes it take the context case at that
step, whatever the scheduler picks. -/
theorem cancel_returns (cases : List String) (ctxCase : String) (ready : String → Bool)
    (pick : Nat) (hin : ctxCase ∈ cases) (hc : ready ctxCase = true)
    (honly : ∀ c ∈ cases, c ≠ ctxCase → ready c = false) :
    selectStep cases ready pick = .took ctxCase := by
  unfold selectStep
  have hm : ctxCase ∈ cases.filter ready := List.mem_filter.mpr ⟨hin, hc⟩
  have hall : ∀ x ∈ cases.filter ready, x = ctxCase := by
    intro x hx
    have ⟨hx1, hx2⟩ := List.mem_filter.mp hx
    by_cases hxe : x = ctxCase
    · exact hxe
    · rw [honly x hx1 hxe] at hx2; cases hx2
  split
  · rename_i h; rw [h] at hm; cases hm
  · rename_i r rs h
    rw [h] at hall
    congr 1
    exact hall _ (List.getElem_mem _)

/-- the model on the real table: `sendBlocking`'s wait with only the context ready -/
example : selectStep ["recv:ctx.Done()", "recv:rpc.ResultChan()"] (· == "recv:ctx.Done()") 7
    = .took "recv:ctx.Done()" := by decide
/-- negative: without the context case the same select blocks -/
example : selectStep ["recv:rpc.ResultChan()"] (· == "recv:ctx.Done()") 0 = .blocked := by decide
/-- negative (why "a cancel event alone"): if the result is ready too, Go may take it -/
example : selectStep ["recv:ctx.Done()", "recv:rpc.ResultChan()"] (fun _ => true) 1
    = .took "recv:rpc.ResultChan()" := by decide

/-! ## The `SendRPC` loop under cancellation

One iteration of `SendRPC` is `getRegionAndClientForRPC` (waits #0 and #1, each reached only if
the region is unavailable at that point), `QueueRPC` (= the attempt; preceded by its own
non-blocking context check), `sendBlocking` #0 (always reached), and for retry-later answers
`sleepAndIncreaseBackoff` #0.  A point is a wait from `callerWaits` or the attempt itself. -/

inductive Pt where
  | wait (w : Wait)
  | attempt
  deriving Repr, DecidableEq

inductive IterOut where
  | ctxErr (afterAttempts : Nat)   -- returned the context error having made that many attempts
  | completed (attempts : Nat)     -- ran through all points (iteration ends: return or `continue`)
  | stuck
  deriving Repr, DecidableEq

/-- Runs the points of an iteration with the context cancelled and *no other event* (no result,
no availability change, no timer): each wait is the `select` of the source with only its context
case ready. -/
def runCancelled : List Pt → Nat → IterOut
  | [], n => .completed n
  | .attempt :: rest, n => runCancelled rest (n + 1)
  | .wait w :: rest, n =>
    match selects.find? w.matches with
    | none => .stuck
    | some s =>
      match selectStep s.cases (· == w.ctxCase) 0 with
      | .took c => if c == w.ctxCase then .ctxErr n else runCancelled rest n
      | .blocked => .stuck

def wGR0 : Wait := ⟨"gohbase", "client.getRegionAndClientForRPC", 0, "recv:ctx.Done()"⟩
def wGR1 : Wait := ⟨"gohbase", "client.getRegionAndClientForRPC", 1, "recv:ctx.Done()"⟩
def wQueue : Wait := ⟨"region", "client.QueueRPC", 0, "recv:rpc.Context().Done()"⟩
def wSend : Wait := ⟨"gohbase", "sendBlocking", 0, "recv:ctx.Done()"⟩
def wSleep : Wait := ⟨"gohbase", "sleepAndIncreaseBackoff", 0, "recv:ctx.Done()"⟩

/-- The shapes an iteration of `SendRPC` can have: which of the two availability waits are
reached, then the queue check, the attempt, the result wait and possibly the back-off sleep. -/
def iterationShapes : List (List Pt) :=
  [[], [.wait wGR0], [.wait wGR1], [.wait wGR0, .wait wGR1]].flatMap fun pre =>
    [pre ++ [.wait wQueue, .attempt, .wait wSend],
     pre ++ [.wait wQueue, .attempt, .wait wSend, .wait wSleep]]

def Pt.listed : Pt → Bool
  | .wait w => callerWaits.contains w
  | .attempt => true

theorem iteration_waits_are_caller_waits :
    ∀ sh ∈ iterationShapes, ∀ p ∈ sh, p.listed = true := by decide

/-- With the context cancelled and nothing else happening, the iteration in progress returns the
context error at the first wait it reaches and makes no attempt at all after the cancellation —
in particular the loop never reaches `continue`. -/
theorem sendrpc_cancel_returns :
    ∀ sh ∈ iterationShapes, runCancelled sh 0 = .ctxErr 0 := by decide

/-- Wherever inside an iteration the cancellation happens (the points before it already
executed), the rest of the iteration returns the context error with no further attempt, unless
the cancellation falls after the last wait. -/
theorem sendrpc_cancel_returns_from_any_point :
    ∀ sh ∈ iterationShapes, ∀ k ∈ List.range sh.length,
      (sh.drop k).head? ≠ some .attempt → runCancelled (sh.drop k) 0 = .ctxErr 0 := by
  decide

/-- If the cancellation lands between the queue check and the write (the only point followed by
the attempt) that one attempt — the one in progress — goes out, and the result wait then returns. -/
theorem sendrpc_cancel_in_progress_attempt :
    runCancelled [.attempt, .wait wSend] 0 = .ctxErr 1 ∧
    runCancelled [.attempt, .wait wSend, .wait wSleep] 0 = .ctxErr 1 := by decide

example : iterationShapes.length = 8 := by decide
/-- negative: an iteration made of an attempt with no wait behind it would complete and loop -/
example : runCancelled [.attempt] 0 = .completed 1 := by decide

/-- Regenerated from rpc.go (`findClients`, fix a0b19e4): the region of a batched call is located
under a context `rctx` derived from the batch context by `context.WithCancel(ctx)` *and* cancelled
by `context.AfterFunc(rpc.Context(), cancel)` — i.e. it ends when the batch context or the call's
own context ends. Every wait inside `getRegionAndClientForRPC` selects on the context it is given
(`caller_waits_cancellable`), so a batched call whose own context ends while its region is being
located is released. (`batch_wait_watches_call_context` covers the wait for the response.) `rctx` is
declared inside the loop over the batch: every call is located under a context of its own, so the
cancellation that ends one call's location cannot leak into the next call's. -/
theorem batch_location_watches_call_context_in_source :
    GV.Gen.Exits.findClientsLocateCtx = ["rctx"] ∧
    GV.Gen.Exits.findClientsLocateCtxPerCall = true ∧
    GV.Gen.Exits.findClientsWithCancel = ["rctx, cancel = WithCancel(ctx)"] ∧
    GV.Gen.Exits.findClientsAfterFunc = ["rpc.Context(), cancel"] := by decide

/-- Regenerated from rpc.go (`SendBatch`, fixes 38f0b98 and 8ad70df): the two other places where a
batch waits — handing a group of calls to a region client whose send queue is busy
(`QueueBatch`) and the back-off sleep between rounds — wait under a context made by
`contextOfCalls` from the batch context and the calls concerned: it ends when the batch context
ends or when the own context of every one of those calls has ended (`Round.gaveUp` /
`Event.sleepLeft` in `Model/Batch.lean` for the sleep). Together with
`batch_location_watches_call_context_in_source` (region location) and
`batch_wait_watches_call_context` (the wait for the response) these are all the waits of SendBatch. -/
theorem batch_queue_and_sleep_watch_call_contexts_in_source :
    GV.Gen.Exits.sendBatchWaitContexts =
      ["QueueBatch:contextOfCalls(ctx, rpcs)", "sleepAndIncreaseBackoff:contextOfCalls(ctx, _)"] := by decide

/-- Regenerated from admin_client.go (`checkProcedureWithBackoff`, the wait behind CreateTable,
DeleteTable, EnableTable and DisableTable): the procedure-state poll and the sleep between two
polls both run under the context of the admin call itself, and the loop makes no context of its
own (a poll under a fresh context is not ended by the caller's cancellation: observed as
`cancel-ignored-admin-poll-silent-*` on a seeded change). -/
theorem procedure_polls_watch_caller_context_in_source :
    GV.Gen.Exits.procedurePollContexts = ["NewGetProcedureState:ctx", "sleepAndIncreaseBackoff:ctx"] := by
  decide

end GV.Cancel
