import GohbaseVerif.Lemmas.Cell
/-!
# C10 — Cell encoding is lossless and both mutation encodings agree

Property theorems only (helpers in `Lemmas/Cell.lean`, model in `Model/Cell.lean`).
`appendCellblock`/`cellFromCellBlock`/`deserializeCellBlocks`/`valuesToCellblocks`/`valuesToProto`
are the models of the Go functions of the same names; `Spec.kvDecode` is the independent KeyValue
parser; the correspondence run ties the models to the code.

Size hypotheses are exactly the ones C10 quantifies over: row shorter than 2^16, family shorter
than 2^8, 64-bit timestamp. The size bound is stated as `< 2^32` (the `uint32` length words),
which covers the `< 2^31` of the property.
-/
namespace GV.Cell
open GV

/-- With the `cellblockLen` formula the tree has now (regenerated), the bytes `appendCellblock`
adds are exactly the field layout: nothing is cut, nothing is padding. -/
theorem appendCellblock_is_layout (row fam qual val : Bytes) (ts : Nat) (typ : UInt8) :
    appendCellblock row fam qual val ts typ = layout row fam qual val ts typ :=
  appendCellblock_eq_layout row fam qual val ts typ

/-- Bytes written = `cellblockLen` of the field lengths (what `valuesToCellblocks` pre-computes). -/
theorem length_eq_cellblockLen' (row fam qual val : Bytes) (ts : Nat) (typ : UInt8) :
    (appendCellblock row fam qual val ts typ).length
      = cellblockLen row.length fam.length qual.length val.length :=
  length_eq_cellblockLen row fam qual val ts typ

/-- The client's own decoder inverts the encoder on every cell C10 quantifies over, whatever
follows in the buffer, and consumes exactly the bytes that were written. -/
theorem decode_encode (row fam qual val : Bytes) (ts : Nat) (typ : UInt8) (rest : Bytes)
    (hr : row.length < 2 ^ 16) (hf : fam.length < 2 ^ 8) (hts : ts < 2 ^ 64)
    (htot : cellblockLen row.length fam.length qual.length val.length < 2 ^ 32) :
    cellFromCellBlock (appendCellblock row fam qual val ts typ ++ rest)
      = .ok (⟨row, fam, qual, ts, typ, val⟩, (appendCellblock row fam qual val ts typ).length) := by
  rw [cellblockLen_eq] at htot
  rw [appendCellblock_eq_layout, layout_length]
  exact decode_layout row fam qual val ts typ rest hr hf hts htot

/-- The independent KeyValue parser reads the same cell and the same length. -/
theorem kvDecode_encode (row fam qual val : Bytes) (ts : Nat) (typ : UInt8) (rest : Bytes)
    (hr : row.length < 2 ^ 16) (hf : fam.length < 2 ^ 8) (hts : ts < 2 ^ 64)
    (htot : cellblockLen row.length fam.length qual.length val.length < 2 ^ 32) :
    Spec.kvDecode (appendCellblock row fam qual val ts typ ++ rest)
      = some (⟨row, fam, qual, ts, typ, val⟩, (appendCellblock row fam qual val ts typ).length) := by
  rw [cellblockLen_eq] at htot
  rw [appendCellblock_eq_layout, layout_length]
  exact kvDecode_layout row fam qual val ts typ rest hr hf hts htot

/-- Both decoders agree on every encoded cell (corollary, stated for the record). -/
theorem decoders_agree_on_encoded (c : Cell) (rest : Bytes) (hv : c.Valid)
    (htot : (encodeCell c).length < 2 ^ 32) :
    cellFromCellBlock (encodeCell c ++ rest) = .ok (c, (encodeCell c).length) ∧
    Spec.kvDecode (encodeCell c ++ rest) = some (c, (encodeCell c).length) :=
  ⟨decode_encodeCell c rest hv htot, kvDecode_encodeCell c rest hv htot⟩

/-- `deserializeCellBlocks` on `n` encoded cells followed by anything returns exactly those cells
and the number of bytes they occupy. -/
theorem stream_roundtrip (cells : List Cell) (rest : Bytes) (hv : ∀ c ∈ cells, c.Valid)
    (htot : (cells.flatMap encodeCell).length < 2 ^ 32) :
    deserializeCellBlocks (cells.flatMap encodeCell ++ rest) cells.length
      = .ok (cells, (cells.flatMap encodeCell).length) := by
  have := deserializeFrom_encoded cells [] rest hv (by simpa using htot)
  have hge := flatMap_encodeCell_length_ge cells
  have hguard : ¬ (cells.flatMap encodeCell ++ rest).length / minCellLen < cells.length := by
    rw [List.length_append, Nat.not_lt]
    apply (Nat.le_div_iff_mul_le (by decide)).mpr
    rw [Nat.mul_comm]; omega
  unfold deserializeCellBlocks
  rw [if_neg hguard]
  simpa using this

/-- … and so does the independent parser. -/
theorem stream_roundtrip_kv (cells : List Cell) (rest : Bytes) (hv : ∀ c ∈ cells, c.Valid)
    (htot : (cells.flatMap encodeCell).length < 2 ^ 32) :
    Spec.kvDecodeN cells.length (cells.flatMap encodeCell ++ rest)
      = some (cells, (cells.flatMap encodeCell).length) :=
  kvDecodeN_encoded cells rest hv htot

/-- The regenerated type codes are HBase's `KeyValue.Type` codes `Put=4, Delete=8,
DeleteFamilyVersion=10, DeleteColumn=12, DeleteFamily=14`. -/
theorem type_codes :
    UInt8.ofNat Gen.Cell.putType = 4 ∧ UInt8.ofNat Gen.Cell.deleteType = 8 ∧
    UInt8.ofNat Gen.Cell.deleteFamilyVersionType = 10 ∧
    UInt8.ofNat Gen.Cell.deleteColumnType = 12 ∧ UInt8.ofNat Gen.Cell.deleteFamilyType = 14 :=
  gen_type_codes

theorem gen_cell_shape : Gen.Cell.shapeOk = true := by decide

/-- The protobuf form and the cellblock form of one mutation denote the same multiset of cells
— for every mutation kind, both `deleteOneVersion` settings (hence all four delete variants),
timestamp set or not, every map (nil / empty / populated inner maps) and *every* iteration order:
`mp` is the order `valuesToProto` ranges in, `m1`/`m2` the orders of the two passes of
`valuesToCellblocks`, all three orders of the same map `m`.
The cellblock side is read back with the independent parser (`Spec.cellsOfCellblocks`); the
protobuf side with `Spec.cellsOfProto` (delete kinds ↔ codes 8/12/14/10, put/append/increment ↔ 4,
absent timestamp ↔ `Long.MAX_VALUE`); both equal the cells read off the map directly. -/
theorem encodings_agree (mu : Mut) (m mp m1 m2 : VMap)
    (hp : SameMap m mp) (h1 : SameMap m m1) (h2 : SameMap m m2)
    (hkey : mu.key.length < 2 ^ 16) (hts : mu.timestamp < 2 ^ 64)
    (hfam : ∀ e ∈ m, e.1.length < 2 ^ 8)
    (hsize : ((Spec.intendedCells mu m).flatMap encodeCell).length < 2 ^ 31) :
    ∃ cbs count size cells,
      valuesToCellblocks mu m1 m2 = .ok (cbs, count, size) ∧
      Spec.cellsOfCellblocks cbs count = some cells ∧
      cells.Perm (Spec.cellsOfProto mu.kind mu.key (valuesToProto mu mp (protoTs mu))) ∧
      cells.Perm (Spec.intendedCells mu m) := by
  obtain ⟨cbs, count, size, cells, a, _, _, b, c, d⟩ :=
    encodings_agree_aux mu m mp m1 m2 hp h1 h2 hkey hts hfam hsize
  exact ⟨cbs, count, size, cells, a, b, c, d⟩

/-- `valuesToCellblocks` never reaches `panic("cellblocks len mismatch")`: for every mutation,
every map and every pair of iteration orders the outcome is `ok`, the bytes are the encodings of
the cells of the second pass, and the count is `int32` of their number. No size hypothesis. -/
theorem count_eq_cells (mu : Mut) (m m1 m2 : VMap) (h1 : SameMap m m1) (h2 : SameMap m m2) :
    valuesToCellblocks mu m1 m2
      = .ok ((writtenCells mu m2).flatMap encodeCell, toInt32 (writtenCells mu m2).length,
             ((writtenCells mu m2).flatMap encodeCell).length % two32) :=
  valuesToCellblocks_ok mu m1 m2 (h1.symm.trans h2)

theorem valuesToCellblocks_no_fault (mu : Mut) (m m1 m2 : VMap) (h1 : SameMap m m1)
    (h2 : SameMap m m2) : (valuesToCellblocks mu m1 m2).isFault = false := by
  rw [count_eq_cells mu m m1 m2 h1 h2]; rfl

/-- Below 2^31 cells the returned `int32` *is* the number of cells written, and it is the number of
cells of the map (`Spec.intendedCells`). -/
theorem count_eq_cells_int (mu : Mut) (m m1 m2 : VMap) (h1 : SameMap m m1) (h2 : SameMap m m2)
    (hn : (Spec.intendedCells mu m).length < 2 ^ 31) :
    ∃ cbs size, valuesToCellblocks mu m1 m2 = .ok (cbs, ((Spec.intendedCells mu m).length : Int), size) := by
  have hl : (writtenCells mu m2).length = (Spec.intendedCells mu m).length := by
    rw [← writtenCells_intended]; exact (writtenCells_perm mu h2.symm).length_eq
  rw [count_eq_cells mu m m1 m2 h1 h2, hl, toInt32_of_lt hn]
  exact ⟨_, _, rfl⟩

/-- Every iteration order is covered: any permutation of the outer map is a `SameMap`. -/
theorem sameMap_of_perm {m m' : VMap} (h : m.Perm m') : SameMap m m' := SameMap.of_perm h

/-! ## Non-vacuity -/

/-- A valid cell with an empty qualifier and value, timestamp 2^63, type DeleteFamily. -/
example : (⟨[1, 2], [3], [], 2 ^ 63, 14, []⟩ : Cell).Valid := by
  refine ⟨by decide, by decide, by decide⟩
example : cellFromCellBlock (encodeCell ⟨[1, 2], [3], [4], 2 ^ 63, 14, [9]⟩ ++ [7, 7])
    = .ok (⟨[1, 2], [3], [4], 2 ^ 63, 14, [9]⟩, 29) := by decide
example : Spec.kvDecode (encodeCell ⟨[1, 2], [3], [4], 2 ^ 63, 14, [9]⟩ ++ [7, 7])
    = some (⟨[1, 2], [3], [4], 2 ^ 63, 14, [9]⟩, 29) := by decide
/-- A family of 256 bytes is outside the property: its length byte `byte(len(family))` is 0
(why `hf` is needed). -/
example : UInt8.ofNat 256 = 0 := by decide
/-- `SameMap` relates a map to a reordering of its outer and inner entries. -/
example : SameMap [([1], some [([2], [3]), ([4], [])]), ([5], none)]
    [([5], none), ([1], some [([4], []), ([2], [3])])] :=
  .trans (.consSome [1] (List.Perm.swap _ _ _) (SameMap.refl _)) (.swap _ _ _)
set_option maxRecDepth 8192 in
/-- A delete with a nil inner map, an empty inner map and two qualifiers, `deleteOneVersion`,
no timestamp: four cells (10, 10, 8, 8) with timestamp `Long.MAX_VALUE` in both forms — the family
named with an empty qualifier map is deleted as a family, like the one with a nil map (before the
repair in /repo it contributed no cell at all, and a delete without cells removes the whole row). -/
example :
    let mu : Mut := ⟨[1], .delete, maxTimestamp, true⟩
    let m : VMap := [([10], none), ([11], some []), ([12], some [([1], [2]), ([], [])])]
    (valuesToCellblocks mu m m).map (fun r => (Spec.cellsOfCellblocks r.1 r.2.1))
      = .ok (some (Spec.cellsOfProto mu.kind mu.key (valuesToProto mu m (protoTs mu))))
    ∧ (Spec.intendedCells mu m).map (·.typ) = [10, 10, 8, 8] := by decide
/-- The defect fixed in 4999c8f, on the model: counting an `emptyQualifier` cell for a *put* with a
nil inner map would make the two passes disagree; with the current code the put writes no cell. -/
example : valuesToCellblocks ⟨[1], .put, maxTimestamp, false⟩ [([10], none)] [([10], none)]
    = .ok ([], 0, 0) := by decide

/-! ## Mutations inside a multi-request: how a reader attributes cells to actions

A multi-request carries one cellblock stream for all its actions; each mutation only says how
many cells are its own (`associated_cell_count`). A reader takes the cells off the stream in
request order. `dealOut` is that procedure (it is also what `harness/c10batch.go` does before it
hands each action to the single-mutation judgement). -/

/-- Take `n₁` cells for the first action, `n₂` for the second, … off the stream. -/
def dealOut {α : Type} : List Nat → List α → List (List α)
  | [], _ => []
  | n :: ns, xs => xs.take n :: dealOut ns (xs.drop n)

/-- **If the cells are written in the order of the actions, every action gets back exactly its own
cells** — whatever the counts (also zero-cell mutations such as whole-row deletes) and however many
actions there are. -/
theorem dealOut_flatten {α : Type} (ls : List (List α)) :
    dealOut (ls.map List.length) ls.flatten = ls := by
  induction ls with
  | nil => rfl
  | cons l ls ih =>
    simp only [List.map_cons, List.flatten_cons, dealOut, List.take_left', List.drop_left']
    rw [ih]

/-- … and the stream is used up: nothing is left over for a reader to trip on. -/
theorem dealOut_consumes {α : Type} (ls : List (List α)) :
    (ls.map List.length).sum = ls.flatten.length := by
  induction ls with
  | nil => rfl
  | cons l ls ih => simp only [List.map_cons, List.sum_cons, List.flatten_cons, List.length_append, ih]

/-- The other direction is what the seeded change C10-m8 / C12-m10 shows: with the counts in
action order and the cells in another order, actions receive each other's cells (here a one-cell
put and a two-cell put swapped). -/
example : dealOut [1, 2] ([[20, 21], [10]] : List (List Nat)).flatten = [[20], [21, 10]] := by decide

end GV.Cell
