import GohbaseVerif.Lemmas.ScannerExact
/-!
# C06 — a scan returns exactly the rows in range, in order, whole, once

Model: `Model/Scanner.lean` (tied to `/repo/scanner.go` by the correspondence run `c06`).
Environment: `Conforming` (`Env.Scan`, DESIGN §5) — the acceptor `Srv.step` says what a
regionserver cluster holding `table`, split at `splits`, may answer: for every open request the
rows of (region containing the start row) ∩ range, in scan order, cut into responses and partial
fragments in *any* way (`chunk`), heartbeats, `more_results_in_region = false` only with nothing
left in the region, `more_results = false` only with nothing left at all (the region scanner may
then still be open).

The theorems hold for every table, layout, range, direction and every conforming script `R`;
they say nothing about scans the user made with `CloseScanner()` (`sc.closing`), which are
outside the property's quantifier (the server closes the region scanner after the first
response, so a second request for the same region fails).
-/
namespace GV.Scanner
open GV

/-- The padding used for reversed scans is eight `0xff` bytes (regenerated from the source). -/
theorem padding_is_eight_ff : Gen.Wire.rowPadding = List.replicate 8 255 := by decide

/-- **`coalesce_row`**: however a conforming server cuts the rows `T` into partial fragments,
    `Next` glues them back: each row comes out whole (all its cells, in order), exactly once. -/
theorem coalesce_row (T : List (List Cell)) (fs : List Frag) (hT : RowsOk T)
    (h : chunk T fs = some []) : assembleAll none fs = T.map (fun r => ⟨r, false⟩) :=
  assemble_chunk T fs hT h

/-- **`scan_exact`**: for every table, region layout, range and direction, against every
    conforming script of responses (any rows per response, any cut into partial fragments,
    heartbeats, early or separate "no more in region", "no more results" with the region scanner
    open or closed), calling `Next` until it fails returns exactly the rows whose key lies in the
    range, in scan order, each exactly once and whole — and then `io.EOF`. -/
theorem scan_exact {table : List Row} {splits : List Bytes} {sc : Scan} (H : ScanHyps table splits sc)
    (R : List Reply) (hconf : Conforming table splits sc (collect sc R).2.1.log.reverse)
    (hnp : sc.allowPartial = false) :
    (collect sc R).1 = (inRange sc table).map (fun r => Item.ok ⟨r.frag, false⟩) ++ [Item.eof] := by
  obtain ⟨hok, hch⟩ := conforming_walk H R hconf
  have hfut : future sc R (St.init sc) = (pull sc R (St.init sc)).frags := by simp [future, St.init]
  obtain ⟨s1, R1, h1, _, _⟩ := collectN_stream sc (measure R (St.init sc) + 1) R (St.init sc) hnp hok
    (by have := future_length sc R (St.init sc); omega)
  unfold collect
  rw [h1, hfut, coalesce_row _ _ (inRange_rowsOk H) hch]
  simp [List.map_map, Function.comp_def]

/-- **`fragments_concat`**: with `AllowPartialResults` the results are the fragments as the
    server cut them — a fragmentation of exactly the rows in range, in scan order: every result
    is a non-empty run of cells of one row, flagged partial iff cells of that row follow, and
    concatenating the results gives the rows' cells, in order, each exactly once. -/
theorem fragments_concat {table : List Row} {splits : List Bytes} {sc : Scan} (H : ScanHyps table splits sc)
    (R : List Reply) (hconf : Conforming table splits sc (collect sc R).2.1.log.reverse)
    (hp : sc.allowPartial = true) :
    ∃ frs, (collect sc R).1 = frs.map Item.ok ++ [Item.eof] ∧
      chunk ((inRange sc table).map Row.frag) frs = some [] ∧
      frs.flatMap (·.cells) = ((inRange sc table).map Row.frag).flatten := by
  obtain ⟨hok, hch⟩ := conforming_walk H R hconf
  have hfut : future sc R (St.init sc) = (pull sc R (St.init sc)).frags := by simp [future, St.init]
  obtain ⟨s1, R1, h1, _, _⟩ := collectN_partial_stream sc (measure R (St.init sc) + 1) R (St.init sc) hp hok
    (by have := future_length sc R (St.init sc); omega)
  refine ⟨(pull sc R (St.init sc)).frags, ?_, hch, ?_⟩
  · unfold collect; rw [h1, hfut]
  · have := chunk_concat _ _ _ hch
    simpa using this

/-- **Termination**: `Next` always returns (its loop bound is never exhausted), and a complete
    run ends: after at most `measure R s + 1` calls the scanner is closed. -/
theorem next_terminates (sc : Scan) (acc : Option Frag) (R : List Reply) (s : St) :
    (nextLoop sc (measure R s + 1) acc R s).isSome :=
  nextLoop_isSome sc _ acc R s (by omega)

theorem next_fuel_irrelevant (sc : Scan) (fuel : Nat) (acc : Option Frag) (R : List Reply) (s : St)
    (h : measure R s < fuel) :
    nextLoop sc fuel acc R s = nextLoop sc (measure R s + 1) acc R s :=
  nextLoop_fuel sc fuel acc R s h

theorem collect_terminates (sc : Scan) (R : List Reply) : (collect sc R).2.1.closed = true :=
  collectN_closed sc _ R _ (by omega)

/-- The panic in `openRegionScanner` is dead code: `update` only calls it when no region
    scanner is open. -/
theorem update_never_panics (sc : Scan) (s : St) (r : Resp) (g : Region) :
    updateO sc s r g = .ok (update sc s r g) := updateO_eq sc s r g

/-- `prevKey` is what reversed scans rely on: among keys free of `rowPadding` it is the greatest
    key below a region start key. -/
theorem prevKey_greatest_below (rsk k : Bytes) (hr : rsk ≠ []) (hk : hasPadding k = false) :
    blt k rsk = ble k (prevKey rsk) := blt_iff_ble_prevKey rsk k hr hk

/-! ### Non-vacuity: a two-region table, a reversed scan whose second request uses the padded
start row, fragments, a heartbeat and "no more results" with the region scanner still open. -/

def exTable : List Row := [⟨[0x61], [0, 1]⟩, ⟨[0x62], [0]⟩, ⟨[0x63], [0, 1]⟩]
def exSplits : List Bytes := [[0x62, 0x00]]
def exScan : Scan := ⟨[0x7a], [], true, false, false, 2⟩
def exReplies : List Reply :=
  [ .resp ⟨[0x62, 0x00], []⟩ ⟨[⟨[⟨[0x63], 0⟩], true⟩], some 5, true, true⟩,
    .resp ⟨[0x62, 0x00], []⟩ ⟨[], some 5, true, true⟩,
    .resp ⟨[0x62, 0x00], []⟩ ⟨[⟨[⟨[0x63], 1⟩], false⟩], some 5, false, true⟩,
    .resp ⟨[], [0x62, 0x00]⟩ ⟨[⟨[⟨[0x62], 0⟩], false⟩, ⟨[⟨[0x61], 0⟩, ⟨[0x61], 1⟩], false⟩], some 6, true, false⟩ ]

example : ScanHyps exTable exSplits exScan :=
  ⟨by decide, by decide, by decide, by decide, by decide, by decide⟩

example : Conforming exTable exSplits exScan (collect exScan exReplies).2.1.log.reverse := by decide

example : (collect exScan exReplies).1 =
    [Item.ok ⟨[⟨[0x63], 0⟩, ⟨[0x63], 1⟩], false⟩, Item.ok ⟨[⟨[0x62], 0⟩], false⟩,
     Item.ok ⟨[⟨[0x61], 0⟩, ⟨[0x61], 1⟩], false⟩, Item.eof] := by decide

example : ((collect exScan exReplies).2.1.trace.map (·.startRow)) =
    [[0x7a], [0x7a], [0x7a], [0x62], [0x62]] := by decide

/-! ### Remark: the empty start row inside a reversed scan

A region boundary `0x00` makes `prevKey` the empty key: after region `[00, …)` the reversed scan
opens `(startRow = [], reversed)`. The real client routes every request by its key, so this goes
to the *first* region `[-, 00)` — the right one — and `Conforming`/`locate` say exactly that.
An environment that sent a reversed request with an empty start row to the *last* region instead
("scan from the end of the table", which is what the empty start row means to HBase itself) would
serve region `[00, …)` again, and the scan would return its rows a second time; it is the
client-side routing that makes the empty key harmless. It is also why a *user* scan must not be
reversed with an empty start row (`ScanHyps.revStart`): it would only see the first region. -/
example :
    ((collect ⟨[0x7a], [], true, false, false, 1⟩
        [ .resp ⟨[0x00], []⟩ ⟨[⟨[⟨[0x61], 0⟩], false⟩], some 1, false, true⟩,
          .resp ⟨[], [0x00]⟩ ⟨[], some 2, false, true⟩ ]).2.1.trace.map (·.startRow)) = [[0x7a], []] := by
  decide

end GV.Scanner
