import GohbaseVerif.Lemmas.BatchOrder
/-!
# C12 — Each call once, in per-region order, or not at all

Same model as C07 (`sendBatch`, Model/Batch.lean); what reaches the region clients is the list of
`Event.queue round client calls` (one per `QueueBatch`), and what a region server is shown of one
`QueueBatch` is `Multi.toProto` (model of `multi.add` + `multi.toProto`, region/multi.go).
-/
namespace GV.Batch
open GV

/-- **A batch that mixes tables, repeats a call or contains a non-batchable call — at any position
— is rejected as a whole without anything being sent**: no `QueueBatch`, `allOK = false`, and every
slot carries an error. -/
theorem invalid_rejected_unsent {info : Info} {batch : List Nat} (hne : batch ≠ [])
    (hv : ¬ ValidBatch info batch) (rounds : List Round) :
    ∃ R, sendBatch info batch rounds = .ok R ∧ R.events = [] ∧ R.allOK = false ∧
      R.res.length = batch.length ∧ ∀ s ∈ R.res, s.msg = none ∧ s.err ≠ none := by
  refine ⟨_, sendBatch_invalid hne hv rounds, rfl, rfl, (validate_spec info _ [] batch).1,
    (validate_spec info _ [] batch).2.1⟩

/-- … and each slot of a rejected batch describes its own entry: a repeated call is told the
position of its first occurrence, a call of another table than `batch[0]`'s or a non-batchable call
its own defect, every other call `NotExecutedError`. -/
theorem invalid_slot_describes_entry {info : Info} {batch : List Nat} (hne : batch ≠ [])
    (hv : ¬ ValidBatch info batch) (rounds : List Round) {R : Result}
    (h : sendBatch info batch rounds = .ok R) (i : Nat) (hi : i < batch.length) :
    R.res[i]'(by rw [sendBatch_length h]; exact hi)
      = entrySlot info (info.table (batch.headD 0)) (batch.take i) batch[i] := by
  rw [sendBatch_invalid hne hv, Outcome.ok.injEq] at h
  subst h
  simpa using validate_getElem info (info.table (batch.headD 0)) [] batch i hi

/-- What "invalid" means, entry by entry: some call is repeated, or is of another table than the
first call, or is not batchable. -/
theorem invalid_iff {info : Info} {batch : List Nat} :
    ¬ ValidBatch info batch ↔
      ¬ batch.Nodup ∨ ∃ c ∈ batch, info.table c ≠ info.table (batch.headD 0) ∨ info.batchable c = false := by
  constructor
  · intro h
    by_cases hn : batch.Nodup
    · refine Or.inr ?_
      apply Classical.byContradiction
      intro hcon
      apply h
      refine ⟨hn, fun c hc => ⟨?_, ?_⟩⟩
      · apply Classical.byContradiction
        intro hne; exact hcon ⟨c, hc, Or.inl hne⟩
      · cases hb : info.batchable c
        · exact absurd ⟨c, hc, Or.inr hb⟩ hcon
        · rfl
    · exact Or.inl hn
  · rintro (h | ⟨c, hc, h | h⟩) hv
    · exact h hv.1
    · exact h (hv.2 c hc).1
    · rw [(hv.2 c hc).2] at h; cases h

/-- **Otherwise each call is sent to the region client owning its key, once, and every group keeps
batch order.** First round of a valid batch whose calls can all be located: the `QueueBatch` calls
are exactly the groups of the routing oracle (in whatever order Go iterates the map); every call is
in exactly one group — the one of the client region location returned for it — and each group is
a sublist of the batch (batch order). -/
theorem round0_partition {info : Info} {batch : List Nat} {rd : Round} {rest : List Round} {R : Result}
    (hne : batch ≠ []) (hv : ValidBatch info batch) (hloc : ∀ c ∈ batch, locOk rd c = true)
    (h : sendBatch info batch (rd :: rest) = .ok R) :
    queuedAt R.events 0 = groups rd batch ∧
    ((groups rd batch).map (·.1)).Nodup ∧
    (∀ g ∈ groups rd batch, g.2.Sublist batch ∧ ∀ c ∈ g.2, rd.locate c = .ok g.1) ∧
    (∀ c ∈ batch, ∃ g ∈ groups rd batch, c ∈ g.2 ∧ ∀ g' ∈ groups rd batch, c ∈ g'.2 → g' = g) := by
  rw [sendBatch_valid hne hv] at h
  obtain ⟨new, hev, _, _, _, _, h5, _⟩ := loop_events h (fun c hc => hc) (st0_length info batch)
  have hev' : R.events = new := by simpa [st0] using hev
  have hany : batch.any (fun c => !locOk rd c) = false := by
    simp only [List.any_eq_false, Bool.not_eq_true', Bool.not_eq_false]
    intro c hc; simp [hloc c hc]
  refine ⟨by rw [hev']; exact h5 rd rest rfl hany, groups_keys_nodup rd batch, ?_, ?_⟩
  · intro g hg
    refine ⟨groups_sublist hg, fun c hc => ?_⟩
    obtain ⟨hcb, hk⟩ := (mem_group_iff hg).mp hc
    have := hloc c hcb
    simp only [locOk] at this
    simp only [clientOf] at hk
    split at this
    · rename_i k hk'
      rw [hk'] at hk ⊢
      simp only at hk
      rw [hk]
    · cases this
  · intro c hc
    obtain ⟨g, hg, hcg⟩ := List.mem_flatMap.mp (mem_groups_flat.mpr hc)
    refine ⟨g, hg, hcg, fun g' hg' hcg' => ?_⟩
    have h1 := ((mem_group_iff hg).mp hcg).2
    have h2 := ((mem_group_iff hg').mp hcg').2
    have e1 := (groups_eq hg).1
    have e2 := (groups_eq hg').1
    cases g with
    | mk k cs =>
      cases g' with
      | mk k' cs' =>
        simp only at h1 h2 e1 e2
        subst h1; subst h2; rw [e1, e2]

/-- **Only calls that failed with a retryable class are sent again**: a call handed to a region
client in round `r+1` was handed to one in round `r` and the answer it got there was a
RetryableError, NotServingRegionError or ServerError. -/
theorem only_retryable_resent {info : Info} {batch : List Nat} {rounds : List Round} {R : Result}
    (h : sendBatch info batch rounds = .ok R) {r c : Nat} (hs : Sent R.events (r + 1) c) :
    Sent R.events r c ∧ ∃ rd, rounds[r]? = some rd ∧ isRetry (rd.ans c) = true := by
  by_cases hne : batch = []
  · subst hne
    simp only [sendBatch, Outcome.ok.injEq] at h
    subst h; exact absurd hs sent_nil
  · by_cases hv : ValidBatch info batch
    · rw [sendBatch_valid hne hv] at h
      obtain ⟨new, hev, _, _, h3, _, _⟩ := loop_events h (fun c hc => hc) (st0_length info batch)
      have hev' : R.events = new := by simpa [st0] using hev
      rw [hev'] at hs ⊢
      simpa using h3 c r (Nat.zero_le _) hs
    · rw [sendBatch_invalid hne hv, Outcome.ok.injEq] at h
      subst h; exact absurd hs sent_nil

/-- A call whose answer in round `r` was not of a retryable class (a success, a fatal error, or
no answer at all) is not sent in any later round. -/
theorem ended_never_resent {info : Info} {batch : List Nat} {rounds : List Round} {R : Result}
    (h : sendBatch info batch rounds = .ok R) {r c : Nat} {rd : Round}
    (hrd : rounds[r]? = some rd) (hnr : isRetry (rd.ans c) = false) :
    ∀ r', r < r' → ¬ Sent R.events r' c := by
  intro r' hlt
  obtain ⟨k, rfl⟩ : ∃ k, r' = r + 1 + k := ⟨r' - (r + 1), by omega⟩
  clear hlt
  induction k with
  | zero =>
    intro hs
    obtain ⟨_, rd', hrd', hretry⟩ := only_retryable_resent h hs
    rw [hrd] at hrd'; cases hrd'
    rw [hnr] at hretry; cases hretry
  | succ k ih =>
    intro hs
    exact ih (only_retryable_resent h (r := r + 1 + k) hs).1

/-- **A call whose success has been received is never executed a second time.** -/
theorem success_never_resent {info : Info} {batch : List Nat} {rounds : List Round} {R : Result}
    (h : sendBatch info batch rounds = .ok R) {r c m : Nat} {rd : Round}
    (hrd : rounds[r]? = some rd) (hm : rd.ans c = .ok m) :
    ∀ r', r < r' → ¬ Sent R.events r' c :=
  ended_never_resent h hrd (by rw [hm]; rfl)

/-- Nothing but calls of the batch is ever sent, and in a round a call is handed to one client only. -/
theorem sent_in_batch {info : Info} {batch : List Nat} {rounds : List Round} {R : Result}
    (h : sendBatch info batch rounds = .ok R) {r c : Nat} (hs : Sent R.events r c) : c ∈ batch := by
  by_cases hne : batch = []
  · subst hne
    simp only [sendBatch, Outcome.ok.injEq] at h
    subst h; exact absurd hs sent_nil
  · by_cases hv : ValidBatch info batch
    · have h' := h
      rw [sendBatch_valid hne hv] at h'
      obtain ⟨new, hev, _, h2, _, _, _⟩ := loop_events h' (fun c hc => hc) (st0_length info batch)
      have hev' : R.events = new := by simpa [st0] using hev
      induction r with
      | zero => rw [hev'] at hs; exact h2 c hs
      | succ r ih => exact ih (only_retryable_resent h hs).1
    · rw [sendBatch_invalid hne hv, Outcome.ok.injEq] at h
      subst h; exact absurd hs sent_nil

/-! ### what a region server is shown: `multi.add` + `multi.toProto` -/

/-- **Calls for the same region are presented to the server in batch order.** Whatever else is in
the multi (`pre`, `post`: slices queued by other callers before and after), whatever order Go
iterates the per-region map in (`ord`), and whichever calls were dropped because their own context
ended (`alive`): there is one RegionAction per region, and the actions of a region that come from
one `QueueBatch`ed slice are exactly the live calls of that region in the slice, contiguous and in
slice order; every live call of the slice is shown, under its own region. -/
theorem per_region_order (region : Nat → Nat) (alive : Nat → Bool) (ord pre slice post : List Nat) :
    let proto := Multi.toProto region alive ord (Multi.add (Multi.add pre slice) post)
    (proto.map (·.1)).Nodup ∧
    (∀ ra ∈ proto, ra.2 = Multi.actionsOf region alive pre ra.1 ++
        slice.filter (fun c => alive c && region c == ra.1) ++ Multi.actionsOf region alive post ra.1) ∧
    (∀ r, (slice.filter (fun c => alive c && region c == r)).Sublist slice) ∧
    (∀ c ∈ slice, alive c = true → ∃ ra ∈ proto, ra.1 = region c ∧ c ∈ ra.2) := by
  intro proto
  refine ⟨?_, ?_, fun r => List.filter_sublist, ?_⟩
  · simp only [proto, Multi.toProto, List.map_map]
    have : ((fun ra : Nat × List Nat => ra.1) ∘ fun r =>
        (r, Multi.actionsOf region alive (Multi.add (Multi.add pre slice) post) r)) = id := by
      funext r; rfl
    rw [this, List.map_id]
    exact nodup_arrange (nodup_dedup _)
  · intro ra hra
    simp only [proto, Multi.toProto, List.mem_map] at hra
    obtain ⟨r, _, rfl⟩ := hra
    simp [Multi.actionsOf, Multi.add, List.filter_append]
  · intro c hc hal
    refine ⟨(region c, Multi.actionsOf region alive (Multi.add (Multi.add pre slice) post) (region c)), ?_, rfl, ?_⟩
    · simp only [proto, Multi.toProto, List.mem_map]
      refine ⟨region c, ?_, rfl⟩
      rw [mem_arrange, Multi.regionsOf, mem_dedup]
      refine List.mem_map.mpr ⟨c, List.mem_filter.mpr ⟨?_, hal⟩, rfl⟩
      simp [Multi.add, hc]
    · simp [Multi.actionsOf, Multi.add, List.mem_filter, hc, hal]

/-- … and for the first round of a batch: the actions of a region that come from one of the
batch's `QueueBatch` calls are a sublist of the batch — batch order. -/
theorem per_region_order_batch {info : Info} {batch : List Nat} {rd : Round} {rest : List Round} {R : Result}
    (hne : batch ≠ []) (hv : ValidBatch info batch) (hloc : ∀ c ∈ batch, locOk rd c = true)
    (h : sendBatch info batch (rd :: rest) = .ok R) (region : Nat → Nat) (alive : Nat → Bool) (r : Nat) :
    ∀ g ∈ queuedAt R.events 0, (g.2.filter (fun c => alive c && region c == r)).Sublist batch := by
  intro g hg
  rw [(round0_partition hne hv hloc h).1] at hg
  exact List.filter_sublist.trans (groups_sublist hg)

/-- **… also in retry rounds**: two calls of the batch that region location sends to the same
region client in every round (calls of one region, as long as it is one region) are handed over
in batch order in every `QueueBatch` that contains both. -/
theorem same_region_order {info : Info} {batch : List Nat} {rounds : List Round} {R : Result}
    (hv : ValidBatch info batch) (h : sendBatch info batch rounds = .ok R)
    {i j : Nat} (hij : i < j) (hj : j < batch.length)
    (hsame : ∀ rd ∈ rounds, clientOf rd (batch[i]'(by omega)) = clientOf rd batch[j]) :
    ∀ r k cs, Event.queue r k cs ∈ R.events → batch[i]'(by omega) ∈ cs → batch[j] ∈ cs →
      [batch[i]'(by omega), batch[j]].Sublist cs := by
  have hne : batch ≠ [] := by intro h0; subst h0; cases hj
  rw [sendBatch_valid hne hv] at h
  obtain ⟨new, hev, hnew⟩ := loop_order h (c := batch[i]'(by omega)) (d := batch[j])
    (fun _ _ => pair_sublist_of_lt hij hj) hsame
  have hev' : R.events = new := by simpa [st0] using hev
  intro r k cs hm
  rw [hev'] at hm
  exact hnew r k cs hm

/-! ### Non-vacuity -/

def exInfo2 : Info := ⟨fun c => if c = 3 then 1 else 0, fun c => c ≠ 4⟩

/-- mixed tables at position 1, repeated call at position 2, non-batchable call at position 3 -/
example : sendBatch exInfo2 [0, 3, 0, 4] []
    = .ok ⟨[⟨none, some .notExecuted⟩, ⟨none, some .tables⟩, ⟨none, some (.dup 0)⟩, ⟨none, some .nonBatchable⟩],
           false, [], false⟩ := by decide

example : ¬ ValidBatch exInfo2 [0, 3, 0, 4] := by
  intro h; have := h.1; simp at this

/-- three calls on two clients, map iterated in the order client 1, client 0; call 1 gets
NotServingRegion and is sent again (alone) in round 1, calls 0 and 2 are not -/
def exR0 : Round := ⟨fun c => .ok (c % 2), fun c => if c = 1 then .fail .nsre 5 else .ok (10 + c), [1, 0], .none, fun _ => false⟩
def exR1 : Round := ⟨fun _ => .ok 0, fun _ => .ok 21, [], .none, fun _ => false⟩

example : sendBatch exInfo2 [0, 1, 2] [exR0, exR1]
    = .ok ⟨[⟨some 10, none⟩, ⟨some 21, none⟩, ⟨some 12, none⟩], true,
           [.queue 0 1 [1], .queue 0 0 [0, 2], .queue 1 0 [1]], false⟩ := by decide

example : Multi.toProto (fun c => c % 2) (fun c => c ≠ 4) [1, 0] (Multi.add (Multi.add [9] [0, 1, 2, 4, 3]) [6])
    = [(1, [9, 1, 3]), (0, [0, 2, 6])] := by decide

end GV.Batch
