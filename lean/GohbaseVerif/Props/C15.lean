import GohbaseVerif.Lemmas.Compress
/-!
# C15 — Cellblock compression round-trips and follows Hadoop block framing

`compressCellblocks` / `decompressCellblocks` are the models of `region/compressor.go`
(`Model/Compress.lean`); `Spec.*` is the Hadoop block-compressed stream format written from its
description with an independent reference decoder.  The codec is a parameter; its contract is a
hypothesis (`Codec.Roundtrip` = `snappy.Decode(snappy.Encode s) = s`), never an axiom.

Hypotheses used throughout: `c.Roundtrip`, `0 < c.chunkLen`, payload shorter than 2^32, and
`hfit`: the codec's output for one chunk fits the 4-byte chunk-length field (snappy: at most
`32 + n + n/6` bytes for `n ≤ 218 421`).  `hfit` is necessary: the Go code stores
`uint32(len(chunk))`.
-/
namespace GV.Compress
open GV

/-! ## compressor → decompressor -/

/-- What the client compresses, the client decompresses to the identical bytes — for any split of
the payload into buffers (empty buffers included) and any size relative to the chunk size,
0 bytes included. -/
theorem roundtrip (c : Codec) (hrt : c.Roundtrip) (hc : 0 < c.chunkLen)
    (hfit : ∀ p : Bytes, p.length ≤ c.chunkLen → (c.encode p).length < U32)
    (bufs : List Bytes) (htot : (bufs.map List.length).sum < U32) :
    decompressCellblocks c (compressCellblocks c bufs (bufs.map List.length).sum) = .ok bufs.flatten := by
  rw [← List.length_flatten] at htot ⊢
  rw [compress_eq_encode c hc]
  unfold decompressCellblocks
  have hws : Spec.WellSized c [Spec.chunksOf (min bufs.flatten.length c.chunkLen) bufs.flatten] := by
    intro ps hps
    simp only [List.mem_singleton] at hps
    subst hps
    by_cases hk : min bufs.flatten.length c.chunkLen = 0
    · rw [hk, Spec.chunksOf_zero]; simp
    · rw [Spec.chunksOf_flatten hk]
      refine ⟨htot, fun p hp => ?_⟩
      have := (Spec.chunksOf_shape hk bufs.flatten).1 p hp
      exact ⟨this.1, hfit p (by omega)⟩
  have := blockLoop_encode c hrt _ hws [] []
  rw [List.append_nil] at this
  rw [this, blockLoop_nil]
  by_cases hk : min bufs.flatten.length c.chunkLen = 0
  · have h0 : bufs.flatten = [] := List.length_eq_zero_iff.mp (by omega)
    rw [hk, Spec.chunksOf_zero, h0]; rfl
  · simp only [Spec.rawData, List.map_cons, List.map_nil, List.flatten_cons, List.flatten_nil,
      List.append_nil, List.nil_append]
    rw [Spec.chunksOf_flatten hk]

/-- The compressor's output is a conforming Hadoop stream: exactly one block, declared length =
payload length, whose chunks are the payload cut into pieces of `chunkLen` bytes except the last
(no chunk at all for an empty payload). -/
theorem compress_is_hadoop (c : Codec) (hc : 0 < c.chunkLen)
    (hfit : ∀ p : Bytes, p.length ≤ c.chunkLen → (c.encode p).length < U32)
    (bufs : List Bytes) (htot : (bufs.map List.length).sum < U32) :
    Spec.hadoopStream c (compressCellblocks c bufs (bufs.map List.length).sum) ∧
    ∃ pieces : Spec.Pieces,
      compressCellblocks c bufs (bufs.map List.length).sum = Spec.encode c [pieces] ∧
      pieces.flatten = bufs.flatten ∧
      (bufs.flatten = [] → pieces = []) ∧
      (bufs.flatten ≠ [] → ∃ init last, pieces = init ++ [last] ∧
        (∀ p ∈ init, p.length = c.chunkLen) ∧ 0 < last.length ∧ last.length ≤ c.chunkLen) := by
  rw [← List.length_flatten] at htot ⊢
  rw [compress_eq_encode c hc]
  by_cases hk : min bufs.flatten.length c.chunkLen = 0
  · have h0 : bufs.flatten = [] := List.length_eq_zero_iff.mp (by omega)
    rw [hk, Spec.chunksOf_zero]
    refine ⟨⟨[[]], ?_, ?_, rfl⟩, [], rfl, by simp [h0], fun _ => rfl, fun h => absurd h0 h⟩
    · intro ps hps; simp only [List.mem_singleton] at hps; subst hps; simp
    · intro ps hps; simp only [List.mem_singleton] at hps; subst hps; simp
  · obtain ⟨sh1, sh2⟩ := Spec.chunksOf_shape hk bufs.flatten
    have hfl := Spec.chunksOf_flatten hk bufs.flatten
    refine ⟨⟨[_], ?_, ?_, rfl⟩, _, rfl, hfl, ?_, ?_⟩
    · intro ps hps
      simp only [List.mem_singleton] at hps; subst hps
      rw [hfl]
      exact ⟨htot, fun p hp => ⟨(sh1 p hp).1, hfit p (by have := (sh1 p hp).2; omega)⟩⟩
    · intro ps hps p hp
      simp only [List.mem_singleton] at hps; subst hps
      have := (sh1 p hp).2; omega
    · intro h0; rw [h0, Spec.chunksOf_nil]
    · intro hne
      obtain ⟨init, last, e, hi⟩ := sh2 hne
      have hlast := sh1 last (by rw [e]; simp)
      refine ⟨init, last, e, ?_, List.length_pos_iff.mpr hlast.1, by have := hlast.2; omega⟩
      intro p hp
      rw [hi p hp]
      -- a full piece followed by a non-empty last piece: the payload is longer than one piece
      have h1 : p.length ≤ init.flatten.length := mem_length_le_flatten hp
      have h2 : (init ++ [last]).flatten.length = bufs.flatten.length := by rw [← e, hfl]
      simp only [List.flatten_append, List.length_append, List.flatten_cons, List.flatten_nil,
        List.append_nil] at h2
      have h3 := hi p hp
      have h4 := List.length_pos_iff.mpr hlast.1
      omega

/-! ## conforming server → client -/

/-- What a conforming server compresses the client decompresses identically: for all lists of
blocks and all chunkings of them (non-empty chunks, length fields that fit). -/
theorem decompress_conforming (c : Codec) (hrt : c.Roundtrip) (blocks : List Bytes)
    (chunking : List Spec.Pieces) (hch : chunking.map List.flatten = blocks)
    (hws : Spec.WellSized c chunking) :
    decompressCellblocks c (Spec.encode c chunking) = .ok blocks.flatten := by
  unfold decompressCellblocks
  have := blockLoop_encode c hrt chunking hws [] []
  rw [List.append_nil] at this
  rw [this, blockLoop_nil, ← hch]
  simp [Spec.rawData]

/-- The reference decoder reads the same streams (the specification is not vacuous) … -/
theorem spec_decodes_conforming (c : Codec) (hrt : c.Roundtrip) (chunking : List Spec.Pieces)
    (hws : Spec.WellSized c chunking) :
    Spec.decodeStream c (Spec.encode c chunking) = some (Spec.rawData chunking) := by
  unfold Spec.decodeStream
  rw [Spec.parseStream_encode c hrt chunking hws]
  simp [Spec.rawData, List.map_map, Function.comp_def]

/-- … and accepts only streams whose declared block lengths are exact. -/
theorem spec_lengths_exact (c : Codec) (s : Bytes) (bs : List Spec.PBlock)
    (h : Spec.parseStream c s = some bs) : ∀ pb ∈ bs, pb.pieces.flatten.length = pb.rawLen :=
  Spec.parseStream_sum c s h

/-
Full statement (client decoder = reference decoder on *all* inputs):
  `∀ c s, outOpt (decompressCellblocks c s) = Spec.decodeStream c s`.
It is false of the code in general: `uncompressedSoFar += uncompressedChunkLen` is `uint32`
arithmetic, so a block whose chunks decode to 2^32 bytes or more in total can wrap around, miss
the `>` check and be accepted with a declared length that differs from the data produced, while
the reference decoder (which counts in ℕ) rejects it.  Proved here for every stream on which no
wrap is possible: the codec expands a chunk at most `R`-fold and `R · |s| < 2^32`
(raw snappy: `R = 22`, i.e. streams below 195 MB).  Excluded: exactly the streams with
`R · |s| ≥ 2^32`.
-/
theorem decompress_eq_spec_partial (c : Codec) (R : Nat) (hexp : c.ExpandsAtMost R) (s : Bytes)
    (hs : R * s.length < U32) :
    outOpt (decompressCellblocks c s) = Spec.decodeStream c s := by
  unfold decompressCellblocks Spec.decodeStream
  have := blockLoop_vs_spec c R hexp s [] hs
  cases hp : Spec.parseStream c s with
  | none =>
    rw [hp] at this
    obtain ⟨e, he⟩ := this
    rw [he]; rfl
  | some bs =>
    rw [hp] at this
    simp only at this
    rw [this]; simp [outOpt]

/-! ## truncation -/

/-- Every proper non-empty prefix of a one-block stream yields an error (for any raw length; the
statement in the property asks for `rawLen > 0` only because a 0-byte prefix is excluded). -/
theorem truncation_errors (c : Codec) (hrt : c.Roundtrip) (pieces : Spec.Pieces)
    (hws : Spec.WellSized c [pieces]) (p : Bytes)
    (hpre : p <+: Spec.encode c [pieces]) (hne : p ≠ []) (hproper : p ≠ Spec.encode c [pieces]) :
    ∃ e, decompressCellblocks c p = .err e := by
  have hw := hws pieces (by simp)
  have henc : Spec.encode c [pieces] = Spec.encBlock c pieces := by simp [Spec.encode]
  rw [henc] at hpre hproper
  have hp : p = (Spec.encBlock c pieces).take p.length := List.prefix_iff_eq_take.mp hpre
  have hle : p.length ≤ (Spec.encBlock c pieces).length := hpre.length_le
  have hlt : p.length < (Spec.encBlock c pieces).length := by
    rcases Nat.lt_or_ge p.length (Spec.encBlock c pieces).length with h | h
    · exact h
    · exfalso; apply hproper
      rw [hp, List.take_of_length_le h]
  rw [hp]
  exact blockLoop_truncated_block c hrt pieces hw.1 hw.2 p.length (List.length_pos_iff.mpr hne) hlt []

/-- The same inside a multi-block stream: a cut anywhere *inside* a block (after at least one of
its bytes, before its last) is an error, whatever precedes the block. -/
theorem truncation_errors_multi (c : Codec) (hrt : c.Roundtrip) (before : List Spec.Pieces)
    (pieces : Spec.Pieces) (hws : Spec.WellSized c (before ++ [pieces])) (m : Nat) (h0 : 0 < m)
    (hm : m < (Spec.encBlock c pieces).length) :
    ∃ e, decompressCellblocks c (Spec.encode c before ++ (Spec.encBlock c pieces).take m) = .err e := by
  unfold decompressCellblocks
  rw [blockLoop_encode c hrt before (fun ps h => hws ps (by simp [h]))]
  have hw := hws pieces (by simp)
  exact blockLoop_truncated_block c hrt pieces hw.1 hw.2 m h0 hm _

/-- The 0-byte prefix yields empty output without error (unreachable from `receive`, which only
decompresses when the response header declares a non-zero cellblock length). -/
theorem truncation_to_nothing_is_ok (c : Codec) : decompressCellblocks c [] = .ok [] :=
  blockLoop_nil c []

/-- The limit of what framing can detect: a stream cut exactly at a block boundary is itself a
conforming stream and decodes, without error, to the data of the blocks before the cut. -/
theorem truncation_at_block_boundary_undetected (c : Codec) (hrt : c.Roundtrip)
    (kept lost : List Spec.Pieces) (hws : Spec.WellSized c (kept ++ lost)) :
    Spec.encode c kept <+: Spec.encode c (kept ++ lost) ∧
    decompressCellblocks c (Spec.encode c kept) = .ok (Spec.rawData kept) := by
  constructor
  · simp [Spec.encode]
  · unfold decompressCellblocks
    have := blockLoop_encode c hrt kept (fun ps h => hws ps (by simp [h])) [] []
    rw [List.append_nil] at this
    rw [this, blockLoop_nil]; simp

/-! ## what the framing detects, and what it cannot -/

/-- If the client returns data, the stream is a sequence of framed blocks whose chunks all decode,
the data is their concatenation, and every declared block length agrees with the bytes produced
for that block (modulo 2^32 — the `uint32` accumulator; exactly, when the output is shorter than
2^32 bytes: second theorem). -/
theorem length_field_consistency (c : Codec) (s d : Bytes) (h : decompressCellblocks c s = .ok d) :
    ∃ blocks : List Spec.FBlock,
      s = Spec.frameStream blocks ∧ (∀ b ∈ blocks, b.Valid c) ∧
      d = (blocks.map Spec.FBlock.data).flatten ∧
      ∀ b ∈ blocks, b.data.length % U32 = b.rawLen := by
  obtain ⟨fbs, h1, h2, h3, h4⟩ := blockLoop_ok_inv c s [] d h
  exact ⟨fbs, h1, h2, by simpa using h3, h4⟩

theorem length_field_consistency_exact (c : Codec) (s d : Bytes)
    (h : decompressCellblocks c s = .ok d) (hd : d.length < U32) :
    ∃ blocks : List Spec.FBlock,
      s = Spec.frameStream blocks ∧ (∀ b ∈ blocks, b.Valid c) ∧
      d = (blocks.map Spec.FBlock.data).flatten ∧
      (∀ b ∈ blocks, b.data.length = b.rawLen) ∧
      d.length = (blocks.map (·.rawLen)).sum := by
  obtain ⟨fbs, h1, h2, h3, h4⟩ := length_field_consistency c s d h
  have hex : ∀ b ∈ fbs, b.data.length = b.rawLen := by
    intro b hb
    have h5 := h4 b hb
    have : b.data.length ≤ d.length := by
      rw [h3]; exact mem_length_le_flatten (List.mem_map_of_mem hb)
    rw [Nat.mod_eq_of_lt (by omega)] at h5
    exact h5
  refine ⟨fbs, h1, h2, h3, hex, ?_⟩
  rw [h3, List.length_flatten, List.map_map]
  congr 1
  apply List.map_congr_left
  intro b hb
  exact hex b hb

/-- NEGATIVE (inherent to the format): a codec without an integrity check cannot make payload
corruption detectable.  Whenever one byte of a chunk's compressed bytes can be changed into the
compressed bytes of different data of the same length, the corrupted stream is a conforming
stream and the client returns the different data with no error. -/
theorem payload_corruption_undetectable_any (c : Codec) (hrt : c.Roundtrip) (hc : 0 < c.chunkLen)
    (p q : Bytes) (j : Nat) (v : UInt8) (hp : p ≠ []) (hpc : p.length ≤ c.chunkLen)
    (hpl : p.length < U32) (hfit : (c.encode p).length < U32) (hql : q.length = p.length)
    (hq : c.encode q = (c.encode p).set j v) :
    (compressCellblocks c [p] p.length).set (8 + j) v = Spec.encode c [[q]] ∧
    decompressCellblocks c ((compressCellblocks c [p] p.length).set (8 + j) v) = .ok q := by
  have hk : min p.length c.chunkLen = p.length := by omega
  have hpos : 0 < p.length := List.length_pos_iff.mpr hp
  have hcomp : compressCellblocks c [p] p.length = Spec.encode c [[p]] := by
    have := compress_eq_encode c hc [p]
    simp only [List.flatten_cons, List.flatten_nil, List.append_nil] at this
    rw [this, hk, Spec.chunksOf_cons (by omega) hp]
    simp [Spec.chunksOf_nil]
  have hset : (Spec.encode c [[p]]).set (8 + j) v = Spec.encode c [[q]] := by
    simp only [Spec.encode, Spec.encBlock, Spec.encChunk, List.map_cons, List.map_nil,
      List.flatten_cons, List.flatten_nil, List.append_nil, hq, hql, List.length_set]
    rw [List.set_append]
    have h1 : ¬ 8 + j < (toBE 4 p.length).length := by simp only [length_toBE]; omega
    rw [if_neg h1, List.set_append]
    have h2 : ¬ 8 + j - (toBE 4 p.length).length < (toBE 4 (c.encode p).length).length := by
      simp only [length_toBE]; omega
    rw [if_neg h2]
    congr 3
    simp only [length_toBE]; omega
  constructor
  · rw [hcomp, hset]
  · rw [hcomp, hset]
    have hws : Spec.WellSized c [[q]] := by
      intro ps hps; simp only [List.mem_singleton] at hps; subst hps
      refine ⟨by simp; omega, fun x hx => ?_⟩
      simp only [List.mem_singleton] at hx; subst hx
      refine ⟨fun e => by rw [e] at hql; simp at hql; omega, ?_⟩
      rw [hq, List.length_set]; exact hfit
    have := decompress_conforming c hrt [q] [[q]] (by simp) hws
    simpa using this

/-- The concrete witness: identity-like codec (the tests' mock), payload `01`, stream
`00000001 00000001 01`; changing the last byte to `02` gives `ok 02` — different data, no error. -/
theorem payload_corruption_undetectable :
    ∃ (c : Codec) (payload : Bytes) (i : Nat) (v : UInt8) (d : Bytes),
      c.Roundtrip ∧ i < (compressCellblocks c [payload] payload.length).length ∧
      (compressCellblocks c [payload] payload.length).set i v ≠ compressCellblocks c [payload] payload.length ∧
      decompressCellblocks c ((compressCellblocks c [payload] payload.length).set i v) = .ok d ∧
      d ≠ payload := by
  have hrt : (idCodec 4).Roundtrip := fun _ => rfl
  have key := payload_corruption_undetectable_any (idCodec 4) hrt (by decide) [1] [2] 0 2
    (by decide) (by decide) (by decide) (by decide) rfl rfl
  have hcomp : compressCellblocks (idCodec 4) [[1]] 1 = [0, 0, 0, 1, 0, 0, 0, 1, 1] := by
    have := compress_eq_encode (idCodec 4) (by decide) [[1]]
    simp only [List.flatten_cons, List.flatten_nil, List.append_nil, List.length_cons,
      List.length_nil] at this
    rw [this]
    rw [Spec.chunksOf_cons (by decide) (by decide)]
    simp [Spec.chunksOf_nil, Spec.encode, Spec.encBlock, Spec.encChunk, idCodec, toBE]
  refine ⟨idCodec 4, [1], 8, 2, [2], hrt, ?_, ?_, key.2, by decide⟩
  · simp only [List.length_cons, List.length_nil]; rw [hcomp]; decide
  · simp only [List.length_cons, List.length_nil]; rw [hcomp]; decide


/-- NEGATIVE witness for the full-strength `decompress_eq_spec` (and for an unconditional, exact
`length_field_consistency`): the `uint32` accumulator wraps.  A block that declares 1 byte and
whose single chunk decodes to `N ≡ 1 (mod 2^32)`, `N > 1` bytes (e.g. 2^32 + 1) is accepted by
the client — `N` bytes returned, no error — and rejected by the reference decoder. -/
theorem uint32_wrap_accepts_inconsistent_block (N : Nat) (hN : N % U32 = 1) (h1 : 1 < N) :
    let c : Codec := ⟨id, fun _ => some (List.replicate N 0), 4⟩
    decompressCellblocks c [0, 0, 0, 1, 0, 0, 0, 0] = .ok (List.replicate N 0) ∧
    Spec.decodeStream c [0, 0, 0, 1, 0, 0, 0, 0] = none := by
  intro c
  constructor
  · unfold decompressCellblocks
    rw [blockLoop_step, readUint32_of_le (by decide)]
    have e1 : beNat (List.take 4 ([0, 0, 0, 1, 0, 0, 0, 0] : Bytes)) = 1 := by decide
    have e2 : List.drop 4 ([0, 0, 0, 1, 0, 0, 0, 0] : Bytes) = [0, 0, 0, 0] := by decide
    simp only [e1, e2]
    rw [chunkLoop_step, readUint32_of_le (by decide)]
    have e3 : beNat (List.take 4 ([0, 0, 0, 0] : Bytes)) = 0 := by decide
    have e4 : List.drop 4 ([0, 0, 0, 0] : Bytes) = [] := by decide
    simp only [e3, e4]
    rw [readN_of_le (by decide)]
    have e5 : c.decode (List.take 0 ([] : Bytes)) = some (List.replicate N 0) := rfl
    simp only [e5, List.length_replicate, hN, List.drop_nil]
    rw [chunkLoop_step]
    simp only [List.length_cons, List.length_nil]
    have e6 : (0 + 1) % U32 = 1 := by decide
    simp only [e6, Nat.lt_irrefl, if_false, if_true, Nat.zero_lt_one, gt_iff_lt]
    rw [blockLoop_nil]
    simp
  · unfold Spec.decodeStream
    rw [Spec.parseStream_step, Spec.be32?_of_le (by decide)]
    have e1 : beNat (List.take 4 ([0, 0, 0, 1, 0, 0, 0, 0] : Bytes)) = 1 := by decide
    have e2 : List.drop 4 ([0, 0, 0, 1, 0, 0, 0, 0] : Bytes) = [0, 0, 0, 0] := by decide
    simp only [e1, e2]
    rw [Spec.parseChunks_step, Spec.be32?_of_le (by decide)]
    have e3 : beNat (List.take 4 ([0, 0, 0, 0] : Bytes)) = 0 := by decide
    have e4 : List.drop 4 ([0, 0, 0, 0] : Bytes) = [] := by decide
    have e5 : c.decode (List.take 0 ([] : Bytes)) = some (List.replicate N 0) := rfl
    simp only [e3, e4, e5, List.length_replicate, h1]
    simp

example : ∃ N, N % U32 = 1 ∧ 1 < N := ⟨4294967297, by decide, by decide⟩


/-! ## regenerated constant and non-vacuity -/

/-- The snappy chunk size the working tree uses (regenerated on every run). -/
theorem snappy_chunk_len : Gen.Wire.snappyChunkLen = 218421 := by decide

/-- With that chunk size and snappy's documented worst case (`32 + n + n/6`), `hfit` holds. -/
theorem snappy_fits (enc : Bytes → Bytes) (hmax : ∀ p : Bytes, (enc p).length ≤ 32 + p.length + p.length / 6) :
    ∀ p : Bytes, p.length ≤ Gen.Wire.snappyChunkLen → (enc p).length < U32 := by
  intro p hp
  have := hmax p
  rw [snappy_chunk_len] at hp
  simp only [U32]; omega

/-- The hypotheses are satisfiable: the identity-like mock codec meets all of them … -/
example : (idCodec 4).Roundtrip ∧ 0 < (idCodec 4).chunkLen ∧
    ∀ p : Bytes, p.length ≤ (idCodec 4).chunkLen → ((idCodec 4).encode p).length < U32 :=
  ⟨fun _ => rfl, by decide, fun p hp => by
    have : (idCodec 4).chunkLen = 4 := rfl
    have h2 : (idCodec 4).encode p = p := rfl
    rw [h2]; simp only [U32]; omega⟩

/-- … and so does a codec that really changes the bytes (every byte incremented) and expands. -/
def incCodec : Codec :=
  ⟨fun s => 0 :: s.map (· + 1), fun x => match x with | [] => none | _ :: t => some (t.map (· - 1)), 3⟩

example : incCodec.Roundtrip := by
  intro s
  simp only [incCodec, List.map_map]
  congr 1
  have : ((fun x : UInt8 => x - 1) ∘ fun x => x + 1) = id := by
    funext x; simp
  rw [this, List.map_id]

/-- A payload of 7 bytes in 4 buffers (two of them empty) with chunk size 3: three chunks. -/
example : decompressCellblocks incCodec
    (compressCellblocks incCodec [[1, 2], [], [3, 4, 5, 6], [], [7]] 7) = .ok [1, 2, 3, 4, 5, 6, 7] := by
  have hrt : incCodec.Roundtrip := by
    intro s
    simp only [incCodec, List.map_map]
    congr 1
    have : ((fun x : UInt8 => x - 1) ∘ fun x => x + 1) = id := by funext x; simp
    rw [this, List.map_id]
  have := roundtrip incCodec hrt (by decide)
    (fun p hp => by
      have : (incCodec.encode p).length = p.length + 1 := by simp [incCodec]
      have h3 : incCodec.chunkLen = 3 := rfl
      rw [this]; simp only [U32]; omega)
    [[1, 2], [], [3, 4, 5, 6], [], [7]] (by decide)
  simpa using this

/-- Snappy's expansion bound is a satisfiable hypothesis shape (`idCodec`: `R = 1`). -/
example : (idCodec 4).ExpandsAtMost 1 := by
  intro x d h
  have : d = x := by simp [idCodec] at h; exact h.symm
  subst this; omega

end GV.Compress
