import GohbaseVerif.Lemmas.Conn
import GohbaseVerif.Gen.Exits
/-!
# C03 — a failing region connection completes every request exactly once

Model: `Model/Conn.lean` (one region connection as a transition system over observable events).
All theorems quantify over every reachable state, i.e. over every action sequence: every position
of the failure, every initiator (`write`/`arm` error of the writer or of a direct sender, `read`
error / bad header / unexpected id / server-side `connErr` exception seen by the reader — in a
response header or inside a decoded multi-response (`Frame.fatal`) —, `clear` error, external
`close`, `timeout`) and every interleaving.
-/
namespace GV.Conn

/-- Every call handed to the connection is in exactly one place (waiting in `offered`, inside a
registered item, in the reader's hand, delivered, dropped); a call never handed is nowhere. -/
theorem single_owner {q : Nat} {s : St} (h : Reachable q s) :
    (∀ c ∈ s.handed, places s c = 1) ∧ (∀ c, c ∉ s.handed → places s c = 0) := by
  have g := (gr_reachable h).go
  constructor
  · intro c hc
    have := g.cnt c
    rw [g.handedNodup.count, if_pos hc] at this
    rw [places_eq]; exact this
  · intro c hc
    have := g.cnt c
    rw [count_not_mem hc] at this
    rw [places_eq]; exact this

example : ∃ s, run (init 2) [.queueDirect 1, .queueBatched 2, .queueBatched 3, .write (.direct 1) true .ok,
      .read 1 .result, .cancel 3, .queueUnsendable 5] = some s ∧
    s.handed = [1, 2, 3, 5] ∧ deliveredCount s 5 = 1 ∧ places s 5 = 1 ∧ s.dropped = [3] ∧ outstanding s = [2] ∧ s.reader.calls = [1] ∧
    places s 1 = 1 ∧ places s 2 = 1 ∧ places s 3 = 1 ∧ places s 4 = 0 := by
  refine ⟨_, rfl, ?_⟩
  decide

/-- No call is ever completed twice. -/
theorem at_most_once {q : Nat} {s : St} (h : Reachable q s) : ∀ c, deliveredCount s c ≤ 1 := by
  intro c
  have hle : deliveredCount s c ≤ places s c := by
    simp only [places]; omega
  by_cases hc : c ∈ s.handed
  · have := (single_owner h).1 c hc; omega
  · have := (single_owner h).2 c hc; omega

/-- several failure initiators (external close, then the write errors of the direct sender and of
the writer, which both call `fail` and then look for their item): still one result per call -/
example : ∃ s, run (init 2) [.queueDirect 1, .queueBatched 2, .close, .write (.direct 1) true .err,
      .write .writer true .err, .close] = some s ∧
    s.done = true ∧ deliveredCount s 1 = 1 ∧ deliveredCount s 2 = 1 := by
  refine ⟨_, rfl, ?_⟩
  decide

/-- Once the connection has failed and every goroutine has come to rest, every call ever handed
to it has been completed exactly once, unless it was given up because its own context had ended. -/
theorem no_stranding {q : Nat} {s : St} (h : Reachable q s) (hd : s.done = true)
    (hq : quiescent s = true) : ∀ c ∈ s.handed, deliveredCount s c = 1 ∨ c ∈ s.dropped := by
  intro c hc
  have h1 := (single_owner h).1 c hc
  obtain ⟨hsn, ho, hrd⟩ := quiescent_iff hq
  -- a registered item would belong to a send still in progress, and there is none
  have hs : s.sent = [] := by
    apply List.eq_nil_iff_forall_not_mem.2
    intro p hp
    obtain ⟨x, hx, _⟩ := (good_reachable h).ds hd p hp
    rw [hsn] at hx; cases hx
  have hr : s.reader.calls = [] := by
    rcases hrd with e | e <;> rw [e] <;> rfl
  simp only [places, outstanding, hs, ho, hr, List.flatMap_nil, List.count_nil] at h1
  by_cases hdc : deliveredCount s c = 1
  · exact Or.inl hdc
  · right
    have : 0 < s.dropped.count c := by
      have := at_most_once h c; omega
    exact List.count_pos_iff.1 this

example : ∃ s, run (init 2) [.queueDirect 1, .queueBatched 2, .queueBatched 3, .cancel 3, .cancel 4,
      .queueDirect 4, .write (.direct 1) true .ok, .arm (.direct 1) .ok, .timeout,
      .write .writer true .err] = some s ∧
    s.done = true ∧ quiescent s = true ∧ s.handed = [1, 2, 3, 4] ∧
    deliveredCount s 1 = 1 ∧ deliveredCount s 2 = 1 ∧ deliveredCount s 3 = 0 ∧ s.dropped = [3, 4] := by
  refine ⟨_, rfl, ?_⟩
  decide

/-- a call registered *after* the failure sweep (`queueDirectClosing 2`: `Close()` runs while the
request is being serialised) is completed by its own sender when its write fails — the only
possible outcome of a `Write` on the closed connection (`.write … .ok` is not enabled) -/
example : ∃ s, run (init 2) [.queueDirect 1, .queueDirectClosing 2, .write (.direct 1) true .err,
      .write (.direct 2) true .err] = some s ∧
    s.done = true ∧ quiescent s = true ∧ s.handed = [1, 2] ∧ s.sent = [] ∧
    deliveredCount s 1 = 1 ∧ deliveredCount s 2 = 1 ∧
    s.delivered = [⟨1, .connErr, none⟩, ⟨2, .connErr, none⟩] := by
  refine ⟨_, rfl, ?_⟩
  decide

example : ∃ s, run (init 2) [.queueDirect 1, .queueDirectClosing 2, .write (.direct 1) true .err] = some s ∧
    s.done = true ∧ s.sent = [(2, .single 2)] ∧ deliveredCount s 2 = 0 ∧
    step s (.write (.direct 2) true .ok) = none ∧ step s (.write (.direct 2) false .ok) = none := by
  refine ⟨_, rfl, ?_⟩
  decide

/-- A call is given up without a result only if its own context has ended. -/
theorem dropped_only_if_ctx_done {q : Nat} {s : St} (h : Reachable q s) :
    ∀ c ∈ s.dropped, c ∈ s.ctxDone := (gr_reachable h).go.droppedCtx

example : ∃ s, run (init 2) [.queueBatched 1, .queueBatched 2, .cancel 2, .cancel 3, .queueDirect 3] = some s ∧
    s.dropped = [2, 3] ∧ s.ctxDone = [2, 3] := by
  refine ⟨_, rfl, ?_⟩
  decide

/-- Every result produced locally (not derived from a response frame) is a connection-level
error — or the marshalling error of a call whose request could not be built (`unsendable`);
conversely every unsendable call has been completed with exactly that error. -/
theorem failure_delivers_connErr {q : Nat} {s : St} (h : Reachable q s) :
    (∀ d ∈ s.delivered, d.src = none →
      d.res = .connErr ∨ (d.res = .fatal ∧ d.call ∈ s.unsendable)) ∧
    (∀ c ∈ s.unsendable, Dlv.mk c .fatal none ∈ s.delivered ∧ deliveredCount s c = 1) := by
  have g := (gr_reachable h).go
  refine ⟨g.srcNone, fun c hc => ⟨g.unsFatal c hc, ?_⟩⟩
  have h1 := at_most_once h c
  have : 0 < deliveredCount s c := by
    simp only [deliveredCount]
    exact List.length_pos_of_mem (List.mem_filter.2 ⟨g.unsFatal c hc, by simp⟩)
  omega

example : ∃ s, run (init 2) [.queueDirect 1, .queueUnsendable 4, .queueBatched 2, .close, .queueDirect 3,
      .queueUnsendable 5] = some s ∧
    s.delivered = [⟨4, .fatal, none⟩, ⟨1, .connErr, none⟩, ⟨2, .connErr, none⟩, ⟨3, .connErr, none⟩,
      ⟨5, .connErr, none⟩] ∧ s.unsendable = [4] := by
  refine ⟨_, rfl, ?_⟩
  decide

/-- a poisoned batch: call 3 cannot be marshalled, so the whole multi `[3, 4]` formed while the
writer was busy is completed locally with the marshalling error (one id consumed, nothing sent) -/
example : ∃ s, run (init 2) [.queueBatched 2, .queueBatchedUnsendable 3, .queueBatched 4,
      .write .writer true .ok, .arm .writer .ok] = some s ∧
    s.delivered = [⟨3, .fatal, none⟩, ⟨4, .fatal, none⟩] ∧ s.unsendable = [3, 4] ∧
    s.sent = [(1, .multi [2])] ∧ s.nextId = 2 ∧ s.offered = [] ∧ s.sends = [] ∧
    places s 3 = 1 ∧ places s 4 = 1 := by
  refine ⟨_, rfl, ?_⟩
  decide

/-- After the failure, a call handed to the connection (through any of the five entry points) is
refused at once with a connection-level error, and nothing else changes. -/
theorem refused_after_done {s : St} {c : Nat} (hd : s.done = true) (hc : c ∉ s.handed)
    (hx : c ∉ s.ctxDone) :
    step s (.queueDirect c) =
        some { s with handed := s.handed ++ [c], delivered := s.delivered ++ [⟨c, .connErr, none⟩] } ∧
    step s (.queueBatched c) =
        some { s with handed := s.handed ++ [c], delivered := s.delivered ++ [⟨c, .connErr, none⟩] } ∧
    step s (.queueUnsendable c) =
        some { s with handed := s.handed ++ [c], delivered := s.delivered ++ [⟨c, .connErr, none⟩] } ∧
    step s (.queueDirectClosing c) =
        some { s with handed := s.handed ++ [c], delivered := s.delivered ++ [⟨c, .connErr, none⟩] } ∧
    step s (.queueBatchedUnsendable c) =
        some { s with handed := s.handed ++ [c], delivered := s.delivered ++ [⟨c, .connErr, none⟩] } := by
  simp [step, hd, hc, hx]

/-- (with the call's own context ended as well the Go `select` chooses at random between refusing
and dropping; the model excludes that input for every entry point) -/
theorem refused_excluded_when_ctx_ended {s : St} {c : Nat} (hd : s.done = true) (hc : c ∉ s.handed)
    (hx : c ∈ s.ctxDone) :
    step s (.queueDirect c) = none ∧ step s (.queueBatched c) = none ∧
    step s (.queueUnsendable c) = none ∧ step s (.queueDirectClosing c) = none ∧
    step s (.queueBatchedUnsendable c) = none := by
  simp [step, hd, hc, hx]

example : ∃ s, run (init 2) [.queueDirect 1, .readErr] = some s ∧ s.done = true ∧ 2 ∉ s.handed ∧
    2 ∉ s.ctxDone := by
  refine ⟨_, rfl, ?_⟩
  decide

/-- A multi-response that decodes, but in which the server says — for a whole region or for a
single action — that it is not in service (some call's result is `connErr`: `Frame.fatal`), is
dealt with like such an exception in a response header. When the reader can settle the in-flight
counter at once and other requests are still in flight, all of it happens within the `read` event:
every call of the multi gets what the response says about it (exactly one result each), then the
connection is failed — `done`, nothing left registered or queued, the reader gone — and every
*other* outstanding request (registered, or still waiting to be batched) is completed with a
connection-level error, exactly once. Otherwise the reader is parked with the frame in its hand
(waiting for `inFlightM` behind a sender that is arming the read deadline, or inside its own
clearing `SetReadDeadline`), nothing has been delivered yet, and
`server_exception_in_multi_not_forgotten` below says that it ends the same way. -/
theorem server_exception_in_multi_fails_connection {q : Nat} {s s' : St} {id : Nat} {cs : List Nat}
    {rs : List (Nat × Res)} (h : Reachable q s)
    (hl : lookupSent s id = some (.multi cs))
    (hf : rs.any (fun p => p.2 == .connErr) = true)
    (hs : step s (.read id (.perCall rs)) = some s') :
    (s'.done = false ∧ s'.reader.held = some (id, .multi cs, .perCall rs) ∧
      s'.delivered = s.delivered) ∨
    (s'.done = true ∧ s'.sent = [] ∧ s'.offered = [] ∧ s'.reader = .exited ∧
      s'.delivered =
        s.delivered ++ frameDlv id (.multi cs) (.perCall rs) ++ failDlv (eraseSent s id) ∧
      (∀ c ∈ cs, deliveredCount s' c = 1 ∧
        Dlv.mk c (((rs.find? (·.1 == c)).map (·.2)).getD .retryable) (some id) ∈ s'.delivered) ∧
      (∀ c, (c ∈ outstanding s ∧ c ∉ cs) ∨ c ∈ s.offered →
        deliveredCount s' c = 1 ∧ Dlv.mk c .connErr none ∈ s'.delivered)) := by
  have hfat : (Frame.perCall rs).fatal = true := hf
  have g := good_reachable h
  have hnd := (gr_reachable h).go.idsNodup
  have hone := at_most_once (reachable_step h hs)
  have key : (s'.done = false ∧ s'.reader.held = some (id, .multi cs, .perCall rs) ∧
        s'.delivered = s.delivered) ∨
      (s'.done = true ∧ s'.sent = [] ∧ s'.offered = [] ∧ s'.reader = .exited ∧
        s'.delivered =
          s.delivered ++ frameDlv id (.multi cs) (.perCall rs) ++ failDlv (eraseSent s id)) := by
    simp only [step] at hs
    split at hs
    · cases hs
    · rename_i hr
      have hr : s.reader = .reading := by simpa using hr
      -- the reader is parked in `Read`, so the connection has not failed yet
      have hd : s.done = false := by
        cases hd : s.done
        · rfl
        · exact absurd hr (g.dr hd)
      simp only [hl] at hs
      split at hs
      · injection hs with hs; subst hs
        exact Or.inl ⟨hd, rfl, rfl⟩
      · injection hs with hs; subst hs
        rw [readerAtM_eq, readerAtN_fatal (s := eraseSent s id) (ctxEnded_multi _ _) hfat hd]
        split
        · exact Or.inl ⟨hd, rfl, rfl⟩
        · exact Or.inr ⟨rfl, rfl, rfl, rfl, rfl⟩
  rcases key with k | ⟨k1, k2, k3, k4, k5⟩
  · exact Or.inl k
  · refine Or.inr ⟨k1, k2, k3, k4, k5, ?_, ?_⟩
    · intro c hc
      have hm : Dlv.mk c (((rs.find? (·.1 == c)).map (·.2)).getD .retryable) (some id) ∈ s'.delivered := by
        rw [k5]
        exact List.mem_append_left _ (List.mem_append_right _ (List.mem_map.2 ⟨c, hc, rfl⟩))
      have : 0 < deliveredCount s' c :=
        List.length_pos_of_mem (List.mem_filter.2 ⟨hm, by simp⟩)
      have := hone c
      exact ⟨by omega, hm⟩
    · intro c hc
      have hm : Dlv.mk c .connErr none ∈ s'.delivered := by
        rw [k5]
        refine List.mem_append_right _ ?_
        rcases hc with ⟨ho, hn⟩ | ho
        · exact mem_failDlv_sent (outstanding_erase hnd hl ho hn)
        · exact mem_failDlv_offered (s := eraseSent s id) ho
      have : 0 < deliveredCount s' c :=
        List.length_pos_of_mem (List.mem_filter.2 ⟨hm, by simp⟩)
      have := hone c
      exact ⟨by omega, hm⟩

/-- The reader does not forget such a frame: from one event to the next — whatever the event —
it still holds the multi with its response, or the connection has been failed. (It lets go of it
only by dealing with it — `clear` returning, or the hand-off of `inFlightM` when the arming sender
is through — and that fails the connection; the multi's own context never ends.) -/
theorem server_exception_in_multi_not_forgotten {q : Nat} {s s' : St} {a : Act} {id : Nat}
    {cs : List Nat} {f : Frame} (_h : Reachable q s)
    (hh : s.reader.held = some (id, .multi cs, f)) (hf : f.fatal = true)
    (hs : step s a = some s') :
    s'.reader.held = some (id, .multi cs, f) ∨ s'.done = true :=
  held_fatal_step hh hf hs

/-- The multi [1] and the multi [2, 3] are outstanding, a third multi [4] is being written: the
response to [2, 3] says "server stopped" for action 2 and answers action 3. 2 and 3 get their own
results, 1 and 4 the connection-level error; the connection is done and the write of the third
multi can only fail … -/
example : ∃ s, run (init 2) [.queueBatched 1, .queueBatched 2, .queueBatched 3,
      .write .writer true .ok, .arm .writer .ok, .write .writer true .ok, .arm .writer .ok,
      .queueBatched 4, .read 2 (.perCall [(2, .connErr), (3, .ok)])] = some s ∧
    s.done = true ∧ s.sent = [] ∧ s.reader = .exited ∧
    s.delivered = [⟨2, .connErr, some 2⟩, ⟨3, .ok, some 2⟩, ⟨1, .connErr, none⟩,
      ⟨4, .connErr, none⟩] ∧
    step s (.write .writer true .ok) = none := by
  refine ⟨_, rfl, ?_⟩
  decide

/-- … which completes nothing a second time and leaves everything at rest; a new call is refused -/
example : ∃ s, run (init 2) [.queueBatched 1, .queueBatched 2, .queueBatched 3,
      .write .writer true .ok, .arm .writer .ok, .write .writer true .ok, .arm .writer .ok,
      .queueBatched 4, .read 2 (.perCall [(2, .connErr), (3, .ok)]), .write .writer true .err,
      .queueDirect 6] = some s ∧
    s.done = true ∧ quiescent s = true ∧
    s.delivered = [⟨2, .connErr, some 2⟩, ⟨3, .ok, some 2⟩, ⟨1, .connErr, none⟩,
      ⟨4, .connErr, none⟩, ⟨6, .connErr, none⟩] := by
  refine ⟨_, rfl, ?_⟩
  decide

/-- the hypotheses of `server_exception_in_multi_fails_connection` are satisfiable, in its second
case (the connection is failed within the `read` event) … -/
example : ∃ s s', Reachable 2 s ∧ lookupSent s 2 = some (.multi [2, 3]) ∧
    step s (.read 2 (.perCall [(2, .connErr), (3, .ok)])) = some s' ∧ s'.done = true ∧
    outstanding s = [1, 2, 3, 4] ∧ s.offered = [] ∧ deliveredCount s' 1 = 1 ∧
    deliveredCount s' 4 = 1 := by
  refine ⟨_, _, ⟨[.queueBatched 1, .queueBatched 2, .queueBatched 3,
      .write .writer true .ok, .arm .writer .ok, .write .writer true .ok, .arm .writer .ok,
      .queueBatched 4], rfl⟩, ?_, rfl, ?_⟩
  · decide
  · decide

/-- … and in its first: the multi is the only outstanding request, so the reader first clears the
read deadline with the frame in its hand (nothing delivered yet); `clear` then delivers and fails
the connection (`server_exception_in_multi_not_forgotten`) — here with the exception of a whole
region (both calls `connErr`). -/
example : ∃ s s' s'', run (init 2) [.queueBatched 1, .queueBatched 2, .queueBatched 3,
      .write .writer true .ok, .arm .writer .ok, .write .writer true .ok, .arm .writer .ok,
      .read 1 (.perCall [(1, .nsre)])] = some s ∧
    step s (.read 2 (.perCall [(2, .connErr), (3, .connErr)])) = some s' ∧
    step s' (.clear .ok) = some s'' ∧
    lookupSent s 2 = some (.multi [2, 3]) ∧
    s'.done = false ∧ s'.delivered = s.delivered ∧
    s'.reader.held = some (2, .multi [2, 3], .perCall [(2, .connErr), (3, .connErr)]) ∧
    s''.done = true ∧ s''.reader = .exited ∧
    s''.delivered = [⟨1, .nsre, some 1⟩, ⟨2, .connErr, some 2⟩, ⟨3, .connErr, some 2⟩] := by
  refine ⟨_, _, _, rfl, rfl, rfl, ?_⟩
  decide

/-- position of the first occurrence -/
def posOf (x : String) : List String → Nat
  | [] => 0
  | y :: ys => if y == x then 0 else posOf x ys + 1

/-- Regenerated from region/client.go: inside `fail`, `done` is closed first, then the connection
is closed, and only then is the `sent` map swept (`failSentRPCs`).  The model's single `fail` step
and its environment assumption "a Write that completes after the failure transition reports an
error" rest on exactly this order: a call registered *after* the sweep then meets a closed
connection and is completed by its own sender (`no_stranding`); with the sweep before the close it
could be written successfully and nobody would ever complete it. -/
theorem fail_closes_before_sweeping_in_source :
    GV.Gen.Exits.failCalls.contains "close(c.done)" = true ∧
    posOf "close(c.done)" GV.Gen.Exits.failCalls < posOf "conn.Close" GV.Gen.Exits.failCalls ∧
    posOf "conn.Close" GV.Gen.Exits.failCalls < posOf "c.failSentRPCs" GV.Gen.Exits.failCalls ∧
    posOf "c.failSentRPCs" GV.Gen.Exits.failCalls < GV.Gen.Exits.failCalls.length := by decide

end GV.Conn
